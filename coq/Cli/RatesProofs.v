(* Lemmas about the byte-string primitives of Cli/Rates.v *)
From Coq Require Import Lia ZifyBool.
From FendV Require Import Base.Prelude Cli.Rates.
Open Scope N_scope.
Arguments N.add : simpl never.
Arguments N.sub : simpl never.
Arguments N.mul : simpl never.
Arguments N.div : simpl never.
Arguments N.modulo : simpl never.
Arguments N.eqb : simpl never.
Arguments N.ltb : simpl never.
Arguments N.leb : simpl never.

(* ------------------------------------------------------------------ *)
(* occurs                                                                *)

Lemma occurs_refl : forall l, occurs l l.
Proof. intros l. exists [], []. now rewrite app_nil_r. Qed.

Lemma occurs_trans : forall a b c, occurs a b -> occurs b c -> occurs a c.
Proof.
  intros a b c [p1 [q1 H1]] [p2 [q2 H2]]. subst.
  exists (p2 ++ p1), (q1 ++ q2). now rewrite !app_assoc.
Qed.

Lemma occurs_mid : forall p x q, occurs x (p ++ x ++ q).
Proof. intros. now exists p, q. Qed.

Lemma occurs_prefix : forall x q, occurs x (x ++ q).
Proof. intros. now exists [], q. Qed.

Lemma occurs_suffix : forall p x, occurs x (p ++ x).
Proof. intros. exists p, []. now rewrite app_nil_r. Qed.

Lemma occurs_app_r : forall x l p, occurs x l -> occurs x (p ++ l).
Proof. intros x l p H. eapply occurs_trans; [exact H | apply occurs_suffix]. Qed.

Lemma occurs_app_l : forall x l q, occurs x l -> occurs x (l ++ q).
Proof. intros x l q H. eapply occurs_trans; [exact H | apply occurs_prefix]. Qed.

(* ------------------------------------------------------------------ *)
(* starts_with / strip_prefix                                            *)

Lemma starts_with_iff : forall p l, starts_with p l = true <-> exists r, l = p ++ r.
Proof.
  induction p as [|a p IH]; intros l; simpl.
  - split; [intros _; now exists l | reflexivity].
  - destruct l as [|b l].
    + split; [discriminate | intros [r H]; discriminate].
    + rewrite andb_true_iff, N.eqb_eq, IH. split.
      * intros [-> [r ->]]. now exists r.
      * intros [r H]. inversion H. split; [reflexivity | now exists r].
Qed.

Lemma starts_with_app : forall p r, starts_with p (p ++ r) = true.
Proof. intros. apply starts_with_iff. now exists r. Qed.

Lemma strip_prefix_iff : forall p l r, strip_prefix p l = Some r <-> l = p ++ r.
Proof.
  induction p as [|a p IH]; intros l r; simpl.
  - split; [intros H; now inversion H | intros ->; reflexivity].
  - destruct l as [|b l].
    + split; discriminate.
    + destruct (N.eqb_spec a b) as [->|Hne].
      * rewrite IH. split; [intros ->; reflexivity | intros H; now inversion H].
      * split; [discriminate | intros H; inversion H; congruence].
Qed.

Lemma strip_prefix_app : forall p r, strip_prefix p (p ++ r) = Some r.
Proof. intros. now apply strip_prefix_iff. Qed.

Lemma starts_with_short : forall n p s,
  starts_with n (p ++ s) = true -> starts_with n p = false -> (length p < length n)%nat.
Proof.
  induction n as [|a n IH]; intros p s H1 H2; simpl in *.
  - discriminate.
  - destruct p as [|b p]; simpl in *; [lia|].
    destruct (N.eqb_spec a b); simpl in *; [|discriminate].
    specialize (IH _ _ H1 H2). lia.
Qed.

Lemma starts_with_len : forall n l, starts_with n l = true -> (length n <= length l)%nat.
Proof.
  intros n l H. apply starts_with_iff in H as [r ->]. rewrite app_length. lia.
Qed.

(* ------------------------------------------------------------------ *)
(* find_byte                                                             *)

Lemma find_byte_some : forall c l i, find_byte c l = Some i ->
  l = firstn i l ++ c :: skipn (S i) l /\ ~ In c (firstn i l) /\ (i < length l)%nat.
Proof.
  induction l as [|b l IH]; intros i H; simpl in H; [discriminate|].
  destruct (N.eqb_spec b c) as [->|Hne].
  - inversion H; subst. simpl. repeat split; [tauto | lia].
  - destruct (find_byte c l) as [j|] eqn:E; simpl in H; [|discriminate].
    inversion H; subst. destruct (IH j eq_refl) as [H1 [H2 H3]].
    cbn [firstn skipn length app]. repeat split.
    + f_equal. exact H1.
    + simpl. intros [Hx|Hx]; [now apply Hne | now apply H2].
    + lia.
Qed.

Lemma find_byte_app : forall c t v, ~ In c t -> find_byte c (t ++ c :: v) = Some (length t).
Proof.
  induction t as [|b t IH]; intros v H; simpl.
  - now rewrite N.eqb_refl.
  - destruct (N.eqb_spec b c) as [->|Hne]; [exfalso; apply H; now left|].
    rewrite IH; [reflexivity | intros Hx; apply H; now right].
Qed.

(* ------------------------------------------------------------------ *)
(* find_sub                                                              *)

Lemma find_sub_eq : forall n l,
  find_sub n l = if starts_with n l then Some O else
                 match l with [] => None | _ :: r => option_map S (find_sub n r) end.
Proof. intros n l. destruct l; reflexivity. Qed.

Lemma find_sub_some : forall n l i, find_sub n l = Some i ->
  exists pre post, l = pre ++ n ++ post /\ length pre = i.
Proof.
  induction l as [|b l IH]; intros i H; rewrite find_sub_eq in H.
  - destruct (starts_with n []) eqn:E; [|discriminate].
    inversion H; subst. apply starts_with_iff in E as [r E]. now exists [], r.
  - destruct (starts_with n (b :: l)) eqn:E.
    + inversion H; subst. apply starts_with_iff in E as [r E]. now exists [], r.
    + destruct (find_sub n l) as [j|] eqn:F; simpl in H; [|discriminate].
      inversion H; subst. destruct (IH j eq_refl) as [pre [post [H1 H2]]].
      exists (b :: pre), post. split; [now rewrite H1 | simpl; now rewrite H2].
Qed.

Lemma find_sub_len : forall n l i, find_sub n l = Some i -> (i + length n <= length l)%nat.
Proof.
  intros n l i H. apply find_sub_some in H as [pre [post [-> <-]]].
  rewrite !app_length. lia.
Qed.

Lemma find_sub_app : forall n p s i, find_sub n p = Some i -> find_sub n (p ++ s) = Some i.
Proof.
  induction p as [|b p IH]; intros s i H; rewrite find_sub_eq in H.
  - destruct (starts_with n []) eqn:E; [|discriminate]. inversion H; subst.
    apply starts_with_iff in E as [r E]. destruct n; [|discriminate]. now destruct s.
  - destruct (starts_with n (b :: p)) eqn:E.
    + inversion H; subst. rewrite find_sub_eq.
      apply starts_with_iff in E as [r E]. rewrite E, <- app_assoc, starts_with_app. reflexivity.
    + destruct (find_sub n p) as [j|] eqn:F; simpl in H; [|discriminate].
      inversion H; subst. rewrite find_sub_eq.
      destruct (starts_with n ((b :: p) ++ s)) eqn:G.
      * pose proof (starts_with_short _ _ _ G E) as L.
        apply find_sub_len in F. simpl in L. lia.
      * simpl. now rewrite (IH s j eq_refl).
Qed.

(* splitting a text at an occurrence *)
Lemma skipn_pre : forall (pre x : list N), skipn (length pre) (pre ++ x) = x.
Proof. intros. rewrite skipn_app, skipn_all, Nat.sub_diag. reflexivity. Qed.

Lemma firstn_pre : forall (pre x : list N), firstn (length pre) (pre ++ x) = pre.
Proof. intros. rewrite firstn_app, firstn_all, Nat.sub_diag. simpl. now rewrite app_nil_r. Qed.

Lemma skipn_pre_add : forall (pre n x : list N),
  skipn (length pre + length n) (pre ++ n ++ x) = x.
Proof.
  intros. rewrite <- app_length, app_assoc. apply skipn_pre.
Qed.

(* ------------------------------------------------------------------ *)
(* slices                                                                *)

Lemma slice_from_ok : forall k n l r, slice_from k n l = ROk r ->
  r = skipn n l /\ (n <= length l)%nat.
Proof.
  unfold slice_from, boundary_at. intros k n l r H.
  destruct (Nat.leb_spec n (length l)); simpl in H; [|discriminate].
  destruct (match skipn n l with [] => true | b :: _ => negb (is_cont b) end); inversion H.
  split; [reflexivity | assumption].
Qed.

Lemma slice_to_ok : forall k n l r, slice_to k n l = ROk r ->
  r = firstn n l /\ (n <= length l)%nat.
Proof.
  unfold slice_to, boundary_at. intros k n l r H.
  destruct (Nat.leb_spec n (length l)); simpl in H; [|discriminate].
  destruct (match skipn n l with [] => true | b :: _ => negb (is_cont b) end); inversion H.
  split; [reflexivity | assumption].
Qed.

Lemma slice_from_cases : forall k n l, slice_from k n l = ROk (skipn n l) \/ slice_from k n l = RPanic k.
Proof. intros. unfold slice_from. destruct (boundary_at n l); auto. Qed.

Lemma slice_to_cases : forall k n l, slice_to k n l = ROk (firstn n l) \/ slice_to k n l = RPanic k.
Proof. intros. unfold slice_to. destruct (boundary_at n l); auto. Qed.

(* a boundary in front of a byte that is not a continuation byte *)
Lemma boundary_before : forall pre b x, is_cont b = false ->
  boundary_at (length pre) (pre ++ b :: x) = true.
Proof.
  intros pre b x H. unfold boundary_at. rewrite skipn_pre, H.
  rewrite app_length. simpl. rewrite andb_true_r. apply Nat.leb_le. lia.
Qed.

Lemma boundary_end : forall (l : list N), boundary_at (length l) l = true.
Proof.
  intros. unfold boundary_at. rewrite skipn_all, Nat.leb_refl. reflexivity.
Qed.

(* ------------------------------------------------------------------ *)
(* wf_cont: no continuation byte right after an ASCII byte               *)

Lemma wf_cont_weaken : forall l p, wf_cont true l = true -> wf_cont p l = true.
Proof.
  intros l p H. destruct l as [|b r]; [reflexivity|]. simpl in *.
  apply andb_true_iff in H as [H1 H2]. rewrite H2, andb_true_r.
  destruct p; [exact H1|reflexivity].
Qed.

Lemma wf_cont_after_ascii : forall x p a y,
  wf_cont p (x ++ a :: y) = true -> a <? 128 = true -> wf_cont true y = true.
Proof.
  induction x as [|b x IH]; intros p a y H Ha; simpl in H.
  - apply andb_true_iff in H as [_ H]. now rewrite Ha in H.
  - apply andb_true_iff in H as [_ H]. eapply IH; eauto.
Qed.

Lemma wf_cont_head : forall y, wf_cont true y = true ->
  match y with b :: _ => is_cont b = false | [] => True end.
Proof.
  intros [|b r] H; [exact I|]. simpl in H. apply andb_true_iff in H as [H _].
  now destruct (is_cont b).
Qed.

Lemma boundary_after_ascii : forall x a y p,
  wf_cont p (x ++ a :: y) = true -> a <? 128 = true ->
  boundary_at (S (length x)) (x ++ a :: y) = true.
Proof.
  intros x a y p H Ha. pose proof (wf_cont_after_ascii _ _ _ _ H Ha) as W.
  apply wf_cont_head in W. unfold boundary_at.
  replace (x ++ a :: y) with ((x ++ [a]) ++ y) by now rewrite <- app_assoc.
  replace (S (length x)) with (length (x ++ [a])) by (rewrite app_length; simpl; lia).
  rewrite skipn_pre. rewrite !app_length. simpl.
  replace (Nat.leb (length x + 1) (length x + 1 + length y)) with true
    by (symmetry; apply Nat.leb_le; lia).
  destruct y as [|b r]; [reflexivity|]. now rewrite W.
Qed.

Lemma utf8_valid_wf_cont : forall l, utf8_valid l = true -> wf_cont true l = true.
Proof.
  intros l. remember (length l) as n eqn:Hn. revert l Hn.
  induction n as [n IH] using lt_wf_ind. intros l Hn H.
  destruct l as [|a r]; [reflexivity|]. simpl in H.
  assert (Hc : forall b, is_cont b = true -> b <? 128 = false).
  { intros b Hb. unfold is_cont in Hb. lia. }
  destruct (a <? 128) eqn:A.
  - simpl. rewrite A. replace (is_cont a) with false by (unfold is_cont; lia).
    simpl. eapply IH; [| reflexivity | exact H]. subst; simpl; lia.
  - unfold inr8 in H.
    assert (Ha : is_cont a = false).
    { unfold is_cont. destruct ((194 <=? a) && (a <=? 223)) eqn:E1; [lia|].
      destruct ((224 <=? a) && (a <=? 239)) eqn:E2; [lia|].
      destruct ((240 <=? a) && (a <=? 244)) eqn:E3; [lia|]. discriminate. }
    cbn [wf_cont]. rewrite Ha, A. cbn [andb negb].
    destruct ((194 <=? a) && (a <=? 223)) eqn:E1.
    { destruct r as [|b r2]; [discriminate|].
      apply andb_true_iff in H as [Hb H].
      cbn [wf_cont andb negb]. rewrite (Hc _ Hb). apply wf_cont_weaken.
      eapply IH; [| reflexivity | exact H]. subst; simpl; lia. }
    destruct ((224 <=? a) && (a <=? 239)) eqn:E2.
    { destruct r as [|b [|c r3]]; try discriminate.
      apply andb_true_iff in H as [H H3]. apply andb_true_iff in H as [Hb Hcc].
      assert (Hb' : b <? 128 = false).
      { destruct (a =? 224); [lia|]. destruct (a =? 237); [lia|]. now apply Hc. }
      cbn [wf_cont andb negb]. rewrite Hb', (Hc _ Hcc). cbn [andb negb].
      apply wf_cont_weaken. eapply IH; [| reflexivity | exact H3]. subst; simpl; lia. }
    destruct ((240 <=? a) && (a <=? 244)) eqn:E3; [|discriminate].
    destruct r as [|b [|c [|d r4]]]; try discriminate.
    apply andb_true_iff in H as [H H4]. apply andb_true_iff in H as [H Hd].
    apply andb_true_iff in H as [Hb Hcc].
    assert (Hb' : b <? 128 = false).
    { destruct (a =? 240); [lia|]. destruct (a =? 244); [lia|]. now apply Hc. }
    cbn [wf_cont andb negb]. rewrite Hb', (Hc _ Hcc), (Hc _ Hd). cbn [andb negb].
    apply wf_cont_weaken. eapply IH; [| reflexivity | exact H4]. subst; simpl; lia.
Qed.
