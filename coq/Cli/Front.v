(* Model of the fend command-line front-end (C19):
     cli/src/args.rs    Action::from_args           -> fold_args / from_args
     cli/src/main.rs    eval_exprs, real_main       -> eval_exprs / main_out
     cli/src/config.rs  ConfigVisitor, read_config_file,
     cli/src/custom_units.rs                         -> visit_config / read_config
   Strings are lists of UTF-8 bytes.  The file system ([read]), fend_core
   ([core]), standard input, terminal detection and the `toml` crate (which
   hands over a value tree or fails) are oracles: Section variables.
   No proofs in this file. *)
From FendV Require Import Base.Prelude Cli.Rates.
Open Scope N_scope.

Definition str := list N.

(* ------------------------------------------------------------------ *)
(* args.rs                                                               *)

Inductive action :=
| AHelp | AVersion | ARepl | AEval (exprs : list str) | ADefaultConfig.

Inductive ares :=
| AOk (a : action)
| AErrNoFilename          (* "expected a filename" *)
| AErrNoExpr              (* "expected an expression" *)
| AErrRead (file : str).   (* the io::Error of fs::read_to_string(-f file) *)

Definition is_one_of (a : str) (ws : list str) : bool := existsb (list_N_eqb a) ws.

Definition HELP_WORDS := [B"help"; B"--help"; B"-h"].
Definition VERSION_WORDS := [B"--version"; B"-v"; B"-V"].
Definition DEFCFG_WORDS := [B"--default-config"; B"--print-default-config"].
Definition FILE_WORDS := [B"-f"; B"--file"].
Definition EVAL_WORDS := [B"-e"; B"--eval"].

Record st := mkst {
  s_help : bool; s_ver : bool; s_def : bool;
  s_bdd : bool;                 (* before_double_dash *)
  s_exprs : list str;
  s_expr : str
}.

Definition st0 : st := mkst false false false true [] [].

(* `if !expr.is_empty() { exprs.push(expr); expr = String::new(); } exprs.push(x)` *)
Definition flush_push (s : st) (x : str) : st :=
  mkst (s_help s) (s_ver s) (s_def s) (s_bdd s)
       ((match s_expr s with [] => s_exprs s | _ :: _ => s_exprs s ++ [s_expr s] end) ++ [x]) [].

(* `if !arg.trim().is_empty() { if !expr.is_empty() { expr.push(' ') } expr.push_str(arg) }` *)
Definition push_word (e : str) (w : str) : str :=
  match e with [] => w | _ :: _ => e ++ [32] ++ w end.

Definition blank (w : str) : bool := match trim w with [] => true | _ :: _ => false end.

Definition add_word (s : st) (w : str) : st :=
  if blank w then s
  else mkst (s_help s) (s_ver s) (s_def s) (s_bdd s) (s_exprs s) (push_word (s_expr s) w).

Section Args.
(* fs::read_to_string: Some contents iff the path can be opened and read and
   is valid UTF-8 *)
Variable read : str -> option str.

Fixpoint fold_args (args : list str) (s : st) : st + ares :=
  match args with
  | [] => inl s
  | a :: r =>
    if s_bdd s && is_one_of a HELP_WORDS then
      fold_args r (mkst true (s_ver s) (s_def s) (s_bdd s) (s_exprs s) (s_expr s))
    else if s_bdd s && is_one_of a VERSION_WORDS then
      fold_args r (mkst (s_help s) true (s_def s) (s_bdd s) (s_exprs s) (s_expr s))
    else if s_bdd s && is_one_of a DEFCFG_WORDS then
      fold_args r (mkst (s_help s) (s_ver s) true (s_bdd s) (s_exprs s) (s_expr s))
    else if s_bdd s && is_one_of a FILE_WORDS then
      match r with
      | [] => inr AErrNoFilename
      | f :: r' =>
        match read f with
        | None => inr (AErrRead f)
        | Some contents => fold_args r' (flush_push s contents)
        end
      end
    else if s_bdd s && is_one_of a EVAL_WORDS then
      match r with
      | [] => inr AErrNoExpr
      | e :: r' => fold_args r' (flush_push s e)
      end
    else if s_bdd s && list_N_eqb a (B"--") then
      fold_args r (mkst (s_help s) (s_ver s) (s_def s) false (s_exprs s) (s_expr s))
    else
      match (if s_bdd s then read a else None) with
      | Some contents => fold_args r (flush_push s contents)
      | None => fold_args r (add_word s a)
      end
  end.

Definition finish (s : st) : action :=
  if s_help s then AHelp
  else if s_ver s then AVersion
  else if s_def s then ADefaultConfig
  else match s_exprs s, s_expr s with
       | [], [] => ARepl
       | es, [] => AEval es
       | es, e => AEval (es ++ [e])
       end.

Definition from_args (args : list str) : ares :=
  match fold_args args st0 with
  | inl s => AOk (finish s)
  | inr e => e
  end.

(* ---- specification: lex the arguments, then decide ------------------- *)

Inductive item :=
| IHelp | IVersion | IDefCfg
| IExpr (s : str)     (* a complete expression: -e argument or file contents *)
| IWord (w : str).     (* a positional argument that is not a readable file *)

Inductive lexed := LOk (its : list item) | LErr (e : ares).

Fixpoint lex (bdd : bool) (args : list str) : lexed :=
  match args with
  | [] => LOk []
  | a :: r =>
    let cons (i : item) (l : lexed) :=
      match l with LOk its => LOk (i :: its) | LErr e => LErr e end in
    if negb bdd then cons (IWord a) (lex false r)
    else if is_one_of a HELP_WORDS then cons IHelp (lex true r)
    else if is_one_of a VERSION_WORDS then cons IVersion (lex true r)
    else if is_one_of a DEFCFG_WORDS then cons IDefCfg (lex true r)
    else if is_one_of a FILE_WORDS then
      match r with
      | [] => LErr AErrNoFilename
      | f :: r' => match read f with
                   | None => LErr (AErrRead f)
                   | Some c => cons (IExpr c) (lex true r')
                   end
      end
    else if is_one_of a EVAL_WORDS then
      match r with
      | [] => LErr AErrNoExpr
      | e :: r' => cons (IExpr e) (lex true r')
      end
    else if list_N_eqb a (B"--") then lex false r
    else match read a with
         | Some c => cons (IExpr c) (lex true r)
         | None => cons (IWord a) (lex true r)
         end
  end.

End Args.

(* words joined by single spaces *)
Definition join_sp (ws : list str) : str :=
  match ws with
  | [] => []
  | w :: r => w ++ concat (map (fun x => 32 :: x) r)
  end.

Definition opt_join (ws : list str) : list str :=
  match ws with [] => [] | _ :: _ => [join_sp ws] end.

(* right fold: (non-blank words before the first complete expression,
                expressions from the first complete expression on) *)
Fixpoint group (its : list item) : list str * list str :=
  match its with
  | [] => ([], [])
  | IWord w :: r => let '(ws, es) := group r in ((if blank w then ws else w :: ws), es)
  | IExpr s :: r => let '(ws, es) := group r in ([], s :: opt_join ws ++ es)
  | _ :: r => group r
  end.

Definition spec_exprs (its : list item) : list str :=
  let '(ws, es) := group its in opt_join ws ++ es.

Definition is_help (i : item) := match i with IHelp => true | _ => false end.
Definition is_version (i : item) := match i with IVersion => true | _ => false end.
Definition is_defcfg (i : item) := match i with IDefCfg => true | _ => false end.

Definition decide (its : list item) : action :=
  if existsb is_help its then AHelp
  else if existsb is_version its then AVersion
  else if existsb is_defcfg its then ADefaultConfig
  else match spec_exprs its with [] => ARepl | es => AEval es end.

Definition spec_from_args (read : str -> option str) (args : list str) : ares :=
  match lex read true args with
  | LOk its => AOk (decide its)
  | LErr e => e
  end.

(* ------------------------------------------------------------------ *)
(* main.rs                                                               *)

(* what fend_core::evaluate returns, as far as the front-end looks at it *)
Inductive cres :=
| CErr (msg : str)
| COk (text : str) (is_unit : bool) (trailing_nl : bool) (no_spans : bool).

Record out := mkout { o_stdout : str; o_stderr : str; o_exit : N }.

Definition is_cok (r : cres) : bool := match r with COk _ _ _ _ => true | CErr _ => false end.

(* eval_and_print_res with print_res = true, colours off *)
Definition render (r : cres) : str :=
  match r with
  | CErr _ => []
  | COk text is_unit nl no_spans =>
    if no_spans || is_unit then [] else text ++ (if nl then [10] else [])
  end.

Section Main.
Variable ctx : Type.
Variable core : ctx -> str -> ctx * cres.    (* evaluate on the shared context *)

(* `for (i, expr) in exprs.iter().enumerate()`: print only the last, stop at the first error *)
Fixpoint eval_exprs (c : ctx) (es : list str) : out :=
  match es with
  | [] => mkout [] [] 0
  | e :: r =>
    let '(c', res) := core c e in
    match res with
    | CErr m => mkout [] (B"Error: " ++ m ++ [10]) 1
    | COk _ _ _ _ =>
      let printed := match r with [] => render res | _ :: _ => [] end in
      let o := eval_exprs c' r in
      mkout (printed ++ o_stdout o) (o_stderr o) (o_exit o)
    end
  end.

(* specification vocabulary: all results with the context threaded through *)
Fixpoint results (c : ctx) (es : list str) : list cres :=
  match es with
  | [] => []
  | e :: r => let '(c', res) := core c e in res :: results c' r
  end.

(* the context after evaluating a list of expressions *)
Fixpoint ctx_after (c : ctx) (es : list str) : ctx :=
  match es with
  | [] => c
  | e :: r => ctx_after (fst (core c e)) r
  end.

(* real_main on an already folded action; texts of --help, --version and
   --default-config are given *)
Variable help_text version_text defcfg_text : str.

Inductive stdin_state :=
| Terminal                       (* interactive: the REPL, not modelled *)
| Piped (contents : option str). (* None: read_to_string failed (not UTF-8) *)

Definition main_out (c0 : ctx) (a : ares) (stdin : stdin_state) (stdin_err : str) : option out :=
  match a with
  | AOk AHelp => Some (mkout help_text [] 0)
  | AOk AVersion => Some (mkout (version_text ++ [10]) [] 0)
  | AOk ADefaultConfig => Some (mkout (defcfg_text ++ [10]) [] 0)
  | AOk (AEval es) => Some (eval_exprs c0 es)
  | AOk ARepl =>
    match stdin with
    | Terminal => None
    | Piped (Some input) => Some (eval_exprs c0 [input])
    | Piped None => Some (mkout [] (B"Error: " ++ stdin_err ++ [10]) 1)
    end
  | AErrNoFilename => Some (mkout [] (B"Error: expected a filename" ++ [10]) 1)
  | AErrNoExpr => Some (mkout [] (B"Error: expected an expression" ++ [10]) 1)
  | AErrRead _ => Some (mkout [] (B"Error: " ++ stdin_err ++ [10]) 1)
  end.

End Main.

(* ------------------------------------------------------------------ *)
(* config.rs / custom_units.rs: serde visitors over the toml value tree  *)

Inductive tv :=
| TStr (s : str)
| TInt (z : Z)
| TFloat
| TBool (b : bool)
| TDate
| TArr (l : list tv)
| TTab (kv : list (str * tv)).

Inductive cu_attr := CuNone | CuLong | CuShort | CuIsLong | CuAlias.

Record cunit := mkcu { cu_singular : str; cu_plural : str; cu_definition : str; cu_attribute : cu_attr }.

Inductive csource := SDisabled | SEU | SUN.

(* enable_colors as written; `auto` is resolved by use_colors_if_auto() (an
   oracle: environment and terminal) *)
Inductive cmode := CNever | CAuto | CAlways.

Record config := mkcfg {
  c_prompt : str;
  c_colors_mode : cmode;
  c_coulomb : bool;
  c_max_hist : Z;
  c_internet : bool;
  c_source : csource;
  c_max_age : Z;
  c_units : list cunit;
  c_comma : bool;               (* decimal_separator = Comma *)
  c_warn : bool;                (* unknown_settings = Warn *)
  c_unknown : list str;         (* unknown_keys, in visiting order *)
  c_diag_colors : bool          (* "unknown config setting for enable-colors" printed *)
}.

Definition default_config : config :=
  mkcfg (B"> ") CAuto false 1000 true SEU 259200 [] false true [] false.

Definition seq (a : str) (s : string) : bool := list_N_eqb a (bytes_of_string s).

(* u64 / usize from a toml integer (i64) *)
Definition as_unsigned (v : tv) : option Z :=
  match v with TInt z => if (z <? 0)%Z then None else Some z | _ => None end.
Definition as_bool (v : tv) : option bool := match v with TBool b => Some b | _ => None end.
Definition as_string (v : tv) : option str := match v with TStr s => Some s | _ => None end.

Definition parse_attr (s : str) : option cu_attr :=
  if seq s "none" then Some CuNone
  else if seq s "allow-long-prefix" then Some CuLong
  else if seq s "allow-short-prefix" then Some CuShort
  else if seq s "is-long-prefix" then Some CuIsLong
  else if seq s "alias" then Some CuAlias
  else None.

(* CustomUnitDefinitionVisitor::visit_map *)
Fixpoint visit_unit (kv : list (str * tv)) (u : cunit) (seen : bool * bool * bool * bool) : option cunit :=
  match kv with
  | [] =>
    match cu_singular u, cu_definition u with
    | [], _ => None                         (* missing_field("singular") *)
    | _, [] => None                         (* missing_field("definition") *)
    | _, _ => Some u
    end
  | (k, v) :: r =>
    let '(ss, sp, sd, sa) := seen in
    if seq k "singular" then
      if ss then None else
      match as_string v with
      | Some s => visit_unit r (mkcu s (cu_plural u) (cu_definition u) (cu_attribute u)) (true, sp, sd, sa)
      | None => None
      end
    else if seq k "plural" then
      if sp then None else
      match as_string v with
      | Some [] => None
      | Some s => visit_unit r (mkcu (cu_singular u) s (cu_definition u) (cu_attribute u)) (ss, true, sd, sa)
      | None => None
      end
    else if seq k "definition" then
      if sd then None else
      match as_string v with
      | Some [] => None
      | Some s => visit_unit r (mkcu (cu_singular u) (cu_plural u) s (cu_attribute u)) (ss, sp, true, sa)
      | None => None
      end
    else if seq k "attribute" then
      if sa then None else
      match as_string v with
      | Some s => match parse_attr s with
                  | Some a => visit_unit r (mkcu (cu_singular u) (cu_plural u) (cu_definition u) a) (ss, sp, sd, true)
                  | None => None
                  end
      | None => None
      end
    else None                               (* unknown_field *)
  end.

Definition unit_of (v : tv) : option cunit :=
  match v with
  | TTab kv => visit_unit kv (mkcu [] [] [] CuNone) (false, false, false, false)
  | _ => None
  end.

Fixpoint units_of (l : list tv) : option (list cunit) :=
  match l with
  | [] => Some []
  | v :: r => match unit_of v, units_of r with
              | Some u, Some us => Some (u :: us)
              | _, _ => None
              end
  end.

(* Color::deserialize: a table; foreground a string, underline / bold booleans,
   anything else is remembered as an unknown key *)
Fixpoint color_ok (kv : list (str * tv)) (seen : bool * bool * bool) : bool :=
  match kv with
  | [] => true
  | (k, v) :: r =>
    let '(sf, su, sb) := seen in
    if seq k "foreground" then
      negb sf && (match v with TStr _ => true | _ => false end) && color_ok r (true, su, sb)
    else if seq k "underline" then
      negb su && (match v with TBool _ => true | _ => false end) && color_ok r (sf, true, sb)
    else if seq k "bold" then
      negb sb && (match v with TBool _ => true | _ => false end) && color_ok r (sf, su, true)
    else color_ok r seen
  end.

Definition colors_ok (v : tv) : bool :=
  match v with
  | TTab kv => forallb (fun p => match snd p with
                                | TTab ckv => color_ok ckv (false, false, false)
                                | _ => false end) kv
  | _ => false
  end.

Record seen_flags := mkseen {
  n_prompt : bool; n_colors_mode : bool; n_coulomb : bool; n_colors : bool; n_hist : bool;
  n_internet : bool; n_source : bool; n_age : bool; n_units : bool; n_sep : bool
}.
Definition seen0 := mkseen false false false false false false false false false false.

(* one iteration of `while let Some(key) = map.next_key()` in
   ConfigVisitor::visit_map, the match arms in source order: which field is
   assigned ([upd]) and which seen-flag is raised; None = Err(_) *)
Inductive upd :=
| UPrompt (s : str)
| UMode (m : cmode)
| UModeDiag                (* unknown value for enable-colors: message printed, setting left alone *)
| UCoulomb (b : bool)
| USource (src : csource)
| UAge (z : Z)
| UColorsTable             (* `colors`: not modelled beyond its validity *)
| UHist (z : Z)
| UInternet (b : bool)
| UWarn (w : bool)
| UUnits (us : list cunit)
| UComma (b : bool)
| UUnknown (k : str).

Definition step_upd (n : seen_flags) (k : str) (v : tv) : option (upd * seen_flags) :=
    if seq k "prompt" then
      if n_prompt n then None else
      match as_string v with
      | Some s => Some (UPrompt s,
           mkseen true (n_colors_mode n) (n_coulomb n) (n_colors n) (n_hist n) (n_internet n) (n_source n) (n_age n) (n_units n) (n_sep n))
      | None => None
      end
    else if seq k "enable-colors" || seq k "color" then
      if n_colors_mode n then None else
      Some (match v with
            | TBool false => UMode CNever
            | TBool true => UMode CAuto
            | TStr s => if seq s "never" then UMode CNever
                        else if seq s "auto" then UMode CAuto
                        else if seq s "always" then UMode CAlways
                        else UModeDiag
            | _ => UModeDiag
            end,
           mkseen (n_prompt n) true (n_coulomb n) (n_colors n) (n_hist n) (n_internet n) (n_source n) (n_age n) (n_units n) (n_sep n))
    else if seq k "coulomb-and-farad" then
      if n_coulomb n then None else
      match as_bool v with
      | Some b => Some (UCoulomb b,
           mkseen (n_prompt n) (n_colors_mode n) true (n_colors n) (n_hist n) (n_internet n) (n_source n) (n_age n) (n_units n) (n_sep n))
      | None => None
      end
    else if seq k "exchange-rate-source" then
      if n_source n then None else
      match as_string v with
      | Some s =>
        match (if seq s "EU" then Some SEU else if seq s "UN" then Some SUN
               else if seq s "disabled" then Some SDisabled else None) with
        | Some src => Some (USource src,
             mkseen (n_prompt n) (n_colors_mode n) (n_coulomb n) (n_colors n) (n_hist n) (n_internet n) true (n_age n) (n_units n) (n_sep n))
        | None => None
        end
      | None => None
      end
    else if seq k "exchange-rate-max-age" then
      if n_age n then None else
      match as_unsigned v with
      | Some z => Some (UAge z,
           mkseen (n_prompt n) (n_colors_mode n) (n_coulomb n) (n_colors n) (n_hist n) (n_internet n) (n_source n) true (n_units n) (n_sep n))
      | None => None
      end
    else if seq k "colors" then
      if n_colors n then None else
      if colors_ok v then Some (UColorsTable,
           mkseen (n_prompt n) (n_colors_mode n) (n_coulomb n) true (n_hist n) (n_internet n) (n_source n) (n_age n) (n_units n) (n_sep n))
      else None
    else if seq k "max-history-size" then
      if n_hist n then None else
      match as_unsigned v with
      | Some z => Some (UHist z,
           mkseen (n_prompt n) (n_colors_mode n) (n_coulomb n) (n_colors n) true (n_internet n) (n_source n) (n_age n) (n_units n) (n_sep n))
      | None => None
      end
    else if seq k "enable-internet-access" then
      if n_internet n then None else
      match as_bool v with
      | Some b => Some (UInternet b,
           mkseen (n_prompt n) (n_colors_mode n) (n_coulomb n) (n_colors n) (n_hist n) true (n_source n) (n_age n) (n_units n) (n_sep n))
      | None => None
      end
    else if seq k "unknown-settings" then
      match as_string v with
      | Some s =>
        match (if seq s "ignore" then Some false else if seq s "warn" then Some true else None) with
        | Some w => Some (UWarn w, n)
        | None => None
        end
      | None => None
      end
    else if seq k "custom-units" then
      if n_units n then None else
      match v with
      | TArr l =>
        match units_of l with
        | Some us => Some (UUnits us,
             mkseen (n_prompt n) (n_colors_mode n) (n_coulomb n) (n_colors n) (n_hist n) (n_internet n) (n_source n) (n_age n) true (n_sep n))
        | None => None
        end
      | _ => None
      end
    else if seq k "decimal-separator-style" then
      if n_sep n then None else
      match as_string v with
      | Some s =>
        match (if seq s "dot" || seq s "default" then Some false else if seq s "comma" then Some true else None) with
        | Some b => Some (UComma b,
             mkseen (n_prompt n) (n_colors_mode n) (n_coulomb n) (n_colors n) (n_hist n) (n_internet n) (n_source n) (n_age n) (n_units n) true)
        | None => None
        end
      | None => None
      end
    else
      (* unknown key: the value is consumed whatever it is, the key remembered *)
      Some (UUnknown k, n).

Definition apply_upd (c : config) (u : upd) : config :=
  match u with
  | UPrompt s => mkcfg s (c_colors_mode c) (c_coulomb c) (c_max_hist c) (c_internet c) (c_source c) (c_max_age c)
                       (c_units c) (c_comma c) (c_warn c) (c_unknown c) (c_diag_colors c)
  | UMode m => mkcfg (c_prompt c) m (c_coulomb c) (c_max_hist c) (c_internet c) (c_source c) (c_max_age c)
                     (c_units c) (c_comma c) (c_warn c) (c_unknown c) (c_diag_colors c)
  | UModeDiag => mkcfg (c_prompt c) (c_colors_mode c) (c_coulomb c) (c_max_hist c) (c_internet c) (c_source c) (c_max_age c)
                       (c_units c) (c_comma c) (c_warn c) (c_unknown c) true
  | UCoulomb b => mkcfg (c_prompt c) (c_colors_mode c) b (c_max_hist c) (c_internet c) (c_source c) (c_max_age c)
                        (c_units c) (c_comma c) (c_warn c) (c_unknown c) (c_diag_colors c)
  | USource src => mkcfg (c_prompt c) (c_colors_mode c) (c_coulomb c) (c_max_hist c) (c_internet c) src (c_max_age c)
                         (c_units c) (c_comma c) (c_warn c) (c_unknown c) (c_diag_colors c)
  | UAge z => mkcfg (c_prompt c) (c_colors_mode c) (c_coulomb c) (c_max_hist c) (c_internet c) (c_source c) z
                    (c_units c) (c_comma c) (c_warn c) (c_unknown c) (c_diag_colors c)
  | UColorsTable => c
  | UHist z => mkcfg (c_prompt c) (c_colors_mode c) (c_coulomb c) z (c_internet c) (c_source c) (c_max_age c)
                     (c_units c) (c_comma c) (c_warn c) (c_unknown c) (c_diag_colors c)
  | UInternet b => mkcfg (c_prompt c) (c_colors_mode c) (c_coulomb c) (c_max_hist c) b (c_source c) (c_max_age c)
                         (c_units c) (c_comma c) (c_warn c) (c_unknown c) (c_diag_colors c)
  | UWarn w => mkcfg (c_prompt c) (c_colors_mode c) (c_coulomb c) (c_max_hist c) (c_internet c) (c_source c) (c_max_age c)
                     (c_units c) (c_comma c) w (c_unknown c) (c_diag_colors c)
  | UUnits us => mkcfg (c_prompt c) (c_colors_mode c) (c_coulomb c) (c_max_hist c) (c_internet c) (c_source c) (c_max_age c)
                       us (c_comma c) (c_warn c) (c_unknown c) (c_diag_colors c)
  | UComma b => mkcfg (c_prompt c) (c_colors_mode c) (c_coulomb c) (c_max_hist c) (c_internet c) (c_source c) (c_max_age c)
                      (c_units c) b (c_warn c) (c_unknown c) (c_diag_colors c)
  | UUnknown k => mkcfg (c_prompt c) (c_colors_mode c) (c_coulomb c) (c_max_hist c) (c_internet c) (c_source c) (c_max_age c)
                        (c_units c) (c_comma c) (c_warn c) (c_unknown c ++ [k]) (c_diag_colors c)
  end.

Definition cfg_step (c : config) (n : seen_flags) (k : str) (v : tv) : option (config * seen_flags) :=
  match step_upd n k v with
  | Some (u, n') => Some (apply_upd c u, n')
  | None => None
  end.

Fixpoint visit_config (kv : list (str * tv)) (c : config) (n : seen_flags) : option config :=
  match kv with
  | [] => Some c
  | (k, v) :: r =>
    match cfg_step c n k v with
    | Some (c', n') => visit_config r c' n'
    | None => None
    end
  end.

Definition KNOWN_KEYS : list str :=
  [B"prompt"; B"enable-colors"; B"color"; B"coulomb-and-farad"; B"exchange-rate-source";
   B"exchange-rate-max-age"; B"colors"; B"max-history-size"; B"enable-internet-access";
   B"unknown-settings"; B"custom-units"; B"decimal-separator-style"].

(* what read_config_file finds *)
Inductive cfg_file :=
| FAbsent                      (* no config dir / cannot open / cannot read *)
| FNotUtf8
| FTomlError                   (* toml::from_str fails to parse *)
| FTree (kv : list (str * tv)). (* parsed: the top-level table *)

Inductive diag := DNotUtf8 | DInvalid | DColorsSetting | DUnknownKey (k : str).

Definition warnings (c : config) : list diag :=
  (if c_diag_colors c then [DColorsSetting] else []) ++
  (if c_warn c then map DUnknownKey (c_unknown c) else []).

Definition read_config (f : cfg_file) : config * list diag :=
  match f with
  | FAbsent => (default_config, [])
  | FNotUtf8 => (default_config, [DNotUtf8])
  | FTomlError => (default_config, [DInvalid])
  | FTree kv =>
    match visit_config kv default_config seen0 with
    | Some c => (c, warnings c)
    | None => (default_config, [DInvalid])
    end
  end.

(* the part of a config that reaches evaluation (context.rs InnerCtx::new) *)
Definition eval_settings (c : config) := (c_coulomb c, c_comma c, c_units c).
