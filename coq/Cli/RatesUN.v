(* Proofs about the UN scanner (parse_exchange_rates_un), the cache framing
   (load_cached_data) and the lookup, of Cli/Rates.v *)
From Coq Require Import Lia ZifyBool.
From FendV Require Import Base.Prelude Cli.Rates Cli.RatesProofs Cli.RatesEU.
Open Scope N_scope.
Arguments N.add : simpl never.
Arguments N.sub : simpl never.
Arguments N.mul : simpl never.
Arguments N.eqb : simpl never.
Arguments N.ltb : simpl never.
Arguments N.leb : simpl never.

(* ------------------------------------------------------------------ *)
(* slices around an occurrence of a needle                               *)

Definition ascii_end (nd : list N) : Prop := exists x a, nd = x ++ [a] /\ a <? 128 = true.
Definition plain_start (nd : list N) : Prop := exists b x, nd = b :: x /\ is_cont b = false.

Lemma slice_after_needle : forall k n pre nd post p,
  n = (length pre + length nd)%nat ->
  wf_cont p (pre ++ nd ++ post) = true -> ascii_end nd ->
  slice_from k n (pre ++ nd ++ post) = ROk post /\ wf_cont true post = true.
Proof.
  intros k n pre nd post p -> W [x [a [-> Ha]]].
  assert (E : pre ++ (x ++ [a]) ++ post = (pre ++ x) ++ a :: post)
    by (repeat rewrite <- app_assoc; reflexivity).
  split.
  - unfold slice_from. rewrite skipn_pre_add.
    replace (boundary_at (length pre + length (x ++ [a])) (pre ++ (x ++ [a]) ++ post)) with true; [reflexivity|].
    symmetry. rewrite E in *.
    replace (length pre + length (x ++ [a]))%nat with (S (length (pre ++ x)))
      by (rewrite !app_length; simpl; lia).
    eapply boundary_after_ascii; eauto.
  - rewrite E in W. eapply wf_cont_after_ascii; eauto.
Qed.

Lemma slice_to_before : forall k pre b x, is_cont b = false ->
  slice_to k (length pre) (pre ++ b :: x) = ROk pre.
Proof.
  intros. unfold slice_to. rewrite boundary_before by assumption. now rewrite firstn_pre.
Qed.

Lemma slice_from_before : forall k pre b x, is_cont b = false ->
  slice_from k (length pre) (pre ++ b :: x) = ROk (b :: x).
Proof.
  intros. unfold slice_from. rewrite boundary_before by assumption. now rewrite skipn_pre.
Qed.

Lemma wf_cont_suffix : forall x p y, wf_cont p (x ++ y) = true ->
  match y with b :: _ => is_cont b = false | [] => True end -> wf_cont true y = true.
Proof.
  induction x as [|a x IH]; intros p y H Hy; simpl in H.
  - destruct y as [|b r]; [reflexivity|]. simpl in *. apply andb_true_iff in H as [_ H].
    rewrite H, Hy. reflexivity.
  - apply andb_true_iff in H as [_ H]. eapply IH; eauto.
Qed.

Lemma slice_from_app : forall k n l s r, slice_from k n l = ROk r -> (n < length l)%nat ->
  slice_from k n (l ++ s) = ROk (r ++ s).
Proof.
  unfold slice_from, boundary_at. intros k n l s r H L.
  rewrite skipn_app, app_length. replace (n - length l)%nat with O by lia. cbn [skipn].
  destruct (skipn n l) as [|b r'] eqn:E.
  - exfalso. assert (length (skipn n l) = 0%nat) by now rewrite E. rewrite skipn_length in H0. lia.
  - cbn [app]. destruct (Nat.leb_spec n (length l)); [|lia].
    replace (Nat.leb n (length l + length s)) with true by (symmetry; apply Nat.leb_le; lia).
    cbn [andb] in *. destruct (negb (is_cont b)); inversion H. reflexivity.
Qed.

Lemma slice_to_app : forall k n l s r, slice_to k n l = ROk r -> (n < length l)%nat ->
  slice_to k n (l ++ s) = ROk r.
Proof.
  unfold slice_to, boundary_at. intros k n l s r H L.
  rewrite skipn_app, app_length, firstn_app. replace (n - length l)%nat with O by lia.
  cbn [skipn firstn]. rewrite app_nil_r.
  destruct (skipn n l) as [|b r'] eqn:E.
  - exfalso. assert (length (skipn n l) = 0%nat) by now rewrite E. rewrite skipn_length in H0. lia.
  - cbn [app]. destruct (Nat.leb_spec n (length l)); [|lia].
    replace (Nat.leb n (length l + length s)) with true by (symmetry; apply Nat.leb_le; lia).
    cbn [andb] in *. destruct (negb (is_cont b)); inversion H. reflexivity.
Qed.

Lemma slice_from_app_end : forall k n l s r, slice_from k n l = ROk r ->
  slice_from k n (l ++ s) = ROk (r ++ s) \/ slice_from k n (l ++ s) = RPanic k.
Proof.
  intros k n l s r H. apply slice_from_ok in H as [-> L].
  destruct (slice_from_cases k n (l ++ s)) as [E|E]; [left|now right].
  rewrite E. f_equal. rewrite skipn_app. replace (n - length l)%nat with O by lia. reflexivity.
Qed.

(* the needles *)
Lemma FC_ascii : ascii_end FC.  Proof. exists (B"<f_curr_code"), 62. split; reflexivity. Qed.
Lemma FCE_ascii : ascii_end FCE. Proof. exists (B"</f_curr_code"), 62. split; reflexivity. Qed.
Lemma RT_ascii : ascii_end RT.  Proof. exists (B"<rate"), 62. split; reflexivity. Qed.
Lemma RTE_ascii : ascii_end RTE. Proof. exists (B"</rate"), 62. split; reflexivity. Qed.

(* ------------------------------------------------------------------ *)
(* one iteration                                                         *)

Lemma un_step_tok_inv : forall rem cur tok rest, un_step rem = UTok cur tok rest ->
  exists pre mid post,
    rem = pre ++ FC ++ cur ++ FCE ++ mid ++ RT ++ tok ++ RTE ++ post /\
    (rest = ROk post \/ rest = RPanic 17).
Proof.
  intros rem cur tok rest H. unfold un_step in H.
  destruct (find_sub FC rem) as [i1|] eqn:F1; [|destruct (list_N_eqb rem TRAILER); discriminate].
  destruct (slice_from 12 (i1 + 13) rem) as [rem1| |] eqn:S1; try discriminate.
  destruct (find_sub FCE rem1) as [i2|] eqn:F2; [|discriminate].
  destruct (slice_to 13 i2 rem1) as [cur'| |] eqn:S2; try discriminate.
  destruct (slice_from 14 (i2 + 14) rem1) as [rem2| |] eqn:S3; try discriminate.
  destruct (find_sub RT rem2) as [i3|] eqn:F3; [|discriminate].
  destruct (slice_from 15 (i3 + 6) rem2) as [rem3| |] eqn:S4; try discriminate.
  destruct (find_sub RTE rem3) as [i4|] eqn:F4; [|discriminate].
  destruct (slice_to 16 i4 rem3) as [tok'| |] eqn:S5; try discriminate.
  assert (cur' = cur) by congruence. assert (tok' = tok) by congruence.
  assert (R : rest = slice_from 17 (i4 + 7) rem3) by congruence. subst cur' tok'. clear H.
  apply find_sub_some in F1 as [pre1 [post1 [E1 L1]]].
  apply slice_from_ok in S1 as [S1 _]. subst i1.
  change 13%nat with (length FC) in S1. rewrite E1, skipn_pre_add in S1. subst rem1.
  apply find_sub_some in F2 as [pre2 [post2 [E2 L2]]].
  apply slice_to_ok in S2 as [S2 _]. apply slice_from_ok in S3 as [S3 _]. subst i2.
  change 14%nat with (length FCE) in S3. rewrite E2, firstn_pre in S2.
  rewrite E2, skipn_pre_add in S3. subst cur rem2.
  apply find_sub_some in F3 as [pre3 [post3 [E3 L3]]].
  apply slice_from_ok in S4 as [S4 _]. subst i3.
  change 6%nat with (length RT) in S4. rewrite E3, skipn_pre_add in S4. subst rem3.
  apply find_sub_some in F4 as [pre4 [post4 [E4 L4]]].
  apply slice_to_ok in S5 as [S5 _]. subst i4. rewrite E4, firstn_pre in S5. subst tok.
  exists pre1, pre3, post4. split.
  - rewrite E1, E2, E3, E4. reflexivity.
  - rewrite R. change 7%nat with (length RTE).
    destruct (slice_from_cases 17 (length pre4 + length RTE) post3) as [E|E]; [left|now right].
    rewrite E. f_equal. rewrite E4. apply skipn_pre_add.
Qed.

Lemma un_step_shrinks : forall rem cur tok post,
  un_step rem = UTok cur tok (ROk post) -> (length post < length rem)%nat.
Proof.
  intros rem cur tok post H. apply un_step_tok_inv in H as [pre [mid [post' [E [R|R]]]]]; [|discriminate].
  inversion R; subst post'. rewrite E. repeat rewrite app_length.
  change (length FC) with 13%nat. lia.
Qed.

Lemma un_step_wf : forall rem, wf_cont true rem = true ->
  match un_step rem with
  | UPan _ => False
  | UTok _ _ rest => exists post, rest = ROk post /\ wf_cont true post = true
  | _ => True
  end.
Proof.
  intros rem W. unfold un_step.
  destruct (find_sub FC rem) as [i1|] eqn:F1; [|destruct (list_N_eqb rem TRAILER); exact I].
  apply find_sub_some in F1 as [pre1 [post1 [E1 L1]]]. subst i1 rem.
  destruct (slice_after_needle 12 (length pre1 + 13) pre1 FC post1 true eq_refl W FC_ascii) as [-> W1].
  destruct (find_sub FCE post1) as [i2|] eqn:F2; [|exact I].
  apply find_sub_some in F2 as [pre2 [post2 [E2 L2]]]. subst i2 post1.
  destruct (slice_after_needle 14 (length pre2 + 14) pre2 FCE post2 true eq_refl W1 FCE_ascii) as [-> W2].
  change (pre2 ++ FCE ++ post2) with (pre2 ++ 60 :: (B"/f_curr_code>" ++ post2)).
  rewrite slice_to_before by reflexivity.
  destruct (find_sub RT post2) as [i3|] eqn:F3; [|exact I].
  apply find_sub_some in F3 as [pre3 [post3 [E3 L3]]]. subst i3 post2.
  destruct (slice_after_needle 15 (length pre3 + 6) pre3 RT post3 true eq_refl W2 RT_ascii) as [-> W3].
  destruct (find_sub RTE post3) as [i4|] eqn:F4; [|exact I].
  apply find_sub_some in F4 as [pre4 [post4 [E4 L4]]]. subst i4 post3.
  destruct (slice_after_needle 17 (length pre4 + 7) pre4 RTE post4 true eq_refl W3 RTE_ascii) as [E17 W4].
  change (pre4 ++ RTE ++ post4) with (pre4 ++ 60 :: (B"/rate>" ++ post4)) at 1.
  rewrite slice_to_before by reflexivity.
  exists post4. split; [exact E17 | exact W4].
Qed.

Lemma un_step_app : forall rem s cur tok post,
  un_step rem = UTok cur tok (ROk post) ->
  un_step (rem ++ s) = UTok cur tok (ROk (post ++ s)) \/
  un_step (rem ++ s) = UTok cur tok (RPanic 17).
Proof.
  intros rem s cur tok post H. unfold un_step in *.
  destruct (find_sub FC rem) as [i1|] eqn:F1; [|destruct (list_N_eqb rem TRAILER); discriminate].
  rewrite (find_sub_app _ _ s _ F1).
  destruct (slice_from 12 (i1 + 13) rem) as [rem1| |] eqn:S1; try discriminate.
  destruct (find_sub FCE rem1) as [i2|] eqn:F2; [|discriminate].
  assert (N1 : (i1 + 13 < length rem)%nat).
  { pose proof (find_sub_len _ _ _ F2) as L. apply slice_from_ok in S1 as [-> L1].
    rewrite skipn_length in L. change (length FCE) with 14%nat in L. lia. }
  rewrite (slice_from_app _ _ _ s _ S1 N1). rewrite (find_sub_app _ _ s _ F2).
  pose proof (find_sub_len _ _ _ F2) as L2. change (length FCE) with 14%nat in L2.
  destruct (slice_to 13 i2 rem1) as [cur'| |] eqn:S2; try discriminate.
  rewrite (slice_to_app _ _ _ s _ S2) by lia.
  destruct (slice_from 14 (i2 + 14) rem1) as [rem2| |] eqn:S3; try discriminate.
  destruct (find_sub RT rem2) as [i3|] eqn:F3; [|discriminate].
  pose proof (find_sub_len _ _ _ F3) as L3. change (length RT) with 6%nat in L3.
  assert (N3 : (i2 + 14 < length rem1)%nat).
  { apply slice_from_ok in S3 as [-> L1]. rewrite skipn_length in L3. lia. }
  rewrite (slice_from_app _ _ _ s _ S3 N3). rewrite (find_sub_app _ _ s _ F3).
  destruct (slice_from 15 (i3 + 6) rem2) as [rem3| |] eqn:S4; try discriminate.
  destruct (find_sub RTE rem3) as [i4|] eqn:F4; [|discriminate].
  pose proof (find_sub_len _ _ _ F4) as L4. change (length RTE) with 7%nat in L4.
  assert (N4 : (i3 + 6 < length rem2)%nat).
  { apply slice_from_ok in S4 as [-> L1]. rewrite skipn_length in L4. lia. }
  rewrite (slice_from_app _ _ _ s _ S4 N4). rewrite (find_sub_app _ _ s _ F4).
  destruct (slice_to 16 i4 rem3) as [tok'| |] eqn:S5; try discriminate.
  rewrite (slice_to_app _ _ _ s _ S5) by lia.
  assert (cur' = cur) by congruence. assert (tok' = tok) by congruence. subst cur' tok'.
  assert (R : slice_from 17 (i4 + 7) rem3 = ROk post) by congruence.
  destruct (slice_from_app_end _ _ _ s _ R) as [E|E]; rewrite E; [now left | now right].
Qed.

(* ------------------------------------------------------------------ *)
(* the loop                                                              *)

Section Loop.
Variable o : list N -> fcl.

Lemma un_loop_fuel : forall f1 f2 rem acc,
  (length rem < f1)%nat -> (length rem < f2)%nat ->
  un_loop o f1 rem acc = un_loop o f2 rem acc.
Proof.
  induction f1 as [|f1 IH]; intros f2 rem acc L1 L2; [lia|].
  destruct f2 as [|f2]; [lia|]. cbn [un_loop].
  destruct rem as [|b r]; [reflexivity|].
  destruct (un_step (b :: r)) as [| | |cur tok rest] eqn:U; try reflexivity.
  destruct rest as [rem'| |]; [|destruct (o tok); reflexivity|destruct (o tok); reflexivity].
  pose proof (un_step_shrinks _ _ _ _ U) as Sh.
  destruct (o tok); try reflexivity. apply IH; simpl in *; lia.
Qed.

Lemma un_loop_acc : forall f rem acc rs,
  un_loop o f rem acc = ROk rs -> exists more, rs = acc ++ more.
Proof.
  induction f as [|f IH]; intros rem acc rs H; cbn [un_loop] in H; [discriminate|].
  destruct rem as [|b r].
  { inversion H. exists []. now rewrite app_nil_r. }
  destruct (un_step (b :: r)) as [| | |cur tok rest]; try discriminate.
  { inversion H. exists []. now rewrite app_nil_r. }
  destruct (o tok); try discriminate; destruct rest; try discriminate.
  apply IH in H as [more ->]. exists ((cur, Some tok) :: more). now rewrite <- app_assoc.
Qed.

Lemma un_loop_no_panic : forall f rem acc k,
  wf_cont true rem = true -> un_loop o f rem acc <> RPanic k.
Proof.
  induction f as [|f IH]; intros rem acc k W; cbn [un_loop]; [discriminate|].
  destruct rem as [|b r]; [discriminate|].
  pose proof (un_step_wf _ W) as S.
  destruct (un_step (b :: r)) as [| | |cur tok rest]; try discriminate; [contradiction|].
  destruct S as [post [-> Wp]].
  destruct (o tok); try discriminate. now apply IH.
Qed.

Theorem un_no_panic : forall bs k, wf_cont true bs = true -> parse_un o bs <> RPanic k.
Proof.
  intros bs k W. unfold parse_un.
  destruct (find_sub U0 bs) as [i|] eqn:F; [|discriminate].
  apply find_sub_some in F as [pre [post [E L]]]. subst i bs.
  change (pre ++ U0 ++ post) with (pre ++ 60 :: (B"UN_OPERATIONAL_RATES>" ++ post)) at 1.
  rewrite slice_from_before by reflexivity. cbn [rbind].
  apply un_loop_no_panic. eapply wf_cont_suffix; [exact W | reflexivity].
Qed.

Definition un_entry_ok (bs : list N) (e : entry) : Prop :=
  exists c t mid, e = (c, Some t) /\ o t = FNormal /\
                  occurs (FC ++ c ++ FCE ++ mid ++ RT ++ t ++ RTE) bs.

Lemma un_loop_verbatim : forall bs f rem acc rs, occurs rem bs ->
  un_loop o f rem acc = ROk rs ->
  exists more, rs = acc ++ more /\ Forall (un_entry_ok bs) more.
Proof.
  induction f as [|f IH]; intros rem acc rs Hoc H; cbn [un_loop] in H; [discriminate|].
  destruct rem as [|b r].
  { inversion H. exists []. split; [now rewrite app_nil_r | constructor]. }
  destruct (un_step (b :: r)) as [| | |cur tok rest] eqn:U; try discriminate.
  { inversion H. exists []. split; [now rewrite app_nil_r | constructor]. }
  destruct (o tok) eqn:O; try discriminate; destruct rest as [rem'| |]; try discriminate.
  apply un_step_tok_inv in U as [pre [mid [post [E [R|R]]]]]; [|discriminate].
  inversion R; subst post.
  apply IH in H as [more [-> Hm]].
  - exists ((cur, Some tok) :: more). split; [now rewrite <- app_assoc|].
    constructor; [|exact Hm]. exists cur, tok, mid. repeat split; auto.
    eapply occurs_trans; [|exact Hoc]. rewrite E. exists pre, rem'.
    repeat rewrite <- app_assoc. reflexivity.
  - eapply occurs_trans; [|exact Hoc]. rewrite E.
    replace (pre ++ FC ++ cur ++ FCE ++ mid ++ RT ++ tok ++ RTE ++ rem')
      with ((pre ++ FC ++ cur ++ FCE ++ mid ++ RT ++ tok ++ RTE) ++ rem')
      by (repeat rewrite <- app_assoc; reflexivity).
    apply occurs_suffix.
Qed.

Theorem un_verbatim : forall bs rs, parse_un o bs = ROk rs ->
  exists rs', rs = (USD, None) :: rs' /\ Forall (un_entry_ok bs) rs'.
Proof.
  intros bs rs H. unfold parse_un in H.
  destruct (find_sub U0 bs) as [i|] eqn:F; [|discriminate].
  destruct (slice_from 11 i bs) as [rem| |] eqn:S; try discriminate. cbn [rbind] in H.
  apply slice_from_ok in S as [-> _].
  apply un_loop_verbatim with (bs := bs) in H as [more [-> Hm]].
  - now exists more.
  - rewrite <- (firstn_skipn i bs) at 2. apply occurs_suffix.
Qed.

Lemma un_loop_prefix : forall f rem acc f' s rs rf,
  (length rem < f)%nat -> (length (rem ++ s) < f')%nat ->
  un_loop o f rem acc = ROk rs -> un_loop o f' (rem ++ s) acc = ROk rf ->
  exists more, rf = rs ++ more.
Proof.
  induction f as [|f IH]; intros rem acc f' s rs rf L L' H H'; [lia|].
  cbn [un_loop] in H. destruct rem as [|b r].
  { inversion H; subst. eapply un_loop_acc; eauto. }
  destruct (un_step (b :: r)) as [| | |cur tok rest] eqn:U; try discriminate.
  { inversion H; subst. eapply un_loop_acc; eauto. }
  destruct (o tok) eqn:O; try discriminate; destruct rest as [rem'| |]; try discriminate.
  destruct f' as [|f']; [lia|].
  cbn [un_loop app] in H'. change (b :: r ++ s) with ((b :: r) ++ s) in H'.
  pose proof (un_step_shrinks _ _ _ _ U) as Sh.
  destruct (un_step_app _ s _ _ _ U) as [E|E]; rewrite E, O in H'; [|discriminate].
  eapply IH; [| |exact H|exact H'].
  - simpl in *; lia.
  - rewrite app_length in *. simpl in *. lia.
Qed.

Theorem un_prefix_monotone : forall p s rs rf,
  parse_un o p = ROk rs -> parse_un o (p ++ s) = ROk rf -> exists more, rf = rs ++ more.
Proof.
  intros p s rs rf H H'. unfold parse_un in *.
  destruct (find_sub U0 p) as [i|] eqn:F; [|discriminate].
  rewrite (find_sub_app _ _ s _ F) in H'.
  destruct (slice_from 11 i p) as [rem| |] eqn:S; try discriminate. cbn [rbind] in H.
  pose proof (find_sub_len _ _ _ F) as L. change (length U0) with 22%nat in L.
  rewrite (slice_from_app _ _ _ s _ S) in H' by lia. cbn [rbind] in H'.
  eapply un_loop_prefix; [| |exact H|exact H']; lia.
Qed.

(* the fuel handed to the loop is enough: any larger amount gives the same answer *)
Theorem un_fuel_sufficient : forall rem acc extra,
  un_loop o (S (length rem) + extra) rem acc = un_loop o (S (length rem)) rem acc.
Proof. intros. apply un_loop_fuel; lia. Qed.

End Loop.

(* ------------------------------------------------------------------ *)
(* cache framing                                                         *)

Theorem framing_total : forall file now max_age,
  match load_cached file now max_age with
  | CPanic _ => False
  | CMiss _ => True
  | CHit xml =>
    exists ts t, file = ts ++ xml /\ hd_error xml = Some 59 /\ ~ In 59 ts /\
                 parse_u64 ts = Some t /\ t <= now /\ now - t <= max_age /\
                 utf8_valid file = true /\ wf_cont true xml = true
  end.
Proof.
  intros file now max_age. unfold load_cached.
  destruct (utf8_valid file) eqn:V; cbn [negb]; [|exact I].
  destruct (find_byte 59 file) as [i|] eqn:F; [|exact I].
  apply find_byte_some in F as [E [Hn L]].
  remember (firstn i file) as ts eqn:Ets. remember (skipn (S i) file) as post.
  assert (Li : i = length ts) by (subst ts; rewrite firstn_length; lia).
  rewrite Li, E. rewrite slice_to_before, slice_from_before by reflexivity.
  destruct (parse_u64 ts) as [t|] eqn:P; [|exact I].
  destruct (N.ltb_spec now t); [exact I|].
  destruct (N.ltb_spec max_age (now - t)); [exact I|].
  exists ts, t. repeat split; auto; try lia.
  apply utf8_valid_wf_cont in V. rewrite E in V.
  eapply wf_cont_suffix; [exact V | reflexivity].
Qed.

(* ------------------------------------------------------------------ *)
(* what a conversion can see                                             *)

Lemma list_N_eqb_eq : forall a b, list_N_eqb a b = true -> a = b.
Proof.
  induction a as [|x a IH]; intros [|y b] H; simpl in H; try discriminate; [reflexivity|].
  apply andb_true_iff in H as [H1 H2]. apply N.eqb_eq in H1. subst. f_equal. now apply IH.
Qed.

Lemma lookup_in : forall cur rs r, lookup cur rs = Some r -> In (cur, r) rs.
Proof.
  induction rs as [|[c t] rs IH]; intros r H; simpl in H; [discriminate|].
  destruct (list_N_eqb cur c) eqn:E.
  - apply list_N_eqb_eq in E. inversion H; subst. now left.
  - right. now apply IH.
Qed.

Section Cache.
Variable o : list N -> fcl.

(* no panic on any file once the EU repair is in, and for the UN source today *)
Theorem cache_no_panic : forall fixed src file now max_age k,
  (fixed = true \/ src = SrcUN) -> cache_rates o fixed src file now max_age <> OPanic k.
Proof.
  intros fixed src file now max_age k Hs. unfold cache_rates.
  pose proof (framing_total file now max_age) as T.
  destruct (load_cached file now max_age) as [xml|w|k']; [|discriminate|contradiction].
  destruct T as [ts [t [_ [_ [_ [_ [_ [_ [_ W]]]]]]]]].
  unfold parse_rates. destruct src.
  - destruct Hs as [->|Hs]; [|discriminate].
    pose proof (eu_fixed_no_panic o xml) as Hp.
    destruct (parse_eu o true xml); try discriminate. intros Hx. inversion Hx. eapply Hp; eauto.
  - pose proof (fun k => un_no_panic o xml k W) as Hp.
    destruct (parse_un o xml); try discriminate. intros Hx. inversion Hx. eapply Hp; eauto.
Qed.

(* a rate handed to the core is the built-in 1 of the base currency or a
   token that stands verbatim in the cache file, next to that currency's name *)
Theorem cache_lookup_verbatim : forall fixed src file now max_age rs cur t,
  cache_rates o fixed src file now max_age = ORates rs ->
  lookup cur rs = Some (Some t) ->
  o t = FNormal /\ occurs t file /\ occurs cur file /\
  match src with
  | SrcEU => exists k, occurs (P1 ++ cur ++ seps k ++ t ++ [39]) file
  | SrcUN => exists mid, occurs (FC ++ cur ++ FCE ++ mid ++ RT ++ t ++ RTE) file
  end.
Proof.
  intros fixed src file now max_age rs cur t H Hl. unfold cache_rates in H.
  pose proof (framing_total file now max_age) as T.
  destruct (load_cached file now max_age) as [xml|w|k']; try discriminate.
  destruct T as [ts [t0 [Ef _]]].
  assert (Ox : occurs xml file) by (rewrite Ef; apply occurs_suffix).
  apply lookup_in in Hl. unfold parse_rates in H. destruct src.
  - destruct (parse_eu o fixed xml) as [rs'| |] eqn:P; try discriminate. inversion H; subst rs'.
    apply eu_verbatim in P as [rs' [-> [Hf _]]].
    destruct Hl as [Hl|Hl]; [discriminate|].
    rewrite Forall_forall in Hf. destruct (Hf _ Hl) as [c [t' [k [E [Lc [Ho Hoc]]]]]].
    inversion E; subst c t'. pose proof (occurs_trans _ _ _ Hoc Ox) as Hw.
    repeat split; auto.
    + eapply occurs_trans; [|exact Hw]. exists (P1 ++ cur ++ seps k), [39].
      repeat rewrite <- app_assoc. reflexivity.
    + eapply occurs_trans; [|exact Hw]. exists P1, (seps k ++ t ++ [39]). reflexivity.
    + now exists k.
  - destruct (parse_un o xml) as [rs'| |] eqn:P; try discriminate. inversion H; subst rs'.
    apply un_verbatim in P as [rs' [-> Hf]].
    destruct Hl as [Hl|Hl]; [discriminate|].
    rewrite Forall_forall in Hf. destruct (Hf _ Hl) as [c [t' [mid [E [Ho Hoc]]]]].
    inversion E; subst c t'. pose proof (occurs_trans _ _ _ Hoc Ox) as Hw.
    repeat split; auto.
    + eapply occurs_trans; [|exact Hw]. exists (FC ++ cur ++ FCE ++ mid ++ RT), RTE.
      repeat rewrite <- app_assoc. reflexivity.
    + eapply occurs_trans; [|exact Hw]. exists FC, (FCE ++ mid ++ RT ++ t ++ RTE). reflexivity.
    + now exists mid.
Qed.

End Cache.

(* the code as it stands after the repair (fixed = true): no panic on any
   cache file, for either source *)
Theorem cache_no_panic_repaired : forall (o : list N -> fcl) src file now max_age k,
  cache_rates o true src file now max_age <> OPanic k.
Proof. intros. apply cache_no_panic. now left. Qed.
