(* Proofs about the EU scanner (parse_exchange_rates_eu) of Cli/Rates.v *)
From Coq Require Import Lia ZifyBool.
From FendV Require Import Base.Prelude Cli.Rates Cli.RatesProofs.
Open Scope N_scope.
Arguments N.add : simpl never.
Arguments N.sub : simpl never.
Arguments N.mul : simpl never.
Arguments N.eqb : simpl never.
Arguments N.ltb : simpl never.
Arguments N.leb : simpl never.

(* ------------------------------------------------------------------ *)
(* lines                                                                 *)

Lemma strip_cr_prefix : forall x, exists w, x = strip_cr x ++ w.
Proof.
  intros x. unfold strip_cr. destruct (rev x) as [|b r] eqn:E.
  - exists []. now rewrite app_nil_r.
  - destruct (b =? 13).
    + exists [b]. rewrite <- (rev_involutive x), E. reflexivity.
    + exists []. now rewrite app_nil_r.
Qed.

Lemma lines_aux_occurs : forall p cur l, In l (lines_aux cur p) -> occurs l (rev cur ++ p).
Proof.
  induction p as [|b p IH]; intros cur l H; simpl in H.
  - destruct cur; [contradiction|]. destruct H as [<-|[]]. rewrite app_nil_r. apply occurs_refl.
  - destruct (b =? 10).
    + destruct H as [<-|H].
      * destruct (strip_cr_prefix (rev cur)) as [w Hw].
        remember (strip_cr (rev cur)) as sc. rewrite Hw, <- app_assoc. apply occurs_prefix.
      * apply IH in H. simpl in H.
        apply occurs_app_r with (p := rev cur ++ [b]) in H. now rewrite <- app_assoc in H.
    + apply IH in H. simpl in H. now rewrite <- app_assoc in H.
Qed.

Lemma lines_occurs : forall bs l, In l (lines bs) -> occurs l bs.
Proof. intros bs l H. apply lines_aux_occurs in H. exact H. Qed.

(* lines of a text and of an extension of it *)
Lemma lines_aux_app : forall p cur s, exists ls cur',
  lines_aux cur (p ++ s) = ls ++ lines_aux cur' s /\
  lines_aux cur p = ls ++ (match cur' with [] => [] | _ :: _ => [rev cur'] end).
Proof.
  induction p as [|b p IH]; intros cur s.
  - exists [], cur. split; reflexivity.
  - simpl. destruct (b =? 10).
    + destruct (IH [] s) as [ls [cur' [E1 E2]]].
      exists (strip_cr (rev cur) :: ls), cur'. rewrite E1, E2. split; reflexivity.
    + destruct (IH (b :: cur) s) as [ls [cur' [E1 E2]]].
      exists ls, cur'. split; assumption.
Qed.

(* the first line produced from a non-empty pending line: an extension of
   it, or the pending line without its final carriage return *)
Lemma lines_aux_first : forall s cur, cur <> [] -> exists X rest,
  lines_aux cur s = X :: rest /\
  ((exists s1, X = rev cur ++ s1) \/ (rev cur = X ++ [13])).
Proof.
  induction s as [|b s IH]; intros cur Hc.
  - simpl. destruct cur; [congruence|]. exists (rev (n :: cur)), []. split; [reflexivity|].
    left. exists []. now rewrite app_nil_r.
  - simpl. destruct (N.eqb_spec b 10) as [->|Hb].
    + exists (strip_cr (rev cur)), (lines_aux [] s). split; [reflexivity|].
      unfold strip_cr. rewrite rev_involutive. destruct cur as [|c0 cr]; [congruence|].
      destruct (N.eqb_spec c0 13) as [->|Hc0].
      * right. reflexivity.
      * left. exists []. now rewrite app_nil_r.
    + destruct (IH (b :: cur)) as [X [rest [E H]]]; [discriminate|].
      exists X, rest. split; [exact E|]. destruct H as [[s1 ->]|H].
      * left. exists (b :: s1). simpl. now rewrite <- app_assoc.
      * simpl in H. apply app_inj_tail in H as [H1 H2]. left. exists [].
        now rewrite app_nil_r.
Qed.

(* ------------------------------------------------------------------ *)
(* trim                                                                  *)

Lemma trim_start_suffix : forall l, exists w, l = w ++ trim_start l.
Proof.
  intros l. remember (length l) as n eqn:Hn. revert l Hn.
  induction n as [n IH] using lt_wf_ind. intros l Hn.
  destruct l as [|a r1]; [now exists []|].
  cbn [trim_start]. destruct (ws1 a).
  { destruct (IH (length r1)) with (l := r1) as [w Hw]; [subst; simpl; lia | reflexivity |].
    exists (a :: w). simpl. now rewrite <- Hw. }
  destruct r1 as [|b r2]; [now exists []|].
  destruct (ws2 a b).
  { destruct (IH (length r2)) with (l := r2) as [w Hw]; [subst; simpl; lia | reflexivity |].
    exists (a :: b :: w). simpl. now rewrite <- Hw. }
  destruct r2 as [|c r3]; [now exists []|].
  destruct (ws3 a b c).
  { destruct (IH (length r3)) with (l := r3) as [w Hw]; [subst; simpl; lia | reflexivity |].
    exists (a :: b :: c :: w). simpl. now rewrite <- Hw. }
  now exists [].
Qed.

Lemma tsr_removed : forall l, exists w, l = w ++ trim_start_rev l /\ ~ In 39 w.
Proof.
  intros l. remember (length l) as n eqn:Hn. revert l Hn.
  induction n as [n IH] using lt_wf_ind. intros l Hn.
  destruct l as [|a r1]; [exists []; split; [reflexivity | intros []]|].
  cbn [trim_start_rev]. destruct (ws1 a) eqn:W1.
  { destruct (IH (length r1)) with (l := r1) as [w [Hw Hi]]; [subst; simpl; lia | reflexivity |].
    exists (a :: w). split; [simpl; now rewrite <- Hw|].
    intros [H|H]; [unfold ws1 in W1; lia | contradiction]. }
  destruct r1 as [|b r2]; [exists []; split; [reflexivity | intros []]|].
  destruct (ws2 b a) eqn:W2.
  { destruct (IH (length r2)) with (l := r2) as [w [Hw Hi]]; [subst; simpl; lia | reflexivity |].
    exists (a :: b :: w). split; [simpl; now rewrite <- Hw|].
    intros [H|[H|H]]; [unfold ws2 in W2; lia | unfold ws2 in W2; lia | contradiction]. }
  destruct r2 as [|c r3]; [exists []; split; [reflexivity | intros []]|].
  destruct (ws3 c b a) eqn:W3.
  { destruct (IH (length r3)) with (l := r3) as [w [Hw Hi]]; [subst; simpl; lia | reflexivity |].
    exists (a :: b :: c :: w). split; [simpl; now rewrite <- Hw|].
    intros [H|[H|[H|H]]]; [unfold ws3 in W3; lia | unfold ws3 in W3; lia | unfold ws3 in W3; lia | contradiction]. }
  exists []; split; [reflexivity | intros []].
Qed.

Lemma trim_end_prefix : forall x, exists w, x = trim_end x ++ w.
Proof.
  intros x. unfold trim_end. destruct (tsr_removed (rev x)) as [w [Hw _]].
  exists (rev w). rewrite <- rev_app_distr, <- Hw. now rewrite rev_involutive.
Qed.

Lemma trim_occurs : forall l, occurs (trim l) l.
Proof.
  intros l. unfold trim. destruct (trim_start_suffix l) as [w Hw].
  destruct (trim_end_prefix (trim_start l)) as [w2 Hw2].
  exists w, w2. rewrite <- Hw2. exact Hw.
Qed.

Lemma trim_start_lt : forall x, trim_start (60 :: x) = 60 :: x.
Proof. intros [|b [|c x]]; reflexivity. Qed.

Lemma trim_start_app : forall raw y s,
  trim_start raw = 60 :: y -> trim_start (raw ++ s) = 60 :: y ++ s.
Proof.
  intros raw. remember (length raw) as n eqn:Hn. revert raw Hn.
  induction n as [n IH] using lt_wf_ind. intros raw Hn y s H.
  destruct raw as [|a r1]; [discriminate|].
  cbn [trim_start] in H. destruct (ws1 a) eqn:W1.
  { cbn [app trim_start]. rewrite W1. eapply IH; [| reflexivity | exact H]. subst; simpl; lia. }
  destruct r1 as [|b r2].
  { inversion H; subst. rewrite <- app_comm_cons. apply trim_start_lt. }
  destruct (ws2 a b) eqn:W2.
  { cbn [app trim_start]. rewrite W1, W2. eapply IH; [| reflexivity | exact H]. subst; simpl; lia. }
  destruct r2 as [|c r3].
  { inversion H; subst. rewrite <- app_comm_cons. apply trim_start_lt. }
  destruct (ws3 a b c) eqn:W3.
  { cbn [app trim_start]. rewrite W1, W2, W3. eapply IH; [| reflexivity | exact H]. subst; simpl; lia. }
  inversion H; subst. rewrite <- app_comm_cons. apply trim_start_lt.
Qed.

(* a final carriage return does not matter for a line that trims to <... *)
Lemma trim_start_cr : forall Y z,
  trim_start (Y ++ [13]) = 60 :: z -> exists z0, trim_start Y = 60 :: z0 /\ z = z0 ++ [13].
Proof.
  intros Y. remember (length Y) as n eqn:Hn. revert Y Hn.
  induction n as [n IH] using lt_wf_ind. intros Y Hn z H.
  destruct Y as [|a r1]; [discriminate|].
  cbn [app trim_start] in H. cbn [trim_start]. destruct (ws1 a) eqn:W1.
  { eapply IH; [| reflexivity | exact H]. subst; simpl; lia. }
  destruct r1 as [|b r2].
  { cbn [app] in H. replace (ws2 a 13) with false in H by (unfold ws2; lia).
    inversion H; subst. exists []. split; reflexivity. }
  cbn [app] in H. destruct (ws2 a b) eqn:W2.
  { eapply IH; [| reflexivity | exact H]. subst; simpl; lia. }
  destruct r2 as [|c r3].
  { cbn [app] in H. replace (ws3 a b 13) with false in H by (unfold ws3; lia).
    inversion H; subst. exists [b]. split; reflexivity. }
  cbn [app] in H. destruct (ws3 a b c) eqn:W3.
  { eapply IH; [| reflexivity | exact H]. subst; simpl; lia. }
  inversion H; subst. exists (b :: c :: r3). split; reflexivity.
Qed.

Lemma trim_end_cr : forall x, trim_end (x ++ [13]) = trim_end x.
Proof.
  intros x. unfold trim_end. rewrite rev_app_distr. reflexivity.
Qed.

Lemma trim_cr : forall Y q, trim (Y ++ [13]) = 60 :: q -> trim Y = 60 :: q.
Proof.
  unfold trim. intros Y q H.
  destruct (trim_end_prefix (trim_start (Y ++ [13]))) as [w Hw]. rewrite H in Hw.
  simpl in Hw. destruct (trim_start_cr _ _ Hw) as [z0 [E1 E2]].
  rewrite Hw in H. rewrite E1. rewrite E2 in H.
  change (60 :: z0 ++ [13]) with ((60 :: z0) ++ [13]) in H.
  now rewrite trim_end_cr in H.
Qed.

Lemma split_no39 : forall w a b r,
  a ++ 39 :: b = w ++ r -> ~ In 39 w -> exists a', a = w ++ a' /\ r = a' ++ 39 :: b.
Proof.
  induction w as [|x w IH]; intros a b r H Hn.
  - exists a. simpl in H. auto.
  - destruct a as [|y a]; simpl in H; inversion H; subst.
    + exfalso. apply Hn. now left.
    + destruct (IH a b r H2) as [a' [E1 E2]]; [intros Hx; apply Hn; now right|].
      exists a'. split; [now rewrite E1 | exact E2].
Qed.

Lemma trim_end_keep : forall u z, exists z', trim_end (u ++ 39 :: z) = u ++ 39 :: z'.
Proof.
  intros u z. unfold trim_end. rewrite rev_app_distr. simpl. rewrite <- app_assoc. simpl.
  destruct (tsr_removed (rev z ++ 39 :: rev u)) as [w [Hw Hn]].
  destruct (split_no39 _ _ _ _ Hw Hn) as [a' [E1 E2]].
  exists (rev a'). rewrite E2, rev_app_distr. simpl.
  rewrite rev_involutive, <- app_assoc. reflexivity.
Qed.

(* ------------------------------------------------------------------ *)
(* trim_start_matches                                                    *)

Fixpoint seps (k : nat) : list N :=
  match k with O => [] | S k' => SEP ++ seps k' end.

Lemma strip_seps_spec : forall f l, exists k, l = seps k ++ strip_seps f l.
Proof.
  induction f as [|f IH]; intros l; cbn [strip_seps].
  - now exists O.
  - destruct (strip_prefix SEP l) as [r|] eqn:E.
    + apply strip_prefix_iff in E. destruct (IH r) as [k Hk].
      exists (S k). cbn [seps]. rewrite <- app_assoc, <- Hk. exact E.
    + now exists O.
Qed.

Lemma seps_len : forall k, (k <= length (seps k))%nat.
Proof.
  induction k as [|k IH]; cbn [seps]; [lia|]. rewrite app_length.
  change (length SEP) with 8%nat. lia.
Qed.

Lemma strip_seps_run : forall k f z, (k <= f)%nat -> strip_prefix SEP z = None ->
  strip_seps f (seps k ++ z) = z.
Proof.
  induction k as [|k IH]; intros f z Hf Hz; cbn [seps].
  - destruct f; cbn [strip_seps app]; [reflexivity | now rewrite Hz].
  - destruct f as [|f]; [lia|]. cbn [strip_seps]. rewrite <- app_assoc, strip_prefix_app.
    apply IH; [lia | exact Hz].
Qed.

(* ------------------------------------------------------------------ *)
(* one line                                                              *)

Lemma slice3_ok : forall l i, find_byte 39 l = Some i -> slice_to 3 i l = ROk (firstn i l).
Proof.
  intros l i H. apply find_byte_some in H as [H1 [H2 H3]].
  unfold slice_to. rewrite H1 at 1.
  replace i with (length (firstn i l)) at 1 by (rewrite firstn_length; lia).
  now rewrite boundary_before.
Qed.

Lemma hd_match : forall (X v : list N) (f : N -> bool), X <> [] ->
  match X ++ v with b :: _ => f b | [] => false end = f (hd 0 X).
Proof. intros [|b X] v f H; [congruence | reflexivity]. Qed.

Lemma tail39_nonempty : forall (a : list N), a ++ [39] <> [].
Proof. intros [|x a]; discriminate. Qed.

Lemma strip_prefix_hd_ne : forall a p b l, a <> b -> strip_prefix (a :: p) (b :: l) = None.
Proof. intros a p b l H. cbn [strip_prefix]. destruct (N.eqb_spec a b); [contradiction | reflexivity]. Qed.

Lemma firstn_len : forall (c z : list N) n, length c = n -> firstn n (c ++ z) = c.
Proof. intros; subst; apply firstn_pre. Qed.
Lemma skipn_len : forall (c z : list N) n, length c = n -> skipn n (c ++ z) = z.
Proof. intros; subst; apply skipn_pre. Qed.

Section Lines.
Variable o : list N -> fcl.

Lemma eu_core_entry : forall fixed l c t, eu_core o fixed l = LEntry c t ->
  exists k v, l = P1 ++ c ++ seps k ++ t ++ 39 :: v /\ length c = 3%nat /\ ~ In 39 t /\
              o t = FNormal /\ is_cont (hd 0 ((seps k ++ t) ++ [39])) = false.
Proof.
  intros fixed l c t H. unfold eu_core in H.
  destruct (starts_with P0 l); cbn [negb] in H; [|discriminate].
  destruct (strip_prefix P1 l) as [l1|] eqn:E1; [|discriminate].
  apply strip_prefix_iff in E1.
  destruct (Nat.ltb_spec (length l1) 3) as [L|L]; [destruct fixed; discriminate|].
  remember (skipn 3 l1) as l2 eqn:E2.
  destruct (match l2 with [] => false | b :: _ => is_cont b end) eqn:C;
    [destruct fixed; discriminate|].
  destruct (strip_seps_spec (length l2) l2) as [k Hk].
  remember (strip_seps (length l2) l2) as l3 eqn:E3.
  destruct (find_byte 39 l3) as [i|] eqn:F; [|discriminate].
  rewrite (slice3_ok _ _ F) in H.
  destruct (o (firstn i l3)) eqn:O; try discriminate.
  assert (Hc : firstn 3 l1 = c) by congruence.
  assert (Ht : firstn i l3 = t) by congruence. clear H. subst c t.
  apply find_byte_some in F as [F1 [F2 F3]].
  exists k, (skipn (S i) l3). repeat split.
  - rewrite E1. f_equal. rewrite <- (firstn_skipn 3 l1) at 1. f_equal.
    rewrite <- E2, Hk. f_equal. exact F1.
  - rewrite firstn_length. lia.
  - exact F2.
  - exact O.
  - rewrite Hk, F1 in C.
    replace (seps k ++ firstn i l3 ++ 39 :: skipn (S i) l3)
      with (((seps k ++ firstn i l3) ++ [39]) ++ skipn (S i) l3) in C
      by (now rewrite <- !app_assoc).
    rewrite hd_match in C; [exact C | apply tail39_nonempty].
Qed.

Lemma eu_core_recompute : forall fixed c t k v,
  length c = 3%nat -> ~ In 39 t -> t <> [] -> o t = FNormal ->
  is_cont (hd 0 ((seps k ++ t) ++ [39])) = false ->
  eu_core o fixed (P1 ++ c ++ seps k ++ t ++ 39 :: v) = LEntry c t.
Proof.
  intros fixed c t k v Lc Hn Ht Ho Hb. unfold eu_core.
  assert (S0 : starts_with P0 (P1 ++ c ++ seps k ++ t ++ 39 :: v) = true).
  { apply starts_with_iff. exists ([39] ++ c ++ seps k ++ t ++ 39 :: v). reflexivity. }
  rewrite S0. cbn [negb]. rewrite strip_prefix_app.
  destruct (Nat.ltb_spec (length (c ++ seps k ++ t ++ 39 :: v)) 3) as [L|L];
    [rewrite app_length in L; lia|].
  rewrite (firstn_len c _ 3 Lc), (skipn_len c _ 3 Lc).
  assert (EY : seps k ++ t ++ 39 :: v = ((seps k ++ t) ++ [39]) ++ v)
    by (now rewrite <- !app_assoc).
  rewrite EY at 1. rewrite hd_match by apply tail39_nonempty. rewrite Hb.
  rewrite strip_seps_run.
  - rewrite (find_byte_app 39 t v Hn).
    unfold slice_to. rewrite boundary_before by reflexivity. rewrite firstn_pre, Ho. reflexivity.
  - rewrite app_length. pose proof (seps_len k). lia.
  - destruct t as [|b t']; [congruence|]. change SEP with (39 :: B" rate='").
    rewrite <- app_comm_cons. apply strip_prefix_hd_ne.
    intros <-. apply Hn. now left.
Qed.

Hypothesis o_empty : o [] <> FNormal.

Lemma eu_entry_nonempty : forall fixed l c t, eu_core o fixed l = LEntry c t -> t <> [].
Proof.
  intros fixed l c t H. destruct (eu_core_entry _ _ _ _ H) as [k [v [_ [_ [_ [Ho _]]]]]].
  intros ->. contradiction.
Qed.

Lemma eu_line_extend : forall fixed raw s c t,
  eu_line o fixed raw = LEntry c t -> eu_line o fixed (raw ++ s) = LEntry c t.
Proof.
  unfold eu_line. intros fixed raw s c t H.
  pose proof (eu_entry_nonempty _ _ _ _ H) as Ht.
  destruct (eu_core_entry _ _ _ _ H) as [k [v [E [Lc [Hn [Ho Hb]]]]]].
  unfold trim in *.
  destruct (trim_end_prefix (trim_start raw)) as [w Hw]. rewrite E in Hw.
  assert (Hy : exists y, trim_start raw = 60 :: y) by (rewrite Hw; eexists; reflexivity).
  destruct Hy as [y Hy]. rewrite (trim_start_app _ _ s Hy).
  change (60 :: y ++ s) with ((60 :: y) ++ s). rewrite <- Hy, Hw.
  replace (((P1 ++ c ++ seps k ++ t ++ 39 :: v) ++ w) ++ s)
    with ((P1 ++ c ++ seps k ++ t) ++ 39 :: (v ++ w ++ s))
    by (repeat rewrite <- app_assoc; repeat rewrite <- app_comm_cons; reflexivity).
  destruct (trim_end_keep (P1 ++ c ++ seps k ++ t) (v ++ w ++ s)) as [z' ->].
  replace ((P1 ++ c ++ seps k ++ t) ++ 39 :: z') with (P1 ++ c ++ seps k ++ t ++ 39 :: z')
    by (repeat rewrite <- app_assoc; reflexivity).
  now apply eu_core_recompute.
Qed.

Lemma eu_line_cr : forall fixed Y c t,
  eu_line o fixed (Y ++ [13]) = LEntry c t -> eu_line o fixed Y = LEntry c t.
Proof.
  unfold eu_line. intros fixed Y c t H.
  destruct (eu_core_entry _ _ _ _ H) as [k [v [E _]]].
  assert (T : trim Y = trim (Y ++ [13])).
  { rewrite E. apply trim_cr. rewrite E. reflexivity. }
  now rewrite T.
Qed.

End Lines.

(* ------------------------------------------------------------------ *)
(* the loop                                                              *)

Section Fold.
Variable o : list N -> fcl.

Lemma eu_fold_app : forall fixed ls1 ls2 acc,
  eu_fold o fixed (ls1 ++ ls2) acc =
  match eu_fold o fixed ls1 acc with
  | ROk acc' => eu_fold o fixed ls2 acc'
  | RErr m => RErr m
  | RPanic k => RPanic k
  end.
Proof.
  induction ls1 as [|l ls1 IH]; intros ls2 acc; simpl; [reflexivity|].
  destruct (eu_line o fixed l); auto.
Qed.

Lemma eu_fold_acc : forall fixed ls acc rs,
  eu_fold o fixed ls acc = ROk rs -> exists more, rs = acc ++ more.
Proof.
  induction ls as [|l ls IH]; intros acc rs H; simpl in H.
  - inversion H. exists []. now rewrite app_nil_r.
  - destruct (eu_line o fixed l); try discriminate.
    + now apply IH.
    + apply IH in H as [more ->]. exists ((c, Some t) :: more). now rewrite <- app_assoc.
Qed.

Definition eu_entry_ok (bs : list N) (e : entry) : Prop :=
  exists c t k, e = (c, Some t) /\ length c = 3%nat /\ o t = FNormal /\
                occurs (P1 ++ c ++ seps k ++ t ++ [39]) bs.

Lemma eu_fold_verbatim : forall fixed bs ls acc rs,
  (forall l, In l ls -> occurs l bs) ->
  eu_fold o fixed ls acc = ROk rs ->
  exists more, rs = acc ++ more /\ Forall (eu_entry_ok bs) more.
Proof.
  induction ls as [|l ls IH]; intros acc rs Hin H; simpl in H.
  - inversion H. exists []. split; [now rewrite app_nil_r | constructor].
  - destruct (eu_line o fixed l) eqn:EL; try discriminate.
    + apply IH; [intros; apply Hin; now right | exact H].
    + apply IH in H as [more [-> Hm]]; [|intros; apply Hin; now right].
      exists ((c, Some t) :: more). split; [now rewrite <- app_assoc|].
      constructor; [|exact Hm].
      unfold eu_line in EL. destruct (eu_core_entry _ _ _ _ _ EL) as [k [v [E [Lc [_ [Ho _]]]]]].
      exists c, t, k. repeat split; auto.
      eapply occurs_trans; [| apply (Hin l); now left].
      eapply occurs_trans; [| apply trim_occurs]. rewrite E.
      exists [], v. simpl. repeat rewrite <- app_assoc. reflexivity.
Qed.

Theorem eu_verbatim : forall fixed bs rs, parse_eu o fixed bs = ROk rs ->
  exists rs', rs = (EUR, None) :: rs' /\ Forall (eu_entry_ok bs) rs' /\ (9 <= length rs')%nat.
Proof.
  intros fixed bs rs H. unfold parse_eu in H.
  destruct (eu_fold o fixed (lines bs) [(EUR, None)]) as [r| |] eqn:E; try discriminate.
  destruct (Nat.ltb_spec (length r) 10) as [L|L]; [discriminate|]. inversion H; subst r.
  apply eu_fold_verbatim with (bs := bs) in E as [more [-> Hm]]; [|apply lines_occurs].
  exists more. repeat split; auto. rewrite app_length in L. cbn [length] in L. unfold entry in *. lia.
Qed.

(* --- panics: exactly the split_at(3) site, exactly on the classified lines --- *)

Lemma eu_core_panic : forall l k, eu_core o false l = LPanic k ->
  exists l1, strip_prefix P1 l = Some l1 /\
    ((length l1 < 3)%nat \/ match skipn 3 l1 with b :: _ => is_cont b = true | [] => False end).
Proof.
  intros l k H. unfold eu_core in H.
  destruct (starts_with P0 l); cbn [negb] in H; [|discriminate].
  destruct (strip_prefix P1 l) as [l1|] eqn:E1; [|discriminate].
  exists l1. split; [reflexivity|].
  destruct (Nat.ltb_spec (length l1) 3) as [L|L]; [now left|]. right.
  destruct (skipn 3 l1) as [|b l2'] eqn:E2.
  - exfalso. cbn [length] in H.
    destruct (find_byte 39 (strip_seps 0 [])) eqn:F; [|discriminate]. simpl in F. discriminate.
  - destruct (is_cont b) eqn:C; [reflexivity|].
    exfalso.
    destruct (find_byte 39 (strip_seps (length (b :: l2')) (b :: l2'))) as [i|] eqn:F; [|discriminate].
    rewrite (slice3_ok _ _ F) in H.
    destruct (o (firstn i (strip_seps (length (b :: l2')) (b :: l2')))); discriminate.
Qed.

Lemma eu_line_panic_known : forall l k, eu_line o false l = LPanic k -> short_currency_line l = true.
Proof.
  unfold eu_line, short_currency_line. intros l k H.
  apply eu_core_panic in H as [l1 [E H]]. rewrite E.
  destruct H as [H|H].
  - apply orb_true_iff. left. now apply Nat.ltb_lt.
  - apply orb_true_iff. right. destruct (skipn 3 l1); [contradiction | exact H].
Qed.

Lemma eu_fold_panic_known : forall ls acc k,
  eu_fold o false ls acc = RPanic k -> existsb short_currency_line ls = true.
Proof.
  induction ls as [|l ls IH]; intros acc k H; simpl in H; [discriminate|].
  simpl. apply orb_true_iff.
  destruct (eu_line o false l) eqn:EL; try discriminate.
  - right. eapply IH; eauto.
  - right. eapply IH; eauto.
  - left. eapply eu_line_panic_known; eauto.
Qed.

Theorem eu_no_panic_except_known : forall bs, known_C20_eu_split_at bs = false ->
  forall k, parse_eu o false bs <> RPanic k.
Proof.
  intros bs Hk k H. unfold parse_eu in H.
  destruct (eu_fold o false (lines bs) [(EUR, None)]) as [r| |k'] eqn:E; try discriminate.
  - destruct (Nat.ltb (length r) 10); discriminate.
  - apply eu_fold_panic_known in E. unfold known_C20_eu_split_at in Hk. congruence.
Qed.

(* --- the repaired scanner --- *)

Lemma eu_core_fixed : forall l,
  eu_core o true l = match eu_core o false l with LPanic _ => LErr MSG_FAIL | x => x end.
Proof.
  intros l. unfold eu_core.
  destruct (starts_with P0 l); cbn [negb]; [|reflexivity].
  destruct (strip_prefix P1 l) as [l1|]; [|reflexivity].
  destruct (Nat.ltb (length l1) 3); [reflexivity|].
  destruct (match skipn 3 l1 with [] => false | b :: _ => is_cont b end); [reflexivity|].
  destruct (find_byte 39 (strip_seps (length (skipn 3 l1)) (skipn 3 l1))) as [i|] eqn:F; [|reflexivity].
  rewrite (slice3_ok _ _ F).
  destruct (o (firstn i (strip_seps (length (skipn 3 l1)) (skipn 3 l1)))); reflexivity.
Qed.

Lemma eu_fold_fixed_no_panic : forall ls acc k, eu_fold o true ls acc <> RPanic k.
Proof.
  induction ls as [|l ls IH]; intros acc k; simpl; [discriminate|].
  unfold eu_line. rewrite eu_core_fixed.
  destruct (eu_core o false (trim l)); try apply IH; discriminate.
Qed.

Theorem eu_fixed_no_panic : forall bs k, parse_eu o true bs <> RPanic k.
Proof.
  intros bs k H. unfold parse_eu in H.
  destruct (eu_fold o true (lines bs) [(EUR, None)]) as [r| |k'] eqn:E; try discriminate.
  - destruct (Nat.ltb (length r) 10); discriminate.
  - now apply eu_fold_fixed_no_panic in E.
Qed.

Lemma eu_fold_fixed_agrees : forall ls acc,
  (forall k, eu_fold o false ls acc <> RPanic k) ->
  eu_fold o true ls acc = eu_fold o false ls acc.
Proof.
  induction ls as [|l ls IH]; intros acc H; simpl in *; [reflexivity|].
  unfold eu_line in *. rewrite eu_core_fixed.
  destruct (eu_core o false (trim l)); try (apply IH; exact H); try reflexivity.
  exfalso. now apply (H site).
Qed.

Theorem eu_fixed_agrees : forall bs, (forall k, parse_eu o false bs <> RPanic k) ->
  parse_eu o true bs = parse_eu o false bs.
Proof.
  intros bs H. unfold parse_eu in *. rewrite eu_fold_fixed_agrees; [reflexivity|].
  intros k E. apply (H k). now rewrite E.
Qed.

Theorem eu_fixed_on_known : forall bs k, parse_eu o false bs = RPanic k ->
  parse_eu o true bs = RErr MSG_FAIL.
Proof.
  intros bs k H. unfold parse_eu in *.
  destruct (eu_fold o false (lines bs) [(EUR, None)]) as [r| |k'] eqn:E; try discriminate.
  { destruct (Nat.ltb (length r) 10); discriminate. }
  clear H. revert E. generalize [(EUR, @None (list N))]. generalize (lines bs).
  induction l as [|x ls IH]; intros acc E; simpl in *; [discriminate|].
  unfold eu_line in *. rewrite eu_core_fixed.
  destruct (eu_core o false (trim x)); try discriminate; try (now apply IH).
  reflexivity.
Qed.

(* --- prefixes --- *)

Hypothesis o_empty : o [] <> FNormal.

Theorem eu_prefix_monotone : forall fixed p s rs rf,
  parse_eu o fixed p = ROk rs -> parse_eu o fixed (p ++ s) = ROk rf ->
  exists more, rf = rs ++ more.
Proof.
  intros fixed p s rs rf Hp Hf. unfold parse_eu, lines in *.
  destruct (lines_aux_app p [] s) as [ls [cur' [E1 E2]]]. rewrite E1 in Hf. rewrite E2 in Hp.
  rewrite eu_fold_app in Hp, Hf.
  destruct (eu_fold o fixed ls [(EUR, None)]) as [acc1| |]; try discriminate.
  destruct (eu_fold o fixed (lines_aux cur' s) acc1) as [rf'| |] eqn:F; try discriminate.
  destruct (Nat.ltb (length rf') 10); [discriminate|]. inversion Hf; subst rf'. clear Hf.
  assert (Hacc : exists more, rf = acc1 ++ more) by (eapply eu_fold_acc; eauto).
  destruct cur' as [|c0 cr].
  - simpl in Hp. destruct (Nat.ltb (length acc1) 10); [discriminate|]. inversion Hp; subst. exact Hacc.
  - cbn [eu_fold] in Hp.
    destruct (eu_line o fixed (rev (c0 :: cr))) eqn:EL; try discriminate.
    + destruct (Nat.ltb (length acc1) 10); [discriminate|]. inversion Hp; subst. exact Hacc.
    + destruct (Nat.ltb (length (acc1 ++ [(c, Some t)])) 10); [discriminate|].
      inversion Hp; subst rs. clear Hp.
      destruct (lines_aux_first s (c0 :: cr)) as [X [rest [EX HX]]]; [discriminate|].
      rewrite EX in F. cbn [eu_fold] in F.
      assert (EL' : eu_line o fixed X = LEntry c t).
      { destruct HX as [[s1 ->]|HX].
        - now apply eu_line_extend.
        - apply eu_line_cr. now rewrite <- HX. }
      rewrite EL' in F. eapply eu_fold_acc; eauto.
Qed.

End Fold.

(* the witness of the refutation: a cache cut inside a currency code *)
Definition eu_witness := B"<Cube currency='U".

Theorem eu_no_panic_refuted : forall o, parse_eu o false eu_witness = RPanic 1.
Proof. intros o. vm_compute. reflexivity. Qed.

Theorem eu_witness_known : known_C20_eu_split_at eu_witness = true.
Proof. vm_compute. reflexivity. Qed.

Theorem eu_no_panic_refuted_ex :
  exists bs, ~ (forall (o : list N -> fcl) k, parse_eu o false bs <> RPanic k).
Proof.
  exists eu_witness. intros H. apply (H all_normal 1). apply eu_no_panic_refuted.
Qed.
