(* The calculus model instantiated with integers (the fragment + - * unary -
   and the built-in function abs), with the text renderings fend uses for
   values (Value::format, Expr::format), and the s-expression codec for the
   AST dump of the harness.  Executable only; no proofs. *)
From FendV Require Import Base.Prelude Eval.Calc.
Open Scope N_scope.

Definition znum_un (u : unop) (n : Z) : option Z :=
  match u with
  | UMinus => Some (- n)%Z
  | UPlus => Some n
  | UDiv | UFact => None
  end.

Definition znum_bop (op : bop) (a b : Z) : option Z :=
  match op with
  | BPlus => Some (a + b)%Z
  | BMinus => Some (a - b)%Z
  | BMul => Some (a * b)%Z
  | BOther _ => None
  end.

Definition id_abs : ident := B"abs".

Definition zbuiltin (x : ident) : option (ident + Z) :=
  if ident_eqb x id_abs then Some (inl id_abs) else None.
Definition zbuiltin_apply (g : ident) (n : Z) : option Z :=
  if ident_eqb g id_abs then Some (Z.abs n) else None.
Definition zunit (_ : ident) : option Z := None.

Definition zfmt_polls (_ : value Z) : nat := O.
Definition zfmt_ok (_ : value Z) : bool := true.

Definition zeval := eval Z znum_un znum_bop zbuiltin zbuiltin_apply zunit zunit.
Definition zeval_top := eval_top Z znum_un znum_bop zbuiltin zbuiltin_apply zunit zunit zfmt_polls zfmt_ok.
Definition zrun_history := run_history Z znum_un znum_bop zbuiltin zbuiltin_apply zunit zunit zfmt_polls zfmt_ok.

(* ------------------------------------------------------------------ *)
(* renderings *)

Definition bop_text (op : bop) : list N :=
  match op with
  | BPlus => B"+" | BMinus => B"-" | BMul => B"*" | BOther _ => B"?"
  end.

Definition has_dot (x : ident) : bool := existsb (fun c => c =? 46) x.

(* Expr::format *)
Fixpoint show_expr (e : expr Z) : list N :=
  match e with
  | ELit n => Z_decimal n
  | EUnitLit => B"()"
  | EIdent x => x
  | EParens a => B"(" ++ show_expr a ++ B")"
  | EUn UMinus a => B"(-" ++ show_expr a ++ B")"
  | EUn UPlus a => B"(+" ++ show_expr a ++ B")"
  | EUn UDiv a => B"(/" ++ show_expr a ++ B")"
  | EUn UFact a => show_expr a ++ B"!"
  | EBop op a b => B"(" ++ show_expr a ++ bop_text op ++ show_expr b ++ B")"
  | EApply a b => B"(" ++ show_expr a ++ B" (" ++ show_expr b ++ B"))"
  | EApplyFn a b | EApplyMul a b => B"(" ++ show_expr a ++ B" " ++ show_expr b ++ B")"
  | EFn x body =>
    if has_dot x then B"(" ++ x ++ B":" ++ show_expr body ++ B")"
    else [92] ++ x ++ B"." ++ show_expr body
  | EAssign x a => x ++ B" = " ++ show_expr a
  | EStmts a b => show_expr a ++ B"; " ++ show_expr b
  end.

(* Value::format (plain) *)
Definition show_value (v : value Z) : list N :=
  match v with
  | VNum n => Z_decimal n
  | VUnit => B"()"
  | VFn x body _ =>
    if has_dot x then x ++ B":" ++ show_expr body else [92] ++ x ++ B"." ++ show_expr body
  | VBuiltin g => g
  end.

Definition err_num (e : everr) : N :=
  match e with
  | ENotFound _ => 1 | ENotAFunction => 2 | ENotFunOrNum => 3 | EExpectedNum => 4
  | EBadMinus => 5 | ENumeric => 6 | EIntr => 7 | EFuel => 8
  end.

(* ------------------------------------------------------------------ *)
(* AST dump of the harness -> expr.  None = outside the modelled fragment. *)

Fixpoint digits_to_N (bs : list N) (acc : N) : option N :=
  match bs with
  | [] => Some acc
  | b :: r => if is_digit b then digits_to_N r (acc * 10 + (b - 48)) else None
  end.

Definition lit_of_text (bs : list N) : option Z :=
  match bs with
  | [] => None
  | 45 :: r => match r with [] => None | _ => option_map (fun n => (- Z.of_N n)%Z) (digits_to_N r 0) end
  | _ => option_map Z.of_N (digits_to_N bs 0)
  end.

Definition is_ascii (bs : list N) : bool := forallb (fun b => b <? 128) bs.

Definition bop_of_text (bs : list N) : option bop :=
  if opeq bs "+" then Some BPlus else if opeq bs "-" then Some BMinus
  else if opeq bs "*" then Some BMul else None.

Fixpoint expr_of_sx (t : sx) : option (expr Z) :=
  match t with
  | XL (XS tag :: args) =>
    let un (k : expr Z -> expr Z) :=
      match args with [a] => option_map k (expr_of_sx a) | _ => None end in
    let bin (k : expr Z -> expr Z -> expr Z) :=
      match args with
      | [a; b] => match expr_of_sx a, expr_of_sx b with Some x, Some y => Some (k x y) | _, _ => None end
      | _ => None
      end in
    let named (k : ident -> expr Z -> expr Z) :=
      match args with
      | [XS x; a] => if is_ascii x then option_map (k x) (expr_of_sx a) else None
      | _ => None
      end in
    if opeq tag "num" then match args with [XS d] => option_map ELit (lit_of_text d) | _ => None end
    else if opeq tag "unit" then match args with [] => Some EUnitLit | _ => None end
    else if opeq tag "id" then match args with [XS x] => if is_ascii x then Some (EIdent x) else None | _ => None end
    else if opeq tag "par" then un EParens
    else if opeq tag "neg" then un (EUn UMinus)
    else if opeq tag "pos" then un (EUn UPlus)
    else if opeq tag "bop" then
      match args with
      | [XS o; a; b] =>
        match bop_of_text o, expr_of_sx a, expr_of_sx b with
        | Some op, Some x, Some y => Some (EBop op x y)
        | _, _, _ => None
        end
      | _ => None
      end
    else if opeq tag "app" then bin EApply
    else if opeq tag "appfn" then bin EApplyFn
    else if opeq tag "appmul" then bin EApplyMul
    else if opeq tag "fn" then named EFn
    else if opeq tag "set" then named EAssign
    else if opeq tag "seq" then bin EStmts
    else None
  | _ => None
  end.

Fixpoint sx_of_expr (e : expr Z) : sx :=
  match e with
  | ELit n => XL [XS (B"num"); XS (Z_decimal n)]
  | EUnitLit => XL [XS (B"unit")]
  | EIdent x => XL [XS (B"id"); XS x]
  | EParens a => XL [XS (B"par"); sx_of_expr a]
  | EUn UMinus a => XL [XS (B"neg"); sx_of_expr a]
  | EUn UPlus a => XL [XS (B"pos"); sx_of_expr a]
  | EUn UDiv a => XL [XS (B"inv"); sx_of_expr a]
  | EUn UFact a => XL [XS (B"fact"); sx_of_expr a]
  | EBop op a b => XL [XS (B"bop"); XS (bop_text op); sx_of_expr a; sx_of_expr b]
  | EApply a b => XL [XS (B"app"); sx_of_expr a; sx_of_expr b]
  | EApplyFn a b => XL [XS (B"appfn"); sx_of_expr a; sx_of_expr b]
  | EApplyMul a b => XL [XS (B"appmul"); sx_of_expr a; sx_of_expr b]
  | EFn x b => XL [XS (B"fn"); XS x; sx_of_expr b]
  | EAssign x a => XL [XS (B"set"); XS x; sx_of_expr a]
  | EStmts a b => XL [XS (B"seq"); sx_of_expr a; sx_of_expr b]
  end.

Definition sx_of_out (o : out (value Z)) : sx :=
  match o with
  | Good v => XL [XS (B"ok"); XS (show_value v)]
  | Bad e => XL [XS (B"err"); sx_N (err_num e)]
  end.

Definition sx_of_event (ev : event Z) : sx :=
  match ev with
  | LAssign x v => XL [XS (B"set"); XS x; XS (show_value v)]
  | LAns v => XL [XS (B"ans"); XS (show_value v)]
  end.

Definition sx_of_vars (vs : vars Z) : sx :=
  XL (map (fun xv => XL [XS (fst xv); XS (show_value (snd xv))]) vs).

(* a history with full observations: per step the outcome, the number of
   polls, the variables afterwards and the writes of that step *)
Fixpoint zrun_observed (fuel : nat) (h : list (expr Z * option N)) (vs : vars Z) : list sx :=
  match h with
  | [] => []
  | (e, fire) :: r =>
    let '(s, o) := zeval_top fire fuel e (mkS vs 0 []) in
    XL [sx_of_out o; sx_N (s_polls s); sx_of_vars (s_vars s); XL (map sx_of_event (s_log s))]
    :: zrun_observed fuel r (s_vars s)
  end.

Definition model_fuel : nat := 3000.

(* number of evaluate() calls an expression costs when it contains no
   identifier, lambda or application: every node once *)
Fixpoint nodes (e : expr Z) : N :=
  match e with
  | ELit _ | EUnitLit | EIdent _ => 1
  | EParens a | EUn _ a | EFn _ a | EAssign _ a => 1 + nodes a
  | EBop _ a b | EApply a b | EApplyFn a b | EApplyMul a b | EStmts a b => 1 + nodes a + nodes b
  end.
