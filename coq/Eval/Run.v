(* Dispatcher for the eval area (C13, C09, C07): executable entry points used
   by the correspondence checks (extracted to OCaml, also run by vm_compute). *)
From FendV Require Import Base.Prelude Eval.Preview Eval.Calc Eval.CalcZ Eval.Cost.
Open Scope N_scope.

(* history steps: ((tree k) ...), k < 0 = never interrupted *)
Fixpoint as_history (l : list sx) : option (list (expr Z * option N)) :=
  match l with
  | [] => Some []
  | XL [t; XA k] :: r =>
    match expr_of_sx t, as_history r with
    | Some e, Some h => Some ((e, if (k <? 0)%Z then None else Some (Z.to_N k)) :: h)
    | _, _ => None
    end
  | _ => None
  end.

Definition run_eval : dispatcher := fun op args =>
  (* (preview-filter (input cps) (text cps) is_unit) -> 1 shown | 0 empty *)
  if opeq op "preview-filter" then
    match args with
    | [XL i; XL t; XA u] =>
      match as_Ns i, as_Ns t with
      | Some input, Some text =>
        Some (sx_bool (preview_shows input text (negb (Z.eqb u 0))))
      | _, _ => Some sx_bad
      end
    | _ => Some sx_bad
    end
  (* (preview-spec (text cps)) -> (single_line known_linebreak utf8_length) *)
  else if opeq op "preview-spec" then
    match args with
    | [XL t] =>
      match as_Ns t with
      | Some text => Some (XL [sx_bool (single_line text); sx_bool (known_c13_linebreak text);
                               sx_N (utf8_length text)])
      | None => Some sx_bad
      end
    | _ => Some sx_bad
    end
  (* (calc-run (tree k) ...) -> ("ok" (outcome polls vars log) ...) | ("unsupported") *)
  else if opeq op "calc-run" then
    match as_history args with
    | Some h => Some (XL [XS (B"ok"); XL (zrun_observed model_fuel h [])])
    | None => Some (XL [XS (B"unsupported")])
    end
  (* (calc-subst "x" tree_t tree_e) -> ("ok" tree) *)
  else if opeq op "calc-subst" then
    match args with
    | [XS x; t; e] =>
      match expr_of_sx t, expr_of_sx e with
      | Some t', Some e' => Some (XL [XS (B"ok"); sx_of_expr (subst x t' e')])
      | _, _ => Some (XL [XS (B"unsupported")])
      end
    | _ => Some sx_bad
    end
  (* (calc-nodes tree) -> number of AST nodes *)
  else if opeq op "calc-nodes" then
    match args with
    | [t] => match expr_of_sx t with
             | Some e => Some (XL [XS (B"ok"); sx_N (nodes e)])
             | None => Some (XL [XS (B"unsupported")])
             end
    | _ => Some sx_bad
    end
  (* minimal poll counts of the polled loops (C07 a) *)
  else if opeq op "polls-pow" then
    match args with
    | [a; e] => match as_N a, as_N e with
                | Some a', Some e' => Some (sx_N (pow_polls_of a' e'))
                | _, _ => Some sx_bad end
    | _ => Some sx_bad
    end
  else if opeq op "polls-factorial" then
    match args with
    | [n] => match as_N n with Some n' => Some (sx_N (factorial_polls_of n')) | None => Some sx_bad end
    | _ => Some sx_bad
    end
  else if opeq op "polls-fib" then
    match args with
    | [n] => match as_N n with Some n' => Some (sx_N (fibonacci_polls_of n')) | None => Some sx_bad end
    | _ => Some sx_bad
    end
  else if opeq op "polls-die" then
    match args with
    | [k; f] => match as_N k, as_N f with
                | Some k', Some f' => Some (sx_N (new_die_polls_of k' f'))
                | _, _ => Some sx_bad end
    | _ => Some sx_bad
    end
  else if opeq op "polls-date-months" then
    match args with
    | [n] => match as_N n with Some n' => Some (sx_N (date_months_polls_of n')) | None => Some sx_bad end
    | _ => Some sx_bad
    end
  else if opeq op "polls-date-days" then
    match args with
    | [n] => match as_N n with Some n' => Some (sx_N (date_days_polls_of n')) | None => Some sx_bad end
    | _ => Some sx_bad
    end
  else if opeq op "polls-lshift" then
    match args with
    | [n] => match as_N n with Some n' => Some (sx_N (lshift_n_insert_polls_of n')) | None => Some sx_bad end
    | _ => Some sx_bad
    end
  else if opeq op "polls-bop" then
    match args with
    | [a; b] => match as_N a, as_N b with
                | Some a', Some b' => Some (sx_N (dist_bop_polls a' b'))
                | _, _ => Some sx_bad end
    | _ => Some sx_bad
    end
  (* (l1-polls "op" sa (a limbs) sb (b limbs)) -> ("some" n) | ("none") *)
  else if opeq op "l1-polls" then
    match args with
    | [XS o; XA sa; XL a; XA sb; XL b] =>
      match as_Ns a, as_Ns b with
      | Some la, Some lb =>
        let fa := negb (Z.eqb sa 0) in
        let fb := negb (Z.eqb sb 0) in
        if opeq o "mul" then Some (sx_opt sx_N (Some (l1_mul_polls fa la fb lb)))
        else if opeq o "lshift" then Some (sx_opt sx_N (Some (l1_lshift_polls fa la)))
        else if opeq o "rshift" then Some (sx_opt sx_N (Some (l1_rshift_polls fa la)))
        else if opeq o "divmod" then Some (sx_opt sx_N (l1_divmod_polls fa la fb lb))
        else if opeq o "rshift_n" then Some (sx_opt sx_N (Some (l1_rshift_n_polls fa la (limbs_val lb))))
        else if opeq o "lshift_n" then Some (sx_opt sx_N (Some (l1_lshift_n_polls_min (limbs_val lb))))
        else Some sx_bad
      | _, _ => Some sx_bad
      end
    | _ => Some sx_bad
    end
  else if opeq op "polls-digits" then
    match args with
    | [n] => match as_N n with Some n' => Some (sx_N (digits_polls_of n')) | None => Some sx_bad end
    | _ => Some sx_bad
    end
  else if opeq op "polls-recurring" then
    match args with
    | [n] => match as_N n with Some n' => Some (sx_N (recurring_polls_of n')) | None => Some sx_bad end
    | _ => Some sx_bad
    end
  else None.

Definition run_eval_line : list N -> list N := run_with run_eval.
