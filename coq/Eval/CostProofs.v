(* Proofs about the poll skeletons (C07 a). *)
From FendV Require Import Base.Prelude Eval.Cost.
From Coq Require Import Lia.
Open Scope N_scope.

(* ------------------------------------------------------------------ *)
(* how gap composes *)

(* work since the last poll at the end of a trace *)
Fixpoint endcur (tr : trace) (cur : N) : N :=
  match tr with
  | [] => cur
  | Poll :: r => endcur r 0
  | Work n :: r => endcur r (cur + n)
  end.

(* every segment that a poll terminates is at most bound *)
Fixpoint mid_ok (bound : N) (tr : trace) (cur : N) : Prop :=
  match tr with
  | [] => True
  | Poll :: r => cur <= bound /\ mid_ok bound r 0
  | Work n :: r => mid_ok bound r (cur + n)
  end.

Lemma gap_aux_le : forall tr cur best bound,
  mid_ok bound tr cur -> endcur tr cur <= bound -> best <= bound -> gap_aux tr cur best <= bound.
Proof.
  induction tr as [|[|n] r IH]; intros cur best bound Hm He Hb; cbn in *.
  - apply N.max_lub; assumption.
  - destruct Hm as [Hc Hm]. apply IH; try assumption. apply N.max_lub; assumption.
  - apply IH; assumption.
Qed.

Lemma gap_aux_ge_best : forall tr cur best, best <= gap_aux tr cur best.
Proof.
  induction tr as [|[|n] r IH]; intros cur best; cbn.
  - apply N.le_max_r.
  - etransitivity; [|apply IH]. apply N.le_max_r.
  - apply IH.
Qed.

Lemma gap_aux_ge_end : forall tr cur best, endcur tr cur <= gap_aux tr cur best.
Proof.
  induction tr as [|[|n] r IH]; intros cur best; cbn.
  - apply N.le_max_l.
  - apply IH.
  - apply IH.
Qed.

Lemma endcur_app : forall a b cur, endcur (a ++ b) cur = endcur b (endcur a cur).
Proof. induction a as [|[|n] r IH]; intros; cbn; auto. Qed.

Lemma mid_ok_app : forall bound a b cur,
  mid_ok bound a cur -> mid_ok bound b (endcur a cur) -> mid_ok bound (a ++ b) cur.
Proof.
  induction a as [|[|n] r IH]; intros b cur Ha Hb; cbn in *; auto.
  destruct Ha; split; auto.
Qed.

Lemma mid_ok_mono : forall bound tr cur cur', cur' <= cur -> mid_ok bound tr cur -> mid_ok bound tr cur'.
Proof.
  induction tr as [|[|n] r IH]; intros cur cur' H Hm; cbn in *; auto.
  - destruct Hm; split; auto. lia.
  - eapply IH; [|eassumption]. lia.
Qed.

Lemma endcur_mono : forall tr cur cur', cur' <= cur -> endcur tr cur' <= endcur tr cur.
Proof.
  induction tr as [|[|n] r IH]; intros cur cur' H; cbn; auto.
  - lia.
  - apply IH. lia.
Qed.

(* poll-free traces *)
Fixpoint pollfree (tr : trace) : Prop :=
  match tr with [] => True | Poll :: _ => False | Work _ :: r => pollfree r end.

Lemma pollfree_end : forall tr cur, pollfree tr -> endcur tr cur = cur + work tr.
Proof.
  induction tr as [|[|n] r IH]; intros cur H; cbn in *; try contradiction; [lia|].
  rewrite IH by assumption. lia.
Qed.

Lemma pollfree_mid : forall bound tr cur, pollfree tr -> mid_ok bound tr cur.
Proof. induction tr as [|[|n] r IH]; intros cur H; cbn in *; try contradiction; auto. Qed.

Lemma pollfree_app : forall a b, pollfree a -> pollfree b -> pollfree (a ++ b).
Proof. induction a as [|[|n] r IH]; intros b Ha Hb; cbn in *; try contradiction; auto. Qed.

Lemma pollfree_repeat : forall n body, pollfree body -> pollfree (repeat_trace n body).
Proof. induction n; intros; cbn; auto. apply pollfree_app; auto. Qed.

Lemma work_app : forall a b, work (a ++ b) = work a + work b.
Proof. induction a as [|[|n] r IH]; intros; cbn; auto. rewrite IH. lia. Qed.

Lemma work_repeat : forall n body, work (repeat_trace n body) = N.of_nat n * work body.
Proof.
  induction n as [|n IH]; intros; cbn [repeat_trace]; [reflexivity|].
  rewrite work_app, IH, Nat2N.inj_succ. lia.
Qed.

Lemma gap_pollfree : forall tr, pollfree tr -> gap tr = work tr.
Proof.
  intros tr H. unfold gap.
  assert (forall tr cur best, pollfree tr -> gap_aux tr cur best = N.max (cur + work tr) best) as G.
  { clear. induction tr as [|[|n] r IH]; intros cur best H; cbn in *; try contradiction.
    - rewrite N.add_0_r. reflexivity.
    - rewrite IH by assumption. f_equal. lia. }
  rewrite G by assumption. lia.
Qed.

(* a loop whose body starts with a poll *)
Lemma polled_loop : forall bound e n body cur,
  cur <= bound -> e <= bound ->
  mid_ok bound body 0 -> endcur body 0 <= e ->
  mid_ok bound (repeat_trace n (Poll :: body)) cur
  /\ endcur (repeat_trace n (Poll :: body)) cur <= N.max cur e.
Proof.
  intros bound e n body. induction n as [|n IH]; intros cur Hc He Hm Hend; cbn [repeat_trace].
  - cbn. split; [exact I | lia].
  - destruct (IH (endcur body 0)) as [M E]; try assumption; [lia|].
    split.
    + cbn [app mid_ok]. split; [assumption|]. apply mid_ok_app; assumption.
    + cbn [app endcur]. rewrite endcur_app. lia.
Qed.

Lemma gap_polled_loop : forall bound n body,
  mid_ok bound body 0 -> endcur body 0 <= bound -> gap (repeat_trace n (Poll :: body)) <= bound.
Proof.
  intros bound n body Hm He. unfold gap.
  destruct (polled_loop bound bound n body 0) as [M E]; try assumption; try lia.
  apply gap_aux_le; try assumption; lia.
Qed.

(* ------------------------------------------------------------------ *)
(* the polled loops: gap linear in the operand lengths *)

Lemma mul_trace_shape : forall bound la lb cur,
  cur <= bound -> la + lb + 1 <= bound ->
  mid_ok bound (mul_trace la lb) cur /\ endcur (mul_trace la lb) cur <= N.max cur (la + lb + 1).
Proof.
  intros. unfold mul_trace. apply polled_loop; try assumption; cbn; auto. lia.
Qed.

Lemma gap_bound_mul_lemma : forall la lb, gap (mul_trace la lb) <= la + lb + 1.
Proof.
  intros. unfold mul_trace. apply gap_polled_loop; cbn; auto. lia.
Qed.

Lemma gap_bound_lshift1_lemma : forall l, gap (lshift1_trace l) <= 1.
Proof. intros. unfold lshift1_trace. apply gap_polled_loop; cbn; auto. lia. Qed.

Lemma gap_bound_die1_lemma : forall faces, gap (die1_trace faces) <= 1.
Proof. intros. unfold die1_trace. apply gap_polled_loop; cbn; auto. lia. Qed.

Lemma gap_bound_fibonacci_lemma : forall n l, gap (fibonacci_trace n l) <= l + 1.
Proof. intros. unfold fibonacci_trace. apply gap_polled_loop; cbn; auto. lia. Qed.

Lemma gap_bound_divmod_lemma : forall la lb, gap (divmod_trace la lb) <= 64 * (2 * lb + 4).
Proof.
  intros. unfold divmod_trace.
  assert (pollfree (repeat_trace 64 (divmod_round lb))) as PF by (apply pollfree_repeat; cbn; auto).
  apply gap_polled_loop.
  - apply pollfree_mid. exact PF.
  - rewrite pollfree_end by exact PF. rewrite work_repeat. cbn [work divmod_round]. lia.
Qed.

Lemma gap_bound_factorial_lemma : forall n lr, gap (factorial_trace n lr) <= lr + 3.
Proof.
  intros. unfold factorial_trace. apply gap_polled_loop.
  - destruct (mul_trace_shape (lr + 3) lr 1 0) as [M E]; try lia.
    apply mid_ok_app; [exact M|]. cbn. exact I.
  - rewrite endcur_app. cbn [endcur].
    destruct (mul_trace_shape (lr + 3) lr 1 0) as [M E]; try lia.
Qed.

Lemma pow_trace_shape : forall fuel lr lb e bound cur,
  cur <= bound -> pow_max_len fuel lr lb e + 1 <= bound ->
  mid_ok bound (pow_trace fuel lr lb e) cur /\ endcur (pow_trace fuel lr lb e) cur <= bound.
Proof.
  induction fuel as [|f IH]; intros lr lb e bound cur Hc Hb; cbn [pow_trace pow_max_len] in *.
  - cbn. auto.
  - destruct (e =? 0); [cbn; auto|].
    set (lr' := if N.odd e then lr + lb else lr) in *.
    assert (pow_max_len f lr' (2 * lb) (N.div2 e) + 1 <= bound) as Hrec by lia.
    assert (lb + lb + 1 <= bound) as Hsq by lia.
    assert (mid_ok bound (if N.odd e then mul_trace lr lb else []) 0
            /\ endcur (if N.odd e then mul_trace lr lb else []) 0 <= bound) as [MA EA].
    { destruct (N.odd e).
      - destruct (mul_trace_shape bound lr lb 0) as [M E]; try lia. split; [exact M | lia].
      - cbn. split; [exact I | lia]. }
    destruct (mul_trace_shape bound lb lb (endcur (if N.odd e then mul_trace lr lb else []) 0)) as [MB EB]; try lia.
    destruct (IH lr' (2 * lb) (N.div2 e) bound
                 (endcur (mul_trace lb lb) (endcur (if N.odd e then mul_trace lr lb else []) 0))) as [MC EC]; try lia.
    split.
    + cbn [mid_ok]. split; [exact Hc|].
      apply mid_ok_app; [exact MA|]. apply mid_ok_app; [exact MB | exact MC].
    + cbn [endcur]. rewrite !endcur_app. exact EC.
Qed.

Lemma gap_bound_pow_lemma : forall fuel lr lb e,
  gap (pow_trace fuel lr lb e) <= pow_max_len fuel lr lb e + 1.
Proof.
  intros. unfold gap.
  destruct (pow_trace_shape fuel lr lb e (pow_max_len fuel lr lb e + 1) 0) as [M E]; try lia.
  apply gap_aux_le; try assumption. lia.
Qed.

(* ------------------------------------------------------------------ *)
(* the repaired loops: polled, gap bounded *)

Lemma repeat_shape : forall bound body,
  (forall cur, cur <= bound -> mid_ok bound body cur /\ endcur body cur <= bound) ->
  forall m cur, cur <= bound ->
  mid_ok bound (repeat_trace m body) cur /\ endcur (repeat_trace m body) cur <= bound.
Proof.
  intros bound body H. induction m as [|m IH]; intros cur Hc; cbn [repeat_trace].
  - cbn. auto.
  - destruct (H cur Hc) as [M E]. destruct (IH _ E) as [M2 E2].
    split; [apply mid_ok_app; assumption | rewrite endcur_app; exact E2].
Qed.

Lemma gap_bound_date_steps_lemma : forall n step, gap (date_steps_trace n step) <= step.
Proof. intros. unfold date_steps_trace. apply gap_polled_loop; cbn; auto. lia. Qed.

Lemma gap_bound_date_days_lemma : forall n, gap (date_days_trace n) <= 1.
Proof. intro. apply gap_bound_date_steps_lemma. Qed.

Lemma gap_bound_date_months_lemma : forall n, gap (date_months_trace n) <= 1.
Proof.
  intro n. unfold date_months_trace, gap.
  destruct (polled_loop 1 1 (N.to_nat (n / 12)) [Work 1] 0) as [M1 E1]; cbn; auto; try lia.
  destruct (polled_loop 1 1 (N.to_nat (n mod 12)) [Work 1]
              (endcur (repeat_trace (N.to_nat (n / 12)) [Poll; Work 1]) 0)) as [M2 E2]; cbn; auto; try lia.
  apply gap_aux_le; [apply mid_ok_app; assumption | rewrite endcur_app; lia | lia].
Qed.

Lemma inserts_shape : forall k l bound cur,
  cur <= bound -> l + N.of_nat k <= bound + 1 ->
  mid_ok bound (inserts_trace k l) cur /\ endcur (inserts_trace k l) cur <= bound.
Proof.
  induction k as [|k IH]; intros l bound cur Hc Hl; cbn [inserts_trace].
  - cbn. auto.
  - rewrite Nat2N.inj_succ in Hl. cbn [mid_ok endcur].
    destruct (IH (l + 1) bound (0 + l)) as [M E]; try lia. auto.
Qed.

Lemma lshift_inserts_le : forall n, lshift_inserts n <= n / 64 /\ 64 * lshift_inserts n <= n.
Proof.
  intro n. unfold lshift_inserts. destruct (64 <? n); [|split; [apply N.le_0_l | lia]].
  split; [apply N.le_refl|]. apply N.mul_div_le. lia.
Qed.

Lemma lshift1_shape : forall bound L cur, 1 <= bound -> cur <= bound ->
  mid_ok bound (lshift1_trace L) cur /\ endcur (lshift1_trace L) cur <= bound.
Proof.
  intros bound L cur H1 Hc. unfold lshift1_trace.
  destruct (polled_loop bound 1 (N.to_nat L) [Work 1] cur) as [A E]; cbn; auto; try lia.
  split; [exact A | lia].
Qed.

(* lshift_n: never more work between two polls than the result has limbs *)
Lemma gap_bound_lshift_n_lemma : forall l0 n, 1 <= l0 -> gap (lshift_n_trace l0 n) <= l0 + n / 64.
Proof.
  intros l0 n H. unfold lshift_n_trace, gap.
  destruct (lshift_inserts_le n) as [K1 _].
  generalize dependent (lshift_inserts n). intros k K1.
  generalize dependent (n / 64). intros q K1.
  set (bound := l0 + q).
  assert (1 <= bound) as B1 by (unfold bound; lia).
  destruct (inserts_shape (N.to_nat k) l0 bound 0) as [M1 E1].
  { lia. } { rewrite N2Nat.id. unfold bound. lia. }
  destruct (repeat_shape bound (lshift1_trace (l0 + k)) (fun cur Hc => lshift1_shape bound (l0 + k) cur B1 Hc)
              (N.to_nat (n - 64 * k)) _ E1) as [M2 E2].
  apply gap_aux_le; [apply mid_ok_app; assumption | rewrite endcur_app; exact E2 | lia].
Qed.

Lemma gap_bound_dist_bop_lemma : forall la lb, gap (dist_bop_trace la lb) <= la * lb + 1.
Proof.
  intros. unfold dist_bop_trace. apply gap_polled_loop; cbn [mid_ok endcur]; [exact I|].
  generalize (la * lb). intro m. lia.
Qed.

Lemma polls_app : forall a b, polls (a ++ b) = polls a + polls b.
Proof. induction a as [|[|k] a IH]; intros; cbn [polls app]; [lia | rewrite IH; lia | apply IH]. Qed.

Lemma polls_repeat : forall n body, polls (repeat_trace n body) = N.of_nat n * polls body.
Proof.
  induction n as [|n IH]; intros; cbn [repeat_trace]; [reflexivity|].
  rewrite polls_app, IH, Nat2N.inj_succ. lia.
Qed.

Lemma polls_date_steps_lemma : forall n step, polls (date_steps_trace n step) = n.
Proof. intros. unfold date_steps_trace. rewrite polls_repeat. cbn [polls]. rewrite N2Nat.id. lia. Qed.

Lemma polls_date_months_lemma : forall n, polls (date_months_trace n) = date_months_polls_of n.
Proof.
  intros. unfold date_months_trace, date_months_polls_of. rewrite polls_app, !polls_repeat.
  cbn [polls]. rewrite !N2Nat.id. lia.
Qed.

Lemma polls_dist_bop_lemma : forall la lb, polls (dist_bop_trace la lb) = dist_bop_polls la lb.
Proof. intros. unfold dist_bop_trace, dist_bop_polls. rewrite polls_repeat. cbn [polls]. rewrite N2Nat.id. lia. Qed.

Lemma polls_inserts : forall k l, polls (inserts_trace k l) = N.of_nat k.
Proof.
  induction k as [|k IH]; intros; cbn [inserts_trace polls]; [reflexivity|].
  rewrite IH, Nat2N.inj_succ. lia.
Qed.

Lemma polls_lshift_n_lemma : forall l0 n, lshift_n_insert_polls_of n <= polls (lshift_n_trace l0 n).
Proof.
  intros. unfold lshift_n_trace, lshift_n_insert_polls_of. rewrite polls_app, polls_inserts, N2Nat.id. lia.
Qed.

(* ------------------------------------------------------------------ *)
(* the loops as they were before the repairs, and the parser: no poll *)

Lemma gap_date_days_old_lemma : forall n, gap (date_days_trace_old n) = n.
Proof.
  intros. unfold date_days_trace_old. rewrite gap_pollfree by (apply pollfree_repeat; cbn; auto).
  rewrite work_repeat. cbn [work]. lia.
Qed.

Lemma gap_dist_bop_old_lemma : forall la lb, gap (dist_bop_trace_old la lb) = 2 * (la * lb).
Proof.
  intros. unfold dist_bop_trace_old. rewrite gap_pollfree by (apply pollfree_repeat; cbn; auto).
  rewrite work_repeat. cbn [work]. lia.
Qed.

Lemma parse_juxt_cost_ge : forall d, 2 ^ N.of_nat d <= parse_juxt_cost d.
Proof.
  induction d as [|d IH]; [cbn; lia|].
  rewrite Nat2N.inj_succ, N.pow_succ_r'. cbn [parse_juxt_cost]. lia.
Qed.

Lemma gap_parse_juxt_lemma : forall d, 2 ^ N.of_nat d <= gap (parse_juxt_trace d).
Proof.
  intro d. unfold parse_juxt_trace. rewrite gap_pollfree by (cbn; auto). cbn [work].
  pose proof (parse_juxt_cost_ge d). lia.
Qed.

Lemma inserts_old_pollfree : forall k l, pollfree (inserts_trace_old k l).
Proof. induction k; intros; cbn; auto. Qed.

Lemma inserts_old_work_ge : forall k l, 1 <= l -> N.of_nat k <= work (inserts_trace_old k l).
Proof.
  induction k as [|k IH]; intros l H; [cbn; lia|].
  rewrite Nat2N.inj_succ. cbn [inserts_trace_old work]. specialize (IH (l + 1)). lia.
Qed.

Lemma gap_prefix_pollfree : forall p r, pollfree p -> work p <= gap (p ++ r).
Proof.
  intros p r H. unfold gap.
  assert (forall p cur best, pollfree p -> cur + work p <= gap_aux (p ++ r) cur best) as G.
  { clear. induction p as [|[|n] q IH]; intros cur best H; cbn in *; try contradiction.
    - rewrite N.add_0_r.
      destruct r as [|[|n] r'].
      + cbn. lia.
      + cbn. etransitivity; [|apply gap_aux_ge_best]. lia.
      + (* more work follows: the running segment only grows *)
        assert (forall tr cur cur' best, cur' <= cur -> gap_aux tr cur' best <= gap_aux tr cur best) as Mono.
        { clear. induction tr as [|[|m] t IH]; intros cur cur' best H; cbn.
          - lia.
          - assert (N.max cur' best <= N.max cur best) by lia.
            clear H. revert H0. generalize (N.max cur' best) (N.max cur best). intros b1 b2 Hb.
            assert (forall tr c b1 b2, b1 <= b2 -> gap_aux tr c b1 <= gap_aux tr c b2) as MB.
            { clear. induction tr as [|[|m] t IH]; intros c b1 b2 H; cbn; [lia| |].
              - apply IH. lia.
              - apply IH. exact H. }
            apply MB. exact Hb.
          - apply IH. lia. }
        cbn. etransitivity; [|apply (Mono r' (cur + n) cur best); lia].
        clear. revert cur best. induction r' as [|[|m] t IH]; intros cur best; cbn.
        * lia.
        * etransitivity; [|apply gap_aux_ge_best]. lia.
        * etransitivity; [apply IH|].
          assert (forall tr cur cur' best, cur' <= cur -> gap_aux tr cur' best <= gap_aux tr cur best) as Mono2.
          { clear. induction tr as [|[|k] t IH]; intros cur cur' best H; cbn.
            - lia.
            - assert (forall tr c b1 b2, b1 <= b2 -> gap_aux tr c b1 <= gap_aux tr c b2) as MB.
              { clear. induction tr as [|[|k] t IH]; intros c b1 b2 H; cbn; [lia| |].
                - apply IH. lia.
                - apply IH. exact H. }
              apply MB. lia.
            - apply IH. lia. }
          apply Mono2. lia.
    - etransitivity; [|apply IH; assumption]. lia. }
  specialize (G p 0 0 H). lia.
Qed.

Lemma gap_lshift_n_old_lemma : forall l0 n, 1 <= l0 -> lshift_inserts n <= gap (lshift_n_trace_old l0 n).
Proof.
  intros l0 n H. unfold lshift_n_trace_old.
  etransitivity; [|apply gap_prefix_pollfree; apply inserts_old_pollfree].
  etransitivity; [|apply inserts_old_work_ge; exact H].
  rewrite N2Nat.id. lia.
Qed.

(* ------------------------------------------------------------------ *)
(* exponential beats every quadratic in the size *)

Lemma cube_lt_pow2 : forall n : nat,
  5 * ((N.of_nat n + 16) * (N.of_nat n + 16) * (N.of_nat n + 16)) < 2 ^ (N.of_nat n + 16).
Proof.
  induction n as [|n IH].
  - vm_compute. reflexivity.
  - rewrite Nat2N.inj_succ.
    replace (N.succ (N.of_nat n) + 16) with (N.succ (N.of_nat n + 16)) by lia.
    rewrite N.pow_succ_r'.
    set (x := N.of_nat n + 16) in *.
    assert (16 <= x) by (unfold x; lia).
    replace (N.succ x) with (x + 1) by lia.
    assert (16 * x <= x * x) as H1 by (apply N.mul_le_mono_r; assumption).
    assert (16 * (x * x) <= x * (x * x)) as H2 by (apply N.mul_le_mono_r; assumption).
    assert ((x + 1) * (x + 1) * (x + 1) = x * x * x + 3 * (x * x) + 3 * x + 1) as H3 by lia.
    rewrite H3. lia.
Qed.

Lemma quad_lt_pow2 : forall c, exists d : nat,
  6 <= N.of_nat d /\ c * ((2 * N.of_nat d + 2) * (2 * N.of_nat d + 2)) + c < 2 ^ N.of_nat d.
Proof.
  intro c. exists (N.to_nat (4 * c + 24) + 16)%nat.
  pose proof (cube_lt_pow2 (N.to_nat (4 * c + 24))) as H.
  rewrite Nat2N.inj_add. cbn [N.of_nat]. change (N.of_nat 16) with 16.
  rewrite N2Nat.id in *.
  set (x := 4 * c + 24 + 16) in *.
  assert (4 * c + 40 = x) as Hx by (unfold x; lia).
  split; [lia|].
  eapply N.le_lt_trans; [|exact H].
  assert (c * 4 <= x) by lia.
  assert (2 * x + 2 <= 3 * x) by lia.
  nia.
Qed.

Lemma size_pow2 : forall d, N.size (2 ^ d) = d + 1.
Proof.
  intro d. assert (2 ^ d <> 0) by (apply N.pow_nonzero; lia).
  rewrite N.size_log2 by assumption. rewrite N.log2_pow2 by lia. lia.
Qed.

Definition quad (c s : N) : N := c * (s * s) + c.

Lemma quad_mono : forall c s s', s <= s' -> quad c s <= quad c s'.
Proof.
  intros. unfold quad. apply N.add_le_mono_r. apply N.mul_le_mono_l. apply N.mul_le_mono; assumption.
Qed.

(* date +/- n days: no bound polynomial (here: quadratic, any constant) in the
   size of n covers the gap *)
Lemma gap_unbounded_date_old_lemma : forall c, exists n, quad c (N.size n) < gap (date_days_trace_old n).
Proof.
  intro c. destruct (quad_lt_pow2 c) as (d & Hd & H).
  exists (2 ^ N.of_nat d). rewrite gap_date_days_old_lemma, size_pow2.
  eapply N.le_lt_trans; [|exact H]. apply (quad_mono c). lia.
Qed.

Lemma gap_unbounded_lshift_old_lemma : forall c, exists n, quad c (N.size n) < gap (lshift_n_trace_old 1 n).
Proof.
  intro c. destruct (quad_lt_pow2 c) as (d & Hd & H).
  exists (2 ^ (N.of_nat d + 6)).
  eapply N.lt_le_trans; [|apply gap_lshift_n_old_lemma; lia].
  rewrite size_pow2.
  assert (2 ^ (N.of_nat d + 6) / 64 = 2 ^ N.of_nat d) as Dv.
  { rewrite N.pow_add_r. change (2 ^ 6) with 64. rewrite N.div_mul by lia. reflexivity. }
  assert (lshift_inserts (2 ^ (N.of_nat d + 6)) = 2 ^ N.of_nat d) as Li.
  { unfold lshift_inserts. rewrite Dv.
    assert (64 < 2 ^ (N.of_nat d + 6)) as G.
    { rewrite N.pow_add_r. change (2 ^ 6) with 64.
      assert (2 ^ 1 <= 2 ^ N.of_nat d) by (apply N.pow_le_mono_r; lia). change (2 ^ 1) with 2 in *. lia. }
    apply N.ltb_lt in G. rewrite G. reflexivity. }
  rewrite Li.
  eapply N.le_lt_trans; [|exact H]. apply (quad_mono c). lia.
Qed.

Lemma gap_unbounded_dist_old_lemma : forall c, exists faces, quad c (N.size faces) < gap (dist_bop_trace_old faces faces).
Proof.
  intro c. destruct (quad_lt_pow2 c) as (d & Hd & H).
  exists (2 ^ N.of_nat d). rewrite gap_dist_bop_old_lemma, size_pow2.
  eapply N.lt_le_trans.
  - eapply N.le_lt_trans; [|exact H]. apply (quad_mono c). lia.
  - assert (1 <= 2 ^ N.of_nat d) by (pose proof (N.pow_nonzero 2 (N.of_nat d)); lia). nia.
Qed.

Lemma gap_unbounded_parse_lemma : forall c, exists d, quad c (juxt_tokens d) < gap (parse_juxt_trace d).
Proof.
  intro c. destruct (quad_lt_pow2 c) as (d & Hd & H).
  exists d. eapply N.lt_le_trans; [|apply gap_parse_juxt_lemma].
  eapply N.le_lt_trans; [|exact H]. apply (quad_mono c). unfold juxt_tokens. lia.
Qed.

(* ------------------------------------------------------------------ *)
(* minimal poll counts *)

Lemma size_div2 : forall e, e <> 0 -> N.size e = 1 + N.size (N.div2 e).
Proof.
  intros [|[p|p|]] H; try congruence; cbn; try reflexivity; destruct (Pos.size p); reflexivity.
Qed.

Lemma pow_polls_ge : forall fuel r b e, (N.to_nat (N.size e) <= fuel)%nat -> N.size e <= pow_polls fuel r b e.
Proof.
  induction fuel as [|f IH]; intros r b e Hf.
  - assert (N.size e = 0) by lia. lia.
  - cbn [pow_polls]. destruct (e =? 0) eqn:E.
    + apply N.eqb_eq in E. subst. cbn. lia.
    + apply N.eqb_neq in E. rewrite (size_div2 e E) in *.
      specialize (IH (if N.odd e then r * b else r) (b * b) (N.div2 e)).
      assert (N.to_nat (N.size (N.div2 e)) <= f)%nat by lia.
      specialize (IH H). lia.
Qed.

Lemma pow_polls_of_ge : forall a e, N.size e <= pow_polls_of a e.
Proof. intros. unfold pow_polls_of. apply pow_polls_ge. lia. Qed.

Lemma factorial_polls_ge : forall fuel res n, (N.to_nat n <= fuel)%nat -> n - 1 <= factorial_polls fuel res n.
Proof.
  induction fuel as [|f IH]; intros res n Hf.
  - assert (n = 0) by lia. subst. cbn. lia.
  - cbn [factorial_polls]. destruct (n <=? 1) eqn:E.
    + apply N.leb_le in E. lia.
    + apply N.leb_gt in E. specialize (IH (res * n) (n - 1)).
      assert (N.to_nat (n - 1) <= f)%nat by lia. specialize (IH H). lia.
Qed.

Lemma factorial_polls_of_ge : forall n, n - 1 <= factorial_polls_of n.
Proof. intros. unfold factorial_polls_of. apply factorial_polls_ge. lia. Qed.

Lemma polls_skeleton_mul : forall la lb, polls (mul_trace la lb) = lb.
Proof. intros. unfold mul_trace. rewrite polls_repeat. cbn [polls]. rewrite N2Nat.id. lia. Qed.

(* level-1 counts agree with the skeletons *)
Lemma polls_divmod_trace : forall la lb, polls (divmod_trace la lb) = la.
Proof.
  intros. unfold divmod_trace. rewrite polls_repeat.
  assert (polls (Poll :: repeat_trace 64 (divmod_round lb)) = 1) as E.
  { cbn [polls]. rewrite polls_repeat. cbn [polls divmod_round]. lia. }
  rewrite E, N2Nat.id. lia.
Qed.

Lemma polls_lshift1_trace : forall l, polls (lshift1_trace l) = l.
Proof. intros. unfold lshift1_trace. rewrite polls_repeat. cbn [polls]. rewrite N2Nat.id. lia. Qed.

Lemma l1_mul_skeleton : forall a b,
  limbs_zero a = false -> limbs_zero b = false ->
  l1_mul_polls false a false b = polls (mul_trace (nlen a) (nlen b)).
Proof.
  intros a b Ha Hb. unfold l1_mul_polls. cbn [andb]. rewrite Ha, Hb. cbn [orb].
  rewrite polls_skeleton_mul. reflexivity.
Qed.

Lemma l1_lshift_skeleton : forall a,
  l1_lshift_polls false a = polls (lshift1_trace (nlen a + (if N.testbit (last a 0) 63 then 1 else 0))).
Proof. intros. unfold l1_lshift_polls. rewrite polls_lshift1_trace. reflexivity. Qed.

Lemma l1_divmod_skeleton : forall a b n,
  l1_divmod_polls false a true b = Some n ->
  3 <= limbs_val b -> limbs_val b < limbs_val a ->
  n = polls (divmod_trace (nlen a) 1).
Proof.
  intros a b n H H3 Hlt. unfold l1_divmod_polls in H. cbn [andb] in H.
  assert (limbs_val b =? 0 = false) as E0 by (apply N.eqb_neq; lia).
  assert (limbs_val b =? 1 = false) as E1 by (apply N.eqb_neq; lia).
  assert (limbs_val a =? 0 = false) as E2 by (apply N.eqb_neq; lia).
  assert (limbs_val a <? limbs_val b = false) as E3 by (apply N.ltb_ge; lia).
  assert (limbs_val a =? limbs_val b = false) as E4 by (apply N.eqb_neq; lia).
  assert (limbs_val b =? 2 = false) as E5 by (apply N.eqb_neq; lia).
  rewrite E0, E1, E2, E3, E4, E5 in H. cbn [orb] in H.
  destruct (limbs_val b <? 4611686018427387904); inversion H.
  rewrite polls_divmod_trace. reflexivity.
Qed.

(* ------------------------------------------------------------------ *)
(* digit expansion: every digit step starts with a poll and does work linear
   in the length of the denominator; however many digits there are, the gap
   stays below digit_gap_bound *)

Lemma repeat_shape2 : forall inv bound body,
  (forall cur, cur <= inv -> mid_ok bound body cur /\ endcur body cur <= inv) ->
  forall m cur, cur <= inv ->
  mid_ok bound (repeat_trace m body) cur /\ endcur (repeat_trace m body) cur <= inv.
Proof.
  intros inv bound body H. induction m as [|m IH]; intros cur Hc; cbn [repeat_trace].
  - cbn. auto.
  - destruct (H cur Hc) as [M E]. destruct (IH _ E) as [M2 E2].
    split; [apply mid_ok_app; assumption | rewrite endcur_app; exact E2].
Qed.

Lemma divmod_trace_shape : forall bound la lb cur,
  cur <= bound -> 64 * (2 * lb + 4) <= bound ->
  mid_ok bound (divmod_trace la lb) cur /\ endcur (divmod_trace la lb) cur <= N.max cur (64 * (2 * lb + 4)).
Proof.
  intros bound la lb cur Hc Hb. unfold divmod_trace.
  assert (pollfree (repeat_trace 64 (divmod_round lb))) as PF by (apply pollfree_repeat; cbn; auto).
  apply (polled_loop bound (64 * (2 * lb + 4)) (N.to_nat la) (repeat_trace 64 (divmod_round lb)) cur Hc Hb).
  - apply pollfree_mid. exact PF.
  - rewrite pollfree_end by exact PF. rewrite work_repeat. cbn [work divmod_round]. lia.
Qed.

Definition digit_end (ld : N) : N := 64 * (2 * ld + 4) + ld + 1.

Lemma digit_step_shape : forall ld cur, cur <= digit_gap_bound ld ->
  mid_ok (digit_gap_bound ld) (digit_step ld) cur /\ endcur (digit_step ld) cur <= digit_end ld.
Proof.
  intros ld cur Hc. unfold digit_step, digit_gap_bound, digit_end in *.
  set (bound := 64 * (2 * ld + 4) + 3 * ld + 8) in *.
  set (D := 64 * (2 * ld + 4)).
  assert (D + 3 * ld + 8 = bound) as HB by reflexivity.
  cbn [mid_ok endcur app].
  destruct (mul_trace_shape bound ld 1 (0 + (ld + 1))) as [M1 E1]; try lia.
  destruct (divmod_trace_shape bound (ld + 1) ld (endcur (mul_trace ld 1) (0 + (ld + 1)))) as [M2 E2]; try (fold D; lia).
  fold D in E2.
  set (c2 := endcur (divmod_trace (ld + 1) ld) (endcur (mul_trace ld 1) (0 + (ld + 1)))) in *.
  assert (c2 <= D) as C2 by lia.
  destruct (mul_trace_shape bound 1 ld c2) as [M3 E3]; try lia.
  split.
  - split; [exact Hc|].
    apply mid_ok_app; [exact M1|]. apply mid_ok_app; [exact M2|]. apply mid_ok_app; [exact M3|]. cbn. exact I.
  - rewrite !endcur_app. cbn [endcur]. fold c2. lia.
Qed.

Lemma digit_end_le : forall ld, digit_end ld + ld + 2 <= digit_gap_bound ld.
Proof. intro. unfold digit_end, digit_gap_bound. lia. Qed.

Lemma gap_bound_digits_lemma : forall ld n, gap (digits_trace ld n) <= digit_gap_bound ld.
Proof.
  intros ld n. unfold digits_trace, gap. pose proof (digit_end_le ld) as HE.
  destruct (repeat_shape2 (digit_end ld + 2) (digit_gap_bound ld) (digit_step ld ++ [Work 2])) with (m := n) (cur := 0) as [M E].
  - intros cur Hc. destruct (digit_step_shape ld cur) as [M E]; [lia|].
    split; [apply mid_ok_app; [exact M | cbn; exact I] | rewrite endcur_app; cbn [endcur]; lia].
  - lia.
  - apply gap_aux_le; [exact M | lia | lia].
Qed.

Lemma gap_bound_brent_lemma : forall ld n1 lam mu, gap (brent_trace ld n1 lam mu) <= digit_gap_bound ld.
Proof.
  intros ld n1 lam mu. unfold brent_trace, gap. pose proof (digit_end_le ld) as HE.
  set (inv := digit_end ld + 1). set (bound := digit_gap_bound ld).
  assert (forall cur, cur <= inv -> mid_ok bound (Work ld :: digit_step ld) cur /\ endcur (Work ld :: digit_step ld) cur <= inv) as B1.
  { intros cur Hc. cbn [mid_ok endcur]. destruct (digit_step_shape ld (cur + ld)) as [M E]; [unfold inv in *; fold bound; lia|].
    split; [exact M | unfold inv; lia]. }
  assert (forall cur, cur <= inv -> mid_ok bound (digit_step ld ++ [Work 1]) cur /\ endcur (digit_step ld ++ [Work 1]) cur <= inv) as B2.
  { intros cur Hc. destruct (digit_step_shape ld cur) as [M E]; [unfold inv in *; fold bound; lia|].
    split; [apply mid_ok_app; [exact M | cbn; exact I] | rewrite endcur_app; cbn [endcur]; unfold inv; lia]. }
  assert (forall cur, cur <= inv -> mid_ok bound (Work ld :: digit_step ld ++ digit_step ld ++ [Work 1]) cur
                                   /\ endcur (Work ld :: digit_step ld ++ digit_step ld ++ [Work 1]) cur <= inv) as B3.
  { intros cur Hc. cbn [mid_ok endcur].
    destruct (digit_step_shape ld (cur + ld)) as [M E]; [unfold inv in *; fold bound; lia|].
    destruct (B2 (endcur (digit_step ld) (cur + ld))) as [M' E']; [unfold inv; lia|].
    split; [apply mid_ok_app; assumption | rewrite endcur_app; exact E']. }
  destruct (repeat_shape2 inv bound _ B1 n1 0) as [M1 E1]; [unfold inv; lia|].
  destruct (repeat_shape2 inv bound _ B2 lam _ E1) as [M2 E2].
  destruct (repeat_shape2 inv bound _ B3 mu _ E2) as [M3 E3].
  apply gap_aux_le.
  - apply mid_ok_app; [exact M1|]. apply mid_ok_app; [exact M2 | exact M3].
  - rewrite !endcur_app. unfold inv, bound in *. lia.
  - lia.
Qed.

Lemma polls_digit_step_ge : forall ld, 1 <= polls (digit_step ld).
Proof. intro. unfold digit_step. cbn [polls]. lia. Qed.

Lemma polls_digits_lemma : forall ld n, digits_polls_of (N.of_nat n) <= polls (digits_trace ld n).
Proof.
  intros. unfold digits_trace, digits_polls_of. rewrite polls_repeat, polls_app.
  pose proof (polls_digit_step_ge ld). nia.
Qed.

Lemma polls_brent_lemma : forall ld n1 lam mu,
  N.of_nat n1 + N.of_nat lam + 2 * N.of_nat mu <= polls (brent_trace ld n1 lam mu).
Proof.
  intros. unfold brent_trace. rewrite !polls_app, !polls_repeat.
  pose proof (polls_digit_step_ge ld) as H.
  change (polls (Work ld :: digit_step ld)) with (polls (digit_step ld)).
  change (polls (Work ld :: digit_step ld ++ digit_step ld ++ [Work 1])) with (polls (digit_step ld ++ digit_step ld ++ [Work 1])).
  rewrite !polls_app. cbn [polls]. nia.
Qed.

(* right shift by any count: the gap is bounded by the operand's bit length, not by the count *)
Lemma gap_bound_rshift_n_lemma : forall small l bits n, gap (rshift_n_trace small l bits n) <= bits + 1.
Proof.
  intros small l bits n. unfold rshift_n_trace. destruct small.
  - rewrite gap_pollfree by (apply pollfree_repeat; cbn; auto).
    rewrite work_repeat. cbn [work]. rewrite N2Nat.id. lia.
  - unfold gap.
    destruct (repeat_shape (bits + 1) (repeat_trace (N.to_nat l) [Poll; Work 1])
                (fun cur Hc => ltac:(destruct (polled_loop (bits + 1) 1 (N.to_nat l) [Work 1] cur) as [A E]; cbn; auto; try lia;
                                     split; [exact A | lia]))
                (N.to_nat (N.min n bits)) 0) as [M E]; [lia|].
    apply gap_aux_le; [exact M | exact E | lia].
Qed.

Lemma work_rshift_n_small : forall bits n, work (rshift_n_trace true 1 bits n) = N.min n bits.
Proof. intros. unfold rshift_n_trace. rewrite work_repeat. cbn [work]. rewrite N2Nat.id. lia. Qed.

