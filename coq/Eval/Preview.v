(* C13 (and the preview clause of C07): model of
   fend_core::evaluate_preview_with_interrupt (core/src/lib.rs).

     let context_clone = context.clone();
     context.random_u32 = None;
     context.get_exchange_rate = None;
     let result = evaluate_with_interrupt_internal(input, context, int);
     *context = context_clone;
     let Ok(result) = result else { return empty };
     let s = result.get_main_result();
     if s.is_empty() || result.is_unit_type() || s.len() > 50
        || s.trim() == input.trim()
        || s.contains(|c: char| c.is_control() || c == '\u{2028}' || c == '\u{2029}')
     { return empty }                (the last clause was  s.contains(|c| c < ' ')
                                      before the repair eacb46c: keep_old)
     result

   The evaluator is NOT modelled here: it is an arbitrary program over the
   primitive effects an evaluation can have on a Context and on the host
   (type [prog]).  The only way such a program reaches the host's random
   source or exchange-rate handler is through the context field at the time
   of the call, which is how core/src/num/dist.rs (Dist::sample) and
   core/src/units.rs (expr_unit, "$CURRENCY") do it.  No proofs here. *)
From FendV Require Import Base.Prelude.
Open Scope N_scope.

(* ------------------------------------------------------------------ *)
(* text: lists of Unicode scalar values *)

(* str::len() counts UTF-8 bytes *)
Definition utf8_len (c : N) : N :=
  if c <? 128 then 1 else if c <? 2048 then 2 else if c <? 65536 then 3 else 4.

Fixpoint utf8_length (s : list N) : N :=
  match s with [] => 0 | c :: r => utf8_len c + utf8_length r end.

(* char::is_whitespace = Unicode White_Space *)
Definition is_whitespace (c : N) : bool :=
  ((9 <=? c) && (c <=? 13)) || (c =? 32) || (c =? 133) || (c =? 160) || (c =? 5760)
  || ((8192 <=? c) && (c <=? 8202)) || (c =? 8232) || (c =? 8233) || (c =? 8239)
  || (c =? 8287) || (c =? 12288).

Fixpoint trim_start (s : list N) : list N :=
  match s with
  | [] => []
  | c :: r => if is_whitespace c then trim_start r else s
  end.

Definition trim (s : list N) : list N := rev (trim_start (rev (trim_start s))).

(* before eacb46c: s.contains(|c| c < ' ') *)
Definition has_c0 (s : list N) : bool := existsb (fun c => c <? 32) s.

(* char::is_control = general category Cc = C0, DEL, C1 *)
Definition is_control (c : N) : bool := (c <? 32) || ((127 <=? c) && (c <=? 159)).

(* s.contains(|c: char| c.is_control() || c == U+2028 || c == U+2029) *)
Definition has_ctl (s : list N) : bool :=
  existsb (fun c => is_control c || (c =? 8232) || (c =? 8233)) s.

Definition is_nil {A} (s : list A) : bool := match s with [] => true | _ => false end.

(* spec side: the characters Unicode (UAX 14, BK/CR/LF/NL) treats as
   mandatory line breaks *)
Definition is_line_break (c : N) : bool :=
  ((10 <=? c) && (c <=? 13)) || (c =? 133) || (c =? 8232) || (c =? 8233).
Definition single_line (s : list N) : bool := negb (existsb is_line_break s).

(* classifier of the deviation repaired in eacb46c: a line break that is not a C0 control *)
Definition known_c13_linebreak (s : list N) : bool :=
  existsb (fun c => (c =? 133) || (c =? 8232) || (c =? 8233)) s.

(* ------------------------------------------------------------------ *)

Section PreviewModel.

Variable vars : Type.      (* Context.variables *)
Variable settings : Type.  (* current_time fc_mode output_mode custom_units decimal_separator *)
Variable rng : Type.       (* the installed fn() -> u32 *)
Variable rates : Type.     (* the installed Arc<dyn ExchangeRateFn> *)
Variable payload : Type.   (* spans and attrs of a FendResult *)
Variable default_payload : payload.

(* the host: whatever the two callbacks read and write *)
Variable world : Type.
Variable call_rng : rng -> world -> N * world.
Variable call_rates : rates -> list N -> world -> option N * world.

Record context := mkctx {
  c_vars : vars;
  c_settings : settings;
  c_rng : option rng;
  c_rates : option rates }.

Record fresult := mkres { r_text : list N; r_unit : bool; r_payload : payload }.

(* FendResult::empty() *)
Definition empty_result : fresult := mkres [] true default_payload.

(* what an evaluation ends with *)
Inductive outcome :=
| OOk (r : fresult)
| OErr                     (* Err(message), any error other than interruption *)
| OInterrupted             (* Err("interrupted") *)
| OPanic.                  (* unwinding: nothing after the call runs *)

(* an evaluation: a tree of primitive effects *)
Inductive prog :=
| Done (o : outcome)
| Poll (k : prog)                                (* test_int(int)? *)
| Draw (k : option N -> prog)                    (* ctx.random_u32.ok_or(..)?() *)
| Rate (cur : list N) (k : option (option N) -> prog) (* &context.get_exchange_rate *)
| GetVars (k : vars -> prog)
| SetVars (v : vars) (k : prog)
| GetSettings (k : settings -> prog)
| SetSettings (s : settings) (k : prog).

Record st := mkst { s_ctx : context; s_world : world; s_polls : N }.

Definition fires (fire : option N) (polls : N) : bool :=
  match fire with None => false | Some k => k <=? polls end.

Definition set_vars (c : context) (v : vars) : context :=
  mkctx v (c_settings c) (c_rng c) (c_rates c).
Definition set_settings (c : context) (s : settings) : context :=
  mkctx (c_vars c) s (c_rng c) (c_rates c).

(* the interrupt predicate turns true at its [fire]-th call (0-based) and
   stays true; [s_polls] counts the calls *)
Fixpoint run (fire : option N) (p : prog) (s : st) : st * outcome :=
  match p with
  | Done o => (s, o)
  | Poll k =>
    let s' := mkst (s_ctx s) (s_world s) (s_polls s + 1) in
    if fires fire (s_polls s) then (s', OInterrupted) else run fire k s'
  | Draw k =>
    match c_rng (s_ctx s) with
    | None => run fire (k None) s
    | Some g =>
      let '(n, w) := call_rng g (s_world s) in
      run fire (k (Some n)) (mkst (s_ctx s) w (s_polls s))
    end
  | Rate cur k =>
    match c_rates (s_ctx s) with
    | None => run fire (k None) s
    | Some h =>
      let '(r, w) := call_rates h cur (s_world s) in
      run fire (k (Some r)) (mkst (s_ctx s) w (s_polls s))
    end
  | GetVars k => run fire (k (c_vars (s_ctx s))) s
  | SetVars v k => run fire k (mkst (set_vars (s_ctx s) v) (s_world s) (s_polls s))
  | GetSettings k => run fire (k (c_settings (s_ctx s))) s
  | SetSettings x k => run fire k (mkst (set_settings (s_ctx s) x) (s_world s) (s_polls s))
  end.

(* evaluate_with_interrupt: the context is handed to the evaluator as is *)
Definition evaluate (fire : option N) (p : prog) (c : context) (w : world)
  : context * world * outcome * N :=
  let '(s, o) := run fire p (mkst c w 0) in (s_ctx s, s_world s, o, s_polls s).

(* the output filter *)
Definition keep (input : list N) (r : fresult) : bool :=
  negb (is_nil (r_text r)
        || r_unit r
        || (50 <? utf8_length (r_text r))
        || list_N_eqb (trim (r_text r)) (trim input)
        || has_ctl (r_text r)).

(* the output filter before the repair eacb46c *)
Definition keep_old (input : list N) (r : fresult) : bool :=
  negb (is_nil (r_text r)
        || r_unit r
        || (50 <? utf8_length (r_text r))
        || list_N_eqb (trim (r_text r)) (trim input)
        || has_c0 (r_text r)).

Definition preview_filter (input : list N) (o : outcome) : fresult :=
  match o with
  | OOk r => if keep input r then r else empty_result
  | _ => empty_result
  end.

Definition disabled (c : context) : context :=
  mkctx (c_vars c) (c_settings c) None None.

(* evaluate_preview_with_interrupt.  Third component: the returned
   FendResult, or None if the evaluator panicked (then nothing is returned
   and the restore did not run). *)
Definition preview (fire : option N) (p : prog) (input : list N) (c : context) (w : world)
  : context * world * option fresult * N :=
  let saved := c in
  let '(s, o) := run fire p (mkst (disabled c) w 0) in
  match o with
  | OPanic => (s_ctx s, s_world s, None, s_polls s)
  | _ => (saved, s_world s, Some (preview_filter input o), s_polls s)
  end.

End PreviewModel.

Arguments mkctx {vars settings rng rates}.
Arguments c_vars {vars settings rng rates}.
Arguments c_settings {vars settings rng rates}.
Arguments c_rng {vars settings rng rates}.
Arguments c_rates {vars settings rng rates}.
Arguments mkst {vars settings rng rates world}.
Arguments s_ctx {vars settings rng rates world}.
Arguments s_world {vars settings rng rates world}.
Arguments s_polls {vars settings rng rates world}.
Arguments set_vars {vars settings rng rates}.
Arguments set_settings {vars settings rng rates}.
Arguments mkres {payload}.
Arguments r_text {payload}.
Arguments r_unit {payload}.
Arguments r_payload {payload}.
Arguments OOk {payload}.
Arguments OErr {payload}.
Arguments OInterrupted {payload}.
Arguments OPanic {payload}.
Arguments Done {vars settings payload}.
Arguments Poll {vars settings payload}.
Arguments Draw {vars settings payload}.
Arguments Rate {vars settings payload}.
Arguments GetVars {vars settings payload}.
Arguments SetVars {vars settings payload}.
Arguments GetSettings {vars settings payload}.
Arguments SetSettings {vars settings payload}.
Arguments keep {payload}.
Arguments keep_old {payload}.
Arguments preview_filter {payload}.
Arguments empty_result {payload}.

(* executable instance used by the dispatcher: the filter on a result given
   as text + unit flag (payload = unit) *)
Definition preview_shows (input text : list N) (is_unit : bool) : bool :=
  keep input (mkres text is_unit tt).
