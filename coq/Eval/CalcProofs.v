(* Proofs about the core-calculus model (C09; statement-level part of C07). *)
From FendV Require Import Base.Prelude Eval.Calc.
From Coq Require Import Lia.
Open Scope N_scope.

Lemma ident_eqb_refl : forall x, ident_eqb x x = true.
Proof.
  unfold ident_eqb. induction x as [|a x IH]; cbn; [reflexivity|].
  rewrite N.eqb_refl, IH. reflexivity.
Qed.

Lemma ident_eqb_eq : forall x y, ident_eqb x y = true -> x = y.
Proof.
  unfold ident_eqb. induction x as [|a x IH]; destruct y as [|b y]; cbn; try discriminate; [reflexivity|].
  intro H. apply andb_true_iff in H. destruct H as [H1 H2].
  apply N.eqb_eq in H1. subst. f_equal. apply IH. exact H2.
Qed.

Lemma ident_eqb_neq : forall x y, ident_eqb x y = false -> x <> y.
Proof. intros x y H E. subst. rewrite ident_eqb_refl in H. discriminate. Qed.

Section CalcProofs.

Variable num : Type.
Variable num_un : unop -> num -> option num.
Variable num_bop : bop -> num -> num -> option num.
Variable builtin : ident -> option (ident + num).
Variable builtin_apply : ident -> num -> option num.
Variable unit_of : ident -> option num.
Variable unit_static : ident -> option num.
Variable fmt_polls : value num -> nat.
Variable fmt_ok : value num -> bool.

Notation expr := (expr num).
Notation scope := (scope num).
Notation value := (value num).
Notation event := (event num).
Notation state := (state num).
Notation M := (M num).
Notation eval := (Calc.eval num num_un num_bop builtin builtin_apply unit_of unit_static).
Notation eval_node := (Calc.eval_node num num_un num_bop builtin builtin_apply unit_of unit_static).
Notation resolve := (Calc.resolve num builtin unit_of).
Notation vapply := (Calc.apply num num_bop builtin_apply).
Notation handle_num := (Calc.handle_num num).
Notation handle_two_nums := (Calc.handle_two_nums num num_bop).
Notation eval_top := (Calc.eval_top num num_un num_bop builtin builtin_apply unit_of unit_static fmt_polls fmt_ok).
Notation ticks := (Calc.ticks num).
Notation lookup_static := (Calc.lookup_static num builtin unit_of).

(* ------------------------------------------------------------------ *)
(* one-step equations *)

Lemma eval_S : forall fire f e sc,
  eval fire (S f) e sc = mbind (tick fire) (fun _ => eval_node (eval fire f) e sc).
Proof. reflexivity. Qed.

Lemma scope_find_here : forall x (a : expr) sa inner,
  scope_find x (SCons x a sa inner) = Some (a, sa).
Proof. intros. cbn. rewrite ident_eqb_refl. reflexivity. Qed.

Lemma scope_find_skip : forall x y (a : expr) sa inner,
  ident_eqb x y = false -> scope_find x (SCons y a sa inner) = scope_find x inner.
Proof. intros. cbn. rewrite H. reflexivity. Qed.

(* the innermost binding of x wins: a use of x is the parenthesised argument
   evaluated in the scope the argument came from -- whatever outer bindings,
   context variables, built-ins or units of that name exist *)
Lemma lookup_innermost_lemma : forall fire f x (a : expr) sa inner st,
  eval fire (S f) (EIdent x) (SCons x a sa inner) st = eval fire (S f) (EParens a) sa st.
Proof.
  intros. rewrite !eval_S. unfold mbind.
  destruct (tick fire st) as [s1 [[]|e]]; [|reflexivity].
  cbn [Calc.eval_node]. unfold Calc.resolve. rewrite scope_find_here. reflexivity.
Qed.

Lemma lookup_outer_lemma : forall fire f x y (a : expr) sa inner st,
  ident_eqb x y = false ->
  eval fire (S f) (EIdent x) (SCons y a sa inner) st = eval fire (S f) (EIdent x) inner st.
Proof.
  intros. rewrite !eval_S. unfold mbind.
  destruct (tick fire st) as [s1 [[]|e]]; [|reflexivity].
  cbn [Calc.eval_node]. unfold Calc.resolve. rewrite scope_find_skip by assumption. reflexivity.
Qed.

(* a lambda evaluates to a closure over the scope it is evaluated in *)
Lemma closure_creation_lemma : forall fire f x (body : expr) sc st,
  eval fire (S f) (EFn x body) sc st = mbind (tick fire) (fun _ => ret (VFn x body sc)) st.
Proof. reflexivity. Qed.

(* applying a closure: the body runs in the captured scope extended by the
   parameter, bound lazily to the argument expression with the caller's scope;
   nothing else of the caller's scope is visible to the body *)
Lemma closure_apply_lemma : forall (ev : expr -> scope -> M value) p body csc arg m sc,
  vapply ev (VFn p body csc) arg m sc = ev body (SCons p arg sc csc).
Proof. reflexivity. Qed.

Lemma closure_lexical_lemma : forall z p (arg : expr) sc csc,
  ident_eqb z p = false -> scope_find z (SCons p arg sc csc) = scope_find z csc.
Proof. intros. apply scope_find_skip. assumption. Qed.

Lemma mbind_ext : forall A R (m : M A) (f g : A -> M R) st,
  (forall a s, f a s = g a s) -> mbind m f st = mbind m g st.
Proof. intros. unfold mbind. destruct (m st) as [s1 [a|e]]; auto. Qed.

Lemma mbind_assoc : forall A R T (m : M A) (f : A -> M R) (g : R -> M T) st,
  mbind (mbind m f) g st = mbind m (fun a => mbind (f a) g) st.
Proof. intros. unfold mbind. destruct (m st) as [s1 [a|e]]; auto. Qed.

Lemma mbind_ret : forall A R (a : A) (f : A -> M R) st, mbind (ret a) f st = f a st.
Proof. reflexivity. Qed.

(* beta, environment form: applying a lambda literal = two polls, then the
   body with the parameter bound to the argument-in-the-caller's-scope *)
Lemma beta_env_lemma : forall fire f x (body a : expr) sc st,
  eval fire (S (S f)) (EApplyFn (EFn x body) a) sc st
  = mbind (tick fire) (fun _ => mbind (tick fire) (fun _ => eval fire (S f) body (SCons x a sc sc))) st.
Proof.
  intros. rewrite eval_S. apply mbind_ext. intros [] s1.
  cbn [Calc.eval_node]. rewrite eval_S. rewrite mbind_assoc. apply mbind_ext. intros [] s2.
  cbn [Calc.eval_node]. rewrite mbind_ret. reflexivity.
Qed.

(* the same through the parser's usual shape (f) a = Apply(Parens(Fn ..), a):
   one more poll for the parentheses *)
Lemma beta_env_apply_lemma : forall fire f x (body a : expr) sc st,
  eval fire (S (S (S f))) (EApply (EParens (EFn x body)) a) sc st
  = mbind (tick fire) (fun _ => mbind (tick fire) (fun _ => mbind (tick fire) (fun _ =>
      eval fire (S (S f)) body (SCons x a sc sc)))) st.
Proof.
  intros. rewrite eval_S. apply mbind_ext. intros [] s1.
  cbn [Calc.eval_node]. rewrite eval_S. rewrite mbind_assoc. apply mbind_ext. intros [] s2.
  cbn [Calc.eval_node]. rewrite eval_S. rewrite mbind_assoc. apply mbind_ext. intros [] s3.
  cbn [Calc.eval_node]. rewrite mbind_ret. reflexivity.
Qed.

(* user variables shadow built-in names and units: with no scope binding, a
   defined variable is what the identifier means *)
Lemma shadow_builtin_lemma : forall fire f x sc st v,
  scope_find x sc = None ->
  get_var x (s_vars st) = Some v ->
  eval fire (S f) (EIdent x) sc st = mbind (tick fire) (fun _ => ret v) st.
Proof.
  intros fire f x sc st v Hs Hv. rewrite eval_S. unfold mbind.
  destruct (tick fire st) as [s1 [[]|e]] eqn:T; [|reflexivity].
  assert (s_vars s1 = s_vars st) as E.
  { unfold tick in T. destruct (fires fire (s_polls st)); inversion T; reflexivity. }
  cbn [Calc.eval_node]. unfold Calc.resolve. rewrite Hs.
  unfold mbind, read_var. rewrite E, Hv. reflexivity.
Qed.

(* ... the syntactic exception: two adjacent identifiers a b are first tried
   as the unit a_b, before either is looked up *)
Lemma apply_ident_ident_unit_lemma : forall fire f a b sc st u,
  unit_static (underscore_join a b) = Some u ->
  eval fire (S f) (EApply (EIdent a) (EIdent b)) sc st = mbind (tick fire) (fun _ => ret (VNum u)) st.
Proof.
  intros. rewrite eval_S. unfold mbind.
  destruct (tick fire st) as [s1 [[]|e]]; [|reflexivity].
  cbn [Calc.eval_node]. rewrite H. reflexivity.
Qed.

(* ------------------------------------------------------------------ *)
(* what an evaluation does to the variables: it appends events to the log
   and the variables are the old ones with those events replayed *)

Lemma replay_app : forall (l1 l2 : list event) vs, replay (l1 ++ l2) vs = replay l2 (replay l1 vs).
Proof. intros. unfold replay. apply fold_left_app. Qed.

Definition is_assign (ev : event) : Prop := match ev with LAssign _ _ => True | LAns _ => False end.

Definition Logs {A} (P : event -> Prop) (m : M A) : Prop :=
  forall st, exists l,
    s_log (fst (m st)) = s_log st ++ l
    /\ s_vars (fst (m st)) = replay l (s_vars st)
    /\ Forall P l
    /\ s_polls st <= s_polls (fst (m st)).

Lemma Logs_ret : forall A P (a : A), Logs P (ret a).
Proof. intros A P a st. exists []. cbn. rewrite app_nil_r. repeat split; auto. lia. Qed.

Lemma Logs_fail : forall A P e, Logs P (@fail num A e).
Proof. intros A P e st. exists []. cbn. rewrite app_nil_r. repeat split; auto. lia. Qed.

Lemma Logs_lift : forall A P (o : option A), Logs P (lift o).
Proof. intros A P [a|]; [apply Logs_ret | apply Logs_fail]. Qed.

Lemma Logs_bind : forall A R P (m : M A) (f : A -> M R),
  Logs P m -> (forall a, Logs P (f a)) -> Logs P (mbind m f).
Proof.
  intros A R P m f Hm Hf st. unfold mbind.
  destruct (Hm st) as (l1 & L1 & V1 & F1 & P1).
  destruct (m st) as [s1 [a|e]]; cbn [fst] in *.
  - destruct (Hf a s1) as (l2 & L2 & V2 & F2 & P2).
    exists (l1 ++ l2). rewrite L2, L1, V2, V1, app_assoc, replay_app.
    repeat split; auto. { apply Forall_app; auto. } lia.
  - exists l1. auto.
Qed.

Lemma Logs_tick : forall P fire, Logs P (tick fire).
Proof.
  intros P fire st. exists []. unfold tick.
  destruct (fires fire (s_polls st)); cbn; rewrite app_nil_r; repeat split; auto; lia.
Qed.

Lemma Logs_do_event : forall (P : event -> Prop) ev, P ev -> Logs P (do_event ev).
Proof.
  intros P ev H st. exists [ev]. cbn. repeat split; auto. lia.
Qed.

Lemma Logs_read_var : forall P x, Logs P (read_var x).
Proof. intros P x st. exists []. cbn. rewrite app_nil_r. repeat split; auto. lia. Qed.

Lemma Logs_weaken : forall A (P Q : event -> Prop) (m : M A),
  (forall e, P e -> Q e) -> Logs P m -> Logs Q m.
Proof.
  intros A P Q m H Hm st. destruct (Hm st) as (l & L & V & F & G).
  exists l. repeat split; auto. eapply Forall_impl; eauto.
Qed.

Lemma Logs_handle_num : forall P v f lz sc, Logs P (handle_num v f lz sc).
Proof.
  intros P v f lz sc. destruct v; cbn [Calc.handle_num].
  - apply Logs_bind; [apply Logs_lift | intro; apply Logs_ret].
  - apply Logs_fail.
  - apply Logs_ret.
  - apply Logs_ret.
Qed.

Lemma Logs_handle_two_nums : forall P a b op sc, Logs P (handle_two_nums a b op sc).
Proof.
  intros P a b op sc. destruct a, b; cbn [Calc.handle_two_nums];
    try apply Logs_fail; try apply Logs_ret.
  apply Logs_bind; [apply Logs_lift | intro; apply Logs_ret].
Qed.

Section LogsNode.
  Variable P : event -> Prop.
  Hypothesis Passign : forall x v, P (LAssign x v).
  Variable ev : expr -> scope -> M value.
  Hypothesis Hev : forall e sc, Logs P (ev e sc).

  Lemma Logs_resolve : forall x sc, Logs P (resolve ev x sc).
  Proof.
    intros x sc. unfold Calc.resolve.
    destruct (scope_find x sc) as [[a sa]|]; [apply Hev|].
    apply Logs_bind; [apply Logs_read_var|]. intros [v|]; [apply Logs_ret|].
    destruct (lookup_static x); [apply Logs_ret|].
    destruct (all_upper_or_digit x); [|apply Logs_fail].
    destruct (builtin_value num builtin (to_lower x)); [apply Logs_ret | apply Logs_fail].
  Qed.

  Lemma Logs_apply : forall f arg m sc, Logs P (vapply ev f arg m sc).
  Proof.
    intros f arg m sc. destruct f; cbn [Calc.apply].
    - apply Logs_bind; [apply Hev|]. intro other. destruct m; [apply Logs_fail | apply Logs_handle_num].
    - apply Logs_fail.
    - apply Hev.
    - apply Logs_bind; [apply Hev|]. intros [n| | |]; try apply Logs_fail.
      apply Logs_bind; [apply Logs_lift | intro; apply Logs_ret].
  Qed.

  Lemma Logs_eval_node : forall e sc, Logs P (eval_node ev e sc).
  Proof.
    intros e sc. destruct e; cbn [Calc.eval_node].
    - apply Logs_ret.
    - apply Logs_ret.
    - apply Logs_resolve.
    - apply Hev.
    - apply Logs_bind; [apply Hev | intro; apply Logs_handle_num].
    - destruct op.
      + apply Logs_bind; [apply Hev|]. intro. apply Logs_bind; [apply Hev|]. intro. apply Logs_handle_two_nums.
      + apply Logs_bind; [apply Hev|]. intros [x| | |].
        * apply Logs_bind; [apply Hev|]. intros [y| | |]; try apply Logs_fail.
          apply Logs_bind; [apply Logs_lift | intro; apply Logs_ret].
        * apply Logs_fail.
        * apply Logs_apply.
        * apply Logs_apply.
      + apply Logs_bind; [apply Hev|]. intro. apply Logs_bind; [apply Hev|]. intro. apply Logs_handle_two_nums.
      + apply Logs_bind; [apply Hev|]. intro. apply Logs_bind; [apply Hev|]. intro. apply Logs_handle_two_nums.
    - match goal with |- Logs P (match ?o with _ => _ end) => destruct o end; [apply Logs_ret|].
      apply Logs_bind; [apply Hev | intro; apply Logs_apply].
    - apply Logs_bind; [apply Hev | intro; apply Logs_apply].
    - match goal with |- Logs P (match ?o with _ => _ end) => destruct o end; [apply Logs_ret|].
      apply Logs_bind; [apply Hev | intro; apply Logs_apply].
    - apply Logs_ret.
    - apply Logs_bind; [apply Hev|]. intro v.
      apply Logs_bind; [apply Logs_do_event; apply Passign | intro; apply Logs_ret].
    - apply Logs_bind; [apply Hev | intro; apply Hev].
  Qed.
End LogsNode.

Lemma Logs_eval : forall fire f e sc, Logs is_assign (eval fire f e sc).
Proof.
  intros fire f. induction f as [|f IH]; intros e sc.
  - apply Logs_fail.
  - rewrite eval_S. apply Logs_bind; [apply Logs_tick|]. intro.
    apply Logs_eval_node; [intros; exact I | exact IH].
Qed.

Lemma Logs_ticks : forall P fire n, Logs P (ticks fire n).
Proof.
  intros P fire n. induction n as [|n IH]; cbn [Calc.ticks].
  - apply Logs_ret.
  - apply Logs_bind; [apply Logs_tick | intro; exact IH].
Qed.

Lemma Logs_eval_top : forall fire f e, Logs (fun _ => True) (eval_top fire f e).
Proof.
  intros. unfold Calc.eval_top.
  apply Logs_bind; [eapply Logs_weaken; [|apply Logs_eval]; auto|]. intro v.
  apply Logs_bind; [apply Logs_do_event; exact I|]. intro.
  apply Logs_bind; [apply Logs_ticks|]. intro.
  destruct (fmt_ok v); [apply Logs_ret | apply Logs_fail].
Qed.

(* no rollback, no hidden writes: an evaluation that fails before a value
   exists leaves the old variables plus exactly the assignments it executed *)
Lemma eval_failure_lemma : forall fire f e sc st s e0,
  eval fire f e sc st = (s, Bad e0) ->
  exists l, s_log s = s_log st ++ l /\ s_vars s = replay l (s_vars st) /\ Forall is_assign l.
Proof.
  intros fire f e sc st s e0 H.
  destruct (Logs_eval fire f e sc st) as (l & L & V & F & _).
  rewrite H in *. cbn [fst] in *. exists l. auto.
Qed.

(* top level: if no value was computed, the result is that failure and the
   variables are the old ones with exactly the executed assignments *)
Lemma top_failure_lemma : forall fire f e vs s e0,
  eval fire f e SNil (mkS vs 0 []) = (s, Bad e0) ->
  eval_top fire f e (mkS vs 0 []) = (s, Bad e0)
  /\ s_vars s = replay (s_log s) vs /\ Forall is_assign (s_log s).
Proof.
  intros fire f e vs s e0 H. split.
  - unfold Calc.eval_top, mbind. rewrite H. reflexivity.
  - destruct (eval_failure_lemma _ _ _ _ _ _ _ H) as (l & L & V & F).
    cbn in L, V. subst l. auto.
Qed.

Lemma get_set_same : forall x (v : value) vs, get_var x (set_var x v vs) = Some v.
Proof. intros. cbn. rewrite ident_eqb_refl. reflexivity. Qed.

Lemma get_remove_other : forall x y (vs : vars num), ident_eqb x y = false -> get_var x (remove_var y vs) = get_var x vs.
Proof.
  intros x y vs H. induction vs as [|[z w] vs IH]; cbn; [reflexivity|].
  destruct (ident_eqb y z) eqn:Eyz.
  - apply ident_eqb_eq in Eyz. subst z. rewrite H. exact IH.
  - cbn. rewrite IH. reflexivity.
Qed.

Lemma get_set_other : forall x y (v : value) vs, ident_eqb x y = false -> get_var x (set_var y v vs) = get_var x vs.
Proof. intros. cbn. rewrite H. apply get_remove_other. assumption. Qed.

Definition event_name_is (x : ident) (ev : event) : Prop :=
  match ev with LAssign y _ => y = x | LAns _ => x = id_underscore \/ x = id_ans end.

Lemma replay_untouched : forall x (l : list event) vs,
  Forall (fun ev => ~ event_name_is x ev) l -> get_var x (replay l vs) = get_var x vs.
Proof.
  intros x l. induction l as [|ev l IH]; intros vs F; [reflexivity|].
  inversion F as [|? ? Hev Hl]; subst. cbn [replay fold_left].
  change (get_var x (replay l (apply_event ev vs)) = get_var x vs).
  rewrite IH by assumption.
  destruct ev as [y v|v]; cbn [apply_event event_name_is] in *.
  - apply get_set_other. destruct (ident_eqb x y) eqn:E; [|reflexivity].
    apply ident_eqb_eq in E. congruence.
  - rewrite get_set_other, get_set_other; [reflexivity| |].
    + destruct (ident_eqb x id_underscore) eqn:E; [|reflexivity]. apply ident_eqb_eq in E. tauto.
    + destruct (ident_eqb x id_ans) eqn:E; [|reflexivity]. apply ident_eqb_eq in E. tauto.
Qed.

(* _ and ans after a failure: unchanged unless the program itself executed an
   assignment to that name *)
Lemma ans_unchanged_on_failure_lemma : forall fire f e vs s e0 x,
  x = id_underscore \/ x = id_ans ->
  eval fire f e SNil (mkS vs 0 []) = (s, Bad e0) ->
  Forall (fun ev => match ev with LAssign y _ => y <> x | LAns _ => True end) (s_log s) ->
  get_var x (s_vars s) = get_var x vs.
Proof.
  intros fire f e vs s e0 x Hx H Hno.
  destruct (top_failure_lemma _ _ _ _ _ _ H) as (_ & V & F).
  rewrite V. apply replay_untouched.
  rewrite Forall_forall in *. intros ev Hin. specialize (Hno ev Hin). specialize (F ev Hin).
  destruct ev; cbn in *; [exact Hno | contradiction].
Qed.

(* after x = e the name x holds the value e had *)
Lemma assign_then_use_lemma : forall fire f x e sc st s1 v,
  eval fire f (EAssign x e) sc st = (s1, Good v) -> get_var x (s_vars s1) = Some v.
Proof.
  intros fire f x e sc st s1 v H. destruct f as [|f]; [discriminate|].
  rewrite eval_S in H. unfold mbind in H.
  destruct (tick fire st) as [s0 [[]|e0]]; [|discriminate].
  cbn [Calc.eval_node] in H. unfold mbind in H.
  destruct (eval fire f e sc s0) as [s2 [v2|e2]]; [|discriminate].
  cbn in H. inversion H; subst. cbn [s_vars apply_event]. apply get_set_same.
Qed.

(* on success _ and ans hold the value just computed *)
Lemma ans_on_success_lemma : forall fire f e st s v,
  eval_top fire f e st = (s, Good v) ->
  get_var id_underscore (s_vars s) = Some v /\ get_var id_ans (s_vars s) = Some v.
Proof.
  intros fire f e st s v H. unfold Calc.eval_top, mbind in H.
  destruct (eval fire f e SNil st) as [s1 [v1|e1]]; [|discriminate].
  cbn [do_event] in H.
  set (s2 := mkS (apply_event (LAns v1) (s_vars s1)) (s_polls s1) (s_log s1 ++ [LAns v1])) in *.
  assert (forall n (sx : state) sy r, ticks fire n sx = (sy, r) -> s_vars sy = s_vars sx) as TV.
  { induction n as [|n IH]; intros sx sy r T; cbn [Calc.ticks] in T.
    - inversion T; reflexivity.
    - unfold mbind, tick in T. destruct (fires fire (s_polls sx)).
      + inversion T; reflexivity.
      + apply IH in T. exact T. }
  destruct (ticks fire (fmt_polls v1) s2) as [s3 [[]|e3]] eqn:T; [|discriminate].
  apply TV in T.
  destruct (fmt_ok v1); inversion H; subst.
  rewrite T. subst s2. cbn [s_vars apply_event]. split.
  - rewrite get_set_other by reflexivity. apply get_set_same.
  - apply get_set_same.
Qed.

(* ------------------------------------------------------------------ *)
(* interruption: running with the interrupt firing at poll k is the
   uninterrupted run cut at some point *)

Section Interrupt.
  Variable k : N.

  Definition Sim {A} (m0 m1 : M A) : Prop :=
    forall st, m1 st = m0 st \/
      (snd (m1 st) = Bad EIntr /\ exists l l',
         s_log (fst (m1 st)) = s_log st ++ l
         /\ s_log (fst (m0 st)) = s_log st ++ l ++ l'
         /\ s_vars (fst (m1 st)) = replay l (s_vars st)).

  Lemma Sim_refl : forall A (m : M A), Sim m m.
  Proof. intros A m st. left. reflexivity. Qed.

  Lemma Sim_tick : Sim (tick None) (tick (Some k)).
  Proof.
    intro st. unfold tick. cbn [fires].
    destruct (k <=? s_polls st).
    - right. cbn. split; [reflexivity|]. exists [], []. rewrite !app_nil_r. auto.
    - left. reflexivity.
  Qed.

  Lemma Sim_bind : forall A R P (m0 m1 : M A) (f0 f1 : A -> M R),
    Sim m0 m1 -> Logs P m0 ->
    (forall a, Sim (f0 a) (f1 a)) -> (forall a, Logs P (f0 a)) ->
    Sim (mbind m0 f0) (mbind m1 f1).
  Proof.
    intros A R P m0 m1 f0 f1 Hs Hl Hfs Hfl st. unfold mbind.
    destruct (Hl st) as (l0 & L0 & V0 & _ & _).
    destruct (Hs st) as [E | (I & l & l' & L1 & L0' & V1)].
    - rewrite E. destruct (m0 st) as [s1 [a|e]]; cbn [fst] in *; [|left; reflexivity].
      destruct (Hfs a s1) as [E2 | (I2 & l2 & l2' & M1 & M0 & W1)]; [left; exact E2|].
      right. split; [exact I2|]. exists (l0 ++ l2), l2'.
      rewrite M1, M0, W1, L0, V0, replay_app, !app_assoc. auto.
    - right. destruct (m1 st) as [s1 r1]; cbn [fst snd] in *. subst r1. cbn [snd fst].
      split; [reflexivity|].
      destruct (m0 st) as [s0 [a|e]]; cbn [fst] in *.
      + destruct (Hfl a s0) as (l3 & L3 & _ & _ & _).
        exists l, (l' ++ l3). rewrite L3, L0', L1, !app_assoc. auto.
      + exists l, l'. auto.
  Qed.

  Section SimNode.
    Variable ev0 ev1 : expr -> scope -> M value.
    Hypothesis Hs : forall e sc, Sim (ev0 e sc) (ev1 e sc).
    Hypothesis Hl : forall e sc, Logs is_assign (ev0 e sc).

    Ltac simb := apply (Sim_bind _ _ is_assign); [ | | intro | intro ].

    Lemma Sim_resolve : forall x sc, Sim (resolve ev0 x sc) (resolve ev1 x sc).
    Proof.
      intros x sc. unfold Calc.resolve.
      destruct (scope_find x sc) as [[a sa]|]; [apply Hs | apply Sim_refl].
    Qed.

    Lemma Sim_apply : forall f arg m sc, Sim (vapply ev0 f arg m sc) (vapply ev1 f arg m sc).
    Proof.
      intros f arg m sc. destruct f; cbn [Calc.apply].
      - simb; [apply Hs | apply Hl | apply Sim_refl |].
        destruct m; [apply Logs_fail | apply Logs_handle_num].
      - apply Sim_refl.
      - apply Hs.
      - simb; [apply Hs | apply Hl | apply Sim_refl |].
        destruct a as [n| | |]; try apply Logs_fail.
        apply Logs_bind; [apply Logs_lift | intro; apply Logs_ret].
    Qed.

    Lemma Sim_eval_node : forall e sc, Sim (eval_node ev0 e sc) (eval_node ev1 e sc).
    Proof.
      assert (forall x v, is_assign (LAssign x v)) as PA by (intros; exact I).
      intros e sc. destruct e; cbn [Calc.eval_node].
      - apply Sim_refl.
      - apply Sim_refl.
      - apply Sim_resolve.
      - apply Hs.
      - simb; [apply Hs | apply Hl | apply Sim_refl | apply Logs_handle_num].
      - destruct op.
        + simb; [apply Hs | apply Hl | |].
          * simb; [apply Hs | apply Hl | apply Sim_refl | apply Logs_handle_two_nums].
          * apply Logs_bind; [apply Hl | intro; apply Logs_handle_two_nums].
        + simb; [apply Hs | apply Hl | |].
          * destruct a as [x| | |].
            -- simb; [apply Hs | apply Hl | apply Sim_refl |].
               destruct a as [y| | |]; try apply Logs_fail.
               apply Logs_bind; [apply Logs_lift | intro; apply Logs_ret].
            -- apply Sim_refl.
            -- apply Sim_apply.
            -- apply Sim_apply.
          * destruct a as [x| | |].
            -- apply Logs_bind; [apply Hl|]. intros [y| | |]; try apply Logs_fail.
               apply Logs_bind; [apply Logs_lift | intro; apply Logs_ret].
            -- apply Logs_fail.
            -- apply Logs_apply; assumption.
            -- apply Logs_apply; assumption.
        + simb; [apply Hs | apply Hl | |].
          * simb; [apply Hs | apply Hl | apply Sim_refl | apply Logs_handle_two_nums].
          * apply Logs_bind; [apply Hl | intro; apply Logs_handle_two_nums].
        + simb; [apply Hs | apply Hl | |].
          * simb; [apply Hs | apply Hl | apply Sim_refl | apply Logs_handle_two_nums].
          * apply Logs_bind; [apply Hl | intro; apply Logs_handle_two_nums].
      - match goal with |- Sim (match ?o with _ => _ end) _ => destruct o end; [apply Sim_refl|].
        simb; [apply Hs | apply Hl | apply Sim_apply | apply Logs_apply; assumption].
      - simb; [apply Hs | apply Hl | apply Sim_apply | apply Logs_apply; assumption].
      - match goal with |- Sim (match ?o with _ => _ end) _ => destruct o end; [apply Sim_refl|].
        simb; [apply Hs | apply Hl | apply Sim_apply | apply Logs_apply; assumption].
      - apply Sim_refl.
      - simb; [apply Hs | apply Hl | apply Sim_refl |].
        apply Logs_bind; [apply Logs_do_event; apply PA | intro; apply Logs_ret].
      - simb; [apply Hs | apply Hl | apply Hs | apply Hl].
    Qed.
  End SimNode.

  Lemma Sim_eval : forall f e sc, Sim (eval None f e sc) (eval (Some k) f e sc).
  Proof.
    induction f as [|f IH]; intros e sc.
    - apply Sim_refl.
    - rewrite !eval_S. apply (Sim_bind _ _ is_assign).
      + apply Sim_tick.
      + apply Logs_tick.
      + intro. apply Sim_eval_node; [exact IH | intros; apply Logs_eval].
      + intro. apply Logs_eval_node; [intros; exact I | intros; apply Logs_eval].
  Qed.

  Lemma Sim_ticks : forall n, Sim (ticks None n) (ticks (Some k) n).
  Proof.
    induction n as [|n IH]; cbn [Calc.ticks]; [apply Sim_refl|].
    apply (Sim_bind _ _ (fun _ => True)); [apply Sim_tick | apply Logs_tick | intro; exact IH | intro; apply Logs_ticks].
  Qed.

  Lemma Sim_eval_top : forall f e, Sim (eval_top None f e) (eval_top (Some k) f e).
  Proof.
    intros f e. unfold Calc.eval_top.
    apply (Sim_bind _ _ (fun _ => True)).
    - apply Sim_eval.
    - eapply Logs_weaken; [|apply Logs_eval]; auto.
    - intro v. apply (Sim_bind _ _ (fun _ => True)); [apply Sim_refl | apply Logs_do_event; exact I | |].
      + intro. apply (Sim_bind _ _ (fun _ => True)); [apply Sim_ticks | apply Logs_ticks | intro; apply Sim_refl |].
        intro. destruct (fmt_ok v); [apply Logs_ret | apply Logs_fail].
      + intro. apply Logs_bind; [apply Logs_ticks|]. intro. destruct (fmt_ok v); [apply Logs_ret | apply Logs_fail].
    - intro v. apply Logs_bind; [apply Logs_do_event; exact I|]. intro.
      apply Logs_bind; [apply Logs_ticks|]. intro. destruct (fmt_ok v); [apply Logs_ret | apply Logs_fail].
  Qed.

  (* promptness in the model: the poll at which the predicate first answers
     true is the last thing the evaluation does *)
  Definition Prompt {A} (m : M A) : Prop :=
    forall st, s_polls st <= k ->
      (snd (m st) = Bad EIntr -> s_polls (fst (m st)) = k + 1)
      /\ (snd (m st) <> Bad EIntr -> s_polls (fst (m st)) <= k).

  Definition NoIntr {A} (m : M A) : Prop := forall st, snd (m st) <> Bad EIntr /\ s_polls (fst (m st)) = s_polls st.

  Lemma Prompt_of_NoIntr : forall A (m : M A), NoIntr m -> Prompt m.
  Proof.
    intros A m H st Hk. destruct (H st) as [N1 N2]. split; intro; [contradiction | lia].
  Qed.

  Lemma NoIntr_ret : forall A (a : A), NoIntr (ret a).
  Proof. intros A a st. cbn. split; [discriminate | reflexivity]. Qed.
  Lemma NoIntr_fail : forall A e, e <> EIntr -> NoIntr (@fail num A e).
  Proof. intros A e H st. cbn. split; [congruence | reflexivity]. Qed.
  Lemma NoIntr_lift : forall A (o : option A), NoIntr (lift o).
  Proof. intros A [a|]; [apply NoIntr_ret | apply NoIntr_fail; discriminate]. Qed.
  Lemma NoIntr_bind : forall A R (m : M A) (f : A -> M R),
    NoIntr m -> (forall a, NoIntr (f a)) -> NoIntr (mbind m f).
  Proof.
    intros A R m f Hm Hf st. unfold mbind. destruct (Hm st) as [N1 N2].
    destruct (m st) as [s1 [a|e]]; cbn [fst snd] in *.
    - destruct (Hf a s1) as [M1 M2]. split; [exact M1 | congruence].
    - split; [intro H; apply N1; inversion H; reflexivity | exact N2].
  Qed.

  Lemma Prompt_bind : forall A R (m : M A) (f : A -> M R),
    Prompt m -> (forall a, Prompt (f a)) -> Prompt (mbind m f).
  Proof.
    intros A R m f Hm Hf st Hk. unfold mbind. destruct (Hm st Hk) as [P1 P2].
    destruct (m st) as [s1 [a|e]]; cbn [fst snd] in *.
    - apply Hf. apply P2. discriminate.
    - split; intro H.
      + apply P1. inversion H. reflexivity.
      + apply P2. intro H'. apply H. inversion H'. reflexivity.
  Qed.

  Lemma Prompt_tick : Prompt (tick (Some k)).
  Proof.
    intros st Hk. unfold tick. cbn [fires].
    destruct (k <=? s_polls st) eqn:E; cbn [fst snd s_polls].
    - apply N.leb_le in E. split; intro; [lia | congruence].
    - apply N.leb_gt in E. split; intro; [discriminate | lia].
  Qed.

  Lemma NoIntr_handle_num : forall v f lz sc, NoIntr (handle_num v f lz sc).
  Proof.
    intros v f lz sc. destruct v; cbn [Calc.handle_num]; try apply NoIntr_ret.
    - apply NoIntr_bind; [apply NoIntr_lift | intro; apply NoIntr_ret].
    - apply NoIntr_fail. discriminate.
  Qed.

  Lemma NoIntr_handle_two_nums : forall a b op sc, NoIntr (handle_two_nums a b op sc).
  Proof.
    intros a b op sc. destruct a, b; cbn [Calc.handle_two_nums];
      try (apply NoIntr_fail; discriminate); try apply NoIntr_ret.
    apply NoIntr_bind; [apply NoIntr_lift | intro; apply NoIntr_ret].
  Qed.

  Section PromptNode.
    Variable ev : expr -> scope -> M value.
    Hypothesis Hp : forall e sc, Prompt (ev e sc).

    Ltac ni := apply Prompt_of_NoIntr.

    Lemma Prompt_resolve : forall x sc, Prompt (resolve ev x sc).
    Proof.
      intros x sc. unfold Calc.resolve.
      destruct (scope_find x sc) as [[a sa]|]; [apply Hp|].
      ni. apply NoIntr_bind.
      - intro st. cbn. split; [discriminate | reflexivity].
      - intros [v|]; [apply NoIntr_ret|].
        destruct (lookup_static x); [apply NoIntr_ret|].
        destruct (all_upper_or_digit x); [|apply NoIntr_fail; discriminate].
        destruct (builtin_value num builtin (to_lower x)); [apply NoIntr_ret | apply NoIntr_fail; discriminate].
    Qed.

    Lemma Prompt_apply : forall f arg m sc, Prompt (vapply ev f arg m sc).
    Proof.
      intros f arg m sc. destruct f; cbn [Calc.apply].
      - apply Prompt_bind; [apply Hp|]. intro. ni.
        destruct m; [apply NoIntr_fail; discriminate | apply NoIntr_handle_num].
      - ni. apply NoIntr_fail. discriminate.
      - apply Hp.
      - apply Prompt_bind; [apply Hp|]. intros [n| | |]; ni; try (apply NoIntr_fail; discriminate).
        apply NoIntr_bind; [apply NoIntr_lift | intro; apply NoIntr_ret].
    Qed.

    Lemma Prompt_eval_node : forall e sc, Prompt (eval_node ev e sc).
    Proof.
      intros e sc. destruct e; cbn [Calc.eval_node].
      - ni. apply NoIntr_ret.
      - ni. apply NoIntr_ret.
      - apply Prompt_resolve.
      - apply Hp.
      - apply Prompt_bind; [apply Hp | intro; ni; apply NoIntr_handle_num].
      - destruct op.
        + apply Prompt_bind; [apply Hp|]. intro. apply Prompt_bind; [apply Hp|]. intro. ni. apply NoIntr_handle_two_nums.
        + apply Prompt_bind; [apply Hp|]. intros [x| | |].
          * apply Prompt_bind; [apply Hp|]. intros [y| | |]; ni; try (apply NoIntr_fail; discriminate).
            apply NoIntr_bind; [apply NoIntr_lift | intro; apply NoIntr_ret].
          * ni. apply NoIntr_fail. discriminate.
          * apply Prompt_apply.
          * apply Prompt_apply.
        + apply Prompt_bind; [apply Hp|]. intro. apply Prompt_bind; [apply Hp|]. intro. ni. apply NoIntr_handle_two_nums.
        + apply Prompt_bind; [apply Hp|]. intro. apply Prompt_bind; [apply Hp|]. intro. ni. apply NoIntr_handle_two_nums.
      - match goal with |- Prompt (match ?o with _ => _ end) => destruct o end; [ni; apply NoIntr_ret|].
        apply Prompt_bind; [apply Hp | intro; apply Prompt_apply].
      - apply Prompt_bind; [apply Hp | intro; apply Prompt_apply].
      - match goal with |- Prompt (match ?o with _ => _ end) => destruct o end; [ni; apply NoIntr_ret|].
        apply Prompt_bind; [apply Hp | intro; apply Prompt_apply].
      - ni. apply NoIntr_ret.
      - apply Prompt_bind; [apply Hp|]. intro v. ni.
        apply NoIntr_bind; [|intro; apply NoIntr_ret].
        intro st. cbn. split; [discriminate | reflexivity].
      - apply Prompt_bind; [apply Hp | intro; apply Hp].
    Qed.
  End PromptNode.

  Lemma Prompt_eval : forall f e sc, Prompt (eval (Some k) f e sc).
  Proof.
    induction f as [|f IH]; intros e sc.
    - apply Prompt_of_NoIntr. apply NoIntr_fail. discriminate.
    - rewrite eval_S. apply Prompt_bind; [apply Prompt_tick|]. intro.
      apply Prompt_eval_node. exact IH.
  Qed.

  Lemma Prompt_ticks : forall n, Prompt (ticks (Some k) n).
  Proof.
    induction n as [|n IH]; cbn [Calc.ticks].
    - apply Prompt_of_NoIntr. apply NoIntr_ret.
    - apply Prompt_bind; [apply Prompt_tick | intro; exact IH].
  Qed.

  Lemma Prompt_eval_top : forall f e, Prompt (eval_top (Some k) f e).
  Proof.
    intros f e. unfold Calc.eval_top.
    apply Prompt_bind; [apply Prompt_eval|]. intro v.
    apply Prompt_bind.
    { apply Prompt_of_NoIntr. intro st. cbn. split; [discriminate | reflexivity]. }
    intro. apply Prompt_bind; [apply Prompt_ticks|]. intro.
    apply Prompt_of_NoIntr. destruct (fmt_ok v); [apply NoIntr_ret | apply NoIntr_fail; discriminate].
  Qed.

End Interrupt.

(* the statements used by Properties/C07.v *)

(* outcome: Interrupted, or exactly what the uninterrupted run gives
   (same result, same variables, same number of polls) *)
Lemma interrupt_or_same_lemma : forall k f e vs,
  eval_top (Some k) f e (mkS vs 0 []) = eval_top None f e (mkS vs 0 [])
  \/ snd (eval_top (Some k) f e (mkS vs 0 [])) = Bad EIntr.
Proof.
  intros. destruct (Sim_eval_top k f e (mkS vs 0 [])) as [E | (I & _)]; auto.
Qed.

(* state after an interrupt: the variables are the old ones with a prefix of
   the uninterrupted run's writes replayed (each write is a complete value) *)
Lemma interrupt_state_lemma : forall k f e vs,
  snd (eval_top (Some k) f e (mkS vs 0 [])) = Bad EIntr ->
  eval_top (Some k) f e (mkS vs 0 []) <> eval_top None f e (mkS vs 0 []) ->
  exists j, s_vars (fst (eval_top (Some k) f e (mkS vs 0 [])))
            = replay (firstn j (s_log (fst (eval_top None f e (mkS vs 0 []))))) vs.
Proof.
  intros k f e vs I NE.
  destruct (Sim_eval_top k f e (mkS vs 0 [])) as [E | (_ & l & l' & L1 & L0 & V)]; [contradiction|].
  cbn [s_log s_vars app] in *. exists (length l).
  rewrite L0, firstn_app, firstn_all, Nat.sub_diag. cbn [firstn]. rewrite app_nil_r. exact V.
Qed.

Lemma interrupt_prompt_lemma : forall k f e vs,
  snd (eval_top (Some k) f e (mkS vs 0 [])) = Bad EIntr ->
  s_polls (fst (eval_top (Some k) f e (mkS vs 0 []))) = k + 1.
Proof.
  intros k f e vs I. apply (Prompt_eval_top k f e (mkS vs 0 [])); [cbn; lia | exact I].
Qed.

(* an interrupt during the evaluation proper (before a value exists) leaves
   _ and ans alone -- unless the program itself assigned to them *)
Lemma interrupt_ans_lemma : forall k f e vs s x,
  x = id_underscore \/ x = id_ans ->
  eval (Some k) f e SNil (mkS vs 0 []) = (s, Bad EIntr) ->
  Forall (fun ev => match ev with LAssign y _ => y <> x | LAns _ => True end) (s_log s) ->
  get_var x (s_vars s) = get_var x vs.
Proof. intros. eapply ans_unchanged_on_failure_lemma; eauto. Qed.

End CalcProofs.
