(* C09 / C07(b): model of the evaluator's core calculus.

   Mirrors, for the constructors that matter to scoping:
     core/src/ast.rs    evaluate (Literal Ident Parens UnaryMinus.. Bop Apply
                        ApplyFunctionCall ApplyMul Fn Assign Statements),
                        resolve_identifier (scope -> variables -> built-ins ->
                        units -> lower-cased built-in), the a_b unit lookup
     core/src/scope.rs  Scope::with_variable / get (lz argument evaluated
                        in the caller's scope at every use)
     core/src/value.rs  Value::apply (Num / BuiltInFunction / Fn),
                        handle_num, handle_two_nums (arithmetic on functions)
     core/src/value/built_in_function.rs  wrap_with_expr
     core/src/eval.rs   evaluate_to_spans (_ and ans are written after the
                        value is computed and before it is formatted)
     core/src/interrupt.rs test_int at the entry of every evaluate call.
   Numbers, built-in names and units are Section parameters.  Not modelled:
   Factorial's separate decimal-separator argument, Pow's inverse special
   case, As, Of (and the "% of" form), Equality, strings/dates/objects, the
   Dp/Sf forms of Value::apply, the text Value::apply formats before
   dispatching.  No proofs here. *)
From FendV Require Import Base.Prelude.
Open Scope N_scope.

Definition ident := list N.
Definition ident_eqb : ident -> ident -> bool := list_N_eqb.

Inductive unop := UMinus | UPlus | UDiv | UFact.
Inductive bop := BPlus | BMinus | BMul | BOther (k : N).

Inductive everr :=
| ENotFound (x : ident)     (* IdentifierNotFound *)
| ENotAFunction             (* IsNotAFunction *)
| ENotFunOrNum              (* IsNotAFunctionOrNumber *)
| EExpectedNum              (* ExpectedANumber *)
| EBadMinus                 (* InvalidOperandsForSubtraction *)
| ENumeric                  (* any error of a numeric primitive *)
| EIntr                     (* Interrupted *)
| EFuel.                    (* model artefact: fuel exhausted *)

Inductive out (A : Type) := Good (a : A) | Bad (e : everr).
Arguments Good {A} a.
Arguments Bad {A} e.

Section Calc.

Variable num : Type.
Variable num_un : unop -> num -> option num.
Variable num_bop : bop -> num -> num -> option num.
(* resolve_builtin_identifier: a built-in function (canonical name), a
   built-in constant, or IdentifierNotFound *)
Variable builtin : ident -> option (ident + num).
Variable builtin_apply : ident -> num -> option num.
Variable unit_of : ident -> option num.         (* units::query_unit *)
Variable unit_static : ident -> option num.     (* query_unit_static on "a_b" *)

Inductive expr :=
| ELit (n : num)
| EUnitLit
| EIdent (x : ident)
| EParens (e : expr)
| EUn (u : unop) (e : expr)
| EBop (op : bop) (a b : expr)
| EApply (a b : expr)
| EApplyFn (a b : expr)
| EApplyMul (a b : expr)
| EFn (x : ident) (body : expr)
| EAssign (x : ident) (e : expr)
| EStmts (a b : expr).

(* Option<Arc<Scope>>: None = SNil; Scope { ident, value: LazyVariable(expr, scope), inner } *)
Inductive scope :=
| SNil
| SCons (x : ident) (arg : expr) (argsc : scope) (inner : scope).

Inductive value :=
| VNum (n : num)
| VUnit
| VFn (x : ident) (body : expr) (sc : scope)
| VBuiltin (name : ident).

(* what an evaluation writes into Context.variables *)
Inductive event :=
| LAssign (x : ident) (v : value)     (* Expr::Assign *)
| LAns (v : value).                   (* evaluate_to_spans: _ and ans *)

Definition vars := list (ident * value).

Fixpoint get_var (x : ident) (vs : vars) : option value :=
  match vs with
  | [] => None
  | (y, v) :: r => if ident_eqb x y then Some v else get_var x r
  end.

Fixpoint remove_var (x : ident) (vs : vars) : vars :=
  match vs with
  | [] => []
  | (y, v) :: r => if ident_eqb x y then remove_var x r else (y, v) :: remove_var x r
  end.

(* HashMap::insert *)
Definition set_var (x : ident) (v : value) (vs : vars) : vars := (x, v) :: remove_var x vs.

Definition id_underscore : ident := [95].
Definition id_ans : ident := [97; 110; 115].
Definition id_x : ident := [120].

Definition apply_event (ev : event) (vs : vars) : vars :=
  match ev with
  | LAssign x v => set_var x v vs
  | LAns v => set_var id_ans v (set_var id_underscore v vs)
  end.

Definition replay (l : list event) (vs : vars) : vars := fold_left (fun a ev => apply_event ev a) l vs.

Record state := mkS { s_vars : vars; s_polls : N; s_log : list event }.

Definition M (A : Type) := state -> state * out A.

Definition ret {A} (a : A) : M A := fun s => (s, Good a).
Definition fail {A} (e : everr) : M A := fun s => (s, Bad e).
Definition mbind {A R} (m : M A) (f : A -> M R) : M R :=
  fun s => match m s with
           | (s', Good a) => f a s'
           | (s', Bad e) => (s', Bad e)
           end.
Notation "'mdo' x <- m ; k" := (mbind m (fun x => k))
  (at level 200, x pattern, m at level 100, k at level 200, right associativity).

Definition lift {A} (o : option A) : M A :=
  match o with Some a => ret a | None => fail ENumeric end.

(* the interrupt predicate turns true at its [fire]-th call (0-based) *)
Definition fires (fire : option N) (polls : N) : bool :=
  match fire with None => false | Some k => k <=? polls end.

(* test_int *)
Definition tick (fire : option N) : M unit :=
  fun s => let s' := mkS (s_vars s) (s_polls s + 1) (s_log s) in
           if fires fire (s_polls s) then (s', Bad EIntr) else (s', Good tt).

Definition do_event (ev : event) : M unit :=
  fun s => (mkS (apply_event ev (s_vars s)) (s_polls s) (s_log s ++ [ev]), Good tt).

Definition read_var (x : ident) : M (option value) := fun s => (s, Good (get_var x (s_vars s))).

(* Scope::get, without the evaluation *)
Fixpoint scope_find (x : ident) (sc : scope) : option (expr * scope) :=
  match sc with
  | SNil => None
  | SCons y a sa inner => if ident_eqb x y then Some (a, sa) else scope_find x inner
  end.

Inductive mode := OnlyApply | Both.

(* BuiltInFunction::wrap_with_expr *)
Definition wrap_builtin (f : ident) (lz : expr -> expr) (sc : scope) : value :=
  VFn id_x (lz (EApplyFn (EIdent f) (EIdent id_x))) sc.

(* Value::handle_num *)
Definition handle_num (v : value) (f : num -> option num) (lz : expr -> expr) (sc : scope) : M value :=
  match v with
  | VNum n => mdo n' <- lift (f n) ; ret (VNum n')
  | VFn p body fsc => ret (VFn p (lz body) fsc)
  | VBuiltin g => ret (wrap_builtin g lz sc)
  | VUnit => fail EExpectedNum
  end.

(* Value::handle_two_nums (and evaluate_add on numbers and functions) *)
Definition handle_two_nums (a b : value) (op : bop) (sc : scope) : M value :=
  match a, b with
  | VNum x, VNum y => mdo n <- lift (num_bop op x y) ; ret (VNum n)
  | VBuiltin g, VNum y => ret (wrap_builtin g (fun f => EBop op f (ELit y)) sc)
  | VNum x, VBuiltin g => ret (wrap_builtin g (fun f => EBop op (ELit x) f) sc)
  | VFn p body fsc, VNum y => ret (VFn p (EBop op body (ELit y)) fsc)
  | VNum x, VFn p body fsc => ret (VFn p (EBop op (ELit x) body) fsc)
  | _, _ => fail EExpectedNum
  end.

Definition all_upper_or_digit (x : ident) : bool :=
  forallb (fun c => ((48 <=? c) && (c <=? 57)) || ((65 <=? c) && (c <=? 90))) x.
Definition to_lower (x : ident) : ident :=
  map (fun c => if (65 <=? c) && (c <=? 90) then c + 32 else c) x.

Definition builtin_value (x : ident) : option value :=
  match builtin x with
  | Some (inl g) => Some (VBuiltin g)
  | Some (inr n) => Some (VNum n)
  | None => None
  end.

(* resolve_builtin_identifier, then query_unit *)
Definition lookup_static (x : ident) : option value :=
  match builtin_value x with
  | Some v => Some v
  | None => match unit_of x with Some n => Some (VNum n) | None => None end
  end.

Definition underscore_join (a b : ident) : ident := a ++ [95] ++ b.

Section WithEval.
  (* the recursive call, with one unit of fuel less *)
  Variable ev : expr -> scope -> M value.

  (* resolve_identifier *)
  Definition resolve (x : ident) (sc : scope) : M value :=
    match scope_find x sc with
    | Some (a, sa) => ev a sa
    | None =>
      mdo ov <- read_var x ;
      match ov with
      | Some v => ret v
      | None =>
        match lookup_static x with
        | Some v => ret v
        | None =>
          if all_upper_or_digit x then
            match builtin_value (to_lower x) with
            | Some v => ret v
            | None => fail (ENotFound x)
            end
          else fail (ENotFound x)
        end
      end
    end.

  (* Value::apply *)
  Definition apply (f : value) (arg : expr) (m : mode) (sc : scope) : M value :=
    match f with
    | VNum n =>
      mdo other <- ev arg sc ;
      match m with
      | OnlyApply => fail ENotAFunction
      | Both => handle_num other (fun x => num_bop BMul n x) (fun x => EBop BMul (ELit n) x) sc
      end
    | VBuiltin g =>
      mdo a <- ev arg sc ;
      match a with
      | VNum n => mdo r <- lift (builtin_apply g n) ; ret (VNum r)
      | _ => fail EExpectedNum
      end
    | VFn p body csc => ev body (SCons p arg sc csc)
    | VUnit => fail ENotFunOrNum
    end.

  Definition eval_node (e : expr) (sc : scope) : M value :=
    match e with
    | ELit n => ret (VNum n)
    | EUnitLit => ret VUnit
    | EIdent x => resolve x sc
    | EParens a => ev a sc
    | EUn u a => mdo v <- ev a sc ; handle_num v (num_un u) (EUn u) sc
    | EBop BMinus a b =>
      mdo va <- ev a sc ;
      match va with
      | VNum x =>
        mdo vb <- ev b sc ;
        match vb with
        | VNum y => mdo n <- lift (num_bop BMinus x y) ; ret (VNum n)
        | _ => fail EExpectedNum
        end
      | VFn _ _ _ | VBuiltin _ => apply va (EUn UMinus b) OnlyApply sc
      | VUnit => fail EBadMinus
      end
    | EBop op a b => mdo va <- ev a sc ; mdo vb <- ev b sc ; handle_two_nums va vb op sc
    | EApply a b | EApplyMul a b =>
      match (match a, b with
             | EIdent x, EIdent y => unit_static (underscore_join x y)
             | _, _ => None
             end) with
      | Some u => ret (VNum u)
      | None => mdo va <- ev a sc ; apply va b Both sc
      end
    | EApplyFn a b => mdo va <- ev a sc ; apply va b OnlyApply sc
    | EFn x body => ret (VFn x body sc)
    | EAssign x a => mdo v <- ev a sc ; mdo _ <- do_event (LAssign x v) ; ret v
    | EStmts a b => mdo _ <- ev a sc ; ev b sc
    end.
End WithEval.

(* ast::evaluate: test_int first, then the node *)
Fixpoint eval (fire : option N) (fuel : nat) (e : expr) (sc : scope) : M value :=
  match fuel with
  | O => fail EFuel
  | S f => mdo _ <- tick fire ; eval_node (eval fire f) e sc
  end.

(* formatting: an oracle for the number of polls it makes and whether it fails *)
Variable fmt_polls : value -> nat.
Variable fmt_ok : value -> bool.

Fixpoint ticks (fire : option N) (n : nat) : M unit :=
  match n with O => ret tt | S k => mdo _ <- tick fire ; ticks fire k end.

(* eval::evaluate_to_spans *)
Definition eval_top (fire : option N) (fuel : nat) (e : expr) : M value :=
  mdo v <- eval fire fuel e SNil ;
  mdo _ <- do_event (LAns v) ;
  mdo _ <- ticks fire (fmt_polls v) ;
  if fmt_ok v then ret v else fail ENumeric.

(* a history: successive inputs on one context, each with its own interrupt *)
Fixpoint run_history (fuel : nat) (h : list (expr * option N)) (vs : vars) : vars * list (out value * N) :=
  match h with
  | [] => (vs, [])
  | (e, fire) :: r =>
    let '(s, o) := eval_top fire fuel e (mkS vs 0 []) in
    let '(vs', outs) := run_history fuel r (s_vars s) in
    (vs', (o, s_polls s) :: outs)
  end.

(* ------------------------------------------------------------------ *)
(* substitution (for the beta / let laws) *)

(* replace the free occurrences of the lambda parameter x by t *)
Fixpoint subst (x : ident) (t : expr) (e : expr) : expr :=
  match e with
  | ELit _ | EUnitLit => e
  | EIdent y => if ident_eqb x y then t else e
  | EParens a => EParens (subst x t a)
  | EUn u a => EUn u (subst x t a)
  | EBop op a b => EBop op (subst x t a) (subst x t b)
  | EApply a b => EApply (subst x t a) (subst x t b)
  | EApplyFn a b => EApplyFn (subst x t a) (subst x t b)
  | EApplyMul a b => EApplyMul (subst x t a) (subst x t b)
  | EFn y body => if ident_eqb x y then e else EFn y (subst x t body)
  | EAssign y a => EAssign y (subst x t a)
  | EStmts a b => EStmts (subst x t a) (subst x t b)
  end.

End Calc.

Arguments ELit {num}.
Arguments EUnitLit {num}.
Arguments EIdent {num}.
Arguments EParens {num}.
Arguments EUn {num}.
Arguments EBop {num}.
Arguments EApply {num}.
Arguments EApplyFn {num}.
Arguments EApplyMul {num}.
Arguments EFn {num}.
Arguments EAssign {num}.
Arguments EStmts {num}.
Arguments SNil {num}.
Arguments SCons {num}.
Arguments VNum {num}.
Arguments VUnit {num}.
Arguments VFn {num}.
Arguments VBuiltin {num}.
Arguments LAssign {num}.
Arguments LAns {num}.
Arguments mkS {num}.
Arguments s_vars {num}.
Arguments s_polls {num}.
Arguments s_log {num}.
Arguments get_var {num}.
Arguments set_var {num}.
Arguments remove_var {num}.
Arguments apply_event {num}.
Arguments replay {num}.
Arguments scope_find {num}.
Arguments subst {num}.
Arguments ret {num A}.
Arguments fail {num A}.
Arguments mbind {num A R}.
Arguments tick {num}.
Arguments do_event {num}.
Arguments read_var {num}.
Arguments lift {num A}.
