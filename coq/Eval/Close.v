(* C09 (substitution form of the laws): closing a scope into an expression.

   [closing sc] is the simultaneous substitution a scope stands for: every
   parameter bound in it is replaced by the parenthesised, itself closed,
   argument expression.  [close sc e] applies it.  [nv] normalises a value:
   a closure becomes a closure over the empty scope with its bindings
   substituted into the body.  Two configurations with the same closed form
   are evaluated in lockstep by the evaluator model (CloseProofs.v), which is
   what makes beta and let-substitution theorems about the model.

   Identifiers are split by [isparam] into names used as lambda parameters
   and all other names (variables, built-ins, units); [okp bd e] says that
   every binder of e is a parameter name and every parameter name occurring
   free in e is in bd.  No proofs here. *)
From FendV Require Import Base.Prelude Eval.Calc.
Open Scope N_scope.

Section Close.

Variable num : Type.
Variable isparam : ident -> bool.
(* which names the expressions in play may assign to (all of them, for beta;
   all but the let-bound name and what its right-hand side reads, for let) *)
Variable assignable : ident -> bool.

Notation expr := (expr num).
Notation scope := (scope num).
Notation value := (value num).

Definition sub := list (ident * expr).

Fixpoint lookup (x : ident) (th : sub) : option expr :=
  match th with
  | [] => None
  | (y, t) :: r => if ident_eqb x y then Some t else lookup x r
  end.

Fixpoint remove (x : ident) (th : sub) : sub :=
  match th with
  | [] => []
  | (y, t) :: r => if ident_eqb x y then remove x r else (y, t) :: remove x r
  end.

(* simultaneous substitution; like the evaluator it does not rename *)
Fixpoint msub (th : sub) (e : expr) : expr :=
  match e with
  | ELit _ | EUnitLit => e
  | EIdent y => match lookup y th with Some t => t | None => e end
  | EParens a => EParens (msub th a)
  | EUn u a => EUn u (msub th a)
  | EBop op a b => EBop op (msub th a) (msub th b)
  | EApply a b => EApply (msub th a) (msub th b)
  | EApplyFn a b => EApplyFn (msub th a) (msub th b)
  | EApplyMul a b => EApplyMul (msub th a) (msub th b)
  | EFn y body => EFn y (msub (remove y th) body)
  | EAssign y a => EAssign y (msub th a)
  | EStmts a b => EStmts (msub th a) (msub th b)
  end.

Fixpoint closing (sc : scope) : sub :=
  match sc with
  | SNil => []
  | SCons x a sa inner => (x, EParens (msub (closing sa) a)) :: closing inner
  end.

Definition close (sc : scope) (e : expr) : expr := msub (closing sc) e.

Definition nv (v : value) : value :=
  match v with
  | VFn x body sc => VFn x (msub (remove x (closing sc)) body) SNil
  | _ => v
  end.

Definition nev (ev : event num) : event num :=
  match ev with
  | LAssign x v => LAssign x (nv v)
  | LAns v => LAns (nv v)
  end.

Definition nvs (vs : vars num) : vars num := map (fun xv => (fst xv, nv (snd xv))) vs.

Definition nst (s : state num) : state num :=
  mkS (nvs (s_vars s)) (s_polls s) (map nev (s_log s)).

Definition nout (o : out value) : out value :=
  match o with Good v => Good (nv v) | Bad e => Bad e end.

(* ------------------------------------------------------------------ *)
(* well-scopedness *)

Definition inb (x : ident) (l : list ident) : bool := existsb (ident_eqb x) l.

Fixpoint okp (bd : list ident) (e : expr) : bool :=
  match e with
  | ELit _ | EUnitLit => true
  | EIdent y => negb (isparam y) || inb y bd
  | EParens a | EUn _ a => okp bd a
  | EAssign y a => assignable y && okp bd a
  | EBop _ a b | EApply a b | EApplyFn a b | EApplyMul a b | EStmts a b => okp bd a && okp bd b
  | EFn y body => isparam y && okp (y :: bd) body
  end.

Fixpoint dom (sc : scope) : list ident :=
  match sc with SNil => [] | SCons x _ _ inner => x :: dom inner end.

Fixpoint wss (sc : scope) : bool :=
  match sc with
  | SNil => true
  | SCons x a sa inner => isparam x && okp (dom sa) a && wss sa && wss inner
  end.

Definition wsv (v : value) : bool :=
  match v with
  | VFn x body sc => isparam x && okp (x :: dom sc) body && wss sc
  | VBuiltin g => negb (isparam g)
  | _ => true
  end.

Definition wsvars (vs : vars num) : bool := forallb (fun xv => wsv (snd xv)) vs.

(* the side condition of beta: no binder of b on the way to a free occurrence
   of x is an identifier of a.  [idents] over-approximates the free names. *)
Fixpoint idents (e : expr) : list ident :=
  match e with
  | ELit _ | EUnitLit => []
  | EIdent y => [y]
  | EParens a | EUn _ a | EAssign _ a => idents a
  | EBop _ a b | EApply a b | EApplyFn a b | EApplyMul a b | EStmts a b => idents a ++ idents b
  | EFn y body => idents body
  end.

Fixpoint capture_free (x : ident) (avoid : list ident) (e : expr) : bool :=
  match e with
  | ELit _ | EUnitLit | EIdent _ => true
  | EParens a | EUn _ a | EAssign _ a => capture_free x avoid a
  | EBop _ a b | EApply a b | EApplyFn a b | EApplyMul a b | EStmts a b =>
    capture_free x avoid a && capture_free x avoid b
  | EFn y body => ident_eqb x y || (negb (inb y avoid) && capture_free x avoid body)
  end.

End Close.

Arguments lookup {num}.
Arguments remove {num}.
Arguments msub {num}.
Arguments closing {num}.
Arguments close {num}.
Arguments nv {num}.
Arguments nev {num}.
Arguments nvs {num}.
Arguments nst {num}.
Arguments nout {num}.
Arguments okp {num}.
Arguments dom {num}.
Arguments wss {num}.
Arguments wsv {num}.
Arguments wsvars {num}.
Arguments idents {num}.
Arguments capture_free {num}.
