(* Proofs about closing (C09, substitution form): substitution algebra,
   preservation of well-scopedness, the lockstep theorem, beta and let. *)
From FendV Require Import Base.Prelude Eval.Calc Eval.CalcProofs Eval.Close.
From Coq Require Import Lia.
Open Scope N_scope.

Section CloseAlgebra.

Variable num : Type.
Variable isparam : ident -> bool.
Variable assignable : ident -> bool.
Notation expr := (expr num).
Notation scope := (scope num).
Notation value := (value num).
Notation sub := (sub num).
Notation okp := (okp isparam assignable).
Notation wss := (wss isparam assignable).
Notation wsv := (wsv isparam assignable).
Notation wsvars := (wsvars isparam assignable).

Lemma ident_eqb_sym : forall x y, ident_eqb x y = ident_eqb y x.
Proof.
  intros x y. destruct (ident_eqb x y) eqn:E.
  - apply ident_eqb_eq in E. subst. symmetry. apply ident_eqb_refl.
  - destruct (ident_eqb y x) eqn:F; [|reflexivity].
    apply ident_eqb_eq in F. subst. rewrite ident_eqb_refl in E. discriminate.
Qed.

Lemma lookup_remove_same : forall x (th : sub), lookup x (remove x th) = None.
Proof.
  intros x th. induction th as [|[y t] r IH]; cbn; [reflexivity|].
  destruct (ident_eqb x y) eqn:E; [exact IH|]. cbn. rewrite E. exact IH.
Qed.

Lemma lookup_remove_other : forall x y (th : sub), ident_eqb x y = false -> lookup x (remove y th) = lookup x th.
Proof.
  intros x y th H. induction th as [|[z t] r IH]; cbn; [reflexivity|].
  destruct (ident_eqb y z) eqn:E.
  - apply ident_eqb_eq in E. subst z. rewrite H. exact IH.
  - cbn. rewrite IH. reflexivity.
Qed.

Lemma remove_remove_same : forall x (th : sub), remove x (remove x th) = remove x th.
Proof.
  intros x th. induction th as [|[y t] r IH]; cbn; [reflexivity|].
  destruct (ident_eqb x y) eqn:E; [exact IH|]. cbn. rewrite E, IH. reflexivity.
Qed.

Lemma remove_comm : forall x y (th : sub), remove x (remove y th) = remove y (remove x th).
Proof.
  intros x y th. induction th as [|[z t] r IH]; cbn; [reflexivity|].
  destruct (ident_eqb y z) eqn:E, (ident_eqb x z) eqn:F; cbn; rewrite ?E, ?F, ?IH; reflexivity.
Qed.

Lemma msub_nil : forall e : expr, msub [] e = e.
Proof. induction e; cbn; congruence. Qed.

Lemma subst_msub : forall x t (e : expr), subst x t e = msub [(x, t)] e.
Proof.
  intros x t. induction e; cbn [subst msub lookup remove]; try congruence.
  - rewrite (ident_eqb_sym x0 x). destruct (ident_eqb x x0); reflexivity.
  - destruct (ident_eqb x x0) eqn:E.
    + rewrite (ident_eqb_sym x0 x), E. rewrite msub_nil. reflexivity.
    + rewrite (ident_eqb_sym x0 x), E. rewrite IHe. reflexivity.
Qed.

(* ------------------------------------------------------------------ *)
(* well-scopedness *)

Lemma okp_weaken : forall (e : expr) bd bd',
  (forall y, inb y bd = true -> inb y bd' = true) -> okp bd e = true -> okp bd' e = true.
Proof.
  induction e; intros bd bd' H; cbn [Close.okp]; auto;
    try (intro K; eapply IHe; eassumption);
    try (intro K; apply andb_true_iff in K; destruct K; apply andb_true_iff; split; eauto; fail).
  - intro K. apply orb_true_iff in K. apply orb_true_iff. destruct K; auto.
  - intro K. apply andb_true_iff in K. destruct K as [K1 K2]. apply andb_true_iff. split; [exact K1|].
    eapply IHe; [|exact K2]. intros y. unfold inb. cbn [existsb].
    intro Q. apply orb_true_iff in Q. apply orb_true_iff.
    destruct Q as [Q|Q]; [left; exact Q | right; apply H; exact Q].
Qed.

Lemma inb_app : forall y l1 l2, inb y (l1 ++ l2) = inb y l1 || inb y l2.
Proof. intros. unfold inb. apply existsb_app. Qed.

Lemma lookup_none_dom : forall y (th : sub), lookup y th = None -> inb y (map fst th) = false.
Proof.
  intros y th. induction th as [|[z t] r IH]; cbn; [reflexivity|].
  destruct (ident_eqb y z); [discriminate|]. exact IH.
Qed.

(* substituting closed ranges closes *)
Lemma okp_msub : forall (e : expr) (th : sub) bd,
  okp (map fst th ++ bd) e = true ->
  (forall y t, lookup y th = Some t -> okp bd t = true) ->
  okp bd (msub th e) = true.
Proof.
  induction e; intros th bd H R; cbn [Close.okp msub] in *; auto;
    try (apply andb_true_iff in H; destruct H; apply andb_true_iff; split; eauto; fail).
  - destruct (lookup x th) as [t|] eqn:L; [eapply R; exact L|].
    cbn [Close.okp]. apply orb_true_iff in H. apply orb_true_iff.
    destruct H as [H|H]; [left; exact H|]. right.
    rewrite inb_app, (lookup_none_dom _ _ L) in H. exact H.
  - apply andb_true_iff in H. destruct H as [H1 H2]. apply andb_true_iff. split; [exact H1|].
    apply IHe.
    + eapply okp_weaken; [|exact H2]. intro y. unfold inb. cbn [existsb].
      fold (inb y (map fst th ++ bd)). fold (inb y (map fst (remove x th) ++ x :: bd)).
      rewrite !inb_app. unfold inb at 4. cbn [existsb]. fold (inb y bd).
      intro Q. destruct (ident_eqb y x) eqn:E; [rewrite orb_true_r; reflexivity|].
      cbn [orb] in Q. apply orb_true_iff in Q. destruct Q as [Q|Q]; [|rewrite Q, !orb_true_r; reflexivity].
      assert (inb y (map fst (remove x th)) = true) as Z.
      { clear - Q E. induction th as [|[z t] r IH]; cbn in *; [discriminate|].
        destruct (ident_eqb x z) eqn:F.
        - apply ident_eqb_eq in F. subst z. rewrite E in Q. cbn in Q. auto.
        - cbn. apply orb_true_iff in Q. apply orb_true_iff. destruct Q; auto. }
      rewrite Z. reflexivity.
    + intros y t L. destruct (ident_eqb y x) eqn:E.
      * apply ident_eqb_eq in E. subst y. rewrite lookup_remove_same in L. discriminate.
      * rewrite lookup_remove_other in L by exact E.
        eapply okp_weaken; [|eapply R; exact L]. intro z. unfold inb. cbn [existsb].
        intro Q. rewrite Q. apply orb_true_r.
Qed.

(* a substitution that only touches parameter names outside bd leaves a
   well-scoped expression alone *)
Lemma msub_id : forall (e : expr) (th : sub) bd,
  okp bd e = true ->
  (forall y t, lookup y th = Some t -> isparam y = true /\ inb y bd = false) ->
  msub th e = e.
Proof.
  induction e; intros th bd H D; cbn [Close.okp msub] in *; try reflexivity;
    try (apply andb_true_iff in H; destruct H as [H1 H2]);
    try (f_equal; eauto; fail).
  - destruct (lookup x th) as [t|] eqn:L; [|reflexivity].
    destruct (D _ _ L) as [P Q]. rewrite P, Q in H. discriminate.
  - f_equal. eapply IHe; [exact H2|].
    intros y t L. destruct (ident_eqb y x) eqn:E.
    + apply ident_eqb_eq in E. subst y. rewrite lookup_remove_same in L. discriminate.
    + rewrite lookup_remove_other in L by exact E. destruct (D _ _ L) as [P Q].
      split; [exact P|]. unfold inb. cbn [existsb]. rewrite E. exact Q.
Qed.

Lemma dom_closing : forall sc : scope, map fst (closing sc) = dom sc.
Proof. induction sc; cbn; congruence. Qed.

(* the ranges of a well-scoped scope's substitution are closed *)
Lemma closing_ranges : forall sc : scope, wss sc = true ->
  forall y t, lookup y (closing sc) = Some t -> okp [] t = true.
Proof.
  induction sc as [|x a sa IHsa inner IHin]; intros W y t L; cbn in *; [discriminate|].
  apply andb_true_iff in W. destruct W as [W Win].
  apply andb_true_iff in W. destruct W as [W Wsa].
  apply andb_true_iff in W. destruct W as [Px Oa].
  destruct (ident_eqb y x).
  - inversion L; subst. cbn [Close.okp]. apply okp_msub.
    + rewrite dom_closing, app_nil_r. exact Oa.
    + apply IHsa. exact Wsa.
  - eapply IHin; eauto.
Qed.

Lemma closing_dom_param : forall sc : scope, wss sc = true ->
  forall y t, lookup y (closing sc) = Some t -> isparam y = true.
Proof.
  induction sc as [|x a sa IHsa inner IHin]; intros W y t L; cbn in *; [discriminate|].
  apply andb_true_iff in W. destruct W as [W Win].
  apply andb_true_iff in W. destruct W as [W Wsa].
  apply andb_true_iff in W. destruct W as [Px Oa].
  destruct (ident_eqb y x) eqn:E.
  - apply ident_eqb_eq in E. subst. exact Px.
  - eapply IHin; eauto.
Qed.

Lemma okp_close : forall sc (e : expr), wss sc = true -> okp (dom sc) e = true -> okp [] (close sc e) = true.
Proof.
  intros sc e W O. unfold close. apply okp_msub.
  - rewrite dom_closing, app_nil_r. exact O.
  - apply closing_ranges. exact W.
Qed.

Lemma scope_find_closing : forall x (sc : scope),
  match scope_find x sc with
  | Some (a, sa) => lookup x (closing sc) = Some (EParens (close sa a))
  | None => lookup x (closing sc) = None
  end.
Proof.
  intros x sc. induction sc as [|y a sa _ inner IH]; cbn; [reflexivity|].
  destruct (ident_eqb x y); [reflexivity | exact IH].
Qed.

(* composition: the head binding can be applied after the rest *)
Lemma msub_cons : forall (b : expr) p t (th : sub),
  isparam p = true ->
  (forall y u, lookup y th = Some u -> okp [] u = true) ->
  msub ((p, t) :: th) b = msub [(p, t)] (msub (remove p th) b).
Proof.
  induction b; intros p t th Pp R; cbn [msub]; try reflexivity;
    try (f_equal; eauto; fail).
  - cbn [lookup]. destruct (ident_eqb x p) eqn:E.
    + apply ident_eqb_eq in E. subst x. rewrite lookup_remove_same. cbn [msub lookup].
      rewrite ident_eqb_refl. reflexivity.
    + rewrite lookup_remove_other by exact E.
      destruct (lookup x th) as [u|] eqn:L.
      * symmetry. eapply msub_id; [eapply R; exact L|].
        intros y t0 K. cbn [lookup] in K. destruct (ident_eqb y p) eqn:F; [|discriminate].
        apply ident_eqb_eq in F. subst y. split; [exact Pp | reflexivity].
      * cbn [msub lookup]. rewrite E. reflexivity.
  - cbn [remove]. destruct (ident_eqb x p) eqn:E.
    + apply ident_eqb_eq in E. subst x.
      rewrite remove_remove_same, msub_nil. reflexivity.
    + f_equal.
      rewrite (remove_comm x p). apply IHb; [exact Pp|].
      intros y u L. destruct (ident_eqb y x) eqn:F.
      * apply ident_eqb_eq in F. subst y. rewrite lookup_remove_same in L. discriminate.
      * rewrite lookup_remove_other in L by exact F. eapply R; exact L.
Qed.

(* removing a name that does not occur changes nothing *)
Lemma msub_remove_absent : forall (a : expr) y (th : sub),
  inb y (idents a) = false -> msub (remove y th) a = msub th a.
Proof.
  induction a; intros y th H; cbn [msub idents] in *; try reflexivity;
    try (rewrite inb_app in H; apply orb_false_iff in H; destruct H as [H1 H2]; f_equal; eauto; fail);
    try (f_equal; eauto; fail).
  - unfold inb in H. cbn [existsb] in H. rewrite orb_false_r in H.
    rewrite lookup_remove_other; [reflexivity|]. rewrite ident_eqb_sym. exact H.
  - f_equal. rewrite remove_comm. apply IHa. exact H.
Qed.

(* closing commutes with substituting the parenthesised argument, when no
   binder on the way captures a name of the argument *)
Lemma close_subst : forall (b : expr) x (a : expr) (th : sub),
  capture_free x (idents a) b = true ->
  msub th (msub [(x, EParens a)] b) = msub ((x, EParens (msub th a)) :: th) b.
Proof.
  induction b; intros y a th C; cbn [msub capture_free] in *; try reflexivity;
    try (apply andb_true_iff in C; destruct C as [C1 C2]; f_equal; eauto; fail);
    try (f_equal; eauto; fail).
  - cbn [lookup]. destruct (ident_eqb x y); reflexivity.
  - cbn [remove]. rewrite (ident_eqb_sym x y). destruct (ident_eqb y x) eqn:E.
    + cbn [msub]. rewrite msub_nil. reflexivity.
    + cbn [orb] in C. apply andb_true_iff in C. destruct C as [C1 C2].
      apply negb_true_iff in C1. cbn [msub]. f_equal.
      rewrite IHb by exact C2. rewrite msub_remove_absent by exact C1. reflexivity.
Qed.

End CloseAlgebra.

(* ------------------------------------------------------------------ *)
(* the evaluator preserves well-scopedness *)

Section Lockstep.

Variable num : Type.
Variable num_un : unop -> num -> option num.
Variable num_bop : bop -> num -> num -> option num.
Variable builtin : ident -> option (ident + num).
Variable builtin_apply : ident -> num -> option num.
Variable unit_of : ident -> option num.
Variable unit_static : ident -> option num.
Variable isparam : ident -> bool.
Variable assignable : ident -> bool.

(* the evaluator itself introduces the parameter x (wrap_with_expr); names
   of built-in functions are not parameter names; no unit is called a_b with
   a or b a parameter name *)
Hypothesis Hx : isparam id_x = true.
Hypothesis Hbuiltin : forall x g, builtin x = Some (inl g) -> isparam g = false.
Hypothesis Hunit : forall a b, isparam a = true \/ isparam b = true -> unit_static (underscore_join a b) = None.

Notation expr := (expr num).
Notation scope := (scope num).
Notation value := (value num).
Notation state := (state num).
Notation M := (M num).
Notation okp := (okp isparam assignable).
Notation wss := (wss isparam assignable).
Notation wsv := (wsv isparam assignable).
Notation wsvars := (wsvars isparam assignable).
Notation eval := (Calc.eval num num_un num_bop builtin builtin_apply unit_of unit_static).
Notation eval_node := (Calc.eval_node num num_un num_bop builtin builtin_apply unit_of unit_static).
Notation resolve := (Calc.resolve num builtin unit_of).
Notation vapply := (Calc.apply num num_bop builtin_apply).
Notation handle_num := (Calc.handle_num num).
Notation handle_two_nums := (Calc.handle_two_nums num num_bop).
Notation lookup_static := (Calc.lookup_static num builtin unit_of).
Notation builtin_value := (Calc.builtin_value num builtin).

Definition WFst (st : state) : Prop := wsvars (s_vars st) = true.

Definition Pres {A} (m : M A) (Q : A -> Prop) : Prop :=
  forall st, WFst st -> WFst (fst (m st)) /\ (forall a, snd (m st) = Good a -> Q a).

Definition okv (v : value) : Prop := wsv v = true.

Lemma Pres_ret : forall A (a : A) (Q : A -> Prop), Q a -> Pres (ret a) Q.
Proof. intros A a Q H st W. cbn. split; [exact W|]. intros a0 E. inversion E; subst. exact H. Qed.

Lemma Pres_fail : forall A e (Q : A -> Prop), Pres (@fail num A e) Q.
Proof. intros A e Q st W. cbn. split; [exact W|]. intros a E. discriminate. Qed.

Lemma Pres_lift : forall A (o : option A) (Q : A -> Prop), (forall a, o = Some a -> Q a) -> Pres (lift o) Q.
Proof. intros A [a|] Q H; [apply Pres_ret; auto | apply Pres_fail]. Qed.

Lemma Pres_bind : forall A R (m : M A) (f : A -> M R) (Q : A -> Prop) (Q' : R -> Prop),
  Pres m Q -> (forall a, Q a -> Pres (f a) Q') -> Pres (mbind m f) Q'.
Proof.
  intros A R m f Q Q' Hm Hf st W. unfold mbind.
  destruct (Hm st W) as [W1 Q1]. destruct (m st) as [s1 [a|e]]; cbn [fst snd] in *.
  - apply Hf; auto.
  - split; [exact W1|]. intros a E. discriminate.
Qed.

Lemma Pres_weaken : forall A (m : M A) (Q Q' : A -> Prop), (forall a, Q a -> Q' a) -> Pres m Q -> Pres m Q'.
Proof. intros A m Q Q' H Hm st W. destruct (Hm st W) as [W1 Q1]. split; auto. Qed.

Lemma Pres_tick : forall fire, Pres (tick fire) (fun _ => True).
Proof.
  intros fire st W. unfold tick. destruct (fires fire (s_polls st)); cbn; split; auto; intros; discriminate.
Qed.

Lemma wsvars_get : forall x (vs : vars num) v, wsvars vs = true -> get_var x vs = Some v -> wsv v = true.
Proof.
  intros x vs v. induction vs as [|[y w] r IH]; cbn; [discriminate|].
  intro W. apply andb_true_iff in W. destruct W as [W1 W2].
  destruct (ident_eqb x y); [intro E; inversion E; subst; exact W1 | auto].
Qed.

Lemma wsvars_remove : forall x (vs : vars num), wsvars vs = true -> wsvars (remove_var x vs) = true.
Proof.
  intros x vs. induction vs as [|[y w] r IH]; cbn; [auto|].
  intro W. apply andb_true_iff in W. destruct W as [W1 W2].
  destruct (ident_eqb x y); [auto|]. cbn. rewrite W1. cbn. auto.
Qed.

Lemma wsvars_set : forall x v (vs : vars num), wsv v = true -> wsvars vs = true -> wsvars (set_var x v vs) = true.
Proof. intros. cbn. rewrite H. cbn. apply wsvars_remove. assumption. Qed.

Lemma Pres_read_var : forall x, Pres (read_var x) (fun ov => match ov with Some v => okv v | None => True end).
Proof.
  intros x st W. cbn. split; [exact W|]. intros a E. inversion E; subst.
  destruct (get_var x (s_vars st)) eqn:G; [|exact I]. eapply wsvars_get; eauto.
Qed.

Lemma Pres_assign : forall x v, okv v -> Pres (do_event (LAssign x v)) (fun _ => True).
Proof.
  intros x v H st W. cbn. split; [|auto]. unfold WFst. cbn. apply wsvars_set; assumption.
Qed.

(* closures built by arithmetic on functions *)
Definition lz_ok (lz : expr -> expr) : Prop :=
  (forall bd e, okp bd e = true -> okp bd (lz e) = true)
  /\ (forall th e, msub th (lz e) = lz (msub th e)).

Lemma lz_un : forall u, lz_ok (EUn u).
Proof. intro u. split; intros; reflexivity || assumption. Qed.
Lemma lz_bop_l : forall op (n : num), lz_ok (fun f => EBop op f (ELit n)).
Proof. intros. split; intros; cbn; [rewrite H|]; reflexivity. Qed.
Lemma lz_bop_r : forall op (n : num), lz_ok (fun f => EBop op (ELit n) f).
Proof. intros. split; intros; cbn; [rewrite H|]; reflexivity. Qed.

Lemma wrap_builtin_ok : forall g lz sc,
  isparam g = false -> lz_ok lz -> wss sc = true -> okv (wrap_builtin num g lz sc).
Proof.
  intros g lz sc Hg [L1 _] W. unfold okv, wrap_builtin. cbn [Close.wsv].
  rewrite Hx, W. cbn [andb]. rewrite andb_true_r. apply L1. cbn [Close.okp].
  rewrite Hg. cbn [negb orb andb]. apply orb_true_iff. right.
  unfold inb. cbn [existsb]. rewrite ident_eqb_refl. reflexivity.
Qed.

Lemma Pres_handle_num : forall v f lz sc,
  okv v -> lz_ok lz -> wss sc = true -> Pres (handle_num v f lz sc) okv.
Proof.
  intros v f lz sc Hv Hlz W. destruct v; cbn [Calc.handle_num].
  - eapply Pres_bind; [apply Pres_lift; intros; exact I|]. intros. apply Pres_ret. reflexivity.
  - apply Pres_fail.
  - apply Pres_ret. unfold okv in *. cbn [Close.wsv] in *.
    apply andb_true_iff in Hv. destruct Hv as [Hv W2]. apply andb_true_iff in Hv. destruct Hv as [P O].
    rewrite P, W2. cbn. rewrite andb_true_r. apply Hlz. exact O.
  - apply Pres_ret. apply wrap_builtin_ok; auto. unfold okv in Hv. cbn in Hv. apply negb_true_iff in Hv. exact Hv.
Qed.

Lemma okv_fn_lz : forall p body fsc lz, okv (VFn p body fsc) -> lz_ok lz -> okv (VFn p (lz body) fsc).
Proof.
  intros p body fsc lz Hv Hlz. unfold okv in *. cbn [Close.wsv] in *.
  apply andb_true_iff in Hv. destruct Hv as [Hv W2]. apply andb_true_iff in Hv. destruct Hv as [P O].
  rewrite P, W2. cbn. rewrite andb_true_r. apply Hlz. exact O.
Qed.

Lemma Pres_handle_two_nums : forall a b op sc,
  okv a -> okv b -> wss sc = true -> Pres (handle_two_nums a b op sc) okv.
Proof.
  intros a b op sc Ha Hb W. destruct a, b; cbn [Calc.handle_two_nums]; try apply Pres_fail.
  - eapply Pres_bind; [apply Pres_lift; intros; exact I|]. intros. apply Pres_ret. reflexivity.
  - apply Pres_ret. apply (okv_fn_lz _ _ _ (fun f => EBop op (ELit n) f)); [exact Hb | apply lz_bop_r].
  - apply Pres_ret. apply wrap_builtin_ok; auto; [|apply lz_bop_r].
    unfold okv in Hb. cbn in Hb. apply negb_true_iff in Hb. exact Hb.
  - apply Pres_ret. apply (okv_fn_lz _ _ _ (fun f => EBop op f (ELit n))); [exact Ha | apply lz_bop_l].
  - apply Pres_ret. apply wrap_builtin_ok; auto; [|apply lz_bop_l].
    unfold okv in Ha. cbn in Ha. apply negb_true_iff in Ha. exact Ha.
Qed.

Lemma scope_find_ws : forall x (sc : scope) a sa,
  wss sc = true -> scope_find x sc = Some (a, sa) -> okp (dom sa) a = true /\ wss sa = true.
Proof.
  intros x sc. induction sc as [|y b sb _ inner IH]; intros a sa W F; cbn in *; [discriminate|].
  apply andb_true_iff in W. destruct W as [W Win].
  apply andb_true_iff in W. destruct W as [W Wsb].
  apply andb_true_iff in W. destruct W as [Py Ob].
  destruct (ident_eqb x y); [inversion F; subst; auto | eauto].
Qed.

Lemma builtin_value_ok : forall x v, builtin_value x = Some v -> okv v.
Proof.
  intros x v. unfold Calc.builtin_value. destruct (builtin x) as [[g|n]|] eqn:E; intro H; inversion H; subst.
  - unfold okv. cbn. rewrite (Hbuiltin _ _ E). reflexivity.
  - reflexivity.
Qed.

Lemma lookup_static_ok : forall x v, lookup_static x = Some v -> okv v.
Proof.
  intros x v. unfold Calc.lookup_static. destruct (builtin_value x) eqn:E.
  - intro H. inversion H; subst. eapply builtin_value_ok; eauto.
  - destruct (unit_of x); intro H; inversion H; subst. reflexivity.
Qed.

Section PresNode.
  Variable ev : expr -> scope -> M value.
  Hypothesis Hev : forall e sc, okp (dom sc) e = true -> wss sc = true -> Pres (ev e sc) okv.

  Lemma Pres_resolve : forall x sc, wss sc = true -> Pres (resolve ev x sc) okv.
  Proof.
    intros x sc W. unfold Calc.resolve.
    destruct (scope_find x sc) as [[a sa]|] eqn:F.
    - destruct (scope_find_ws _ _ _ _ W F). apply Hev; assumption.
    - eapply Pres_bind; [apply Pres_read_var|]. intros [v|] Hv; [apply Pres_ret; exact Hv|].
      destruct (lookup_static x) eqn:L; [apply Pres_ret; eapply lookup_static_ok; eauto|].
      destruct (all_upper_or_digit x); [|apply Pres_fail].
      destruct (builtin_value (to_lower x)) eqn:Bv; [apply Pres_ret; eapply builtin_value_ok; eauto | apply Pres_fail].
  Qed.

  Lemma Pres_apply : forall f arg m sc,
    okv f -> okp (dom sc) arg = true -> wss sc = true -> Pres (vapply ev f arg m sc) okv.
  Proof.
    intros f arg m sc Hf Ha W. destruct f; cbn [Calc.apply].
    - eapply Pres_bind; [apply Hev; assumption|]. intros other Ho.
      destruct m; [apply Pres_fail|]. apply Pres_handle_num; auto. apply lz_bop_r.
    - apply Pres_fail.
    - unfold okv in Hf. cbn [Close.wsv] in Hf.
      apply andb_true_iff in Hf. destruct Hf as [Hf W2]. apply andb_true_iff in Hf. destruct Hf as [P O].
      apply Hev; cbn [dom Close.wss]; [exact O|]. rewrite P, Ha, W, W2. reflexivity.
    - eapply Pres_bind; [apply Hev; assumption|]. intros [n| | |] _; try apply Pres_fail.
      eapply Pres_bind; [apply Pres_lift; intros; exact I|]. intros. apply Pres_ret. reflexivity.
  Qed.

  Lemma Pres_eval_node : forall e sc, okp (dom sc) e = true -> wss sc = true -> Pres (eval_node ev e sc) okv.
  Proof.
    intros e sc O W. destruct e; cbn [Calc.eval_node]; cbn [Close.okp] in O.
    - apply Pres_ret. reflexivity.
    - apply Pres_ret. reflexivity.
    - apply Pres_resolve. exact W.
    - apply Hev; assumption.
    - eapply Pres_bind; [apply Hev; assumption|]. intros v Hv. apply Pres_handle_num; auto. apply lz_un.
    - apply andb_true_iff in O. destruct O as [O1 O2].
      destruct op.
      + eapply Pres_bind; [apply Hev; assumption|]. intros va Ha.
        eapply Pres_bind; [apply Hev; assumption|]. intros vb Hb. apply Pres_handle_two_nums; auto.
      + eapply Pres_bind; [apply Hev; assumption|]. intros [x| | |] Ha.
        * eapply Pres_bind; [apply Hev; assumption|]. intros [y| | |] _; try apply Pres_fail.
          eapply Pres_bind; [apply Pres_lift; intros; exact I|]. intros. apply Pres_ret. reflexivity.
        * apply Pres_fail.
        * apply Pres_apply; auto.
        * apply Pres_apply; auto.
      + eapply Pres_bind; [apply Hev; assumption|]. intros va Ha.
        eapply Pres_bind; [apply Hev; assumption|]. intros vb Hb. apply Pres_handle_two_nums; auto.
      + eapply Pres_bind; [apply Hev; assumption|]. intros va Ha.
        eapply Pres_bind; [apply Hev; assumption|]. intros vb Hb. apply Pres_handle_two_nums; auto.
    - apply andb_true_iff in O. destruct O as [O1 O2].
      match goal with |- Pres (match ?o with _ => _ end) _ => destruct o end; [apply Pres_ret; reflexivity|].
      eapply Pres_bind; [apply Hev; assumption|]. intros va Ha. apply Pres_apply; auto.
    - apply andb_true_iff in O. destruct O as [O1 O2].
      eapply Pres_bind; [apply Hev; assumption|]. intros va Ha. apply Pres_apply; auto.
    - apply andb_true_iff in O. destruct O as [O1 O2].
      match goal with |- Pres (match ?o with _ => _ end) _ => destruct o end; [apply Pres_ret; reflexivity|].
      eapply Pres_bind; [apply Hev; assumption|]. intros va Ha. apply Pres_apply; auto.
    - apply andb_true_iff in O. destruct O as [P O].
      apply Pres_ret. unfold okv. cbn [Close.wsv]. rewrite P, O, W. reflexivity.
    - apply andb_true_iff in O. destruct O as [_ O].
      eapply Pres_bind; [apply Hev; assumption|]. intros v Hv.
      eapply Pres_bind; [apply Pres_assign; exact Hv|]. intros. apply Pres_ret. exact Hv.
    - apply andb_true_iff in O. destruct O as [O1 O2].
      eapply Pres_bind; [apply Hev; assumption|]. intros _ _. apply Hev; assumption.
  Qed.
End PresNode.

Lemma Pres_eval : forall fire f e sc, okp (dom sc) e = true -> wss sc = true -> Pres (eval fire f e sc) okv.
Proof.
  intros fire f. induction f as [|f IH]; intros e sc O W.
  - apply Pres_fail.
  - rewrite eval_S. eapply Pres_bind; [apply Pres_tick|]. intros _ _.
    apply Pres_eval_node; assumption.
Qed.


(* ------------------------------------------------------------------ *)
(* lockstep: configurations with the same closed form evaluate alike *)

Definition RV (v1 v2 : value) : Prop := nv v1 = nv v2.

Definition Rel2 {A} (RA : A -> A -> Prop) (m1 m2 : M A) : Prop :=
  forall st1 st2, WFst st1 -> WFst st2 -> nst st1 = nst st2 ->
    nst (fst (m1 st1)) = nst (fst (m2 st2))
    /\ match snd (m1 st1), snd (m2 st2) with
       | Good a1, Good a2 => RA a1 a2
       | Bad e1, Bad e2 => e1 = e2
       | _, _ => False
       end.

Lemma Rel2_ret : forall A (RA : A -> A -> Prop) a1 a2, RA a1 a2 -> Rel2 RA (ret a1) (ret a2).
Proof. intros A RA a1 a2 H st1 st2 _ _ E. cbn. auto. Qed.

Lemma Rel2_fail : forall A (RA : A -> A -> Prop) e, Rel2 RA (@fail num A e) (fail e).
Proof. intros A RA e st1 st2 _ _ E. cbn. auto. Qed.

Lemma Rel2_lift : forall A (RA : A -> A -> Prop) (o : option A), (forall a, RA a a) -> Rel2 RA (lift o) (lift o).
Proof. intros A RA [a|] H; [apply Rel2_ret; auto | apply Rel2_fail]. Qed.

Lemma Rel2_bind : forall A R (RA : A -> A -> Prop) (RB : R -> R -> Prop) (Q1 Q2 : A -> Prop)
  (m1 m2 : M A) (f1 f2 : A -> M R),
  Rel2 RA m1 m2 -> Pres m1 Q1 -> Pres m2 Q2 ->
  (forall a1 a2, RA a1 a2 -> Q1 a1 -> Q2 a2 -> Rel2 RB (f1 a1) (f2 a2)) ->
  Rel2 RB (mbind m1 f1) (mbind m2 f2).
Proof.
  intros A R RA RB Q1 Q2 m1 m2 f1 f2 Hr Hp1 Hp2 Hf st1 st2 W1 W2 E. unfold mbind.
  destruct (Hr st1 st2 W1 W2 E) as [E' O].
  destruct (Hp1 st1 W1) as [W1' P1]. destruct (Hp2 st2 W2) as [W2' P2].
  destruct (m1 st1) as [s1 [a1|e1]], (m2 st2) as [s2 [a2|e2]]; cbn [fst snd] in *; try contradiction.
  - apply Hf; auto.
  - auto.
Qed.

Lemma nst_polls : forall st1 st2 : state, nst st1 = nst st2 -> s_polls st1 = s_polls st2.
Proof. intros st1 st2 E. unfold nst in E. inversion E. reflexivity. Qed.

Lemma Rel2_tick : forall fire, Rel2 (fun _ _ => True) (tick fire) (tick fire).
Proof.
  intros fire st1 st2 _ _ E. unfold tick. rewrite (nst_polls _ _ E).
  assert (nst (mkS (s_vars st1) (s_polls st2 + 1) (s_log st1)) = nst (mkS (s_vars st2) (s_polls st2 + 1) (s_log st2))) as E'.
  { unfold nst in *. cbn [s_vars s_polls s_log] in *. inversion E. congruence. }
  destruct (fires fire (s_polls st2)); cbn [fst snd]; auto.
Qed.

Lemma nvs_get : forall x (vs : vars num), get_var x (nvs vs) = option_map nv (get_var x vs).
Proof.
  intros x vs. induction vs as [|[y w] r IH]; cbn; [reflexivity|].
  destruct (ident_eqb x y); [reflexivity | exact IH].
Qed.

Lemma nvs_remove : forall x (vs : vars num), nvs (remove_var x vs) = remove_var x (nvs vs).
Proof.
  intros x vs. induction vs as [|[y w] r IH]; cbn; [reflexivity|].
  destruct (ident_eqb x y); [exact IH|]. cbn. f_equal. exact IH.
Qed.

Lemma nvs_set : forall x v (vs : vars num), nvs (set_var x v vs) = set_var x (nv v) (nvs vs).
Proof. intros. unfold set_var. cbn [nvs map fst snd]. f_equal. apply nvs_remove. Qed.

Lemma Rel2_read_var : forall x,
  Rel2 (fun o1 o2 => option_map nv o1 = option_map nv o2) (read_var x) (read_var x).
Proof.
  intros x st1 st2 _ _ E. cbn. split; [exact E|].
  rewrite <- !nvs_get. unfold nst in E. inversion E. congruence.
Qed.

Lemma Rel2_assign : forall x v1 v2, RV v1 v2 ->
  Rel2 (fun _ _ => True) (do_event (LAssign x v1)) (do_event (LAssign x v2)).
Proof.
  intros x v1 v2 H st1 st2 _ _ E. cbn. split; [|exact I].
  unfold nst in *. cbn [s_vars s_polls s_log apply_event] in *. inversion E.
  rewrite !nvs_set, !map_app. cbn [map nev]. unfold RV in H. congruence.
Qed.

(* closed form of a wrapped built-in: nothing to substitute *)
Lemma nv_wrap_builtin : forall g lz sc,
  isparam g = false -> lz_ok lz -> wss sc = true ->
  nv (wrap_builtin num g lz sc) = VFn id_x (lz (EApplyFn (EIdent g) (EIdent id_x))) SNil.
Proof.
  intros g lz sc Hg [_ L2] W. unfold wrap_builtin. cbn [nv]. f_equal.
  rewrite L2. f_equal. cbn [msub]. rewrite lookup_remove_same.
  destruct (lookup g (remove id_x (closing sc))) as [t|] eqn:L; [|reflexivity].
  exfalso. destruct (ident_eqb g id_x) eqn:E.
  - apply ident_eqb_eq in E. subst g. rewrite lookup_remove_same in L. discriminate.
  - rewrite lookup_remove_other in L by exact E.
    pose proof (closing_dom_param num isparam assignable sc W _ _ L) as P. congruence.
Qed.

Lemma RV_fn_lz : forall p b1 c1 b2 c2 lz, lz_ok lz ->
  RV (VFn p b1 c1) (VFn p b2 c2) -> RV (VFn p (lz b1) c1) (VFn p (lz b2) c2).
Proof.
  intros p b1 c1 b2 c2 lz [_ L2] H. unfold RV in *. cbn [nv] in *. inversion H as [H1].
  rewrite !L2, H1. reflexivity.
Qed.

Lemma RV_shape : forall v1 v2, RV v1 v2 ->
  match v1, v2 with
  | VNum a, VNum b => a = b
  | VUnit, VUnit => True
  | VFn p _ _, VFn q _ _ => p = q
  | VBuiltin g, VBuiltin h => g = h
  | _, _ => False
  end.
Proof. intros [a| |p b c|g] [a'| |p' b' c'|g'] H; unfold RV in H; cbn in H; inversion H; auto. Qed.

Lemma Rel2_handle_num : forall v1 v2 f lz s1 s2,
  RV v1 v2 -> okv v1 -> okv v2 -> lz_ok lz -> wss s1 = true -> wss s2 = true ->
  Rel2 RV (handle_num v1 f lz s1) (handle_num v2 f lz s2).
Proof.
  intros v1 v2 f lz s1 s2 H O1 O2 L W1 W2. pose proof (RV_shape _ _ H) as S.
  destruct v1, v2; try contradiction; cbn [Calc.handle_num].
  - subst. eapply Rel2_bind; [apply Rel2_lift; intros; reflexivity | apply Pres_lift; intros; exact I | apply Pres_lift; intros; exact I |].
    intros a1 a2 Ea _ _. subst. apply Rel2_ret. reflexivity.
  - apply Rel2_fail.
  - subst. apply Rel2_ret. apply RV_fn_lz; assumption.
  - subst. apply Rel2_ret. unfold RV.
    unfold okv in O1, O2. cbn in O1, O2. apply negb_true_iff in O1.
    rewrite !nv_wrap_builtin by assumption. reflexivity.
Qed.

Lemma Rel2_handle_two_nums : forall a1 a2 b1 b2 op s1 s2,
  RV a1 a2 -> RV b1 b2 -> okv a1 -> okv a2 -> okv b1 -> okv b2 -> wss s1 = true -> wss s2 = true ->
  Rel2 RV (handle_two_nums a1 b1 op s1) (handle_two_nums a2 b2 op s2).
Proof.
  intros a1 a2 b1 b2 op s1 s2 Ha Hb Oa1 Oa2 Ob1 Ob2 W1 W2.
  pose proof (RV_shape _ _ Ha) as Sa. pose proof (RV_shape _ _ Hb) as Sb.
  destruct a1, a2; try contradiction; destruct b1, b2; try contradiction; cbn [Calc.handle_two_nums];
    subst; try apply Rel2_fail.
  - eapply Rel2_bind; [apply Rel2_lift; intros; reflexivity | apply Pres_lift; intros; exact I | apply Pres_lift; intros; exact I |].
    intros x1 x2 Ex _ _. subst. apply Rel2_ret. reflexivity.
  - apply Rel2_ret. apply (RV_fn_lz _ _ _ _ _ (fun f => EBop op (ELit n0) f)); [apply lz_bop_r | exact Hb].
  - apply Rel2_ret. unfold RV. unfold okv in Ob1. cbn in Ob1. apply negb_true_iff in Ob1.
    rewrite !nv_wrap_builtin; auto; apply lz_bop_r.
  - apply Rel2_ret. apply (RV_fn_lz _ _ _ _ _ (fun f => EBop op f (ELit n0))); [apply lz_bop_l | exact Ha].
  - apply Rel2_ret. unfold RV. unfold okv in Oa1. cbn in Oa1. apply negb_true_iff in Oa1.
    rewrite !nv_wrap_builtin; auto; apply lz_bop_l.
Qed.

(* a use of a bound parameter is the parenthesised argument in its scope *)
Lemma eval_ident_bound : forall fire f x sc a sa st,
  scope_find x sc = Some (a, sa) ->
  eval fire (S f) (EIdent x) sc st = eval fire (S f) (EParens a) sa st.
Proof.
  intros. rewrite !eval_S. apply mbind_ext. intros [] s1.
  cbn [Calc.eval_node]. unfold Calc.resolve. rewrite H. reflexivity.
Qed.

Definition config_ok (e : expr) (sc : scope) : Prop := okp (dom sc) e = true /\ wss sc = true.

(* head-normal: not a scope-bound identifier *)
Definition hn (e : expr) (sc : scope) : Prop :=
  match e with EIdent x => scope_find x sc = None | _ => True end.

Lemma close_ident_unbound : forall x (sc : scope), scope_find x sc = None -> close sc (EIdent x) = EIdent x.
Proof.
  intros x sc H. unfold close. cbn [msub]. pose proof (scope_find_closing num x sc) as K.
  rewrite H in K. rewrite K. reflexivity.
Qed.

Lemma close_fn_body : forall p (b : expr) arg s c,
  isparam p = true -> wss c = true -> okp (dom s) arg = true -> wss s = true ->
  close (SCons p arg s c) b = msub [(p, EParens (close s arg))] (msub (remove p (closing c)) b).
Proof.
  intros. unfold close. cbn [closing]. apply (msub_cons num isparam assignable); [assumption|].
  apply (closing_ranges num isparam assignable). assumption.
Qed.

Section RelNode.
  Variable fire : option N.
  Variable f : nat.
  Hypothesis IH : forall e1 s1 e2 s2, config_ok e1 s1 -> config_ok e2 s2 ->
    close s1 e1 = close s2 e2 -> Rel2 RV (eval fire f e1 s1) (eval fire f e2 s2).

  Lemma IHP : forall e sc, config_ok e sc -> Pres (eval fire f e sc) okv.
  Proof. intros e sc [O W]. apply Pres_eval; assumption. Qed.

  Lemma Rel2_apply : forall v1 v2 a1 a2 m s1 s2,
    RV v1 v2 -> okv v1 -> okv v2 -> config_ok a1 s1 -> config_ok a2 s2 -> close s1 a1 = close s2 a2 ->
    Rel2 RV (vapply (eval fire f) v1 a1 m s1) (vapply (eval fire f) v2 a2 m s2).
  Proof.
    intros v1 v2 a1 a2 m s1 s2 H O1 O2 C1 C2 E. pose proof (RV_shape _ _ H) as S.
    destruct v1, v2; try contradiction; cbn [Calc.apply]; subst.
    - eapply Rel2_bind; [apply IH; eassumption | apply IHP; assumption | apply IHP; assumption|].
      intros o1 o2 Ro Q1 Q2. destruct m; [apply Rel2_fail|].
      destruct C1, C2. apply Rel2_handle_num; auto. apply lz_bop_r.
    - apply Rel2_fail.
    - (* closures with the same closed body: the bodies run in lockstep *)
      unfold okv in O1, O2. cbn [Close.wsv] in O1, O2.
      apply andb_true_iff in O1. destruct O1 as [O1 Wc1]. apply andb_true_iff in O1. destruct O1 as [P1 B1].
      apply andb_true_iff in O2. destruct O2 as [O2 Wc2]. apply andb_true_iff in O2. destruct O2 as [P2 B2].
      destruct C1 as [A1 W1], C2 as [A2 W2].
      apply IH.
      + split; cbn [dom Close.wss]; [exact B1|]. rewrite P1, A1, W1, Wc1. reflexivity.
      + split; cbn [dom Close.wss]; [exact B2|]. rewrite P2, A2, W2, Wc2. reflexivity.
      + rewrite !close_fn_body by assumption. unfold RV in H. cbn [nv] in H. inversion H as [Hb].
        rewrite Hb, E. reflexivity.
    - eapply Rel2_bind; [apply IH; eassumption | apply IHP; assumption | apply IHP; assumption|].
      intros o1 o2 Ro Q1 Q2. pose proof (RV_shape _ _ Ro) as So.
      destruct o1, o2; try contradiction; try apply Rel2_fail. subst.
      eapply Rel2_bind; [apply Rel2_lift; intros; reflexivity | apply Pres_lift; intros; exact I | apply Pres_lift; intros; exact I |].
      intros x1 x2 Ex _ _. subst. apply Rel2_ret. reflexivity.
  Qed.

  Lemma Rel2_resolve_unbound : forall x s1 s2,
    scope_find x s1 = None -> scope_find x s2 = None ->
    Rel2 RV (resolve (eval fire f) x s1) (resolve (eval fire f) x s2).
  Proof.
    intros x s1 s2 F1 F2. unfold Calc.resolve. rewrite F1, F2.
    eapply Rel2_bind; [apply Rel2_read_var | apply Pres_read_var | apply Pres_read_var |].
    intros o1 o2 Ro Q1 Q2. destruct o1 as [v1|], o2 as [v2|]; cbn in Ro; try discriminate.
    - apply Rel2_ret. unfold RV. congruence.
    - destruct (lookup_static x); [apply Rel2_ret; reflexivity|].
      destruct (all_upper_or_digit x); [|apply Rel2_fail].
      destruct (builtin_value (to_lower x)); [apply Rel2_ret; reflexivity | apply Rel2_fail].
  Qed.

  Lemma unit_check_same : forall (a1 b1 a2 b2 : expr) s1 s2,
    config_ok a1 s1 -> config_ok b1 s1 -> config_ok a2 s2 -> config_ok b2 s2 ->
    close s1 a1 = close s2 a2 -> close s1 b1 = close s2 b2 ->
    (match a1, b1 with EIdent x, EIdent y => unit_static (underscore_join x y) | _, _ => None end)
    = (match a2, b2 with EIdent x, EIdent y => unit_static (underscore_join x y) | _, _ => None end).
  Proof.
    intros a1 b1 a2 b2 s1 s2 Ca1 Cb1 Ca2 Cb2 Ea Eb.
    (* a side that has two identifiers with a parameter name among them gives None;
       a global identifier closes to itself, and only an identifier closes to an identifier *)
    assert (forall (e : expr) sc x, config_ok e sc -> e = EIdent x -> isparam x = false -> close sc e = EIdent x) as G.
    { intros e sc x [O W] -> Px. unfold close. cbn [msub].
      destruct (lookup x (closing sc)) as [t|] eqn:L; [|reflexivity].
      pose proof (closing_dom_param num isparam assignable sc W _ _ L). congruence. }
    assert (forall (e : expr) sc x, close sc e = EIdent x -> e = EIdent x) as Inv.
    { intros e sc x. unfold close. destruct e; cbn [msub]; try discriminate.
      destruct (lookup x0 (closing sc)) as [t|] eqn:L.
      - pose proof (scope_find_closing num x0 sc) as K.
        destruct (scope_find x0 sc) as [[a sa]|]; rewrite K in L; [|discriminate].
        inversion L; subst. discriminate.
      - auto. }
    assert (forall (a b : expr), (exists x y, a = EIdent x /\ b = EIdent y /\ isparam x = false /\ isparam y = false)
        \/ (match a, b with EIdent x, EIdent y => unit_static (underscore_join x y) | _, _ => None end) = None) as Cases.
    { intros a b. destruct a; auto. destruct b; auto.
      destruct (isparam x) eqn:Px; [right; apply Hunit; auto|].
      destruct (isparam x0) eqn:Py; [right; apply Hunit; auto|].
      left. exists x, x0. auto. }
    destruct (Cases a1 b1) as [(x & y & -> & -> & Px & Py) | N1].
    - rewrite (G _ _ _ Ca1 eq_refl Px) in Ea. rewrite (G _ _ _ Cb1 eq_refl Py) in Eb.
      symmetry in Ea, Eb. apply Inv in Ea. apply Inv in Eb. subst. reflexivity.
    - rewrite N1. destruct (Cases a2 b2) as [(x & y & -> & -> & Px & Py) | N2]; [|rewrite N2; reflexivity].
      rewrite (G _ _ _ Ca2 eq_refl Px) in Ea. rewrite (G _ _ _ Cb2 eq_refl Py) in Eb.
      apply Inv in Ea. apply Inv in Eb. subst. symmetry. exact N1.
  Qed.

  Lemma ok_un : forall (a : expr) sc u, config_ok (EUn u a) sc -> config_ok a sc.
  Proof. intros a sc u [O W]. split; assumption. Qed.
  Lemma ok_par : forall (a : expr) sc, config_ok (EParens a) sc -> config_ok a sc.
  Proof. intros a sc [O W]. split; assumption. Qed.
  Lemma ok_assign : forall (a : expr) sc x, config_ok (EAssign x a) sc -> config_ok a sc.
  Proof.
    intros a sc x [O W]. cbn [Close.okp] in O. apply andb_true_iff in O. destruct O. split; assumption.
  Qed.
  Lemma ok_assignable : forall (a : expr) sc x, config_ok (EAssign x a) sc -> assignable x = true.
  Proof. intros a sc x [O W]. cbn [Close.okp] in O. apply andb_true_iff in O. destruct O. assumption. Qed.
  Lemma ok_bin : forall (k : expr -> expr -> expr) (a b : expr) sc,
    (forall bd, okp bd (k a b) = okp bd a && okp bd b) ->
    config_ok (k a b) sc -> config_ok a sc /\ config_ok b sc.
  Proof.
    intros k a b sc Hk [O W]. rewrite Hk in O. apply andb_true_iff in O. destruct O.
    split; split; assumption.
  Qed.

  Lemma Rel2_eval_node_hn : forall e1 s1 e2 s2,
    config_ok e1 s1 -> config_ok e2 s2 -> hn e1 s1 -> hn e2 s2 ->
    close s1 e1 = close s2 e2 ->
    Rel2 RV (eval_node (eval fire f) e1 s1) (eval_node (eval fire f) e2 s2).
  Proof.
    intros e1 s1 e2 s2 C1 C2 H1 H2 E.
    destruct e1; cbn [hn] in H1; try rewrite (close_ident_unbound _ _ H1) in E;
      destruct e2; cbn [hn] in H2; try rewrite (close_ident_unbound _ _ H2) in E;
      unfold close in E; cbn [msub] in E; try discriminate; cbn [Calc.eval_node].
    - inversion E; subst. apply Rel2_ret. reflexivity.
    - apply Rel2_ret. reflexivity.
    - inversion E; subst. apply Rel2_resolve_unbound; assumption.
    - inversion E as [Ea]. apply IH; [eapply ok_par; eauto | eapply ok_par; eauto | exact Ea].
    - inversion E as [[Eu Ea]]. subst.
      pose proof (ok_un _ _ _ C1). pose proof (ok_un _ _ _ C2).
      eapply Rel2_bind; [apply IH; eauto | apply IHP; auto | apply IHP; auto|].
      intros v1 v2 Rv Q1 Q2. destruct C1, C2. apply Rel2_handle_num; auto. apply lz_un.
    - inversion E as [[Eo Ea Eb]]. subst.
      destruct (ok_bin (EBop op0) e1_1 e1_2 s1 (fun bd => eq_refl) C1) as [Ca1 Cb1].
      destruct (ok_bin (EBop op0) e2_1 e2_2 s2 (fun bd => eq_refl) C2) as [Ca2 Cb2].
      assert (Rel2 RV
        (mbind (eval fire f e1_1 s1) (fun va => mbind (eval fire f e1_2 s1) (fun vb => handle_two_nums va vb op0 s1)))
        (mbind (eval fire f e2_1 s2) (fun va => mbind (eval fire f e2_2 s2) (fun vb => handle_two_nums va vb op0 s2)))) as Generic.
      { eapply Rel2_bind; [apply IH; eauto | apply IHP; auto | apply IHP; auto|].
        intros va1 va2 Ra Qa1 Qa2.
        eapply Rel2_bind; [apply IH; eauto | apply IHP; auto | apply IHP; auto|].
        intros vb1 vb2 Rb Qb1 Qb2. destruct C1, C2. apply Rel2_handle_two_nums; auto. }
      destruct op0; try exact Generic.
      eapply Rel2_bind; [apply IH; eauto | apply IHP; auto | apply IHP; auto|].
      intros va1 va2 Ra Qa1 Qa2. pose proof (RV_shape _ _ Ra) as Sa.
      destruct va1, va2; try contradiction.
      + eapply Rel2_bind; [apply IH; eauto | apply IHP; auto | apply IHP; auto|].
        intros vb1 vb2 Rb Qb1 Qb2. pose proof (RV_shape _ _ Rb) as Sb.
        destruct vb1, vb2; try contradiction; try apply Rel2_fail. subst.
        eapply Rel2_bind; [apply Rel2_lift; intros; reflexivity | apply Pres_lift; intros; exact I | apply Pres_lift; intros; exact I |].
        intros x1 x2 Ex _ _. subst. apply Rel2_ret. reflexivity.
      + apply Rel2_fail.
      + apply Rel2_apply; [exact Ra | exact Qa1 | exact Qa2 | destruct Cb1; split; assumption | destruct Cb2; split; assumption |].
        unfold close. cbn [msub]. f_equal. exact Eb.
      + apply Rel2_apply; [exact Ra | exact Qa1 | exact Qa2 | destruct Cb1; split; assumption | destruct Cb2; split; assumption |].
        unfold close. cbn [msub]. f_equal. exact Eb.
    - inversion E as [[Ea Eb]].
      destruct (ok_bin EApply e1_1 e1_2 s1 (fun bd => eq_refl) C1) as [Ca1 Cb1].
      destruct (ok_bin EApply e2_1 e2_2 s2 (fun bd => eq_refl) C2) as [Ca2 Cb2].
      rewrite (unit_check_same e1_1 e1_2 e2_1 e2_2 s1 s2 Ca1 Cb1 Ca2 Cb2 Ea Eb).
      match goal with |- Rel2 _ (match ?o with _ => _ end) _ => destruct o end; [apply Rel2_ret; reflexivity|].
      eapply Rel2_bind; [apply IH; eauto | apply IHP; auto | apply IHP; auto|].
      intros va1 va2 Ra Qa1 Qa2. apply Rel2_apply; auto.
    - inversion E as [[Ea Eb]].
      destruct (ok_bin EApplyFn e1_1 e1_2 s1 (fun bd => eq_refl) C1) as [Ca1 Cb1].
      destruct (ok_bin EApplyFn e2_1 e2_2 s2 (fun bd => eq_refl) C2) as [Ca2 Cb2].
      eapply Rel2_bind; [apply IH; eauto | apply IHP; auto | apply IHP; auto|].
      intros va1 va2 Ra Qa1 Qa2. apply Rel2_apply; auto.
    - inversion E as [[Ea Eb]].
      destruct (ok_bin EApplyMul e1_1 e1_2 s1 (fun bd => eq_refl) C1) as [Ca1 Cb1].
      destruct (ok_bin EApplyMul e2_1 e2_2 s2 (fun bd => eq_refl) C2) as [Ca2 Cb2].
      rewrite (unit_check_same e1_1 e1_2 e2_1 e2_2 s1 s2 Ca1 Cb1 Ca2 Cb2 Ea Eb).
      match goal with |- Rel2 _ (match ?o with _ => _ end) _ => destruct o end; [apply Rel2_ret; reflexivity|].
      eapply Rel2_bind; [apply IH; eauto | apply IHP; auto | apply IHP; auto|].
      intros va1 va2 Ra Qa1 Qa2. apply Rel2_apply; auto.
    - inversion E as [[Ex Eb]]. subst. apply Rel2_ret. unfold RV. cbn [nv]. rewrite Eb. reflexivity.
    - inversion E as [[Ex Ea]]. subst.
      pose proof (ok_assign _ _ _ C1). pose proof (ok_assign _ _ _ C2).
      eapply Rel2_bind; [apply IH; eauto | apply IHP; auto | apply IHP; auto|].
      intros v1 v2 Rv Q1 Q2.
      eapply Rel2_bind; [apply Rel2_assign; exact Rv | apply Pres_assign; exact Q1 | apply Pres_assign; exact Q2 |].
      intros _ _ _ _ _. apply Rel2_ret. exact Rv.
    - inversion E as [[Ea Eb]].
      destruct (ok_bin EStmts e1_1 e1_2 s1 (fun bd => eq_refl) C1) as [Ca1 Cb1].
      destruct (ok_bin EStmts e2_1 e2_2 s2 (fun bd => eq_refl) C2) as [Ca2 Cb2].
      eapply Rel2_bind; [apply IH; eauto | apply IHP; auto | apply IHP; auto|].
      intros _ _ _ _ _. apply IH; auto.
  Qed.

End RelNode.

Lemma Rel2_ext : forall A (RA : A -> A -> Prop) (m1 m1' m2 m2' : M A),
  (forall st, m1 st = m1' st) -> (forall st, m2 st = m2' st) -> Rel2 RA m1' m2' -> Rel2 RA m1 m2.
Proof. intros A RA m1 m1' m2 m2' E1 E2 H st1 st2 W1 W2 E. rewrite E1, E2. apply H; assumption. Qed.

Lemma head_normal : forall e sc, config_ok e sc ->
  exists e' sc', config_ok e' sc' /\ hn e' sc' /\ close sc' e' = close sc e
    /\ forall fire f st, eval fire (S f) e sc st = eval fire (S f) e' sc' st.
Proof.
  intros e sc C.
  assert (forall e0 : expr, (forall x, e0 <> EIdent x) -> hn e0 sc) as NI.
  { intros e0 H. destruct e0; cbn; auto. exfalso. eapply H; reflexivity. }
  destruct e as [n| |x|a0|u a0|op a0 b0|a0 b0|a0 b0|a0 b0|y body|y a0|a0 b0];
    try (eexists; exists sc; split; [exact C | split; [apply NI; intros; discriminate | split; reflexivity]]; fail).
  destruct (scope_find x sc) as [[a sa]|] eqn:F.
  - destruct C as [O W]. destruct (scope_find_ws _ _ _ _ W F) as [Oa Wa].
    exists (EParens a), sa. split; [split; assumption | split; [exact I | split]].
    + unfold close. cbn [msub]. pose proof (scope_find_closing num x sc) as K. rewrite F in K.
      rewrite K. reflexivity.
    + intros. apply eval_ident_bound. exact F.
  - exists (EIdent x), sc. split; [exact C | split; [exact F | split; reflexivity]].
Qed.

(* the lockstep theorem *)
Lemma lockstep : forall fire f e1 s1 e2 s2,
  config_ok e1 s1 -> config_ok e2 s2 -> close s1 e1 = close s2 e2 ->
  Rel2 RV (eval fire f e1 s1) (eval fire f e2 s2).
Proof.
  intros fire f. induction f as [|f IHf]; intros e1 s1 e2 s2 C1 C2 E.
  - apply Rel2_fail.
  - destruct (head_normal e1 s1 C1) as (e1' & s1' & C1' & H1 & E1 & V1).
    destruct (head_normal e2 s2 C2) as (e2' & s2' & C2' & H2 & E2 & V2).
    eapply Rel2_ext; [intro; apply V1 | intro; apply V2 |].
    eapply Rel2_ext; [intro; rewrite eval_S; reflexivity | intro; rewrite eval_S; reflexivity |].
    eapply Rel2_bind; [apply Rel2_tick | apply Pres_tick | apply Pres_tick |].
    intros _ _ _ _ _. apply Rel2_eval_node_hn; auto. congruence.
Qed.

(* ------------------------------------------------------------------ *)
(* beta, substitution form *)

Definition bump (n : N) (st : state) : state := mkS (s_vars st) (s_polls st + n) (s_log st).

Lemma tick_none : forall A (k : unit -> M A) st, mbind (tick None) k st = k tt (bump 1 st).
Proof. reflexivity. Qed.

Lemma subst_config_ok : forall x (a b : expr) sc,
  config_ok a sc -> okp (x :: dom sc) b = true -> config_ok (subst x (EParens a) b) sc.
Proof.
  intros x a b sc [Oa W] Ob. split; [|exact W]. rewrite subst_msub. apply okp_msub.
  - exact Ob.
  - intros y t L. cbn [lookup] in L. destruct (ident_eqb y x); inversion L; subst. exact Oa.
Qed.

Lemma close_beta : forall x (a b : expr) sc,
  capture_free x (idents a) b = true ->
  close (SCons x a sc sc) b = close sc (subst x (EParens a) b).
Proof.
  intros. unfold close at 1 2. cbn [closing]. rewrite subst_msub.
  rewrite (close_subst num b x a (closing sc) H). cbn [msub]. reflexivity.
Qed.

Definition same_outcome (r1 r2 : state * out value) : Prop :=
  nst (fst r1) = nst (fst r2) /\ nout (snd r1) = nout (snd r2).

Lemma Rel2_same : forall (m1 m2 : M value) st, Rel2 RV m1 m2 -> WFst st -> same_outcome (m1 st) (m2 st).
Proof.
  intros m1 m2 st H W. destruct (H st st W W eq_refl) as [E O]. split; [exact E|].
  destruct (snd (m1 st)), (snd (m2 st)); try contradiction; cbn; congruence.
Qed.

Lemma WFst_bump : forall n st, WFst st -> WFst (bump n st).
Proof. intros. exact H. Qed.

(* applying a lambda = substituting the parenthesised argument for the
   parameter: same value (closures up to their closed form), same variables,
   same error; the application itself costs two polls *)
Lemma beta_subst_lemma : forall f x (b a : expr) sc st,
  config_ok (EApplyFn (EFn x b) a) sc -> WFst st ->
  capture_free x (idents a) b = true ->
  same_outcome (eval None (S (S f)) (EApplyFn (EFn x b) a) sc st)
               (eval None (S f) (subst x (EParens a) b) sc (bump 2 st)).
Proof.
  intros f x b a sc st [O W] Wst CF.
  cbn [Close.okp] in O. apply andb_true_iff in O. destruct O as [O Oa]. apply andb_true_iff in O. destruct O as [Px Ob].
  rewrite beta_env_lemma, !tick_none.
  replace (bump 1 (bump 1 st)) with (bump 2 st) by (unfold bump; cbn; f_equal; lia).
  apply Rel2_same; [|apply WFst_bump; exact Wst].
  apply lockstep.
  - split; cbn [dom Close.wss]; [exact Ob|]. rewrite Px, Oa, W. reflexivity.
  - apply subst_config_ok; [split; assumption | exact Ob].
  - apply close_beta. exact CF.
Qed.

(* the same for the shape the parser gives  (\x. b) a  with a not a number:
   Apply (Parens (Fn x b)) a, three polls *)
Lemma beta_subst_apply_lemma : forall f x (b a : expr) sc st,
  config_ok (EApply (EParens (EFn x b)) a) sc -> WFst st ->
  capture_free x (idents a) b = true ->
  same_outcome (eval None (S (S (S f))) (EApply (EParens (EFn x b)) a) sc st)
               (eval None (S (S f)) (subst x (EParens a) b) sc (bump 3 st)).
Proof.
  intros f x b a sc st [O W] Wst CF.
  cbn [Close.okp] in O. apply andb_true_iff in O. destruct O as [O Oa]. apply andb_true_iff in O. destruct O as [Px Ob].
  rewrite beta_env_apply_lemma, !tick_none.
  replace (bump 1 (bump 1 (bump 1 st))) with (bump 3 st) by (unfold bump; cbn; f_equal; lia).
  apply Rel2_same; [|apply WFst_bump; exact Wst].
  apply lockstep.
  - split; cbn [dom Close.wss]; [exact Ob|]. rewrite Px, Oa, W. reflexivity.
  - apply subst_config_ok; [split; assumption | exact Ob].
  - apply close_beta. exact CF.
Qed.

(* scope irrelevance: an expression none of whose parameter names is free
   evaluates alike in every well-scoped scope *)
Lemma closed_scope_irrelevant_lemma : forall fire f (e : expr) s1 s2 st,
  okp [] e = true -> wss s1 = true -> wss s2 = true -> WFst st ->
  same_outcome (eval fire f e s1 st) (eval fire f e s2 st).
Proof.
  intros fire f e s1 s2 st O W1 W2 Wst.
  assert (forall sc, wss sc = true -> config_ok e sc /\ close sc e = e) as K.
  { intros sc W. split.
    - split; [|exact W]. eapply okp_weaken; [|exact O]. intros y H. discriminate.
    - unfold close. eapply msub_id; [exact O|].
      intros y t L. split; [eapply closing_dom_param; eauto | reflexivity]. }
  destruct (K s1 W1) as [C1 E1]. destruct (K s2 W2) as [C2 E2].
  apply Rel2_same; [|exact Wst]. apply lockstep; auto. congruence.
Qed.

Lemma lockstep_same_lemma : forall fire f (e1 e2 : expr) s1 s2 st,
  config_ok e1 s1 -> config_ok e2 s2 -> close s1 e1 = close s2 e2 -> WFst st ->
  same_outcome (eval fire f e1 s1 st) (eval fire f e2 s2 st).
Proof. intros. apply Rel2_same; [apply lockstep; assumption | assumption]. Qed.

End Lockstep.
