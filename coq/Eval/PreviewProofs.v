(* Proofs about the preview model (C13; preview clause of C07). *)
From FendV Require Import Base.Prelude Eval.Preview.
From Coq Require Import Lia.
Open Scope N_scope.

Section PreviewProofs.

Variable vars settings rng rates payload : Type.
Variable default_payload : payload.
Variable world : Type.
Variable call_rng : rng -> world -> N * world.
Variable call_rates : rates -> list N -> world -> option N * world.

Notation context := (context vars settings rng rates).
Notation prog := (prog vars settings payload).
Notation st := (st vars settings rng rates world).
Notation run := (run vars settings rng rates payload world call_rng call_rates).
Notation preview := (preview vars settings rng rates payload default_payload world call_rng call_rates).
Notation evaluate := (evaluate vars settings rng rates payload world call_rng call_rates).
Notation disabled := (disabled vars settings rng rates).

(* While both handler fields are None the evaluator cannot touch the host,
   and it cannot make them non-None. *)
Lemma run_disabled_inv : forall (p : prog) fire (s : st),
  c_rng (s_ctx s) = None -> c_rates (s_ctx s) = None ->
  s_world (fst (run fire p s)) = s_world s
  /\ c_rng (s_ctx (fst (run fire p s))) = None
  /\ c_rates (s_ctx (fst (run fire p s))) = None.
Proof.
  induction p as [o | k IH | k IH | cur k IH | k IH | v k IH | k IH | x k IH];
    intros fire s Hr Hx; cbn [Preview.run].
  - auto.
  - destruct (fires fire (s_polls s)); cbn [fst].
    + cbn. auto.
    + destruct (IH fire (mkst (s_ctx s) (s_world s) (s_polls s + 1))) as (HA & HB & HC);
        [exact Hr | exact Hx | auto].
  - rewrite Hr. apply IH; assumption.
  - rewrite Hx. apply IH; assumption.
  - apply IH; assumption.
  - destruct (IH fire (mkst (set_vars (s_ctx s) v)
                         (s_world s) (s_polls s))) as (HA & HB & HC);
      [exact Hr | exact Hx | auto].
  - apply IH; assumption.
  - destruct (IH fire (mkst (set_settings (s_ctx s) x)
                         (s_world s) (s_polls s))) as (HA & HB & HC);
      [exact Hr | exact Hx | auto].
Qed.

Definition panicked (r : context * world * option (fresult payload) * N) : bool :=
  match r with (_, _, None, _) => true | _ => false end.

Definition p_ctx (r : context * world * option (fresult payload) * N) : context :=
  match r with (c, _, _, _) => c end.
Definition p_world (r : context * world * option (fresult payload) * N) : world :=
  match r with (_, w, _, _) => w end.
Definition p_out (r : context * world * option (fresult payload) * N) : option (fresult payload) :=
  match r with (_, _, o, _) => o end.
Definition p_polls (r : context * world * option (fresult payload) * N) : N :=
  match r with (_, _, _, n) => n end.

(* context restored whenever preview returns *)
Lemma preview_ctx_unchanged_lemma : forall (p : prog) fire input c w,
  panicked (preview fire p input c w) = false ->
  p_ctx (preview fire p input c w) = c.
Proof.
  intros p fire input c w. unfold Preview.preview.
  destruct (run fire p _) as [s o]. destruct o; cbn; congruence.
Qed.

(* the host is never reached, whatever the evaluator does, wherever the
   interrupt fires, and even if the evaluator panics *)
Lemma preview_world_unchanged_lemma : forall (p : prog) fire input c w,
  p_world (preview fire p input c w) = w.
Proof.
  intros p fire input c w. unfold Preview.preview.
  pose proof (run_disabled_inv p fire (mkst (disabled c) w 0) eq_refl eq_refl) as (HA & _ & _).
  destruct (run fire p _) as [s o]. cbn [fst] in HA.
  destruct o; cbn; exact HA.
Qed.

Lemma preview_no_trace_lemma : forall (p : prog) (k : N) input c w,
  panicked (preview (Some k) p input c w) = false ->
  p_ctx (preview (Some k) p input c w) = c /\ p_world (preview (Some k) p input c w) = w.
Proof.
  intros. split; [apply preview_ctx_unchanged_lemma; assumption | apply preview_world_unchanged_lemma].
Qed.

(* after a panic the handlers are gone: the restore did not run *)
Lemma preview_panic_handlers_lost : forall (p : prog) fire input c w,
  panicked (preview fire p input c w) = true ->
  c_rng (p_ctx (preview fire p input c w)) = None
  /\ c_rates (p_ctx (preview fire p input c w)) = None.
Proof.
  intros p fire input c w. unfold Preview.preview.
  pose proof (run_disabled_inv p fire (mkst (disabled c) w 0) eq_refl eq_refl) as (_ & HB & HC).
  destruct (run fire p _) as [s o]. cbn [fst] in HB, HC.
  destruct o; cbn; try discriminate. auto.
Qed.

(* what is shown *)
Lemma keep_spec : forall input (r : fresult payload),
  keep input r = true ->
  r_text r <> [] /\ r_unit r = false /\ utf8_length (r_text r) <= 50
  /\ trim (r_text r) <> trim input /\ has_ctl (r_text r) = false.
Proof.
  intros input r H. unfold keep in H.
  apply negb_true_iff in H.
  repeat (apply orb_false_iff in H; destruct H as [H ?]).
  repeat split.
  - destruct (r_text r); [discriminate | congruence].
  - assumption.
  - apply N.ltb_ge. assumption.
  - intro E. rewrite E in *.
    assert (forall l, list_N_eqb l l = true) as R.
    { induction l as [|a l IHl]; cbn; [reflexivity | rewrite N.eqb_refl, IHl; reflexivity]. }
    rewrite R in *. discriminate.
  - assumption.
Qed.

Lemma preview_output_lemma : forall (p : prog) fire input c w r,
  p_out (preview fire p input c w) = Some r ->
  r = empty_result default_payload
  \/ (keep input r = true
      /\ snd (run fire p (mkst (disabled c) w 0)) = OOk r).
Proof.
  intros p fire input c w r. unfold Preview.preview.
  destruct (run fire p _) as [s o]. cbn [snd].
  destruct o as [r0| | |]; cbn; intro H; inversion H; subst; auto.
  unfold preview_filter. destruct (keep input r0) eqn:K; auto.
Qed.

Lemma preview_output_ok_lemma : forall (p : prog) fire input c w r,
  p_out (preview fire p input c w) = Some r ->
  r = empty_result default_payload
  \/ (snd (run fire p (mkst (disabled c) w 0)) = OOk r
      /\ r_text r <> [] /\ r_unit r = false /\ utf8_length (r_text r) <= 50
      /\ trim (r_text r) <> trim input /\ has_ctl (r_text r) = false).
Proof.
  intros p fire input c w r H.
  destruct (preview_output_lemma p fire input c w r H) as [E | [K R]].
  - left. exact E.
  - right. split; [exact R | exact (keep_spec input r K)].
Qed.

(* an interrupted (or otherwise failed) evaluation shows nothing *)
Lemma preview_failure_empty : forall (p : prog) fire input c w,
  (forall r, snd (run fire p (mkst (disabled c) w 0)) <> OOk r) ->
  snd (run fire p (mkst (disabled c) w 0)) <> OPanic ->
  p_out (preview fire p input c w) = Some (empty_result default_payload).
Proof.
  intros p fire input c w Hn Hp. unfold Preview.preview.
  destruct (run fire p _) as [s o]. cbn [snd] in *.
  destruct o; cbn; try reflexivity.
  - exfalso. eapply Hn. reflexivity.
  - congruence.
Qed.

(* text without control characters and without U+2028/9 has no line break *)
Lemma ctl_not_linebreak : forall c,
  is_control c || (c =? 8232) || (c =? 8233) = false -> is_line_break c = false.
Proof.
  intros c H. unfold is_control in H. unfold is_line_break.
  apply orb_false_iff in H. destruct H as [H H3].
  apply orb_false_iff in H. destruct H as [H H2].
  apply orb_false_iff in H. destruct H as [H0 H1].
  apply N.ltb_ge in H0. apply N.eqb_neq in H2. apply N.eqb_neq in H3.
  assert (c < 127 \/ 159 < c) as R
    by (apply andb_false_iff in H1; destruct H1 as [E|E]; apply N.leb_gt in E; lia).
  destruct (c =? 133) eqn:E133; [apply N.eqb_eq in E133; lia|].
  destruct (c =? 8232) eqn:E1; [apply N.eqb_eq in E1; lia|].
  destruct (c =? 8233) eqn:E2; [apply N.eqb_eq in E2; lia|].
  rewrite !orb_false_r. apply andb_false_iff. right. apply N.leb_gt. lia.
Qed.

Lemma ctl_free_single_line : forall s, has_ctl s = false -> single_line s = true.
Proof.
  unfold single_line, has_ctl.
  induction s as [|c s IH]; cbn [existsb]; intros H; [reflexivity|].
  apply orb_false_iff in H. destruct H as [H1 H2].
  specialize (IH H2). apply negb_true_iff in IH.
  apply negb_true_iff. apply orb_false_iff. split; [apply ctl_not_linebreak; exact H1 | exact IH].
Qed.

Lemma single_line_lemma : forall input (r : fresult payload),
  keep input r = true -> single_line (r_text r) = true.
Proof.
  intros input r K. apply ctl_free_single_line.
  exact (proj2 (proj2 (proj2 (proj2 (keep_spec input r K))))).
Qed.

(* the filter as it was: C0-free text has no LF/VT/FF/CR; the remaining
   Unicode line breaks are exactly the class repaired in eacb46c *)
Lemma c0_free_single_line : forall s,
  has_c0 s = false -> known_c13_linebreak s = false -> single_line s = true.
Proof.
  unfold single_line, has_c0, known_c13_linebreak.
  induction s as [|c s IH]; cbn [existsb]; intros H K; [reflexivity|].
  apply orb_false_iff in H. destruct H as [H1 H2].
  apply orb_false_iff in K. destruct K as [K1 K2].
  specialize (IH H2 K2). apply negb_true_iff in IH.
  apply negb_true_iff. apply orb_false_iff. split; [|exact IH].
  unfold is_line_break.
  apply N.ltb_ge in H1.
  repeat (apply orb_false_iff in K1; destruct K1 as [K1 ?]).
  rewrite K1.
  repeat match goal with H : (_ =? _) = false |- _ => rewrite H; clear H end.
  rewrite !orb_false_r.
  apply andb_false_iff. right. apply N.leb_gt. lia.
Qed.

Lemma single_line_old_except_known_lemma : forall input (r : fresult payload),
  keep_old input r = true -> known_c13_linebreak (r_text r) = false -> single_line (r_text r) = true.
Proof.
  intros input r K H. apply c0_free_single_line; [|exact H].
  unfold keep_old in K. apply negb_true_iff in K.
  apply orb_false_iff in K. destruct K as [_ K]. exact K.
Qed.

End PreviewProofs.

(* ------------------------------------------------------------------ *)
(* Concrete instances: witnesses and non-vacuity. *)

Module Witness.
  (* vars = list of (name code, value), world = number of calls of each
     callback; the rng answers its call count *)
  Definition vars := list (N * N).
  Definition world := (N * N)%type.
  Definition call_rng (_ : unit) (w : world) : N * world := (fst w, (fst w + 1, snd w)).
  Definition call_rates (_ : unit) (_ : list N) (w : world) : option N * world :=
    (Some 7, (fst w, snd w + 1)).
  Notation prog := (prog vars N unit).
  Definition ctx0 : context vars N unit unit := mkctx [(1, 5)] 0 (Some tt) (Some tt).

  (* assigns, polls, draws a random number, asks for a rate, shows text *)
  Definition busy : prog :=
    Poll (GetVars (fun v => SetVars ((2, 9) :: v)
      (Poll (Draw (fun d => Rate [69] (fun r =>
        Done (OOk (mkres [52; 50] false tt)))))))).

  (* assigns, then panics *)
  Definition crashes : prog := SetVars [(3, 3)] (Done OPanic).

  Definition prev := preview vars N unit unit unit tt world call_rng call_rates.
  Definition eval := evaluate vars N unit unit unit world call_rng call_rates.
End Witness.

Lemma ctx_unchanged_refuted_lemma :
  exists p c w, p_ctx _ _ _ _ _ _ (Witness.prev None p [] c w) <> c.
Proof.
  exists Witness.crashes, Witness.ctx0, (0, 0). vm_compute. discriminate.
Qed.

Lemma single_line_old_refuted_lemma :
  exists input (r : fresult unit), keep_old input r = true /\ single_line (r_text r) = false.
Proof. exists [49], (mkres [133; 97] false tt). vm_compute. auto. Qed.
