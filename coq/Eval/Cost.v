(* C07(a): poll skeletons of the long-running loops.

   A skeleton is the sequence of polls (test_int) and work units (one
   primitive step on a limb, a date, a distribution entry or a token) a
   function goes through, written from its loop structure.  Polled:
     biguint.rs  mul_internal, pow_internal, divmod, factorial, fibonacci,
                 lshift (one bit), dist.rs new_die
   Polled since the repairs 30274a2 / a55ff29 / f8353e2 (the skeletons of the
   loops as they were are kept with the suffix _old):
     date.rs     Date::add / Date::sub (for _ in 0..n { test_int; next() }),
                 diff_months (test_int in each of its four step loops)
     biguint.rs  lshift_n (while rhs >= 64 { test_int; v.insert(0, 0) })
     dist.rs     Dist::bop (test_int once per pair of outcomes, then a
                 numeric operation and a linear search)
   Not polled:
     parser.rs   the whole parser takes no Interrupt; juxtaposition is tried
                 twice per level (parse_mixed_fraction, then parse_apply_cont)
   Work per iteration is an upper bound (e.g. add_assign_internal touches at
   most la + lb + 1 limbs); poll counts are exact minima.  No proofs here. *)
From FendV Require Import Base.Prelude.
Open Scope N_scope.

Inductive cev := Poll | Work (n : N).
Definition trace := list cev.

Fixpoint gap_aux (tr : trace) (cur best : N) : N :=
  match tr with
  | [] => N.max cur best
  | Poll :: r => gap_aux r 0 (N.max cur best)
  | Work n :: r => gap_aux r (cur + n) best
  end.

(* largest amount of work between two successive polls (or start / end) *)
Definition gap (tr : trace) : N := gap_aux tr 0 0.

Fixpoint polls (tr : trace) : N :=
  match tr with
  | [] => 0
  | Poll :: r => 1 + polls r
  | Work _ :: r => polls r
  end.

Fixpoint work (tr : trace) : N :=
  match tr with
  | [] => 0
  | Poll :: r => work r
  | Work n :: r => n + work r
  end.

Fixpoint repeat_trace (n : nat) (body : trace) : trace :=
  match n with O => [] | S k => body ++ repeat_trace k body end.

(* ------------------------------------------------------------------ *)
(* polled loops; la lb = number of 64-bit limbs of the operands *)

(* mul_internal: for i in 0..other.value_len() { test_int; add_assign_internal } *)
Definition mul_trace (la lb : N) : trace :=
  repeat_trace (N.to_nat lb) [Poll; Work (la + lb + 1)].

(* lshift by one bit on a Large value: a poll per limb *)
Definition lshift1_trace (l : N) : trace :=
  repeat_trace (N.to_nat l) [Poll; Work 1].

(* divmod, binary long division: per limb of self a poll, then 64 rounds of
   shift / compare / subtract on the remainder (at most lb + 1 limbs) *)
Definition divmod_round (lb : N) : trace := [Work 1; Work (lb + 1); Work (lb + 1); Work 1].
Definition divmod_trace (la lb : N) : trace :=
  repeat_trace (N.to_nat la) (Poll :: repeat_trace 64 (divmod_round lb)).

(* pow_internal: while exponent > 0 { test_int; [result *= base]; base *= base }
   lr lb are the current limb counts; they at most add up / double *)
Fixpoint pow_trace (fuel : nat) (lr lb e : N) : trace :=
  match fuel with
  | O => []
  | S f =>
    if e =? 0 then []
    else Poll :: (if N.odd e then mul_trace lr lb else [])
              ++ mul_trace lb lb
              ++ pow_trace f (if N.odd e then lr + lb else lr) (2 * lb) (N.div2 e)
  end.

(* largest operand-length sum over the multiplications of pow_trace *)
Fixpoint pow_max_len (fuel : nat) (lr lb e : N) : N :=
  match fuel with
  | O => 0
  | S f =>
    if e =? 0 then 0
    else N.max (if N.odd e then lr + lb else 0)
               (N.max (lb + lb) (pow_max_len f (if N.odd e then lr + lb else lr) (2 * lb) (N.div2 e)))
  end.

(* factorial: while self > 1 { test_int; res *= self; self -= 1 }, res has
   at most lr limbs throughout *)
Definition factorial_trace (n lr : N) : trace :=
  repeat_trace (N.to_nat (n - 1)) (Poll :: mul_trace lr 1 ++ [Work 1]).

(* fibonacci: while n > 1 { test_int; (b, a) = (a + b, b) } *)
Definition fibonacci_trace (n l : N) : trace :=
  repeat_trace (N.to_nat (n - 1)) [Poll; Work (l + 1)].

(* new_die(count, faces) *)
Definition die1_trace (faces : N) : trace := repeat_trace (N.to_nat faces) [Poll; Work 1].

(* ------------------------------------------------------------------ *)
(* loops polled since the repairs *)

(* Date::add / Date::sub with n days (step = 1) or n weeks (step = 7):
   for _ in 0..n { test_int; step calls of next()/prev() } *)
Definition date_steps_trace (n step : N) : trace := repeat_trace (N.to_nat n) [Poll; Work step].
Definition date_days_trace (n : N) : trace := date_steps_trace n 1.

(* diff_months with n months: n / 12 year steps, then n mod 12 month steps *)
Definition date_months_trace (n : N) : trace :=
  repeat_trace (N.to_nat (n / 12)) [Poll; Work 1] ++ repeat_trace (N.to_nat (n mod 12)) [Poll; Work 1].

(* lshift_n: rhs / 64 polled inserts at the front of a vector that has
   l0, l0+1, ... limbs, then fewer than 64 one-bit shifts *)
Definition lshift_inserts (n : N) : N := if 64 <? n then n / 64 else 0.   (* if rhs > 64 { while rhs >= 64 .. } *)
Fixpoint inserts_trace (k : nat) (l : N) : trace :=
  match k with O => [] | S k' => Poll :: Work l :: inserts_trace k' (l + 1) end.
Definition lshift_n_trace (l0 n : N) : trace :=
  inserts_trace (N.to_nat (lshift_inserts n)) l0
  ++ repeat_trace (N.to_nat (n - 64 * lshift_inserts n)) (lshift1_trace (l0 + lshift_inserts n)).

(* Dist::bop on distributions with la and lb outcomes: la * lb rounds, each a
   poll, a numeric operation and a linear search among the outcomes found so
   far (at most la * lb) *)
Definition dist_bop_trace (la lb : N) : trace :=
  repeat_trace (N.to_nat (la * lb)) [Poll; Work 1; Work (la * lb)].

(* ------------------------------------------------------------------ *)
(* the same loops before the repairs: no poll in the body *)

Definition date_days_trace_old (n : N) : trace := repeat_trace (N.to_nat n) [Work 1].

Fixpoint inserts_trace_old (k : nat) (l : N) : trace :=
  match k with O => [] | S k' => Work l :: inserts_trace_old k' (l + 1) end.
Definition lshift_n_trace_old (l0 n : N) : trace :=
  inserts_trace_old (N.to_nat (lshift_inserts n)) l0
  ++ repeat_trace (N.to_nat (n - 64 * lshift_inserts n)) (lshift1_trace (l0 + lshift_inserts n)).

Definition dist_bop_trace_old (la lb : N) : trace :=
  repeat_trace (N.to_nat (la * lb)) [Work 1; Work 1].

(* ------------------------------------------------------------------ *)
(* still without a poll *)

(* the parser on  1 (1 (1 ... (1 : each level parses the rest twice *)
Fixpoint parse_juxt_cost (depth : nat) : N :=
  match depth with O => 1 | S d => 2 * parse_juxt_cost d + 1 end.
Definition parse_juxt_trace (depth : nat) : trace := [Work (parse_juxt_cost depth)].
Definition juxt_tokens (depth : nat) : N := 2 * N.of_nat depth + 1.

(* ------------------------------------------------------------------ *)
(* exact poll counts of the polled loops on concrete values (used by the
   check as lower bounds for what the implementation's interrupt sees) *)

Definition two64 : N := 18446744073709551616.
Definition limbs (x : N) : N := if x <? two64 then 1 else N.log2 x / 64 + 1.

(* BigUint::mul: Small * Small without overflow does not poll; otherwise
   mul_internal polls once per limb of the right operand (none if a factor is 0) *)
Definition mul_polls (x y : N) : N :=
  if (x <? two64) && (y <? two64) && (x * y <? two64) then 0
  else if (x =? 0) || (y =? 0) then 0 else limbs y.

Fixpoint pow_polls (fuel : nat) (r b e : N) : N :=
  match fuel with
  | O => 0
  | S f =>
    if e =? 0 then 0
    else 1 + (if N.odd e then mul_polls r b else 0) + mul_polls b b
           + pow_polls f (if N.odd e then r * b else r) (b * b) (N.div2 e)
  end.
(* BigUint::pow(a, b) for b > 0 *)
Definition pow_polls_of (a e : N) : N := pow_polls (S (N.to_nat (N.size e))) 1 a e.

Fixpoint factorial_polls (fuel : nat) (res n : N) : N :=
  match fuel with
  | O => 0
  | S f => if n <=? 1 then 0 else 1 + mul_polls res n + factorial_polls f (res * n) (n - 1)
  end.
Definition factorial_polls_of (n : N) : N := factorial_polls (N.to_nat n) 1 n.

Definition fibonacci_polls_of (n : N) : N := if n <=? 1 then 0 else n - 1.

(* Dist::bop: one poll per pair of outcomes *)
Definition dist_bop_polls (la lb : N) : N := la * lb.

(* new_die(count, faces): faces polls per single die; for count > 1 the loop
   polls once, builds another die and adds it to the running sum (which has
   j (faces - 1) + 1 outcomes after j dice) through Dist::bop *)
Fixpoint die_sum_polls (k : nat) (j faces : N) : N :=
  match k with
  | O => 0
  | S k' => 1 + faces + dist_bop_polls (j * (faces - 1) + 1) faces + die_sum_polls k' (j + 1) faces
  end.
Definition new_die_polls_of (count faces : N) : N :=
  if count <=? 1 then faces else faces + die_sum_polls (N.to_nat (count - 1)) 1 faces.

(* the polled date loops and the insert loop of lshift_n *)
Definition date_days_polls_of (n : N) : N := n.
Definition date_months_polls_of (n : N) : N := n / 12 + n mod 12.
Definition lshift_n_insert_polls_of (n : N) : N := lshift_inserts n.

(* ------------------------------------------------------------------ *)
(* level-1 poll counts: the BigUint operations on raw operands (a flag for
   Small and the little-endian limbs exactly as stored, leading zero limbs
   allowed), as the hook biguint_polls runs them *)

Definition limbs_zero (l : list N) : bool := forallb (N.eqb 0) l.
Fixpoint limbs_val (l : list N) : N :=
  match l with [] => 0 | d :: r => d + two64 * limbs_val r end.
Definition nlen (l : list N) : N := N.of_nat (length l).

(* BigUint::mul: Small * Small that fits does not poll; otherwise
   mul_internal polls once per limb of the right operand unless a factor is 0 *)
Definition l1_mul_polls (sa : bool) (a : list N) (sb : bool) (b : list N) : N :=
  if sa && sb && (hd 0 a * hd 0 b <? two64) then 0
  else if limbs_zero a || limbs_zero b then 0
  else nlen b.

(* lshift by one bit: a Large value first grows by a limb if its top bit is
   set, then polls once per limb; a Small value does not poll *)
Definition l1_lshift_polls (sa : bool) (a : list N) : N :=
  if sa then 0 else nlen a + (if N.testbit (last a 0) 63 then 1 else 0).

(* rshift_n(1): nothing for zero or Small, else a poll per limb *)
Definition l1_rshift_polls (sa : bool) (a : list N) : N :=
  if sa || limbs_zero a then 0 else nlen a.

(* divmod, the cases whose poll count does not depend on the representation
   of the running remainder: the early exits, division by 2 (one rshift), and
   binary long division by a Small divisor below 2^62 (the remainder stays
   Small, so only the outer loop polls: once per limb of the dividend) *)
Definition l1_divmod_polls (sa : bool) (a : list N) (sb : bool) (b : list N) : option N :=
  let va := limbs_val a in
  let vb := limbs_val b in
  if sa && sb then Some 0
  else if vb =? 0 then None
  else if (vb =? 1) || (va =? 0) || (va <? vb) || (va =? vb) then Some 0
  else if vb =? 2 then Some (l1_rshift_polls sa a)
  else if sb && (vb <? 4611686018427387904) then Some (nlen a)
  else None.

(* ------------------------------------------------------------------ *)
(* BigRat digit expansion (bigrat.rs format_trailing_digits): next_digit
   polls first, then multiplies the remainder by the base, divides by the
   denominator (ld limbs), multiplies back and subtracts.  format_nonrecurring
   calls it once per digit printed; Brent's cycle detection (recurring
   expansions, "to float") calls it about three times per digit of pre-period
   and period, comparing remainders in between.  The number of digit steps is
   unbounded in the size of the input (the period of 1/d is up to d - 1), the
   work between two polls is not. *)

Definition digit_step (ld : N) : trace :=
  Poll :: Work (ld + 1) :: mul_trace ld 1 ++ divmod_trace (ld + 1) ld ++ mul_trace 1 ld ++ [Work (ld + 1)].

(* format_nonrecurring: n digits *)
Definition digits_trace (ld : N) (n : nat) : trace := repeat_trace n (digit_step ld ++ [Work 2]).

(* brents_algorithm: n1 steps of the search phase (each after a comparison of
   two remainders), lam steps collecting the period, mu double steps *)
Definition brent_trace (ld : N) (n1 lam mu : nat) : trace :=
  repeat_trace n1 (Work ld :: digit_step ld)
  ++ repeat_trace lam (digit_step ld ++ [Work 1])
  ++ repeat_trace mu (Work ld :: digit_step ld ++ digit_step ld ++ [Work 1]).

Definition digit_gap_bound (ld : N) : N := 64 * (2 * ld + 4) + 3 * ld + 8.

(* minimal polls: one per digit step *)
Definition digits_polls_of (n : N) : N := n.

(* pre-period and period of 1/d in base 10 (d > 1): strip the factors 2 and
   5, then the multiplicative order of 10 *)
Fixpoint strip (fuel : nat) (p d : N) : N * N :=
  match fuel with
  | O => (d, 0)
  | S f => if (d mod p =? 0) && (1 <? d) then let '(d', k) := strip f p (d / p) in (d', k + 1) else (d, 0)
  end.
Fixpoint order10 (fuel : nat) (d r k : N) : N :=
  match fuel with
  | O => k
  | S f => if r =? 1 then k else order10 f d (10 * r mod d) (k + 1)
  end.
Definition preperiod_period (d : N) : N * N :=
  let '(d2, k2) := strip (N.to_nat (N.size d)) 2 d in
  let '(d5, k5) := strip (N.to_nat (N.size d)) 5 d2 in
  (N.max k2 k5, if d5 <=? 1 then 0 else order10 (N.to_nat d5) d5 (10 mod d5) 1).

(* Brent on 1/d: at least lam steps in the search phase, lam to collect the
   period, two per pre-period digit *)
Definition recurring_polls_of (d : N) : N :=
  let '(mu, lam) := preperiod_period d in 2 * lam + 2 * mu.

(* rshift_n(a, n): for _ in 0..n { if self.is_zero() { break }; self.rshift() } -- the zero test inside the loop is
   what bounds the work by the bit length of a, whatever the count n; a Small value shifts without polling (at most
   64 times), a Large one polls once per limb per shift *)
Definition rshift_n_trace (small : bool) (l bits n : N) : trace :=
  repeat_trace (N.to_nat (N.min n bits))
    (if small then [Work 1] else repeat_trace (N.to_nat l) [Poll; Work 1]).

Definition l1_rshift_n_polls (sa : bool) (a : list N) (n : N) : N :=
  if sa then 0 else nlen a * N.min n (N.size (limbs_val a)).

(* lshift_n(a, n) polls at least once per inserted limb *)
Definition l1_lshift_n_polls_min (n : N) : N := lshift_inserts n.

