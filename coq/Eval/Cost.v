(* C07(a): poll skeletons of the long-running loops.

   A skeleton is the sequence of polls (test_int) and work units (one
   primitive step on a limb, a date, a distribution entry or a token) a
   function goes through, written from its loop structure.  Polled:
     biguint.rs  mul_internal, pow_internal, divmod, factorial, fibonacci,
                 lshift (one bit), dist.rs new_die
   Not polled (the loop body contains no test_int):
     date.rs     Date::add / Date::sub (n days: for _ in 0..n { next() }),
                 diff_months (year-by-year loops)
     biguint.rs  lshift_n (while rhs >= 64 { v.insert(0, 0) })
     dist.rs     Dist::bop (for each pair of outcomes, linear search)
     parser.rs   the whole parser takes no Interrupt; juxtaposition is tried
                 twice per level (parse_mixed_fraction, then parse_apply_cont)
   Work per iteration is an upper bound (e.g. add_assign_internal touches at
   most la + lb + 1 limbs); poll counts are exact minima.  No proofs here. *)
From FendV Require Import Base.Prelude.
Open Scope N_scope.

Inductive cev := Poll | Work (n : N).
Definition trace := list cev.

Fixpoint gap_aux (tr : trace) (cur best : N) : N :=
  match tr with
  | [] => N.max cur best
  | Poll :: r => gap_aux r 0 (N.max cur best)
  | Work n :: r => gap_aux r (cur + n) best
  end.

(* largest amount of work between two successive polls (or start / end) *)
Definition gap (tr : trace) : N := gap_aux tr 0 0.

Fixpoint polls (tr : trace) : N :=
  match tr with
  | [] => 0
  | Poll :: r => 1 + polls r
  | Work _ :: r => polls r
  end.

Fixpoint work (tr : trace) : N :=
  match tr with
  | [] => 0
  | Poll :: r => work r
  | Work n :: r => n + work r
  end.

Fixpoint repeat_trace (n : nat) (body : trace) : trace :=
  match n with O => [] | S k => body ++ repeat_trace k body end.

(* ------------------------------------------------------------------ *)
(* polled loops; la lb = number of 64-bit limbs of the operands *)

(* mul_internal: for i in 0..other.value_len() { test_int; add_assign_internal } *)
Definition mul_trace (la lb : N) : trace :=
  repeat_trace (N.to_nat lb) [Poll; Work (la + lb + 1)].

(* lshift by one bit on a Large value: a poll per limb *)
Definition lshift1_trace (l : N) : trace :=
  repeat_trace (N.to_nat l) [Poll; Work 1].

(* divmod, binary long division: per limb of self a poll, then 64 rounds of
   shift / compare / subtract on the remainder (at most lb + 1 limbs) *)
Definition divmod_round (lb : N) : trace := [Work 1; Work (lb + 1); Work (lb + 1); Work 1].
Definition divmod_trace (la lb : N) : trace :=
  repeat_trace (N.to_nat la) (Poll :: repeat_trace 64 (divmod_round lb)).

(* pow_internal: while exponent > 0 { test_int; [result *= base]; base *= base }
   lr lb are the current limb counts; they at most add up / double *)
Fixpoint pow_trace (fuel : nat) (lr lb e : N) : trace :=
  match fuel with
  | O => []
  | S f =>
    if e =? 0 then []
    else Poll :: (if N.odd e then mul_trace lr lb else [])
              ++ mul_trace lb lb
              ++ pow_trace f (if N.odd e then lr + lb else lr) (2 * lb) (N.div2 e)
  end.

(* largest operand-length sum over the multiplications of pow_trace *)
Fixpoint pow_max_len (fuel : nat) (lr lb e : N) : N :=
  match fuel with
  | O => 0
  | S f =>
    if e =? 0 then 0
    else N.max (if N.odd e then lr + lb else 0)
               (N.max (lb + lb) (pow_max_len f (if N.odd e then lr + lb else lr) (2 * lb) (N.div2 e)))
  end.

(* factorial: while self > 1 { test_int; res *= self; self -= 1 }, res has
   at most lr limbs throughout *)
Definition factorial_trace (n lr : N) : trace :=
  repeat_trace (N.to_nat (n - 1)) (Poll :: mul_trace lr 1 ++ [Work 1]).

(* fibonacci: while n > 1 { test_int; (b, a) = (a + b, b) } *)
Definition fibonacci_trace (n l : N) : trace :=
  repeat_trace (N.to_nat (n - 1)) [Poll; Work (l + 1)].

(* new_die(count, faces) *)
Definition die1_trace (faces : N) : trace := repeat_trace (N.to_nat faces) [Poll; Work 1].

(* ------------------------------------------------------------------ *)
(* loops without a poll *)

(* Date::add / Date::sub with n days *)
Definition date_days_trace (n : N) : trace := repeat_trace (N.to_nat n) [Work 1].

(* lshift_n: rhs / 64 inserts at the front of a vector that has l0, l0+1, ...
   limbs, then fewer than 64 one-bit shifts *)
Fixpoint inserts_trace (k : nat) (l : N) : trace :=
  match k with O => [] | S k' => Work l :: inserts_trace k' (l + 1) end.
Definition lshift_n_trace (l0 n : N) : trace :=
  inserts_trace (N.to_nat (n / 64)) l0
  ++ repeat_trace (N.to_nat (n mod 64)) (lshift1_trace (l0 + n / 64)).

(* Dist::bop on distributions with la and lb outcomes: la * lb rounds, each a
   numeric operation and a linear search among the outcomes found so far
   (at least one, at most la * lb) *)
Definition dist_bop_trace (la lb : N) : trace :=
  repeat_trace (N.to_nat (la * lb)) [Work 1; Work 1].

(* the parser on  1 (1 (1 ... (1 : each level parses the rest twice *)
Fixpoint parse_juxt_cost (depth : nat) : N :=
  match depth with O => 1 | S d => 2 * parse_juxt_cost d + 1 end.
Definition parse_juxt_trace (depth : nat) : trace := [Work (parse_juxt_cost depth)].
Definition juxt_tokens (depth : nat) : N := 2 * N.of_nat depth + 1.

(* ------------------------------------------------------------------ *)
(* exact poll counts of the polled loops on concrete values (used by the
   check as lower bounds for what the implementation's interrupt sees) *)

Definition two64 : N := 18446744073709551616.
Definition limbs (x : N) : N := if x <? two64 then 1 else N.log2 x / 64 + 1.

(* BigUint::mul: Small * Small without overflow does not poll; otherwise
   mul_internal polls once per limb of the right operand (none if a factor is 0) *)
Definition mul_polls (x y : N) : N :=
  if (x <? two64) && (y <? two64) && (x * y <? two64) then 0
  else if (x =? 0) || (y =? 0) then 0 else limbs y.

Fixpoint pow_polls (fuel : nat) (r b e : N) : N :=
  match fuel with
  | O => 0
  | S f =>
    if e =? 0 then 0
    else 1 + (if N.odd e then mul_polls r b else 0) + mul_polls b b
           + pow_polls f (if N.odd e then r * b else r) (b * b) (N.div2 e)
  end.
(* BigUint::pow(a, b) for b > 0 *)
Definition pow_polls_of (a e : N) : N := pow_polls (S (N.to_nat (N.size e))) 1 a e.

Fixpoint factorial_polls (fuel : nat) (res n : N) : N :=
  match fuel with
  | O => 0
  | S f => if n <=? 1 then 0 else 1 + mul_polls res n + factorial_polls f (res * n) (n - 1)
  end.
Definition factorial_polls_of (n : N) : N := factorial_polls (N.to_nat n) 1 n.

Definition fibonacci_polls_of (n : N) : N := if n <=? 1 then 0 else n - 1.

(* new_die(count, faces): faces polls per single die, count - 1 loop polls *)
Definition new_die_polls_of (count faces : N) : N :=
  if count <=? 1 then faces else count * faces + (count - 1).
