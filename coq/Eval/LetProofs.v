(* C09, let-substitution: binding a name to a pure expression and then using
   the name gives the same result as writing the parenthesised expression in
   its place.  Variables hold values (evaluated once), the substituted text
   is re-evaluated at every use: the two runs are not in lockstep, the
   substituted one needs K more units of fuel (existential-fuel simulation,
   with the offset K uniform because the evaluator passes fuel - 1 to every
   sub-evaluation). *)
From FendV Require Import Base.Prelude Eval.Calc Eval.CalcProofs Eval.Close Eval.CloseProofs.
From Coq Require Import Lia.
Open Scope N_scope.

Section LetSubst.

Variable num : Type.
Variable num_un : unop -> num -> option num.
Variable num_bop : bop -> num -> num -> option num.
Variable builtin : ident -> option (ident + num).
Variable builtin_apply : ident -> num -> option num.
Variable unit_of : ident -> option num.
Variable unit_static : ident -> option num.
Variable isparam : ident -> bool.
Variable assignable : ident -> bool.

Hypothesis Hx : isparam id_x = true.
Hypothesis Hbuiltin : forall x g, builtin x = Some (inl g) -> isparam g = false.
Hypothesis Hunit : forall a b, isparam a = true \/ isparam b = true -> unit_static (underscore_join a b) = None.

Notation expr := (expr num).
Notation scope := (scope num).
Notation value := (value num).
Notation state := (state num).
Notation M := (M num).
Notation okp := (okp isparam assignable).
Notation wss := (wss isparam assignable).
Notation wsv := (wsv isparam assignable).
Notation eval := (Calc.eval num num_un num_bop builtin builtin_apply unit_of unit_static).
Notation eval_node := (Calc.eval_node num num_un num_bop builtin builtin_apply unit_of unit_static).
Notation resolve := (Calc.resolve num builtin unit_of).
Notation vapply := (Calc.apply num num_bop builtin_apply).
Notation handle_num := (Calc.handle_num num).
Notation handle_two_nums := (Calc.handle_two_nums num num_bop).
Notation lookup_static := (Calc.lookup_static num builtin unit_of).
Notation builtin_value := (Calc.builtin_value num builtin).
Notation WFst := (WFst num isparam assignable).
Notation Pres := (Pres num isparam assignable).
Notation okv := (okv num isparam assignable).
Notation config_ok := (config_ok num isparam assignable).
Notation hn := (hn num).
Notation lz_ok := (lz_ok num isparam assignable).

(* the let-bound name, its right-hand side, the names the right-hand side
   reads from the context *)
Variable x : ident.
Variable e : expr.
Variable G : list ident.
Hypothesis Hxg : isparam x = false.
Hypothesis Hxunit : forall b, unit_static (underscore_join x b) = None /\ unit_static (underscore_join b x) = None.
Hypothesis He : okp [] e = true.
Hypothesis Hassign : forall y, assignable y = true -> ident_eqb y x = false /\ inb y G = false.

(* purity of the right-hand side: with at least K units of fuel, in every
   state that agrees with the reference on the names in G, it evaluates --
   without changing a variable -- to a value with closed form cv *)
Variable cv : value.
Variable K : nat.
Variable vars0 : vars num.
Definition AgreeG (st : state) : Prop :=
  forall y, inb y G = true -> get_var y (nvs (s_vars st)) = get_var y vars0.
Hypothesis Hpure : forall st fuel, WFst st -> AgreeG st -> (K <= fuel)%nat ->
  exists s' v', eval None fuel e SNil st = (s', Good v')
    /\ nvs (s_vars s') = nvs (s_vars st) /\ nv v' = cv.

(* ------------------------------------------------------------------ *)
(* "some uses of x replaced by (e)" *)

Inductive LS : expr -> expr -> Prop :=
| LS_x : LS (EIdent x) (EParens e)
| LS_lit : forall n, LS (ELit n) (ELit n)
| LS_unit : LS EUnitLit EUnitLit
| LS_id : forall y, LS (EIdent y) (EIdent y)
| LS_par : forall a a', LS a a' -> LS (EParens a) (EParens a')
| LS_un : forall u a a', LS a a' -> LS (EUn u a) (EUn u a')
| LS_bop : forall op a a' b b', LS a a' -> LS b b' -> LS (EBop op a b) (EBop op a' b')
| LS_app : forall a a' b b', LS a a' -> LS b b' -> LS (EApply a b) (EApply a' b')
| LS_appfn : forall a a' b b', LS a a' -> LS b b' -> LS (EApplyFn a b) (EApplyFn a' b')
| LS_appmul : forall a a' b b', LS a a' -> LS b b' -> LS (EApplyMul a b) (EApplyMul a' b')
| LS_fn : forall y b b', LS b b' -> LS (EFn y b) (EFn y b')
| LS_assign : forall y a a', LS a a' -> LS (EAssign y a) (EAssign y a')
| LS_stmts : forall a a' b b', LS a a' -> LS b b' -> LS (EStmts a b) (EStmts a' b').

Lemma LS_refl : forall a, LS a a.
Proof. induction a; constructor; assumption. Qed.

(* the substitution the law is about produces LS-related text *)
Lemma LS_subst : forall (u : expr) bd, okp bd u = true -> LS u (subst x (EParens e) u).
Proof.
  induction u; intros bd O; cbn [subst]; cbn [Close.okp] in O;
    try (constructor; eauto; fail);
    try (apply andb_true_iff in O; destruct O; constructor; eauto; fail).
  - destruct (ident_eqb x x0) eqn:E; [apply ident_eqb_eq in E; subst; constructor | constructor].
  - apply andb_true_iff in O. destruct O as [P O].
    destruct (ident_eqb x x0) eqn:E.
    + apply ident_eqb_eq in E. subst. congruence.
    + constructor. eauto.
Qed.

Lemma msub_e : forall p t, isparam p = true -> msub [(p, t)] e = e.
Proof.
  intros p t P. eapply (msub_id num isparam assignable); [exact He|].
  intros y t0 L. cbn [lookup] in L. destruct (ident_eqb y p) eqn:E; [|discriminate].
  apply ident_eqb_eq in E. subst. split; [exact P | reflexivity].
Qed.

Lemma LS_msub1 : forall b b', LS b b' -> forall p t t', isparam p = true -> LS t t' ->
  LS (msub [(p, t)] b) (msub [(p, t')] b').
Proof.
  induction 1; intros p t t' P T; cbn [msub]; try (constructor; eauto; fail).
  - cbn [lookup]. destruct (ident_eqb x p) eqn:E.
    + apply ident_eqb_eq in E. subst. congruence.
    + rewrite (msub_e p t' P). constructor.
  - cbn [lookup]. destruct (ident_eqb y p); [exact T | constructor].
  - cbn [remove]. destruct (ident_eqb y p); [rewrite !msub_nil; constructor; assumption | constructor; eauto].
Qed.

Inductive LSv : value -> value -> Prop :=
| LSv_num : forall n, LSv (VNum n) (VNum n)
| LSv_unit : LSv VUnit VUnit
| LSv_builtin : forall g, LSv (VBuiltin g) (VBuiltin g)
| LSv_fn : forall p b b', LS b b' -> LSv (VFn p b SNil) (VFn p b' SNil).

Definition RVL (v1 v2 : value) : Prop := LSv (nv v1) (nv v2).

Lemma LSv_refl_nv : forall v, LSv (nv v) (nv v).
Proof. intros [n| |p b s|g]; cbn; constructor. apply LS_refl. Qed.

Lemma RV_RVL : forall v1 v2, nv v1 = nv v2 -> RVL v1 v2.
Proof. intros v1 v2 H. unfold RVL. rewrite H. apply LSv_refl_nv. Qed.

Definition LSvars (a b : vars num) : Prop :=
  Forall2 (fun p q => fst p = fst q /\ LSv (snd p) (snd q)) a b.

Lemma LSvars_get : forall y a b, LSvars a b ->
  match get_var y a, get_var y b with
  | Some v, Some w => LSv v w
  | None, None => True
  | _, _ => False
  end.
Proof.
  intros y a b H. induction H as [|[k1 v1] [k2 v2] a b [E L] _ IH]; cbn; [exact I|].
  cbn in E. subst k2. destruct (ident_eqb y k1); [exact L | exact IH].
Qed.

Lemma LSvars_remove : forall y a b, LSvars a b -> LSvars (remove_var y a) (remove_var y b).
Proof.
  intros y a b H. induction H as [|[k1 v1] [k2 v2] a b [E L] _ IH]; cbn; [constructor|].
  cbn in E. subst k2. destruct (ident_eqb y k1); [exact IH | constructor; [split; [reflexivity | exact L] | exact IH]].
Qed.

Lemma LSvars_set : forall y v w a b, LSv v w -> LSvars a b -> LSvars (set_var y v a) (set_var y w b).
Proof.
  intros. unfold set_var. constructor; [split; [reflexivity | assumption] | apply LSvars_remove; assumption].
Qed.

Lemma LSvars_refl : forall a : vars num, LSvars (nvs a) (nvs a).
Proof.
  induction a as [|[k v] a IH]; cbn; constructor; [split; [reflexivity | apply LSv_refl_nv] | exact IH].
Qed.

Definition InvX (st : state) : Prop :=
  exists w, get_var x (nvs (s_vars st)) = Some w /\ LSv w cv.

Definition SR (st1 st2 : state) : Prop :=
  LSvars (nvs (s_vars st1)) (nvs (s_vars st2)) /\ InvX st1 /\ AgreeG st2.

Definition Rel3 {A} (RA : A -> A -> Prop) (m1 m2 : M A) : Prop :=
  forall st1 st2, WFst st1 -> WFst st2 -> SR st1 st2 -> snd (m1 st1) <> Bad EFuel ->
    SR (fst (m1 st1)) (fst (m2 st2))
    /\ match snd (m1 st1), snd (m2 st2) with
       | Good a1, Good a2 => RA a1 a2
       | Bad e1, Bad e2 => e1 = e2
       | _, _ => False
       end.

Lemma Rel3_ret : forall A (RA : A -> A -> Prop) a1 a2, RA a1 a2 -> Rel3 RA (ret a1) (ret a2).
Proof. intros A RA a1 a2 H st1 st2 _ _ S _. cbn. auto. Qed.

Lemma Rel3_fail : forall A (RA : A -> A -> Prop) e0, Rel3 RA (@fail num A e0) (fail e0).
Proof. intros A RA e0 st1 st2 _ _ S _. cbn. auto. Qed.

Lemma Rel3_lift : forall A (RA : A -> A -> Prop) (o : option A), (forall a, RA a a) -> Rel3 RA (lift o) (lift o).
Proof. intros A RA [a|] H; [apply Rel3_ret; auto | apply Rel3_fail]. Qed.

Lemma Rel3_bind : forall A R (RA : A -> A -> Prop) (RB : R -> R -> Prop) (Q1 Q2 : A -> Prop)
  (m1 m2 : M A) (f1 f2 : A -> M R),
  Rel3 RA m1 m2 -> Pres m1 Q1 -> Pres m2 Q2 ->
  (forall a1 a2, RA a1 a2 -> Q1 a1 -> Q2 a2 -> Rel3 RB (f1 a1) (f2 a2)) ->
  Rel3 RB (mbind m1 f1) (mbind m2 f2).
Proof.
  intros A R RA RB Q1 Q2 m1 m2 f1 f2 Hr Hp1 Hp2 Hf st1 st2 W1 W2 S NF. unfold mbind in *.
  destruct (Hp1 st1 W1) as [W1' P1]. destruct (Hp2 st2 W2) as [W2' P2].
  assert (snd (m1 st1) <> Bad EFuel) as NF1.
  { intro E. destruct (m1 st1) as [s1 r1]. cbn in E. subst r1. apply NF. reflexivity. }
  destruct (Hr st1 st2 W1 W2 S NF1) as [S' O].
  destruct (m1 st1) as [s1 [a1|e1]], (m2 st2) as [s2 [a2|e2]]; cbn [fst snd] in *; try contradiction.
  - apply Hf; auto.
  - auto.
Qed.

Lemma Rel3_tick : Rel3 (fun _ _ => True) (tick None) (tick None).
Proof. intros st1 st2 _ _ S _. cbn. auto. Qed.

Lemma Rel3_read_var : forall y,
  Rel3 (fun o1 o2 => match o1, o2 with Some v, Some w => RVL v w | None, None => True | _, _ => False end)
       (read_var y) (read_var y).
Proof.
  intros y st1 st2 _ _ S _. cbn. split; [exact S|].
  destruct S as [L _]. pose proof (LSvars_get y _ _ L) as H. rewrite !nvs_get in H.
  destruct (get_var y (s_vars st1)), (get_var y (s_vars st2)); cbn in H; auto.
Qed.

Lemma Rel3_assign : forall y v1 v2, assignable y = true -> RVL v1 v2 ->
  Rel3 (fun _ _ => True) (do_event (LAssign y v1)) (do_event (LAssign y v2)).
Proof.
  intros y v1 v2 Ay H st1 st2 _ _ (L & (w & Gx & Lw) & Ag) _. cbn [do_event fst snd s_vars apply_event].
  destruct (Hassign y Ay) as [Nx Ng].
  split; [|exact I]. split; [|split]; unfold InvX, AgreeG; cbn [s_vars].
  - rewrite !nvs_set. apply LSvars_set; assumption.
  - exists w. rewrite nvs_set. rewrite get_set_other; [auto|]. rewrite ident_eqb_sym. exact Nx.
  - intros z Hz. rewrite nvs_set. rewrite get_set_other; [apply Ag; exact Hz|].
    destruct (ident_eqb z y) eqn:E; [|reflexivity]. apply ident_eqb_eq in E. subst. congruence.
Qed.


(* ------------------------------------------------------------------ *)
(* values *)

Lemma RVL_shape : forall v1 v2, RVL v1 v2 ->
  match v1, v2 with
  | VNum a, VNum b => a = b
  | VUnit, VUnit => True
  | VFn p _ _, VFn q _ _ => p = q
  | VBuiltin g, VBuiltin h => g = h
  | _, _ => False
  end.
Proof. intros [a| |p b c|g] [a'| |p' b' c'|g'] H; unfold RVL in H; cbn in H; inversion H; auto. Qed.

Definition lz_ls (lz : expr -> expr) : Prop := forall a a', LS a a' -> LS (lz a) (lz a').

Lemma lz_ls_un : forall u, lz_ls (EUn u).
Proof. intros u a a' H. constructor. exact H. Qed.
Lemma lz_ls_bop_l : forall op (n : num), lz_ls (fun f => EBop op f (ELit n)).
Proof. intros op n a a' H. constructor; [exact H | constructor]. Qed.
Lemma lz_ls_bop_r : forall op (n : num), lz_ls (fun f => EBop op (ELit n) f).
Proof. intros op n a a' H. constructor; [constructor | exact H]. Qed.

Lemma RVL_fn_lz : forall p b1 c1 b2 c2 lz, lz_ok lz -> lz_ls lz ->
  RVL (VFn p b1 c1) (VFn p b2 c2) -> RVL (VFn p (lz b1) c1) (VFn p (lz b2) c2).
Proof.
  intros p b1 c1 b2 c2 lz [_ L2] Hl H. unfold RVL in *. cbn [nv] in *. inversion H; subst.
  rewrite !L2. constructor. apply Hl. assumption.
Qed.

Lemma Rel3_handle_num : forall v1 v2 f lz s1 s2,
  RVL v1 v2 -> okv v1 -> okv v2 -> lz_ok lz -> lz_ls lz -> wss s1 = true -> wss s2 = true ->
  Rel3 RVL (handle_num v1 f lz s1) (handle_num v2 f lz s2).
Proof.
  intros v1 v2 f lz s1 s2 H O1 O2 L Ll W1 W2. pose proof (RVL_shape _ _ H) as S.
  destruct v1, v2; try contradiction; cbn [Calc.handle_num].
  - subst. eapply Rel3_bind; [apply Rel3_lift; intros; reflexivity | apply Pres_lift; intros; exact I | apply Pres_lift; intros; exact I |].
    intros a1 a2 Ea _ _. subst. apply Rel3_ret. apply RV_RVL. reflexivity.
  - apply Rel3_fail.
  - subst. apply Rel3_ret. apply RVL_fn_lz; assumption.
  - subst. apply Rel3_ret. apply RV_RVL.
    unfold CloseProofs.okv in O1. cbn in O1. apply negb_true_iff in O1.
    rewrite !(nv_wrap_builtin num isparam assignable) by assumption. reflexivity.
Qed.

Lemma Rel3_handle_two_nums : forall a1 a2 b1 b2 op s1 s2,
  RVL a1 a2 -> RVL b1 b2 -> okv a1 -> okv a2 -> okv b1 -> okv b2 -> wss s1 = true -> wss s2 = true ->
  Rel3 RVL (handle_two_nums a1 b1 op s1) (handle_two_nums a2 b2 op s2).
Proof.
  intros a1 a2 b1 b2 op s1 s2 Ha Hb Oa1 Oa2 Ob1 Ob2 W1 W2.
  pose proof (RVL_shape _ _ Ha) as Sa. pose proof (RVL_shape _ _ Hb) as Sb.
  destruct a1, a2; try contradiction; destruct b1, b2; try contradiction; cbn [Calc.handle_two_nums];
    subst; try apply Rel3_fail.
  - eapply Rel3_bind; [apply Rel3_lift; intros; reflexivity | apply Pres_lift; intros; exact I | apply Pres_lift; intros; exact I |].
    intros x1 x2 Ex _ _. subst. apply Rel3_ret. apply RV_RVL. reflexivity.
  - apply Rel3_ret. apply (RVL_fn_lz _ _ _ _ _ (fun f => EBop op (ELit n0) f)); [apply lz_bop_r | apply lz_ls_bop_r | exact Hb].
  - apply Rel3_ret. apply RV_RVL. unfold CloseProofs.okv in Ob1. cbn in Ob1. apply negb_true_iff in Ob1.
    rewrite !(nv_wrap_builtin num isparam assignable); auto; apply lz_bop_r.
  - apply Rel3_ret. apply (RVL_fn_lz _ _ _ _ _ (fun f => EBop op f (ELit n0))); [apply lz_bop_l | apply lz_ls_bop_l | exact Ha].
  - apply Rel3_ret. apply RV_RVL. unfold CloseProofs.okv in Oa1. cbn in Oa1. apply negb_true_iff in Oa1.
    rewrite !(nv_wrap_builtin num isparam assignable); auto; apply lz_bop_l.
Qed.

(* what the closed form of a head-normal expression looks like *)
Lemma close_hn_ident : forall y sc, hn (EIdent y) sc -> close sc (EIdent y) = EIdent y.
Proof. intros y sc H. apply close_ident_unbound. exact H. Qed.

Lemma scope_find_param : forall (sc : scope) y a sa, wss sc = true -> scope_find y sc = Some (a, sa) -> isparam y = true.
Proof.
  induction sc as [|z b sb _ inner IH]; intros y a sa W F; cbn in *; [discriminate|].
  apply andb_true_iff in W. destruct W as [W Win].
  apply andb_true_iff in W. destruct W as [W Wsb].
  apply andb_true_iff in W. destruct W as [Pz Ob].
  destruct (ident_eqb y z) eqn:E; [apply ident_eqb_eq in E; subst; exact Pz | eauto].
Qed.

Lemma x_unbound : forall sc : scope, wss sc = true -> scope_find x sc = None.
Proof.
  intros sc W. destruct (scope_find x sc) as [[a sa]|] eqn:F; [|reflexivity].
  pose proof (scope_find_param _ _ _ _ W F). congruence.
Qed.

Section LetNode.
  Variable f : nat.
  Notation ev1 := (eval None f).
  Notation ev2 := (eval None (f + K)).
  Hypothesis IH : forall e1 s1 e2 s2, config_ok e1 s1 -> config_ok e2 s2 ->
    LS (close s1 e1) (close s2 e2) -> Rel3 RVL (ev1 e1 s1) (ev2 e2 s2).

  Lemma IHP1 : forall a sc, config_ok a sc -> Pres (ev1 a sc) okv.
  Proof. intros a sc [O W]. apply (Pres_eval num num_un num_bop builtin builtin_apply unit_of unit_static isparam assignable Hx Hbuiltin); assumption. Qed.
  Lemma IHP2 : forall a sc, config_ok a sc -> Pres (ev2 a sc) okv.
  Proof. intros a sc [O W]. apply (Pres_eval num num_un num_bop builtin builtin_apply unit_of unit_static isparam assignable Hx Hbuiltin); assumption. Qed.

  Lemma Rel3_apply : forall v1 v2 a1 a2 m s1 s2,
    RVL v1 v2 -> okv v1 -> okv v2 -> config_ok a1 s1 -> config_ok a2 s2 -> LS (close s1 a1) (close s2 a2) ->
    Rel3 RVL (vapply ev1 v1 a1 m s1) (vapply ev2 v2 a2 m s2).
  Proof.
    intros v1 v2 a1 a2 m s1 s2 H O1 O2 C1 C2 E. pose proof (RVL_shape _ _ H) as S.
    destruct v1, v2; try contradiction; cbn [Calc.apply]; subst.
    - eapply Rel3_bind; [apply IH; eassumption | apply IHP1; assumption | apply IHP2; assumption|].
      intros o1 o2 Ro Q1 Q2. destruct m; [apply Rel3_fail|].
      destruct C1, C2. apply Rel3_handle_num; auto; [apply lz_bop_r | apply lz_ls_bop_r].
    - apply Rel3_fail.
    - unfold CloseProofs.okv in O1, O2. cbn [Close.wsv] in O1, O2.
      apply andb_true_iff in O1. destruct O1 as [O1 Wc1]. apply andb_true_iff in O1. destruct O1 as [P1 B1].
      apply andb_true_iff in O2. destruct O2 as [O2 Wc2]. apply andb_true_iff in O2. destruct O2 as [P2 B2].
      destruct C1 as [A1 W1], C2 as [A2 W2].
      apply IH.
      + split; cbn [dom Close.wss]; [exact B1|]. rewrite P1, A1, W1, Wc1. reflexivity.
      + split; cbn [dom Close.wss]; [exact B2|]. rewrite P2, A2, W2, Wc2. reflexivity.
      + rewrite !(close_fn_body num isparam assignable) by assumption.
        unfold RVL in H. cbn [nv] in H. inversion H; subst.
        apply LS_msub1; [assumption | exact P1 | constructor; exact E].
    - eapply Rel3_bind; [apply IH; eassumption | apply IHP1; assumption | apply IHP2; assumption|].
      intros o1 o2 Ro Q1 Q2. pose proof (RVL_shape _ _ Ro) as So.
      destruct o1, o2; try contradiction; try apply Rel3_fail. subst.
      eapply Rel3_bind; [apply Rel3_lift; intros; reflexivity | apply Pres_lift; intros; exact I | apply Pres_lift; intros; exact I |].
      intros x1 x2 Ex _ _. subst. apply Rel3_ret. apply RV_RVL. reflexivity.
  Qed.

  Lemma Rel3_resolve_unbound : forall y s1 s2,
    scope_find y s1 = None -> scope_find y s2 = None ->
    Rel3 RVL (resolve ev1 y s1) (resolve ev2 y s2).
  Proof.
    intros y s1 s2 F1 F2. unfold Calc.resolve. rewrite F1, F2.
    eapply Rel3_bind; [apply Rel3_read_var | apply Pres_read_var | apply Pres_read_var |].
    intros o1 o2 Ro Q1 Q2. destruct o1 as [v1|], o2 as [v2|]; cbn in Ro; try contradiction.
    - apply Rel3_ret. exact Ro.
    - destruct (lookup_static y); [apply Rel3_ret; apply RV_RVL; reflexivity|].
      destruct (all_upper_or_digit y); [|apply Rel3_fail].
      destruct (builtin_value (to_lower y)); [apply Rel3_ret; apply RV_RVL; reflexivity | apply Rel3_fail].
  Qed.

  (* a use of x: the variable's value on the left, a fresh evaluation of e on the right *)
  Lemma Rel3_use : forall s1 a2 s2,
    scope_find x s1 = None -> config_ok a2 s2 -> close s2 a2 = e ->
    Rel3 RVL (resolve ev1 x s1) (ev2 a2 s2).
  Proof.
    intros s1 a2 s2 F1 C2 E st1 st2 W1 W2 (L & (w & Gx & Lw) & Ag) _.
    unfold Calc.resolve. rewrite F1. unfold mbind, read_var. cbn [fst snd].
    rewrite nvs_get in Gx. destruct (get_var x (s_vars st1)) as [w1|] eqn:G1; [|discriminate].
    cbn in Gx. inversion Gx; subst w. cbn [ret fst snd].
    (* the right-hand side: same closed form as e in the empty scope, and e is pure *)
    assert (config_ok e SNil) as Ce by (split; [exact He | reflexivity]).
    assert (close s2 a2 = close SNil e) as Ec.
    { rewrite E. unfold close. cbn [closing]. rewrite msub_nil. reflexivity. }
    destruct (lockstep_same_lemma num num_un num_bop builtin builtin_apply unit_of unit_static isparam assignable
                Hx Hbuiltin Hunit None (f + K) a2 e s2 SNil st2 C2 Ce Ec W2) as [En Eo].
    destruct (Hpure st2 (f + K)%nat W2 Ag ltac:(lia)) as (s' & v' & Ev & Vs & Vv).
    rewrite Ev in En, Eo. cbn [fst snd] in En, Eo.
    destruct (ev2 a2 s2 st2) as [s2' r2]. cbn [fst snd] in *.
    destruct r2 as [v2|e2]; cbn in Eo; [|discriminate]. inversion Eo as [Ev2].
    assert (nvs (s_vars s2') = nvs (s_vars st2)) as Vs2.
    { unfold nst in En. inversion En. congruence. }
    split.
    - split; [rewrite Vs2; exact L | split].
      + exists (nv w1). rewrite nvs_get, G1. auto.
      + intros y Hy. rewrite Vs2. apply Ag. exact Hy.
    - unfold RVL. rewrite Ev2, Vv. exact Lw.
  Qed.

  Lemma ls_ident_inv : forall y c, LS (EIdent y) c -> c = EIdent y \/ (y = x /\ c = EParens e).
  Proof. intros y c H. inversion H; subst; auto. Qed.

  Lemma ls_ident_inv_r : forall c y, LS c (EIdent y) -> c = EIdent y.
  Proof. intros c y H. inversion H; subst; auto. Qed.

  Lemma close_is_ident : forall (a : expr) sc y, close sc a = EIdent y -> a = EIdent y.
  Proof.
    intros a sc y. unfold close. destruct a; cbn [msub]; try discriminate.
    destruct (lookup x0 (closing sc)) as [t|] eqn:L.
    - pose proof (scope_find_closing num x0 sc) as Kc.
      destruct (scope_find x0 sc) as [[b sb]|]; rewrite Kc in L; [|discriminate].
      inversion L; subst. discriminate.
    - auto.
  Qed.

  Lemma close_global : forall (sc : scope) y, wss sc = true -> isparam y = false -> close sc (EIdent y) = EIdent y.
  Proof.
    intros sc y W P. unfold close. cbn [msub].
    destruct (lookup y (closing sc)) as [t|] eqn:L; [|reflexivity].
    pose proof (closing_dom_param num isparam assignable sc W _ _ L). congruence.
  Qed.

  Lemma unit_check_same : forall (a1 b1 a2 b2 : expr) s1 s2,
    config_ok a1 s1 -> config_ok b1 s1 -> config_ok a2 s2 -> config_ok b2 s2 ->
    LS (close s1 a1) (close s2 a2) -> LS (close s1 b1) (close s2 b2) ->
    (match a1, b1 with EIdent p, EIdent q => unit_static (underscore_join p q) | _, _ => None end)
    = (match a2, b2 with EIdent p, EIdent q => unit_static (underscore_join p q) | _, _ => None end).
  Proof.
    intros a1 b1 a2 b2 s1 s2 [_ W1] _ [_ W2] _ Ea Eb.
    assert (forall (a b : expr),
      (exists p q, a = EIdent p /\ b = EIdent q /\ isparam p = false /\ isparam q = false
                   /\ ident_eqb p x = false /\ ident_eqb q x = false)
      \/ (match a, b with EIdent p, EIdent q => unit_static (underscore_join p q) | _, _ => None end) = None) as Cases.
    { intros a b. destruct a; auto. destruct b; auto.
      destruct (isparam x0) eqn:Pp; [right; apply Hunit; auto|].
      destruct (isparam x1) eqn:Pq; [right; apply Hunit; auto|].
      destruct (ident_eqb x0 x) eqn:Ex; [apply ident_eqb_eq in Ex; subst; right; apply Hxunit|].
      destruct (ident_eqb x1 x) eqn:Ey; [apply ident_eqb_eq in Ey; subst; right; apply Hxunit|].
      left. exists x0, x1. auto 10. }
    destruct (Cases a1 b1) as [(p & q & -> & -> & Pp & Pq & Xp & Xq) | N1].
    - rewrite (close_global s1 p W1 Pp) in Ea. rewrite (close_global s1 q W1 Pq) in Eb.
      destruct (ls_ident_inv _ _ Ea) as [Ca | [Cx _]]; [|subst; rewrite ident_eqb_refl in Xp; discriminate].
      destruct (ls_ident_inv _ _ Eb) as [Cb | [Cx _]]; [|subst; rewrite ident_eqb_refl in Xq; discriminate].
      apply close_is_ident in Ca. apply close_is_ident in Cb. subst. reflexivity.
    - rewrite N1. destruct (Cases a2 b2) as [(p & q & -> & -> & Pp & Pq & Xp & Xq) | N2]; [|rewrite N2; reflexivity].
      rewrite (close_global s2 p W2 Pp) in Ea. rewrite (close_global s2 q W2 Pq) in Eb.
      apply ls_ident_inv_r in Ea. apply ls_ident_inv_r in Eb.
      apply close_is_ident in Ea. apply close_is_ident in Eb. subst. symmetry. exact N1.
  Qed.

  Lemma close_hn_form : forall (a : expr) sc, hn a sc ->
    close sc a = match a with
                 | ELit n => ELit n
                 | EUnitLit => EUnitLit
                 | EIdent y => EIdent y
                 | EParens b => EParens (close sc b)
                 | EUn u b => EUn u (close sc b)
                 | EBop op b c => EBop op (close sc b) (close sc c)
                 | EApply b c => EApply (close sc b) (close sc c)
                 | EApplyFn b c => EApplyFn (close sc b) (close sc c)
                 | EApplyMul b c => EApplyMul (close sc b) (close sc c)
                 | EFn y b => EFn y (msub (remove y (closing sc)) b)
                 | EAssign y b => EAssign y (close sc b)
                 | EStmts b c => EStmts (close sc b) (close sc c)
                 end.
  Proof. intros a sc H. destruct a; try reflexivity. apply close_ident_unbound. exact H. Qed.

  Lemma cok1 : forall (k : expr -> expr) (a : expr) sc,
    (forall bd, okp bd (k a) = okp bd a) -> config_ok (k a) sc -> config_ok a sc.
  Proof. intros k a sc Hk [O W]. rewrite Hk in O. split; assumption. Qed.
  Lemma cok2 : forall (k : expr -> expr -> expr) (a b : expr) sc,
    (forall bd, okp bd (k a b) = okp bd a && okp bd b) ->
    config_ok (k a b) sc -> config_ok a sc /\ config_ok b sc.
  Proof.
    intros k a b sc Hk [O W]. rewrite Hk in O. apply andb_true_iff in O. destruct O.
    split; split; assumption.
  Qed.
  Lemma cok_assign : forall y (a : expr) sc, config_ok (EAssign y a) sc -> assignable y = true /\ config_ok a sc.
  Proof.
    intros y a sc [O W]. cbn [Close.okp] in O. apply andb_true_iff in O. destruct O.
    split; [assumption | split; assumption].
  Qed.

  Ltac ih := apply IH; [assumption | assumption | assumption].
  Ltac bindih := eapply Rel3_bind; [ih | apply IHP1; assumption | apply IHP2; assumption |].

  Lemma Rel3_eval_node_hn : forall e1 s1 e2 s2,
    config_ok e1 s1 -> config_ok e2 s2 -> hn e1 s1 -> hn e2 s2 ->
    LS (close s1 e1) (close s2 e2) ->
    Rel3 RVL (eval_node ev1 e1 s1) (eval_node ev2 e2 s2).
  Proof.
    intros e1 s1 e2 s2 C1 C2 H1 H2 E.
    rewrite (close_hn_form e1 s1 H1), (close_hn_form e2 s2 H2) in E.
    destruct e1; destruct e2; inversion E; subst; cbn [Calc.eval_node].
    - (* literal *) apply Rel3_ret. apply RV_RVL. reflexivity.
    - apply Rel3_ret. apply RV_RVL. reflexivity.
    - (* the same identifier on both sides *)
      apply Rel3_resolve_unbound; assumption.
    - (* x on the left, (e) on the right *)
      destruct C1 as [_ W1].
      apply Rel3_use; [apply x_unbound; exact W1 | apply (cok1 EParens _ _ (fun bd => eq_refl) C2) | symmetry; assumption].
    - pose proof (cok1 EParens _ _ (fun bd => eq_refl) C1). pose proof (cok1 EParens _ _ (fun bd => eq_refl) C2). ih.
    - pose proof (cok1 (EUn u0) _ _ (fun bd => eq_refl) C1) as D1. pose proof (cok1 (EUn u0) _ _ (fun bd => eq_refl) C2) as D2.
      bindih. intros v1 v2 Rv Q1 Q2. destruct C1, C2.
      apply Rel3_handle_num; auto; [apply lz_un | apply lz_ls_un].
    - destruct (cok2 (EBop op0) _ _ _ (fun bd => eq_refl) C1) as [Ca1 Cb1].
      destruct (cok2 (EBop op0) _ _ _ (fun bd => eq_refl) C2) as [Ca2 Cb2].
      assert (Rel3 RVL
        (mbind (ev1 e1_1 s1) (fun va => mbind (ev1 e1_2 s1) (fun vb => handle_two_nums va vb op0 s1)))
        (mbind (ev2 e2_1 s2) (fun va => mbind (ev2 e2_2 s2) (fun vb => handle_two_nums va vb op0 s2)))) as Generic.
      { bindih. intros va1 va2 Ra Qa1 Qa2. bindih. intros vb1 vb2 Rb Qb1 Qb2.
        destruct C1, C2. apply Rel3_handle_two_nums; auto. }
      destruct op0; try exact Generic.
      bindih. intros va1 va2 Ra Qa1 Qa2. pose proof (RVL_shape _ _ Ra) as Sa.
      destruct va1, va2; try contradiction.
      + bindih. intros vb1 vb2 Rb Qb1 Qb2. pose proof (RVL_shape _ _ Rb) as Sb.
        destruct vb1, vb2; try contradiction; try apply Rel3_fail. subst.
        eapply Rel3_bind; [apply Rel3_lift; intros; reflexivity | apply Pres_lift; intros; exact I | apply Pres_lift; intros; exact I |].
        intros x1 x2 Ex _ _. subst. apply Rel3_ret. apply RV_RVL. reflexivity.
      + apply Rel3_fail.
      + apply Rel3_apply; [exact Ra | exact Qa1 | exact Qa2 | destruct Cb1; split; assumption | destruct Cb2; split; assumption |].
        unfold close. cbn [msub]. constructor. assumption.
      + apply Rel3_apply; [exact Ra | exact Qa1 | exact Qa2 | destruct Cb1; split; assumption | destruct Cb2; split; assumption |].
        unfold close. cbn [msub]. constructor. assumption.
    - destruct (cok2 EApply _ _ _ (fun bd => eq_refl) C1) as [Ca1 Cb1].
      destruct (cok2 EApply _ _ _ (fun bd => eq_refl) C2) as [Ca2 Cb2].
      rewrite (unit_check_same e1_1 e1_2 e2_1 e2_2 s1 s2) by assumption.
      match goal with |- Rel3 _ (match ?o with _ => _ end) _ => destruct o end; [apply Rel3_ret; apply RV_RVL; reflexivity|].
      bindih. intros va1 va2 Ra Qa1 Qa2. apply Rel3_apply; auto.
    - destruct (cok2 EApplyFn _ _ _ (fun bd => eq_refl) C1) as [Ca1 Cb1].
      destruct (cok2 EApplyFn _ _ _ (fun bd => eq_refl) C2) as [Ca2 Cb2].
      bindih. intros va1 va2 Ra Qa1 Qa2. apply Rel3_apply; auto.
    - destruct (cok2 EApplyMul _ _ _ (fun bd => eq_refl) C1) as [Ca1 Cb1].
      destruct (cok2 EApplyMul _ _ _ (fun bd => eq_refl) C2) as [Ca2 Cb2].
      rewrite (unit_check_same e1_1 e1_2 e2_1 e2_2 s1 s2) by assumption.
      match goal with |- Rel3 _ (match ?o with _ => _ end) _ => destruct o end; [apply Rel3_ret; apply RV_RVL; reflexivity|].
      bindih. intros va1 va2 Ra Qa1 Qa2. apply Rel3_apply; auto.
    - apply Rel3_ret. unfold RVL. cbn [nv]. constructor. assumption.
    - destruct (cok_assign _ _ _ C1) as [Ay D1]. destruct (cok_assign _ _ _ C2) as [_ D2].
      bindih. intros v1 v2 Rv Q1 Q2.
      eapply Rel3_bind; [apply Rel3_assign; [exact Ay | exact Rv]
                        | apply (Pres_assign num isparam assignable); exact Q1
                        | apply (Pres_assign num isparam assignable); exact Q2 |].
      intros _ _ _ _ _. apply Rel3_ret. exact Rv.
    - destruct (cok2 EStmts _ _ _ (fun bd => eq_refl) C1) as [Ca1 Cb1].
      destruct (cok2 EStmts _ _ _ (fun bd => eq_refl) C2) as [Ca2 Cb2].
      bindih. intros _ _ _ _ _. ih.
  Qed.

End LetNode.

Lemma Rel3_ext : forall A (RA : A -> A -> Prop) (m1 m1' m2 m2' : M A),
  (forall st, m1 st = m1' st) -> (forall st, m2 st = m2' st) -> Rel3 RA m1' m2' -> Rel3 RA m1 m2.
Proof. intros A RA m1 m1' m2 m2' E1 E2 H st1 st2 W1 W2 S NF. rewrite E1, E2 in *. apply H; assumption. Qed.

(* the simulation: the run that reads the variable with fuel f, the run that
   re-evaluates the text with fuel f + K *)
Lemma let_sim : forall f e1 s1 e2 s2,
  config_ok e1 s1 -> config_ok e2 s2 -> LS (close s1 e1) (close s2 e2) ->
  Rel3 RVL (eval None f e1 s1) (eval None (f + K) e2 s2).
Proof.
  induction f as [|f IHf]; intros e1 s1 e2 s2 C1 C2 E.
  - intros st1 st2 _ _ _ NF. exfalso. apply NF. reflexivity.
  - destruct (head_normal num num_un num_bop builtin builtin_apply unit_of unit_static isparam assignable e1 s1 C1)
      as (e1' & s1' & C1' & H1 & E1 & V1).
    destruct (head_normal num num_un num_bop builtin builtin_apply unit_of unit_static isparam assignable e2 s2 C2)
      as (e2' & s2' & C2' & H2 & E2 & V2).
    eapply Rel3_ext; [intro; apply V1 | intro; apply (V2 None (f + K)%nat) |].
    eapply Rel3_ext; [intro; rewrite eval_S; reflexivity | intro; rewrite eval_S; reflexivity |].
    eapply Rel3_bind; [apply Rel3_tick
                      | apply (Pres_tick num isparam assignable)
                      | apply (Pres_tick num isparam assignable) |].
    intros _ _ _ _ _. apply Rel3_eval_node_hn; auto. rewrite E1, E2. exact E.
Qed.


Definition let_outcome (r1 r2 : state * out value) : Prop :=
  LSvars (nvs (s_vars (fst r1))) (nvs (s_vars (fst r2)))
  /\ match snd r1, snd r2 with
     | Good a, Good b => RVL a b
     | Bad a, Bad b => a = b
     | _, _ => False
     end.

(* let-substitution: in a state where x holds the value of the pure
   expression e, using x gives what writing (e) in its place gives *)
Lemma let_subst_lemma : forall f (u : expr) st,
  config_ok u SNil -> WFst st -> InvX st -> AgreeG st ->
  snd (eval None f u SNil st) <> Bad EFuel ->
  let_outcome (eval None f u SNil st) (eval None (f + K) (subst x (EParens e) u) SNil st).
Proof.
  intros f u st C W IX AG NF.
  assert (config_ok (subst x (EParens e) u) SNil) as C'.
  { apply (subst_config_ok num isparam assignable); [split; [exact He | reflexivity]|].
    destruct C as [O _]. eapply (okp_weaken num isparam assignable); [|exact O]. intros y H. discriminate. }
  assert (LS (close SNil u) (close SNil (subst x (EParens e) u))) as E.
  { unfold close. cbn [closing]. rewrite !msub_nil. destruct C as [O _]. eapply LS_subst. exact O. }
  destruct (let_sim f u SNil _ SNil C C' E st st W W (conj (LSvars_refl _) (conj IX AG)) NF) as [(L & _ & _) O].
  split; assumption.
Qed.

(* ... in particular the same number *)
Lemma let_subst_num_lemma : forall f (u : expr) st s1 n,
  config_ok u SNil -> WFst st -> InvX st -> AgreeG st ->
  eval None f u SNil st = (s1, Good (VNum n)) ->
  snd (eval None (f + K) (subst x (EParens e) u) SNil st) = Good (VNum n).
Proof.
  intros f u st s1 n C W IX AG Ev.
  destruct (let_subst_lemma f u st C W IX AG) as [_ O]; [rewrite Ev; discriminate|].
  rewrite Ev in O. cbn [snd] in O.
  destruct (snd (eval None (f + K) (subst x (EParens e) u) SNil st)) as [v|e0]; [|contradiction].
  unfold RVL in O. cbn [nv] in O. inversion O as [m Hm Hv| | |]. destruct v; cbn in Hv; try discriminate. congruence.
Qed.

(* the state right after the assignment x = e satisfies the premises *)
Lemma let_after_assign_lemma : forall f0 st0 st v,
  WFst st0 -> AgreeG st0 -> inb x G = false -> (K <= f0)%nat ->
  eval None (S f0) (EAssign x e) SNil st0 = (st, Good v) ->
  WFst st /\ InvX st /\ AgreeG st.
Proof.
  intros f0 st0 st v W AG Nx Kf Ev.
  assert (assignable x = true -> False) as _ by (intro A; destruct (Hassign x A) as [Q _]; rewrite ident_eqb_refl in Q; discriminate).
  rewrite eval_S in Ev. unfold mbind in Ev. cbn [tick fires fst snd] in Ev.
  set (st0' := mkS (s_vars st0) (s_polls st0 + 1) (s_log st0)) in *.
  assert (WFst st0') as W' by exact W.
  assert (AgreeG st0') as AG' by exact AG.
  destruct (Hpure st0' f0 W' AG' Kf) as (s' & v' & Ee & Vs & Vv).
  cbn [Calc.eval_node] in Ev. unfold mbind in Ev. rewrite Ee in Ev. cbn in Ev. inversion Ev; subst. clear Ev.
  destruct (Pres_eval num num_un num_bop builtin builtin_apply unit_of unit_static isparam assignable Hx Hbuiltin
              None f0 e SNil He eq_refl st0' W') as [Ws' Qv]. rewrite Ee in Ws', Qv. cbn [fst snd] in *.
  split; [|split].
  - unfold CloseProofs.WFst. cbn [s_vars]. apply (wsvars_set num isparam assignable); [apply Qv; reflexivity | exact Ws'].
  - exists (nv v). cbn [s_vars]. rewrite nvs_set, get_set_same. split; [reflexivity|]. rewrite <- Vv. apply LSv_refl_nv.
  - intros y Hy. cbn [s_vars]. rewrite nvs_set, get_set_other.
    + rewrite Vs. apply AG. exact Hy.
    + destruct (ident_eqb y x) eqn:Eq; [|reflexivity]. apply ident_eqb_eq in Eq. subst. congruence.
Qed.

End LetSubst.

(* ------------------------------------------------------------------ *)
(* right-hand sides that are pure in the sense of the theorem *)

Section PureInstances.
Variable num : Type.
Variable num_un : unop -> num -> option num.
Variable num_bop : bop -> num -> num -> option num.
Variable builtin : ident -> option (ident + num).
Variable builtin_apply : ident -> num -> option num.
Variable unit_of : ident -> option num.
Variable unit_static : ident -> option num.
Notation eval := (Calc.eval num num_un num_bop builtin builtin_apply unit_of unit_static).

(* a number literal *)
Lemma pure_literal : forall (n : num) (st : state num) fuel, (1 <= fuel)%nat ->
  exists s' v', eval None fuel (ELit n) SNil st = (s', Good v')
    /\ nvs (s_vars s') = nvs (s_vars st) /\ nv v' = VNum n.
Proof.
  intros n st [|f] H; [lia|]. eexists _, _. split; [reflexivity|]. split; reflexivity.
Qed.

(* a lambda *)
Lemma pure_lambda : forall p (b : expr num) (st : state num) fuel, (1 <= fuel)%nat ->
  exists s' v', eval None fuel (EFn p b) SNil st = (s', Good v')
    /\ nvs (s_vars s') = nvs (s_vars st) /\ nv v' = VFn p b SNil.
Proof.
  intros p b st [|f] H; [lia|]. eexists _, _. split; [reflexivity|]. split; [reflexivity|].
  cbn [nv closing remove]. rewrite msub_nil. reflexivity.
Qed.

(* arithmetic on two literals *)
Lemma pure_literal_bop : forall op (a b r : num) (st : state num) fuel,
  op <> BMinus \/ True -> num_bop op a b = Some r -> (2 <= fuel)%nat ->
  exists s' v', eval None fuel (EBop op (ELit a) (ELit b)) SNil st = (s', Good v')
    /\ nvs (s_vars s') = nvs (s_vars st) /\ nv v' = VNum r.
Proof.
  intros op a b r st [|[|f]] _ Hr H; try lia.
  eexists _, _. split; [|split].
  - rewrite eval_S. unfold mbind. cbn [tick fires fst snd].
    destruct op; cbn [Calc.eval_node]; rewrite !eval_S; unfold mbind; cbn [tick fires fst snd Calc.eval_node ret];
      cbn [Calc.handle_two_nums lift]; unfold mbind; rewrite Hr; cbn; reflexivity.
  - reflexivity.
  - reflexivity.
Qed.

End PureInstances.
