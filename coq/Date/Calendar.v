(* C16 -- the MODEL side: a mirror of core/src/date.rs, date/year.rs,
   date/month.rs, date/day.rs, date/day_of_week.rs as executable Gallina
   (the code as of /repo commits 82a56a4, c9faecb, ee75c09: astronomical year
   numbering in the leap rule and the weekday formula, fallible
   Year::next/prev, checked num_years * 12).
   i32 arithmetic is written out: every unchecked operation that can leave
   the i32 range goes through [i32_op ck site], which is [Panic site] when
   overflow checks are on (ck = true, debug builds) and wraps otherwise.
   Rust's [%] is [Z.rem] (truncated), [rem_euclid] by a positive constant is
   [Z.modulo].  Loops are [N.iter] over their trip count.

   Panic sites
     1  Year::new(0)                       year.rs  assert!(year != 0)
     4  Day::new     day == 0 || day >= 32 day.rs   assert!
     5  day_of_week  astronomical() - 1    date.rs
     6  day_of_week  unreachable!()        date.rs
     7  Year Display -self.0               year.rs
     9  Date::day_of_week day.value() - 1 (u8)  date.rs (day = 0 excluded by Day)
   (sites 2, 3, 8 of the code before the fixes -- Year::next/prev overflow and
   num_years * 12 -- are now the errors YearOutOfRange / ValueTooLarge,
   modelled as [Err EOutOfRange])
   Definitions only; no proofs in this file. *)
From FendV Require Import Base.Prelude.
Open Scope Z_scope.

Definition i32_min : Z := -2147483648.
Definition i32_max : Z := 2147483647.
Definition in_i32 (z : Z) : bool := (i32_min <=? z) && (z <=? i32_max).
Definition wrap32 (z : Z) : Z := (z + 2147483648) mod 4294967296 - 2147483648.

Definition i32_op (ck : bool) (site : N) (z : Z) : res Z :=
  if in_i32 z then Ok z else if ck then Panic site else Ok (wrap32 z).

(* ---- month.rs ---------------------------------------------------------- *)
Inductive month :=
| January | February | March | April | May | June
| July | August | September | October | November | December.

Definition month_num (m : month) : Z :=       (* as_u8 *)
  match m with
  | January => 1 | February => 2 | March => 3 | April => 4 | May => 5
  | June => 6 | July => 7 | August => 8 | September => 9 | October => 10
  | November => 11 | December => 12
  end.

Definition month_of_num (n : Z) : option month :=   (* TryFrom<u8> *)
  if n =? 1 then Some January else if n =? 2 then Some February
  else if n =? 3 then Some March else if n =? 4 then Some April
  else if n =? 5 then Some May else if n =? 6 then Some June
  else if n =? 7 then Some July else if n =? 8 then Some August
  else if n =? 9 then Some September else if n =? 10 then Some October
  else if n =? 11 then Some November else if n =? 12 then Some December
  else None.

Definition month_eqb (a b : month) : bool := month_num a =? month_num b.

Definition month_next (m : month) : month :=
  match m with
  | January => February | February => March | March => April | April => May
  | May => June | June => July | July => August | August => September
  | September => October | October => November | November => December
  | December => January
  end.

Definition month_prev (m : month) : month :=
  match m with
  | January => December | February => January | March => February
  | April => March | May => April | June => May | July => June
  | August => July | September => August | October => September
  | November => October | December => November
  end.

(* ---- year.rs ----------------------------------------------------------- *)
Definition year_new (y : Z) : res Z := if y =? 0 then Panic 1%N else Ok y.

(* checked_add(1) / checked_sub(1): FendError::YearOutOfRange *)
Definition year_next (y : Z) : res Z :=
  if y =? -1 then year_new 1
  else if i32_max <? y + 1 then Err EOutOfRange else year_new (y + 1).

Definition year_prev (y : Z) : res Z :=
  if y =? 1 then year_new (-1)
  else if y - 1 <? i32_min then Err EOutOfRange else year_new (y - 1).

(* 1 BC = 0, 2 BC = -1, ...; value() + 1 cannot overflow for value() < 0 *)
Definition astronomical (y : Z) : Z := if y <? 0 then y + 1 else y.

Definition is_leap_year (y : Z) : bool :=
  let year := astronomical y in
  if Z.rem year 400 =? 0 then true
  else if Z.rem year 100 =? 0 then false
  else Z.rem year 4 =? 0.

Definition year_number_of_days (y : Z) : Z := if is_leap_year y then 366 else 365.

Definition month_days (m : month) (y : Z) : Z :=    (* Month::number_of_days *)
  match m with
  | February => if is_leap_year y then 29 else 28
  | April | June | September | November => 30
  | _ => 31
  end.

(* ---- day.rs ------------------------------------------------------------ *)
Definition day_new (d : Z) : res Z :=
  if (d =? 0) || (32 <=? d) then Panic 4%N else Ok d.

(* ---- date.rs ----------------------------------------------------------- *)
Record date := mkDate { dyear : Z; dmonth : month; dday : Z }.

(* what the Rust types guarantee of any Date value *)
Definition date_wf (d : date) : bool :=
  in_i32 (dyear d) && negb (dyear d =? 0) && (1 <=? dday d) && (dday d <=? 31).

Inductive dow := Sunday | Monday | Tuesday | Wednesday | Thursday | Friday | Saturday.

Definition dow_num (w : dow) : Z :=      (* as_u8 *)
  match w with
  | Sunday => 0 | Monday => 1 | Tuesday => 2 | Wednesday => 3
  | Thursday => 4 | Friday => 5 | Saturday => 6
  end.

(* the (common year, leap year) offsets of date.rs *)
Definition month_offsets (m : month) : Z * Z :=
  match m with
  | January => (0, 0)
  | February => (3, 3)
  | March | November => (3, 4)
  | April | July => (6, 0)
  | May => (1, 2)
  | June => (4, 5)
  | August => (2, 3)
  | September | December => (5, 6)
  | October => (0, 1)
  end.

(* d1: the weekday number of 1 January, as the code computes it from
   y = astronomical year - 1 with rem_euclid (all in i32; the products are
   small) *)
Definition dow_d1 (y1 : Z) : Z :=
  Z.rem (1 + 5 * (y1 mod 4) + 4 * (y1 mod 100) + 6 * (y1 mod 400)) 7.

Definition dow_index (y1 : Z) (leap : bool) (m : month) (day : Z) : Z :=
  let ms := month_offsets m in
  let mo := if leap then snd ms else fst ms in
  Z.rem (dow_d1 y1 + mo + (day - 1)) 7.

Definition dow_of_index (r : Z) : res dow :=
  if r =? 0 then Ok Sunday else if r =? 1 then Ok Monday
  else if r =? 2 then Ok Tuesday else if r =? 3 then Ok Wednesday
  else if r =? 4 then Ok Thursday else if r =? 5 then Ok Friday
  else if r =? 6 then Ok Saturday else Panic 6%N.

Definition day_of_week (ck : bool) (d : date) : res dow :=
  do y1 <- i32_op ck 5 (astronomical (dyear d) - 1);
  if dday d <? 1 then Panic 9%N else
  dow_of_index (dow_index y1 (is_leap_year (dyear d)) (dmonth d) (dday d)).

Definition date_next (d : date) : res date :=
  if dday d <? month_days (dmonth d) (dyear d) then
    do nd <- day_new (dday d + 1);
    Ok (mkDate (dyear d) (dmonth d) nd)
  else if month_eqb (dmonth d) December then
    do nd <- day_new 1;
    do y <- year_next (dyear d);
    Ok (mkDate y January nd)
  else
    do nd <- day_new 1;
    Ok (mkDate (dyear d) (month_next (dmonth d)) nd).

Definition date_prev (d : date) : res date :=
  if 1 <? dday d then
    do nd <- day_new (dday d - 1);
    Ok (mkDate (dyear d) (dmonth d) nd)
  else if month_eqb (dmonth d) January then
    do nd <- day_new 31;
    do y <- year_prev (dyear d);
    Ok (mkDate y December nd)
  else
    let m := month_prev (dmonth d) in
    do nd <- day_new (month_days m (dyear d));
    Ok (mkDate (dyear d) m nd).

(* a loop body run n times; a Panic/Err of any round is the result *)
Definition iter_res {A} (n : N) (f : A -> res A) (a : A) : res A :=
  N.iter n (fun r => bind r f) (Ok a).

(* the four stepping loops of diff_months act on (year, month) *)
Definition ym_year_next (ym : Z * month) : res (Z * month) :=
  do y <- year_next (fst ym); Ok (y, snd ym).
Definition ym_year_prev (ym : Z * month) : res (Z * month) :=
  do y <- year_prev (fst ym); Ok (y, snd ym).
Definition ym_month_next (ym : Z * month) : res (Z * month) :=
  if month_eqb (snd ym) December then
    do y <- year_next (fst ym); Ok (y, January)
  else Ok (fst ym, month_next (snd ym)).
Definition ym_month_prev (ym : Z * month) : res (Z * month) :=
  if month_eqb (snd ym) January then
    do y <- year_prev (fst ym); Ok (y, December)
  else Ok (fst ym, month_prev (snd ym)).

(* result of diff_months / Date::sub: a date, or FendError::NonExistentDate
   { year, month, expected_day, before, after } *)
Inductive dm_result :=
| DMDate (d : date)
| DMNonExistent (y : Z) (m : month) (expected_day : Z) (before after : date).

Definition diff_months (d : date) (months : Z) : res dm_result :=
  (* while months >= 12 / while months <= -12: |months| / 12 rounds;
     while months > 0 / while months < 0: the remaining |months| mod 12 *)
  let up := 0 <=? months in
  let a := Z.abs months in
  let big := Z.to_N (a / 12) in
  let small := Z.to_N (a mod 12) in
  do ym1 <- iter_res big (if up then ym_year_next else ym_year_prev) (dyear d, dmonth d);
  do ym2 <- iter_res small (if up then ym_month_next else ym_month_prev) ym1;
  let '(y, m) := ym2 in
  if month_days m y <? dday d then
    do bd <- day_new (month_days m y);
    do aym <- ym_month_next (y, m);
    do ad <- day_new 1;
    Ok (DMNonExistent y m (dday d) (mkDate y m bd) (mkDate (fst aym) (snd aym) ad))
  else Ok (DMDate (mkDate y m (dday d))).

(* rhs.try_as_usize_unit: the model takes the integer value of the operand *)
Definition usize_max : Z := 18446744073709551615.
Definition i64_max : Z := 9223372036854775807.
Definition usize_of (n : Z) : res N :=
  if n <? 0 then Err ENegative
  else if usize_max <? n then Err EOutOfRange
  else Ok (Z.to_N n).

Definition date_add (d : date) (n : Z) : res date :=
  do k <- usize_of n; iter_res k date_next d.

Inductive dunit := UDay | UWeek | UMonth | UYear.

Definition date_sub (d : date) (u : dunit) (n : Z) : res dm_result :=
  do k <- usize_of n;
  match u with
  | UDay => do r <- iter_res k date_prev d; Ok (DMDate r)
  | UWeek => do r <- iter_res k (iter_res 7 date_prev) d; Ok (DMDate r)
  | UMonth =>
    if i64_max <? Z.of_N k then Err EOutOfRange
    else diff_months d (- Z.of_N k)
  | UYear =>
    let m := Z.of_N k * 12 in
    if usize_max <? m then Err EOutOfRange          (* checked_mul(12) *)
    else if i64_max <? m then Err EOutOfRange
    else diff_months d (- m)
  end.

(* ---- Display ----------------------------------------------------------- *)
Definition dow_name (w : dow) : list N :=
  match w with
  | Sunday => B"Sunday" | Monday => B"Monday" | Tuesday => B"Tuesday"
  | Wednesday => B"Wednesday" | Thursday => B"Thursday" | Friday => B"Friday"
  | Saturday => B"Saturday"
  end.

Definition month_name (m : month) : list N :=
  match m with
  | January => B"January" | February => B"February" | March => B"March"
  | April => B"April" | May => B"May" | June => B"June" | July => B"July"
  | August => B"August" | September => B"September" | October => B"October"
  | November => B"November" | December => B"December"
  end.

Definition show_year (ck : bool) (y : Z) : res (list N) :=
  (* unsigned_abs() (fix 5a… "year i32::MIN"): no overflow in either build *)
  if y <? 0 then Ok (Z_decimal (- y) ++ B" BC")
  else Ok (Z_decimal y).

Definition show_date (ck : bool) (d : date) : res (list N) :=
  do w <- day_of_week ck d;
  do ys <- show_year ck (dyear d);
  Ok (dow_name w ++ B", " ++ Z_decimal (dday d) ++ B" " ++ month_name (dmonth d) ++ B" " ++ ys).
