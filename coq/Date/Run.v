(* Dispatcher for the Date area (C16): executable entry points used by the
   correspondence check; extracted to OCaml and also run by vm_compute. *)
From FendV Require Import Base.Prelude Date.Gregorian Date.Calendar Date.DateParse.
Open Scope Z_scope.

Definition sx_Z (z : Z) : sx := XA z.
Definition sx_date (d : date) : sx := XL [XA (dyear d); XA (month_num (dmonth d)); XA (dday d)].

Definition as_bool (s : sx) : option bool :=
  match s with XA z => Some (negb (z =? 0)) | _ => None end.

(* (y m d) as three arguments; None unless it is a constructible Date *)
Definition as_date3 (y m d : sx) : option date :=
  match y, m, d with
  | XA y, XA m, XA d =>
    match month_of_num m with
    | Some mo => let dt := mkDate y mo d in if date_wf dt then Some dt else None
    | None => None
    end
  | _, _, _ => None
  end.

Definition sx_dm (ck : bool) (r : res dm_result) : sx :=
  match r with
  | Ok (DMDate d) => XL [XS (B"ok"); sx_date d]
  | Ok (DMNonExistent y m day b a) =>
    XL [XS (B"nonexistent"); XA y; XA (month_num m); XA day; sx_date b; sx_date a]
  | Err e => sx_err e
  | Panic k => sx_panic k
  end.

Definition as_unit (s : sx) : option dunit :=
  match s with
  | XA z => if z =? 0 then Some UDay else if z =? 1 then Some UWeek
            else if z =? 2 then Some UMonth else if z =? 3 then Some UYear else None
  | _ => None
  end.

(* one step of a calculation: (add n) | (sub unit n) *)
Inductive step := SAdd (n : Z) | SSub (u : dunit) (n : Z).

Definition as_step (s : sx) : option step :=
  match s with
  | XL [XS op; XA n] => if opeq op "add" then Some (SAdd n) else None
  | XL [XS op; u; XA n] =>
    if opeq op "sub" then match as_unit u with Some u => Some (SSub u n) | None => None end
    else None
  | _ => None
  end.

Fixpoint as_steps (l : list sx) : option (list step) :=
  match l with
  | [] => Some []
  | x :: r => match as_step x, as_steps r with
              | Some s, Some ss => Some (s :: ss) | _, _ => None end
  end.

Fixpoint run_steps (ck : bool) (d : date) (ss : list step) : res dm_result :=
  match ss with
  | [] => Ok (DMDate d)
  | SAdd n :: r => do d' <- date_add d n; run_steps ck d' r
  | SSub u n :: r =>
    do x <- date_sub d u n;
    match x with
    | DMDate d' => run_steps ck d' r
    | DMNonExistent _ _ _ _ _ => Ok x
    end
  end.

(* projection: 0 = the date itself (Display), 1 = day_of_week, 2 = month *)
Definition project (ck : bool) (proj : Z) (d : date) : res (list N) :=
  if proj =? 0 then show_date ck d
  else if proj =? 1 then do w <- day_of_week ck d; Ok (dow_name w)
  else Ok (month_name (dmonth d)).

Definition sx_calc (ck : bool) (proj : Z) (r : res dm_result) : sx :=
  match r with
  | Ok (DMDate d) =>
    match project ck proj d with
    | Ok t => XL [XS (B"ok"); XS t; sx_date d]
    | Err e => sx_err e
    | Panic k => sx_panic k
    end
  | Ok (DMNonExistent y m day b a) =>
    (* the two suggestions are formatted with Display when the message is built *)
    match show_date ck b, show_date ck a with
    | Ok tb, Ok ta => XL [XS (B"nonexistent"); XA y; XS (month_name m); XA day; XS tb; XS ta]
    | Panic k, _ => sx_panic k
    | _, Panic k => sx_panic k
    | Err e, _ => sx_err e
    | _, Err e => sx_err e
    end
  | Err e => sx_err e
  | Panic k => sx_panic k
  end.

(* sweeps over one year: every (m, d) with m in 1..12, d in 1..31 as the
   literal text "y-m-d"; [step] = None: the literal itself, Some true: + 1 day,
   Some false: - 1 day.  Result per literal: the printed text, or 0 for an
   error, or (panic k). *)
Definition zrange (n : nat) : list Z := map Z.of_nat (seq 1 n).
Definition all_md : list (Z * Z) :=
  flat_map (fun m => map (fun d => (m, d)) (zrange 31)) (zrange 12).

Definition lit_text (y m d : Z) : list N :=
  Z_decimal y ++ [45%N] ++ Z_decimal m ++ [45%N] ++ Z_decimal d.

Definition year_sweep (ck : bool) (y : Z) (step : option bool) : sx :=
  XL (map (fun md : Z * Z =>
    let r :=
      do p <- lex_date (lit_text y (fst md) (snd md));
      match snd p with
      | _ :: _ => Err EParse
      | [] =>
        do d' <- match step with
                 | None => Ok (fst p)
                 | Some true => date_add (fst p) 1
                 | Some false =>
                   do x <- date_sub (fst p) UDay 1;
                   match x with DMDate d' => Ok d' | _ => Err EOther end
                 end;
        show_date ck d'
      end in
    match r with Ok t => XS t | Err _ => XA 0 | Panic k => sx_panic k end) all_md).

Definition run_date : dispatcher := fun op args =>
  if opeq op "year-lits" then
    match args with
    | [ck; XA y] => match as_bool ck with
                    | Some ck => Some (year_sweep ck y None) | None => Some sx_bad end
    | _ => Some sx_bad
    end
  else if opeq op "year-step" then
    match args with
    | [ck; XA y; dir] => match as_bool ck, as_bool dir with
                         | Some ck, Some dir => Some (year_sweep ck y (Some dir))
                         | _, _ => Some sx_bad end
    | _ => Some sx_bad
    end
  else
  if opeq op "next" then
    match args with
    | [ck; y; m; d] => match as_bool ck, as_date3 y m d with
                       | Some ck, Some dt => Some (sx_res sx_date (date_next dt))
                       | _, _ => Some sx_bad end
    | _ => Some sx_bad
    end
  else if opeq op "prev" then
    match args with
    | [ck; y; m; d] => match as_bool ck, as_date3 y m d with
                       | Some ck, Some dt => Some (sx_res sx_date (date_prev dt))
                       | _, _ => Some sx_bad end
    | _ => Some sx_bad
    end
  else if opeq op "show" then
    match args with
    | [ck; y; m; d] => match as_bool ck, as_date3 y m d with
                       | Some ck, Some dt => Some (sx_res XS (show_date ck dt))
                       | _, _ => Some sx_bad end
    | _ => Some sx_bad
    end
  else if opeq op "diffm" then
    match args with
    | [ck; y; m; d; XA n] => match as_bool ck, as_date3 y m d with
                       | Some ck, Some dt => Some (sx_dm ck (diff_months dt n))
                       | _, _ => Some sx_bad end
    | _ => Some sx_bad
    end
  else if opeq op "parse" then
    match args with
    | [XL cps] => match as_Ns cps with
                  | Some s => Some (sx_res sx_date (parse_date s))
                  | None => Some sx_bad end
    | _ => Some sx_bad
    end
  else if opeq op "lex" then
    match args with
    | [XL cps] => match as_Ns cps with
                  | Some s => Some (sx_res (fun p => XL [sx_date (fst p); sx_Ns (snd p)]) (lex_date s))
                  | None => Some sx_bad end
    | _ => Some sx_bad
    end
  (* (calc ck proj (literal cps after '@') step ...) *)
  else if opeq op "calc" then
    match args with
    | ck :: XA proj :: XL cps :: steps =>
      match as_bool ck, as_Ns cps, as_steps steps with
      | Some ck, Some s, Some ss =>
        Some (match lex_date s with
              | Ok (d, []) => sx_calc ck proj (run_steps ck d ss)
              | Ok (_, _ :: _) => XL [XS (B"trailing")]
              | Err e => sx_err e
              | Panic k => sx_panic k
              end)
      | _, _, _ => Some sx_bad
      end
    | _ => Some sx_bad
    end
  (* ---- spec side ---- *)
  else if opeq op "rd" then
    match args with
    | [XA y; XA m; XA d] => Some (XL [XA (rd y m d); sx_bool (g_valid y m d); XA (g_weekday y m d)])
    | _ => Some sx_bad
    end
  else if opeq op "gmdays" then
    match args with
    | [XA y; XA m] => Some (XA (g_mdays y m))
    | _ => Some sx_bad
    end
  else None.

Definition run_date_line : list N -> list N := run_with run_date.
