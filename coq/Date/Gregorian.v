(* C16 -- the SPEC side: the proleptic Gregorian calendar as arithmetic over
   unbounded Z, written independently of fend's code (no Rust remainder, no
   lookup pairs, no stepping).  Months are numbers 1..12 here.

     g_leap y        the Gregorian leap rule
     g_mdays y m     length of month m of year y
     g_valid y m d   (y, m, d) names a real day
     rd y m d        rata die: 1 for 0001-01-01, consecutive days consecutive
     g_weekday y m d rd mod 7  (0 = Sunday ... 6 = Saturday; rd 1 is a Monday)

   [Date/GregorianProofs.v] shows that rd is what it claims to be
   (days_before_year steps by the year length, days_before_month is the sum
   of the preceding month lengths, rd is injective on real days).
   Definitions only; no proofs in this file. *)
From FendV Require Import Base.Prelude.
Open Scope Z_scope.

Definition g_leap (y : Z) : bool :=
  ((y mod 4 =? 0) && negb (y mod 100 =? 0)) || (y mod 400 =? 0).

Definition g_ylen (y : Z) : Z := if g_leap y then 366 else 365.

Definition g_mdays (y m : Z) : Z :=
  if m =? 2 then (if g_leap y then 29 else 28)
  else if (m =? 4) || (m =? 6) || (m =? 9) || (m =? 11) then 30
  else 31.

Definition g_valid (y m d : Z) : bool :=
  (1 <=? m) && (m <=? 12) && (1 <=? d) && (d <=? g_mdays y m).

(* days of years 1 .. y-1 *)
Definition days_before_year (y : Z) : Z :=
  365 * (y - 1) + (y - 1) / 4 - (y - 1) / 100 + (y - 1) / 400.

(* days of months 1 .. m-1 of a common year *)
Definition cum_days (m : Z) : Z :=
  if m =? 1 then 0 else if m =? 2 then 31 else if m =? 3 then 59
  else if m =? 4 then 90 else if m =? 5 then 120 else if m =? 6 then 151
  else if m =? 7 then 181 else if m =? 8 then 212 else if m =? 9 then 243
  else if m =? 10 then 273 else if m =? 11 then 304 else 334.

Definition days_before_month (y m : Z) : Z :=
  cum_days m + (if (2 <? m) && g_leap y then 1 else 0).

Definition rd (y m d : Z) : Z :=
  days_before_year y + days_before_month y m + d.

Definition g_weekday (y m d : Z) : Z := rd y m d mod 7.

(* sum of the lengths of months 1 .. k of year y (k a nat: used only to
   state that days_before_month is that sum) *)
Fixpoint sum_mdays (y : Z) (k : nat) : Z :=
  match k with
  | O => 0
  | S j => sum_mdays y j + g_mdays y (Z.of_nat k)
  end.

(* month arithmetic: the month [k] months before (y, m), in a calendar whose
   years are numbered ..., 2, 1 (only used for results of year >= 1):
   t = months elapsed since January of year 1 *)
Definition month_index (y m : Z) : Z := 12 * (y - 1) + (m - 1).
Definition year_of_index (t : Z) : Z := t / 12 + 1.
Definition month_of_index (t : Z) : Z := t mod 12 + 1.
