(* C16 -- month and year subtraction (Date::diff_months, Date::sub) against
   month arithmetic on the astronomical month index. *)
From Coq Require Import Lia ZifyBool.
From FendV Require Import Base.Prelude Date.Gregorian Date.GregorianProofs Date.Calendar
  Date.CalendarProofs.
Open Scope Z_scope.

Ltac Zify.zify_post_hook ::= Z.div_mod_to_equations.

(* months elapsed since January of astronomical year 1 *)
Definition midx (y : Z) (m : month) : Z := month_index (astronomical y) (month_num m).
(* January of the year i32::MIN *)
Definition min_idx : Z := month_index (i32_min + 1) 1.

Lemma min_idx_eq : min_idx = 12 * i32_min.
Proof. reflexivity. Qed.

Lemma midx_inj : forall y1 m1 y2 m2, y1 <> 0 -> y2 <> 0 ->
  midx y1 m1 = midx y2 m2 -> y1 = y2 /\ m1 = m2.
Proof.
  intros y1 m1 y2 m2 Z1 Z2 E. unfold midx, month_index in E.
  pose proof (month_num_range m1). pose proof (month_num_range m2).
  assert (astronomical y1 = astronomical y2) by lia.
  assert (month_num m1 = month_num m2) by lia.
  split; [apply astro_inj; assumption|apply month_num_inj; assumption].
Qed.

Lemma midx_closed_form : forall y m,
  astronomical y = year_of_index (midx y m) /\ month_num m = month_of_index (midx y m).
Proof.
  intros y m. unfold midx, month_index, year_of_index, month_of_index.
  pose proof (month_num_range m). lia.
Qed.

Lemma astro_range : forall y, wfy y -> i32_min + 1 <= astronomical y <= i32_max.
Proof. intros y [Hr Hz]. destruct (astro_cases y) as [[? ->]|[? ->]]; blia. Qed.

Lemma astro_min : forall y, wfy y -> i32_min + 1 < astronomical y -> i32_min < y.
Proof.
  intros y [Hr Hz] H. destruct (Z.eq_dec y i32_min) as [->|]; [|blia].
  exfalso. change (astronomical i32_min) with (i32_min + 1) in H. lia.
Qed.

Lemma iter_year_prev_spec : forall k y m, wfy y ->
  i32_min + 1 <= astronomical y - Z.of_N k ->
  exists y', iter_res k ym_year_prev (y, m) = Ok (y', m) /\
             astronomical y' = astronomical y - Z.of_N k /\ wfy y'.
Proof.
  intros k. induction k using N.peano_ind; intros y m Hy Hle.
  - exists y. rewrite iter_res_0. repeat split; try apply Hy; lia.
  - destruct (IHk y m Hy ltac:(lia)) as [y1 [I1 [A1 W1]]].
    destruct (year_prev_spec y1 W1 (astro_min y1 W1 ltac:(lia))) as [y2 [P2 [A2 W2]]].
    exists y2. rewrite iter_res_succ, I1. cbn [bind]. unfold ym_year_prev. cbn [fst snd].
    rewrite P2. cbn [bind]. repeat split; try apply W2; lia.
Qed.

Lemma ym_month_prev_spec : forall y m, wfy y -> min_idx < midx y m ->
  exists y' m', ym_month_prev (y, m) = Ok (y', m') /\ midx y' m' = midx y m - 1 /\ wfy y'.
Proof.
  intros y m Hy Hlt. unfold ym_month_prev. cbn [fst snd].
  rewrite min_idx_eq in Hlt. unfold midx, month_index in *.
  destruct (month_eqb m January) eqn:EM.
  - apply month_eqb_eq in EM. subst m. cbn [month_num] in *.
    destruct (year_prev_spec y Hy (astro_min y Hy ltac:(lia))) as [y2 [P2 [A2 W2]]].
    rewrite P2. cbn [bind]. exists y2, December. split; [reflexivity|]. split; [|exact W2].
    cbn [month_num]. lia.
  - apply month_eqb_neq in EM. exists y, (month_prev m). split; [reflexivity|]. split; [|exact Hy].
    rewrite month_prev_num by exact EM. lia.
Qed.

Lemma iter_month_prev_spec : forall j y m, wfy y -> min_idx <= midx y m - Z.of_N j ->
  exists y' m', iter_res j ym_month_prev (y, m) = Ok (y', m') /\
                midx y' m' = midx y m - Z.of_N j /\ wfy y'.
Proof.
  intros j. induction j using N.peano_ind; intros y m Hy Hle.
  - exists y, m. rewrite iter_res_0. repeat split; try apply Hy; lia.
  - destruct (IHj y m Hy ltac:(lia)) as [y1 [m1 [I1 [A1 W1]]]].
    destruct (ym_month_prev_spec y1 m1 W1 ltac:(lia)) as [y2 [m2 [P2 [A2 W2]]]].
    exists y2, m2. rewrite iter_res_succ, I1. cbn [bind]. rewrite P2.
    repeat split; try apply W2; lia.
Qed.

Lemma g_mdays_12 : forall a, g_mdays a 12 = 31.
Proof. reflexivity. Qed.

(* what Date::diff_months returns for a day-of-month dd once the stepping has
   reached (y, m) *)
Definition land_on (y : Z) (m : month) (dd : Z) : dm_result :=
  if g_mdays (astronomical y) (month_num m) <? dd
  then DMNonExistent y m dd (mkDate y m (g_mdays (astronomical y) (month_num m)))
                            (mkDate y (month_next m) 1)
  else DMDate (mkDate y m dd).

Lemma diff_months_tail : forall y m dd, 1 <= dd <= 31 -> wfy y ->
  (let '(y0, m0) := (y, m) in
   if month_days m0 y0 <? dd then
     do bd <- day_new (month_days m0 y0);
     do aym <- ym_month_next (y0, m0);
     do ad <- day_new 1;
     Ok (DMNonExistent y0 m0 dd (mkDate y0 m0 bd) (mkDate (fst aym) (snd aym) ad))
   else Ok (DMDate (mkDate y0 m0 dd))) = Ok (land_on y m dd).
Proof.
  intros y m dd Hd Hy. cbv beta iota. unfold land_on. rewrite month_days_spec.
  pose proof (g_mdays_range (astronomical y) (month_num m)) as R.
  destruct (g_mdays (astronomical y) (month_num m) <? dd) eqn:E; [|reflexivity].
  rewrite day_new_ok by lia. cbn [bind].
  assert (NE : m <> December).
  { intros ->. cbn [month_num] in E. rewrite g_mdays_12 in E. lia. }
  unfold ym_month_next. cbn [fst snd].
  apply month_eqb_neq in NE. rewrite NE. cbn [bind fst snd].
  rewrite day_new_ok by lia. reflexivity.
Qed.

Lemma diff_months_neg_spec : forall d K,
  wfy (dyear d) -> 1 <= dday d <= 31 -> 0 <= K ->
  min_idx <= midx (dyear d) (dmonth d) - K ->
  exists y' m', wfy y' /\ midx y' m' = midx (dyear d) (dmonth d) - K /\
                diff_months d (- K) = Ok (land_on y' m' (dday d)).
Proof.
  intros [y m dd] K Hy Hd HK Hle. cbn [dyear dmonth dday] in *.
  unfold diff_months. cbn [dyear dmonth dday].
  destruct (Z.eq_dec K 0) as [->|NZ].
  - exists y, m. split; [exact Hy|]. split; [lia|].
    change (- 0) with 0. cbn [Z.leb Z.abs Z.compare]. change (0 / 12) with 0. change (0 mod 12) with 0.
    cbn [Z.to_N]. rewrite !iter_res_0. cbn [bind].
    apply diff_months_tail; assumption.
  - replace (0 <=? - K) with false by lia.
    replace (Z.abs (- K)) with K by lia.
    assert (HA := astro_range y Hy).
    rewrite min_idx_eq in Hle. unfold midx, month_index in Hle.
    pose proof (month_num_range m) as RM.
    destruct (iter_year_prev_spec (Z.to_N (K / 12)) y m Hy ltac:(lia)) as [y1 [I1 [A1 W1]]].
    rewrite I1. cbn [bind].
    destruct (iter_month_prev_spec (Z.to_N (K mod 12)) y1 m W1
                ltac:(rewrite min_idx_eq; unfold midx, month_index; lia)) as [y2 [m2 [I2 [A2 W2]]]].
    rewrite I2. cbn [bind].
    exists y2, m2. split; [exact W2|]. split.
    + unfold midx, month_index in *. lia.
    + apply diff_months_tail; assumption.
Qed.

(* the meaning of the NonExistent answer: the requested day is not a day of
   that month; [before] is the month's last day, [after] the day after it *)
Lemma land_on_meaning : forall y m dd, wfy y -> 1 <= dd <= 31 ->
  (dd <= g_mdays (astronomical y) (month_num m) /\
   land_on y m dd = DMDate (mkDate y m dd) /\ valid (mkDate y m dd))
  \/
  (g_mdays (astronomical y) (month_num m) < dd /\
   g_valid (astronomical y) (month_num m) dd = false /\
   exists b a, land_on y m dd = DMNonExistent y m dd b a /\
     b = mkDate y m (g_mdays (astronomical y) (month_num m)) /\
     valid b /\ valid a /\ rdd a = rdd b + 1 /\ dyear a = y).
Proof.
  intros y m dd Hy Hd. unfold land_on.
  pose proof (g_mdays_range (astronomical y) (month_num m)) as R.
  destruct (g_mdays (astronomical y) (month_num m) <? dd) eqn:E.
  - right. split; [lia|]. split.
    + unfold g_valid. lia.
    + assert (NE : m <> December).
      { intros ->. cbn [month_num] in E. rewrite g_mdays_12 in E. lia. }
      eexists. eexists. split; [reflexivity|]. split; [reflexivity|].
      pose proof (month_num_range m).
      assert (month_num m <> 12) by (intro E12; apply month_num_dec_iff in E12; contradiction).
      split; [|split; [|split]].
      * apply valid_iff. unfold ay. cbn [dyear dmonth dday]. lia.
      * apply valid_iff. unfold ay. cbn [dyear dmonth dday].
        pose proof (g_mdays_range (astronomical y) (month_num (month_next m))). lia.
      * unfold rdd, rd, ay. cbn [dyear dmonth dday].
        rewrite month_next_num by exact NE. rewrite dbm_step by lia. lia.
      * reflexivity.
  - left. split; [lia|]. split; [reflexivity|].
    apply valid_iff. unfold ay. cbn [dyear dmonth dday]. lia.
Qed.

(* ---- Date::sub with months and years ------------------------------------- *)
Lemma midx_upper : forall y m, wfy y -> midx y m <= 12 * i32_max.
Proof.
  intros y m Hy. pose proof (astro_range y Hy). pose proof (month_num_range m).
  unfold midx, month_index. lia.
Qed.

Lemma date_sub_months_spec : forall d k,
  wfy (dyear d) -> 1 <= dday d <= 31 -> 0 <= k ->
  min_idx <= midx (dyear d) (dmonth d) - k ->
  exists y' m', wfy y' /\ midx y' m' = midx (dyear d) (dmonth d) - k /\
                date_sub d UMonth k = Ok (land_on y' m' (dday d)).
Proof.
  intros d k Hy Hd Hk Hle.
  pose proof (midx_upper (dyear d) (dmonth d) Hy) as U. rewrite min_idx_eq in Hle.
  unfold date_sub. rewrite usize_of_ok by (unfold usize_max; blia). cbn [bind].
  rewrite Z2N.id by lia.
  replace (i64_max <? k) with false by (unfold i64_max; blia).
  apply diff_months_neg_spec; try assumption; rewrite min_idx_eq; lia.
Qed.

Lemma date_sub_years_spec : forall d n,
  wfy (dyear d) -> 1 <= dday d <= 31 -> 0 <= n ->
  i32_min + 1 <= astronomical (dyear d) - n ->
  exists y', wfy y' /\ astronomical y' = astronomical (dyear d) - n /\
             date_sub d UYear n = Ok (land_on y' (dmonth d) (dday d)).
Proof.
  intros d n Hy Hd Hn Hle.
  pose proof (astro_range (dyear d) Hy) as RA.
  unfold date_sub. rewrite usize_of_ok by (unfold usize_max; blia). cbn [bind].
  rewrite Z2N.id by lia.
  replace (usize_max <? n * 12) with false by (unfold usize_max; blia).
  replace (i64_max <? n * 12) with false by (unfold i64_max; blia).
  pose proof (month_num_range (dmonth d)) as RM.
  destruct (diff_months_neg_spec d (n * 12) Hy Hd ltac:(lia)
              ltac:(rewrite min_idx_eq; unfold midx, month_index; lia)) as [y' [m' [W [A D]]]].
  assert (E : astronomical y' = astronomical (dyear d) - n /\ month_num m' = month_num (dmonth d)).
  { unfold midx, month_index in A. pose proof (month_num_range m'). lia. }
  destruct E as [E1 E2]. apply month_num_inj in E2. subst m'.
  exists y'. split; [exact W|]. split; [exact E1|exact D].
Qed.

(* too large a count is an error, never a panic (the code before ee75c09
   multiplied unchecked) *)
Lemma date_sub_years_huge : forall d n, usize_max < n * 12 -> 0 <= n <= usize_max ->
  date_sub d UYear n = Err EOutOfRange.
Proof.
  intros d n H Hn. unfold date_sub. rewrite usize_of_ok by exact Hn. cbn [bind].
  rewrite Z2N.id by lia. replace (usize_max <? n * 12) with true by lia. reflexivity.
Qed.
