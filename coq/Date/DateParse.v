(* C16 -- model of core/src/date/parser.rs (parse_char, parse_specific_char,
   parse_digit, parse_num, parse_yyyymmdd, parse_date) and of the date-literal
   scanner core/src/lexer.rs::parse_date, on lists of Unicode scalar values.
   [None] stands for the private Err(()) of the parser functions;
   parse_date / lex_date return Err EParse (FendError::ParseDateError /
   ExpectedADateLiteral).  Definitions only; no proofs in this file. *)
From FendV Require Import Base.Prelude Date.Calendar.
Open Scope Z_scope.

Notation cp := N (only parsing).

(* char::to_digit(10) accepts exactly '0'..'9' *)
Definition is_dec_digit (c : cp) : bool := ((48 <=? c) && (c <=? 57))%N.
Definition digit_val (c : cp) : Z := Z.of_N (c - 48).

(* char::is_whitespace = Unicode White_Space *)
Definition is_ws (c : cp) : bool :=
  (((9 <=? c) && (c <=? 13)) || (c =? 32) || (c =? 133) || (c =? 160)
   || (c =? 5760) || ((8192 <=? c) && (c <=? 8202)) || (c =? 8232) || (c =? 8233)
   || (c =? 8239) || (c =? 8287) || (c =? 12288))%N.

Fixpoint trim_start (s : list cp) : list cp :=
  match s with
  | c :: r => if is_ws c then trim_start r else s
  | [] => []
  end.

(* str::trim *)
Definition trim (s : list cp) : list cp := rev (trim_start (rev (trim_start s))).

Definition parse_specific_char (s : list cp) (c : cp) : option (list cp) :=
  match s with
  | ch :: r => if (ch =? c)%N then Some r else None
  | [] => None
  end.

Definition parse_digit (s : list cp) : option (Z * list cp) :=
  match s with
  | ch :: r => if is_dec_digit ch then Some (digit_val ch, r) else None
  | [] => None
  end.

(* the while-let loop of parse_num: checked_mul(10) then checked_add(digit) *)
Fixpoint parse_num_loop (s : list cp) (num : Z) : option (Z * list cp) :=
  match s with
  | ch :: r =>
    if is_dec_digit ch then
      let n10 := num * 10 in
      if i32_max <? n10 then None
      else
        let n1 := n10 + digit_val ch in
        if i32_max <? n1 then None else parse_num_loop r n1
    else Some (num, s)
  | [] => Some (num, [])
  end.

Definition parse_num (s : list cp) (leading_zeroes : bool) : option (Z * list cp) :=
  match parse_digit s with
  | None => None
  | Some (d0, r) =>
    if negb leading_zeroes && (d0 =? 0) then None else parse_num_loop r d0
  end.

(* Result: Some (Ok (date, rest)) | Some (Panic k) for an assert inside
   Year::new / Day::new | None for Err(()) *)
Definition parse_yyyymmdd (s : list cp) : res (option (date * list cp)) :=
  match parse_num s false with
  | None => Ok None
  | Some (year, s1) =>
    match parse_specific_char s1 45 with
    | None => Ok None
    | Some s2 =>
      if year <? 1000 then Ok None
      else
        do y <- year_new year;
        match parse_num s2 true with
        | None => Ok None
        | Some (mon, s3) =>
          match parse_specific_char s3 45 with
          | None => Ok None
          | Some s4 =>
            if (mon <? 0) || (255 <? mon) then Ok None      (* i32 -> u8 *)
            else
              match month_of_num mon with
              | None => Ok None
              | Some m =>
                match parse_num s4 true with
                | None => Ok None
                | Some (day, s5) =>
                  if (day <? 1) || (month_days m y <? day) then Ok None
                  else if (day <? 0) || (255 <? day) then Ok None  (* i32 -> u8 *)
                  else
                    do dd <- day_new day;
                    Ok (Some (mkDate y m dd, s5))
                end
              end
          end
        end
    end
  end.

Definition is_nil {A} (l : list A) : bool := match l with [] => true | _ => false end.

Definition parse_date (s : list cp) : res date :=
  do r <- parse_yyyymmdd (trim s);
  match r with
  | Some (d, rest) => if is_nil rest then Ok d else Err EParse
  | None => Err EParse
  end.

(* ---- lexer.rs::parse_date: the scanner behind the '@' literal ---------- *)
(* number of leading '0'..='9' characters and the rest *)
Fixpoint count_digits (s : list cp) : nat * list cp :=
  match s with
  | c :: r => if is_dec_digit c then let '(n, rest) := count_digits r in (S n, rest)
              else (O, s)
  | [] => (O, [])
  end.

Definition starts_with_dash (s : list cp) : option (list cp) :=
  match s with c :: r => if (c =? 45)%N then Some r else None | [] => None end.

(* [input] is the text after the '@'.  Returns the date and the remaining
   input. *)
Definition lex_date (input : list cp) : res (date * list cp) :=
  let '(n1, r1) := count_digits input in
  if Nat.eqb n1 0 then Err EParse else
  match starts_with_dash r1 with
  | None => Err EParse
  | Some r1' =>
    let '(n2, r2) := count_digits r1' in
    if Nat.eqb n2 0 then Err EParse else
    match starts_with_dash r2 with
    | None => Err EParse
    | Some r2' =>
      let '(n3, _) := count_digits r2' in
      if Nat.eqb n3 0 then Err EParse else
      let split_idx := (n1 + 1 + n2 + 1 + n3)%nat in
      do d <- parse_date (firstn split_idx input);
      Ok (d, skipn split_idx input)
    end
  end.
