(* C16 -- facts about the SPEC (Date/Gregorian.v) alone: the rata die is what
   it claims to be. *)
From Coq Require Import Lia ZifyBool.
From FendV Require Import Base.Prelude Date.Gregorian.
Open Scope Z_scope.

Ltac Zify.zify_post_hook ::= Z.div_mod_to_equations.

Lemma g_leap_cases : forall y,
  (g_leap y = true /\ (y mod 4 = 0) /\ (y mod 100 <> 0 \/ y mod 400 = 0)) \/
  (g_leap y = false /\ (y mod 4 <> 0 \/ (y mod 100 = 0 /\ y mod 400 <> 0))).
Proof.
  intro y. unfold g_leap.
  destruct (y mod 4 =? 0) eqn:E4; destruct (y mod 100 =? 0) eqn:E100;
    destruct (y mod 400 =? 0) eqn:E400; cbn [andb orb negb]; lia.
Qed.

(* the day count before a year steps by the length of the year -- for every
   integer y *)
Lemma dby_step : forall y, days_before_year (y + 1) = days_before_year y + g_ylen y.
Proof.
  intro y. unfold days_before_year, g_ylen.
  destruct (g_leap_cases y) as [[-> H]|[-> H]];
  replace (y + 1 - 1) with y by lia; lia.
Qed.

Lemma dby_1 : days_before_year 1 = 0.
Proof. reflexivity. Qed.

Lemma g_ylen_ge : forall y, 365 <= g_ylen y <= 366.
Proof. intro y. unfold g_ylen. destruct (g_leap y); lia. Qed.

Lemma dby_mono_n : forall y n, 0 <= n -> days_before_year y + 365 * n <= days_before_year (y + n).
Proof.
  intros y n Hn. revert y. pattern n. apply natlike_ind; [ | | exact Hn].
  - intro y. replace (y + 0) with y by ring. lia.
  - intros k Hk IH y. replace (y + Z.succ k) with ((y + k) + 1) by ring.
    rewrite dby_step. specialize (IH y). pose proof (g_ylen_ge (y + k)). lia.
Qed.

Lemma dby_mono : forall y1 y2, y1 <= y2 ->
  days_before_year y1 + 365 * (y2 - y1) <= days_before_year y2.
Proof.
  intros y1 y2 H. pose proof (dby_mono_n y1 (y2 - y1) ltac:(lia)) as M.
  replace (y1 + (y2 - y1)) with y2 in M by ring. exact M.
Qed.

Lemma dby_nonneg : forall y, 1 <= y -> 0 <= days_before_year y.
Proof. intros y H. pose proof (dby_mono 1 y H). rewrite dby_1 in H0. lia. Qed.

(* months as a finite case split *)
Lemma month_cases : forall m, 1 <= m <= 12 ->
  m = 1 \/ m = 2 \/ m = 3 \/ m = 4 \/ m = 5 \/ m = 6 \/ m = 7 \/ m = 8 \/ m = 9 \/
  m = 10 \/ m = 11 \/ m = 12.
Proof. intros; lia. Qed.

Ltac month_split H :=
  destruct (month_cases _ H) as
    [->|[->|[->|[->|[->|[->|[->|[->|[->|[->|[->| ->]]]]]]]]]]].

(* days_before_month is the sum of the preceding month lengths *)
Lemma dbm_sum : forall y m, 1 <= m <= 12 ->
  days_before_month y m = sum_mdays y (Z.to_nat (m - 1)).
Proof.
  intros y m H. month_split H;
  (match goal with |- context [Z.to_nat ?e] =>
     let n := eval vm_compute in (Z.to_nat e) in change (Z.to_nat e) with n end);
  cbn [sum_mdays]; unfold days_before_month, g_mdays;
  remember (g_leap y) as L; destruct L; vm_compute; reflexivity.
Qed.

Lemma ylen_sum : forall y, g_ylen y = sum_mdays y 12.
Proof.
  intro y. cbn [sum_mdays]. unfold g_ylen, g_mdays.
  remember (g_leap y) as L; destruct L; vm_compute; reflexivity.
Qed.

Lemma dbm_step : forall y m, 1 <= m <= 11 ->
  days_before_month y (m + 1) = days_before_month y m + g_mdays y m.
Proof.
  intros y m H. assert (H' : 1 <= m <= 12) by lia. month_split H'; try lia;
  unfold days_before_month, g_mdays; cbn -[g_leap]; destruct (g_leap y); reflexivity.
Qed.

Lemma dbm_last : forall y, days_before_month y 12 + g_mdays y 12 = g_ylen y.
Proof.
  intro y. unfold days_before_month, g_mdays, g_ylen. cbn -[g_leap].
  destruct (g_leap y); reflexivity.
Qed.

Lemma dbm_first : forall y, days_before_month y 1 = 0.
Proof. intro y. unfold days_before_month. cbn -[g_leap]. reflexivity. Qed.

Lemma g_mdays_range : forall y m, 28 <= g_mdays y m <= 31.
Proof.
  intros y m. unfold g_mdays.
  destruct (m =? 2); [destruct (g_leap y); lia|].
  destruct ((m =? 4) || (m =? 6) || (m =? 9) || (m =? 11)); lia.
Qed.

Lemma g_valid_iff : forall y m d,
  g_valid y m d = true <-> (1 <= m <= 12 /\ 1 <= d <= g_mdays y m).
Proof. intros. unfold g_valid. lia. Qed.

(* within a year: strictly monotone in (month, day), and the whole year fits
   in its length *)
Lemma dbm_mono : forall y m1 m2, 1 <= m1 -> m1 < m2 -> m2 <= 12 ->
  days_before_month y m1 + g_mdays y m1 <= days_before_month y m2.
Proof.
  intros y m1 m2 H1 H2 H3.
  assert (HA : 1 <= m1 <= 12) by lia. assert (HB : 1 <= m2 <= 12) by lia.
  month_split HA; month_split HB; try lia;
  unfold days_before_month, g_mdays; cbn -[g_leap]; destruct (g_leap y); lia.
Qed.

Lemma within_year : forall y m d, g_valid y m d = true ->
  1 <= days_before_month y m + d <= g_ylen y.
Proof.
  intros y m d V. apply g_valid_iff in V. destruct V as [Hm Hd].
  rewrite <- dbm_last.
  assert (0 <= days_before_month y m).
  { month_split Hm; unfold days_before_month; cbn -[g_leap]; destruct (g_leap y); lia. }
  destruct (Z.eq_dec m 12) as [->|N]; [lia|].
  pose proof (dbm_mono y m 12 ltac:(lia) ltac:(lia) ltac:(lia)).
  pose proof (g_mdays_range y 12). lia.
Qed.

Lemma rd_pos : forall y m d, 1 <= y -> g_valid y m d = true -> 1 <= rd y m d.
Proof.
  intros y m d Hy V. unfold rd. pose proof (dby_nonneg y Hy).
  pose proof (within_year y m d V). lia.
Qed.

(* rd is strictly monotone in the lexicographic order of real days, hence
   injective: a day number names one day *)
Lemma rd_lt_year : forall y1 m1 d1 y2 m2 d2,
  g_valid y1 m1 d1 = true -> g_valid y2 m2 d2 = true -> y1 < y2 ->
  rd y1 m1 d1 < rd y2 m2 d2.
Proof.
  intros y1 m1 d1 y2 m2 d2 V1 V2 L. unfold rd.
  pose proof (within_year _ _ _ V1). pose proof (within_year _ _ _ V2).
  pose proof (dby_mono (y1 + 1) y2 ltac:(lia)) as M. rewrite dby_step in M. lia.
Qed.

Lemma rd_lt_month : forall y m1 d1 m2 d2,
  g_valid y m1 d1 = true -> g_valid y m2 d2 = true -> m1 < m2 ->
  rd y m1 d1 < rd y m2 d2.
Proof.
  intros y m1 d1 m2 d2 V1 V2 L. unfold rd.
  apply g_valid_iff in V1. apply g_valid_iff in V2.
  pose proof (dbm_mono y m1 m2 ltac:(lia) L ltac:(lia)). lia.
Qed.

Lemma rd_inj : forall y1 m1 d1 y2 m2 d2,
  g_valid y1 m1 d1 = true -> g_valid y2 m2 d2 = true ->
  rd y1 m1 d1 = rd y2 m2 d2 -> y1 = y2 /\ m1 = m2 /\ d1 = d2.
Proof.
  intros y1 m1 d1 y2 m2 d2 V1 V2 E.
  destruct (Z.lt_trichotomy y1 y2) as [L|[->|L]].
  - pose proof (rd_lt_year _ _ _ _ _ _ V1 V2 L). lia.
  - destruct (Z.lt_trichotomy m1 m2) as [L|[->|L]].
    + pose proof (rd_lt_month _ _ _ _ _ V1 V2 L). lia.
    + unfold rd in E. lia.
    + pose proof (rd_lt_month _ _ _ _ _ V2 V1 L). lia.
  - pose proof (rd_lt_year _ _ _ _ _ _ V2 V1 L). lia.
Qed.

(* every positive day number is the rd of a real day of a year >= 1 *)
Lemma rd_next_exists : forall y m d, g_valid y m d = true ->
  exists y' m' d', g_valid y' m' d' = true /\ rd y' m' d' = rd y m d + 1 /\ y <= y'.
Proof.
  intros y m d V. pose proof V as V0. apply g_valid_iff in V. destruct V as [Hm Hd].
  destruct (Z.eq_dec d (g_mdays y m)) as [E|N].
  - destruct (Z.eq_dec m 12) as [->|N12].
    + exists (y + 1), 1, 1. split; [|split].
      * apply g_valid_iff. pose proof (g_mdays_range (y + 1) 1). lia.
      * unfold rd. rewrite dby_step, dbm_first, <- dbm_last. lia.
      * lia.
    + exists y, (m + 1), 1. split; [|split].
      * apply g_valid_iff. pose proof (g_mdays_range y (m + 1)). lia.
      * unfold rd. rewrite dbm_step by lia. lia.
      * lia.
  - exists y, m, (d + 1). split; [|split].
    + apply g_valid_iff. lia.
    + unfold rd. lia.
    + lia.
Qed.

Lemma rd_surj : forall n, 1 <= n ->
  exists y m d, 1 <= y /\ g_valid y m d = true /\ rd y m d = n.
Proof.
  intros n Hn. assert (H0 : 0 <= n - 1) by lia.
  replace n with ((n - 1) + 1) by ring. generalize (n - 1) H0. clear.
  intros k Hk. pattern k. apply natlike_ind; [ | | exact Hk].
  - exists 1, 1, 1. repeat split; try lia; reflexivity.
  - intros j Hj [y [m [d [Hy [V E]]]]].
    destruct (rd_next_exists y m d V) as [y' [m' [d' [V' [E' L]]]]].
    exists y', m', d'. repeat split; try lia; assumption.
Qed.
