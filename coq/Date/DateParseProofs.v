(* C16 -- the date-literal parser (Date/DateParse.v) accepts exactly the
   texts  ws* Y '-' M '-' D ws*  whose year has no leading zero, is >= 1000,
   fits an i32, and whose (Y, M, D) is a real Gregorian day. *)
From Coq Require Import Lia ZifyBool.
From FendV Require Import Base.Prelude Date.Gregorian Date.GregorianProofs Date.Calendar
  Date.CalendarProofs Date.DateParse.
Open Scope Z_scope.

(* ---- the grammar, as a specification ------------------------------------ *)
Definition all_digits (l : list N) : Prop := forallb is_dec_digit l = true.
Definition all_ws (l : list N) : Prop := forallb is_ws l = true.

(* decimal value of a digit string, most significant digit first *)
Fixpoint dec_val (l : list N) (acc : Z) : Z :=
  match l with
  | [] => acc
  | c :: r => dec_val r (acc * 10 + digit_val c)
  end.
Definition dval (l : list N) : Z := dec_val l 0.

Definition no_leading_zero (l : list N) : bool :=
  match l with c :: _ => negb (c =? 48)%N | [] => false end.
Definition nonempty {A} (l : list A) : bool := negb (is_nil l).

(* not followed by a further digit *)
Definition digit_free_start (l : list N) : Prop :=
  match l with [] => True | c :: _ => is_dec_digit c = false end.

(* the longest prefix of digits, and the rest *)
Fixpoint span_digits (s : list N) : list N * list N :=
  match s with
  | c :: r => if is_dec_digit c then let '(a, b) := span_digits r in (c :: a, b)
              else ([], s)
  | [] => ([], [])
  end.

(* the three numbers are acceptable *)
Definition accept (Y M D : list N) : bool :=
  no_leading_zero Y && nonempty M && nonempty D &&
  (1000 <=? dval Y) && (dval Y <=? i32_max) && g_valid (dval Y) (dval M) (dval D).

Definition ymd_spec (t : list N) : option (date * list N) :=
  let '(Y, r1) := span_digits t in
  match r1 with
  | c1 :: r1' =>
    if (c1 =? 45)%N then
      let '(M, r2) := span_digits r1' in
      match r2 with
      | c2 :: r2' =>
        if (c2 =? 45)%N then
          let '(D, r3) := span_digits r2' in
          if accept Y M D then
            match month_of_num (dval M) with
            | Some m => Some (mkDate (dval Y) m (dval D), r3)
            | None => None
            end
          else None
        else None
      | [] => None
      end
    else None
  | [] => None
  end.

(* ---- digits -------------------------------------------------------------- *)
Lemma digit_val_range : forall c, is_dec_digit c = true -> 0 <= digit_val c <= 9.
Proof. intros c H. unfold is_dec_digit in H. unfold digit_val. lia. Qed.

Lemma digit_val_zero : forall c, is_dec_digit c = true -> (digit_val c =? 0) = (c =? 48)%N.
Proof. intros c H. unfold is_dec_digit in H. unfold digit_val. lia. Qed.

Lemma span_digits_app : forall s, let '(a, b) := span_digits s in
  s = a ++ b /\ all_digits a /\ digit_free_start b.
Proof.
  induction s as [|c r IH]; cbn [span_digits].
  - repeat split.
  - destruct (is_dec_digit c) eqn:E.
    + destruct (span_digits r) as [a b]. destruct IH as [-> [Ha Hb]].
      split; [reflexivity|]. split; [|exact Hb].
      unfold all_digits in *. cbn [forallb]. rewrite E, Ha. reflexivity.
    + split; [reflexivity|]. split; [reflexivity|]. exact E.
Qed.

Lemma span_digits_exact : forall a b, all_digits a -> digit_free_start b ->
  span_digits (a ++ b) = (a, b).
Proof.
  induction a as [|c a IH]; intros b Ha Hb.
  - cbn [app]. destruct b as [|x b']; [reflexivity|]. cbn [span_digits].
    cbn [digit_free_start] in Hb. rewrite Hb. reflexivity.
  - unfold all_digits in Ha. cbn [forallb] in Ha. apply andb_true_iff in Ha. destruct Ha as [Hc Ha].
    cbn [app span_digits]. rewrite Hc. rewrite (IH b Ha Hb). reflexivity.
Qed.

Lemma dec_val_ge : forall l acc, all_digits l -> 0 <= acc -> acc <= dec_val l acc.
Proof.
  induction l as [|c r IH]; intros acc H Ha; cbn [dec_val]; [lia|].
  unfold all_digits in H. cbn [forallb] in H. apply andb_true_iff in H. destruct H as [Hc Hr].
  pose proof (digit_val_range c Hc). pose proof (IH (acc * 10 + digit_val c) Hr ltac:(lia)). lia.
Qed.

(* ---- parse_num ------------------------------------------------------------ *)
Lemma parse_num_loop_spec : forall s acc, 0 <= acc <= i32_max ->
  parse_num_loop s acc =
  let '(a, b) := span_digits s in
  if dec_val a acc <=? i32_max then Some (dec_val a acc, b) else None.
Proof.
  induction s as [|c r IH]; intros acc Hacc; cbn [parse_num_loop span_digits].
  - cbn [dec_val]. replace (acc <=? i32_max) with true by lia. reflexivity.
  - destruct (is_dec_digit c) eqn:E.
    + pose proof (span_digits_app r) as SP. destruct (span_digits r) as [a b] eqn:ES.
      destruct SP as [_ [Ha _]]. pose proof (digit_val_range c E) as RD.
      cbn [dec_val].
      pose proof (dec_val_ge a (acc * 10 + digit_val c) Ha ltac:(lia)) as GE.
      destruct (i32_max <? acc * 10) eqn:E1.
      { replace (dec_val a (acc * 10 + digit_val c) <=? i32_max) with false by lia. reflexivity. }
      destruct (i32_max <? acc * 10 + digit_val c) eqn:E2.
      { replace (dec_val a (acc * 10 + digit_val c) <=? i32_max) with false by lia. reflexivity. }
      rewrite IH by lia. reflexivity.
    + cbn [dec_val]. replace (acc <=? i32_max) with true by lia. reflexivity.
Qed.

Lemma parse_num_spec : forall s lz,
  parse_num s lz =
  let '(a, b) := span_digits s in
  if nonempty a && (lz || no_leading_zero a) && (dval a <=? i32_max)
  then Some (dval a, b) else None.
Proof.
  intros s lz. unfold parse_num, parse_digit.
  destruct s as [|c r]; [reflexivity|]. cbn [span_digits].
  destruct (is_dec_digit c) eqn:E; [|reflexivity].
  pose proof (digit_val_range c E) as RD.
  rewrite parse_num_loop_spec by (pose proof i32_bounds; lia).
  destruct (span_digits r) as [a b].
  unfold dval. cbn [dec_val nonempty is_nil negb no_leading_zero andb].
  replace (0 * 10 + digit_val c) with (digit_val c) by ring.
  rewrite (digit_val_zero c E).
  destruct lz; cbn [negb andb orb]; [reflexivity|].
  destruct (c =? 48)%N; reflexivity.
Qed.

(* ---- parse_yyyymmdd ------------------------------------------------------- *)
Lemma g_valid_small : forall y m d, g_valid y m d = true -> 1 <= m <= 12 /\ 1 <= d <= 31.
Proof.
  intros y m d V. apply g_valid_iff in V. pose proof (g_mdays_range y m). lia.
Qed.

Lemma parse_yyyymmdd_spec : forall t, parse_yyyymmdd t = Ok (ymd_spec t).
Proof.
  intro t. unfold parse_yyyymmdd, ymd_spec.
  rewrite parse_num_spec.
  pose proof (span_digits_app t) as SPY. destruct (span_digits t) as [Y r1].
  destruct SPY as [_ [HY _]].
  cbn [orb].
  destruct (nonempty Y && no_leading_zero Y && (dval Y <=? i32_max)) eqn:CY.
  2:{ (* the year is not parsed: the spec rejects as well *)
    destruct r1 as [|c1 r1']; [reflexivity|].
    destruct (c1 =? 45)%N; [|reflexivity].
    destruct (span_digits r1') as [M r2]. destruct r2 as [|c2 r2']; [reflexivity|].
    destruct (c2 =? 45)%N; [|reflexivity].
    destruct (span_digits r2') as [D r3].
    replace (accept Y M D) with false; [reflexivity|].
    unfold accept. destruct Y as [|c Y']; [reflexivity|].
    cbn [nonempty is_nil negb andb] in CY.
    destruct (no_leading_zero (c :: Y')); cbn [andb] in *; [|reflexivity].
    rewrite CY. rewrite !andb_false_r. reflexivity. }
  apply andb_true_iff in CY. destruct CY as [CY CY3]. apply andb_true_iff in CY. destruct CY as [CY1 CY2].
  unfold parse_specific_char.
  destruct r1 as [|c1 r1']; [reflexivity|].
  destruct (c1 =? 45)%N; [|reflexivity].
  destruct (dval Y <? 1000) eqn:E1000.
  { destruct (span_digits r1') as [M r2]. destruct r2 as [|c2 r2']; [reflexivity|].
    destruct (c2 =? 45)%N; [|reflexivity]. destruct (span_digits r2') as [D r3].
    replace (accept Y M D) with false; [reflexivity|].
    unfold accept. replace (1000 <=? dval Y) with false by lia.
    rewrite !andb_false_r. reflexivity. }
  unfold year_new. replace (dval Y =? 0) with false by lia. cbn [bind].
  rewrite parse_num_spec.
  pose proof (span_digits_app r1') as SPM. destruct (span_digits r1') as [M r2].
  destruct SPM as [_ [HM _]]. cbn [orb].
  rewrite andb_true_r.
  destruct (nonempty M && (dval M <=? i32_max)) eqn:CM.
  2:{ destruct r2 as [|c2 r2']; [reflexivity|].
    destruct (c2 =? 45)%N; [|reflexivity]. destruct (span_digits r2') as [D r3].
    replace (accept Y M D) with false; [reflexivity|].
    unfold accept. destruct (nonempty M); cbn [andb] in *.
    - destruct (g_valid (dval Y) (dval M) (dval D)) eqn:V; [|rewrite !andb_false_r; reflexivity].
      apply g_valid_small in V. pose proof i32_bounds. lia.
    - rewrite !andb_false_r. reflexivity. }
  apply andb_true_iff in CM. destruct CM as [CM1 CM2].
  destruct r2 as [|c2 r2']; [reflexivity|].
  destruct (c2 =? 45)%N; [|reflexivity].
  pose proof (dec_val_ge M 0 HM ltac:(lia)) as GM. fold (dval M) in GM.
  pose proof (span_digits_app r2') as SPD.
  destruct ((dval M <? 0) || (255 <? dval M)) eqn:EU8.
  { destruct (span_digits r2') as [D r3].
    replace (accept Y M D) with false; [reflexivity|].
    unfold accept. destruct (g_valid (dval Y) (dval M) (dval D)) eqn:V; [|rewrite !andb_false_r; reflexivity].
    apply g_valid_small in V. lia. }
  destruct (month_of_num (dval M)) as [m|] eqn:EMN.
  2:{ destruct (span_digits r2') as [D r3].
    destruct (accept Y M D); reflexivity. }
  rewrite parse_num_spec.
  destruct (span_digits r2') as [D r3]. destruct SPD as [_ [HD _]]. cbn [orb].
  rewrite andb_true_r.
  pose proof (dec_val_ge D 0 HD ltac:(lia)) as GD. fold (dval D) in GD.
  apply month_of_num_some in EMN. pose proof (month_num_range m) as RMN.
  rewrite month_days_spec, EMN. rewrite astro_pos by lia.
  pose proof (g_mdays_range (dval Y) (dval M)) as RMD.
  unfold accept. rewrite CY2, CM1, CY3. replace (1000 <=? dval Y) with true by lia.
  cbn [andb].
  destruct (nonempty D && (dval D <=? i32_max)) eqn:CD.
  2:{ destruct (nonempty D); cbn [andb] in *; [|reflexivity].
    replace (g_valid (dval Y) (dval M) (dval D)) with false; [reflexivity|].
    unfold g_valid. pose proof i32_bounds. lia. }
  apply andb_true_iff in CD. destruct CD as [CD1 CD2]. rewrite CD1. cbn [andb].
  destruct ((dval D <? 1) || (g_mdays (dval Y) (dval M) <? dval D)) eqn:ED.
  { replace (g_valid (dval Y) (dval M) (dval D)) with false; [reflexivity|].
    unfold g_valid. lia. }
  replace (g_valid (dval Y) (dval M) (dval D)) with true by (unfold g_valid; lia).
  replace ((dval D <? 0) || (255 <? dval D)) with false by lia.
  rewrite day_new_ok by lia. reflexivity.
Qed.

Lemma parse_date_spec : forall s,
  parse_date s = match ymd_spec (trim s) with
                 | Some (d, []) => Ok d
                 | _ => Err EParse
                 end.
Proof.
  intro s. unfold parse_date. rewrite parse_yyyymmdd_spec. cbn [bind].
  destruct (ymd_spec (trim s)) as [[d rest]|]; [|reflexivity].
  destruct rest; reflexivity.
Qed.

Lemma parse_date_never_panics : forall s k, parse_date s <> Panic k.
Proof.
  intros s k. rewrite parse_date_spec.
  destruct (ymd_spec (trim s)) as [[d [|x rest]]|]; discriminate.
Qed.

(* ---- trim ------------------------------------------------------------------ *)
Lemma all_ws_app : forall a b, all_ws a -> all_ws b -> all_ws (a ++ b).
Proof. intros a b Ha Hb. unfold all_ws in *. rewrite forallb_app, Ha, Hb. reflexivity. Qed.

Lemma all_ws_rev : forall a, all_ws a -> all_ws (rev a).
Proof.
  induction a as [|c a IH]; intro H; [exact H|].
  unfold all_ws in H. cbn [forallb] in H. apply andb_true_iff in H. destruct H as [Hc Ha].
  cbn [rev]. apply all_ws_app; [apply IH; exact Ha|]. unfold all_ws. cbn [forallb]. rewrite Hc. reflexivity.
Qed.

Lemma trim_start_decompose : forall s, exists w, s = w ++ trim_start s /\ all_ws w.
Proof.
  induction s as [|c r [w [E W]]]; [exists []; split; reflexivity|].
  cbn [trim_start]. destruct (is_ws c) eqn:C.
  - exists (c :: w). split; [cbn [app]; f_equal; exact E|].
    unfold all_ws. cbn [forallb]. rewrite C. exact W.
  - exists []. split; reflexivity.
Qed.

Lemma trim_start_exact : forall w c r, all_ws w -> is_ws c = false ->
  trim_start (w ++ c :: r) = c :: r.
Proof.
  induction w as [|x w IH]; intros c r W C.
  - cbn [app trim_start]. rewrite C. reflexivity.
  - unfold all_ws in W. cbn [forallb] in W. apply andb_true_iff in W. destruct W as [Wx Ww].
    cbn [app trim_start]. rewrite Wx. apply IH; assumption.
Qed.

Lemma trim_decompose : forall s, exists w1 w2,
  s = w1 ++ trim s ++ w2 /\ all_ws w1 /\ all_ws w2.
Proof.
  intro s. unfold trim.
  destruct (trim_start_decompose s) as [w1 [E1 W1]].
  destruct (trim_start_decompose (rev (trim_start s))) as [w2 [E2 W2]].
  exists w1, (rev w2). split; [|split; [exact W1|apply all_ws_rev; exact W2]].
  rewrite <- rev_app_distr, <- E2, rev_involutive. exact E1.
Qed.

Lemma trim_exact : forall w1 w2 c r c' r',
  all_ws w1 -> all_ws w2 -> is_ws c = false -> is_ws c' = false ->
  rev (c :: r) = c' :: r' ->
  trim (w1 ++ (c :: r) ++ w2) = c :: r.
Proof.
  intros w1 w2 c r c' r' W1 W2 C C' R. unfold trim.
  cbn [app]. rewrite trim_start_exact by assumption.
  change (c :: r ++ w2) with ((c :: r) ++ w2).
  rewrite rev_app_distr, R.
  rewrite trim_start_exact by (try apply all_ws_rev; assumption).
  rewrite <- R. apply rev_involutive.
Qed.

Lemma digit_not_ws : forall c, is_dec_digit c = true -> is_ws c = false.
Proof. intros c H. unfold is_dec_digit in H. unfold is_ws. lia. Qed.

Lemma dash_not_ws : is_ws 45 = false.
Proof. reflexivity. Qed.

Lemma dash_not_digit : is_dec_digit 45 = false.
Proof. reflexivity. Qed.

(* the shape  Y - M - D  for digit strings; its first and last characters are
   digits or dashes, never white space *)
Definition ymd_text (Y M D : list N) : list N := Y ++ 45%N :: M ++ 45%N :: D.

Lemma all_digits_cons : forall c l, all_digits (c :: l) -> is_dec_digit c = true /\ all_digits l.
Proof. intros c l H. unfold all_digits in H. cbn [forallb] in H. apply andb_true_iff in H. exact H. Qed.

Lemma ymd_text_head : forall Y M D, all_digits Y ->
  exists c r, ymd_text Y M D = c :: r /\ is_ws c = false.
Proof.
  intros Y M D HY. unfold ymd_text. destruct Y as [|c Y'].
  - eexists. eexists. split; [reflexivity|exact dash_not_ws].
  - apply all_digits_cons in HY. destruct HY as [Hc _].
    eexists. eexists. split; [reflexivity|apply digit_not_ws; exact Hc].
Qed.

Lemma all_digits_rev : forall l, all_digits l -> all_digits (rev l).
Proof.
  induction l as [|c l IH]; intro H; [exact H|].
  apply all_digits_cons in H. destruct H as [Hc Hl]. cbn [rev].
  unfold all_digits. rewrite forallb_app. rewrite (IH Hl). cbn [forallb]. rewrite Hc. reflexivity.
Qed.

Lemma ymd_text_last : forall Y M D, all_digits D ->
  exists c r, rev (ymd_text Y M D) = c :: r /\ is_ws c = false.
Proof.
  intros Y M D HD. unfold ymd_text.
  rewrite rev_app_distr. cbn [rev]. rewrite rev_app_distr. cbn [rev].
  apply all_digits_rev in HD. destruct (rev D) as [|c D'].
  - cbn [app]. eexists. eexists. split; [reflexivity|exact dash_not_ws].
  - apply all_digits_cons in HD. destruct HD as [Hc _].
    rewrite <- !app_assoc. cbn [app].
    eexists. eexists. split; [reflexivity|apply digit_not_ws; exact Hc].
Qed.

Lemma trim_ymd_text : forall w1 w2 Y M D, all_ws w1 -> all_ws w2 -> all_digits Y -> all_digits D ->
  trim (w1 ++ ymd_text Y M D ++ w2) = ymd_text Y M D.
Proof.
  intros w1 w2 Y M D W1 W2 HY HD.
  destruct (ymd_text_head Y M D HY) as [c [r [E C]]].
  destruct (ymd_text_last Y M D HD) as [c' [r' [E' C']]].
  rewrite E in *. eapply trim_exact; eassumption.
Qed.

(* ---- the acceptance theorem ------------------------------------------------ *)
Lemma ymd_spec_text : forall Y M D rest,
  all_digits Y -> all_digits M -> all_digits D -> digit_free_start rest ->
  ymd_spec (ymd_text Y M D ++ rest) =
  if accept Y M D then
    match month_of_num (dval M) with
    | Some m => Some (mkDate (dval Y) m (dval D), rest)
    | None => None
    end
  else None.
Proof.
  intros Y M D rest HY HM HD HR. unfold ymd_spec, ymd_text.
  rewrite <- app_assoc. cbn [app].
  rewrite (span_digits_exact Y _ HY) by exact dash_not_digit.
  change (45 =? 45)%N with true. cbv iota.
  rewrite <- app_assoc. cbn [app].
  rewrite (span_digits_exact M _ HM) by exact dash_not_digit.
  change (45 =? 45)%N with true. cbv iota.
  rewrite (span_digits_exact D rest HD HR). reflexivity.
Qed.

Lemma accept_parts : forall Y M D, accept Y M D = true <->
  (no_leading_zero Y = true /\ nonempty M = true /\ nonempty D = true /\
   (1000 <=? dval Y) = true /\ (dval Y <=? i32_max) = true /\
   g_valid (dval Y) (dval M) (dval D) = true).
Proof.
  intros Y M D. unfold accept. rewrite !andb_true_iff. tauto.
Qed.

Lemma accept_month : forall Y M D, accept Y M D = true ->
  exists m, month_of_num (dval M) = Some m /\ month_num m = dval M.
Proof.
  intros Y M D A. apply accept_parts in A. destruct A as [_ [_ [_ [_ [_ V]]]]].
  apply g_valid_small in V.
  destruct (month_of_num (dval M)) as [m|] eqn:E.
  - exists m. split; [reflexivity|apply month_of_num_some; exact E].
  - apply month_of_num_none in E. lia.
Qed.

(* every text of the shape ws* Y-M-D ws* is accepted iff [accept Y M D] *)
Lemma parse_date_shape : forall w1 w2 Y M D,
  all_ws w1 -> all_ws w2 -> all_digits Y -> all_digits M -> all_digits D ->
  parse_date (w1 ++ ymd_text Y M D ++ w2) =
  if accept Y M D then
    match month_of_num (dval M) with
    | Some m => Ok (mkDate (dval Y) m (dval D))
    | None => Err EParse
    end
  else Err EParse.
Proof.
  intros w1 w2 Y M D W1 W2 HY HM HD. rewrite parse_date_spec.
  rewrite trim_ymd_text by assumption.
  rewrite <- (app_nil_r (ymd_text Y M D)).
  rewrite ymd_spec_text by (try assumption; exact I).
  destruct (accept Y M D); [|reflexivity].
  destruct (month_of_num (dval M)); reflexivity.
Qed.

(* ... and nothing else is accepted *)
Lemma parse_date_sound : forall s d, parse_date s = Ok d ->
  exists w1 Y M D w2,
    s = w1 ++ ymd_text Y M D ++ w2 /\ all_ws w1 /\ all_ws w2 /\
    all_digits Y /\ all_digits M /\ all_digits D /\ accept Y M D = true /\
    dyear d = dval Y /\ month_num (dmonth d) = dval M /\ dday d = dval D.
Proof.
  intros s d P. rewrite parse_date_spec in P.
  destruct (trim_decompose s) as [w1 [w2 [E [W1 W2]]]].
  unfold ymd_spec in P.
  pose proof (span_digits_app (trim s)) as SY. destruct (span_digits (trim s)) as [Y r1].
  destruct SY as [EY [HY _]].
  destruct r1 as [|c1 r1']; [discriminate P|].
  destruct (c1 =? 45)%N eqn:C1; [|discriminate P]. apply N.eqb_eq in C1. subst c1.
  pose proof (span_digits_app r1') as SM. destruct (span_digits r1') as [M r2].
  destruct SM as [EM [HM _]].
  destruct r2 as [|c2 r2']; [discriminate P|].
  destruct (c2 =? 45)%N eqn:C2; [|discriminate P]. apply N.eqb_eq in C2. subst c2.
  pose proof (span_digits_app r2') as SD. destruct (span_digits r2') as [D r3].
  destruct SD as [ED [HD _]].
  destruct (accept Y M D) eqn:A; [|discriminate P].
  destruct (month_of_num (dval M)) as [m|] eqn:EMN; [|discriminate P].
  destruct r3 as [|x r3']; [|discriminate P].
  inversion P. subst d. clear P.
  exists w1, Y, M, D, w2.
  split.
  { rewrite E at 1. rewrite EY, EM, ED. unfold ymd_text. rewrite app_nil_r. reflexivity. }
  repeat (split; [assumption|]).
  cbn [dyear dmonth dday]. split; [reflexivity|]. split; [|reflexivity].
  apply month_of_num_some. exact EMN.
Qed.

(* what [accept] means, spelled out *)
Lemma accept_iff : forall Y M D, accept Y M D = true <->
  (no_leading_zero Y = true /\ M <> [] /\ D <> [] /\
   1000 <= dval Y <= i32_max /\ g_valid (dval Y) (dval M) (dval D) = true).
Proof.
  intros Y M D. rewrite accept_parts. unfold nonempty.
  assert (EM : negb (is_nil M) = true <-> M <> []) by (destruct M; cbn; split; congruence).
  assert (ED : negb (is_nil D) = true <-> D <> []) by (destruct D; cbn; split; congruence).
  rewrite EM, ED, !Z.leb_le. tauto.
Qed.

(* ---- the '@' literal scanner ----------------------------------------------- *)
Lemma count_digits_span : forall s,
  count_digits s = (length (fst (span_digits s)), snd (span_digits s)).
Proof.
  induction s as [|c r IH]; [reflexivity|].
  cbn [count_digits span_digits]. destruct (is_dec_digit c); [|reflexivity].
  rewrite IH. destruct (span_digits r) as [a b]. reflexivity.
Qed.

Lemma firstn_length_app : forall A (l r : list A), firstn (length l) (l ++ r) = l.
Proof. induction l as [|x l IH]; intro r; [reflexivity|]. cbn. rewrite IH. reflexivity. Qed.

Lemma skipn_length_app : forall A (l r : list A), skipn (length l) (l ++ r) = r.
Proof. induction l as [|x l IH]; intro r; [reflexivity|]. cbn. apply IH. Qed.

Lemma lex_date_spec : forall Y M D rest,
  all_digits Y -> all_digits M -> all_digits D -> digit_free_start rest ->
  lex_date (ymd_text Y M D ++ rest) =
  if nonempty Y && nonempty M && nonempty D
  then (do d <- parse_date (ymd_text Y M D); Ok (d, rest))
  else Err EParse.
Proof.
  intros Y M D rest HY HM HD HR.
  assert (E1 : ymd_text Y M D ++ rest = Y ++ 45%N :: (M ++ 45%N :: (D ++ rest))).
  { unfold ymd_text. rewrite <- !app_assoc. cbn [app]. rewrite <- !app_assoc. reflexivity. }
  assert (S1 : span_digits (ymd_text Y M D ++ rest) = (Y, 45%N :: (M ++ 45%N :: (D ++ rest)))).
  { rewrite E1. apply span_digits_exact; [exact HY|exact dash_not_digit]. }
  assert (S2 : span_digits (M ++ 45%N :: (D ++ rest)) = (M, 45%N :: (D ++ rest))).
  { apply span_digits_exact; [exact HM|exact dash_not_digit]. }
  assert (S3 : span_digits (D ++ rest) = (D, rest)).
  { apply span_digits_exact; assumption. }
  unfold lex_date.
  rewrite count_digits_span, S1. cbn [fst snd starts_with_dash].
  change (45 =? 45)%N with true. cbv iota.
  rewrite count_digits_span, S2. cbn [fst snd starts_with_dash].
  change (45 =? 45)%N with true. cbv iota.
  rewrite count_digits_span, S3. cbn [fst snd].
  destruct Y as [|y0 Y']; [reflexivity|].
  destruct M as [|m0 M']; [reflexivity|].
  destruct D as [|d0 D']; [reflexivity|].
  cbn [length Nat.eqb nonempty is_nil negb andb].
  assert (EL : (S (length Y') + 1 + S (length M') + 1 + S (length D'))%nat =
               length (ymd_text (y0 :: Y') (m0 :: M') (d0 :: D'))).
  { unfold ymd_text. rewrite app_length. cbn [length]. rewrite app_length. cbn [length]. lia. }
  rewrite EL. rewrite firstn_length_app, skipn_length_app. reflexivity.
Qed.

(* the whole statement for the literal: accepted exactly when [accept] *)
Lemma lex_date_accept : forall Y M D rest,
  all_digits Y -> all_digits M -> all_digits D -> digit_free_start rest ->
  lex_date (ymd_text Y M D ++ rest) =
  if accept Y M D then
    match month_of_num (dval M) with
    | Some m => Ok (mkDate (dval Y) m (dval D), rest)
    | None => Err EParse
    end
  else Err EParse.
Proof.
  intros Y M D rest HY HM HD HR. rewrite lex_date_spec by assumption.
  pose proof (parse_date_shape [] [] Y M D eq_refl eq_refl HY HM HD) as P.
  cbn [app] in P. rewrite app_nil_r in P. rewrite P.
  destruct (accept Y M D) eqn:A.
  - assert (N : nonempty Y && nonempty M && nonempty D = true).
    { apply accept_iff in A. destruct A as [A1 [A2 [A3 _]]].
      destruct Y; [discriminate A1|]. destruct M; [contradiction|]. destruct D; [contradiction|]. reflexivity. }
    rewrite N. destruct (month_of_num (dval M)); reflexivity.
  - destruct (nonempty Y && nonempty M && nonempty D); reflexivity.
Qed.

Lemma lex_date_sound : forall input d rest, lex_date input = Ok (d, rest) ->
  exists Y M D, input = ymd_text Y M D ++ rest /\
    all_digits Y /\ all_digits M /\ all_digits D /\ digit_free_start rest /\
    accept Y M D = true /\
    dyear d = dval Y /\ month_num (dmonth d) = dval M /\ dday d = dval D.
Proof.
  intros input d rest L.
  pose proof (span_digits_app input) as SY. destruct (span_digits input) as [Y r1] eqn:ESY.
  destruct SY as [EY [HY _]].
  destruct r1 as [|c1 r1'].
  { unfold lex_date in L. rewrite count_digits_span, ESY in L. cbn [fst snd starts_with_dash] in L.
    destruct (Nat.eqb (length Y) 0); discriminate L. }
  destruct (c1 =? 45)%N eqn:C1.
  2:{ unfold lex_date in L. rewrite count_digits_span, ESY in L. cbn [fst snd starts_with_dash] in L.
      rewrite C1 in L. destruct (Nat.eqb (length Y) 0); discriminate L. }
  apply N.eqb_eq in C1. subst c1.
  pose proof (span_digits_app r1') as SM. destruct (span_digits r1') as [M r2] eqn:ESM.
  destruct SM as [EM [HM _]].
  destruct r2 as [|c2 r2'].
  { unfold lex_date in L. rewrite count_digits_span, ESY in L. cbn [fst snd starts_with_dash] in L.
    change (45 =? 45)%N with true in L. cbv iota in L.
    rewrite count_digits_span, ESM in L. cbn [fst snd starts_with_dash] in L.
    destruct (Nat.eqb (length Y) 0); [discriminate L|]. destruct (Nat.eqb (length M) 0); discriminate L. }
  destruct (c2 =? 45)%N eqn:C2.
  2:{ unfold lex_date in L. rewrite count_digits_span, ESY in L. cbn [fst snd starts_with_dash] in L.
      change (45 =? 45)%N with true in L. cbv iota in L.
      rewrite count_digits_span, ESM in L. cbn [fst snd starts_with_dash] in L. rewrite C2 in L.
      destruct (Nat.eqb (length Y) 0); [discriminate L|]. destruct (Nat.eqb (length M) 0); discriminate L. }
  apply N.eqb_eq in C2. subst c2.
  pose proof (span_digits_app r2') as SD. destruct (span_digits r2') as [D r3] eqn:ESD.
  destruct SD as [ED [HD HR]].
  assert (EI : input = ymd_text Y M D ++ r3).
  { rewrite EY, EM, ED. unfold ymd_text. rewrite <- !app_assoc. cbn [app]. rewrite <- !app_assoc. reflexivity. }
  rewrite EI in L. rewrite lex_date_accept in L by assumption.
  destruct (accept Y M D) eqn:A; [|discriminate L].
  destruct (month_of_num (dval M)) as [m|] eqn:EMN; [|discriminate L].
  inversion L. subst d rest.
  exists Y, M, D. repeat (split; [assumption|]).
  cbn [dyear dmonth dday]. split; [reflexivity|]. split; [|reflexivity].
  apply month_of_num_some. exact EMN.
Qed.

(* month_of_num and the model month: the accepted literal's month is the true one *)
Lemma month_name_of_num : forall m, month_of_num (month_num m) = Some m.
Proof. exact month_of_num_num. Qed.
