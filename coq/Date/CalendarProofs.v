(* C16 -- the model of fend's date code (Date/Calendar.v) against the
   Gregorian spec (Date/Gregorian.v). *)
From Coq Require Import Lia ZifyBool.
From FendV Require Import Base.Prelude Date.Gregorian Date.GregorianProofs Date.Calendar.
Open Scope Z_scope.

Ltac Zify.zify_post_hook ::= Z.div_mod_to_equations.

(* ---- vocabulary --------------------------------------------------------- *)
(* A Date value: the year is a non-zero i32 (Year), counted astronomically
   (1 BC = 0) by the spec. *)
Definition wfy (y : Z) : Prop := i32_min <= y <= i32_max /\ y <> 0.
Definition ay (d : date) : Z := astronomical (dyear d).
Definition valid (d : date) : Prop :=
  g_valid (ay d) (month_num (dmonth d)) (dday d) = true.
Definition rdd (d : date) : Z := rd (ay d) (month_num (dmonth d)) (dday d).
(* the last and the first representable day: 2147483647-12-31, 1 Jan 2147483648 BC *)
Definition last_date : date := mkDate i32_max December 31.
Definition min_date : date := mkDate i32_min January 1.
Definition rd_max : Z := rdd last_date.
Definition rd_min : Z := rdd min_date.
Definition first_date : date := mkDate 1 January 1.

(* ---- small facts about months ------------------------------------------ *)
Lemma month_num_range : forall m, 1 <= month_num m <= 12.
Proof. destruct m; cbn; lia. Qed.

Lemma month_num_inj : forall a b, month_num a = month_num b -> a = b.
Proof. destruct a; destruct b; cbn; intro H; try reflexivity; discriminate H. Qed.

Lemma month_of_num_num : forall m, month_of_num (month_num m) = Some m.
Proof. destruct m; reflexivity. Qed.

Lemma month_of_num_some : forall n m, month_of_num n = Some m -> month_num m = n.
Proof.
  intros n m. unfold month_of_num.
  repeat match goal with
         | |- context [if ?c then _ else _] => destruct c eqn:?
         end; intro H; inversion H; subst; cbn; lia.
Qed.

Lemma month_of_num_none : forall n, month_of_num n = None -> ~ (1 <= n <= 12).
Proof.
  intros n. unfold month_of_num.
  repeat match goal with
         | |- context [if ?c then _ else _] => destruct c eqn:?
         end; intro H; try discriminate H; lia.
Qed.

Lemma month_eqb_eq : forall a b, month_eqb a b = true <-> a = b.
Proof.
  intros a b. unfold month_eqb. split.
  - intro H. apply month_num_inj. lia.
  - intros ->. lia.
Qed.

Lemma month_eqb_neq : forall a b, month_eqb a b = false <-> a <> b.
Proof.
  intros a b. split.
  - intros H E. apply month_eqb_eq in E. congruence.
  - intro H. destruct (month_eqb a b) eqn:E; [apply month_eqb_eq in E; contradiction|reflexivity].
Qed.

Lemma month_next_num : forall m, m <> December -> month_num (month_next m) = month_num m + 1.
Proof. destruct m; intro H; try reflexivity; contradiction. Qed.

Lemma month_prev_num : forall m, m <> January -> month_num (month_prev m) = month_num m - 1.
Proof. destruct m; intro H; try reflexivity; contradiction. Qed.

Lemma month_dec : forall a b : month, a = b \/ a <> b.
Proof. intros a b. destruct (month_eqb a b) eqn:E; [left; apply month_eqb_eq|right; apply month_eqb_neq]; exact E. Qed.

Lemma month_num_dec_iff : forall m, month_num m = 12 <-> m = December.
Proof. destruct m; cbn; split; intro H; try reflexivity; try discriminate H; lia. Qed.

Lemma month_num_jan_iff : forall m, month_num m = 1 <-> m = January.
Proof. destruct m; cbn; split; intro H; try reflexivity; try discriminate H; lia. Qed.

Lemma i32_bounds : i32_min = -2147483648 /\ i32_max = 2147483647.
Proof. split; reflexivity. Qed.
(* lia that knows the two i32 constants *)
Ltac blia := pose proof i32_bounds; lia.

(* ---- years --------------------------------------------------------------- *)
Lemma astro_cases : forall y, (y < 0 /\ astronomical y = y + 1) \/ (0 <= y /\ astronomical y = y).
Proof. intro y. unfold astronomical. destruct (y <? 0) eqn:E; blia. Qed.

Lemma astro_inj : forall a b, a <> 0 -> b <> 0 -> astronomical a = astronomical b -> a = b.
Proof. intros a b Ha Hb. destruct (astro_cases a) as [[? ->]|[? ->]]; destruct (astro_cases b) as [[? ->]|[? ->]]; blia. Qed.

Lemma astro_pos : forall y, 1 <= y -> astronomical y = y.
Proof. intros y H. destruct (astro_cases y) as [[? ?]|[? ?]]; blia. Qed.

Lemma year_next_spec : forall y, wfy y -> y < i32_max ->
  exists y', year_next y = Ok y' /\ astronomical y' = astronomical y + 1 /\ wfy y'.
Proof.
  intros y [Hr Hz] Hlt. unfold year_next.
  destruct (y =? -1) eqn:E1.
  - assert (y = -1) by blia. subst y. exists 1. repeat split; try reflexivity; unfold i32_min, i32_max; blia.
  - replace (i32_max <? y + 1) with false by blia.
    unfold year_new. replace (y + 1 =? 0) with false by blia.
    exists (y + 1). split; [reflexivity|]. split.
    + destruct (astro_cases y) as [[? ->]|[? ->]]; destruct (astro_cases (y + 1)) as [[? ->]|[? ->]]; blia.
    + unfold wfy. blia.
Qed.

Lemma year_prev_spec : forall y, wfy y -> i32_min < y ->
  exists y', year_prev y = Ok y' /\ astronomical y' = astronomical y - 1 /\ wfy y'.
Proof.
  intros y [Hr Hz] Hlt. unfold year_prev.
  destruct (y =? 1) eqn:E1.
  - assert (y = 1) by blia. subst y. exists (-1). repeat split; try reflexivity; unfold i32_min, i32_max; blia.
  - replace (y - 1 <? i32_min) with false by blia.
    unfold year_new. replace (y - 1 =? 0) with false by blia.
    exists (y - 1). split; [reflexivity|]. split.
    + destruct (astro_cases y) as [[? ->]|[? ->]]; destruct (astro_cases (y - 1)) as [[? ->]|[? ->]]; blia.
    + unfold wfy. blia.
Qed.

Lemma year_next_never_panics : forall y, y <> 0 -> forall k, year_next y <> Panic k.
Proof.
  intros y Hz k. unfold year_next, year_new.
  destruct (y =? -1) eqn:E1; [cbn; discriminate|].
  destruct (i32_max <? y + 1); [discriminate|].
  replace (y + 1 =? 0) with false by blia. discriminate.
Qed.

Lemma year_prev_never_panics : forall y, y <> 0 -> forall k, year_prev y <> Panic k.
Proof.
  intros y Hz k. unfold year_prev, year_new.
  destruct (y =? 1) eqn:E1; [cbn; discriminate|].
  destruct (y - 1 <? i32_min); [discriminate|].
  replace (y - 1 =? 0) with false by blia. discriminate.
Qed.

(* ---- leap years and month lengths: code = spec -------------------------- *)
Lemma rem_zero_iff : forall a b, b <> 0 -> (Z.rem a b =? 0) = (a mod b =? 0).
Proof.
  intros a b Hb. apply eq_true_iff_eq. rewrite !Z.eqb_eq.
  rewrite Z.rem_divide by exact Hb. rewrite Z.mod_divide by exact Hb. reflexivity.
Qed.

Lemma is_leap_year_spec : forall y, is_leap_year y = g_leap (astronomical y).
Proof.
  intro y. unfold is_leap_year, g_leap. cbv zeta.
  rewrite !rem_zero_iff by discriminate.
  destruct (astronomical y mod 400 =? 0); destruct (astronomical y mod 100 =? 0);
  destruct (astronomical y mod 4 =? 0); reflexivity.
Qed.

Lemma month_days_spec : forall m y, month_days m y = g_mdays (astronomical y) (month_num m).
Proof.
  intros m y. destruct m; unfold month_days, g_mdays; cbn [month_num];
  rewrite ?is_leap_year_spec; reflexivity.
Qed.

Lemma year_number_of_days_spec : forall y, year_number_of_days y = g_ylen (astronomical y).
Proof. intro y. unfold year_number_of_days, g_ylen. rewrite is_leap_year_spec. reflexivity. Qed.

(* ---- primitive steps ---------------------------------------------------- *)
Lemma day_new_ok : forall d, 1 <= d <= 31 -> day_new d = Ok d.
Proof.
  intros d H. unfold day_new.
  replace ((d =? 0) || (32 <=? d)) with false by blia. reflexivity.
Qed.

Lemma i32_op_ok : forall ck s z, i32_min <= z <= i32_max -> i32_op ck s z = Ok z.
Proof.
  intros ck s z H. unfold i32_op, in_i32.
  replace ((i32_min <=? z) && (z <=? i32_max)) with true by blia. reflexivity.
Qed.

Lemma valid_iff : forall d, valid d <->
  (1 <= dday d <= g_mdays (ay d) (month_num (dmonth d))).
Proof.
  intro d. unfold valid. rewrite g_valid_iff. pose proof (month_num_range (dmonth d)). tauto.
Qed.

Lemma rdd_max_eq : rd_max = rd i32_max 12 31.
Proof. reflexivity. Qed.
Lemma rdd_min_eq : rd_min = rd (i32_min + 1) 1 1.
Proof. reflexivity. Qed.

(* two dates with the same day number are the same date *)
Lemma rdd_inj : forall a b, dyear a <> 0 -> dyear b <> 0 -> valid a -> valid b ->
  rdd a = rdd b -> a = b.
Proof.
  intros [y1 m1 d1] [y2 m2 d2] Za Zb Va Vb E. unfold valid, rdd, ay in *. cbn [dyear dmonth dday] in *.
  destruct (rd_inj _ _ _ _ _ _ Va Vb E) as [Ey [Em ->]].
  apply month_num_inj in Em. apply astro_inj in Ey; try assumption. subst. reflexivity.
Qed.

Lemma rdd_first : rdd first_date = 1.
Proof. reflexivity. Qed.

Lemma rdd_pos : forall d, 1 <= dyear d -> valid d -> 1 <= rdd d.
Proof.
  intros d Hy V. unfold rdd, valid, ay in *. rewrite astro_pos in * by exact Hy.
  apply rd_pos; assumption.
Qed.

Lemma rdd_le_max : forall d, wfy (dyear d) -> valid d -> rdd d <= rd_max.
Proof.
  intros [y m dd] [Hy Hz] V. unfold valid, rdd, ay in *. cbn [dyear dmonth dday] in *.
  rewrite rdd_max_eq.
  assert (LA : astronomical y <= i32_max) by (destruct (astro_cases y) as [[? ->]|[? ->]]; blia).
  destruct (Z.eq_dec (astronomical y) i32_max) as [E|N].
  - rewrite E in *. unfold rd.
    pose proof (within_year _ _ _ V) as W.
    rewrite <- dbm_last in W. change (g_mdays i32_max 12) with 31 in W. blia.
  - assert (VL : g_valid i32_max 12 31 = true) by reflexivity.
    pose proof (rd_lt_year _ _ _ _ _ _ V VL ltac:(blia)) as LT. blia.
Qed.

Lemma rdd_ge_min : forall d, wfy (dyear d) -> valid d -> rd_min <= rdd d.
Proof.
  intros [y m dd] [Hy Hz] V. unfold valid, rdd, ay in *. cbn [dyear dmonth dday] in *.
  rewrite rdd_min_eq.
  assert (LA : i32_min + 1 <= astronomical y) by (destruct (astro_cases y) as [[? ->]|[? ->]]; blia).
  destruct (Z.eq_dec (astronomical y) (i32_min + 1)) as [E|N].
  - rewrite E in *. unfold rd. rewrite dbm_first.
    pose proof (within_year _ _ _ V) as W. blia.
  - assert (VL : g_valid (i32_min + 1) 1 1 = true) by reflexivity.
    pose proof (rd_lt_year _ _ _ _ _ _ VL V ltac:(blia)) as LT. blia.
Qed.

(* ---- Date::next --------------------------------------------------------- *)
Lemma date_next_spec : forall d,
  wfy (dyear d) -> valid d -> rdd d < rd_max ->
  exists d', date_next d = Ok d' /\ valid d' /\ rdd d' = rdd d + 1 /\ wfy (dyear d').
Proof.
  intros [y m dd] Hy V Hlt. pose proof V as V0. apply valid_iff in V.
  unfold ay in V. cbn [dyear dmonth dday] in *.
  pose proof (g_mdays_range (astronomical y) (month_num m)) as R.
  unfold date_next. cbn [dyear dmonth dday]. rewrite month_days_spec.
  destruct (dd <? g_mdays (astronomical y) (month_num m)) eqn:E.
  - rewrite day_new_ok by blia. cbn [bind].
    eexists. split; [reflexivity|]. split; [|split].
    + apply valid_iff. unfold ay. cbn [dyear dmonth dday]. blia.
    + unfold rdd, rd, ay. cbn [dyear dmonth dday]. blia.
    + cbn [dyear]. exact Hy.
  - assert (Edd : dd = g_mdays (astronomical y) (month_num m)) by blia.
    destruct (month_eqb m December) eqn:EM.
    + apply month_eqb_eq in EM. subst m. cbn [month_num] in *.
      assert (Hy2 : y < i32_max).
      { destruct Hy as [Hr Hz]. destruct (Z.eq_dec y i32_max) as [->|]; [|blia].
        exfalso. rewrite rdd_max_eq in Hlt. unfold rdd, ay in Hlt. cbn [dyear dmonth dday month_num] in Hlt.
        change (astronomical i32_max) with i32_max in *.
        change (g_mdays i32_max 12) with 31 in Edd. subst dd. blia. }
      rewrite day_new_ok by blia. cbn [bind].
      destruct (year_next_spec y Hy Hy2) as [y' [N [A W]]]. rewrite N. cbn [bind].
      eexists. split; [reflexivity|]. split; [|split].
      * apply valid_iff. unfold ay. cbn [dyear dmonth dday month_num].
        pose proof (g_mdays_range (astronomical y') 1). blia.
      * unfold rdd, rd, ay. cbn [dyear dmonth dday month_num]. rewrite A.
        rewrite dby_step, dbm_first, <- dbm_last. blia.
      * cbn [dyear]. exact W.
    + apply month_eqb_neq in EM.
      rewrite day_new_ok by blia. cbn [bind].
      eexists. split; [reflexivity|]. split; [|split].
      * apply valid_iff. unfold ay. cbn [dyear dmonth dday].
        pose proof (g_mdays_range (astronomical y) (month_num (month_next m))). blia.
      * unfold rdd, rd, ay. cbn [dyear dmonth dday].
        rewrite month_next_num by exact EM.
        pose proof (month_num_range m).
        assert (month_num m <> 12) by (intro E12; apply month_num_dec_iff in E12; contradiction).
        rewrite dbm_step by blia. blia.
      * cbn [dyear]. exact Hy.
Qed.

Lemma date_next_last : date_next last_date = Err EOutOfRange.
Proof. reflexivity. Qed.

(* ---- Date::prev --------------------------------------------------------- *)
Lemma date_prev_spec : forall d,
  wfy (dyear d) -> valid d -> rd_min < rdd d ->
  exists d', date_prev d = Ok d' /\ valid d' /\ rdd d' = rdd d - 1 /\ wfy (dyear d').
Proof.
  intros [y m dd] Hy V Hgt. pose proof V as V0. apply valid_iff in V.
  unfold ay in V. cbn [dyear dmonth dday] in *.
  pose proof (g_mdays_range (astronomical y) (month_num m)) as R.
  unfold date_prev. cbn [dyear dmonth dday].
  destruct (1 <? dd) eqn:E.
  - rewrite day_new_ok by blia. cbn [bind].
    eexists. split; [reflexivity|]. split; [|split].
    + apply valid_iff. unfold ay. cbn [dyear dmonth dday]. blia.
    + unfold rdd, rd, ay. cbn [dyear dmonth dday]. blia.
    + cbn [dyear]. exact Hy.
  - assert (Edd : dd = 1) by blia. subst dd.
    destruct (month_eqb m January) eqn:EM.
    + apply month_eqb_eq in EM. subst m. cbn [month_num] in *.
      assert (Hy2 : i32_min < y).
      { destruct Hy as [Hr Hz]. destruct (Z.eq_dec y i32_min) as [->|]; [|blia].
        exfalso. rewrite rdd_min_eq in Hgt. unfold rdd, ay in Hgt. cbn [dyear dmonth dday month_num] in Hgt.
        change (astronomical i32_min) with (i32_min + 1) in *. blia. }
      rewrite day_new_ok by blia. cbn [bind].
      destruct (year_prev_spec y Hy Hy2) as [y' [N [A W]]]. rewrite N. cbn [bind].
      eexists. split; [reflexivity|]. split; [|split].
      * apply valid_iff. unfold ay. cbn [dyear dmonth dday month_num].
        unfold g_mdays. cbn. blia.
      * unfold rdd, rd, ay. cbn [dyear dmonth dday month_num]. rewrite A.
        pose proof (dby_step (astronomical y - 1)) as S.
        replace (astronomical y - 1 + 1) with (astronomical y) in S by ring.
        rewrite S, dbm_first, <- dbm_last.
        change (g_mdays (astronomical y - 1) 12) with 31. blia.
      * cbn [dyear]. exact W.
    + apply month_eqb_neq in EM.
      rewrite month_days_spec.
      pose proof (g_mdays_range (astronomical y) (month_num (month_prev m))) as R2.
      rewrite day_new_ok by blia. cbn [bind].
      eexists. split; [reflexivity|]. split; [|split].
      * apply valid_iff. unfold ay. cbn [dyear dmonth dday]. blia.
      * unfold rdd, rd, ay. cbn [dyear dmonth dday].
        rewrite month_prev_num by exact EM.
        pose proof (month_num_range m).
        assert (month_num m <> 1) by (intro E1; apply month_num_jan_iff in E1; contradiction).
        pose proof (dbm_step (astronomical y) (month_num m - 1) ltac:(blia)) as S.
        replace (month_num m - 1 + 1) with (month_num m) in S by ring. blia.
      * cbn [dyear]. exact Hy.
Qed.

Lemma date_prev_first : date_prev min_date = Err EOutOfRange.
Proof. reflexivity. Qed.

Lemma wfy_nz : forall y, wfy y -> y <> 0.
Proof. intros y [_ H]. exact H. Qed.

(* at the two ends of the range the step is the error YearOutOfRange *)
Lemma date_next_total : forall d, wfy (dyear d) -> valid d ->
  (exists d', date_next d = Ok d') \/ (d = last_date /\ date_next d = Err EOutOfRange).
Proof.
  intros d Hy V. pose proof (rdd_le_max d Hy V) as LE.
  destruct (Z.eq_dec (rdd d) rd_max) as [E|NE].
  - right. assert (d = last_date).
    { apply rdd_inj; try assumption; [apply wfy_nz; exact Hy|discriminate|reflexivity]. }
    subst d. split; reflexivity.
  - left. destruct (date_next_spec d Hy V ltac:(blia)) as [d' [N _]]. exists d'. exact N.
Qed.

Lemma date_prev_total : forall d, wfy (dyear d) -> valid d ->
  (exists d', date_prev d = Ok d') \/ (d = min_date /\ date_prev d = Err EOutOfRange).
Proof.
  intros d Hy V. pose proof (rdd_ge_min d Hy V) as LE.
  destruct (Z.eq_dec (rdd d) rd_min) as [E|NE].
  - right. assert (d = min_date).
    { apply rdd_inj; try assumption; [apply wfy_nz; exact Hy|discriminate|reflexivity]. }
    subst d. split; reflexivity.
  - left. destruct (date_prev_spec d Hy V ltac:(blia)) as [d' [N _]]. exists d'. exact N.
Qed.

Lemma prev_next : forall d d',
  wfy (dyear d) -> valid d -> date_next d = Ok d' -> date_prev d' = Ok d.
Proof.
  intros d d' Hy V N.
  destruct (date_next_total d Hy V) as [[d0 N0]|[-> N0]]; [|rewrite N0 in N; discriminate N].
  pose proof (rdd_le_max d Hy V) as LE.
  destruct (Z.eq_dec (rdd d) rd_max) as [E|NE].
  - assert (d = last_date).
    { apply rdd_inj; try assumption; [apply wfy_nz; exact Hy|discriminate|reflexivity]. }
    subst d. rewrite date_next_last in N. discriminate N.
  - destruct (date_next_spec d Hy V ltac:(blia)) as [d1 [N1 [V1 [R1 Y1]]]].
    rewrite N in N1. inversion N1. subst d1.
    pose proof (rdd_ge_min d Hy V) as P.
    destruct (date_prev_spec d' Y1 V1 ltac:(blia)) as [d2 [P2 [V2 [R2 Y2]]]].
    rewrite P2. f_equal.
    apply rdd_inj; try assumption; [apply wfy_nz; exact Y2|apply wfy_nz; exact Hy|blia].
Qed.

Lemma next_prev : forall d d',
  wfy (dyear d) -> valid d -> date_prev d = Ok d' -> date_next d' = Ok d.
Proof.
  intros d d' Hy V P.
  pose proof (rdd_ge_min d Hy V) as GE.
  destruct (Z.eq_dec (rdd d) rd_min) as [E|NE].
  - assert (d = min_date).
    { apply rdd_inj; try assumption; [apply wfy_nz; exact Hy|discriminate|reflexivity]. }
    subst d. rewrite date_prev_first in P. discriminate P.
  - destruct (date_prev_spec d Hy V ltac:(blia)) as [d1 [P1 [V1 [R1 Y1]]]].
    rewrite P in P1. inversion P1. subst d1.
    pose proof (rdd_le_max d Hy V) as LE.
    destruct (date_next_spec d' Y1 V1 ltac:(blia)) as [d2 [N2 [V2 [R2 Y2]]]].
    rewrite N2. f_equal.
    apply rdd_inj; try assumption; [apply wfy_nz; exact Y2|apply wfy_nz; exact Hy|blia].
Qed.

(* ---- loops --------------------------------------------------------------- *)
Lemma iter_res_0 : forall A (f : A -> res A) a, iter_res 0 f a = Ok a.
Proof. reflexivity. Qed.

Lemma iter_res_succ : forall A n (f : A -> res A) a,
  iter_res (N.succ n) f a = bind (iter_res n f a) f.
Proof. intros. unfold iter_res. rewrite N.iter_succ. reflexivity. Qed.

Lemma iter_next_spec : forall k d,
  wfy (dyear d) -> valid d -> rdd d + Z.of_N k <= rd_max ->
  exists d', iter_res k date_next d = Ok d' /\ valid d' /\
             rdd d' = rdd d + Z.of_N k /\ wfy (dyear d').
Proof.
  intros k. induction k using N.peano_ind; intros d Hy V Hle.
  - exists d. rewrite iter_res_0. repeat split; try assumption; try apply Hy; blia.
  - destruct (IHk d Hy V ltac:(blia)) as [d1 [I1 [V1 [R1 Y1]]]].
    destruct (date_next_spec d1 Y1 V1 ltac:(blia)) as [d2 [N2 [V2 [R2 Y2]]]].
    exists d2. rewrite iter_res_succ, I1. cbn [bind].
    repeat split; try assumption; try apply Y2; blia.
Qed.

Lemma iter_prev_spec : forall k d,
  wfy (dyear d) -> valid d -> rd_min <= rdd d - Z.of_N k ->
  exists d', iter_res k date_prev d = Ok d' /\ valid d' /\
             rdd d' = rdd d - Z.of_N k /\ wfy (dyear d').
Proof.
  intros k. induction k using N.peano_ind; intros d Hy V Hle.
  - exists d. rewrite iter_res_0. repeat split; try assumption; try apply Hy; blia.
  - destruct (IHk d Hy V ltac:(blia)) as [d1 [I1 [V1 [R1 Y1]]]].
    destruct (date_prev_spec d1 Y1 V1 ltac:(blia)) as [d2 [N2 [V2 [R2 Y2]]]].
    exists d2. rewrite iter_res_succ, I1. cbn [bind].
    repeat split; try assumption; try apply Y2; blia.
Qed.

(* past the end of the range the loop stops with YearOutOfRange; it never panics *)
Lemma iter_next_overflow : forall k d,
  wfy (dyear d) -> valid d -> rd_max < rdd d + Z.of_N k ->
  iter_res k date_next d = Err EOutOfRange.
Proof.
  intros k. induction k using N.peano_ind; intros d Hy V Hgt.
  - pose proof (rdd_le_max d Hy V). blia.
  - rewrite iter_res_succ.
    destruct (Z_le_gt_dec (rdd d + Z.of_N k) rd_max) as [LE|GT].
    + destruct (iter_next_spec k d Hy V LE) as [d1 [I1 [V1 [R1 Y1]]]].
      rewrite I1. cbn [bind].
      destruct (date_next_total d1 Y1 V1) as [[d2 N2]|[-> N2]]; [|exact N2].
      exfalso. assert (rdd d1 = rd_max) by blia.
      assert (d1 = last_date).
      { apply rdd_inj; try assumption; [apply wfy_nz; exact Y1|discriminate|reflexivity]. }
      subst d1. rewrite date_next_last in N2. discriminate N2.
    + rewrite (IHk d Hy V ltac:(blia)). reflexivity.
Qed.

Lemma iter_prev_overflow : forall k d,
  wfy (dyear d) -> valid d -> rdd d - Z.of_N k < rd_min ->
  iter_res k date_prev d = Err EOutOfRange.
Proof.
  intros k. induction k using N.peano_ind; intros d Hy V Hgt.
  - pose proof (rdd_ge_min d Hy V). blia.
  - rewrite iter_res_succ.
    destruct (Z_le_gt_dec rd_min (rdd d - Z.of_N k)) as [LE|GT].
    + destruct (iter_prev_spec k d Hy V LE) as [d1 [I1 [V1 [R1 Y1]]]].
      rewrite I1. cbn [bind].
      destruct (date_prev_total d1 Y1 V1) as [[d2 N2]|[-> N2]]; [|exact N2].
      exfalso. assert (rdd d1 = rd_min) by blia.
      assert (d1 = min_date).
      { apply rdd_inj; try assumption; [apply wfy_nz; exact Y1|discriminate|reflexivity]. }
      subst d1. rewrite date_prev_first in N2. discriminate N2.
    + rewrite (IHk d Hy V ltac:(blia)). reflexivity.
Qed.

Lemma usize_of_ok : forall n, 0 <= n <= usize_max -> usize_of n = Ok (Z.to_N n).
Proof.
  intros n H. unfold usize_of.
  replace (n <? 0) with false by blia. replace (usize_max <? n) with false by blia. reflexivity.
Qed.

Lemma rd_span : rd_max - rd_min <= usize_max.
Proof. vm_compute. discriminate. Qed.

(* ---- Date::add / Date::sub in days -------------------------------------- *)
Lemma date_add_spec : forall d n,
  wfy (dyear d) -> valid d -> 0 <= n -> rdd d + n <= rd_max ->
  exists d', date_add d n = Ok d' /\ valid d' /\ rdd d' = rdd d + n /\ wfy (dyear d').
Proof.
  intros d n Hy V Hn Hle. unfold date_add.
  pose proof (rdd_ge_min d Hy V) as P. pose proof rd_span.
  rewrite usize_of_ok by blia. cbn [bind].
  destruct (iter_next_spec (Z.to_N n) d Hy V ltac:(blia)) as [d' [I [V' [R Y]]]].
  exists d'. repeat split; try assumption; try apply Y; blia.
Qed.

Lemma date_sub_days_spec : forall d n,
  wfy (dyear d) -> valid d -> 0 <= n -> rd_min <= rdd d - n ->
  exists d', date_sub d UDay n = Ok (DMDate d') /\ valid d' /\ rdd d' = rdd d - n /\
             wfy (dyear d').
Proof.
  intros d n Hy V Hn Hle. unfold date_sub.
  pose proof (rdd_le_max d Hy V) as P. pose proof rd_span.
  rewrite usize_of_ok by blia. cbn [bind].
  destruct (iter_prev_spec (Z.to_N n) d Hy V ltac:(blia)) as [d' [I [V' [R Y]]]].
  exists d'. rewrite I. cbn [bind]. repeat split; try assumption; try apply Y; blia.
Qed.

(* the operation is total: a date, or one of three errors; never a panic *)
Lemma date_add_total : forall d n, wfy (dyear d) -> valid d ->
  (exists d', date_add d n = Ok d') \/ (exists e, date_add d n = Err e).
Proof.
  intros d n Hy V. unfold date_add, usize_of.
  destruct (n <? 0) eqn:E1; [right; eexists; reflexivity|].
  destruct (usize_max <? n) eqn:E2; [right; eexists; reflexivity|]. cbn [bind].
  destruct (Z_le_gt_dec (rdd d + Z.of_N (Z.to_N n)) rd_max) as [LE|GT].
  - destruct (iter_next_spec (Z.to_N n) d Hy V LE) as [d' [I _]]. left. exists d'. exact I.
  - right. exists EOutOfRange. apply iter_next_overflow; try assumption. blia.
Qed.

Lemma add_sub_days : forall d n d',
  wfy (dyear d) -> valid d -> date_add d n = Ok d' -> date_sub d' UDay n = Ok (DMDate d).
Proof.
  intros d n d' Hy V A.
  assert (Hn : 0 <= n <= usize_max).
  { unfold date_add, usize_of in A. destruct (n <? 0) eqn:E1; [discriminate A|].
    destruct (usize_max <? n) eqn:E2; [discriminate A|]. blia. }
  assert (Hle : rdd d + n <= rd_max).
  { destruct (Z_le_gt_dec (rdd d + n) rd_max) as [LE|GT]; [exact LE|].
    exfalso. unfold date_add in A. rewrite usize_of_ok in A by exact Hn. cbn [bind] in A.
    rewrite iter_next_overflow in A; try assumption; [discriminate A|blia]. }
  destruct (date_add_spec d n Hy V ltac:(blia) Hle) as [d1 [A1 [V1 [R1 Y1]]]].
  rewrite A in A1. inversion A1. subst d1.
  pose proof (rdd_ge_min d Hy V) as P.
  destruct (date_sub_days_spec d' n Y1 V1 ltac:(blia) ltac:(blia)) as [d2 [S2 [V2 [R2 Y2]]]].
  rewrite S2. do 2 f_equal.
  apply rdd_inj; try assumption; [apply wfy_nz; exact Y2|apply wfy_nz; exact Hy|blia].
Qed.

Lemma sub_add_days : forall d n d',
  wfy (dyear d) -> valid d -> date_sub d UDay n = Ok (DMDate d') -> date_add d' n = Ok d.
Proof.
  intros d n d' Hy V S.
  assert (Hn : 0 <= n <= usize_max).
  { unfold date_sub, usize_of in S. destruct (n <? 0) eqn:E1; [discriminate S|].
    destruct (usize_max <? n) eqn:E2; [discriminate S|]. blia. }
  assert (Hle : rd_min <= rdd d - n).
  { destruct (Z_le_gt_dec rd_min (rdd d - n)) as [LE|GT]; [exact LE|].
    exfalso. unfold date_sub in S. rewrite usize_of_ok in S by exact Hn. cbn [bind] in S.
    rewrite iter_prev_overflow in S; try assumption; [discriminate S|blia]. }
  destruct (date_sub_days_spec d n Hy V ltac:(blia) Hle) as [d1 [S1 [V1 [R1 Y1]]]].
  rewrite S in S1. inversion S1. subst d1.
  pose proof (rdd_le_max d Hy V) as P.
  destruct (date_add_spec d' n Y1 V1 ltac:(blia) ltac:(blia)) as [d2 [A2 [V2 [R2 Y2]]]].
  rewrite A2. f_equal.
  apply rdd_inj; try assumption; [apply wfy_nz; exact Y2|apply wfy_nz; exact Hy|blia].
Qed.

(* ---- weeks --------------------------------------------------------------- *)
Lemma iter_week_spec : forall k d,
  wfy (dyear d) -> valid d -> rd_min <= rdd d - 7 * Z.of_N k ->
  exists d', iter_res k (iter_res 7 date_prev) d = Ok d' /\ valid d' /\
             rdd d' = rdd d - 7 * Z.of_N k /\ wfy (dyear d').
Proof.
  intros k. induction k using N.peano_ind; intros d Hy V Hle.
  - exists d. rewrite iter_res_0. repeat split; try assumption; try apply Hy; blia.
  - destruct (IHk d Hy V ltac:(blia)) as [d1 [I1 [V1 [R1 Y1]]]].
    destruct (iter_prev_spec 7 d1 Y1 V1 ltac:(blia)) as [d2 [N2 [V2 [R2 Y2]]]].
    exists d2. rewrite iter_res_succ, I1. cbn [bind].
    repeat split; try assumption; try apply Y2; blia.
Qed.

Lemma date_sub_weeks_spec : forall d n,
  wfy (dyear d) -> valid d -> 0 <= n -> rd_min <= rdd d - 7 * n ->
  exists d', date_sub d UWeek n = Ok (DMDate d') /\ valid d' /\ rdd d' = rdd d - 7 * n /\
             wfy (dyear d') /\ date_sub d UDay (7 * n) = Ok (DMDate d').
Proof.
  intros d n Hy V Hn Hle. unfold date_sub at 1.
  pose proof (rdd_le_max d Hy V) as P. pose proof rd_span.
  rewrite usize_of_ok by blia. cbn [bind].
  destruct (iter_week_spec (Z.to_N n) d Hy V ltac:(blia)) as [d' [I [V' [R Y]]]].
  exists d'. rewrite I. cbn [bind]. repeat split; try assumption; try apply Y; try blia.
  destruct (date_sub_days_spec d (7 * n) Hy V ltac:(blia) ltac:(blia)) as [d2 [S2 [V2 [R2 Y2]]]].
  rewrite S2. do 2 f_equal.
  apply rdd_inj; try assumption; [apply wfy_nz; exact Y2|apply wfy_nz; exact Y|blia].
Qed.

(* ---- weekday -------------------------------------------------------------- *)
(* for every integer Y (astronomical year - 1), also negative *)
Lemma dow_d1_spec : forall Y, dow_d1 Y = (days_before_year (Y + 1) + 1) mod 7.
Proof.
  intros Y. unfold dow_d1, days_before_year.
  rewrite Z.rem_mod_nonneg by blia.
  replace (Y + 1 - 1) with Y by ring. blia.
Qed.

Lemma dow_index_spec : forall y m d, 1 <= d ->
  dow_index (astronomical y - 1) (is_leap_year y) m d = rd (astronomical y) (month_num m) d mod 7.
Proof.
  intros y m d Hd. unfold dow_index.
  rewrite dow_d1_spec. replace (astronomical y - 1 + 1) with (astronomical y) by ring.
  rewrite is_leap_year_spec. unfold rd, days_before_month.
  generalize (days_before_year (astronomical y)). intro D.
  destruct m; cbn [month_offsets month_num fst snd]; destruct (g_leap (astronomical y));
  cbn [fst snd andb]; (rewrite Z.rem_mod_nonneg by blia); cbn; blia.
Qed.

Lemma dow_of_index_ok : forall r, 0 <= r < 7 ->
  exists w, dow_of_index r = Ok w /\ dow_num w = r.
Proof.
  intros r H.
  assert (C : r = 0 \/ r = 1 \/ r = 2 \/ r = 3 \/ r = 4 \/ r = 5 \/ r = 6) by blia.
  destruct C as [->|[->|[->|[->|[->|[->| ->]]]]]]; eexists; split; reflexivity.
Qed.

Lemma day_of_week_spec : forall ck d,
  wfy (dyear d) -> valid d ->
  exists w, day_of_week ck d = Ok w /\ dow_num w = rdd d mod 7.
Proof.
  intros ck [y m dd] [Hy Hz] V. apply valid_iff in V. unfold ay in V. cbn [dyear dmonth dday] in *.
  unfold day_of_week. cbn [dyear dmonth dday].
  rewrite i32_op_ok by (destruct (astro_cases y) as [[? ->]|[? ->]]; unfold i32_min, i32_max in *; blia).
  cbn [bind].
  replace (dd <? 1) with false by blia.
  rewrite dow_index_spec by blia.
  unfold rdd, ay. cbn [dyear dmonth dday].
  apply dow_of_index_ok. apply Z.mod_pos_bound. blia.
Qed.

Lemma dow_num_inj : forall a b, dow_num a = dow_num b -> a = b.
Proof. destruct a; destruct b; cbn; intro H; try reflexivity; discriminate H. Qed.

Lemma weekday_consecutive : forall ck d d' w,
  wfy (dyear d) -> valid d -> date_next d = Ok d' -> day_of_week ck d = Ok w ->
  exists w', day_of_week ck d' = Ok w' /\ dow_num w' = (dow_num w + 1) mod 7.
Proof.
  intros ck d d' w Hy V N W.
  pose proof (rdd_le_max d Hy V) as LE.
  destruct (Z.eq_dec (rdd d) rd_max) as [E|NE].
  - assert (d = last_date).
    { apply rdd_inj; try assumption; [apply wfy_nz; exact Hy|discriminate|reflexivity]. }
    subst d. rewrite date_next_last in N. discriminate N.
  - destruct (date_next_spec d Hy V ltac:(blia)) as [d1 [N1 [V1 [R1 Y1]]]].
    rewrite N in N1. inversion N1. subst d1.
    destruct (day_of_week_spec ck d Hy V) as [w0 [W0 E0]].
    rewrite W in W0. inversion W0. subst w0.
    destruct (day_of_week_spec ck d' Y1 V1) as [w' [W' E']].
    exists w'. split; [exact W'|]. rewrite E', E0, R1. blia.
Qed.

Lemma weekday_known : forall ck, day_of_week ck (mkDate 1970 January 1) = Ok Thursday.
Proof. destruct ck; reflexivity. Qed.

Lemma show_date_ok : forall ck d, 1 <= dyear d <= i32_max -> valid d ->
  exists w, day_of_week ck d = Ok w /\ dow_num w = rdd d mod 7 /\
    show_date ck d = Ok (dow_name w ++ B", " ++ Z_decimal (dday d) ++ B" " ++
                         month_name (dmonth d) ++ B" " ++ Z_decimal (dyear d)).
Proof.
  intros ck d Hy V.
  assert (W0 : wfy (dyear d)) by (unfold wfy, i32_min, i32_max in *; blia).
  destruct (day_of_week_spec ck d W0 V) as [w [W E]].
  exists w. split; [exact W|]. split; [exact E|].
  unfold show_date. rewrite W. cbn [bind]. unfold show_year.
  replace (dyear d <? 0) with false by blia. reflexivity.
Qed.

(* BC years print as "<n> BC" -- including the year i32::MIN since the
   unsigned_abs() repair *)
Lemma show_date_bc_ok : forall ck d, i32_min <= dyear d < 0 -> valid d ->
  exists w, day_of_week ck d = Ok w /\ dow_num w = rdd d mod 7 /\
    show_date ck d = Ok (dow_name w ++ B", " ++ Z_decimal (dday d) ++ B" " ++
                         month_name (dmonth d) ++ B" " ++ Z_decimal (- dyear d) ++ B" BC").
Proof.
  intros ck d Hy V.
  assert (W0 : wfy (dyear d)) by (unfold wfy, i32_min, i32_max in *; blia).
  destruct (day_of_week_spec ck d W0 V) as [w [W E]].
  exists w. split; [exact W|]. split; [exact E|].
  unfold show_date. rewrite W. cbn [bind]. unfold show_year.
  replace (dyear d <? 0) with true by blia. reflexivity.
Qed.
