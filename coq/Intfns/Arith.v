(* C10, value level: factorial, fibonacci, combination, permutation, modulo and
   the domain checks wrapped around them in core/src/num/bigrat.rs
   (apply_uint_op, try_as_usize, try_as_biguint, simplify, add_internal),
   real.rs (expect_rational, try_as_usize, try_as_biguint), complex.rs
   (expect_real, factorial, try_as_usize, try_as_real).

   Big-integer multiplication / division / gcd / comparison are taken at value
   level (N): they are property C01's business.  A rational keeps its raw
   numerator and denominator limbs ([buint]) because try_as_usize looks at the
   representation; wherever the code computes a new big integer the model
   produces the canonical representation [of_N] (the check compares such
   results by value).  No proofs here. *)
From FendV Require Import Base.Prelude Intfns.Limbs.
Open Scope N_scope.

(* ---------------- canonical representation of a value ---------------- *)

Fixpoint limbs_fuel (fuel : nat) (n : N) : list N :=
  match fuel with
  | O => []
  | S f => if n =? 0 then [] else (n mod W) :: limbs_fuel f (n / W)
  end.

Definition limbs_of (n : N) : list N := limbs_fuel (N.to_nat (N.size n)) n.

Definition of_N (n : N) : buint := if n <? W then Small n else Large (limbs_of n).

(* ---------------- BigUint::factorial, BigUint::fibonacci ---------------- *)

(* let mut res = 1; while self > 1 { res = res * self; self = self - 1 }
   the loop body runs (n - 1) times; N.iter n is enough fuel and further
   iterations are no-ops because the guard is re-tested *)
Definition fact_step (st : N * N) : N * N :=
  let '(res, k) := st in if 1 <? k then (res * k, k - 1) else (res, k).

Definition factorial (n : N) : N := fst (N.iter n fact_step (1, n)).

(* if n == 0 { return 0 } if n == 1 { return 1 }
   a = 0; b = 1; while n > 1 { (b, a) = (a + b, b); n -= 1 } b *)
Definition fib_step (st : N * N) : N * N := let '(a, b) := st in (b, a + b).

Definition fibonacci (n : N) : N :=
  if n =? 0 then 0 else if n =? 1 then 1 else snd (N.iter (n - 1) fib_step (0, 1)).

(* ---------------- BigRat ---------------- *)

Record brat := mkrat { rneg : bool; rnum : buint; rden : buint }.

Definition nval (q : brat) : N := val (rnum q).
Definition dval (q : brat) : N := val (rden q).

Definition rat_wf (q : brat) : bool :=
  wf (rnum q) && wf (rden q) && negb (dval q =? 0).

Definition rat_of_N (n : N) : brat := mkrat false (of_N n) (Small 1).

(* Representation of the quotient self.div(g) (BigUint::divmod, first
   component): the value is val self / g; which limbs hold it depends on the
   branch of divmod that is taken (all branch tests are by value):
   Small / Small -> Small; g == 1 -> self.clone(); self == 0 or self < g ->
   Small(0); self == g -> Small(1); g == 2 -> self.clone() shifted right by
   one bit (same length); otherwise the long division builds the quotient with
   set(i, ..) from its top non-zero limb down: the canonical representation.
   For a Small self every branch gives a Small. *)
Definition div_repr (a : buint) (g : N) : buint :=
  match a with
  | Small n => Small (n / g)
  | Large v =>
    if g =? 1 then a
    else if is_zero a then Small 0
    else if val a <? g then Small 0
    else if val a =? g then Small 1
    else if g =? 2 then Large (shr1 v)
    else of_N (val a / g)
  end.

(* if self.den == 1 { return self }; gcd; num /= gcd; den /= gcd
   (BigUint division by a zero gcd, i.e. 0/0, is DivideByZero) *)
Definition simplify (q : brat) : res brat :=
  if dval q =? 1 then Ok q
  else
    let g := N.gcd (nval q) (dval q) in
    if g =? 0 then Err EDivByZero
    else Ok (mkrat (rneg q) (div_repr (rnum q) g) (div_repr (rden q) g)).

(* MustBeAnInteger -> ENotInteger; out_of_range(.., ZERO_OR_GREATER) -> EOutOfRange *)
Definition apply_uint_op {R : Type} (q : brat) (f : buint -> res R) : res R :=
  do s <- simplify q;
  if negb (dval s =? 1) then Err ENotInteger
  else if rneg s && negb (nval s =? 0) then Err EOutOfRange
  else f (rnum s).

(* NegativeNumbersNotAllowed -> ENegative; FractionToInteger -> ENotInteger *)
Definition q_try_as_biguint (q : brat) : res buint :=
  if rneg q && negb (nval q =? 0) then Err ENegative
  else
    do s <- simplify q;
    if negb (dval s =? 1) then Err ENotInteger else Ok (rnum s).

Definition q_try_as_usize (q : brat) : res N :=
  do n <- q_try_as_biguint q; try_as_usize n.

Definition q_factorial (q : brat) : res brat :=
  do r <- apply_uint_op q (fun n => Ok (factorial (val n)));
  Ok (rat_of_N r).

Inductive bitop := OpAnd | OpOr | OpXor | OpShl | OpShr.

Definition uint_bitop (op : bitop) (a b : buint) : res buint :=
  match op with
  | OpAnd => bitwise_and a b
  | OpOr => bitwise_or a b
  | OpXor => bitwise_xor a b
  | OpShl => lshift_n a b
  | OpShr => rshift_n a b
  end.

(* self.apply_uint_op(|lhs| { let rhs = rhs.apply_uint_op(Ok)?; op(lhs, rhs) }).into() *)
Definition q_bitwise (op : bitop) (a b : brat) : res brat :=
  do r <- apply_uint_op a (fun lhs =>
            do rhs <- apply_uint_op b (fun rhs => Ok rhs);
            uint_bitop op lhs rhs);
  Ok (mkrat false r (Small 1)).

Definition rat_neg (q : brat) : brat := mkrat (negb (rneg q)) (rnum q) (rden q).

(* add_internal for self.sign == Positive *)
Definition add_pos (a b : brat) : brat :=
  let an := nval a in let ad := dval a in
  let bn := nval b in let bd := dval b in
  if ad =? bd then
    if rneg b && (an <? bn) then mkrat true (of_N (bn - an)) (rden a)
    else mkrat false (of_N (if rneg b then an - bn else an + bn)) (rden a)
  else
    let g := N.gcd ad bd in
    let nd := ad * bd / g in
    let x := an * bd / g in
    let y := bn * ad / g in
    if rneg b && (x <? y) then mkrat true (of_N (y - x)) (of_N nd)
    else mkrat false (of_N (if rneg b then x - y else x + y)) (of_N nd).

(* a + b == -((-a) + (-b)) when a is negative *)
Definition rat_add (a b : brat) : brat :=
  if rneg a then rat_neg (add_pos (rat_neg a) (rat_neg b)) else add_pos a b.

Definition sign_mul (a b : bool) : bool := xorb a b.

Definition rat_mul (a b : brat) : brat :=
  mkrat (sign_mul (rneg a) (rneg b)) (of_N (nval a * nval b)) (of_N (dval a * dval b)).

(* if rhs.num == 0 { DivideByZero }; num = self.num * rhs.den; den = self.den * rhs.num *)
Definition rat_div (a b : brat) : res brat :=
  if nval b =? 0 then Err EDivByZero
  else Ok (mkrat (sign_mul (rneg a) (rneg b)) (of_N (nval a * dval b)) (of_N (dval a * nval b))).

Definition q_combination (n r : brat) : res brat :=
  do nf <- q_factorial n;
  do rf <- q_factorial r;
  do nrf <- q_factorial (rat_add n (rat_neg r));
  rat_div nf (rat_mul rf nrf).

(* permutation before fend 07532bc: r itself was never looked at *)
Definition q_permutation_old (n r : brat) : res brat :=
  do nf <- q_factorial n;
  do nrf <- q_factorial (rat_add n (rat_neg r));
  rat_div nf nrf.

(* n_factorial = n!; rhs.clone().apply_uint_op(|_, _| Ok(()), int)?;
   n_minus_r_factorial = (n - r)!; n_factorial / n_minus_r_factorial *)
Definition q_permutation (n r : brat) : res brat :=
  do nf <- q_factorial n;
  do _ <- apply_uint_op r (fun _ => Ok tt);
  do nrf <- q_factorial (rat_add n (rat_neg r));
  rat_div nf nrf.

(* classifier of the defect repaired by 07532bc (documentation): permutation
   never looked at r itself (only at n and n - r), so a negative integer r was
   accepted: 5 nPr (-1) = 5!/6! *)
Definition known_C10_npr_negative_r_old (r : brat) : bool :=
  match simplify r with
  | Ok s => (dval s =? 1) && rneg s && negb (nval s =? 0)
  | _ => false
  end.

(* ModuloByZero -> EDivByZero; ModuloForPositiveInts -> EOther *)
Definition q_modulo (a b : brat) : res brat :=
  if nval b =? 0 then Err EDivByZero
  else
    do a' <- simplify a;
    do b' <- simplify b;
    if (rneg a' && negb (nval a' =? 0)) || rneg b' || negb (dval a' =? 1) || negb (dval b' =? 1)
    then Err EOther
    else Ok (mkrat false (of_N (nval a' mod nval b')) (Small 1)).

(* ---------------- Real / Complex wrappers (domain checks only) ---------------- *)

Inductive real := RSimple (q : brat) | RPi (q : brat).
Record cplx := mkc { cre : real; cim : real }.

Definition real_q (r : real) : brat := match r with RSimple q => q | RPi q => q end.
Definition real_is_zero (r : real) : bool := nval (real_q r) =? 0.

(* ExpectedARealNumber / ExpectedARationalNumber / ComplexToInteger /
   CannotConvertToInteger / FactorialComplex -> EIncompatible *)
Definition expect_real (c : cplx) : res real :=
  if real_is_zero (cim c) then Ok (cre c) else Err EIncompatible.

Definition expect_rational (r : real) : res brat :=
  match r with RSimple q => Ok q | RPi _ => Err EIncompatible end.

Definition r_try_as_usize (r : real) : res N :=
  match r with
  | RSimple q => q_try_as_usize q
  | RPi q => if nval q =? 0 then Ok 0 else Err EIncompatible
  end.

Definition r_try_as_biguint (r : real) : res buint :=
  match r with
  | RSimple q => q_try_as_biguint q
  | RPi q => if nval q =? 0 then Ok (Small 0) else Err EIncompatible
  end.

Definition c_try_as_usize (c : cplx) : res N :=
  if real_is_zero (cim c) then r_try_as_usize (cre c) else Err EIncompatible.

(* to words: try_as_real()?.try_as_biguint()? *)
Definition c_try_as_biguint (c : cplx) : res buint :=
  if real_is_zero (cim c) then r_try_as_biguint (cre c) else Err EIncompatible.

(* Complex::bitwise / modulo / combination / permutation:
   self.expect_real()? , rhs.expect_real()? , then expect_rational on both *)
Definition c_binary (f : brat -> brat -> res brat) (a b : cplx) : res brat :=
  do ra <- expect_real a;
  do rb <- expect_real b;
  do qa <- expect_rational ra;
  do qb <- expect_rational rb;
  f qa qb.

(* Complex::factorial: imaginary part must be zero; a real part that is a
   multiple of pi goes through a numeric approximation of pi that is outside
   this model: None *)
Definition c_factorial (c : cplx) : res (option brat) :=
  if real_is_zero (cim c) then
    match cre c with
    | RSimple q => do r <- q_factorial q; Ok (Some r)
    | RPi _ => Ok None
    end
  else Err EIncompatible.

Definition c_fibonacci (c : cplx) : res brat :=
  do n <- c_try_as_usize c; Ok (rat_of_N (fibonacci n)).

(* ---------------- specifications ---------------- *)

Definition Nfact (n : N) : N := N.peano_rect (fun _ => N) 1 (fun k acc => N.succ k * acc) n.

Fixpoint fib_nat (n : nat) : N :=
  match n with
  | O => 0
  | S m => match m with O => 1 | S k => fib_nat k + fib_nat m end
  end.

Fixpoint binom (n k : nat) : N :=
  match k with
  | O => 1
  | S k' => match n with O => 0 | S n' => binom n' k' + binom n' k end
  end.
