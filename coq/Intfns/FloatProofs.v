(* Proofs about floor / ceil / round:
   - today's f64 route never returns more than 2^64, hence is wrong for every
     value from 2^64 + 1 on, and is wrong near integers (computed witnesses);
   - the integer divmod version proposed as the repair is exact for every
     rational. *)
From Coq Require Import Lia ZifyBool.
From FendV Require Import Base.Prelude Intfns.Limbs Intfns.LimbsProofs Intfns.Arith
  Intfns.ArithProofs Intfns.Float.
Open Scope N_scope.

Arguments N.add : simpl never.
Arguments N.sub : simpl never.
Arguments N.mul : simpl never.
Arguments N.div : simpl never.
Arguments N.modulo : simpl never.
Arguments N.eqb : simpl never.
Arguments N.ltb : simpl never.
Arguments N.leb : simpl never.
Arguments N.pow : simpl never.
Arguments N.min : simpl never.
Arguments Z.mul : simpl never.
Arguments Z.div : simpl never.
Arguments Z.add : simpl never.

(* ------------------------------------------------------------------ *)
(* the conversion back from f64 cannot exceed 2^64 *)

Lemma to_u128_bound : forall x, to_u128 x <= 2 ^ 128 - 1.
Proof.
  intros [m e| |]; cbn [to_u128]; try lia.
  destruct (split_int m e) as [[k fr] hf]. apply N.le_min_r.
Qed.

Lemma W_sq : 2 ^ 128 = W * W. Proof. reflexivity. Qed.

Lemma from_f64_bound : forall x,
  dval (from_f64 x) = W - 1 /\ nval (from_f64 x) <= W * (W - 1).
Proof.
  intros [neg mag]. unfold from_f64, nval, dval. cbn [rnum rden val]. rewrite val_of_N.
  split; [reflexivity|].
  pose proof (to_u128_bound (f_mul mag UMAXF)) as Hb. rewrite W_sq in Hb.
  set (i := to_u128 (f_mul mag UMAXF)) in *.
  assert (H1 : i mod W < W) by (apply N.mod_lt; discriminate).
  assert (H2 : i / W < W).
  { apply N.div_lt_upper_bound; [discriminate|]. assert (0 < W) by reflexivity. nia. }
  assert (0 < W) by reflexivity.
  set (p1 := i mod W) in *. set (p2 := i / W) in *. clearbody p1 p2. nia.
Qed.

Lemma q_round_old_is_from_f64 : forall mode q r, q_round_old mode q = Ok r -> exists x, r = from_f64 x.
Proof.
  intros mode q r H. unfold q_round_old in H. destruct (into_f64 q) as [f|e|k]; try discriminate.
  cbn [bind] in H. injection H as <-. eexists; reflexivity.
Qed.

Lemma Wm1_pos : 0 < W - 1. Proof. reflexivity. Qed.

Lemma round_spec_ge : forall mode q z, rneg q = false -> dval q <> 0 ->
  (0 <= z)%Z -> (z * Z.of_N (dval q) <= Z.of_N (nval q))%Z -> (z <= round_spec mode q)%Z.
Proof.
  intros mode q z Hs Hd Hz Hle. unfold round_spec, rat_num_Z. rewrite Hs.
  set (n := Z.of_N (nval q)) in *. set (d := Z.of_N (dval q)) in *.
  assert (Hdp : (0 < d)%Z) by (unfold d; lia).
  destruct mode.
  - apply Z.div_le_lower_bound; lia.
  - assert ((- n / d <= - z)%Z); [|lia].
    apply Z.div_le_upper_bound; [assumption|]. lia.
  - destruct (Z.ltb_spec n 0); [lia|].
    apply Z.div_le_lower_bound; [lia|]. nia.
Qed.

(* every value from 2^64 + 1 on is rounded wrongly, whatever the f64 does *)
Lemma round_beyond_u64_wrong_lemma : forall mode q r, rneg q = false -> dval q <> 0 ->
  (W + 1) * dval q <= nval q ->
  q_round_old mode q = Ok r -> rat_is_Z r (round_spec mode q) = false.
Proof.
  intros mode q r Hs Hd Hbig Hr.
  destruct (q_round_old_is_from_f64 _ _ _ Hr) as [x ->].
  destruct (from_f64_bound x) as [Hden Hnum].
  pose proof (round_spec_ge mode q (Z.of_N (W + 1)) Hs Hd ltac:(lia) ltac:(lia)) as Hz.
  unfold rat_is_Z. rewrite Hden.
  apply andb_false_iff. right. apply Z.eqb_neq.
  unfold rat_num_Z. set (v := nval (from_f64 x)) in *.
  assert (HW : (Z.of_N (W + 1) * Z.of_N (W - 1) > Z.of_N (W * (W - 1)))%Z) by reflexivity.
  assert (Hp : (0 < Z.of_N (W - 1))%Z) by reflexivity.
  set (z := round_spec mode q) in *. set (c := Z.of_N (W - 1)) in *.
  assert ((Z.of_N v <= Z.of_N (W * (W - 1)))%Z) by lia.
  assert ((Z.of_N (W + 1) * c <= z * c)%Z) by nia.
  destruct (rneg (from_f64 x)); lia.
Qed.

(* ------------------------------------------------------------------ *)
(* witnesses (computed on the model) *)

Definition wit_floor : brat := mkrat false (of_N (2 * 10 ^ 20 + 1)) (Small 2).            (* 10^20 + 1/2 *)
Definition wit_floor_int : brat := mkrat false (Small (2 ^ 53 + 1)) (Small 1).            (* 2^53 + 1 *)
Definition wit_ceil : brat := mkrat false (of_N (3 * 10 ^ 30 + 1)) (of_N (10 ^ 30)).      (* 3 + 10^-30 *)
Definition wit_round : brat := mkrat false (of_N (5 * 10 ^ 29 - 1)) (of_N (10 ^ 30)).     (* 1/2 - 10^-30 *)

Definition refutes (mode : rmode) (q : brat) : bool :=
  rat_wf q &&
  match q_round_old mode q with
  | Ok r => negb (rat_is_Z r (round_spec mode q))
  | _ => false
  end.

Lemma floor_refuted_lemma : refutes RFloor wit_floor = true /\ refutes RFloor wit_floor_int = true.
Proof. split; vm_compute; reflexivity. Qed.
Lemma ceil_refuted_lemma : refutes RCeil wit_ceil = true.
Proof. vm_compute. reflexivity. Qed.
Lemma round_refuted_lemma : refutes RRound wit_round = true.
Proof. vm_compute. reflexivity. Qed.

(* ------------------------------------------------------------------ *)
(* the integer version is exact *)

Lemma Zdiv_cross : forall a d a' d', (0 < d)%Z -> (0 < d')%Z -> (a * d' = a' * d)%Z ->
  (a / d = a' / d')%Z.
Proof.
  intros a d a' d' Hd Hd' He.
  pose proof (Z.div_mod a d ltac:(lia)) as E1. pose proof (Z.mod_pos_bound a d Hd) as B1.
  set (k := (a / d)%Z) in *. set (r := (a mod d)%Z) in *. clearbody k r.
  apply Z.div_unique_pos with (r := (a' - d' * k)%Z); [|lia].
  split; nia.
Qed.

Lemma N_divmod_Z : forall n d, d <> 0 ->
  (Z.of_N n = Z.of_N d * Z.of_N (n / d) + Z.of_N (n mod d))%Z /\ (Z.of_N (n mod d) < Z.of_N d)%Z.
Proof.
  intros n d Hd. pose proof (N.div_mod n d Hd). pose proof (N.mod_lt n d Hd).
  set (k := n / d) in *. set (r := n mod d) in *. clearbody k r. lia.
Qed.

Definition spec_core (mode : rmode) (n d : Z) : Z :=
  match mode with
  | RFloor => (n / d)%Z
  | RCeil => (- ((- n) / d))%Z
  | RRound => if (n <? 0)%Z then (- ((2 * (- n) + d) / (2 * d)))%Z else ((2 * n + d) / (2 * d))%Z
  end.

Lemma round_core_spec : forall mode sgn n d, d <> 0 ->
  let '(sg, v) := round_core mode (sgn && negb (n =? 0)) n d in
  (if sg then - Z.of_N v else Z.of_N v)%Z =
  spec_core mode (if sgn then - Z.of_N n else Z.of_N n)%Z (Z.of_N d).
Proof.
  intros mode sgn n d Hd. unfold round_core.
  destruct (N_divmod_Z n d Hd) as [Edm Hrem].
  set (k := n / d) in *. set (rm := n mod d) in *.
  set (ns := Z.of_N n) in *. set (ds := Z.of_N d) in *.
  assert (Hdp : (0 < ds)%Z) by (unfold ds; lia).
  assert (Hk : (0 <= Z.of_N k)%Z) by lia. assert (Hr0 : (0 <= Z.of_N rm)%Z) by lia.
  assert (Hns : (0 <= ns)%Z) by (unfold ns; lia).
  assert (Hnz : (n =? 0) = (ns =? 0)%Z) by (unfold ns; lia).
  assert (Hrz : (rm =? 0) = (Z.of_N rm =? 0)%Z) by lia.
  assert (Hhalf : (d <=? 2 * rm) = (ds <=? 2 * Z.of_N rm)%Z) by (unfold ds; lia).
  rewrite Hnz, Hrz, Hhalf.
  set (K := Z.of_N k) in *. set (R := Z.of_N rm) in *.
  assert (Hup : forall b : bool, Z.of_N (if b then k + 1 else k) = (if b then K + 1 else K)%Z)
    by (intros []; unfold K; lia).
  assert (Hv0 : forall b : bool, ((if b then k + 1 else k) =? 0) = ((if b then K + 1 else K) =? 0)%Z)
    by (intros []; unfold K; lia).
  rewrite Hup, Hv0.
  clearbody K R ns ds. clear Hnz Hrz Hhalf Hup Hv0.
  assert (Hfl : (ns / ds = K)%Z).
  { symmetry. apply Z.div_unique with (r := R); [lia|nia]. }
  unfold spec_core.
  destruct mode; destruct sgn; cbn [andb negb].
  - (* floor, negative *)
    destruct (Z.eqb_spec ns 0) as [E0|E0]; cbn [negb andb].
    + assert (K = 0)%Z as -> by nia. rewrite E0. change (- 0)%Z with 0%Z.
      rewrite Z.div_0_l by lia. reflexivity.
    + destruct (Z.eqb_spec R 0) as [ER|ER]; cbn [negb].
      * subst R. assert (Hq : (- ns / ds = - K)%Z).
        { symmetry. apply Z.div_unique with (r := 0%Z); [lia|nia]. }
        rewrite Hq. destruct (Z.eqb_spec K 0); cbn [negb]; lia.
      * assert (Hq : (- ns / ds = - (K + 1))%Z).
        { symmetry. apply Z.div_unique with (r := (ds - R)%Z); [lia|nia]. }
        rewrite Hq. destruct (Z.eqb_spec (K + 1) 0); cbn [negb]; lia.
  - (* floor, non-negative *)
    rewrite Hfl. reflexivity.
  - (* ceil, negative: - (ns / ds) *)
    rewrite Z.opp_involutive, Hfl.
    destruct (Z.eqb_spec ns 0) as [E0|E0]; cbn [negb andb].
    + assert (K = 0 /\ R = 0)%Z as [-> ->] by nia. reflexivity.
    + destruct (Z.eqb_spec K 0); cbn [negb]; lia.
  - (* ceil, non-negative *)
    destruct (Z.eqb_spec R 0) as [ER|ER]; cbn [negb].
    + subst R. assert (Hq : (- ns / ds = - K)%Z).
      { symmetry. apply Z.div_unique with (r := 0%Z); [lia|nia]. }
      rewrite Hq. lia.
    + assert (Hq : (- ns / ds = - (K + 1))%Z).
      { symmetry. apply Z.div_unique with (r := (ds - R)%Z); [lia|nia]. }
      rewrite Hq. lia.
  - (* round, negative *)
    destruct (Z.eqb_spec ns 0) as [E0|E0]; cbn [negb andb].
    + assert (K = 0 /\ R = 0)%Z as [-> ->] by nia. rewrite E0.
      assert ((ds <=? 2 * 0)%Z = false) as -> by lia.
      change (- 0 <? 0)%Z with false. cbn beta iota.
      rewrite Z.mul_0_r, Z.add_0_l. rewrite Z.div_small by lia. reflexivity.
    + assert ((- ns <? 0)%Z = true) as -> by lia. rewrite Z.opp_involutive.
      destruct (Z.leb_spec ds (2 * R)) as [Hh|Hh].
      * assert (Hq : ((2 * ns + ds) / (2 * ds) = K + 1)%Z).
        { symmetry. apply Z.div_unique with (r := (2 * R - ds)%Z); [lia|nia]. }
        rewrite Hq. destruct (Z.eqb_spec (K + 1) 0); cbn [negb]; lia.
      * assert (Hq : ((2 * ns + ds) / (2 * ds) = K)%Z).
        { symmetry. apply Z.div_unique with (r := (2 * R + ds)%Z); [lia|nia]. }
        rewrite Hq. destruct (Z.eqb_spec K 0); cbn [negb]; lia.
  - (* round, non-negative *)
    assert ((ns <? 0)%Z = false) as -> by lia.
    destruct (Z.leb_spec ds (2 * R)) as [Hh|Hh].
    + assert (Hq : ((2 * ns + ds) / (2 * ds) = K + 1)%Z).
      { symmetry. apply Z.div_unique with (r := (2 * R - ds)%Z); [lia|nia]. }
      rewrite Hq. reflexivity.
    + assert (Hq : ((2 * ns + ds) / (2 * ds) = K)%Z).
      { symmetry. apply Z.div_unique with (r := (2 * R + ds)%Z); [lia|nia]. }
      rewrite Hq. reflexivity.
Qed.

Lemma round_spec_core : forall mode q, round_spec mode q = spec_core mode (rat_num_Z q) (Z.of_N (dval q)).
Proof. intros [] q; reflexivity. Qed.

Lemma spec_core_cross : forall mode n d n' d', (0 < d)%Z -> (0 < d')%Z -> (n * d' = n' * d)%Z ->
  spec_core mode n d = spec_core mode n' d'.
Proof.
  intros mode n d n' d' Hd Hd' He. unfold spec_core. destruct mode.
  - apply Zdiv_cross; assumption.
  - f_equal. apply Zdiv_cross; try assumption. lia.
  - assert (Hs : (n <? 0)%Z = (n' <? 0)%Z).
    { destruct (Z.ltb_spec n 0); destruct (Z.ltb_spec n' 0); try reflexivity; nia. }
    rewrite Hs. destruct (n' <? 0)%Z; [f_equal|]; apply Zdiv_cross; try lia.
Qed.

Lemma round_exact_lemma : forall mode q, rat_wf q = true ->
  exists r, q_round mode q = Ok r /\ dval r = 1 /\ rat_is_Z r (round_spec mode q) = true.
Proof.
  intros mode q Hwf.
  destruct (simplify_ok q Hwf) as [s [Es [Hsg [Hcross [Hds _]]]]].
  apply rat_wf_parts in Hwf. destruct Hwf as [_ [_ Hdq]].
  unfold q_round. rewrite Es. cbn [bind].
  destruct (N.eqb_spec (dval s) 0) as [|_]; [contradiction|].
  pose proof (round_core_spec mode (rneg s) (nval s) (dval s) Hds) as Hc.
  destruct (round_core mode (rneg s && negb (nval s =? 0)) (nval s) (dval s)) as [sg v].
  eexists; split; [reflexivity|]. split; [reflexivity|].
  assert (Hspec : round_spec mode q = spec_core mode (rat_num_Z s) (Z.of_N (dval s))).
  { rewrite round_spec_core. apply spec_core_cross; try lia.
    unfold rat_num_Z. rewrite Hsg. destruct (rneg q); lia. }
  rewrite Hspec. unfold rat_num_Z at 1. rewrite <- Hc.
  unfold rat_is_Z, rat_num_Z, nval, dval. cbn [rnum rden rneg val]. rewrite val_of_N.
  change (1 =? 0) with false. cbn [negb andb]. apply Z.eqb_eq. lia.
Qed.

(* ------------------------------------------------------------------ *)
(* integers below 2^53 go through the f64 route unharmed *)

Arguments N.log2 : simpl never.
Arguments Z.sub : simpl never.
Arguments Z.max : simpl never.
Arguments Z.min : simpl never.
Arguments Z.to_N : simpl never.
Arguments Z.of_N : simpl never.

Lemma pow2_pos : forall k, 0 < 2 ^ k.
Proof. intro k. apply N.neq_0_lt_0, N.pow_nonzero. discriminate. Qed.

Lemma round_half_even_exact : forall k b, b <> 0 -> round_half_even (k * b) b = k.
Proof.
  intros k b Hb. unfold round_half_even.
  rewrite N.div_mul, N.mod_mul by assumption.
  change (2 * 0) with 0.
  destruct (N.ltb_spec b 0); [lia|].
  destruct (N.eqb_spec 0 b); [lia|]. reflexivity.
Qed.

(* rounding a value n * 2^(a-c) that fits 53 bits is exact *)
Lemma rnd_pow2 : forall n a c, 0 < n -> n < 2 ^ 53 -> c <= a -> a - c + N.log2 n < 1024 ->
  rnd (n * 2 ^ a) (2 ^ c) =
  FFin (n * 2 ^ (52 - N.log2 n)) (Z.of_N (N.log2 n) + Z.of_N a - Z.of_N c - 52).
Proof.
  intros n a c Hn0 Hn Hca Hov.
  set (L := N.log2 n) in *.
  assert (HL : L < 53) by (apply N.log2_lt_pow2; assumption).
  destruct (N.log2_spec n Hn0) as [HLlo HLhi]. fold L in HLlo, HLhi.
  pose proof (pow2_pos a) as Pa. pose proof (pow2_pos c) as Pc.
  unfold rnd.
  destruct (N.eqb_spec (n * 2 ^ a) 0) as [E|_]; [nia|].
  destruct (N.eqb_spec (2 ^ c) 0) as [E|_]; [lia|].
  rewrite N.log2_mul_pow2 by lia. rewrite N.log2_pow2 by lia. fold L.
  set (d := a + L - c).
  assert (He0 : (Z.of_N (a + L) - Z.of_N c)%Z = Z.of_N d) by (unfold d; lia).
  rewrite He0.
  unfold scale_frac at 1.
  assert ((0 <=? Z.of_N d)%Z = true) as -> by lia.
  rewrite N2Z.id.
  assert (Hden : 2 ^ c * 2 ^ d = 2 ^ (a + L)).
  { rewrite <- N.pow_add_r. f_equal. unfold d. lia. }
  rewrite Hden.
  assert (Hcmp : (2 ^ (a + L) <=? n * 2 ^ a) = true).
  { apply N.leb_le. rewrite N.pow_add_r. nia. }
  rewrite Hcmp.
  assert (Hu : Z.max (Z.of_N d - 52) (-1074) = (Z.of_N d - 52)%Z) by lia.
  rewrite Hu.
  assert (Hm : forall x y, round_half_even x y = n * 2 ^ (52 - L) ->
          (let m := round_half_even x y in
           if (1024 <=? Z.of_N (N.log2 m) + (Z.of_N d - 52))%Z then FInf else FFin m (Z.of_N d - 52)) =
          FFin (n * 2 ^ (52 - L)) (Z.of_N L + Z.of_N a - Z.of_N c - 52)).
  { intros x y E. cbv zeta. rewrite E. rewrite N.log2_mul_pow2 by lia. fold L.
    assert ((1024 <=? Z.of_N (52 - L + L) + (Z.of_N d - 52))%Z = false) as ->.
    { apply Z.leb_gt. unfold d. lia. }
    f_equal. unfold d. lia. }
  unfold scale_frac.
  destruct (Z.leb_spec 0 (Z.of_N d - 52)) as [Hu0|Hu0].
  - apply Hm.
    assert (E1 : Z.to_N (Z.of_N d - 52) = d - 52) by lia. rewrite E1.
    assert (E2 : 2 ^ c * 2 ^ (d - 52) = 2 ^ (a + L - 52)).
    { rewrite <- N.pow_add_r. f_equal. unfold d. lia. }
    rewrite E2.
    assert (E3 : n * 2 ^ a = n * 2 ^ (52 - L) * 2 ^ (a + L - 52)).
    { rewrite <- N.mul_assoc, <- N.pow_add_r. do 2 f_equal. unfold d in *. lia. }
    rewrite E3. apply round_half_even_exact. apply N.pow_nonzero. discriminate.
  - apply Hm.
    assert (E1 : Z.to_N (- (Z.of_N d - 52)) = 52 - d) by lia. rewrite E1.
    assert (E3 : n * 2 ^ a * 2 ^ (52 - d) = n * 2 ^ (52 - L) * 2 ^ c).
    { rewrite <- !N.mul_assoc, <- !N.pow_add_r. do 2 f_equal. unfold d in *. lia. }
    rewrite E3. apply round_half_even_exact. apply N.pow_nonzero. discriminate.
Qed.

Lemma UMAXF_val : UMAXF = FFin (2 ^ 53) 11.
Proof. vm_compute. reflexivity. Qed.

Lemma f_of_u64_exact : forall n, 0 < n -> n < 2 ^ 53 ->
  f_of_u64 n = FFin (n * 2 ^ (52 - N.log2 n)) (Z.of_N (N.log2 n) - 52).
Proof.
  intros n H0 H1. unfold f_of_u64.
  assert (HL : N.log2 n < 53) by (apply N.log2_lt_pow2; assumption).
  pose proof (rnd_pow2 n 0 0 H0 H1 ltac:(lia) ltac:(lia)) as E.
  rewrite N.pow_0_r, N.mul_1_r in E. rewrite E. f_equal. lia.
Qed.

Lemma split_exact : forall n, 0 < n -> n < 2 ^ 53 ->
  split_int (n * 2 ^ (52 - N.log2 n)) (Z.of_N (N.log2 n) - 52) = (n, false, false).
Proof.
  intros n H0 H1. set (L := N.log2 n).
  assert (HL : L < 53) by (apply N.log2_lt_pow2; assumption).
  unfold split_int.
  destruct (Z.leb_spec 0 (Z.of_N L - 52)) as [H|H].
  - assert (L = 52) as -> by lia. change (52 - 52) with 0. change (Z.of_N 52 - 52)%Z with 0%Z.
    change (Z.to_N 0) with 0. rewrite N.pow_0_r, !N.mul_1_r. reflexivity.
  - assert (E : Z.to_N (- (Z.of_N L - 52)) = 52 - L) by lia. rewrite E.
    assert (Hp : 2 ^ (52 - L) <> 0) by (apply N.pow_nonzero; discriminate).
    rewrite N.div_mul, N.mod_mul by assumption.
    change (0 =? 0) with true. cbn [negb]. change (2 * 0) with 0.
    destruct (N.leb_spec (2 ^ (52 - L)) 0); [lia|reflexivity].
Qed.

(* the whole pipeline on an integer below 2^53 *)
Lemma round_small_int : forall mode sg n, n < 2 ^ 53 ->
  q_round_old mode (mkrat sg (Small n) (Small 1)) =
  Ok (mkrat (sg && negb (n =? 0)) (of_N (n * (W - 1))) (Small (W - 1))).
Proof.
  intros mode sg n Hn. unfold q_round_old, into_f64. cbn [rnum is_definitely_zero].
  destruct (N.eqb_spec n 0) as [->|Hnz].
  - cbn [bind]. rewrite andb_false_r. destruct mode; vm_compute; reflexivity.
  - assert (H0 : 0 < n) by lia.
    unfold simplify. unfold dval at 1. cbn [rden val]. change (1 =? 1) with true. cbn [bind rneg rnum rden as_f64].
    set (L := N.log2 n).
    assert (HL : L < 53) by (apply N.log2_lt_pow2; assumption).
    rewrite (f_of_u64_exact n H0 Hn). fold L.
    assert (E1 : f_of_u64 1 = FFin (2 ^ 52) (-52)) by (vm_compute; reflexivity).
    rewrite E1.
    (* division by 1.0 *)
    assert (Ediv : f_div (FFin (n * 2 ^ (52 - L)) (Z.of_N L - 52)) (FFin (2 ^ 52) (-52)) =
                   FFin (n * 2 ^ (52 - L)) (Z.of_N L - 52)).
    { unfold f_div. change (2 ^ 52 =? 0) with false. cbv iota.
      assert (Hd : (Z.of_N L - 52 - -52 = Z.of_N L)%Z) by lia. rewrite Hd.
      assert ((0 <=? Z.of_N L)%Z = true) as -> by lia. rewrite N2Z.id.
      assert (Hx : n * 2 ^ (52 - L) * 2 ^ L = n * 2 ^ 52).
      { rewrite <- N.mul_assoc, <- N.pow_add_r. do 2 f_equal. lia. }
      rewrite Hx.
      pose proof (rnd_pow2 n 52 52 H0 Hn ltac:(lia) ltac:(fold L; lia)) as E. fold L in E.
      rewrite E. f_equal. lia. }
    rewrite Ediv.
    (* floor / ceil / round of an integer *)
    assert (Ernd : f_round mode (sg, FFin (n * 2 ^ (52 - L)) (Z.of_N L - 52)) = (sg, FFin n 0)).
    { unfold f_round. unfold L. rewrite (split_exact n H0 Hn).
      rewrite !andb_false_r. destruct mode; reflexivity. }
    rewrite Ernd.
    (* back to a rational *)
    unfold from_f64. cbn [f_is_pos]. rewrite UMAXF_val.
    assert (Emul : f_mul (FFin n 0) (FFin (2 ^ 53) 11) = FFin (n * 2 ^ (52 - L)) (Z.of_N L + 12)).
    { unfold f_mul, frac_of. change (0 + 11)%Z with 11%Z. change (0 <=? 11)%Z with true. cbv iota.
      change (Z.to_N 11) with 11.
      assert (Hx : n * 2 ^ 53 * 2 ^ 11 = n * 2 ^ 64).
      { rewrite <- N.mul_assoc, <- N.pow_add_r. reflexivity. }
      rewrite Hx. change (rnd (n * 2 ^ 64) 1) with (rnd (n * 2 ^ 64) (2 ^ 0)).
      pose proof (rnd_pow2 n 64 0 H0 Hn ltac:(lia) ltac:(fold L; lia)) as E. fold L in E.
      rewrite E. f_equal. lia. }
    rewrite Emul.
    assert (Eu : to_u128 (FFin (n * 2 ^ (52 - L)) (Z.of_N L + 12)) = n * W).
    { unfold to_u128, split_int.
      assert ((0 <=? Z.of_N L + 12)%Z = true) as -> by lia.
      assert (Z.to_N (Z.of_N L + 12) = L + 12) as -> by lia.
      assert (Hx : n * 2 ^ (52 - L) * 2 ^ (L + 12) = n * W).
      { rewrite <- N.mul_assoc, <- N.pow_add_r. rewrite W_pow. do 2 f_equal. lia. }
      rewrite Hx. apply N.min_l.
      assert (W * 2 ^ 53 <= 2 ^ 128 - 1) by (vm_compute; discriminate).
      assert (0 < W) by reflexivity. nia. }
    rewrite Eu.
    rewrite N.mod_mul, N.div_mul by discriminate.
    rewrite N.add_0_l.
    assert ((n =? 0) = false) as -> by lia. reflexivity.
Qed.

Lemma spec_core_one : forall mode z, spec_core mode z 1 = z.
Proof.
  intros mode z. unfold spec_core. destruct mode.
  - apply Z.div_1_r.
  - rewrite Z.div_1_r. lia.
  - destruct (Z.ltb_spec z 0).
    + assert (E : ((2 * - z + 1) / (2 * 1) = - z)%Z).
      { symmetry. apply Z.div_unique with (r := 1%Z); lia. }
      rewrite E. lia.
    + symmetry. apply Z.div_unique with (r := 1%Z); lia.
Qed.

Lemma round_except_known_lemma : forall mode q, rat_wf q = true -> known_C10_float_old q = false ->
  exists r, q_round_old mode q = Ok r /\ rat_is_Z r (round_spec mode q) = true.
Proof.
  intros mode [sg [n|vn] [d|vd]] Hwf Hk; unfold known_C10_float_old in Hk; cbn [rnum rden is_small andb negb] in Hk; try discriminate.
  apply negb_false_iff in Hk. apply andb_true_iff in Hk. destruct Hk as [Hd Hn].
  unfold dval in Hd. cbn [rden val] in Hd. unfold nval in Hn. cbn [rnum val] in Hn.
  apply N.eqb_eq in Hd. subst d. apply N.ltb_lt in Hn.
  rewrite (round_small_int mode sg n Hn). eexists; split; [reflexivity|].
  rewrite round_spec_core.
  change (dval {| rneg := sg; rnum := Small n; rden := Small 1 |}) with 1. change (Z.of_N 1) with 1%Z. rewrite spec_core_one.
  unfold rat_is_Z, rat_num_Z, nval, dval. cbn [rnum rden rneg val]. rewrite val_of_N.
  change (W - 1 =? 0) with false. cbn [negb andb]. apply Z.eqb_eq.
  destruct sg; cbn [andb].
  - destruct (N.eqb_spec n 0) as [->|Hnz]; cbn [negb].
    + reflexivity.
    + lia.
  - lia.
Qed.

(* ------------------------------------------------------------------ *)
(* summary statements used by Properties/C10.v *)

Lemma refutes_exists : forall mode q, refutes mode q = true ->
  exists q, rat_wf q = true /\
  exists r, q_round_old mode q = Ok r /\ rat_is_Z r (round_spec mode q) = false.
Proof.
  intros mode q H. exists q. unfold refutes in H.
  apply andb_true_iff in H. destruct H as [Hw H]. split; [assumption|].
  destruct (q_round_old mode q) as [r| |]; try discriminate.
  exists r. split; [reflexivity|]. apply negb_true_iff. assumption.
Qed.

Lemma floor_refuted_ex : exists q, rat_wf q = true /\
  exists r, q_round_old RFloor q = Ok r /\ rat_is_Z r (round_spec RFloor q) = false.
Proof. exact (refutes_exists RFloor wit_floor (proj1 floor_refuted_lemma)). Qed.

Lemma ceil_refuted_ex : exists q, rat_wf q = true /\
  exists r, q_round_old RCeil q = Ok r /\ rat_is_Z r (round_spec RCeil q) = false.
Proof. exact (refutes_exists RCeil wit_ceil ceil_refuted_lemma). Qed.

Lemma round_refuted_ex : exists q, rat_wf q = true /\
  exists r, q_round_old RRound q = Ok r /\ rat_is_Z r (round_spec RRound q) = false.
Proof. exact (refutes_exists RRound wit_round round_refuted_lemma). Qed.

Lemma domain_errors_nonreal_lemma : forall c, real_is_zero (cim c) = false ->
  is_err (c_factorial c) /\ is_err (c_try_as_usize c) /\ is_err (c_try_as_biguint c) /\
  is_err (c_fibonacci c) /\
  (forall f d, is_err (c_binary f c d) /\ is_err (c_binary f d c)) /\
  (forall mode, is_err (c_round mode c)).
Proof.
  intros c H. destruct (c_nonreal_unary c H) as [H1 [H2 [H3 H4]]].
  repeat split; try assumption.
  - apply c_binary_nonreal; auto.
  - apply c_binary_nonreal; auto.
  - unfold c_round, expect_real. rewrite H. eexists; reflexivity.
Qed.

Lemma beyond_u64_example :
  let q := mkrat false (Large [1; 1]) (Small 1) in
  rneg q = false /\ dval q <> 0 /\ (W + 1) * dval q <= nval q.
Proof. vm_compute. repeat split; discriminate. Qed.

Lemma floor_spec_lemma : forall q, rat_wf q = true ->
  exists r, q_round RFloor q = Ok r /\ dval r = 1 /\ rat_is_Z r (round_spec RFloor q) = true.
Proof. exact (round_exact_lemma RFloor). Qed.
Lemma ceil_spec_lemma : forall q, rat_wf q = true ->
  exists r, q_round RCeil q = Ok r /\ dval r = 1 /\ rat_is_Z r (round_spec RCeil q) = true.
Proof. exact (round_exact_lemma RCeil). Qed.
Lemma round_spec_lemma : forall q, rat_wf q = true ->
  exists r, q_round RRound q = Ok r /\ dval r = 1 /\ rat_is_Z r (round_spec RRound q) = true.
Proof. exact (round_exact_lemma RRound). Qed.

(* ------------------------------------------------------------------ *)
(* rounding a quantity that carries a scaled dimensionless unit *)

Definition wit_unit_c : brat := mkrat false (Small 3) (Small 2).     (* 1.5 *)
Definition wit_unit_s : brat := mkrat false (Small 12) (Small 1).    (* dozen *)

Lemma round_unit_scale_refuted_lemma : exists c s r, rat_wf c = true /\ rat_wf s = true /\
  u_round RFloor c s = Ok r /\ rat_is_Z r (round_spec RFloor (rat_mul c s)) = false.
Proof.
  exists wit_unit_c, wit_unit_s. eexists. split; [reflexivity|]. split; [reflexivity|].
  split; vm_compute; reflexivity.
Qed.

Lemma round_unit_scale_except_known_lemma : forall mode c s, rat_wf c = true -> rat_wf s = true ->
  known_C10_round_unit_scale s = false ->
  exists r, u_round mode c s = Ok r /\ rat_is_Z r (round_spec mode (rat_mul c s)) = true.
Proof.
  intros mode c s Wc Ws Hk.
  unfold known_C10_round_unit_scale in Hk. apply negb_false_iff, andb_true_iff in Hk.
  destruct Hk as [Hs Hsg]. apply N.eqb_eq in Hs. apply negb_true_iff in Hsg.
  destruct (round_exact_lemma mode c Wc) as [r [Er [Dr Zr]]].
  unfold u_round. rewrite Er. cbn [bind]. eexists; split; [reflexivity|].
  apply rat_wf_parts in Wc. destruct Wc as [_ [_ Dc]].
  apply rat_wf_parts in Ws. destruct Ws as [_ [_ Ds]].
  (* the specification does not change when multiplying by s = 1 *)
  assert (Hspec : round_spec mode (rat_mul c s) = round_spec mode c).
  { rewrite !round_spec_core. apply spec_core_cross.
    - unfold rat_mul, dval. cbn [rden]. rewrite val_of_N. fold (dval c) (dval s). nia.
    - lia.
    - unfold rat_num_Z, rat_mul, nval, dval, sign_mul. cbn [rneg rnum rden]. rewrite !val_of_N.
      fold (nval c) (nval s) (dval c) (dval s). rewrite Hsg, xorb_false_r, Hs.
      destruct (rneg c); rewrite !N2Z.inj_mul; ring. }
  rewrite Hspec.
  unfold rat_is_Z in *. apply andb_true_iff in Zr. destruct Zr as [_ Zr]. apply Z.eqb_eq in Zr.
  rewrite Dr, Z.mul_1_r in Zr.
  unfold rat_num_Z, rat_mul, nval, dval, sign_mul in *. cbn [rneg rnum rden] in *. rewrite !val_of_N.
  fold (nval r) (nval s) (dval r) (dval s) in *. rewrite Hsg, xorb_false_r, Dr, N.mul_1_l.
  assert ((dval s =? 0) = false) as -> by lia. cbn [negb andb]. apply Z.eqb_eq.
  rewrite <- Zr, Hs. destruct (rneg r); rewrite N2Z.inj_mul; ring.
Qed.
