(* C10, floor / ceil / round.
   Current code (fend 7d3085c): BigRat::round_to_integer, exact integer division
   on the simplified fraction -- [q_round] below.
   Before that commit: BigRat::floor = from_f64(into_f64(self).floor()), through
   f64 -- kept here as [q_round_old] to document the repaired defect.  IEEE-754 binary64 arithmetic is modelled
   exactly and executably: a non-negative double is [FFin m e] (= m * 2^e),
   +inf or NaN; every operation computes the exact rational result and rounds
   it to nearest-even with [rnd] (53-bit significand, subnormals from 2^-1074,
   overflow to +inf at 2^1024).  Signs are carried separately.  Rust's
   float -> integer cast saturates and sends NaN to 0.
   Also here: the exact integer versions proposed as the repair, and the
   specification in Z.  No proofs (see FloatProofs.v). *)
From FendV Require Import Base.Prelude Intfns.Limbs Intfns.Arith.
Open Scope N_scope.

Inductive f64 :=
| FFin (m : N) (e : Z)   (* m * 2^e, m <= 2^53 *)
| FInf
| FNaN.

(* (num / den) / 2^u as a fraction *)
Definition scale_frac (num den : N) (u : Z) : N * N :=
  if (0 <=? u)%Z then (num, den * 2 ^ Z.to_N u) else (num * 2 ^ Z.to_N (- u), den).

Definition round_half_even (a b : N) : N :=
  let k := a / b in
  let r := a mod b in
  if b <? 2 * r then k + 1
  else if (2 * r =? b) && N.odd k then k + 1
  else k.

(* round-to-nearest-even of the exact non-negative rational num / den *)
Definition rnd (num den : N) : f64 :=
  if num =? 0 then FFin 0 0
  else if den =? 0 then FInf
  else
    let e0 := (Z.of_N (N.log2 num) - Z.of_N (N.log2 den))%Z in
    let '(a0, b0) := scale_frac num den e0 in
    let E := if b0 <=? a0 then e0 else (e0 - 1)%Z in   (* floor(log2(num/den)) *)
    let u := Z.max (E - 52) (-1074) in                (* exponent of the last place *)
    let '(a, b) := scale_frac num den u in
    let m := round_half_even a b in
    if (1024 <=? Z.of_N (N.log2 m) + u)%Z then FInf else FFin m u.

Definition frac_of (m : N) (e : Z) : N * N :=
  if (0 <=? e)%Z then (m * 2 ^ Z.to_N e, 1) else (m, 2 ^ Z.to_N (- e)).

Definition f_zero : f64 := FFin 0 0.
Definition f_of_u64 (n : N) : f64 := rnd n 1.           (* n as f64 *)
Definition UMAXF : f64 := f_of_u64 (W - 1).             (* u64::MAX as f64 = 2^64 *)

Definition f_mul (x y : f64) : f64 :=
  match x, y with
  | FNaN, _ => FNaN
  | _, FNaN => FNaN
  | FInf, FInf => FInf
  | FInf, FFin m _ => if m =? 0 then FNaN else FInf
  | FFin m _, FInf => if m =? 0 then FNaN else FInf
  | FFin m1 e1, FFin m2 e2 => let '(a, b) := frac_of (m1 * m2) (e1 + e2) in rnd a b
  end.

Definition f_add (x y : f64) : f64 :=
  match x, y with
  | FNaN, _ => FNaN
  | _, FNaN => FNaN
  | FInf, _ => FInf
  | _, FInf => FInf
  | FFin m1 e1, FFin m2 e2 =>
    let e := Z.min e1 e2 in
    let s := m1 * 2 ^ Z.to_N (e1 - e) + m2 * 2 ^ Z.to_N (e2 - e) in
    let '(a, b) := frac_of s e in rnd a b
  end.

Definition f_div (x y : f64) : f64 :=
  match x, y with
  | FNaN, _ => FNaN
  | _, FNaN => FNaN
  | FInf, FInf => FNaN
  | FInf, FFin _ _ => FInf
  | FFin _ _, FInf => f_zero
  | FFin m1 e1, FFin m2 e2 =>
    if m2 =? 0 then (if m1 =? 0 then FNaN else FInf)
    else
      let d := (e1 - e2)%Z in
      if (0 <=? d)%Z then rnd (m1 * 2 ^ Z.to_N d) m2 else rnd m1 (m2 * 2 ^ Z.to_N (- d))
  end.

(* BigUint::as_f64: Small(n) => n as f64;
   Large(v) => { res = 0.0; for &n in v.iter().rev() { res *= u64::MAX as f64; res += n as f64 } } *)
Definition as_f64 (b : buint) : f64 :=
  match b with
  | Small n => f_of_u64 n
  | Large v => fold_right (fun n res => f_add (f_mul res UMAXF) (f_of_u64 n)) f_zero v
  end.

Definition is_definitely_zero (b : buint) : bool :=
  match b with Small n => n =? 0 | Large _ => false end.

(* signed double: (negative?, magnitude) *)
Definition sf64 := (bool * f64)%type.

(* BigRat::into_f64 *)
Definition into_f64 (q : brat) : res sf64 :=
  if is_definitely_zero (rnum q) then Ok (false, f_zero)
  else
    do s <- simplify q;
    Ok (rneg s, f_div (as_f64 (rnum s)) (as_f64 (rden s))).

(* integer part and position of the fraction of m * 2^e:
   (floor, fraction is non-zero, fraction >= 1/2) *)
Definition split_int (m : N) (e : Z) : N * bool * bool :=
  if (0 <=? e)%Z then (m * 2 ^ Z.to_N e, false, false)
  else
    let d := 2 ^ Z.to_N (- e) in
    (m / d, negb (m mod d =? 0), d <=? 2 * (m mod d)).

Inductive rmode := RFloor | RCeil | RRound.

(* f64::floor / ceil / round (round: half away from zero) *)
Definition f_round (mode : rmode) (x : sf64) : sf64 :=
  let '(neg, mag) := x in
  match mag with
  | FFin m e =>
    let '(k, frac, half) := split_int m e in
    let up :=
      match mode with
      | RFloor => neg && frac
      | RCeil => negb neg && frac
      | RRound => half
      end in
    (neg, FFin (if up then k + 1 else k) 0)
  | _ => x
  end.

(* (f * 2^64) as u128: truncation, saturating, NaN -> 0 *)
Definition to_u128 (x : f64) : N :=
  match x with
  | FNaN => 0
  | FInf => 2 ^ 128 - 1
  | FFin m e => let '(k, _, _) := split_int m e in N.min k (2 ^ 128 - 1)
  end.

Definition f_is_pos (x : f64) : bool :=
  match x with FFin m _ => negb (m =? 0) | FInf => true | FNaN => false end.

(* BigRat::from_f64 *)
Definition from_f64 (x : sf64) : brat :=
  let '(neg, mag) := x in
  let negative := neg && f_is_pos mag in          (* f < 0.0 *)
  let i := to_u128 (f_mul mag UMAXF) in
  let part1 := i mod W in
  let part2 := i / W in
  mkrat negative (of_N (part1 + part2 * (W - 1))) (Small (W - 1)).

(* floor / ceil / round before 7d3085c *)
Definition q_round_old (mode : rmode) (q : brat) : res brat :=
  do f <- into_f64 q; Ok (from_f64 (f_round mode f)).


(* ---------------- specification: exact rounding in Z ---------------- *)

Definition rat_num_Z (q : brat) : Z := if rneg q then (- Z.of_N (nval q))%Z else Z.of_N (nval q).

Definition round_spec (mode : rmode) (q : brat) : Z :=
  let n := rat_num_Z q in
  let d := Z.of_N (dval q) in
  match mode with
  | RFloor => (n / d)%Z
  | RCeil => (- ((- n) / d))%Z
  | RRound =>                                        (* half away from zero *)
    if (n <? 0)%Z then (- ((2 * (- n) + d) / (2 * d)))%Z else ((2 * n + d) / (2 * d))%Z
  end.

(* a result denotes the integer z *)
Definition rat_is_Z (r : brat) (z : Z) : bool :=
  negb (dval r =? 0) && (rat_num_Z r =? z * Z.of_N (dval r))%Z.

(* ---------------- BigRat::round_to_integer (7d3085c) ---------------- *)

Definition round_core (mode : rmode) (neg : bool) (n d : N) : bool * N :=
  let k := n / d in
  let r := n mod d in
  let up :=
    match mode with
    | RFloor => neg && negb (r =? 0)
    | RCeil => negb neg && negb (r =? 0)
    | RRound => d <=? 2 * r
    end in
  let v := if up then k + 1 else k in
  (neg && negb (v =? 0), v).

(* self = self.simplify()?; (quotient, remainder) = self.num.divmod(&self.den)?;
   negative = sign == Negative && num != 0; has_remainder = remainder != 0;
   at_least_half = remainder + remainder >= den;
   floor: up iff negative && has_remainder; ceil: !negative && has_remainder;
   round: at_least_half; sign Negative iff negative && quotient != 0; den = 1.
   The quotient is a freshly computed integer: canonical representation. *)
Definition q_round (mode : rmode) (q : brat) : res brat :=
  do s <- simplify q;
  if dval s =? 0 then Err EDivByZero
  else
    let '(sg, v) := round_core mode (rneg s && negb (nval s =? 0)) (nval s) (dval s) in
    Ok (mkrat sg (of_N v) (Small 1)).

(* Complex::floor etc.: expect_real, then Real::floor = approximate().floor();
   a multiple of pi goes through the numeric approximation of pi: None *)
Definition c_round (mode : rmode) (c : cplx) : res (option brat) :=
  do r <- expect_real c;
  match r with
  | RSimple q => do x <- q_round mode q; Ok (Some x)
  | RPi _ => Ok None
  end.

(* ---------------- Value::floor / ceil / round (num/unit.rs) ---------------- *)

(* let value = self.value.one_point()?.floor(int)?; Self { value, unit: self.unit, .. }
   The coefficient in front of the unit is rounded and the unit is kept, so
   for a unit with scale factor s (dozen = 12, % = 1/100, m/cm = 100) the
   result denotes round(c) * s, not round(c * s). *)
Definition u_round (mode : rmode) (c s : brat) : res brat :=
  do r <- q_round mode c; Ok (rat_mul r s).

(* classifier of the known defect: the unit's scale factor is not 1 *)
Definition known_C10_round_unit_scale (s : brat) : bool :=
  negb ((nval s =? dval s) && negb (rneg s)).

(* ---------------- classifier of the repaired defect (documentation) ---------------- *)

Definition is_small (b : buint) : bool := match b with Small _ => true | Large _ => false end.

(* rounding through f64 is only claimed correct for integers below 2^53 held in
   Small limbs (the everyday case); everything else is in the known class *)
Definition known_C10_float_old (q : brat) : bool :=
  negb (is_small (rnum q) && is_small (rden q) && (dval q =? 1) && (nval q <? 2 ^ 53)).
