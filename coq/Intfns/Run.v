(* Dispatcher for the intfns area (C10): executable entry points used by the
   correspondence check (extracted to OCaml and also run by vm_compute).

   wire formats
     uint  = (flag limb ...)      flag 0: Small(limb), flag 1: Large(limbs)
     rat   = (neg uint uint)      neg 1: Sign::Negative
     real  = (pi rat)             pi 1: Pattern::Pi
     cplx  = (real real)
   results
     ("ok" x) | ("err" code) | ("panic" site); big integers by value unless
     the op name starts with b- (raw limbs).                              *)
From FendV Require Import Base.Prelude Intfns.Limbs Intfns.Arith Intfns.Text Intfns.Float.
Open Scope N_scope.

Definition as_uint (s : sx) : option buint :=
  match as_NL s with
  | Some (0 :: [n]) => Some (Small n)
  | Some (1 :: v) => Some (Large v)
  | _ => None
  end.

Definition as_rat (s : sx) : option brat :=
  match s with
  | XL [g; n; d] =>
    match as_N g, as_uint n, as_uint d with
    | Some g, Some n, Some d => Some (mkrat (g =? 1) n d)
    | _, _, _ => None
    end
  | _ => None
  end.

Definition as_real (s : sx) : option real :=
  match s with
  | XL [p; q] =>
    match as_N p, as_rat q with
    | Some p, Some q => Some (if p =? 1 then RPi q else RSimple q)
    | _, _ => None
    end
  | _ => None
  end.

Definition as_cplx (s : sx) : option cplx :=
  match s with
  | XL [a; b] =>
    match as_real a, as_real b with
    | Some a, Some b => Some (mkc a b)
    | _, _ => None
    end
  | _ => None
  end.

Definition sx_uint (b : buint) : sx :=
  match b with
  | Small n => XL [XA 0%Z; sx_N n]
  | Large v => XL (XA 1%Z :: map sx_N v)
  end.

Definition sx_ratv (q : brat) : sx :=
  XL [sx_bool (rneg q); sx_N (nval q); sx_N (dval q)].

Definition sx_Z (z : Z) : sx := XA z.

Definition sx_optrat (o : option brat) : sx :=
  match o with Some q => sx_ratv q | None => XL [XS (B"unmodelled")] end.

Definition as_bitop (n : N) : option bitop :=
  if n =? 0 then Some OpAnd else if n =? 1 then Some OpOr else if n =? 2 then Some OpXor
  else if n =? 3 then Some OpShl else if n =? 4 then Some OpShr else None.

Definition as_mode (n : N) : option rmode :=
  if n =? 0 then Some RFloor else if n =? 1 then Some RCeil else if n =? 2 then Some RRound else None.

Definition q_binop (k : N) : option (brat -> brat -> res brat) :=
  if k <? 5 then option_map q_bitwise (as_bitop k)
  else if k =? 5 then Some q_modulo
  else if k =? 6 then Some q_combination
  else if k =? 7 then Some q_permutation
  else None.

Definition run_intfns : dispatcher := fun op args =>
  (* ---- raw limb level ---- *)
  if opeq op "b-bit" then
    match args with
    | [k; a; b] =>
      match as_N k, as_uint a, as_uint b with
      | Some k, Some a, Some b =>
        match as_bitop k with
        | Some o => Some (sx_res sx_uint (uint_bitop o a b))
        | None => Some sx_bad
        end
      | _, _, _ => Some sx_bad
      end
    | _ => Some sx_bad
    end
  else if opeq op "b-usize" then
    match args with
    | [a] => match as_uint a with Some a => Some (sx_res sx_N (try_as_usize a)) | None => Some sx_bad end
    | _ => Some sx_bad
    end
  else if opeq op "b-val" then
    match args with
    | [a] => match as_uint a with Some a => Some (sx_N (val a)) | None => Some sx_bad end
    | _ => Some sx_bad
    end
  else if opeq op "b-fact" then
    match args with
    | [a] => match as_uint a with Some a => Some (sx_N (factorial (val a))) | None => Some sx_bad end
    | _ => Some sx_bad
    end
  else if opeq op "b-fib" then
    match args with
    | [a] => match as_N a with Some n => Some (sx_N (fibonacci n)) | None => Some sx_bad end
    | _ => Some sx_bad
    end
  else if opeq op "b-words" then
    match args with
    | [a] => match as_uint a with Some a => Some (sx_res XS (to_words (val a))) | None => Some sx_bad end
    | _ => Some sx_bad
    end
  (* ---- rational level ---- *)
  else if opeq op "q-fact" then
    match args with
    | [a] => match as_rat a with Some a => Some (sx_res sx_ratv (q_factorial a)) | None => Some sx_bad end
    | _ => Some sx_bad
    end
  else if opeq op "q-bin" then
    match args with
    | [k; a; b] =>
      match as_N k, as_rat a, as_rat b with
      | Some k, Some a, Some b =>
        match q_binop k with
        | Some f => Some (sx_res sx_ratv (f a b))
        | None => Some sx_bad
        end
      | _, _, _ => Some sx_bad
      end
    | _ => Some sx_bad
    end
  else if opeq op "q-usize" then
    match args with
    | [a] => match as_rat a with Some a => Some (sx_res sx_N (q_try_as_usize a)) | None => Some sx_bad end
    | _ => Some sx_bad
    end
  else if opeq op "known-npr-old" then
    match args with
    | [a] => match as_rat a with Some a => Some (sx_bool (known_C10_npr_negative_r_old a)) | None => Some sx_bad end
    | _ => Some sx_bad
    end
  else if opeq op "q-fib" then
    match args with
    | [a] => match as_rat a with
             | Some a => Some (sx_res sx_N (do n <- q_try_as_usize a; Ok (fibonacci n)))
             | None => Some sx_bad end
    | _ => Some sx_bad
    end
  else if opeq op "q-words" then
    match args with
    | [a] => match as_rat a with
             | Some a => Some (sx_res XS (do u <- q_try_as_biguint a; to_words (val u)))
             | None => Some sx_bad end
    | _ => Some sx_bad
    end
  else if opeq op "q-round" then
    match args with
    | [m; a] =>
      match as_N m, as_rat a with
      | Some m, Some a =>
        match as_mode m with
        | Some m => Some (sx_res sx_ratv (q_round m a))
        | None => Some sx_bad
        end
      | _, _ => Some sx_bad
      end
    | _ => Some sx_bad
    end
  else if opeq op "q-round-old" then
    match args with
    | [m; a] =>
      match as_N m, as_rat a with
      | Some m, Some a =>
        match as_mode m with
        | Some m => Some (sx_res sx_ratv (q_round_old m a))
        | None => Some sx_bad
        end
      | _, _ => Some sx_bad
      end
    | _ => Some sx_bad
    end
  else if opeq op "u-round" then
    match args with
    | [m; a; b] =>
      match as_N m, as_rat a, as_rat b with
      | Some m, Some a, Some b =>
        match as_mode m with
        | Some m => Some (sx_res sx_ratv (u_round m a b))
        | None => Some sx_bad
        end
      | _, _, _ => Some sx_bad
      end
    | _ => Some sx_bad
    end
  else if opeq op "known-round-unit" then
    match args with
    | [a] => match as_rat a with Some a => Some (sx_bool (known_C10_round_unit_scale a)) | None => Some sx_bad end
    | _ => Some sx_bad
    end
  else if opeq op "spec-round" then
    match args with
    | [m; a] =>
      match as_N m, as_rat a with
      | Some m, Some a =>
        match as_mode m with
        | Some m => Some (sx_Z (round_spec m a))
        | None => Some sx_bad
        end
      | _, _ => Some sx_bad
      end
    | _ => Some sx_bad
    end
  else if opeq op "known-float-old" then
    match args with
    | [a] => match as_rat a with Some a => Some (sx_bool (known_C10_float_old a)) | None => Some sx_bad end
    | _ => Some sx_bad
    end
  (* ---- complex level (domain checks) ---- *)
  else if opeq op "c-fact" then
    match args with
    | [a] => match as_cplx a with Some a => Some (sx_res sx_optrat (c_factorial a)) | None => Some sx_bad end
    | _ => Some sx_bad
    end
  else if opeq op "c-bin" then
    match args with
    | [k; a; b] =>
      match as_N k, as_cplx a, as_cplx b with
      | Some k, Some a, Some b =>
        match q_binop k with
        | Some f => Some (sx_res sx_ratv (c_binary f a b))
        | None => Some sx_bad
        end
      | _, _, _ => Some sx_bad
      end
    | _ => Some sx_bad
    end
  else if opeq op "c-usize" then
    match args with
    | [a] => match as_cplx a with Some a => Some (sx_res sx_N (c_try_as_usize a)) | None => Some sx_bad end
    | _ => Some sx_bad
    end
  else if opeq op "c-round" then
    match args with
    | [m; a] =>
      match as_N m, as_cplx a with
      | Some m, Some a =>
        match as_mode m with
        | Some m => Some (sx_res sx_optrat (c_round m a))
        | None => Some sx_bad
        end
      | _, _ => Some sx_bad
      end
    | _ => Some sx_bad
    end
  (* ---- text ---- *)
  else if opeq op "words" then
    match args with
    | [a] => match as_N a with Some n => Some (sx_res XS (to_words n)) | None => Some sx_bad end
    | _ => Some sx_bad
    end
  else if opeq op "parse-words" then
    match args with
    | [XS s] => Some (sx_opt sx_N (parse_words s))
    | _ => Some sx_bad
    end
  else if opeq op "roman" then
    match args with
    | [a] => match as_N a with Some n => Some (sx_res sx_Ns (roman_of_usize n)) | None => Some sx_bad end
    | _ => Some sx_bad
    end
  else if opeq op "roman-value" then
    match args with
    | [a] => match as_NL a with Some s => Some (sx_opt sx_Z (roman_value s)) | None => Some sx_bad end
    | _ => Some sx_bad
    end
  else if opeq op "char" then
    match args with
    | [a] => match as_N a with Some n => Some (sx_res sx_Ns (char_of_usize n)) | None => Some sx_bad end
    | _ => Some sx_bad
    end
  else if opeq op "codepoint" then
    match args with
    | [a] => match as_NL a with Some s => Some (sx_res sx_N (codepoint_of s)) | None => Some sx_bad end
    | _ => Some sx_bad
    end
  (* ---- specifications, for small arguments ---- *)
  else if opeq op "spec-fact" then
    match args with
    | [a] => match as_N a with Some n => Some (sx_N (Nfact n)) | None => Some sx_bad end
    | _ => Some sx_bad
    end
  else if opeq op "spec-fib" then
    match args with
    | [a] => match as_N a with Some n => Some (sx_N (fib_nat (N.to_nat n))) | None => Some sx_bad end
    | _ => Some sx_bad
    end
  else if opeq op "spec-binom" then
    match args with
    | [a; b] => match as_N a, as_N b with
                | Some n, Some r => Some (sx_N (binom (N.to_nat n) (N.to_nat r)))
                | _, _ => Some sx_bad end
    | _ => Some sx_bad
    end
  else None.

Definition run_intfns_line : list N -> list N := run_with run_intfns.
