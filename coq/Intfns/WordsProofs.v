(* Proofs about to_words: an independent reader of English number words maps
   the output back to the number, for every n < 10^66; larger n are rejected. *)
From Coq Require Import Lia ZifyBool.
From FendV Require Import Base.Prelude Intfns.Text.
Open Scope N_scope.

Arguments N.add : simpl never.
Arguments N.sub : simpl never.
Arguments N.mul : simpl never.
Arguments N.div : simpl never.
Arguments N.modulo : simpl never.
Arguments N.eqb : simpl never.
Arguments N.ltb : simpl never.
Arguments N.leb : simpl never.
Arguments N.pow : simpl never.

(* ------------------------------------------------------------------ *)
(* tokenizer *)

Lemma tokenize_app_sp : forall a cur b,
  tokenize (a ++ 32 :: b) cur = tokenize a cur ++ tokenize b [].
Proof.
  induction a as [|c a IH]; intros cur b.
  - cbn [app tokenize]. change (32 =? 32) with true. cbn [orb].
    destruct (is_nil cur); reflexivity.
  - cbn [app tokenize]. destruct ((c =? 32) || (c =? 45)).
    + destruct (is_nil cur); rewrite IH; reflexivity.
    + apply IH.
Qed.

Lemma tokenize_drop_spaces : forall s, tokenize (drop_spaces s) [] = tokenize s [].
Proof.
  induction s as [|c s IH]; [reflexivity|].
  cbn [drop_spaces]. destruct (N.eqb_spec c 32) as [->|Hc]; [|reflexivity].
  rewrite IH. reflexivity.
Qed.

Lemma tokenize_rev_drop : forall t, tokenize (rev (drop_spaces t)) [] = tokenize (rev t) [].
Proof.
  induction t as [|c t IH]; [reflexivity|].
  cbn [drop_spaces]. destruct (N.eqb_spec c 32) as [->|Hc]; [|reflexivity].
  rewrite IH. cbn [rev]. rewrite tokenize_app_sp. cbn [tokenize is_nil]. rewrite app_nil_r. reflexivity.
Qed.

Lemma tokenize_trim : forall s, tokenize (trim s) [] = tokenize s [].
Proof.
  intro s. unfold trim. rewrite tokenize_rev_drop, rev_involutive. apply tokenize_drop_spaces.
Qed.

(* ------------------------------------------------------------------ *)
(* classification and evaluation are compositional *)

Lemma classify_all_app : forall a b x y, classify_all a = Some x -> classify_all b = Some y ->
  classify_all (a ++ b) = Some (x ++ y).
Proof.
  induction a as [|w a IH]; intros b x y Ha Hb.
  - injection Ha as <-. exact Hb.
  - cbn [classify_all app] in *. destruct (classify w) as [t|]; [|discriminate].
    destruct (classify_all a) as [ts|]; [|discriminate]. injection Ha as <-.
    rewrite (IH b ts y eq_refl Hb). reflexivity.
Qed.

Lemma eval_toks_app : forall a b st, eval_toks (a ++ b) st = eval_toks b (eval_toks a st).
Proof. intros. unfold eval_toks. apply fold_left_app. Qed.

Definition is_scale (t : tok) : bool := match t with TScale _ => true | _ => false end.

Lemma eval_noscale : forall ts T c, forallb (fun t => negb (is_scale t)) ts = true ->
  eval_toks ts (T, c) = (T, snd (eval_toks ts (0, c))).
Proof.
  induction ts as [|t ts IH]; intros T c H; [reflexivity|].
  cbn [forallb] in H. apply andb_true_iff in H. destruct H as [Ht H].
  unfold eval_toks in *. cbn [fold_left].
  destruct t; try discriminate; cbn [tok_step]; apply IH; assumption.
Qed.

(* ------------------------------------------------------------------ *)
(* finite facts, by computation *)

Definition chunk_ok (p : N) : bool :=
  match convert_below_1000 p with
  | Ok w =>
    match classify_all (tokenize w []) with
    | Some ts =>
      forallb (fun t => negb (is_scale t)) ts &&
      (let '(t, c) := eval_toks ts (0, 0) in (t =? 0) && (c =? p))
    | None => false
    end
  | _ => false
  end.

Lemma chunk_sweep : forallb chunk_ok (map N.of_nat (seq 1 999)) = true.
Proof. vm_compute. reflexivity. Qed.

Lemma chunk_ok_all : forall p, 0 < p -> p < 1000 -> chunk_ok p = true.
Proof.
  intros p H0 H1. pose proof chunk_sweep as S. rewrite forallb_forall in S. apply S.
  apply in_map_iff. exists (N.to_nat p). split; [apply N2Nat.id|]. apply in_seq. lia.
Qed.

Definition scale_ok (k : nat) : bool :=
  match nth_error scale_numbers k with
  | Some sc =>
    match classify_all (tokenize sc []) with
    | Some [TScale j] => j =? N.of_nat k
    | _ => false
    end
  | None => false
  end.

Lemma scale_sweep : forallb scale_ok (seq 1 21) = true.
Proof. vm_compute. reflexivity. Qed.

Lemma scale_ok_all : forall k, (1 <= k <= 21)%nat -> scale_ok k = true.
Proof.
  intros k Hk. pose proof scale_sweep as S. rewrite forallb_forall in S. apply S. apply in_seq. lia.
Qed.

Lemma scale_none : forall k, (22 <= k)%nat -> nth_error scale_numbers k = None.
Proof. intros k Hk. apply nth_error_None. cbn [scale_numbers length]. lia. Qed.

(* ------------------------------------------------------------------ *)
(* the loop over the groups *)

Fixpoint rev_val (cs : list N) : N :=
  match cs with
  | [] => 0
  | p :: rest => p * 1000 ^ N.of_nat (length rest) + rev_val rest
  end.

Lemma tokenize_join : forall result w,
  tokenize ((if is_nil result then result else result ++ [32]) ++ w) [] =
  tokenize result [] ++ tokenize w [].
Proof.
  intros [|c r] w; [reflexivity|]. cbn [is_nil]. rewrite <- app_assoc. cbn [app].
  apply (tokenize_app_sp (c :: r) [] w).
Qed.

Lemma words_loop_spec : forall cs result ts T,
  Forall (fun p => p < 1000) cs -> (length cs <= 22)%nat ->
  classify_all (tokenize result []) = Some ts -> eval_toks ts (0, 0) = (T, 0) ->
  exists out ts', words_loop cs result = Ok out /\
    classify_all (tokenize out []) = Some ts' /\
    fst (eval_toks ts' (0, 0)) + snd (eval_toks ts' (0, 0)) = T + rev_val cs.
Proof.
  induction cs as [|part rest IH]; intros result ts T Hlt Hlen Hcl Hev.
  - exists result, ts. cbn [words_loop rev_val]. rewrite Hev. cbn [fst snd]. repeat split; try assumption; try lia.
  - inversion Hlt as [|? ? Hp Hrest]; subst. cbn [length] in Hlen.
    cbn [words_loop rev_val].
    destruct (N.eqb_spec part 0) as [->|Hnz].
    + destruct (IH result ts T Hrest ltac:(lia) Hcl Hev) as [out [ts' [E [C V]]]].
      exists out, ts'. repeat split; try assumption; try (rewrite V; lia).
    + pose proof (chunk_ok_all part ltac:(lia) Hp) as Hc. unfold chunk_ok in Hc.
      destruct (convert_below_1000 part) as [w| |]; try discriminate. cbn [bind].
      destruct (classify_all (tokenize w [])) as [tw|] eqn:Ew; [|discriminate].
      apply andb_true_iff in Hc. destruct Hc as [Hns Hc].
      destruct (eval_toks tw (0, 0)) as [t0 c0] eqn:Eev.
      apply andb_true_iff in Hc. destruct Hc as [Ht0 Hc0].
      apply N.eqb_eq in Ht0, Hc0. subst t0 c0.
      set (result2 := (if is_nil result then result else result ++ [32]) ++ w).
      assert (C2 : classify_all (tokenize result2 []) = Some (ts ++ tw)).
      { unfold result2. rewrite tokenize_join. apply classify_all_app; assumption. }
      assert (E2 : eval_toks (ts ++ tw) (0, 0) = (T, part)).
      { rewrite eval_toks_app, Hev, eval_noscale by assumption. rewrite Eev. reflexivity. }
      destruct rest as [|r0 rest'].
      * (* least significant group *)
        cbn [length N.of_nat]. change (0 <? 0) with false. cbn [words_loop].
        exists result2, (ts ++ tw). repeat split; [assumption|].
        rewrite E2. cbn [fst snd rev_val length N.of_nat]. rewrite N.pow_0_r. lia.
      * set (k := length (r0 :: rest')) in *.
        assert (Hk : (1 <= k <= 21)%nat) by (unfold k; cbn [length] in *; lia).
        assert ((0 <? N.of_nat k) = true) as -> by lia.
        rewrite Nat2N.id.
        pose proof (scale_ok_all k Hk) as Hs. unfold scale_ok in Hs.
        destruct (nth_error scale_numbers k) as [sc|]; [|discriminate].
        destruct (classify_all (tokenize sc [])) as [[|t1 [|t2 tl]]|] eqn:Esc; try discriminate;
          try (destruct t1; discriminate).
        destruct t1; try discriminate. apply N.eqb_eq in Hs. subst k0.
        assert (C3 : classify_all (tokenize (result2 ++ [32] ++ sc) []) = Some ((ts ++ tw) ++ [TScale (N.of_nat k)])).
        { cbn [app]. rewrite tokenize_app_sp. apply classify_all_app; assumption. }
        assert (E3 : eval_toks ((ts ++ tw) ++ [TScale (N.of_nat k)]) (0, 0) = (T + part * 1000 ^ N.of_nat k, 0)).
        { rewrite eval_toks_app, E2. reflexivity. }
        destruct (IH _ _ _ Hrest ltac:(lia) C3 E3) as [out [ts' [E [C V]]]].
        exists out, ts'. repeat split; try assumption; try (rewrite V; lia).
Qed.

(* ------------------------------------------------------------------ *)
(* groups of three digits *)

Fixpoint val1000 (cs : list N) : N :=
  match cs with [] => 0 | c :: r => c + 1000 * val1000 r end.

Lemma chunks_fuel_spec : forall fuel n, n < 2 ^ N.of_nat fuel ->
  val1000 (chunks_fuel fuel n) = n /\ Forall (fun p => p < 1000) (chunks_fuel fuel n).
Proof.
  induction fuel as [|f IH]; intros n Hn.
  - cbn [N.of_nat] in Hn. rewrite N.pow_0_r in Hn. assert (n = 0) as -> by lia.
    cbn [chunks_fuel val1000]. split; [reflexivity|constructor].
  - cbn [chunks_fuel]. destruct (N.eqb_spec n 0) as [->|Hnz].
    + cbn [val1000]. split; [reflexivity|constructor].
    + assert (Hd : n / 1000 < 2 ^ N.of_nat f).
      { rewrite Nat2N.inj_succ, N.pow_succ_r' in Hn.
        apply N.div_lt_upper_bound; [discriminate|].
        assert (0 < 2 ^ N.of_nat f) by (apply N.neq_0_lt_0, N.pow_nonzero; discriminate).
        nia. }
      destruct (IH _ Hd) as [Hv Hf]. cbn [val1000]. rewrite Hv. split.
      * pose proof (N.div_mod n 1000 ltac:(discriminate)). lia.
      * constructor; [apply N.mod_lt; discriminate|assumption].
Qed.

Lemma chunks_fuel_length : forall fuel n k, n < 1000 ^ N.of_nat k ->
  (length (chunks_fuel fuel n) <= k)%nat.
Proof.
  induction fuel as [|f IH]; intros n k Hn; [cbn [chunks_fuel length]; lia|].
  cbn [chunks_fuel]. destruct (N.eqb_spec n 0) as [->|Hnz]; [cbn [length]; lia|].
  destruct k as [|k].
  - cbn [N.of_nat] in Hn. rewrite N.pow_0_r in Hn. lia.
  - cbn [length]. apply le_n_S. apply IH.
    rewrite Nat2N.inj_succ, N.pow_succ_r' in Hn.
    apply N.div_lt_upper_bound; [discriminate|]. assumption.
Qed.

Lemma chunks_spec : forall n,
  val1000 (chunks n) = n /\ Forall (fun p => p < 1000) (chunks n).
Proof.
  intro n. apply chunks_fuel_spec. rewrite N2Nat.id. apply N.size_gt.
Qed.

Lemma rev_val_snoc : forall a c, rev_val (a ++ [c]) = 1000 * rev_val a + c.
Proof.
  induction a as [|p a IH]; intro c.
  - cbn [app rev_val length N.of_nat]. rewrite N.pow_0_r. lia.
  - cbn [app rev_val]. rewrite IH, app_length. cbn [length].
    rewrite Nat.add_comm. cbn [Nat.add]. rewrite Nat2N.inj_succ, N.pow_succ_r'. lia.
Qed.

Lemma rev_val_rev : forall l, rev_val (rev l) = val1000 l.
Proof.
  induction l as [|c l IH]; [reflexivity|].
  cbn [rev val1000]. rewrite rev_val_snoc, IH. lia.
Qed.

Lemma pow10_66 : 10 ^ 66 = 1000 ^ N.of_nat 22.
Proof. vm_compute. reflexivity. Qed.

Lemma words_inverse_lemma : forall n, n < 10 ^ 66 ->
  exists s, to_words n = Ok s /\ parse_words s = Some n.
Proof.
  intros n Hn. unfold to_words. destruct (N.eqb_spec n 0) as [->|Hnz].
  - eexists; split; [reflexivity|]. vm_compute. reflexivity.
  - destruct (chunks_spec n) as [Hv Hf].
    assert (Hl : (length (rev (chunks n)) <= 22)%nat).
    { rewrite rev_length. apply chunks_fuel_length. rewrite <- pow10_66. assumption. }
    assert (Hf' : Forall (fun p => p < 1000) (rev (chunks n))).
    { apply Forall_forall. intros x Hx. apply in_rev in Hx. rewrite Forall_forall in Hf. auto. }
    destruct (words_loop_spec (rev (chunks n)) [] [] 0 Hf' Hl eq_refl eq_refl) as [out [ts' [E [C V]]]].
    rewrite E. cbn [bind]. eexists; split; [reflexivity|].
    unfold parse_words. rewrite tokenize_trim, C.
    destruct (eval_toks ts' (0, 0)) as [t c]. cbn [fst snd] in V.
    rewrite rev_val_rev, Hv in V. f_equal. lia.
Qed.

(* ------------------------------------------------------------------ *)
(* numbers from 10^66 on are rejected *)

Lemma chunks_fuel_top : forall fuel n, n < 2 ^ N.of_nat fuel -> n <> 0 ->
  exists init top, chunks_fuel fuel n = init ++ [top] /\ top <> 0.
Proof.
  induction fuel as [|f IH]; intros n Hn Hnz.
  - cbn [N.of_nat] in Hn. rewrite N.pow_0_r in Hn. lia.
  - cbn [chunks_fuel]. destruct (N.eqb_spec n 0) as [|_]; [contradiction|].
    assert (Hd : n / 1000 < 2 ^ N.of_nat f).
    { rewrite Nat2N.inj_succ, N.pow_succ_r' in Hn.
      apply N.div_lt_upper_bound; [discriminate|].
      assert (0 < 2 ^ N.of_nat f) by (apply N.neq_0_lt_0, N.pow_nonzero; discriminate).
      nia. }
    destruct (N.eq_dec (n / 1000) 0) as [E|E].
    + exists [], (n mod 1000). split.
      * rewrite E. destruct f; reflexivity.
      * pose proof (N.div_mod n 1000 ltac:(discriminate)). lia.
    + destruct (IH _ Hd E) as [init [top [E1 Ht]]].
      exists (n mod 1000 :: init), top. rewrite E1. split; [reflexivity|assumption].
Qed.

Lemma chunks_fuel_length_ge : forall fuel n k, n < 2 ^ N.of_nat fuel -> 1000 ^ N.of_nat k <= n ->
  (k < length (chunks_fuel fuel n))%nat.
Proof.
  induction fuel as [|f IH]; intros n k Hn Hk.
  - cbn [N.of_nat] in Hn. rewrite N.pow_0_r in Hn.
    assert (0 < 1000 ^ N.of_nat k) by (apply N.neq_0_lt_0, N.pow_nonzero; discriminate). lia.
  - cbn [chunks_fuel].
    assert (0 < 1000 ^ N.of_nat k) by (apply N.neq_0_lt_0, N.pow_nonzero; discriminate).
    destruct (N.eqb_spec n 0) as [->|Hnz]; [lia|].
    cbn [length]. destruct k as [|k]; [lia|]. apply -> Nat.succ_lt_mono. apply IH.
    + rewrite Nat2N.inj_succ, N.pow_succ_r' in Hn.
      apply N.div_lt_upper_bound; [discriminate|].
      assert (0 < 2 ^ N.of_nat f) by (apply N.neq_0_lt_0, N.pow_nonzero; discriminate).
      nia.
    + rewrite Nat2N.inj_succ, N.pow_succ_r' in Hk.
      apply N.div_le_lower_bound; [discriminate|]. assumption.
Qed.

Lemma words_out_of_range_lemma : forall n, 10 ^ 66 <= n -> to_words n = Err EOutOfRange.
Proof.
  intros n Hn. unfold to_words.
  assert (Hnz : n <> 0) by (intro; subst; vm_compute in Hn; contradiction).
  destruct (N.eqb_spec n 0) as [|_]; [contradiction|].
  assert (Hb : n < 2 ^ N.of_nat (N.to_nat (N.size n))) by (rewrite N2Nat.id; apply N.size_gt).
  destruct (chunks_fuel_top _ _ Hb Hnz) as [init [top [E Ht]]].
  pose proof (chunks_fuel_length_ge _ n 22 Hb ltac:(rewrite <- pow10_66; assumption)) as Hl.
  unfold chunks. rewrite E in *. rewrite rev_app_distr. cbn [rev app].
  rewrite app_length in Hl. cbn [length] in Hl.
  cbn [words_loop]. destruct (N.eqb_spec top 0) as [|_]; [contradiction|].
  rewrite rev_length.
  destruct (convert_below_1000 top) as [w| |] eqn:Ew.
  - cbn [bind]. assert ((0 <? N.of_nat (length init)) = true) as -> by lia.
    rewrite Nat2N.id, scale_none by lia. reflexivity.
  - exfalso. (* top < 1000: convert_below_1000 succeeds *)
    pose proof (chunks_spec n) as [_ Hf]. unfold chunks in Hf. rewrite E in Hf.
    rewrite Forall_forall in Hf. specialize (Hf top ltac:(apply in_or_app; right; left; reflexivity)).
    pose proof (chunk_ok_all top ltac:(lia) Hf) as Hc. unfold chunk_ok in Hc. rewrite Ew in Hc. discriminate.
  - exfalso.
    pose proof (chunks_spec n) as [_ Hf]. unfold chunks in Hf. rewrite E in Hf.
    rewrite Forall_forall in Hf. specialize (Hf top ltac:(apply in_or_app; right; left; reflexivity)).
    pose proof (chunk_ok_all top ltac:(lia) Hf) as Hc. unfold chunk_ok in Hc. rewrite Ew in Hc. discriminate.
Qed.
