(* Proofs about to_roman: reading the numeral by the subtractive rule (with an
   overlined letter worth 1000 times the letter) gives back the number, for
   every n; the expansion is the greedy one and no group is repeated more than
   three times except the leading overlined M.  Also char / codepoint. *)
From Coq Require Import Lia ZifyBool.
From FendV Require Import Base.Prelude Intfns.Text.
Open Scope N_scope.

Arguments N.add : simpl never.
Arguments N.sub : simpl never.
Arguments N.mul : simpl never.
Arguments N.div : simpl never.
Arguments N.modulo : simpl never.
Arguments N.eqb : simpl never.
Arguments N.ltb : simpl never.
Arguments N.leb : simpl never.

(* ------------------------------------------------------------------ *)
(* from characters to symbol values *)

Definition cv (c : N) : N := match roman_char_value c with Some v => v | None => 0 end.
Definition valid_char (c : N) : bool := match roman_char_value c with Some _ => true | None => false end.
Definition no_over (rest : str) : bool := match rest with [] => true | o :: _ => negb (o =? 773) end.

Lemma valid_not_over : forall c, valid_char c = true -> (c =? 773) = false.
Proof.
  intros c H. destruct (N.eqb_spec c 773) as [->|]; [|reflexivity]. vm_compute in H. discriminate.
Qed.

Lemma sym_plain1 : forall c rest, valid_char c = true -> no_over rest = true ->
  roman_symbols (c :: rest) = option_map (cons (cv c)) (roman_symbols rest).
Proof.
  intros c rest Hc Hr. unfold cv, valid_char in *. cbn [roman_symbols].
  destruct (roman_char_value c) as [v|]; [|discriminate].
  destruct rest as [|o r']; [reflexivity|].
  cbn [no_over] in Hr. apply negb_true_iff in Hr. rewrite Hr. reflexivity.
Qed.

Lemma sym_over1 : forall c rest, valid_char c = true ->
  roman_symbols (c :: 773 :: rest) = option_map (cons (1000 * cv c)) (roman_symbols rest).
Proof.
  intros c rest Hc. unfold cv, valid_char in *. cbn [roman_symbols].
  destruct (roman_char_value c) as [v|]; [|discriminate]. reflexivity.
Qed.

Definition entry_vals (over : bool) (r : str) : list N :=
  map (fun c => (if over then 1000 else 1) * cv c) r.
Definition entry_sym (over : bool) (r : str) : str := if over then overline r else r.

Lemma option_map_app : forall (a b : list N) (o : option (list N)),
  option_map (app a) (option_map (app b) o) = option_map (app (a ++ b)) o.
Proof. intros a b [x|]; cbn [option_map]; [rewrite app_assoc|]; reflexivity. Qed.

Lemma option_map_cons_app : forall (a : N) (b : list N) (o : option (list N)),
  option_map (cons a) (option_map (app b) o) = option_map (app (a :: b)) o.
Proof. intros a b [x|]; reflexivity. Qed.

Lemma sym_entry : forall over r rest, forallb valid_char r = true -> no_over rest = true ->
  roman_symbols (entry_sym over r ++ rest) = option_map (app (entry_vals over r)) (roman_symbols rest) /\
  no_over (entry_sym over r ++ rest) = true.
Proof.
  intros over r rest Hr Hrest. destruct over; unfold entry_sym, entry_vals.
  - induction r as [|c r IH].
    + cbn [overline flat_map app map]. split; [destruct (roman_symbols rest); reflexivity|assumption].
    + cbn [forallb] in Hr. apply andb_true_iff in Hr. destruct Hr as [Hc Hr].
      destruct (IH Hr) as [IH1 _].
      unfold overline in *. cbn [flat_map app map]. rewrite sym_over1 by assumption.
      rewrite IH1, option_map_cons_app. split; [reflexivity|].
      cbn [no_over]. rewrite valid_not_over by assumption. reflexivity.
  - induction r as [|c r IH].
    + cbn [app map]. split; [destruct (roman_symbols rest); reflexivity|assumption].
    + cbn [forallb] in Hr. apply andb_true_iff in Hr. destruct Hr as [Hc Hr].
      destruct (IH Hr) as [IH1 IH2].
      cbn [app map]. rewrite sym_plain1 by assumption.
      rewrite IH1, option_map_cons_app, N.mul_1_l. split; [reflexivity|].
      cbn [no_over]. rewrite valid_not_over by assumption. reflexivity.
Qed.

Definition vals_rep (q : N) (vs : list N) : list N := N.iter q (app vs) [].

Lemma sym_repeat : forall over r q rest, forallb valid_char r = true -> no_over rest = true ->
  roman_symbols (repeat_str q (entry_sym over r) ++ rest) =
    option_map (app (vals_rep q (entry_vals over r))) (roman_symbols rest) /\
  no_over (repeat_str q (entry_sym over r) ++ rest) = true.
Proof.
  intros over r q rest Hr Hrest. unfold repeat_str, vals_rep.
  induction q as [|q IH] using N.peano_ind.
  - cbn [N.iter app]. split; [destruct (roman_symbols rest); reflexivity|assumption].
  - rewrite !N.iter_succ. destruct IH as [IH1 IH2].
    rewrite <- app_assoc.
    destruct (sym_entry over r _ Hr IH2) as [E1 E2].
    rewrite E1, IH1, option_map_app. split; [reflexivity|assumption].
Qed.

(* the value-level pass *)
Fixpoint gpass (vt : list (list N * N)) (num : N) : list N * N :=
  match vt with
  | [] => ([], num)
  | (vs, n) :: rest =>
    let q := num / n in
    let num' := num - q * n in
    let '(out, fin) := gpass rest num' in
    (vals_rep q vs ++ out, fin)
  end.

Definition vtable (tbl : list (str * N)) (mult : N) (over : bool) : list (list N * N) :=
  map (fun e => (entry_vals over (fst e), snd e * mult)) tbl.

Definition tbl_valid (tbl : list (str * N)) : bool :=
  forallb (fun e => forallb valid_char (fst e)) tbl.

Lemma pass_symbols : forall tbl mult over num rest, tbl_valid tbl = true -> no_over rest = true ->
  roman_symbols (fst (roman_pass tbl mult over num) ++ rest) =
    option_map (app (fst (gpass (vtable tbl mult over) num))) (roman_symbols rest) /\
  snd (roman_pass tbl mult over num) = snd (gpass (vtable tbl mult over) num) /\
  no_over (fst (roman_pass tbl mult over num) ++ rest) = true.
Proof.
  induction tbl as [|[r n0] tbl IH]; intros mult over num rest Hv Hrest.
  - cbn [roman_pass vtable map gpass fst snd app]. repeat split; [destruct (roman_symbols rest); reflexivity|assumption].
  - cbn [tbl_valid forallb fst] in Hv. apply andb_true_iff in Hv. destruct Hv as [Hr Hv].
    cbn [roman_pass vtable map gpass fst snd].
    specialize (IH mult over (num - num / (n0 * mult) * (n0 * mult)) rest Hv Hrest).
    fold (vtable tbl mult over).
    destruct (roman_pass tbl mult over (num - num / (n0 * mult) * (n0 * mult))) as [out fin].
    destruct (gpass (vtable tbl mult over) (num - num / (n0 * mult) * (n0 * mult))) as [vout vfin].
    cbn [fst snd] in *. destruct IH as [IH1 [IH2 IH3]].
    rewrite <- app_assoc.
    destruct (sym_repeat over r (num / (n0 * mult)) (out ++ rest) Hr IH3) as [E1 E2].
    fold (entry_sym over r). rewrite E1, IH1, option_map_app.
    repeat split; assumption.
Qed.

(* ------------------------------------------------------------------ *)
(* the subtractive rule on blocks *)

Definition hd0 (v : list N) : N := match v with [] => 0 | x :: _ => x end.
Definition lastv (v : list N) : N := last v 0.

Lemma rsum_cons : forall a vs, hd0 vs <= a ->
  roman_sum (a :: vs) = (Z.of_N a + roman_sum vs)%Z.
Proof.
  intros a [|b vs] H; cbn [roman_sum]; [lia|].
  cbn [hd0] in H. destruct (N.ltb_spec a b); [lia|reflexivity].
Qed.

Lemma rsum_pair : forall a b vs, a < b -> hd0 vs <= b ->
  roman_sum (a :: b :: vs) = (Z.of_N b - Z.of_N a + roman_sum vs)%Z.
Proof.
  intros a b vs Hab H.
  change (roman_sum (a :: b :: vs)) with (if a <? b then (roman_sum (b :: vs) - Z.of_N a)%Z else (Z.of_N a + roman_sum (b :: vs))%Z).
  destruct (N.ltb_spec a b); [|lia]. rewrite rsum_cons by assumption. lia.
Qed.

Definition block_ok (vs : list N) (n : N) : bool :=
  match vs with
  | [a] => n =? a
  | [a; b] => (a <? b) && (n =? b - a)
  | _ => false
  end.

Lemma block_prepend : forall vs n tail, block_ok vs n = true -> hd0 tail <= lastv vs ->
  roman_sum (vs ++ tail) = (Z.of_N n + roman_sum tail)%Z /\ hd0 (vs ++ tail) = hd0 vs.
Proof.
  intros [|a [|b [|c vs]]] n tail Hb Ht; cbn [block_ok] in Hb; try discriminate.
  - cbn [lastv last] in Ht. cbn [app hd0]. rewrite rsum_cons by assumption. split; [lia|reflexivity].
  - cbn [lastv last] in Ht. apply andb_true_iff in Hb. destruct Hb as [Hab Hn].
    cbn [app hd0]. rewrite rsum_pair by (assumption || lia). split; [lia|reflexivity].
Qed.

Lemma block_repeat : forall vs n q tail, block_ok vs n = true ->
  hd0 vs <= lastv vs -> hd0 tail <= lastv vs ->
  roman_sum (vals_rep q vs ++ tail) = (Z.of_N (q * n) + roman_sum tail)%Z /\
  (forall X, hd0 vs <= X -> hd0 tail <= X -> hd0 (vals_rep q vs ++ tail) <= X).
Proof.
  intros vs n q tail Hb Hself Ht. unfold vals_rep.
  induction q as [|q IH] using N.peano_ind.
  - cbn [N.iter app]. split; [lia|auto].
  - rewrite N.iter_succ, <- app_assoc. destruct IH as [IH1 IH2].
    destruct (block_prepend vs n (N.iter q (app vs) [] ++ tail) Hb (IH2 _ Hself Ht)) as [E1 E2].
    rewrite E1, IH1, E2. split; [lia|auto].
Qed.

Fixpoint compat (vt : list (list N * N)) (bound : N) : bool :=
  match vt with
  | [] => true
  | (vs, n) :: rest =>
    block_ok vs n && (hd0 vs <=? lastv vs) &&
    forallb (fun e => hd0 (fst e) <=? lastv vs) rest &&
    (bound <=? lastv vs) && negb (n =? 0) && compat rest bound
  end.

Lemma gpass_sum : forall vt bound num tail, compat vt bound = true -> hd0 tail <= bound ->
  roman_sum (fst (gpass vt num) ++ tail) =
    (Z.of_N num - Z.of_N (snd (gpass vt num)) + roman_sum tail)%Z /\
  snd (gpass vt num) <= num /\
  (forall X, Forall (fun e => hd0 (fst e) <= X) vt -> hd0 tail <= X ->
             hd0 (fst (gpass vt num) ++ tail) <= X).
Proof.
  induction vt as [|[vs n] vt IH]; intros bound num tail Hc Ht.
  - cbn [gpass fst snd app]. repeat split; [lia|lia|auto].
  - cbn [compat] in Hc.
    apply andb_true_iff in Hc. destruct Hc as [Hc Hrest].
    apply andb_true_iff in Hc. destruct Hc as [Hc Hn0].
    apply andb_true_iff in Hc. destruct Hc as [Hc Hbound].
    apply andb_true_iff in Hc. destruct Hc as [Hc Hlater].
    apply andb_true_iff in Hc. destruct Hc as [Hblock Hself].
    apply N.leb_le in Hself, Hbound. apply negb_true_iff, N.eqb_neq in Hn0.
    cbn [gpass].
    set (q := num / n). set (num' := num - q * n).
    assert (Hq : q * n <= num) by (unfold q; rewrite N.mul_comm; apply N.mul_div_le; assumption).
    destruct (IH bound num' tail Hrest Ht) as [S1 [S2 S3]].
    destruct (gpass vt num') as [out fin]. cbn [fst snd] in *.
    assert (Hhd : hd0 (out ++ tail) <= lastv vs).
    { apply S3; [|lia]. rewrite forallb_forall in Hlater. apply Forall_forall.
      intros e He. apply N.leb_le. apply Hlater. assumption. }
    rewrite <- app_assoc.
    destruct (block_repeat vs n q (out ++ tail) Hblock Hself Hhd) as [R1 R2].
    rewrite R1, S1. repeat split.
    + unfold num'. lia.
    + unfold num' in S2. lia.
    + intros X HX HtX. inversion HX as [|? ? Hx HX']; subst. cbn [fst] in Hx.
      apply R2; [assumption|]. apply S3; assumption.
Qed.

Lemma gpass_fin_zero : forall init vs num, snd (gpass (init ++ [(vs, 1)]) num) = 0.
Proof.
  induction init as [|[vs0 n0] init IH]; intros vs num.
  - cbn [app gpass snd]. rewrite N.div_1_r. lia.
  - cbn [app gpass]. specialize (IH vs (num - num / n0 * n0)).
    destruct (gpass (init ++ [(vs, 1)]) (num - num / n0 * n0)). cbn [snd] in *. assumption.
Qed.

(* ------------------------------------------------------------------ *)
(* the two tables *)

Definition vt_large : list (list N * N) := vtable (removelast roman_table) 1000 true.
Definition vt_normal : list (list N * N) := vtable roman_table 1 false.

Lemma compat_large : compat vt_large 1000 = true.
Proof. vm_compute. reflexivity. Qed.
Lemma compat_normal : compat vt_normal 0 = true.
Proof. vm_compute. reflexivity. Qed.
Lemma normal_firsts : Forall (fun e => hd0 (fst e) <= 1000) vt_normal.
Proof.
  assert (H : forallb (fun e => hd0 (fst e) <=? 1000) vt_normal = true) by (vm_compute; reflexivity).
  rewrite forallb_forall in H. apply Forall_forall. intros e He. apply N.leb_le. auto.
Qed.

Lemma valid_large : tbl_valid (removelast roman_table) = true.
Proof. vm_compute. reflexivity. Qed.
Lemma valid_normal : tbl_valid roman_table = true.
Proof. vm_compute. reflexivity. Qed.

Lemma normal_ends_in_one : exists init vs, vt_normal = init ++ [(vs, 1)].
Proof. eexists (removelast vt_normal), _. vm_compute. reflexivity. Qed.

Lemma roman_inverse_lemma : forall n, roman_value (to_roman n true) = Some (Z.of_N n).
Proof.
  intro n. unfold to_roman, roman_value.
  pose proof (pass_symbols (removelast roman_table) 1000 true n) as P1.
  destruct (roman_pass (removelast roman_table) 1000 true n) as [o1 num1] eqn:E1.
  pose proof (pass_symbols roman_table 1 false num1 [] valid_normal eq_refl) as P2.
  destruct (roman_pass roman_table 1 false num1) as [o2 fin2] eqn:E2.
  cbn [fst snd] in *. rewrite app_nil_r in P2. destruct P2 as [S2 [F2 N2]].
  destruct (P1 o2 valid_large N2) as [S1 [F1 _]].
  rewrite S1, S2. cbn [roman_symbols option_map]. rewrite app_nil_r. f_equal.
  fold vt_large vt_normal in *.
  (* sums *)
  pose proof (gpass_sum vt_normal 0 num1 [] compat_normal ltac:(cbn [hd0]; lia)) as [G2 [_ H2]].
  rewrite app_nil_r in G2.
  assert (Hfin : snd (gpass vt_normal num1) = 0).
  { destruct normal_ends_in_one as [init [vs E]]. rewrite E. apply gpass_fin_zero. }
  assert (Hhd : hd0 (fst (gpass vt_normal num1)) <= 1000).
  { specialize (H2 1000 normal_firsts ltac:(cbn [hd0]; lia)). rewrite app_nil_r in H2. assumption. }
  pose proof (gpass_sum vt_large 1000 n (fst (gpass vt_normal num1)) compat_large Hhd) as [G1 [L1 _]].
  rewrite G1, G2, Hfin, <- F1. cbn [roman_sum]. lia.
Qed.

(* ------------------------------------------------------------------ *)
(* greedy expansion and the canonical repetition bounds *)

Definition denominations (tbl : list (str * N)) (mult : N) (over : bool) : list (str * N) :=
  map (fun e => (entry_sym over (fst e), snd e * mult)) tbl.

Definition all_denominations : list (str * N) :=
  denominations (removelast roman_table) 1000 true ++ denominations roman_table 1 false.

(* greedy change-making: as many of the current denomination as fit, then
   continue with the remainder *)
Fixpoint greedy (ds : list (str * N)) (num : N) : str :=
  match ds with
  | [] => []
  | (sym, n) :: rest => repeat_str (num / n) sym ++ greedy rest (num mod n)
  end.

Lemma sub_div_mod : forall num n, n <> 0 -> num - num / n * n = num mod n.
Proof.
  intros num n Hn. pose proof (N.div_mod num n Hn) as H.
  set (q := num / n) in *. set (r := num mod n) in *. clearbody q r. nia.
Qed.

Lemma pass_greedy : forall tbl mult over num,
  forallb (fun e => negb (snd e * mult =? 0)) tbl = true ->
  fst (roman_pass tbl mult over num) = greedy (denominations tbl mult over) num /\
  (forall tbl2, greedy (denominations tbl mult over ++ tbl2) num =
     fst (roman_pass tbl mult over num) ++ greedy tbl2 (snd (roman_pass tbl mult over num))).
Proof.
  induction tbl as [|[r n0] tbl IH]; intros mult over num Hnz.
  - cbn [roman_pass denominations map greedy fst snd app]. split; reflexivity.
  - cbn [forallb snd] in Hnz. apply andb_true_iff in Hnz. destruct Hnz as [Hn Hnz].
    apply negb_true_iff, N.eqb_neq in Hn.
    cbn [roman_pass denominations map greedy fst snd app]. fold (denominations tbl mult over).
    rewrite sub_div_mod by assumption.
    destruct (IH mult over (num mod (n0 * mult)) Hnz) as [IH1 IH2].
    destruct (roman_pass tbl mult over (num mod (n0 * mult))) as [out fin]. cbn [fst snd] in *.
    fold (entry_sym over r). split.
    + rewrite IH1. reflexivity.
    + intro tbl2. rewrite IH2, app_assoc. reflexivity.
Qed.

Lemma roman_greedy_lemma : forall n, to_roman n true = greedy all_denominations n.
Proof.
  intro n. unfold to_roman, all_denominations.
  destruct (pass_greedy (removelast roman_table) 1000 true n eq_refl) as [_ G1].
  rewrite G1.
  destruct (roman_pass (removelast roman_table) 1000 true n) as [o1 num1]. cbn [fst snd].
  destruct (pass_greedy roman_table 1 false num1 eq_refl) as [G2 _].
  destruct (roman_pass roman_table 1 false num1) as [o2 fin2]. cbn [fst] in G2. rewrite G2. reflexivity.
Qed.

(* quotients of the greedy expansion *)
Fixpoint gquot (ns : list N) (num : N) : list N :=
  match ns with
  | [] => []
  | n :: rest => num / n :: gquot rest (num mod n)
  end.

Definition all_values : list N := map snd all_denominations.

(* after the leading (overlined M) group, a group is used at most
   (previous denomination - 1) / (its denomination) times *)
Fixpoint caps (prev : N) (ns : list N) : list N :=
  match ns with
  | [] => []
  | n :: rest => (prev - 1) / n :: caps n rest
  end.

Lemma gquot_caps : forall ns prev num, num < prev -> forallb (fun n => negb (n =? 0)) ns = true ->
  Forall2 N.le (gquot ns num) (caps prev ns).
Proof.
  induction ns as [|n ns IH]; intros prev num Hlt Hnz; [constructor|].
  cbn [forallb] in Hnz. apply andb_true_iff in Hnz. destruct Hnz as [Hn Hnz].
  apply negb_true_iff, N.eqb_neq in Hn.
  cbn [gquot caps]. constructor.
  - apply N.div_le_mono; [assumption|lia].
  - apply IH; [apply N.mod_lt; assumption|assumption].
Qed.

Definition canonical_caps : list N := [1; 1; 1; 3; 1; 1; 1; 3; 1; 1; 1; 3; 1; 1; 1; 3; 1; 1; 1; 3; 1; 1; 1; 3].

Lemma roman_canonical_lemma : forall n,
  Forall2 N.le (tl (gquot all_values n)) canonical_caps.
Proof.
  intro n.
  change all_values with (1000000 :: tl all_values).
  cbn [gquot tl].
  change canonical_caps with (caps 1000000 (tl all_values)).
  apply gquot_caps; [apply N.mod_lt; discriminate|vm_compute; reflexivity].
Qed.

(* ------------------------------------------------------------------ *)
(* range check of the "roman" conversion *)

Lemma roman_of_usize_spec : forall n,
  (1 <= n <= 1000000000 -> exists s, roman_of_usize n = Ok s /\ roman_value s = Some (Z.of_N n) /\
                                     s = greedy all_denominations n) /\
  (n = 0 \/ 1000000000 < n -> roman_of_usize n = Err EOutOfRange).
Proof.
  intro n. unfold roman_of_usize. split.
  - intros [H1 H2]. destruct (N.eqb_spec n 0); [lia|].
    destruct (N.ltb_spec 1000000000 n); [lia|].
    eexists; repeat split; [apply roman_inverse_lemma|apply roman_greedy_lemma].
  - intros [->|H]; [reflexivity|]. destruct (N.eqb_spec n 0); [reflexivity|].
    destruct (N.ltb_spec 1000000000 n); [reflexivity|lia].
Qed.

(* ------------------------------------------------------------------ *)
(* char / codepoint *)

Lemma char_codepoint_lemma : forall c,
  (is_scalar c = true -> char_of_usize c = Ok [c] /\ codepoint_of [c] = Ok c) /\
  (is_scalar c = false -> char_of_usize c = Err EOutOfRange).
Proof.
  intro c. unfold char_of_usize. split.
  - intro H. rewrite H.
    assert ((c <? 4294967296) = true) as ->.
    { unfold is_scalar in H. apply N.ltb_lt.
      apply orb_true_iff in H. destruct H as [H|H]; [lia|].
      apply andb_true_iff in H. destruct H as [_ H]. lia. }
    split; reflexivity.
  - intro H. rewrite H, andb_false_r. reflexivity.
Qed.

Lemma codepoint_char_lemma : forall s c, codepoint_of s = Ok c -> s = [c].
Proof.
  intros [|x [|y r]] c H; cbn [codepoint_of] in H; try discriminate. congruence.
Qed.

Lemma codepoint_domain_lemma : forall s, length s <> 1%nat -> exists e, codepoint_of s = Err e.
Proof.
  intros [|x [|y r]] H; cbn [codepoint_of length] in *; try (eexists; reflexivity). congruence.
Qed.

Lemma codepoint_char_all : forall s,
  (forall c, codepoint_of s = Ok c -> s = [c]) /\
  (length s <> 1%nat -> exists e, codepoint_of s = Err e).
Proof. intro s. split; [exact (codepoint_char_lemma s)|exact (codepoint_domain_lemma s)]. Qed.
