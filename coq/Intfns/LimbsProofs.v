(* Proofs about coq/Intfns/Limbs.v: the limb-wise bitwise operations and the
   shifts agree with N.land / N.lor / N.lxor / N.shiftl / N.shiftr on values,
   for limb lists of any lengths, including leading zero limbs. *)
From Coq Require Import Lia ZifyBool.
From FendV Require Import Base.Prelude Intfns.Limbs.
Open Scope N_scope.

Arguments N.add : simpl never.
Arguments N.sub : simpl never.
Arguments N.mul : simpl never.
Arguments N.div : simpl never.
Arguments N.modulo : simpl never.
Arguments N.eqb : simpl never.
Arguments N.ltb : simpl never.
Arguments N.leb : simpl never.
Arguments N.land : simpl never.
Arguments N.lor : simpl never.
Arguments N.lxor : simpl never.
Arguments N.pow : simpl never.

Lemma W_pow : W = 2 ^ 64. Proof. reflexivity. Qed.
Lemma HALF_pow : HALF = 2 ^ 63. Proof. reflexivity. Qed.
Lemma W_HALF : W = 2 * HALF. Proof. reflexivity. Qed.
Lemma W_pos : 0 < W. Proof. reflexivity. Qed.

(* ------------------------------------------------------------------ *)
(* bits of small numbers, disjoint sums *)

Lemma testbit_small : forall x k i, x < 2 ^ k -> k <= i -> N.testbit x i = false.
Proof.
  intros x k i Hx Hi.
  destruct (N.eq_dec x 0) as [->|Hnz]; [apply N.bits_0|].
  apply N.bits_above_log2.
  assert (N.log2 x < k) by (apply N.log2_lt_pow2; lia).
  lia.
Qed.

Lemma land_disjoint : forall a b k, a < 2 ^ k -> N.land a (N.shiftl b k) = 0.
Proof.
  intros a b k Ha. apply N.bits_inj; intro i.
  rewrite N.land_spec, N.bits_0.
  destruct (N.ltb_spec i k).
  - rewrite N.shiftl_spec_low by assumption. apply andb_false_r.
  - rewrite (testbit_small a k i) by assumption. reflexivity.
Qed.

Lemma add_is_lor : forall a b k, a < 2 ^ k -> a + 2 ^ k * b = N.lor a (N.shiftl b k).
Proof.
  intros a b k Ha.
  rewrite N.shiftl_mul_pow2, (N.mul_comm b).
  rewrite <- N.lxor_lor by (rewrite N.mul_comm, <- N.shiftl_mul_pow2; apply land_disjoint; assumption).
  apply N.add_nocarry_lxor.
  rewrite N.mul_comm, <- N.shiftl_mul_pow2. apply land_disjoint; assumption.
Qed.

Lemma lt_pow2_bits : forall x k, (forall i, k <= i -> N.testbit x i = false) -> x < 2 ^ k.
Proof.
  intros x k H.
  destruct (N.eq_dec x 0) as [->|Hnz].
  - apply N.neq_0_lt_0, N.pow_nonzero. discriminate.
  - apply N.log2_lt_pow2; [lia|].
    destruct (N.ltb_spec (N.log2 x) k); [assumption|].
    specialize (H (N.log2 x) H0). rewrite N.bit_log2 in H by assumption. discriminate.
Qed.

(* a bit-wise operation with fb false false = false acts limb-wise *)
Section BitOp.
  Variable f : N -> N -> N.
  Variable fb : bool -> bool -> bool.
  Hypothesis f_spec : forall a b i, N.testbit (f a b) i = fb (N.testbit a i) (N.testbit b i).
  Hypothesis fb00 : fb false false = false.

  Lemma bitop_small : forall x y k, x < 2 ^ k -> y < 2 ^ k -> f x y < 2 ^ k.
  Proof.
    intros x y k Hx Hy. apply lt_pow2_bits. intros i Hi.
    rewrite f_spec, (testbit_small x k i), (testbit_small y k i) by assumption. exact fb00.
  Qed.

  Lemma bitop_split : forall x y r s, x < W -> y < W ->
    f (x + W * r) (y + W * s) = f x y + W * f r s.
  Proof.
    intros x y r s Hx Hy. rewrite W_pow in *.
    rewrite (add_is_lor x r 64), (add_is_lor y s 64) by assumption.
    rewrite (add_is_lor (f x y) (f r s) 64) by (apply bitop_small; assumption).
    apply N.bits_inj; intro i.
    rewrite f_spec, !N.lor_spec.
    destruct (N.ltb_spec i 64).
    - rewrite !N.shiftl_spec_low by assumption. rewrite !orb_false_r. symmetry. apply f_spec.
    - rewrite !N.shiftl_spec_high' by assumption.
      rewrite (testbit_small x 64 i), (testbit_small y 64 i) by assumption.
      rewrite (testbit_small (f x y) 64 i) by (try apply bitop_small; assumption).
      cbn [orb]. symmetry. apply f_spec.
  Qed.

  Lemma bitop_00 : f 0 0 = 0.
  Proof.
    apply N.bits_inj; intro i. rewrite f_spec, N.bits_0. exact fb00.
  Qed.
End BitOp.

Lemma limbs_ok_cons : forall x r, forallb limb_ok (x :: r) = true -> x < W /\ forallb limb_ok r = true.
Proof.
  intros x r H. cbn [forallb] in H. apply andb_true_iff in H. destruct H as [H1 H2].
  unfold limb_ok in H1. split; [lia|assumption].
Qed.

(* ------------------------------------------------------------------ *)
(* and *)

Lemma land_split : forall x y r s, x < W -> y < W ->
  N.land (x + W * r) (y + W * s) = N.land x y + W * N.land r s.
Proof. apply (bitop_split N.land andb N.land_spec eq_refl). Qed.
Lemma lor_split : forall x y r s, x < W -> y < W ->
  N.lor (x + W * r) (y + W * s) = N.lor x y + W * N.lor r s.
Proof. apply (bitop_split N.lor orb N.lor_spec eq_refl). Qed.
Lemma lxor_split : forall x y r s, x < W -> y < W ->
  N.lxor (x + W * r) (y + W * s) = N.lxor x y + W * N.lxor r s.
Proof. apply (bitop_split N.lxor xorb N.lxor_spec eq_refl). Qed.

Lemma and_ll_val : forall b a, forallb limb_ok a = true -> forallb limb_ok b = true ->
  val_limbs (and_ll a b) = N.land (val_limbs a) (val_limbs b).
Proof.
  induction b as [|y b IH]; intros a Ha Hb.
  - cbn [and_ll val_limbs]. rewrite N.land_0_r. reflexivity.
  - apply limbs_ok_cons in Hb. destruct Hb as [Hy Hb].
    destruct a as [|x a].
    + cbn [and_ll val_limbs hd0 tl]. rewrite IH by (assumption || reflexivity).
      cbn [val_limbs]. rewrite N.land_0_r, !N.land_0_l. lia.
    + apply limbs_ok_cons in Ha. destruct Ha as [Hx Ha].
      cbn [and_ll val_limbs hd0 tl]. rewrite IH by assumption.
      rewrite land_split by assumption. rewrite (N.land_comm y x). reflexivity.
Qed.

Lemma and_ll_ok : forall b a, forallb limb_ok a = true -> forallb limb_ok b = true ->
  forallb limb_ok (and_ll a b) = true.
Proof.
  induction b as [|y b IH]; intros a Ha Hb; [reflexivity|].
  apply limbs_ok_cons in Hb. destruct Hb as [Hy Hb].
  cbn [and_ll forallb]. apply andb_true_iff. split.
  - unfold limb_ok. apply N.ltb_lt. rewrite W_pow in *.
    apply (bitop_small N.land andb N.land_spec eq_refl); [assumption|].
    destruct a as [|x a]; cbn [hd0]; [reflexivity|].
    apply limbs_ok_cons in Ha. rewrite <- W_pow. tauto.
  - apply IH; [|assumption]. destruct a; [reflexivity|]. apply limbs_ok_cons in Ha. tauto.
Qed.

Lemma and_ll_length : forall b a, length (and_ll a b) = length b.
Proof. induction b; intros; cbn [and_ll length]; congruence. Qed.

Lemma wf_Large : forall v, wf (Large v) = true -> v <> [] /\ forallb limb_ok v = true.
Proof.
  intros v H. cbn [wf] in H. apply andb_true_iff in H. destruct H as [H1 H2].
  split; [|assumption]. intro; subst. discriminate.
Qed.

Lemma wf_Small : forall n, wf (Small n) = true -> n < W.
Proof. intros n H. cbn [wf] in H. unfold limb_ok in H. lia. Qed.

Lemma and_spec_lemma : forall a b, wf a = true -> wf b = true ->
  exists r, bitwise_and a b = Ok r /\ wf r = true /\ val r = N.land (val a) (val b).
Proof.
  intros [x|v] [y|w] Ha Hb.
  - apply wf_Small in Ha, Hb. eexists; split; [reflexivity|]. split; [|reflexivity].
    cbn [wf]. unfold limb_ok. apply N.ltb_lt. rewrite W_pow in *.
    apply (bitop_small N.land andb N.land_spec eq_refl); assumption.
  - apply wf_Small in Ha. apply wf_Large in Hb. destruct Hb as [Hne Hb].
    destruct w as [|y w]; [congruence|]. apply limbs_ok_cons in Hb. destruct Hb as [Hy Hb].
    eexists; split; [reflexivity|]. split.
    + cbn [wf]. unfold limb_ok. apply N.ltb_lt. rewrite W_pow in *.
      apply (bitop_small N.land andb N.land_spec eq_refl); assumption.
    + cbn [val val_limbs].
      replace x with (x + W * 0) at 2 by lia.
      rewrite land_split by assumption. rewrite N.land_0_l. lia.
  - apply wf_Small in Hb. apply wf_Large in Ha. destruct Ha as [Hne Ha].
    destruct v as [|x v]; [congruence|]. apply limbs_ok_cons in Ha. destruct Ha as [Hx Ha].
    eexists; split; [reflexivity|]. split.
    + cbn [wf]. unfold limb_ok. apply N.ltb_lt. rewrite W_pow in *.
      apply (bitop_small N.land andb N.land_spec eq_refl); assumption.
    + cbn [val val_limbs].
      replace y with (y + W * 0) at 2 by lia.
      rewrite land_split by assumption. rewrite N.land_0_r. lia.
  - apply wf_Large in Ha, Hb. destruct Ha as [Hna Ha], Hb as [Hnb Hb].
    eexists; split; [reflexivity|]. split.
    + cbn [wf]. rewrite and_ll_length, and_ll_ok by assumption.
      destruct w; [congruence|reflexivity].
    + cbn [val]. apply and_ll_val; assumption.
Qed.

(* ------------------------------------------------------------------ *)
(* or / xor *)

Section ZipPad.
  Variable f : N -> N -> N.
  Variable fb : bool -> bool -> bool.
  Hypothesis f_spec : forall a b i, N.testbit (f a b) i = fb (N.testbit a i) (N.testbit b i).
  Hypothesis fb00 : fb false false = false.
  Hypothesis f_0_r : forall a, f a 0 = a.

  Lemma zip_pad_val : forall b a, forallb limb_ok a = true -> forallb limb_ok b = true ->
    val_limbs (zip_pad f a b) = f (val_limbs a) (val_limbs b).
  Proof.
    induction b as [|y b IH]; intros a Ha Hb.
    - cbn [zip_pad val_limbs]. rewrite f_0_r. reflexivity.
    - apply limbs_ok_cons in Hb. destruct Hb as [Hy Hb].
      destruct a as [|x a].
      + cbn [zip_pad val_limbs]. rewrite IH by (assumption || reflexivity).
        cbn [val_limbs].
        replace 0 with (0 + W * 0) at 3 by lia.
        rewrite (bitop_split f fb f_spec fb00) by (assumption || reflexivity). reflexivity.
      + apply limbs_ok_cons in Ha. destruct Ha as [Hx Ha].
        cbn [zip_pad val_limbs]. rewrite IH by assumption.
        rewrite (bitop_split f fb f_spec fb00) by assumption. reflexivity.
  Qed.

  Lemma zip_pad_ok : forall b a, forallb limb_ok a = true -> forallb limb_ok b = true ->
    forallb limb_ok (zip_pad f a b) = true.
  Proof.
    induction b as [|y b IH]; intros a Ha Hb; [assumption|].
    apply limbs_ok_cons in Hb. destruct Hb as [Hy Hb].
    destruct a as [|x a]; cbn [zip_pad forallb]; apply andb_true_iff; split.
    - unfold limb_ok. apply N.ltb_lt. rewrite W_pow in *.
      apply (bitop_small f fb f_spec fb00); [reflexivity|assumption].
    - apply IH; [reflexivity|assumption].
    - apply limbs_ok_cons in Ha. destruct Ha as [Hx Ha].
      unfold limb_ok. apply N.ltb_lt. rewrite W_pow in *.
      apply (bitop_small f fb f_spec fb00); assumption.
    - apply limbs_ok_cons in Ha. apply IH; tauto.
  Qed.

  Lemma zip_pad_nonempty : forall b a, a <> [] -> zip_pad f a b <> [].
  Proof.
    intros [|y b] [|x a] H; cbn [zip_pad]; congruence.
  Qed.

  Hypothesis f_comm : forall a b, f a b = f b a.

  Lemma bitwise_gen_spec : forall site a b, wf a = true -> wf b = true ->
    exists r, bitwise_gen f site a b = Ok r /\ wf r = true /\ val r = f (val a) (val b).
  Proof.
    intros site [x|v] [y|w] Ha Hb.
    - apply wf_Small in Ha, Hb. eexists; split; [reflexivity|]. split; [|reflexivity].
      cbn [wf]. unfold limb_ok. apply N.ltb_lt. rewrite W_pow in *.
      apply (bitop_small f fb f_spec fb00); assumption.
    - apply wf_Small in Ha. apply wf_Large in Hb. destruct Hb as [Hne Hb].
      destruct w as [|y w]; [congruence|]. apply limbs_ok_cons in Hb. destruct Hb as [Hy Hb].
      eexists; split; [reflexivity|]. split.
      + cbn [wf length Nat.eqb negb forallb andb]. rewrite Hb, andb_true_r.
        unfold limb_ok. apply N.ltb_lt. rewrite W_pow in *.
        apply (bitop_small f fb f_spec fb00); assumption.
      + cbn [val val_limbs].
        replace x with (x + W * 0) at 2 by lia.
        rewrite (bitop_split f fb f_spec fb00) by assumption.
        rewrite (f_comm 0), f_0_r, (f_comm y x). reflexivity.
    - apply wf_Small in Hb. apply wf_Large in Ha. destruct Ha as [Hne Ha].
      destruct v as [|x v]; [congruence|]. apply limbs_ok_cons in Ha. destruct Ha as [Hx Ha].
      eexists; split; [reflexivity|]. split.
      + cbn [wf length Nat.eqb negb forallb andb]. rewrite Ha, andb_true_r.
        unfold limb_ok. apply N.ltb_lt. rewrite W_pow in *.
        apply (bitop_small f fb f_spec fb00); assumption.
      + cbn [val val_limbs].
        replace y with (y + W * 0) at 2 by lia.
        rewrite (bitop_split f fb f_spec fb00) by assumption.
        rewrite f_0_r. reflexivity.
    - apply wf_Large in Ha, Hb. destruct Ha as [Hna Ha], Hb as [Hnb Hb].
      eexists; split; [reflexivity|]. split.
      + cbn [wf]. rewrite zip_pad_ok by assumption. rewrite andb_true_r.
        pose proof (zip_pad_nonempty w v Hna) as Hz.
        destruct (zip_pad f v w); [congruence|reflexivity].
      + cbn [val]. apply zip_pad_val; assumption.
  Qed.
End ZipPad.

Lemma or_spec_lemma : forall a b, wf a = true -> wf b = true ->
  exists r, bitwise_or a b = Ok r /\ wf r = true /\ val r = N.lor (val a) (val b).
Proof.
  apply (bitwise_gen_spec N.lor orb N.lor_spec eq_refl N.lor_0_r N.lor_comm).
Qed.

Lemma xor_spec_lemma : forall a b, wf a = true -> wf b = true ->
  exists r, bitwise_xor a b = Ok r /\ wf r = true /\ val r = N.lxor (val a) (val b).
Proof.
  apply (bitwise_gen_spec N.lxor xorb N.lxor_spec eq_refl N.lxor_0_r N.lxor_comm).
Qed.

(* ------------------------------------------------------------------ *)
(* one-bit shifts *)

Lemma lor_bit : forall a c, c <= 1 -> N.lor (2 * a) c = 2 * a + c.
Proof.
  intros a c Hc.
  assert (c = 0 \/ c = 1) as [->| ->] by lia.
  - rewrite N.lor_0_r. lia.
  - rewrite N.lor_comm. pose proof (add_is_lor 1 a 1 eq_refl) as H.
    rewrite N.shiftl_mul_pow2 in H. change (2 ^ 1) with 2 in H.
    rewrite (N.mul_comm a 2) in H. lia.
Qed.

Lemma dbl_mod_W : forall x, (2 * x) mod W = 2 * (x mod HALF).
Proof.
  intro x. rewrite W_HALF. rewrite N.mul_mod_distr_l by discriminate. reflexivity.
Qed.

Lemma dbl_split : forall x, 2 * x = (2 * x) mod W + W * (x / HALF).
Proof.
  intro x. rewrite dbl_mod_W, W_HALF.
  pose proof (N.div_mod x HALF ltac:(discriminate)). lia.
Qed.

Lemma div_HALF_lt2 : forall x, x < W -> x / HALF < 2.
Proof.
  intros x Hx. apply N.div_lt_upper_bound; [discriminate|]. rewrite W_HALF in Hx. lia.
Qed.

Definition top_clear (v : list N) : bool :=
  match last_opt v with Some t => t <? HALF | None => true end.

Lemma last_opt_cons : forall x y r, last_opt (x :: y :: r) = last_opt (y :: r).
Proof. reflexivity. Qed.

Lemma shl1_val : forall v c, forallb limb_ok v = true -> c <= 1 -> top_clear v = true ->
  v <> [] ->
  val_limbs (shl1 v c) = 2 * val_limbs v + c.
Proof.
  induction v as [|x r IH]; intros c Hok Hc Htop Hne; [congruence|].
  apply limbs_ok_cons in Hok. destruct Hok as [Hx Hok].
  cbn [shl1 val_limbs]. rewrite dbl_mod_W, lor_bit by assumption.
  destruct r as [|y r].
  - cbn [shl1 val_limbs]. unfold top_clear in Htop. cbn [last_opt] in Htop.
    rewrite N.mod_small by lia. lia.
  - rewrite IH; try assumption; try congruence.
    + pose proof (dbl_split x) as H. rewrite dbl_mod_W in H. lia.
    + assert (x / HALF < 2) by (apply N.div_lt_upper_bound; [discriminate|]; rewrite W_HALF in Hx; lia). lia.
Qed.

Lemma shl1_ok : forall v c, forallb limb_ok v = true -> c <= 1 ->
  forallb limb_ok (shl1 v c) = true.
Proof.
  induction v as [|x r IH]; intros c Hok Hc; [reflexivity|].
  apply limbs_ok_cons in Hok. destruct Hok as [Hx Hok].
  cbn [shl1 forallb]. apply andb_true_iff; split.
  - rewrite dbl_mod_W, lor_bit by assumption. unfold limb_ok. apply N.ltb_lt.
    pose proof (N.mod_lt x HALF ltac:(discriminate)). rewrite W_HALF. lia.
  - apply IH; [assumption|].
    assert (x / HALF < 2) by (apply N.div_lt_upper_bound; [discriminate|]; rewrite W_HALF in Hx; lia). lia.
Qed.

Lemma shl1_length : forall v c, length (shl1 v c) = length v.
Proof. induction v; intros; cbn [shl1 length]; congruence. Qed.

Lemma val_limbs_app0 : forall v, val_limbs (v ++ [0]) = val_limbs v.
Proof.
  induction v as [|x r IH]; cbn [app val_limbs]; [reflexivity|]. rewrite IH. reflexivity.
Qed.

Lemma last_opt_app : forall v t, last_opt (v ++ [t]) = Some t.
Proof.
  induction v as [|x r IH]; intro t; [reflexivity|].
  cbn [app]. destruct (r ++ [t]) eqn:E.
  - destruct r; discriminate.
  - rewrite <- E. cbn [last_opt]. rewrite E. rewrite <- E. apply IH.
Qed.

Lemma forallb_app0 : forall v, forallb limb_ok v = true -> forallb limb_ok (v ++ [0]) = true.
Proof.
  intros v H. rewrite forallb_app, H. reflexivity.
Qed.

Lemma land_pow2 : forall a n, N.land a (2 ^ n) = if N.testbit a n then 2 ^ n else 0.
Proof.
  intros a n. apply N.bits_inj; intro i.
  rewrite N.land_spec, N.pow2_bits_eqb.
  destruct (N.eqb_spec n i) as [->|Hne].
  - rewrite andb_true_r. destruct (N.testbit a i) eqn:E; [|rewrite N.bits_0; reflexivity].
    rewrite N.pow2_bits_true. reflexivity.
  - rewrite andb_false_r. destruct (N.testbit a n); [|rewrite N.bits_0; reflexivity].
    rewrite N.pow2_bits_false by assumption. reflexivity.
Qed.

Lemma land_HALF_zero : forall t, t < W -> N.land t HALF = 0 -> t < HALF.
Proof.
  intros t Ht H. rewrite HALF_pow, land_pow2 in H.
  destruct (N.testbit t 63) eqn:E; [discriminate|].
  pose proof (N.testbit_spec' t 63) as S. rewrite E in S. cbn [N.b2n] in S.
  rewrite <- HALF_pow in *.
  assert (Hq : t / HALF < 2) by (apply N.div_lt_upper_bound; [discriminate|]; rewrite W_HALF in Ht; lia).
  assert (Hz : t / HALF = 0).
  { remember (t / HALF) as q eqn:Eq. clear Eq.
    destruct (N.eq_dec q 0); [assumption|].
    assert (q = 1) as E1 by lia. rewrite E1 in S. discriminate. }
  apply N.div_small_iff in Hz; [assumption|discriminate].
Qed.

Lemma TOP2_lor : TOP2 = N.lor HALF (2 ^ 62). Proof. reflexivity. Qed.

Lemma lshift_spec : forall a, wf a = true ->
  exists r, lshift a = Ok r /\ wf r = true /\ val r = 2 * val a.
Proof.
  intros [n|v] Hwf.
  - apply wf_Small in Hwf. cbn [lshift].
    destruct (N.eqb_spec (N.land n TOP2) 0) as [E|E].
    + rewrite TOP2_lor, N.land_lor_distr_r in E. apply N.lor_eq_0_iff in E. destruct E as [E _].
      apply land_HALF_zero in E; [|assumption].
      eexists; split; [reflexivity|].
      rewrite N.mod_small by (rewrite W_HALF; lia). split; [|reflexivity].
      cbn [wf]. unfold limb_ok. rewrite W_HALF. lia.
    + eexists; split; [reflexivity|]. split.
      * cbn [wf length Nat.eqb negb forallb andb]. unfold limb_ok.
        pose proof (N.mod_lt (2 * n) W ltac:(discriminate)).
        pose proof (div_HALF_lt2 n Hwf) as Hq. remember (n / HALF) as q eqn:Eq. clear Eq.
        assert (2 < W) by reflexivity. lia.
      * cbn [val val_limbs]. pose proof (dbl_split n). lia.
  - apply wf_Large in Hwf. destruct Hwf as [Hne Hok]. cbn [lshift].
    destruct (last_opt v) as [t|] eqn:EL.
    2:{ exfalso. clear Hok. induction v as [|x r IH]; [congruence|].
        destruct r; [discriminate|]. rewrite last_opt_cons in EL. apply IH; congruence. }
    assert (Ht : t < W).
    { clear Hne. revert EL. induction v as [|x r IH]; intro EL; [discriminate|].
      apply limbs_ok_cons in Hok. destruct Hok as [Hx Hok].
      destruct r; [cbn [last_opt] in EL; congruence|]. rewrite last_opt_cons in EL. apply IH; assumption. }
    eexists; split; [reflexivity|].
    destruct (N.eqb_spec (N.land t HALF) 0) as [E|E].
    + apply land_HALF_zero in E; [|assumption].
      split.
      * cbn [wf]. rewrite shl1_length, shl1_ok by (assumption || lia).
        destruct v; [congruence|reflexivity].
      * cbn [val]. rewrite shl1_val; try assumption; try lia.
        unfold top_clear. rewrite EL. lia.
    + split.
      * cbn [wf]. rewrite shl1_length, shl1_ok by (try apply forallb_app0; assumption || lia).
        rewrite app_length. cbn [length]. rewrite Nat.add_comm. reflexivity.
      * cbn [val]. rewrite shl1_val; try lia.
        -- rewrite val_limbs_app0. lia.
        -- apply forallb_app0; assumption.
        -- unfold top_clear. rewrite last_opt_app. reflexivity.
        -- destruct v; discriminate.
Qed.

Lemma hd0_mod2 : forall r, val_limbs r mod 2 = hd0 r mod 2.
Proof.
  intros [|y r]; [reflexivity|]. cbn [val_limbs hd0].
  replace (y + W * val_limbs r) with (y + (HALF * val_limbs r) * 2) by (rewrite W_HALF; lia).
  rewrite N.mod_add by discriminate. reflexivity.
Qed.

Lemma shr_limb : forall x h, x < W ->
  N.lor (x / 2) ((h * HALF) mod W) = x / 2 + HALF * (h mod 2).
Proof.
  intros x h Hx.
  assert (E : (h * HALF) mod W = HALF * (h mod 2)).
  { rewrite W_HALF, (N.mul_comm h HALF), (N.mul_comm 2 HALF).
    rewrite N.mul_mod_distr_l by discriminate. reflexivity. }
  rewrite E, HALF_pow. rewrite (N.mul_comm (2 ^ 63)) at 1. rewrite <- N.shiftl_mul_pow2, <- add_is_lor.
  - reflexivity.
  - rewrite <- HALF_pow. apply N.div_lt_upper_bound; [discriminate|]. rewrite <- W_HALF. assumption.
Qed.

Lemma shr1_val : forall v, forallb limb_ok v = true -> val_limbs (shr1 v) = val_limbs v / 2.
Proof.
  induction v as [|x r IH]; intro Hok; [reflexivity|].
  apply limbs_ok_cons in Hok. destruct Hok as [Hx Hok].
  cbn [shr1 val_limbs]. rewrite IH, shr_limb by assumption.
  rewrite <- hd0_mod2.
  set (V := val_limbs r).
  rewrite W_HALF.
  replace (x + 2 * HALF * V) with (x + (HALF * V) * 2) by lia.
  rewrite N.div_add by discriminate.
  pose proof (N.div_mod V 2 ltac:(discriminate)). lia.
Qed.

Lemma shr1_ok : forall v, forallb limb_ok v = true -> forallb limb_ok (shr1 v) = true.
Proof.
  induction v as [|x r IH]; intro Hok; [reflexivity|].
  apply limbs_ok_cons in Hok. destruct Hok as [Hx Hok].
  cbn [shr1 forallb]. apply andb_true_iff; split; [|apply IH; assumption].
  rewrite shr_limb by assumption. unfold limb_ok. apply N.ltb_lt.
  assert (x / 2 < HALF) by (apply N.div_lt_upper_bound; [discriminate|]; rewrite <- W_HALF; assumption).
  pose proof (N.mod_lt (hd0 r) 2 ltac:(discriminate)).
  rewrite W_HALF. nia.
Qed.

Lemma shr1_length : forall v, length (shr1 v) = length v.
Proof. induction v; cbn [shr1 length]; congruence. Qed.

Lemma rshift_spec : forall a, wf a = true -> wf (rshift a) = true /\ val (rshift a) = val a / 2.
Proof.
  intros [n|v] Hwf.
  - apply wf_Small in Hwf. cbn [rshift wf val]. split; [|reflexivity].
    unfold limb_ok. apply N.ltb_lt.
    pose proof (N.div_le_upper_bound n 2 n ltac:(discriminate) ltac:(lia)). lia.
  - apply wf_Large in Hwf. destruct Hwf as [Hne Hok]. cbn [rshift wf val].
    rewrite shr1_length, shr1_ok, shr1_val by assumption.
    split; [|reflexivity]. destruct v; [congruence|reflexivity].
Qed.

Lemma rshift_size : forall a, length (make_large (rshift a)) = length (make_large a).
Proof. intros [n|v]; cbn [rshift make_large]; [reflexivity|apply shr1_length]. Qed.

(* ------------------------------------------------------------------ *)
(* is_zero *)

Lemma is_zero_val : forall a, wf a = true -> is_zero a = true <-> val a = 0.
Proof.
  intros [n|v] Hwf; cbn [is_zero val].
  - split; intro; lia.
  - apply wf_Large in Hwf. destruct Hwf as [_ Hok].
    induction v as [|x r IH]; [split; reflexivity|].
    apply limbs_ok_cons in Hok. destruct Hok as [Hx Hok].
    cbn [forallb val_limbs]. rewrite andb_true_iff, IH by assumption.
    split.
    { intro H. destruct H as [HA HB]. lia. }
    intro H.
    assert (x = 0 /\ W * val_limbs r = 0) as [HA HB] by lia.
    split; [lia|]. apply N.mul_eq_0 in HB. destruct HB; [discriminate|assumption].
Qed.

(* ------------------------------------------------------------------ *)
(* shifts by a big count *)

Lemma lshift_iter_spec : forall m a, wf a = true ->
  exists r, lshift_iter m a = Ok r /\ wf r = true /\ val r = 2 ^ m * val a.
Proof.
  intros m a Hwf. unfold lshift_iter.
  induction m as [|m IH] using N.peano_ind.
  - exists a. cbn [N.iter]. repeat split; [assumption|]. rewrite N.pow_0_r. lia.
  - rewrite N.iter_succ. destruct IH as [r [E [Hr Hv]]]. rewrite E. cbn [bind].
    destruct (lshift_spec r Hr) as [r' [E' [Hr' Hv']]].
    exists r'. repeat split; [assumption..|]. rewrite Hv', Hv, N.pow_succ_r'. lia.
Qed.

Lemma insert_zeros_val : forall k v,
  val_limbs (N.iter k (cons 0) v) = W ^ k * val_limbs v.
Proof.
  intros k v. induction k as [|k IH] using N.peano_ind.
  - cbn [N.iter]. rewrite N.pow_0_r. lia.
  - rewrite N.iter_succ. cbn [val_limbs]. rewrite IH, N.pow_succ_r'. lia.
Qed.

Lemma insert_zeros_ok : forall k v, forallb limb_ok v = true ->
  forallb limb_ok (N.iter k (cons 0) v) = true.
Proof.
  intros k v H. induction k as [|k IH] using N.peano_ind; [assumption|].
  rewrite N.iter_succ. cbn [forallb]. rewrite IH. reflexivity.
Qed.

Lemma insert_zeros_nonempty : forall k v, v <> [] -> N.iter k (cons 0) v <> [].
Proof.
  intros k v H. induction k as [|k IH] using N.peano_ind; [assumption|].
  rewrite N.iter_succ. discriminate.
Qed.

Lemma make_large_wf : forall a, wf a = true ->
  make_large a <> [] /\ forallb limb_ok (make_large a) = true /\ val_limbs (make_large a) = val a.
Proof.
  intros [n|v] H.
  - apply wf_Small in H. cbn [make_large val val_limbs forallb]. unfold limb_ok.
    split; [discriminate|]. split; lia.
  - apply wf_Large in H. cbn [make_large val]. tauto.
Qed.

Lemma shl_spec_lemma : forall a b n, wf a = true -> try_as_usize b = Ok n ->
  exists r, lshift_n a b = Ok r /\ wf r = true /\ val r = N.shiftl (val a) n.
Proof.
  intros a b n Hwf Hn. unfold lshift_n. rewrite Hn. cbn [bind].
  rewrite N.shiftl_mul_pow2.
  destruct (N.ltb_spec 64 n) as [Hbig|Hsmall].
  - destruct (make_large_wf a Hwf) as [Hne [Hok Hval]].
    set (v := N.iter (n / 64) (cons 0) (make_large a)).
    assert (Hv : wf (Large v) = true).
    { cbn [wf]. unfold v. rewrite insert_zeros_ok by assumption. rewrite andb_true_r.
      pose proof (insert_zeros_nonempty (n / 64) _ Hne) as Hz.
      destruct (N.iter (n / 64) (cons 0) (make_large a)); [congruence|reflexivity]. }
    destruct (lshift_iter_spec (n mod 64) _ Hv) as [r [E [Hr Hvr]]].
    exists r. repeat split; [assumption..|]. rewrite Hvr. cbn [val]. unfold v.
    rewrite insert_zeros_val, Hval, W_pow, <- N.pow_mul_r.
    rewrite (N.div_mod n 64) at 3 by discriminate.
    rewrite N.pow_add_r. lia.
  - destruct (lshift_iter_spec n a Hwf) as [r [E [Hr Hvr]]].
    exists r. repeat split; [assumption..|]. lia.
Qed.

Lemma shr_loop_spec : forall fuel n a, wf a = true -> val a < 2 ^ N.of_nat fuel ->
  wf (shr_loop (S fuel) n a) = true /\ val (shr_loop (S fuel) n a) = val a / 2 ^ n.
Proof.
  induction fuel as [|f IH]; intros n a Hwf Hlt.
  - cbn [N.of_nat] in Hlt. rewrite N.pow_0_r in Hlt.
    assert (Hz : val a = 0) by lia.
    cbn [shr_loop]. apply is_zero_val in Hz; [|assumption]. rewrite Hz, orb_true_r.
    apply is_zero_val in Hz; [|assumption]. rewrite Hz.
    split; [assumption|]. symmetry. apply N.div_0_l. apply N.pow_nonzero. discriminate.
  - remember (S f) as sf. cbn [shr_loop].
    destruct (N.eqb_spec n 0) as [->|Hn]; cbn [orb].
    + split; [assumption|]. rewrite N.pow_0_r, N.div_1_r. reflexivity.
    + destruct (is_zero a) eqn:Ez.
      * apply is_zero_val in Ez; [|assumption]. rewrite Ez. split; [assumption|].
        symmetry. apply N.div_0_l. apply N.pow_nonzero. discriminate.
      * destruct (rshift_spec a Hwf) as [Hw' Hv'].
        subst sf. destruct (IH (n - 1) (rshift a) Hw') as [HA HB].
        { rewrite Hv'. apply N.div_lt_upper_bound; [discriminate|].
          rewrite Nat2N.inj_succ, N.pow_succ_r' in Hlt. assumption. }
        split; [assumption|]. rewrite HB, Hv'.
        rewrite N.div_div by (try apply N.pow_nonzero; discriminate).
        replace n with (N.succ (n - 1)) at 2 by lia. rewrite N.pow_succ_r'. reflexivity.
Qed.

Lemma val_limbs_bound : forall v, forallb limb_ok v = true ->
  val_limbs v < W ^ N.of_nat (length v).
Proof.
  induction v as [|x r IH]; intro Hok.
  - cbn [val_limbs length N.of_nat]. rewrite N.pow_0_r. lia.
  - apply limbs_ok_cons in Hok. destruct Hok as [Hx Hok]. specialize (IH Hok).
    cbn [val_limbs length]. rewrite Nat2N.inj_succ, N.pow_succ_r'. nia.
Qed.

Lemma shr_spec_lemma : forall a b n, wf a = true -> try_as_usize b = Ok n ->
  exists r, rshift_n a b = Ok r /\ wf r = true /\ val r = N.shiftr (val a) n.
Proof.
  intros a b n Hwf Hn. unfold rshift_n. rewrite Hn. cbn [bind].
  eexists; split; [reflexivity|]. rewrite N.shiftr_div_pow2.
  apply shr_loop_spec; [assumption|].
  destruct (make_large_wf a Hwf) as [_ [Hok Hval]].
  rewrite <- Hval. pose proof (val_limbs_bound _ Hok) as Hb.
  rewrite W_pow, <- N.pow_mul_r in Hb.
  rewrite Nat2N.inj_mul. exact Hb.
Qed.

(* ------------------------------------------------------------------ *)
(* try_as_usize *)

Lemma rpos_none_val : forall v, rpos_nonzero v = None -> val_limbs v = 0.
Proof.
  induction v as [|x r IH]; intro H; [reflexivity|].
  cbn [rpos_nonzero] in H. destruct (rpos_nonzero r); [discriminate|].
  destruct (N.eqb_spec x 0) as [->|]; [|discriminate].
  cbn [val_limbs]. rewrite IH by reflexivity. lia.
Qed.

Lemma rpos_some_val : forall v i, rpos_nonzero v = Some i -> val_limbs v <> 0.
Proof.
  induction v as [|x r IH]; intros i H; [discriminate|].
  cbn [rpos_nonzero] in H. cbn [val_limbs].
  destruct (rpos_nonzero r) as [j|].
  - specialize (IH j eq_refl). assert (0 < W) by reflexivity. nia.
  - destruct (N.eqb_spec x 0); [discriminate|]. lia.
Qed.

Lemma try_as_usize_ok_val : forall b n, try_as_usize b = Ok n -> val b = n.
Proof.
  intros [m|v] n H; cbn [try_as_usize val] in *.
  - congruence.
  - destruct v as [|x r]; cbn [significant_len rpos_nonzero get0 hd0] in H.
    + cbn [Nat.eqb] in H. injection H as <-. reflexivity.
    + destruct (rpos_nonzero r) as [j|] eqn:Er.
      * cbn [Nat.eqb] in H. discriminate.
      * cbn [val_limbs]. rewrite (rpos_none_val r Er).
        destruct (x =? 0); cbn [Nat.eqb] in H; injection H as <-; lia.
Qed.

(* full strength: exactly the values below 2^64 are accepted, in whatever
   limb representation *)
Lemma try_as_usize_spec_lemma : forall b, wf b = true ->
  (val b < W -> try_as_usize b = Ok (val b)) /\
  (W <= val b -> try_as_usize b = Err EOutOfRange).
Proof.
  intros [n|v] Hwf.
  - apply wf_Small in Hwf. cbn [val try_as_usize]. split; [reflexivity|lia].
  - apply wf_Large in Hwf. destruct Hwf as [Hne Hok].
    destruct v as [|x r]; [congruence|].
    apply limbs_ok_cons in Hok. destruct Hok as [Hx Hok].
    cbn [val val_limbs try_as_usize significant_len rpos_nonzero get0 hd0].
    destruct (rpos_nonzero r) as [j|] eqn:Er.
    + pose proof (rpos_some_val r j Er) as Hnz. cbn [Nat.eqb].
      assert (0 < W) by reflexivity. split; [nia|reflexivity].
    + rewrite (rpos_none_val r Er).
      destruct (x =? 0); cbn [Nat.eqb]; (split; [intros _; f_equal; lia|lia]).
Qed.

(* hence shifts accept every count below 2^64 *)
Lemma shl_total_lemma : forall a b, wf a = true -> wf b = true -> val b < W ->
  exists r, lshift_n a b = Ok r /\ wf r = true /\ val r = N.shiftl (val a) (val b).
Proof.
  intros a b Wa Wb Hb. apply shl_spec_lemma; [assumption|].
  apply try_as_usize_spec_lemma; assumption.
Qed.

Lemma shr_total_lemma : forall a b, wf a = true -> wf b = true -> val b < W ->
  exists r, rshift_n a b = Ok r /\ wf r = true /\ val r = N.shiftr (val a) (val b).
Proof.
  intros a b Wa Wb Hb. apply shr_spec_lemma; [assumption|].
  apply try_as_usize_spec_lemma; assumption.
Qed.
