(* C10, text conversions: BigUint::to_words / convert_below_1000
   (core/src/num/biguint.rs), to_roman and the "roman", "char", "codepoint"
   branches of evaluate_as (core/src/ast.rs).  Strings are lists of Unicode
   scalar values.  The decimal rendering that to_words cuts into groups of
   three digits is taken at value level (base-1000 digits of the number; the
   decimal formatter itself belongs to property C02).  Also here: the
   independent parsers used as specifications (parse_words, roman_value).
   No proofs (see TextProofs.v).

   Panic sites: 8 SMALL_NUMBERS[num / 100], 9 SMALL_NUMBERS[remainder],
   10 TENS[remainder / 10], 11 SMALL_NUMBERS[remainder % 10].            *)
From FendV Require Import Base.Prelude.
Open Scope N_scope.

Definition str := list N.

Definition small_numbers : list str :=
  [B"zero"; B"one"; B"two"; B"three"; B"four"; B"five"; B"six"; B"seven"; B"eight"; B"nine";
   B"ten"; B"eleven"; B"twelve"; B"thirteen"; B"fourteen"; B"fifteen"; B"sixteen";
   B"seventeen"; B"eighteen"; B"nineteen"].

Definition tens : list str :=
  [[]; []; B"twenty"; B"thirty"; B"forty"; B"fifty"; B"sixty"; B"seventy"; B"eighty"; B"ninety"].

Definition scale_numbers : list str :=
  [[]; B"thousand"; B"million"; B"billion"; B"trillion"; B"quadrillion"; B"quintillion";
   B"sextillion"; B"septillion"; B"octillion"; B"nonillion"; B"decillion"; B"undecillion";
   B"duodecillion"; B"tredecillion"; B"quattuordecillion"; B"quindecillion"; B"sexdecillion";
   B"septendecillion"; B"octodecillion"; B"novemdecillion"; B"vigintillion"].

Definition idx (tbl : list str) (i : N) (site : N) : res str :=
  match nth_error tbl (N.to_nat i) with Some s => Ok s | None => Panic site end.

Definition convert_below_1000 (num : N) : res str :=
  do p1 <- (if 100 <=? num then
              do h <- idx small_numbers (num / 100) 8;
              Ok (h ++ B" hundred" ++ (if negb (num mod 100 =? 0) then B" and " else []))
            else Ok []);
  let remainder := num mod 100 in
  do p2 <- (if (remainder <? 20) && (0 <? remainder) then idx small_numbers remainder 9
            else if 20 <=? remainder then
              do t <- idx tens (remainder / 10) 10;
              if negb (remainder mod 10 =? 0) then
                do u <- idx small_numbers (remainder mod 10) 11; Ok (t ++ [45] ++ u)
              else Ok t
            else Ok []);
  Ok (p1 ++ p2).

(* groups of three decimal digits, least significant first; the top group is
   non-zero (the decimal string has no leading zeros) *)
Fixpoint chunks_fuel (fuel : nat) (n : N) : list N :=
  match fuel with
  | O => []
  | S f => if n =? 0 then [] else (n mod 1000) :: chunks_fuel f (n / 1000)
  end.

Definition chunks (n : N) : list N := chunks_fuel (N.to_nat (N.size n)) n.

Definition is_nil (s : str) : bool := match s with [] => true | _ => false end.

(* for (i, chunk) in chunks.iter().enumerate().rev(): the list is given most
   significant group first, the index of the head is the length of the rest *)
Fixpoint words_loop (cs : list N) (result : str) : res str :=
  match cs with
  | [] => Ok result
  | part :: rest =>
    let i := N.of_nat (length rest) in
    if part =? 0 then words_loop rest result
    else
      let result1 := if is_nil result then result else result ++ [32] in
      do w <- convert_below_1000 part;
      let result2 := result1 ++ w in
      if 0 <? i then
        match nth_error scale_numbers (N.to_nat i) with
        | Some sc => words_loop rest (result2 ++ [32] ++ sc)
        | None => Err EOutOfRange
        end
      else words_loop rest result2
  end.

Fixpoint drop_spaces (s : str) : str :=
  match s with
  | [] => []
  | c :: r => if c =? 32 then drop_spaces r else s
  end.

Definition trim (s : str) : str := rev (drop_spaces (rev (drop_spaces s))).

Definition to_words (n : N) : res str :=
  if n =? 0 then Ok B"zero"
  else do r <- words_loop (rev (chunks n)) []; Ok (trim r).

(* ---------------- specification side: a reader of number words ---------------- *)

Inductive tok := TNum (v : N) | THundred | TAnd | TScale (k : N).

Fixpoint tokenize (s : str) (cur : str) : list str :=
  match s with
  | [] => if is_nil cur then [] else [rev cur]
  | c :: r =>
    if (c =? 32) || (c =? 45) then
      (if is_nil cur then tokenize r [] else rev cur :: tokenize r [])
    else tokenize r (c :: cur)
  end.

Fixpoint index_of (w : str) (tbl : list str) (i : N) : option N :=
  match tbl with
  | [] => None
  | x :: r => if list_N_eqb w x then Some i else index_of w r (N.succ i)
  end.

Definition classify (w : str) : option tok :=
  if is_nil w then None
  else match index_of w small_numbers 0 with
  | Some v => Some (TNum v)
  | None =>
    match index_of w tens 0 with
    | Some t => Some (TNum (10 * t))
    | None =>
      if list_N_eqb w (B"hundred") then Some THundred
      else if list_N_eqb w (B"and") then Some TAnd
      else match index_of w scale_numbers 0 with
           | Some k => Some (TScale k)
           | None => None
           end
    end
  end.

Fixpoint classify_all (ws : list str) : option (list tok) :=
  match ws with
  | [] => Some []
  | w :: r => match classify w, classify_all r with
              | Some t, Some ts => Some (t :: ts)
              | _, _ => None
              end
  end.

Definition tok_step (st : N * N) (t : tok) : N * N :=
  let '(total, cur) := st in
  match t with
  | TNum v => (total, cur + v)
  | THundred => (total, cur * 100)
  | TAnd => (total, cur)
  | TScale k => (total + cur * 1000 ^ k, 0)
  end.

Definition eval_toks (ts : list tok) (st : N * N) : N * N := fold_left tok_step ts st.

Definition parse_words (s : str) : option N :=
  match classify_all (tokenize s []) with
  | Some ts => let '(total, cur) := eval_toks ts (0, 0) in Some (total + cur)
  | None => None
  end.

(* ---------------- roman numerals ---------------- *)

Definition roman_table : list (str * N) :=
  [(B"M", 1000); (B"CM", 900); (B"D", 500); (B"CD", 400); (B"C", 100); (B"XC", 90);
   (B"L", 50); (B"XL", 40); (B"X", 10); (B"IX", 9); (B"V", 5); (B"IV", 4); (B"I", 1)].

Definition overline (r : str) : str := flat_map (fun ch => [ch; 773]) r.  (* U+0305 *)

Definition repeat_str (q : N) (s : str) : str := N.iter q (app s) [].

(* for (r, n) in table: q = num / n; num -= q * n; q times push r *)
Fixpoint roman_pass (tbl : list (str * N)) (mult : N) (over : bool) (num : N) : str * N :=
  match tbl with
  | [] => ([], num)
  | (r, n0) :: rest =>
    let n := n0 * mult in
    let q := num / n in
    let num' := num - q * n in
    let sym := if over then overline r else r in
    let '(out, fin) := roman_pass rest mult over num' in
    (repeat_str q sym ++ out, fin)
  end.

Definition to_roman (num : N) (large : bool) : str :=
  let '(o1, num1) := if large then roman_pass (removelast roman_table) 1000 true num else ([], num) in
  let '(o2, _) := roman_pass roman_table 1 false num1 in
  o1 ++ o2.

(* evaluate_as "roman": RomanNumeralZero and OutOfRange -> EOutOfRange *)
Definition roman_of_usize (n : N) : res str :=
  if n =? 0 then Err EOutOfRange
  else if 1000000000 <? n then Err EOutOfRange
  else Ok (to_roman n true).

(* specification side: value of a numeral by the subtractive rule *)
Definition roman_char_value (c : N) : option N :=
  if c =? 73 then Some 1 else if c =? 86 then Some 5 else if c =? 88 then Some 10
  else if c =? 76 then Some 50 else if c =? 67 then Some 100 else if c =? 68 then Some 500
  else if c =? 77 then Some 1000 else None.

Fixpoint roman_symbols (s : str) : option (list N) :=
  match s with
  | [] => Some []
  | c :: r =>
    match roman_char_value c with
    | None => None
    | Some v =>
      match r with
      | [] => Some [v]
      | o :: r' =>
        if o =? 773 then option_map (cons (1000 * v)) (roman_symbols r')
        else option_map (cons v) (roman_symbols r)
      end
    end
  end.

Fixpoint roman_sum (vs : list N) : Z :=
  match vs with
  | [] => 0%Z
  | a :: r =>
    match r with
    | [] => Z.of_N a
    | b :: _ => if a <? b then (roman_sum r - Z.of_N a)%Z else (Z.of_N a + roman_sum r)%Z
    end
  end.

Definition roman_value (s : str) : option Z := option_map roman_sum (roman_symbols s).

(* ---------------- char / codepoint ---------------- *)

Definition is_scalar (c : N) : bool := (c <? 55296) || ((57343 <? c) && (c <? 1114112)).

(* n.try_into::<u32>().ok().and_then(char::from_u32).ok_or(InvalidCodepoint) *)
Definition char_of_usize (n : N) : res str :=
  if (n <? 4294967296) && is_scalar n then Ok [n] else Err EOutOfRange.

(* StringCannotBeEmpty / StringCannotBeLonger -> EOther *)
Definition codepoint_of (s : str) : res N :=
  match s with
  | [] => Err EOther
  | [c] => Ok c
  | _ => Err EOther
  end.
