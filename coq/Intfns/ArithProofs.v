(* Proofs about coq/Intfns/Arith.v: factorial, fibonacci, nCr, nPr, mod agree
   with their mathematical definitions, for all arguments; arguments outside
   the domain are errors. *)
From Coq Require Import Lia ZifyBool Factorial.
From FendV Require Import Base.Prelude Intfns.Limbs Intfns.LimbsProofs Intfns.Arith.
Open Scope N_scope.

Arguments N.add : simpl never.
Arguments N.sub : simpl never.
Arguments N.mul : simpl never.
Arguments N.div : simpl never.
Arguments N.modulo : simpl never.
Arguments N.eqb : simpl never.
Arguments N.ltb : simpl never.
Arguments N.leb : simpl never.
Arguments N.pow : simpl never.
Arguments N.gcd : simpl never.

(* ------------------------------------------------------------------ *)
(* canonical representation *)

Lemma limbs_fuel_spec : forall fuel n, n < 2 ^ N.of_nat fuel ->
  val_limbs (limbs_fuel fuel n) = n /\ forallb limb_ok (limbs_fuel fuel n) = true /\
  (n <> 0 -> limbs_fuel fuel n <> []).
Proof.
  induction fuel as [|f IH]; intros n Hn.
  - cbn [N.of_nat] in Hn. rewrite N.pow_0_r in Hn. assert (n = 0) as -> by lia.
    cbn [limbs_fuel val_limbs forallb]. repeat split. congruence.
  - cbn [limbs_fuel]. destruct (N.eqb_spec n 0) as [->|Hnz].
    + cbn [val_limbs forallb]. repeat split. congruence.
    + assert (Hd : n / W < 2 ^ N.of_nat f).
      { rewrite Nat2N.inj_succ, N.pow_succ_r' in Hn.
        apply N.div_lt_upper_bound; [discriminate|].
        assert (2 <= W) by discriminate.
        assert (0 < 2 ^ N.of_nat f) by (apply N.neq_0_lt_0, N.pow_nonzero; discriminate).
        nia. }
      destruct (IH _ Hd) as [Hv [Hok _]].
      cbn [val_limbs forallb]. rewrite Hv, Hok. repeat split.
      * pose proof (N.div_mod n W ltac:(discriminate)). lia.
      * rewrite andb_true_r. unfold limb_ok. apply N.ltb_lt. apply N.mod_lt. discriminate.
      * discriminate.
Qed.

Lemma of_N_spec : forall n, val (of_N n) = n /\ wf (of_N n) = true.
Proof.
  intro n. unfold of_N. destruct (N.ltb_spec n W) as [Hs|Hl].
  - cbn [val wf]. unfold limb_ok. split; [reflexivity|lia].
  - assert (Hb : n < 2 ^ N.of_nat (N.to_nat (N.size n))).
    { rewrite N2Nat.id. apply N.size_gt. }
    destruct (limbs_fuel_spec _ _ Hb) as [Hv [Hok Hne]].
    unfold limbs_of. cbn [val wf]. split; [assumption|].
    rewrite Hok, andb_true_r.
    assert (n <> 0) by (assert (0 < W) by reflexivity; lia).
    specialize (Hne H). destruct (limbs_fuel _ n); [congruence|reflexivity].
Qed.

Lemma val_of_N : forall n, val (of_N n) = n.
Proof. intro n. apply of_N_spec. Qed.
Lemma wf_of_N : forall n, wf (of_N n) = true.
Proof. intro n. apply of_N_spec. Qed.

Lemma div_repr_spec : forall a g, wf a = true -> g <> 0 ->
  val (div_repr a g) = val a / g /\ wf (div_repr a g) = true.
Proof.
  intros [n|v] g Hwf Hg.
  - apply wf_Small in Hwf. cbn [div_repr val wf]. split; [reflexivity|].
    unfold limb_ok. apply N.ltb_lt.
    pose proof (N.div_le_upper_bound n g n Hg ltac:(nia)). lia.
  - cbn [div_repr].
    destruct (N.eqb_spec g 1) as [->|H1]; [rewrite N.div_1_r; split; [reflexivity|assumption]|].
    destruct (is_zero (Large v)) eqn:Ez.
    { apply is_zero_val in Ez; [|assumption]. rewrite Ez, N.div_0_l by assumption. split; reflexivity. }
    destruct (N.ltb_spec (val (Large v)) g) as [Hlt|Hge].
    { rewrite N.div_small by assumption. split; reflexivity. }
    destruct (N.eqb_spec (val (Large v)) g) as [He|Hne].
    { rewrite He, N.div_same by assumption. split; reflexivity. }
    destruct (N.eqb_spec g 2) as [->|H2].
    { destruct (rshift_spec (Large v) Hwf) as [Hw Hv]. cbn [rshift] in Hw, Hv. split; assumption. }
    split; [apply val_of_N|apply wf_of_N].
Qed.

(* ------------------------------------------------------------------ *)
(* factorial *)

Lemma Nfact_0 : Nfact 0 = 1.
Proof. reflexivity. Qed.

Lemma Nfact_succ : forall n, Nfact (N.succ n) = N.succ n * Nfact n.
Proof. intro n. unfold Nfact. rewrite N.peano_rect_succ. reflexivity. Qed.

Lemma Nfact_pos : forall n, 0 < Nfact n.
Proof.
  induction n as [|n IH] using N.peano_ind; [reflexivity|]. rewrite Nfact_succ. nia.
Qed.

Lemma Nfact_nat : forall n, Nfact n = N.of_nat (fact (N.to_nat n)).
Proof.
  induction n as [|n IH] using N.peano_ind; [reflexivity|].
  rewrite Nfact_succ, N2Nat.inj_succ. cbn [fact].
  rewrite Nat2N.inj_mul, <- IH, Nat2N.inj_succ, N2Nat.id. reflexivity.
Qed.

(* invariant of the loop: res * k! is constant *)
Lemma fact_iter_inv : forall m res k,
  k <= m ->
  fst (N.iter m fact_step (res, k)) = res * Nfact k.
Proof.
  induction m as [|m IH] using N.peano_ind; intros res k Hk.
  - assert (k = 0) as -> by lia. cbn [N.iter fst]. rewrite Nfact_0. lia.
  - rewrite N.iter_succ_r. cbn [fact_step].
    destruct (N.ltb_spec 1 k) as [H1|H1].
    + rewrite IH by lia.
      replace k with (N.succ (k - 1)) at 3 by lia. rewrite Nfact_succ.
      replace (N.succ (k - 1)) with k by lia. lia.
    + assert (Hst : forall j, N.iter j fact_step (res, k) = (res, k)).
      { induction j as [|j IHj] using N.peano_ind; [reflexivity|].
        rewrite N.iter_succ, IHj. cbn [fact_step].
        destruct (N.ltb_spec 1 k); [lia|reflexivity]. }
      rewrite Hst. cbn [fst].
      assert (k = 0 \/ k = 1) as [->| ->] by lia; cbn; lia.
Qed.

Lemma fact_spec_lemma : forall n, factorial n = Nfact n.
Proof.
  intro n. unfold factorial. rewrite fact_iter_inv by lia. lia.
Qed.

(* ------------------------------------------------------------------ *)
(* fibonacci *)

Lemma fib_nat_SS : forall k, fib_nat (S (S k)) = fib_nat k + fib_nat (S k).
Proof. reflexivity. Qed.

Lemma fib_iter_inv : forall m,
  N.iter (N.of_nat m) fib_step (0, 1) = (fib_nat m, fib_nat (S m)).
Proof.
  induction m as [|m IH]; [reflexivity|].
  rewrite Nat2N.inj_succ, N.iter_succ, IH. cbn [fib_step]. rewrite fib_nat_SS. reflexivity.
Qed.

Lemma fib_spec_lemma : forall n, fibonacci n = fib_nat (N.to_nat n).
Proof.
  intro n. unfold fibonacci.
  destruct (N.eqb_spec n 0) as [->|H0]; [reflexivity|].
  destruct (N.eqb_spec n 1) as [->|H1]; [reflexivity|].
  replace (n - 1) with (N.of_nat (N.to_nat (n - 1))) by apply N2Nat.id.
  rewrite fib_iter_inv. cbn [snd]. f_equal. lia.
Qed.

(* ------------------------------------------------------------------ *)
(* binomial coefficients and falling factorials *)

Definition nfact (n : nat) : N := Nfact (N.of_nat n).

Lemma nfact_S : forall n, nfact (S n) = N.of_nat (S n) * nfact n.
Proof. intro n. unfold nfact. rewrite Nat2N.inj_succ, Nfact_succ. reflexivity. Qed.

Lemma nfact_pos : forall n, 0 < nfact n.
Proof. intro n. apply Nfact_pos. Qed.

Lemma binom_n_0 : forall n, binom n 0 = 1.
Proof. destruct n; reflexivity. Qed.

Lemma binom_gt : forall n k, (n < k)%nat -> binom n k = 0.
Proof.
  induction n as [|n IH]; intros k H; destruct k as [|k]; try lia; cbn [binom]; [reflexivity|].
  rewrite !IH by lia. reflexivity.
Qed.

Lemma binom_n_n : forall n, binom n n = 1.
Proof.
  induction n as [|n IH]; [reflexivity|]. cbn [binom]. rewrite IH, binom_gt by lia. reflexivity.
Qed.

(* C(n,k) * k! * (n-k)! = n! *)
Lemma binom_fact : forall n k, (k <= n)%nat ->
  binom n k * nfact k * nfact (n - k) = nfact n.
Proof.
  induction n as [|n IH]; intros k Hk.
  - assert (k = 0)%nat as -> by lia. reflexivity.
  - destruct k as [|k].
    + rewrite binom_n_0. cbn [Nat.sub]. unfold nfact at 1. cbn [N.of_nat]. rewrite Nfact_0. lia.
    + cbn [binom Nat.sub].
      destruct (Nat.eq_dec k n) as [->|Hne].
      * rewrite binom_n_n, binom_gt by lia. rewrite Nat.sub_diag.
        unfold nfact at 2. cbn [N.of_nat]. rewrite Nfact_0. lia.
      * assert (Hk1 : (k <= n)%nat) by lia. assert (Hk2 : (S k <= n)%nat) by lia.
        pose proof (IH k Hk1) as E1. pose proof (IH (S k) Hk2) as E2.
        replace (n - k)%nat with (S (n - S k)) in E1 |- * by lia.
        rewrite (nfact_S (n - S k)) in E1 |- *. rewrite (nfact_S k) in E2 |- *. rewrite (nfact_S n).
        replace (N.of_nat (S n)) with (N.of_nat (S k) + N.of_nat (S (n - S k))) by lia.
        set (a := N.of_nat (S k)) in *. set (b := N.of_nat (S (n - S k))) in *.
        set (X := binom n k) in *. set (Y := binom n (S k)) in *.
        set (F := nfact k) in *. set (G := nfact (n - S k)) in *.
        transitivity (a * (X * F * (b * G)) + b * (Y * (a * F) * G)); [lia|].
        rewrite E1, E2. lia.
Qed.

Fixpoint perm (n r : nat) : N :=
  match r with
  | O => 1
  | S r' => match n with O => 0 | S n' => N.of_nat n * perm n' r' end
  end.

Lemma perm_fact : forall n r, (r <= n)%nat -> perm n r * nfact (n - r) = nfact n.
Proof.
  induction n as [|n IH]; intros r Hr.
  - assert (r = 0)%nat as -> by lia. reflexivity.
  - destruct r as [|r].
    + cbn [perm Nat.sub]. lia.
    + cbn [perm Nat.sub]. rewrite nfact_S. rewrite <- (IH r) by lia. lia.
Qed.

(* ------------------------------------------------------------------ *)
(* rationals that denote a natural number *)

Definition rat_repr (q : brat) (n : N) : Prop :=
  rat_wf q = true /\ nval q = n * dval q /\ (rneg q = false \/ n = 0).

Lemma rat_wf_parts : forall q, rat_wf q = true ->
  wf (rnum q) = true /\ wf (rden q) = true /\ dval q <> 0.
Proof.
  intros q H. unfold rat_wf in H. apply andb_true_iff in H. destruct H as [H H3].
  apply andb_true_iff in H. destruct H as [H1 H2]. repeat split; try assumption. lia.
Qed.

Lemma gcd_mul_self : forall n d, N.gcd (n * d) d = d.
Proof.
  intros n d. rewrite N.gcd_comm. apply N.gcd_unique.
  - lia.
  - apply N.divide_refl.
  - apply N.divide_factor_r.
  - intros q H _. assumption.
Qed.

Lemma simplify_repr : forall q n, rat_repr q n ->
  exists s, simplify q = Ok s /\ dval s = 1 /\ nval s = n /\ rneg s = rneg q /\ wf (rnum s) = true.
Proof.
  intros q n [Hwf [Hn Hs]]. apply rat_wf_parts in Hwf. destruct Hwf as [W1 [W2 Hd]].
  unfold simplify. destruct (N.eqb_spec (dval q) 1) as [E|E].
  - exists q. repeat split; try assumption. rewrite Hn, E. lia.
  - rewrite Hn, gcd_mul_self.
    destruct (N.eqb_spec (dval q) 0) as [E0|E0]; [contradiction|].
    destruct (div_repr_spec (rnum q) (dval q) W1 E0) as [Vn Wn].
    destruct (div_repr_spec (rden q) (dval q) W2 E0) as [Vd _].
    eexists; split; [reflexivity|].
    unfold dval at 1, nval at 1. cbn [rden rnum rneg]. rewrite Vn, Vd, Wn.
    fold (nval q) (dval q). rewrite Hn, N.div_same, N.div_mul by assumption. repeat split.
Qed.

Lemma apply_uint_op_repr : forall (R : Type) q n (f : buint -> res R), rat_repr q n ->
  exists u, apply_uint_op q f = f u /\ val u = n /\ wf u = true.
Proof.
  intros R q n f H. destruct (simplify_repr q n H) as [s [E [Hd [Hn [Hsg Hw]]]]].
  unfold apply_uint_op. rewrite E. cbn [bind]. rewrite Hd. cbn [N.eqb negb].
  change (1 =? 1) with true. cbn [negb].
  destruct H as [_ [_ Hs]].
  assert (rneg s && negb (nval s =? 0) = false) as ->.
  { rewrite Hsg, Hn. destruct Hs as [->| ->]; [reflexivity|]. rewrite andb_false_r. reflexivity. }
  exists (rnum s). repeat split; assumption.
Qed.

Lemma rat_of_N_repr : forall n, rat_repr (rat_of_N n) n.
Proof.
  intro n. unfold rat_repr, rat_of_N, rat_wf, nval, dval. cbn [rnum rden rneg].
  rewrite val_of_N, wf_of_N. cbn [val wf]. repeat split; try lia; left; reflexivity.
Qed.

Lemma q_factorial_repr : forall q n, rat_repr q n ->
  q_factorial q = Ok (rat_of_N (Nfact n)).
Proof.
  intros q n H. unfold q_factorial.
  destruct (apply_uint_op_repr N q n (fun n => Ok (factorial (val n))) H) as [u [E [Hv _]]].
  rewrite E, Hv, fact_spec_lemma. reflexivity.
Qed.

(* n - r for naturals r <= n, through add_internal *)
Lemma mul_div_exact : forall k d g, g <> 0 -> N.divide g d -> k * d / g = k * (d / g).
Proof. intros k d g Hg Hd. apply N.divide_div_mul_exact; assumption. Qed.

Lemma rat_sub_repr : forall a b n r, rat_repr a n -> rat_repr b r -> r <= n ->
  rat_repr (rat_add a (rat_neg b)) (n - r).
Proof.
  intros a b n r [Wa [Na Sa]] [Wb [Nb Sb]] Hle.
  pose proof (rat_wf_parts a Wa) as [Wa1 [Wa2 Da]].
  pose proof (rat_wf_parts b Wb) as [Wb1 [Wb2 Db]].
  (* a negative zero as first operand is possible only for n = 0, hence r = 0 *)
  assert (Hcases : rneg a = false \/ (rneg a = true /\ n = 0 /\ r = 0)).
  { destruct (rneg a) eqn:E; [right|left; reflexivity]. destruct Sa as [Sa|Sa]; [discriminate|]. lia. }
  unfold rat_add.
  destruct Hcases as [Ea|[Ea [-> ->]]].
  - rewrite Ea. unfold add_pos.
    change (nval (rat_neg b)) with (nval b). change (dval (rat_neg b)) with (dval b).
    change (rneg (rat_neg b)) with (negb (rneg b)).
    destruct (N.eqb_spec (dval a) (dval b)) as [Ed|Ed].
    + (* same denominator *)
      rewrite Na, Nb, <- Ed.
      assert (Hlt : (n * dval a <? r * dval a) = false) by (apply N.ltb_ge; nia).
      rewrite Hlt, andb_false_r.
      unfold rat_repr, rat_wf, nval, dval. cbn [rnum rden rneg].
      rewrite val_of_N, wf_of_N. fold (dval a). rewrite Wa2.
      assert (Hd : (dval a =? 0) = false) by lia. rewrite Hd.
      repeat split; [|left; reflexivity].
      destruct (rneg b); cbn [negb].
      * destruct Sb as [Sb|Sb]; [discriminate|]. subst r. lia.
      * nia.
    + set (g := N.gcd (dval a) (dval b)).
      assert (Hg : g <> 0) by (unfold g; intro H0; apply N.gcd_eq_0_l in H0; contradiction).
      assert (Hga : N.divide g (dval a)) by apply N.gcd_divide_l.
      assert (Hgb : N.divide g (dval b)) by apply N.gcd_divide_r.
      rewrite Na, Nb.
      set (nd := dval a * dval b / g).
      assert (Ex : n * dval a * dval b / g = n * nd).
      { unfold nd. rewrite <- N.mul_assoc. apply mul_div_exact; [assumption|].
        apply N.divide_mul_l; assumption. }
      assert (Ey : r * dval b * dval a / g = r * nd).
      { unfold nd. rewrite <- N.mul_assoc, (N.mul_comm (dval b)). apply mul_div_exact; [assumption|].
        apply N.divide_mul_l; assumption. }
      rewrite Ex, Ey.
      assert (Hnd : nd <> 0).
      { unfold nd. destruct Hga as [ka Ka]. rewrite Ka at 1.
        rewrite (N.mul_comm ka g), <- N.mul_assoc, (N.mul_comm g), N.div_mul by assumption.
        assert (ka <> 0) by (intro; subst ka; lia). nia. }
      assert (Hlt : (n * nd <? r * nd) = false) by (apply N.ltb_ge; nia).
      rewrite Hlt, andb_false_r.
      unfold rat_repr, rat_wf, nval, dval. cbn [rnum rden rneg].
      rewrite !val_of_N, !wf_of_N.
      assert (Hd : (nd =? 0) = false) by lia. rewrite Hd.
      repeat split; [|left; reflexivity].
      destruct (rneg b); cbn [negb].
      * destruct Sb as [Sb|Sb]; [discriminate|]. subst r. lia.
      * nia.
  - (* -0 + -(b) with b = 0: still zero *)
    rewrite Ea. assert (Nb0 : nval b = 0) by lia. assert (Na0 : nval a = 0) by lia.
    unfold add_pos.
    change (nval (rat_neg a)) with (nval a). change (dval (rat_neg a)) with (dval a).
    change (nval (rat_neg (rat_neg b))) with (nval b). change (dval (rat_neg (rat_neg b))) with (dval b).
    rewrite Na0, Nb0. cbn [N.ltb].
    change (0 <? 0) with false. rewrite andb_false_r.
    destruct (N.eqb_spec (dval a) (dval b)) as [Ed|Ed].
    + unfold rat_repr, rat_neg, rat_wf, nval, dval. cbn [rnum rden rneg].
      rewrite wf_of_N, val_of_N. fold (dval a). rewrite Wa2.
      assert (Hd : (dval a =? 0) = false) by lia. rewrite Hd.
      repeat split; [|right; reflexivity].
      destruct (rneg b); cbn [negb]; rewrite ?N.sub_diag, ?N.add_0_l, ?N.mul_0_l; reflexivity.
    + set (g := N.gcd (dval a) (dval b)).
      assert (Hg : g <> 0) by (unfold g; intro H0; apply N.gcd_eq_0_l in H0; contradiction).
      assert (Hga : N.divide g (dval a)) by apply N.gcd_divide_l.
      set (nd := dval a * dval b / g).
      assert (Hnd : nd <> 0).
      { unfold nd. destruct Hga as [ka Ka]. rewrite Ka at 1.
        rewrite (N.mul_comm ka g), <- N.mul_assoc, (N.mul_comm g), N.div_mul by assumption.
        assert (ka <> 0) by (intro; subst ka; lia). nia. }
      rewrite !N.mul_0_l, N.div_0_l by assumption.
      change (0 <? 0) with false. rewrite andb_false_r.
      unfold rat_repr, rat_neg, rat_wf, nval, dval. cbn [rnum rden rneg].
      rewrite !wf_of_N, !val_of_N.
      assert (Hd : (nd =? 0) = false) by lia. rewrite Hd.
      repeat split; [|right; reflexivity].
      destruct (rneg b); cbn [negb]; rewrite ?N.sub_diag, ?N.add_0_l, ?N.mul_0_l; reflexivity.
Qed.

Lemma ncr_spec_lemma : forall a b n r, rat_repr a (N.of_nat n) -> rat_repr b (N.of_nat r) ->
  (r <= n)%nat ->
  exists q, q_combination a b = Ok q /\ rneg q = false /\ dval q <> 0 /\
            nval q = binom n r * dval q.
Proof.
  intros a b n r Ha Hb Hle.
  unfold q_combination.
  rewrite (q_factorial_repr a _ Ha). cbn [bind].
  rewrite (q_factorial_repr b _ Hb). cbn [bind].
  assert (Hs : rat_repr (rat_add a (rat_neg b)) (N.of_nat (n - r))).
  { rewrite Nat2N.inj_sub. apply rat_sub_repr; try assumption. lia. }
  rewrite (q_factorial_repr _ _ Hs). cbn [bind].
  unfold rat_div, rat_mul, rat_of_N, nval, dval. cbn [rnum rden rneg val].
  rewrite !val_of_N. cbn [val].
  fold (nfact n) (nfact r) (nfact (n - r)).
  pose proof (nfact_pos r). pose proof (nfact_pos (n - r)).
  destruct (N.eqb_spec (nfact r * nfact (n - r)) 0) as [E|E]; [nia|].
  eexists; split; [reflexivity|]. cbn [rnum rden rneg]. rewrite !val_of_N. cbn [val].
  repeat split; [lia|].
  rewrite <- (binom_fact n r Hle). lia.
Qed.

Lemma npr_spec_lemma : forall a b n r, rat_repr a (N.of_nat n) -> rat_repr b (N.of_nat r) ->
  (r <= n)%nat ->
  exists q, q_permutation a b = Ok q /\ rneg q = false /\ dval q <> 0 /\
            nval q = perm n r * dval q.
Proof.
  intros a b n r Ha Hb Hle.
  unfold q_permutation.
  rewrite (q_factorial_repr a _ Ha). cbn [bind].
  destruct (apply_uint_op_repr unit b _ (fun _ => Ok tt) Hb) as [u [Eu _]]. rewrite Eu. cbn [bind].
  assert (Hs : rat_repr (rat_add a (rat_neg b)) (N.of_nat (n - r))).
  { rewrite Nat2N.inj_sub. apply rat_sub_repr; try assumption. lia. }
  rewrite (q_factorial_repr _ _ Hs). cbn [bind].
  unfold rat_div, rat_of_N, nval, dval. cbn [rnum rden rneg val].
  rewrite !val_of_N.
  fold (nfact n) (nfact (n - r)).
  pose proof (nfact_pos (n - r)).
  destruct (N.eqb_spec (nfact (n - r)) 0) as [E|E]; [lia|].
  eexists; split; [reflexivity|]. cbn [rnum rden rneg]. rewrite !val_of_N. cbn [val].
  repeat split; [lia|].
  rewrite <- (perm_fact n r Hle). lia.
Qed.

Lemma mod_spec_lemma : forall a b n m, rat_repr a n -> rat_repr b m -> m <> 0 ->
  exists q, q_modulo a b = Ok q /\ rneg q = false /\ dval q = 1 /\ nval q = n mod m.
Proof.
  intros a b n m Ha Hb Hm.
  destruct (simplify_repr a n Ha) as [sa [Ea [Da [Na [Sa _]]]]].
  destruct (simplify_repr b m Hb) as [sb [Eb [Db [Nb [Sb _]]]]].
  destruct Ha as [Wa [Na' Sa']]. destruct Hb as [Wb [Nb' Sb']].
  apply rat_wf_parts in Wb. destruct Wb as [_ [_ Dbz]].
  unfold q_modulo.
  destruct (N.eqb_spec (nval b) 0) as [E|E]; [nia|].
  rewrite Ea, Eb. cbn [bind]. rewrite Da, Db, Na, Nb, Sa, Sb.
  change (1 =? 1) with true. cbn [negb orb].
  assert (rneg b = false) as -> by (destruct Sb' as [H|H]; [assumption|contradiction]).
  assert (rneg a && negb (n =? 0) = false) as ->.
  { destruct Sa' as [->| ->]; [reflexivity|]. rewrite andb_false_r. reflexivity. }
  cbn [orb]. eexists; split; [reflexivity|].
  unfold nval, dval. cbn [rnum rden rneg val]. rewrite val_of_N. repeat split.
Qed.

(* ------------------------------------------------------------------ *)
(* domain errors *)

Definition is_err {A} (r : res A) : Prop := exists e, r = Err e.

Definition denotes_nat (q : brat) : Prop :=
  N.divide (dval q) (nval q) /\ (rneg q = false \/ nval q = 0).

Lemma simplify_ok : forall q, rat_wf q = true ->
  exists s, simplify q = Ok s /\ rneg s = rneg q /\
            nval s * dval q = nval q * dval s /\ dval s <> 0 /\
            (dval s = 1 <-> N.divide (dval q) (nval q)).
Proof.
  intros q Hwf. apply rat_wf_parts in Hwf. destruct Hwf as [W1 [W2 Hd]].
  unfold simplify. destruct (N.eqb_spec (dval q) 1) as [E|E].
  - exists q. repeat split; try lia. intros _. rewrite E. apply N.divide_1_l.
  - set (g := N.gcd (nval q) (dval q)).
    assert (Hg : g <> 0) by (unfold g; intro H0; apply N.gcd_eq_0_r in H0; contradiction).
    destruct (N.eqb_spec g 0) as [E0|_]; [contradiction|].
    destruct (N.gcd_divide_l (nval q) (dval q)) as [kn Kn].
    destruct (N.gcd_divide_r (nval q) (dval q)) as [kd Kd].
    fold g in Kn, Kd.
    assert (En : nval q / g = kn) by (rewrite Kn; apply N.div_mul; assumption).
    assert (Ed : dval q / g = kd) by (rewrite Kd; apply N.div_mul; assumption).
    assert (kd <> 0) by (intro; subst kd; lia).
    eexists; split; [reflexivity|].
    set (s := mkrat _ _ _).
    destruct (div_repr_spec (rnum q) g W1 Hg) as [Vn _].
    destruct (div_repr_spec (rden q) g W2 Hg) as [Vd _].
    assert (Ns : nval s = kn) by (unfold s, nval at 1; cbn [rnum]; rewrite Vn; exact En).
    assert (Ds : dval s = kd) by (unfold s, dval at 1; cbn [rden]; rewrite Vd; exact Ed).
    rewrite Ns, Ds.
    repeat split; try assumption; try reflexivity.
    + rewrite Kn, Kd. lia.
    + intro K1. rewrite Kd, K1, N.mul_1_l. unfold g. apply N.gcd_divide_l.
    + intro Hdiv. assert (Hgd : g = dval q).
      { unfold g. apply N.divide_gcd_iff' in Hdiv. rewrite N.gcd_comm. assumption. }
      rewrite <- Hgd in Kd. nia.
Qed.

Lemma apply_uint_op_domain : forall (R : Type) q (f : buint -> res R), rat_wf q = true ->
  ~ denotes_nat q -> is_err (apply_uint_op q f).
Proof.
  intros R q f Hwf Hbad.
  destruct (simplify_ok q Hwf) as [s [E [Hs [Hv [Hd Hiff]]]]].
  unfold apply_uint_op. rewrite E. cbn [bind].
  destruct (N.eqb_spec (dval s) 1) as [D1|D1]; cbn [negb]; [|eexists; reflexivity].
  destruct (rneg s && negb (nval s =? 0)) eqn:Eg; [eexists; reflexivity|].
  exfalso. apply Hbad. split; [apply Hiff; assumption|].
  rewrite Hs in Eg. destruct (rneg q); [right|left; reflexivity].
  cbn [andb] in Eg. apply negb_false_iff in Eg. apply N.eqb_eq in Eg.
  rewrite Eg, D1 in Hv. lia.
Qed.

Lemma try_as_biguint_domain : forall q, rat_wf q = true ->
  ~ denotes_nat q -> is_err (q_try_as_biguint q).
Proof.
  intros q Hwf Hbad. unfold q_try_as_biguint.
  destruct (rneg q && negb (nval q =? 0)) eqn:Eg; [eexists; reflexivity|].
  destruct (simplify_ok q Hwf) as [s [E [Hs [Hv [Hd Hiff]]]]].
  rewrite E. cbn [bind].
  destruct (N.eqb_spec (dval s) 1) as [D1|D1]; cbn [negb]; [|eexists; reflexivity].
  exfalso. apply Hbad. split; [apply Hiff; assumption|].
  destruct (rneg q); [right|left; reflexivity].
  cbn [andb] in Eg. apply negb_false_iff in Eg. apply N.eqb_eq in Eg. assumption.
Qed.

Lemma bind_err : forall {X Y} (r : res X) (f : X -> res Y), is_err r -> is_err (bind r f).
Proof. intros X Y r f [e ->]. exists e. reflexivity. Qed.

Lemma q_factorial_domain : forall q, rat_wf q = true -> ~ denotes_nat q -> is_err (q_factorial q).
Proof. intros. apply bind_err, apply_uint_op_domain; assumption. Qed.

Lemma q_try_as_usize_domain : forall q, rat_wf q = true -> ~ denotes_nat q -> is_err (q_try_as_usize q).
Proof. intros. apply bind_err, try_as_biguint_domain; assumption. Qed.

Lemma q_bitwise_domain : forall op a b, rat_wf a = true -> rat_wf b = true ->
  ~ denotes_nat a \/ ~ denotes_nat b -> is_err (q_bitwise op a b).
Proof.
  intros op a b Wa Wb Hbad. unfold q_bitwise. apply bind_err.
  destruct Hbad as [Hbad|Hbad].
  - apply apply_uint_op_domain; assumption.
  - destruct (simplify_ok a Wa) as [s [E _]].
    unfold apply_uint_op at 1. rewrite E. cbn [bind].
    destruct (negb (dval s =? 1)); [eexists; reflexivity|].
    destruct (rneg s && negb (nval s =? 0)); [eexists; reflexivity|].
    apply bind_err. apply apply_uint_op_domain; assumption.
Qed.

Lemma q_modulo_domain : forall a b, rat_wf a = true -> rat_wf b = true ->
  ~ denotes_nat a \/ ~ denotes_nat b \/ nval b = 0 \/ rneg b = true -> is_err (q_modulo a b).
Proof.
  intros a b Wa Wb Hbad. unfold q_modulo.
  destruct (N.eqb_spec (nval b) 0) as [Eb0|Eb0]; [eexists; reflexivity|].
  destruct (simplify_ok a Wa) as [sa [Ea [Hsa [Hva [Hda Hiffa]]]]].
  destruct (simplify_ok b Wb) as [sb [Eb [Hsb [Hvb [Hdb Hiffb]]]]].
  rewrite Ea, Eb. cbn [bind].
  destruct ((rneg sa && negb (nval sa =? 0)) || rneg sb || negb (dval sa =? 1) || negb (dval sb =? 1)) eqn:Eg;
    [eexists; reflexivity|].
  exfalso.
  apply orb_false_iff in Eg. destruct Eg as [Eg G4].
  apply orb_false_iff in Eg. destruct Eg as [Eg G3].
  apply orb_false_iff in Eg. destruct Eg as [G1 G2].
  apply negb_false_iff, N.eqb_eq in G3, G4.
  destruct Hbad as [Hbad|[Hbad|[Hbad|Hbad]]].
  - apply Hbad. split; [apply Hiffa; assumption|].
    rewrite Hsa in G1. destruct (rneg a); [right|left; reflexivity].
    cbn [andb] in G1. apply negb_false_iff, N.eqb_eq in G1. rewrite G1, G3 in Hva. lia.
  - apply Hbad. split; [apply Hiffb; assumption|]. left. congruence.
  - contradiction.
  - congruence.
Qed.

Lemma q_combination_domain : forall a b, rat_wf a = true -> rat_wf b = true ->
  ~ denotes_nat a \/ ~ denotes_nat b -> is_err (q_combination a b).
Proof.
  intros a b Wa Wb [Hbad|Hbad]; unfold q_combination.
  - apply bind_err, q_factorial_domain; assumption.
  - destruct (q_factorial a) as [x|e|k] eqn:E; cbn [bind]; [|eexists; reflexivity|].
    + apply bind_err, q_factorial_domain; assumption.
    + exfalso. unfold q_factorial, apply_uint_op in E.
      destruct (simplify_ok a Wa) as [s [Es _]]. rewrite Es in E. cbn [bind] in E.
      destruct (negb (dval s =? 1)); [discriminate|].
      destruct (rneg s && negb (nval s =? 0)); discriminate.
Qed.

Lemma q_factorial_no_panic : forall q, rat_wf q = true -> forall k, q_factorial q <> Panic k.
Proof.
  intros q Wq k E. unfold q_factorial, apply_uint_op in E.
  destruct (simplify_ok q Wq) as [s [Es _]]. rewrite Es in E. cbn [bind] in E.
  destruct (negb (dval s =? 1)); [discriminate|].
  destruct (rneg s && negb (nval s =? 0)); discriminate.
Qed.

Lemma q_permutation_domain : forall a b, rat_wf a = true -> rat_wf b = true ->
  ~ denotes_nat a \/ ~ denotes_nat b -> is_err (q_permutation a b).
Proof.
  intros a b Wa Wb [Hbad|Hbad]; unfold q_permutation.
  - apply bind_err, q_factorial_domain; assumption.
  - destruct (q_factorial a) as [x|e|k] eqn:E; cbn [bind]; [|eexists; reflexivity|].
    + apply bind_err, apply_uint_op_domain; assumption.
    + exfalso. exact (q_factorial_no_panic a Wa k E).
Qed.

Lemma q_permutation_old_domain : forall a b, rat_wf a = true -> rat_wf b = true ->
  ~ denotes_nat a -> is_err (q_permutation_old a b).
Proof.
  intros a b Wa Wb Hbad. unfold q_permutation_old. apply bind_err, q_factorial_domain; assumption.
Qed.

(* r > n: n - r is negative, its factorial is out of range *)
Lemma rat_sub_negative : forall a b n r, rat_repr a n -> rat_repr b r -> n < r ->
  rat_wf (rat_add a (rat_neg b)) = true /\ ~ denotes_nat (rat_add a (rat_neg b)).
Proof.
  intros a b n r [Wa [Na Sa]] [Wb [Nb Sb]] Hlt.
  pose proof (rat_wf_parts a Wa) as [Wa1 [Wa2 Da]].
  pose proof (rat_wf_parts b Wb) as [Wb1 [Wb2 Db]].
  assert (Eb : rneg b = false) by (destruct Sb as [H|H]; [assumption|lia]).
  assert (Hnot : forall q, rneg q = true -> nval q <> 0 -> ~ denotes_nat q).
  { intros q H1 H2 [_ [H|H]]; congruence. }
  unfold rat_add. destruct (rneg a) eqn:Ea.
  - (* a = -0 *)
    destruct Sa as [Sa|Sa]; [discriminate|]. subst n.
    assert (Na0 : nval a = 0) by lia.
    unfold add_pos.
    change (nval (rat_neg a)) with (nval a). change (dval (rat_neg a)) with (dval a).
    change (nval (rat_neg (rat_neg b))) with (nval b). change (dval (rat_neg (rat_neg b))) with (dval b).
    change (rneg (rat_neg (rat_neg b))) with (negb (negb (rneg b))). rewrite Eb. cbn [negb andb].
    rewrite Na0.
    destruct (N.eqb_spec (dval a) (dval b)) as [Ed|Ed].
    + unfold rat_neg, rat_wf, nval, dval. cbn [rnum rden rneg negb].
      rewrite wf_of_N, ?val_of_N. fold (dval a) (nval b). rewrite Wa2.
      assert (Hd : (dval a =? 0) = false) by lia. rewrite Hd. split; [reflexivity|].
      apply Hnot; [reflexivity|]. unfold nval. cbn [rnum]. rewrite val_of_N. fold (nval b). nia.
    + set (g := N.gcd (dval a) (dval b)).
      assert (Hg : g <> 0) by (unfold g; intro H0; apply N.gcd_eq_0_l in H0; contradiction).
      assert (Hga : N.divide g (dval a)) by apply N.gcd_divide_l.
      set (nd := dval a * dval b / g).
      assert (Hnd : nd <> 0).
      { unfold nd. destruct Hga as [ka Ka]. rewrite Ka at 1.
        rewrite (N.mul_comm ka g), <- N.mul_assoc, (N.mul_comm g), N.div_mul by assumption.
        assert (ka <> 0) by (intro; subst ka; lia). nia. }
      assert (Ey : nval b * dval a / g = r * nd).
      { rewrite Nb. unfold nd. rewrite <- N.mul_assoc, (N.mul_comm (dval b)). apply mul_div_exact; [assumption|].
        apply N.divide_mul_l; assumption. }
      rewrite N.mul_0_l, N.div_0_l, Ey by assumption.
      unfold rat_neg, rat_wf, nval, dval. cbn [rnum rden rneg negb].
      rewrite !wf_of_N, !val_of_N.
      assert (Hd : (nd =? 0) = false) by lia. rewrite Hd. split; [reflexivity|].
      apply Hnot; [reflexivity|]. unfold nval. cbn [rnum]. rewrite val_of_N. nia.
  - unfold add_pos.
    change (nval (rat_neg b)) with (nval b). change (dval (rat_neg b)) with (dval b).
    change (rneg (rat_neg b)) with (negb (rneg b)). rewrite Eb. cbn [negb andb].
    destruct (N.eqb_spec (dval a) (dval b)) as [Ed|Ed].
    + rewrite Na, Nb, <- Ed.
      assert (Hl : (n * dval a <? r * dval a) = true) by (apply N.ltb_lt; nia).
      rewrite Hl.
      unfold rat_wf, nval, dval. cbn [rnum rden rneg].
      rewrite wf_of_N, ?val_of_N. fold (dval a). rewrite Wa2.
      assert (Hd : (dval a =? 0) = false) by lia. rewrite Hd. split; [reflexivity|].
      apply Hnot; [reflexivity|]. unfold nval. cbn [rnum]. rewrite val_of_N. nia.
    + set (g := N.gcd (dval a) (dval b)).
      assert (Hg : g <> 0) by (unfold g; intro H0; apply N.gcd_eq_0_l in H0; contradiction).
      assert (Hga : N.divide g (dval a)) by apply N.gcd_divide_l.
      assert (Hgb : N.divide g (dval b)) by apply N.gcd_divide_r.
      set (nd := dval a * dval b / g).
      assert (Hnd : nd <> 0).
      { unfold nd. destruct Hga as [ka Ka]. rewrite Ka at 1.
        rewrite (N.mul_comm ka g), <- N.mul_assoc, (N.mul_comm g), N.div_mul by assumption.
        assert (ka <> 0) by (intro; subst ka; lia). nia. }
      assert (Ex : nval a * dval b / g = n * nd).
      { rewrite Na. unfold nd. rewrite <- N.mul_assoc. apply mul_div_exact; [assumption|].
        apply N.divide_mul_l; assumption. }
      assert (Ey : nval b * dval a / g = r * nd).
      { rewrite Nb. unfold nd. rewrite <- N.mul_assoc, (N.mul_comm (dval b)). apply mul_div_exact; [assumption|].
        apply N.divide_mul_l; assumption. }
      rewrite Ex, Ey.
      assert (Hl : (n * nd <? r * nd) = true) by (apply N.ltb_lt; nia).
      rewrite Hl.
      unfold rat_wf, nval, dval. cbn [rnum rden rneg].
      rewrite !wf_of_N, !val_of_N.
      assert (Hd : (nd =? 0) = false) by lia. rewrite Hd. split; [reflexivity|].
      apply Hnot; [reflexivity|]. unfold nval. cbn [rnum]. rewrite val_of_N. nia.
Qed.

Lemma ncr_r_gt_n : forall a b n r, rat_repr a n -> rat_repr b r -> n < r ->
  is_err (q_combination a b) /\ is_err (q_permutation a b).
Proof.
  intros a b n r Ha Hb Hlt.
  destruct (rat_sub_negative a b n r Ha Hb Hlt) as [Wd Hd].
  unfold q_combination, q_permutation.
  rewrite (q_factorial_repr a _ Ha), (q_factorial_repr b _ Hb). cbn [bind].
  destruct (apply_uint_op_repr unit b _ (fun _ => Ok tt) Hb) as [u [Eu _]]. rewrite Eu. cbn [bind].
  split; apply bind_err, q_factorial_domain; assumption.
Qed.

(* non-real arguments *)
Lemma c_binary_nonreal : forall f a b,
  real_is_zero (cim a) = false \/ real_is_zero (cim b) = false \/
  (exists q, cre a = RPi q) \/ (exists q, cre b = RPi q) ->
  is_err (c_binary f a b).
Proof.
  intros f a b H. unfold c_binary, expect_real.
  destruct (real_is_zero (cim a)) eqn:Ia; [|eexists; reflexivity].
  destruct (real_is_zero (cim b)) eqn:Ib; [|eexists; reflexivity].
  cbn [bind].
  destruct H as [H|[H|[[q H]|[q H]]]]; try discriminate.
  - rewrite H. eexists; reflexivity.
  - rewrite H. destruct (cre a); eexists; reflexivity.
Qed.

Lemma c_nonreal_unary : forall c, real_is_zero (cim c) = false ->
  is_err (c_factorial c) /\ is_err (c_try_as_usize c) /\ is_err (c_try_as_biguint c) /\
  is_err (c_fibonacci c).
Proof.
  intros c H. unfold c_factorial, c_fibonacci, c_try_as_usize, c_try_as_biguint. rewrite H.
  repeat split; eexists; reflexivity.
Qed.

Lemma c_pi_to_integer : forall c q, cre c = RPi q -> nval q <> 0 ->
  is_err (c_try_as_usize c) /\ is_err (c_try_as_biguint c) /\ is_err (c_fibonacci c).
Proof.
  intros c q H Hq. unfold c_fibonacci, c_try_as_usize, c_try_as_biguint, r_try_as_usize, r_try_as_biguint.
  rewrite H. destruct (N.eqb_spec (nval q) 0) as [E|E]; [contradiction|].
  destruct (real_is_zero (cim c)); repeat split; eexists; reflexivity.
Qed.

(* ------------------------------------------------------------------ *)
(* the value of a sum, for arbitrary rationals *)

Definition ratZ (q : brat) : Z := if rneg q then (- Z.of_N (nval q))%Z else Z.of_N (nval q).

Lemma ratZ_neg : forall q, ratZ (rat_neg q) = (- ratZ q)%Z.
Proof. intro q. unfold ratZ, rat_neg, nval. cbn [rneg rnum]. destruct (rneg q); cbn [negb]; lia. Qed.

Lemma gcd_parts : forall x y, x <> 0 ->
  exists g kx ky, N.gcd x y = g /\ g <> 0 /\ x = kx * g /\ y = ky * g /\ x * y / g = kx * ky * g /\
                  (forall n, n * y / g = n * ky) /\ (forall n, n * x / g = n * kx).
Proof.
  intros x y Hx. set (g := N.gcd x y).
  assert (Hg : g <> 0) by (unfold g; intro H0; apply N.gcd_eq_0_l in H0; contradiction).
  destruct (N.gcd_divide_l x y) as [kx Kx]. destruct (N.gcd_divide_r x y) as [ky Ky]. fold g in Kx, Ky.
  exists g, kx, ky. repeat split; try assumption.
  - rewrite Kx at 1. rewrite Ky at 1.
    replace (kx * g * (ky * g)) with (kx * ky * g * g) by lia. apply N.div_mul; assumption.
  - intro n. rewrite Ky at 1. replace (n * (ky * g)) with (n * ky * g) by lia. apply N.div_mul; assumption.
  - intro n. rewrite Kx at 1. replace (n * (kx * g)) with (n * kx * g) by lia. apply N.div_mul; assumption.
Qed.

Lemma add_pos_value : forall a b, rneg a = false -> wf (rden a) = true -> dval a <> 0 -> dval b <> 0 ->
  rat_wf (add_pos a b) = true /\
  (ratZ (add_pos a b) * (Z.of_N (dval a) * Z.of_N (dval b)) =
   (ratZ a * Z.of_N (dval b) + ratZ b * Z.of_N (dval a)) * Z.of_N (dval (add_pos a b)))%Z.
Proof.
  intros a b Ha Wd Da Db. unfold add_pos.
  set (an := nval a). set (ad := dval a). set (bn := nval b). set (bd := dval b).
  assert (Za : ratZ a = Z.of_N an) by (unfold ratZ; rewrite Ha; reflexivity).
  assert (Zb : ratZ b = if rneg b then (- Z.of_N bn)%Z else Z.of_N bn) by reflexivity.
  rewrite Za, Zb.
  destruct (N.eqb_spec ad bd) as [Ed|Ed].
  - rewrite <- Ed.
    assert (Hwf1 : forall sg v, rat_wf (mkrat sg (of_N v) (rden a)) = true).
    { intros sg v. unfold rat_wf, dval. cbn [rnum rden]. rewrite wf_of_N, Wd.
      assert (Hx : (dval a =? 0) = false) by lia. unfold dval in Hx. rewrite Hx. reflexivity. }
    assert (HZ1 : forall sg v, ratZ (mkrat sg (of_N v) (rden a)) = if sg then (- Z.of_N v)%Z else Z.of_N v).
    { intros sg v. unfold ratZ, nval. cbn [rneg rnum]. rewrite val_of_N. reflexivity. }
    assert (HD1 : forall sg v, dval (mkrat sg (of_N v) (rden a)) = ad) by reflexivity.
    destruct (rneg b); cbn [andb].
    + destruct (N.ltb_spec an bn) as [Hl|Hl].
      * split; [apply Hwf1|]. rewrite HZ1, HD1. rewrite N2Z.inj_sub by lia. lia.
      * split; [apply Hwf1|]. rewrite HZ1, HD1. rewrite N2Z.inj_sub by lia. lia.
    + split; [apply Hwf1|]. rewrite HZ1, HD1. rewrite N2Z.inj_add. lia.
  - destruct (gcd_parts ad bd Da) as [g [ka [kb [Eg [Hg [Ka [Kb [End [Ex Ey]]]]]]]]].
    rewrite Eg, End, (Ex an), (Ey bn).
    assert (Hka : ka <> 0) by (intro; subst ka; lia).
    assert (Hkb : kb <> 0) by (intro; subst kb; unfold bd in *; lia).
    assert (Hnd : ka * kb * g <> 0) by nia.
    assert (Hwf : forall sg v, rat_wf (mkrat sg (of_N v) (of_N (ka * kb * g))) = true).
    { intros sg v. unfold rat_wf, dval. cbn [rnum rden]. rewrite !wf_of_N, val_of_N.
      assert ((ka * kb * g =? 0) = false) as -> by lia. reflexivity. }
    assert (HZ : forall sg v, ratZ (mkrat sg (of_N v) (of_N (ka * kb * g))) = if sg then (- Z.of_N v)%Z else Z.of_N v).
    { intros sg v. unfold ratZ, nval. cbn [rneg rnum]. rewrite val_of_N. reflexivity. }
    assert (HD : forall sg v, dval (mkrat sg (of_N v) (of_N (ka * kb * g))) = ka * kb * g).
    { intros sg v. unfold dval. cbn [rden]. apply val_of_N. }
    set (A := Z.of_N an). set (Bn := Z.of_N bn).
    set (G := Z.of_N g). set (KA := Z.of_N ka). set (KB := Z.of_N kb).
    assert (EA : Z.of_N ad = (KA * G)%Z) by (unfold KA, G; lia).
    assert (EB : Z.of_N bd = (KB * G)%Z) by (unfold KB, G; lia).
    destruct (rneg b); cbn [andb].
    + destruct (N.ltb_spec (an * kb) (bn * ka)) as [Hl|Hl].
      * split; [apply Hwf|]. rewrite HZ, HD, EA, EB.
        rewrite N2Z.inj_sub by lia. rewrite !N2Z.inj_mul. fold A Bn G KA KB. ring.
      * split; [apply Hwf|]. rewrite HZ, HD, EA, EB.
        rewrite N2Z.inj_sub by lia. rewrite !N2Z.inj_mul. fold A Bn G KA KB. ring.
    + split; [apply Hwf|]. rewrite HZ, HD, EA, EB.
      rewrite N2Z.inj_add. rewrite !N2Z.inj_mul. fold A Bn G KA KB. ring.
Qed.

Lemma rat_add_value : forall a b, rat_wf a = true -> rat_wf b = true ->
  rat_wf (rat_add a b) = true /\
  (ratZ (rat_add a b) * (Z.of_N (dval a) * Z.of_N (dval b)) =
   (ratZ a * Z.of_N (dval b) + ratZ b * Z.of_N (dval a)) * Z.of_N (dval (rat_add a b)))%Z.
Proof.
  intros a b Wa Wb.
  apply rat_wf_parts in Wa. destruct Wa as [_ [Wa2 Da]].
  apply rat_wf_parts in Wb. destruct Wb as [_ [_ Db]].
  unfold rat_add. destruct (rneg a) eqn:Ea.
  - destruct (add_pos_value (rat_neg a) (rat_neg b)) as [Hw Hv]; try assumption.
    { unfold rat_neg. cbn [rneg]. rewrite Ea. reflexivity. }
    set (r := add_pos (rat_neg a) (rat_neg b)) in *.
    split.
    + unfold rat_wf, rat_neg, dval in *. cbn [rnum rden] in *. assumption.
    + rewrite !ratZ_neg in Hv. rewrite ratZ_neg.
      change (dval (rat_neg r)) with (dval r).
      change (dval (rat_neg a)) with (dval a) in Hv. change (dval (rat_neg b)) with (dval b) in Hv.
      lia.
  - apply add_pos_value; assumption.
Qed.

(* if a and a - b are integers, so is b *)
Lemma sub_integral : forall a b, rat_wf a = true -> rat_wf b = true ->
  N.divide (dval a) (nval a) -> N.divide (dval (rat_add a (rat_neg b))) (nval (rat_add a (rat_neg b))) ->
  N.divide (dval b) (nval b).
Proof.
  intros a b Wa Wb [ka Ka] [kr Kr].
  assert (Wnb : rat_wf (rat_neg b) = true) by exact Wb.
  destruct (rat_add_value a (rat_neg b) Wa Wnb) as [Wr Hv].
  set (r := rat_add a (rat_neg b)) in *.
  rewrite ratZ_neg in Hv. change (dval (rat_neg b)) with (dval b) in Hv.
  apply rat_wf_parts in Wa. destruct Wa as [_ [_ Da]].
  apply rat_wf_parts in Wb. destruct Wb as [_ [_ Db]].
  apply rat_wf_parts in Wr. destruct Wr as [_ [_ Dr]].
  set (da := Z.of_N (dval a)) in *. set (db := Z.of_N (dval b)) in *. set (dr := Z.of_N (dval r)) in *.
  assert (Hda : (0 < da)%Z) by (unfold da; lia). assert (Hdb : (0 < db)%Z) by (unfold db; lia).
  assert (Hdr : (0 < dr)%Z) by (unfold dr; lia).
  assert (Ea : exists za, ratZ a = (za * da)%Z).
  { unfold ratZ. rewrite Ka. destruct (rneg a); [exists (- Z.of_N ka)%Z|exists (Z.of_N ka)]; unfold da; lia. }
  assert (Er : exists zr, ratZ r = (zr * dr)%Z).
  { unfold ratZ. rewrite Kr. destruct (rneg r); [exists (- Z.of_N kr)%Z|exists (Z.of_N kr)]; unfold dr; lia. }
  destruct Ea as [za Ea]. destruct Er as [zr Er]. rewrite Ea, Er in Hv.
  assert (Hb : ratZ b = ((za - zr) * db)%Z).
  { assert (H : (dr * da * (zr * db) = dr * da * (za * db - ratZ b))%Z) by lia.
    apply Z.mul_reg_l in H; [lia|]. nia. }
  exists (Z.to_N (Z.abs (za - zr))).
  assert (Hn : Z.of_N (nval b) = Z.abs (ratZ b)) by (unfold ratZ; destruct (rneg b); lia).
  rewrite Hb, Z.abs_mul in Hn. rewrite (Z.abs_eq db) in Hn by lia.
  unfold db in Hn. lia.
Qed.

Lemma known_npr_of_negative_integer : forall b, rat_wf b = true ->
  N.divide (dval b) (nval b) -> rneg b = true -> nval b <> 0 -> known_C10_npr_negative_r_old b = true.
Proof.
  intros b Wb Hdiv Hneg Hnz. unfold known_C10_npr_negative_r_old.
  destruct (simplify_ok b Wb) as [s [Es [Hs [Hv [Hd Hiff]]]]]. rewrite Es.
  apply Hiff in Hdiv. rewrite Hdiv, Hs, Hneg. change (1 =? 1) with true. cbn [andb].
  apply negb_true_iff, N.eqb_neq. intro H0. rewrite H0, Hdiv in Hv.
  apply rat_wf_parts in Wb. lia.
Qed.

Lemma npr_old_domain_except_known_lemma : forall a b, rat_wf a = true -> rat_wf b = true ->
  ~ denotes_nat b -> known_C10_npr_negative_r_old b = false -> is_err (q_permutation_old a b).
Proof.
  intros a b Wa Wb Hbad Hk.
  (* b is not integral: otherwise it is a negative integer, which is the known class *)
  assert (Hfrac : ~ N.divide (dval b) (nval b)).
  { intro Hdiv. destruct (rneg b) eqn:Eb.
    - destruct (N.eq_dec (nval b) 0) as [E0|E0].
      + apply Hbad. split; [assumption|right; assumption].
      + rewrite (known_npr_of_negative_integer b Wb Hdiv Eb E0) in Hk. discriminate.
    - apply Hbad. split; [assumption|left; assumption]. }
  unfold q_permutation_old.
  destruct (q_factorial a) as [x|e|k] eqn:Ef; cbn [bind]; [|eexists; reflexivity|exfalso; exact (q_factorial_no_panic a Wa k Ef)].
  (* a is a natural number *)
  assert (Ha : N.divide (dval a) (nval a)).
  { destruct (simplify_ok a Wa) as [s [Es [_ [_ [_ Hiff]]]]].
    unfold q_factorial, apply_uint_op in Ef. rewrite Es in Ef. cbn [bind] in Ef.
    destruct (N.eqb_spec (dval s) 1) as [D1|D1]; cbn [negb] in Ef; [|discriminate].
    apply Hiff. assumption. }
  apply bind_err. apply q_factorial_domain.
  - apply rat_add_value; assumption.
  - intros [Hdiv _]. apply Hfrac. exact (sub_integral a b Wa Wb Ha Hdiv).
Qed.

Lemma npr_old_domain_refuted_lemma : exists a b q, rat_wf a = true /\ rat_wf b = true /\
  ~ denotes_nat b /\ q_permutation_old a b = Ok q.
Proof.
  exists (mkrat false (Small 5) (Small 1)), (mkrat true (Small 1) (Small 1)).
  eexists. split; [reflexivity|]. split; [reflexivity|]. split.
  - intros [_ [H|H]]; discriminate.
  - vm_compute. reflexivity.
Qed.

(* ------------------------------------------------------------------ *)
(* summary statements used by Properties/C10.v *)

Lemma domain_errors_lemma : forall q, rat_wf q = true -> ~ denotes_nat q ->
  is_err (q_factorial q) /\ is_err (q_try_as_usize q) /\ is_err (q_try_as_biguint q) /\
  (forall op b, rat_wf b = true -> is_err (q_bitwise op q b) /\ is_err (q_bitwise op b q)) /\
  (forall b, rat_wf b = true ->
     is_err (q_modulo q b) /\ is_err (q_modulo b q) /\
     is_err (q_combination q b) /\ is_err (q_combination b q) /\
     is_err (q_permutation q b) /\ is_err (q_permutation b q)).
Proof.
  intros q Wq Hbad. repeat split.
  - apply q_factorial_domain; assumption.
  - apply q_try_as_usize_domain; assumption.
  - apply try_as_biguint_domain; assumption.
  - apply q_bitwise_domain; auto.
  - apply q_bitwise_domain; auto.
  - apply q_modulo_domain; auto.
  - apply q_modulo_domain; auto.
  - apply q_combination_domain; auto.
  - apply q_combination_domain; auto.
  - apply q_permutation_domain; auto.
  - apply q_permutation_domain; auto.
Qed.

Lemma domain_errors_binary_lemma : forall a b n r, rat_repr a n -> rat_repr b r ->
  (n < r -> is_err (q_combination a b) /\ is_err (q_permutation a b)) /\
  (r = 0 -> is_err (q_modulo a b)).
Proof.
  intros a b n r Ha Hb. split.
  - apply ncr_r_gt_n; assumption.
  - intros ->. destruct Ha as [Wa _]. destruct Hb as [Wb [Nb _]].
    apply q_modulo_domain; try assumption. right; right; left. rewrite Nb. apply N.mul_0_l.
Qed.

Lemma domain_errors_pi_lemma : forall c q, cre c = RPi q -> nval q <> 0 ->
  is_err (c_try_as_usize c) /\ is_err (c_try_as_biguint c) /\ is_err (c_fibonacci c) /\
  (forall f d, is_err (c_binary f c d) /\ is_err (c_binary f d c)).
Proof.
  intros c q H Hq. destruct (c_pi_to_integer c q H Hq) as [H1 [H2 H3]].
  repeat split; try assumption; apply c_binary_nonreal; eauto.
Qed.

Lemma bad_domain_example :
  rat_wf (mkrat false (Small 5) (Small 2)) = true /\ ~ denotes_nat (mkrat false (Small 5) (Small 2)).
Proof.
  split; [reflexivity|]. intros [[k Hk] _]. unfold nval, dval in Hk. cbn [rnum rden val] in Hk. lia.
Qed.
