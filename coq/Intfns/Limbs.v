(* C10, limb level: model of the parts of core/src/num/biguint.rs whose own
   logic is about limbs -- try_as_usize, is_zero, bitwise_and/or/xor,
   lshift/rshift (one bit), lshift_n/rshift_n (big shift count).
   Limbs are little-endian [list N], each < 2^64; [Small n | Large v] as in
   the code.  No proofs here (see LimbsProofs.v).

   Panic sites (indexing an empty Large, only constructible by
   deserialisation):
     1  bitwise_and  (Large a, Small b): a[0]
     2  bitwise_and  (Small a, Large b): b[0]
     3  bitwise_or   (Large a, Small b): a[0]
     4  bitwise_or   (Small a, Large b): result[0]
     5  bitwise_xor  (Large a, Small b): a[0]
     6  bitwise_xor  (Small a, Large b): result[0]
     7  lshift       Large: value[value.len() - 1]                        *)
From FendV Require Import Base.Prelude.
Open Scope N_scope.

Definition W : N := 18446744073709551616.      (* 2^64 *)
Definition HALF : N := 9223372036854775808.    (* 2^63 = 1_u64 << 63 *)
Definition TOP2 : N := 13835058055282163712.   (* 0xc000_0000_0000_0000 *)

Inductive buint :=
| Small (n : N)
| Large (v : list N).

Fixpoint val_limbs (v : list N) : N :=
  match v with
  | [] => 0
  | x :: r => x + W * val_limbs r
  end.

Definition val (b : buint) : N :=
  match b with Small n => n | Large v => val_limbs v end.

Definition limb_ok (x : N) : bool := x <? W.

(* the representation invariant of the code: limbs are u64, Large has len >= 1 *)
Definition wf (b : buint) : bool :=
  match b with
  | Small n => limb_ok n
  | Large v => negb (Nat.eqb (length v) 0) && forallb limb_ok v
  end.

Definition make_large (b : buint) : list N :=
  match b with Small n => [n] | Large v => v end.

Definition is_zero (b : buint) : bool :=
  match b with
  | Small n => n =? 0
  | Large v => forallb (fun x => x =? 0) v
  end.

(* significant_len: number of limbs excluding leading (most significant) zero
   limbs, at least 1:
   value.iter().rposition(|limb| *limb != 0).map_or(1, |idx| idx + 1) *)
Fixpoint rpos_nonzero (v : list N) : option nat :=
  match v with
  | [] => None
  | x :: r =>
    match rpos_nonzero r with
    | Some i => Some (S i)
    | None => if x =? 0 then None else Some O
    end
  end.

Definition significant_len (b : buint) : nat :=
  match b with
  | Small _ => 1%nat
  | Large v => match rpos_nonzero v with Some i => S i | None => 1%nat end
  end.

Definition hd0 (v : list N) : N := match v with [] => 0 | x :: _ => x end.

(* self.get(0) *)
Definition get0 (b : buint) : N :=
  match b with Small n => n | Large v => hd0 v end.

(* try_as_usize on a 64-bit target (usize = u64), as repaired by 2c2d128:
   Large(_) => if self.significant_len() == 1 { self.get(0) } else { out of range } *)
Definition try_as_usize (b : buint) : res N :=
  match b with
  | Small n => Ok n
  | Large _ => if Nat.eqb (significant_len b) 1 then Ok (get0 b) else Err EOutOfRange
  end.

(* ---------------- bitwise and / or / xor ---------------- *)

(* result = b.clone(); result[i] &= a.get(i).unwrap_or(0) *)
Fixpoint and_ll (a b : list N) : list N :=
  match b with
  | [] => []
  | y :: b' => N.land y (hd0 a) :: and_ll (tl a) b'
  end.

Definition bitwise_and (a b : buint) : res buint :=
  match a, b with
  | Small x, Small y => Ok (Small (N.land x y))
  | Large v, Small y => match v with [] => Panic 1 | x :: _ => Ok (Small (N.land x y)) end
  | Small x, Large w => match w with [] => Panic 2 | y :: _ => Ok (Small (N.land x y)) end
  | Large v, Large w => Ok (Large (and_ll v w))
  end.

(* while a.len() < b.len() { a.push(0) }; for i in 0..b.len() { a[i] = f(a[i], b[i]) } *)
Fixpoint zip_pad (f : N -> N -> N) (a b : list N) : list N :=
  match b with
  | [] => a
  | y :: b' =>
    match a with
    | [] => f 0 y :: zip_pad f [] b'
    | x :: a' => f x y :: zip_pad f a' b'
    end
  end.

Definition bitwise_gen (f : N -> N -> N) (site : N) (a b : buint) : res buint :=
  match a, b with
  | Small x, Small y => Ok (Small (f x y))
  | Large v, Small y => match v with [] => Panic site | x :: r => Ok (Large (f x y :: r)) end
  | Small x, Large w => match w with [] => Panic (site + 1) | y :: r => Ok (Large (f y x :: r)) end
  | Large v, Large w => Ok (Large (zip_pad f v w))
  end.

Definition bitwise_or : buint -> buint -> res buint := bitwise_gen N.lor 3.
Definition bitwise_xor : buint -> buint -> res buint := bitwise_gen N.lxor 5.

(* ---------------- one-bit shifts ---------------- *)

(* for i in (0..len).rev(): value[i] <<= 1; if i != 0 { value[i] |= value[i-1] >> 63 }
   (value[i-1] is still the old limb when it is read) *)
Fixpoint shl1 (v : list N) (carry : N) : list N :=
  match v with
  | [] => []
  | x :: r => N.lor ((2 * x) mod W) carry :: shl1 r (x / HALF)
  end.

Fixpoint last_opt (v : list N) : option N :=
  match v with
  | [] => None
  | [x] => Some x
  | _ :: r => last_opt r
  end.

Definition lshift (b : buint) : res buint :=
  match b with
  | Small n =>
    if N.land n TOP2 =? 0 then Ok (Small ((2 * n) mod W))
    else Ok (Large [(2 * n) mod W; n / HALF])
  | Large v =>
    match last_opt v with
    | None => Panic 7
    | Some t =>
      let v' := if N.land t HALF =? 0 then v else v ++ [0] in
      Ok (Large (shl1 v' 0))
    end
  end.

(* for i in 0..len: value[i] >>= 1; value[i] |= next << 63 where next is the
   (still unmodified) limb i+1, or 0 *)
Fixpoint shr1 (v : list N) : list N :=
  match v with
  | [] => []
  | x :: r => N.lor (x / 2) ((hd0 r * HALF) mod W) :: shr1 r
  end.

Definition rshift (b : buint) : buint :=
  match b with
  | Small n => Small (n / 2)
  | Large v => Large (shr1 v)
  end.

(* ---------------- shifts by a big count ---------------- *)

Definition lshift_iter (m : N) (a : buint) : res buint :=
  N.iter m (fun r => do x <- r; lshift x) (Ok a).

(* let mut rhs = rhs.try_as_usize()?;
   if rhs > 64 { make_large; while rhs >= 64 { v.insert(0, 0); rhs -= 64 } }
   for _ in 0..rhs { self.lshift()? } *)
Definition lshift_n (a rhs : buint) : res buint :=
  do n <- try_as_usize rhs;
  if 64 <? n
  then lshift_iter (n mod 64) (Large (N.iter (n / 64) (cons 0) (make_large a)))
  else lshift_iter n a.

(* for _ in 0..rhs { if self.is_zero() { break }; self.rshift()? }
   The loop leaves as soon as the value is zero, so it runs at most
   64 * len + 1 times whatever rhs is: fuel from the size, shown sufficient
   in LimbsProofs.shr_spec. *)
Fixpoint shr_loop (fuel : nat) (n : N) (x : buint) : buint :=
  match fuel with
  | O => x
  | S f => if (n =? 0) || is_zero x then x else shr_loop f (n - 1) (rshift x)
  end.

Definition rshift_n (a rhs : buint) : res buint :=
  do n <- try_as_usize rhs;
  Ok (shr_loop (S (64 * length (make_large a))) n a).
