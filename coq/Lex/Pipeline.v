(* Lex/Pipeline.v -- text to AST: the lexer model, the completion of missing
   open parentheses of eval.rs::evaluate_to_value, and the parser model of
   Lang/Parser.v, composed; and C08's theorems (Lang/ParserProofs.v), which
   start at token streams, extended to start at TEXT for the printed class. *)
From FendV Require Import Base.Prelude Lang.Syntax Lang.Parser Lang.Printer
  Lang.ParserBasics Lang.ParserProofs Crash.Utf8 Lex.Lexer Lex.LexerProofs Lex.Print Lex.PrintProofs.
Open Scope N_scope.

Section Pipeline.

Variable alpha_hi : N -> bool.
Variable numparse : bool -> list N -> numres.
Variable dateparse : list N -> dateres.
Variable comma : bool.

(* lex, complete the parentheses, parse; None = the lexer failed *)
Definition parse_text (text : list N) : option (pres expr) :=
  match lex alpha_hi numparse dateparse comma text with
  | LOk ts => Some (parse_tokens (complete_parens ts))
  | _ => None
  end.

(* the same without the completion step *)
Definition parse_text_plain (text : list N) : option (pres expr) :=
  match lex alpha_hi numparse dateparse comma text with
  | LOk ts => Some (parse_tokens ts)
  | _ => None
  end.

Notation items_ok := (items_ok alpha_hi comma).
Notation nums_ok := (nums_ok numparse comma).

(* any rendering of the minimal printing of a table expression parses to the
   AST the table assigns *)
Theorem text_to_ast e items :
  map it_tok items = print_min e -> items_ok items = true -> nums_ok items = true ->
  parse_text_plain (render items) = Some (POk (ex 0 e) []) /\
  parse_text (render items) =
    Some (POk (parens_n (n_close (print_min e)) (ex 0 e)) []).
Proof.
  intros Hm Hok Hn. unfold parse_text, parse_text_plain.
  rewrite (lex_print alpha_hi numparse dateparse comma items Hok Hn), Hm.
  rewrite parse_print_min, parse_print_min_completed. split; reflexivity.
Qed.

(* C08_precedence from text: the minimal and the fully parenthesised
   renderings, in any spelling and spacing that satisfies the side
   conditions, parse to ASTs with the table's grouping and equal value under
   any evaluator that ignores Parens nodes *)
Theorem precedence_text (V : Type) (ev : expr -> V) :
  (forall a b, strip a = strip b -> ev a = ev b) ->
  forall e imin ifull,
    map it_tok imin = print_min e -> map it_tok ifull = print_full e ->
    items_ok imin = true -> nums_ok imin = true ->
    items_ok ifull = true -> nums_ok ifull = true ->
    exists a b,
      parse_text (render imin) = Some (POk a []) /\
      parse_text (render ifull) = Some (POk b []) /\
      strip a = ast e /\ strip b = ast e /\ ev a = ev b.
Proof.
  intros Hev e imin ifull Hm Hf Ho1 Hn1 Ho2 Hn2.
  destruct (value_min_full_completed V ev Hev e) as (a & b & Ha & Hb & Hs).
  exists a, b. unfold parse_text.
  rewrite (lex_print alpha_hi numparse dateparse comma imin Ho1 Hn1), Hm.
  rewrite (lex_print alpha_hi numparse dateparse comma ifull Ho2 Hn2), Hf.
  rewrite Ha, Hb. repeat split; apply Hs.
Qed.

End Pipeline.
