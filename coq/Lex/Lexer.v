(* Lex/Lexer.v -- model of core/src/lexer.rs: Lexer::next_token, the
   iterator state machine (after_backslash_state, after_number_or_to),
   skip_whitespace_and_comments, parse_ident / is_valid_in_ident,
   parse_symbol / test_next, parse_quote_unit, raw strings, parse_date's
   scanning, parse_string_literal / parse_unicode_escape.

   Strings are lists of Unicode scalar values, but every position the Rust
   computes is a BYTE offset (len_utf8, char_indices, find, match_indices) and
   every slice goes through [split_at], which walks the characters and panics
   (site k) when the byte offset falls inside a character or beyond the end --
   exactly str::split_at on the UTF-8 encoding (Lex/Utf8Bridge.v proves that
   against Crash/Utf8.v's byte-level split_at).  Nothing is sliced "by
   character": a wrong offset in the model is a Panic in the model.

   Oracles (Section variables): the non-ASCII part of char::is_alphabetic,
   parse_number (returns payload and the unconsumed rest, or an error) and
   Date::parse.  No proofs in this file. *)
From FendV Require Import Base.Prelude Lang.Syntax Crash.Utf8.
Open Scope N_scope.

(* ---- errors, results ------------------------------------------------ *)

Inductive lexerr :=
| LEExpectedACharacter
| LEInvalidCharAtBeginningOfIdent (c : N)
| LEUnexpectedChar (c : N)
| LEUnterminatedStringLiteral
| LEInvalidUnicodeEscapeSequence
| LEBackslashXOutOfRange
| LEExpectedALetterOrCode
| LEUnknownBackslashEscapeSequence (c : N)
| LEExpectedADateLiteral
| LEOracle (p : list N)      (* error of parse_number / Date::parse: opaque *)
| LEOracleMissing.           (* executable oracle table has no entry *)

Inductive lres (A : Type) :=
| LOk (a : A)
| LErr (e : lexerr)
| LPanic (site : N).
Arguments LOk {A} a.
Arguments LErr {A} e.
Arguments LPanic {A} site.

Definition lbind {A C} (r : lres A) (f : A -> lres C) : lres C :=
  match r with LOk a => f a | LErr e => LErr e | LPanic s => LPanic s end.
Notation "'ldo' x <- r ; k" := (lbind r (fun x => k))
  (at level 200, x pattern, r at level 100, k at level 200, right associativity).

(* Panic sites (each is one slice / unwrap / checked-arithmetic site of lexer.rs):
     0  model fuel exhausted (not a Rust site; proved unreachable as well)
     1  parse_char: input.split_at(ch.len_utf8())
     2  parse_ident: input.split_at(byte_idx) after the first character
     3  parse_ident: input.split_at(byte_idx) at the end
     4  parse_symbol/test_next: input.split_at(next.len_utf8())
     5  parse_string_literal: input.split_at(1)
     6  parse_string_literal: input.split_at(literal_length + 1)
     7  parse_quote_unit: input.split_at(1)
     8  parse_quote_unit: input.split_at(split_idx) after the first letter
     9  parse_quote_unit: input.split_at(split_idx) in the loop
    10  parse_quote_unit: final input.split_at(split_idx)
    11  skip_whitespace_and_comments: input.split_at(idx) (idx from find)
    12  skip_whitespace_and_comments: input.split_at(ch.len_utf8())
    13  parse_date: input.split_at(1)  (skip @)
    14  parse_date: input2.split_at(1) (digit)
    15  parse_date: input2.split_at(1) (dash)
    16  parse_date: input.split_at(split_idx)
    17  next_token raw string: self.input.split_at(2)
    18  next_token raw string: remaining.split_at(literal_length)
    19  next_token raw string: remaining.split_at(2)
    20  next_token: self.input.split_at(ch.len_utf8()) before parse_symbol
    21  parse_unicode_escape: result_value *= 16 / += digit overflows u32
    22  parse_string_literal \x: u32 -> u8 try_into().unwrap()
    23  parse_string_literal \x: hex1 * 16 + hex2 overflows u8
    24  parse_string_literal \^: code - 64 underflows u8 *)

(* ---- UTF-8 lengths and slicing -------------------------------------- *)

(* char::len_utf8 *)
Definition len_utf8 (c : N) : nat :=
  if c <? 128 then 1%nat else if c <? 2048 then 2%nat
  else if c <? 65536 then 3%nat else 4%nat.

(* str::len *)
Fixpoint blen (s : list N) : nat :=
  match s with [] => O | c :: r => (len_utf8 c + blen r)%nat end.

(* str::split_at(mid), mid in bytes; panics unless mid is a char boundary *)
Fixpoint split_at (site : N) (s : list N) (mid : nat) {struct s}
  : lres (list N * list N) :=
  match s with
  | [] => match mid with O => LOk ([], []) | S _ => LPanic site end
  | c :: r =>
    match mid with
    | O => LOk ([], s)
    | S _ =>
      if Nat.leb (len_utf8 c) mid then
        match split_at site r (mid - len_utf8 c) with
        | LOk (a, b) => LOk (c :: a, b)
        | LErr e => LErr e
        | LPanic k => LPanic k
        end
      else LPanic site
    end
  end.

(* str::starts_with(&str) *)
Fixpoint starts_with_s (s p : list N) : bool :=
  match p, s with
  | [], _ => true
  | b :: p', c :: s' => (b =? c) && starts_with_s s' p'
  | _ :: _, [] => false
  end.

(* str::starts_with(char) *)
Definition starts_with_c (s : list N) (c : N) : bool :=
  match s with x :: _ => x =? c | [] => false end.

(* str::find(char): byte index of the first occurrence *)
Fixpoint find_char (c : N) (s : list N) : option nat :=
  match s with
  | [] => None
  | x :: r => if x =? c then Some O
              else match find_char c r with
                   | Some i => Some (len_utf8 x + i)%nat | None => None end
  end.

(* str::match_indices(two-char pattern).next(): byte index of the first match *)
Fixpoint find_sub2 (a b : N) (s : list N) : option nat :=
  match s with
  | [] => None
  | x :: r =>
    if (x =? a) && starts_with_c r b then Some O
    else match find_sub2 a b r with
         | Some i => Some (len_utf8 x + i)%nat | None => None end
  end.

(* str::char_indices, starting at byte offset i *)
Fixpoint char_indices_from (i : nat) (s : list N) : list (nat * N) :=
  match s with
  | [] => []
  | c :: r => (i, c) :: char_indices_from (i + len_utf8 c) r
  end.

(* ---- character classes ---------------------------------------------- *)

Definition mem (c : N) (l : list N) : bool := existsb (N.eqb c) l.

Definition is_ascii_digit (c : N) : bool := (48 <=? c) && (c <=? 57).
Definition is_ascii_letter (c : N) : bool :=
  ((65 <=? c) && (c <=? 90)) || ((97 <=? c) && (c <=? 122)).
Definition is_ascii_hexdigit (c : N) : bool :=
  is_ascii_digit c || ((65 <=? c) && (c <=? 70)) || ((97 <=? c) && (c <=? 102)).

(* char::to_digit(radix) for radix <= 16 *)
Definition to_digit (radix c : N) : option N :=
  let d := if is_ascii_digit c then Some (c - 48)
           else if (97 <=? c) && (c <=? 122) then Some (c - 87)
           else if (65 <=? c) && (c <=? 90) then Some (c - 55)
           else None in
  match d with Some v => if v <? radix then Some v else None | None => None end.

(* char::is_whitespace: the Unicode White_Space property *)
Definition is_whitespace (c : N) : bool :=
  ((9 <=? c) && (c <=? 13)) || (c =? 32) || (c =? 133) || (c =? 160) ||
  (c =? 5760) || ((8192 <=? c) && (c <=? 8202)) || (c =? 8232) || (c =? 8233) ||
  (c =? 8239) || (c =? 8287) || (c =? 12288).

(* char::is_ascii_whitespace: space, \t, \n, \x0C, \r *)
Definition is_ascii_whitespace (c : N) : bool :=
  (c =? 32) || (c =? 9) || (c =? 10) || (c =? 12) || (c =? 13).

Definition allowed_chars : list N :=
  [44; 95; 8539; 188; 8540; 189; 8541; 190; 8542; 8537; 8531; 8532; 8538; 8533;
   8534; 8535; 8536; 176; 36; 8451; 8457; 8487; 8456; 8485; 8468; 162; 163; 165;
   8364; 8361; 8362; 8356; 8360; 3647; 8353; 8355; 8358; 8359; 8363; 8365; 8366;
   8367; 8369; 65020; 65129; 65504; 65505; 65509; 65510; 13169; 13170; 13171;
   13172; 13174; 13184; 13185; 13186; 13187; 13188; 13189; 13190; 13191; 13192;
   13193; 13194; 13195; 13196; 13197; 13198; 13199; 13200; 13201; 13202; 13203;
   13204; 13205; 13206; 13207; 13208; 13209; 13210; 13211; 13212; 13213; 13214;
   13215; 13216; 13217; 13218; 13219; 13220; 13221; 13222; 13223; 13224; 13225;
   13226; 13227; 13228; 13229; 13230; 13231; 13232; 13233; 13234; 13235; 13236;
   13237; 13238; 13239; 13240; 13241; 13242; 13243; 13244; 13245; 13246; 13247;
   13248; 13249; 13251; 13252; 13253; 13254; 13256; 13257; 13258; 13260; 13263;
   13264; 13267; 13268; 13269; 13270; 13271; 13273; 13275; 13276; 13277].
Definition only_valid_by_themselves : list N :=
  [37; 8240; 8241; 8242; 8243; 8217; 8221; 960].
Definition split_on_subsequent_digit : list N := [36; 163; 165].
Definition always_invalid : list N := [955].
Definition ident_tail_chars : list N :=
  [46; 48; 49; 50; 51; 52; 53; 54; 55; 56; 57; 39; 34].

(* Symbol spellings and keywords as code points *)
Definition kw_to := [116; 111].        Definition kw_as := [97; 115].
Definition kw_in := [105; 110].        Definition kw_per := [112; 101; 114].
Definition kw_of := [111; 102].        Definition kw_mod := [109; 111; 100].
Definition kw_xor := [120; 111; 114].  Definition kw_XOR := [88; 79; 82].
Definition kw_and := [97; 110; 100].   Definition kw_AND := [65; 78; 68].
Definition kw_or := [111; 114].        Definition kw_OR := [79; 82].
Definition kw_nCr := [110; 67; 114].   Definition kw_choose := [99; 104; 111; 111; 115; 101].
Definition kw_nPr := [110; 80; 114].
Definition kw_permute := [112; 101; 114; 109; 117; 116; 101].

(* the match on the identifier text at the end of parse_ident *)
Definition keyword (ident : list N) : option sym :=
  if list_N_eqb ident kw_to || list_N_eqb ident kw_as || list_N_eqb ident kw_in
  then Some UnitConversion
  else if list_N_eqb ident kw_per then Some Div
  else if list_N_eqb ident kw_of then Some Of
  else if list_N_eqb ident kw_mod then Some Mod
  else if list_N_eqb ident kw_xor || list_N_eqb ident kw_XOR then Some BitwiseXor
  else if list_N_eqb ident kw_and || list_N_eqb ident kw_AND then Some BitwiseAnd
  else if list_N_eqb ident kw_or || list_N_eqb ident kw_OR then Some BitwiseOr
  else if list_N_eqb ident kw_nCr || list_N_eqb ident kw_choose then Some Combination
  else if list_N_eqb ident kw_nPr || list_N_eqb ident kw_permute then Some Permutation
  else None.

Definition ident_token (ident : list N) : tok :=
  match keyword ident with Some s => TSym s | None => TIdent (enc ident) end.

(* DecimalSeparatorStyle::decimal_separator *)
Definition decimal_separator (comma : bool) : N := if comma then 44 else 46.

(* results of the oracles *)
Inductive numres :=
| NOk (p : payload) (rest : list N)
| NErr (p : list N)
| NMissing.
Inductive dateres :=
| DOk (p : payload)
| DErr (p : list N)
| DMissing.

(* Lexer { input, after_backslash_state, after_number_or_to } without input *)
Record lstate := mkst { after_backslash : N; after_number_or_to : bool }.
Definition st0 : lstate := mkst 0 false.

Section Lexer.

(* char::is_alphabetic above U+007F (Unicode Alphabetic property) *)
Variable alpha_hi : N -> bool.
(* parse_number(input, decimal_separator, int) *)
Variable numparse : bool -> list N -> numres.
(* Date::parse(date_str) *)
Variable dateparse : list N -> dateres.

(* char::is_alphabetic: ASCII fast path, then the Unicode table *)
Definition is_alphabetic (c : N) : bool :=
  is_ascii_letter c || ((128 <=? c) && alpha_hi c).

(* fn is_valid_in_ident(ch, prev) *)
Definition is_valid_in_ident (ch : N) (prev : option N) : bool :=
  let prev_or_a := match prev with Some p => p | None => 97 end in
  let prev_is_some := match prev with Some _ => true | None => false end in
  if mem ch always_invalid then false
  else if mem ch only_valid_by_themselves then negb prev_is_some
  else if mem prev_or_a only_valid_by_themselves then false
  else if is_alphabetic ch || mem ch allowed_chars then true
  else prev_is_some && negb (mem prev_or_a split_on_subsequent_digit)
       && mem ch ident_tail_chars.

(* fn parse_char *)
Definition parse_char (input : list N) : lres (N * list N) :=
  match input with
  | [] => LErr LEExpectedACharacter
  | ch :: _ => ldo (_, b) <- split_at 1 input (len_utf8 ch); LOk (ch, b)
  end.

(* the while-let loop of parse_ident; returns the final byte_idx *)
Fixpoint ident_loop (fuel : nat) (allow_dots : bool) (remaining : list N)
         (byte_idx : nat) (prev : N) : lres nat :=
  match fuel with
  | O => LPanic 0
  | S f =>
    match parse_char remaining with
    | LPanic k => LPanic k
    | LErr _ => LOk byte_idx
    | LOk (next_char, remaining_input) =>
      if negb (is_valid_in_ident next_char (Some prev))
         || ((next_char =? 46) && negb allow_dots)
      then LOk byte_idx
      else ident_loop f allow_dots remaining_input
                      (byte_idx + len_utf8 next_char) next_char
    end
  end.

(* fn parse_ident *)
Definition parse_ident (input : list N) (allow_dots : bool) : lres (tok * list N) :=
  ldo (first_char, _) <- parse_char input;
  if negb (is_valid_in_ident first_char None)
     || ((first_char =? 46) && negb allow_dots)
  then LErr (LEInvalidCharAtBeginningOfIdent first_char)
  else
    let byte_idx := len_utf8 first_char in
    ldo (_, remaining) <- split_at 2 input byte_idx;
    ldo byte_idx <- ident_loop (S (length remaining)) allow_dots remaining byte_idx first_char;
    ldo (ident, rest) <- split_at 3 input byte_idx;
    LOk (ident_token ident, rest).

(* the closure test_next of parse_symbol *)
Definition test_next (next : N) (input : list N) : lres (bool * list N) :=
  if starts_with_c input next then
    ldo (_, remaining) <- split_at 4 input (len_utf8 next);
    LOk (true, remaining)
  else LOk (false, input).

(* fn parse_symbol(ch, &mut input) *)
Definition parse_symbol (ch : N) (input : list N) : lres (tok * list N) :=
  let ret (s : sym) (i : list N) : lres (tok * list N) := LOk (TSym s, i) in
  if ch =? 40 then ret OpenParens input
  else if ch =? 41 then ret CloseParens input
  else if ch =? 43 then ret Add input
  else if ch =? 33 then
    ldo (t, i) <- test_next 61 input;
    if t then ret NotEquals i else ret Factorial i
  else if (ch =? 45) || (ch =? 8722) then ret Sub input
  else if (ch =? 42) || (ch =? 215) || (ch =? 10005) then
    ldo (t, i) <- test_next 42 input;
    if t then ret Pow i else ret Mul i
  else if (ch =? 47) || (ch =? 247) || (ch =? 8725) then ret Div input
  else if ch =? 94 then ret Pow input
  else if ch =? 38 then ret BitwiseAnd input
  else if ch =? 124 then ret BitwiseOr input
  else if ch =? 58 then ret Fn input
  else if ch =? 61 then
    ldo (t, i) <- test_next 62 input;
    if t then ret Fn i else
    ldo (t2, i2) <- test_next 61 i;
    if t2 then ret DoubleEquals i2 else ret Equals i2
  else if ch =? 8800 then ret NotEquals input
  else if (ch =? 92) || (ch =? 955) then ret Backslash input
  else if ch =? 46 then ret Dot input
  else if ch =? 60 then
    ldo (t, i) <- test_next 60 input;
    if t then ret ShiftLeft i else
    ldo (t2, i2) <- test_next 62 i;
    if t2 then ret NotEquals i2 else LErr (LEUnexpectedChar ch)
  else if ch =? 62 then
    ldo (t, i) <- test_next 62 input;
    if t then ret ShiftRight i else LErr (LEUnexpectedChar ch)
  else if ch =? 59 then ret Semicolon input
  else LErr (LEUnexpectedChar ch).

(* fn parse_unicode_escape(chars_iter): the loop after the opening brace *)
Fixpoint unicode_loop (it : list (nat * N)) (value : N) (zero_length : bool)
  : lres (N * list (nat * N)) :=
  match it with
  | [] => LErr LEUnterminatedStringLiteral
  | (_, ch) :: it' =>
    if is_ascii_hexdigit ch then
      match to_digit 16 ch with
      | None => LErr LEInvalidUnicodeEscapeSequence
      | Some d =>
        let v := value * 16 + d in
        if 4294967296 <=? v then LPanic 21
        else if 1114111 <? v then LErr LEInvalidUnicodeEscapeSequence
        else unicode_loop it' v false
      end
    else if ch =? 125 then
      if zero_length then LErr LEInvalidUnicodeEscapeSequence
      else if is_scalar value then LOk (value, it')
      else LErr LEInvalidUnicodeEscapeSequence
    else LErr LEInvalidUnicodeEscapeSequence
  end.

Definition parse_unicode_escape (it : list (nat * N)) : lres (N * list (nat * N)) :=
  match it with
  | [] => LErr LEUnterminatedStringLiteral
  | (_, c) :: it' =>
    if negb (c =? 123) then LErr LEInvalidUnicodeEscapeSequence
    else unicode_loop it' 0 true
  end.

(* the simple one-character escapes of parse_string_literal *)
Definition simple_escape (next : N) : option N :=
  if next =? 92 then Some 92 else if next =? 34 then Some 34
  else if next =? 39 then Some 39 else if next =? 97 then Some 7
  else if next =? 98 then Some 8 else if next =? 101 then Some 27
  else if next =? 102 then Some 12 else if next =? 110 then Some 10
  else if next =? 114 then Some 13 else if next =? 116 then Some 9
  else if next =? 118 then Some 11 else None.

(* the while-let loop of parse_string_literal over chars_iter;
   returns (literal_length, literal_string) *)
Fixpoint string_loop (fuel : nat) (terminator : N) (it : list (nat * N))
         (acc : list N) (skip_whitespace : bool) : lres (option nat * list N) :=
  match fuel with
  | O => LPanic 0
  | S f =>
    match it with
    | [] => LOk (None, rev acc)
    | (idx, ch) :: it1 =>
      if skip_whitespace && is_ascii_whitespace ch then
        string_loop f terminator it1 acc true
      else if ch =? terminator then LOk (Some idx, rev acc)
      else if ch =? 92 then
        match it1 with
        | [] => LErr LEUnterminatedStringLiteral
        | (_, next) :: it2 =>
          match simple_escape next with
          | Some e => string_loop f terminator it2 (e :: acc) false
          | None =>
            if next =? 120 then          (* \x: two-character hex code *)
              match it2 with
              | (_, hex1) :: (_, hex2) :: it3 =>
                match to_digit 8 hex1 with
                | None => LErr LEBackslashXOutOfRange
                | Some h1 =>
                  if 256 <=? h1 then LPanic 22 else
                  match to_digit 16 hex2 with
                  | None => LErr LEBackslashXOutOfRange
                  | Some h2 =>
                    if 256 <=? h2 then LPanic 22 else
                    if 256 <=? h1 * 16 + h2 then LPanic 23
                    else string_loop f terminator it3 ((h1 * 16 + h2) :: acc) false
                  end
                end
              | _ => LErr LEUnterminatedStringLiteral
              end
            else if next =? 117 then     (* \u{...} *)
              match parse_unicode_escape it2 with
              | LOk (c, it3) => string_loop f terminator it3 (c :: acc) false
              | LErr e => LErr e
              | LPanic k => LPanic k
              end
            else if next =? 122 then     (* \z *)
              string_loop f terminator it2 acc true
            else if next =? 94 then      (* \^X control characters *)
              match it2 with
              | [] => LErr LEUnterminatedStringLiteral
              | (_, letter) :: it3 =>
                let code := letter mod 256 in      (* letter as u8 *)
                if negb ((63 <=? code) && (code <=? 95)) then LErr LEExpectedALetterOrCode
                else if code =? 63 then string_loop f terminator it3 (127 :: acc) false
                else if code <? 64 then LPanic 24
                else string_loop f terminator it3 ((code - 64) :: acc) false
              end
            else LErr (LEUnknownBackslashEscapeSequence next)
          end
        end
      else string_loop f terminator it1 (ch :: acc) false
    end
  end.

(* fn parse_string_literal(input, terminator) *)
Definition parse_string_literal (input : list N) (terminator : N) : lres (tok * list N) :=
  ldo (_, input) <- split_at 5 input 1;
  let chars_iter := char_indices_from 0 input in
  ldo (literal_length, literal_string) <-
      string_loop (S (length chars_iter)) terminator chars_iter [] false;
  match literal_length with
  | None => LErr LEUnterminatedStringLiteral
  | Some n =>
    ldo (_, remaining) <- split_at 6 input (n + 1);
    LOk (TStr (enc literal_string), remaining)
  end.

(* the while-let loop of parse_quote_unit; returns split_idx *)
Fixpoint quote_loop (fuel : nat) (input remaining : list N) (split_idx : nat) (prev : N)
  : lres nat :=
  match fuel with
  | O => LPanic 0
  | S f =>
    match remaining with
    | [] => LOk split_idx
    | next :: _ =>
      if negb (is_valid_in_ident next (Some prev)) then LOk split_idx
      else
        let split_idx := (split_idx + len_utf8 next)%nat in
        ldo (_, remaining2) <- split_at 9 input split_idx;
        quote_loop f input remaining2 split_idx next
    end
  end.

(* fn parse_quote_unit: a unit beginning with ' or double quote *)
Definition parse_quote_unit (input : list N) : lres (tok * list N) :=
  ldo (_, after1) <- split_at 7 input 1;
  ldo split_idx <-
    match after1 with
    | [] => LOk 1%nat
    | ch :: _ =>
      if is_alphabetic ch then
        let split_idx := (1 + len_utf8 ch)%nat in
        ldo (_, remaining) <- split_at 8 input split_idx;
        quote_loop (S (length remaining)) input remaining split_idx ch
      else LOk 1%nat
    end;
  ldo (a, b) <- split_at 10 input split_idx;
  LOk (TIdent (enc a), b).

(* fn skip_whitespace_and_comments *)
Fixpoint skip_ws (fuel : nat) (input : list N) : lres (list N) :=
  match fuel with
  | O => LPanic 0
  | S f =>
    match input with
    | [] => LOk []
    | ch :: _ =>
      if starts_with_s input [35; 32] || starts_with_s input [35; 33] then
        match find_char 10 input with
        | Some idx =>
          ldo (_, remaining) <- split_at 11 input idx;
          skip_ws f remaining
        | None => LOk []
        end
      else if is_whitespace ch then
        ldo (_, remaining) <- split_at 12 input (len_utf8 ch);
        skip_ws f remaining
      else LOk input
    end
  end.

(* the inner while loop of parse_date: a run of ASCII digits;
   returns (input2, n, split_idx) *)
Fixpoint date_digits (fuel : nat) (input2 : list N) (n split_idx : nat)
  : lres (list N * nat * nat) :=
  match fuel with
  | O => LPanic 0
  | S f =>
    match input2 with
    | c :: _ =>
      if is_ascii_digit c then
        ldo (_, remaining) <- split_at 14 input2 1;
        date_digits f remaining (S n) (S split_idx)
      else LOk (input2, n, split_idx)
    | [] => LOk (input2, n, split_idx)
    end
  end.

(* the for i in 0..3 loop of parse_date; [i] counts down 3,2,1; returns split_idx *)
Fixpoint date_fields (i : nat) (input2 : list N) (split_idx : nat) : lres nat :=
  match i with
  | O => LOk split_idx
  | S i' =>
    ldo (input2, n, split_idx) <- date_digits (S (length input2)) input2 0 split_idx;
    if Nat.eqb n 0 then LErr LEExpectedADateLiteral
    else if Nat.eqb i' 0 then LOk split_idx
    else if negb (starts_with_c input2 45) then LErr LEExpectedADateLiteral
    else
      ldo (_, remaining) <- split_at 15 input2 1;
      date_fields i' remaining (S split_idx)
  end.

(* fn parse_date *)
Definition parse_date (input : list N) : lres (tok * list N) :=
  ldo (_, input) <- split_at 13 input 1;
  ldo split_idx <- date_fields 3 input 0;
  ldo (date_str, result_remaining) <- split_at 16 input split_idx;
  match dateparse date_str with
  | DOk p => LOk (TDate p, result_remaining)
  | DErr p => LErr (LEOracle p)
  | DMissing => LErr LEOracleMissing
  end.

(* Lexer::next_token; None = end of input *)
Definition next_token (st : lstate) (comma : bool) (input : list N)
  : lres (option tok * list N) :=
  ldo input <- skip_ws (S (length input)) input;
  match input with
  | [] => LOk (None, [])
  | ch :: tl =>
    let following_is_digit := match tl with f :: _ => is_ascii_digit f | [] => false end in
    if is_ascii_digit ch
       || ((ch =? decimal_separator comma) && (after_backslash st =? 0))
       || ((ch =? 100) && following_is_digit)
    then
      match numparse comma input with
      | NOk p remaining => LOk (Some (TNum p), remaining)
      | NErr p => LErr (LEOracle p)
      | NMissing => LErr LEOracleMissing
      end
    else if (ch =? 39) || (ch =? 34) then
      if after_number_or_to st then
        ldo (t, remaining) <- parse_quote_unit input; LOk (Some t, remaining)
      else
        ldo (t, remaining) <- parse_string_literal input ch; LOk (Some t, remaining)
    else if ch =? 64 then
      ldo (t, remaining) <- parse_date input; LOk (Some t, remaining)
    else if starts_with_s input [35; 34] then
      ldo (_, remaining) <- split_at 17 input 2;
      match find_sub2 34 35 remaining with
      | None => LErr LEUnterminatedStringLiteral
      | Some literal_length =>
        ldo (literal, remaining) <- split_at 18 remaining literal_length;
        ldo (_, remaining) <- split_at 19 remaining 2;
        LOk (Some (TStr (enc literal)), remaining)
      end
    else if is_valid_in_ident ch None then
      ldo (t, remaining) <- parse_ident input (negb (after_backslash st =? 1));
      LOk (Some t, remaining)
    else
      ldo (_, remaining) <- split_at 20 input (len_utf8 ch);
      ldo (t, remaining) <- parse_symbol ch remaining;
      LOk (Some t, remaining)
  end.

(* the state update of Iterator::next, given the token just produced *)
Definition next_state (st : lstate) (t : tok) : lstate :=
  let anot := match t with TNum _ => true | TSym UnitConversion => true | _ => false end in
  let abs :=
    match t with
    | TSym Backslash => 1
    | _ => if after_backslash st =? 1
           then match t with TIdent _ => 2 | _ => 0 end
           else 0
    end in
  mkst abs anot.

(* draining the iterator the way every caller does (stop at the first Err).
   The trace records, with each token, the byte length of the input that
   remains after it. *)
Fixpoint lex_loop (fuel : nat) (st : lstate) (comma : bool) (input : list N)
         (acc : list (tok * nat)) : list (tok * nat) * lres unit :=
  match fuel with
  | O => (rev acc, LPanic 0)
  | S f =>
    match next_token st comma input with
    | LPanic k => (rev acc, LPanic k)
    | LErr e => (rev acc, LErr e)
    | LOk (None, _) => (rev acc, LOk tt)
    | LOk (Some t, remaining) =>
      lex_loop f (next_state st t) comma remaining ((t, blen remaining) :: acc)
    end
  end.

Definition lex_trace (comma : bool) (input : list N) : list (tok * nat) * lres unit :=
  lex_loop (S (length input)) st0 comma input [].

(* tokens only *)
Definition lex (comma : bool) (input : list N) : lres (list tok) :=
  match lex_trace comma input with
  | (tr, LOk _) => LOk (map fst tr)
  | (_, LErr e) => LErr e
  | (_, LPanic k) => LPanic k
  end.

End Lexer.
