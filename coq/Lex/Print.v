(* Lex/Print.v -- printing token lists to text, and the (boolean, executable)
   side conditions under which Lex/PrintProofs.v shows that lexing the
   printed text gives the token list back.  An item is a token, the text it is
   spelled with, and the number of spaces in front of it.  No proofs. *)
From FendV Require Import Base.Prelude Lang.Syntax Crash.Utf8 Lex.Lexer.
Open Scope N_scope.

Record item := mkitem { it_tok : tok; it_text : list N; it_sp : nat }.

Definition render_item (it : item) : list N := repeat 32 (it_sp it) ++ it_text it.

Fixpoint render (items : list item) : list N :=
  match items with [] => [] | it :: r => render_item it ++ render r end.

(* symbol spellings made of punctuation (handled by parse_symbol); Backslash
   and Dot are excluded: the first changes the lexer state, the second is the
   decimal separator *)
Definition punct_sym (text : list N) : option sym :=
  if list_N_eqb text [40] then Some OpenParens
  else if list_N_eqb text [41] then Some CloseParens
  else if list_N_eqb text [43] then Some Add
  else if list_N_eqb text [33] then Some Factorial
  else if list_N_eqb text [33; 61] then Some NotEquals
  else if list_N_eqb text [45] then Some Sub
  else if list_N_eqb text [8722] then Some Sub
  else if list_N_eqb text [42] then Some Mul
  else if list_N_eqb text [215] then Some Mul
  else if list_N_eqb text [10005] then Some Mul
  else if list_N_eqb text [42; 42] then Some Pow
  else if list_N_eqb text [215; 42] then Some Pow
  else if list_N_eqb text [10005; 42] then Some Pow
  else if list_N_eqb text [47] then Some Div
  else if list_N_eqb text [247] then Some Div
  else if list_N_eqb text [8725] then Some Div
  else if list_N_eqb text [94] then Some Pow
  else if list_N_eqb text [38] then Some BitwiseAnd
  else if list_N_eqb text [124] then Some BitwiseOr
  else if list_N_eqb text [58] then Some Fn
  else if list_N_eqb text [61] then Some Equals
  else if list_N_eqb text [61; 62] then Some Fn
  else if list_N_eqb text [61; 61] then Some DoubleEquals
  else if list_N_eqb text [8800] then Some NotEquals
  else if list_N_eqb text [60; 60] then Some ShiftLeft
  else if list_N_eqb text [60; 62] then Some NotEquals
  else if list_N_eqb text [62; 62] then Some ShiftRight
  else if list_N_eqb text [59] then Some Semicolon
  else None.

(* what may directly follow a punctuation spelling (two-character symbols
   are recognised greedily by test_next) *)
Definition abut_punct (text : list N) (c : N) : bool :=
  if list_N_eqb text [33] then negb (c =? 61)
  else if list_N_eqb text [42] || list_N_eqb text [215] || list_N_eqb text [10005]
  then negb (c =? 42)
  else if list_N_eqb text [61] then negb (c =? 62) && negb (c =? 61)
  else true.

Definition starts_with_digit (s : list N) : bool :=
  match s with f :: _ => is_ascii_digit f | [] => false end.

(* the dispatch test of next_token for numbers (after_backslash_state = 0) *)
Definition num_start (comma : bool) (text : list N) : bool :=
  match text with
  | [] => false
  | c :: r => is_ascii_digit c || (c =? decimal_separator comma)
              || ((c =? 100) && starts_with_digit r)
  end.

Section Print.

Variable alpha_hi : N -> bool.
Variable numparse : bool -> list N -> numres.
Variable comma : bool.

Notation is_valid_in_ident := (is_valid_in_ident alpha_hi).

Fixpoint all_valid (prev : N) (r : list N) : bool :=
  match r with
  | [] => true
  | c :: r' => is_valid_in_ident c (Some prev) && all_valid c r'
  end.

(* text that parse_ident reads as one identifier-like word *)
Definition word_ok (text : list N) : bool :=
  match text with
  | [] => false
  | c :: r =>
    is_valid_in_ident c None && negb (is_whitespace c) && negb (num_start comma text)
    && all_valid c r
  end.

Definition opt_sym_eqb (a : option sym) (b : sym) : bool :=
  match a with Some x => sym_eqb x b | None => false end.

(* the token is spelled by the text *)
Definition tok_text_ok (t : tok) (text : list N) : bool :=
  match t with
  | TNum _ => num_start comma text
  | TIdent b =>
    word_ok text && (match keyword text with None => true | Some _ => false end)
    && list_N_eqb b (enc text)
  | TSym s =>
    match text with
    | [] => false
    | c :: _ =>
      if is_valid_in_ident c None then word_ok text && opt_sym_eqb (keyword text) s
      else opt_sym_eqb (punct_sym text) s
    end
  | TStr _ | TDate _ => false
  end.

(* may character c directly follow the text of token t? (numbers: see nums_ok) *)
Definition abut_ok (t : tok) (text : list N) (c : N) : bool :=
  match t with
  | TNum _ => true
  | _ =>
    match text with
    | [] => true
    | c0 :: _ =>
      if is_valid_in_ident c0 None
      then negb (is_valid_in_ident c (Some (last text 0)))
      else abut_punct text c
    end
  end.

Fixpoint items_ok (items : list item) : bool :=
  match items with
  | [] => true
  | it :: r =>
    tok_text_ok (it_tok it) (it_text it)
    && match r with
       | [] => true
       | it2 :: _ => Nat.ltb 0 (it_sp it2) || abut_ok (it_tok it) (it_text it) (hd 0 (it_text it2))
       end
    && items_ok r
  end.

(* the number oracle, asked on the actual rest of the text, returns the
   payload and stops exactly where the number text ends *)
Fixpoint nums_ok (items : list item) : bool :=
  match items with
  | [] => true
  | it :: r =>
    match it_tok it with
    | TNum p =>
      match numparse comma (it_text it ++ render r) with
      | NOk p' rest => list_N_eqb p p' && list_N_eqb rest (render r)
      | _ => false
      end
    | _ => true
    end && nums_ok r
  end.

(* the spacing rule of gen/c08.py's render: a space between two word-like
   tokens and between two punctuation tokens; otherwise optional *)
Definition wordlike (it : item) : bool :=
  match it_tok it with
  | TSym _ => match it_text it with c :: _ => is_valid_in_ident c None | [] => false end
  | _ => true
  end.

Definition toks_ok (items : list item) : bool :=
  forallb (fun it => tok_text_ok (it_tok it) (it_text it)) items.

Fixpoint c08_spaced (items : list item) : bool :=
  match items with
  | [] => true
  | it :: r =>
    match r with
    | [] => true
    | it2 :: _ => negb (Bool.eqb (wordlike it) (wordlike it2)) || Nat.ltb 0 (it_sp it2)
    end && c08_spaced r
  end.

End Print.
