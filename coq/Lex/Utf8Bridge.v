(* Lex/Utf8Bridge.v -- the lexer model slices code-point lists at BYTE
   offsets; this file proves that its split_at is str::split_at on the UTF-8
   encoding as modelled at byte level in Crash/Utf8.v: same success, same two
   halves, and a panic exactly when the byte-level function panics (offset
   inside a character or past the end).  So "no Panic in the model" is a
   statement about byte offsets, not an artefact of working on characters. *)
From FendV Require Import Base.Prelude Crash.Utf8 Crash.Utf8Proofs Lex.Lexer Lex.LexerProofs.
From Coq Require Import Lia ZifyBool.
Open Scope N_scope.

Arguments N.add : simpl never.
Arguments N.mul : simpl never.
Arguments N.div : simpl never.
Arguments N.modulo : simpl never.
Arguments N.ltb : simpl never.
Arguments N.leb : simpl never.
Arguments N.eqb : simpl never.

Lemma enc1_length c : length (enc1 c) = len_utf8 c.
Proof. unfold enc1, len_utf8. repeat destruct (_ <? _); reflexivity. Qed.

Lemma enc_length s : length (enc s) = blen s.
Proof.
  induction s as [|c s IH]; cbn [enc blen]; [reflexivity|].
  rewrite app_length, enc1_length, IH. reflexivity.
Qed.

(* every byte of an encoded character after the first is a continuation byte *)
Lemma enc1_inside c i : (0 < i)%nat -> (i < len_utf8 c)%nat ->
  exists b, nth_error (enc1 c) i = Some b /\ is_cont b = true.
Proof.
  intros H0 Hi. unfold enc1, len_utf8 in *.
  pose proof (N.mod_lt c 64 ltac:(lia)) as M1.
  pose proof (N.mod_lt (c / 64) 64 ltac:(lia)) as M2.
  pose proof (N.mod_lt (c / 4096) 64 ltac:(lia)) as M3.
  generalize dependent (c mod 64). generalize dependent ((c / 64) mod 64).
  generalize dependent ((c / 4096) mod 64). intros x3 M3 x2 M2 x1 M1.
  destruct (c <? 128); [lia|].
  destruct (c <? 2048); [|destruct (c <? 65536)];
    destruct i as [|[|[|[|i]]]]; try lia; cbn [nth_error];
    (eexists; split; [reflexivity|unfold is_cont; lia]).
Qed.

Lemma boundary_shift (p q : list N) j : (length p < j)%nat ->
  is_char_boundary (p ++ q) j = is_char_boundary q (j - length p).
Proof.
  intros H. unfold is_char_boundary.
  destruct j as [|j]; [lia|]. destruct (S j - length p)%nat as [|d] eqn:E; [lia|].
  rewrite <- E. rewrite nth_error_app2 by lia.
  destruct (nth_error q (S j - length p)); [reflexivity|].
  rewrite app_length.
  destruct (Nat.eqb_spec (S j) (length p + length q)), (Nat.eqb_spec (S j - length p) (length q));
    try reflexivity; lia.
Qed.

Lemma boundary_inside c (q : list N) j : (0 < j)%nat -> (j < len_utf8 c)%nat ->
  is_char_boundary (enc1 c ++ q) j = false.
Proof.
  intros H0 Hj. destruct (enc1_inside c j H0 Hj) as (b & Hb & Hc).
  unfold is_char_boundary. destruct j as [|j]; [lia|].
  rewrite nth_error_app1 by (rewrite enc1_length; lia).
  rewrite Hb, Hc. reflexivity.
Qed.

Lemma split_at_panic_bytes k : forall s mid j,
  Lexer.split_at k s mid = LPanic j -> is_char_boundary (enc s) mid = false.
Proof.
  induction s as [|c s IH]; intros mid j H; cbn [Lexer.split_at] in H.
  - destruct mid as [|m]; [discriminate|]. reflexivity.
  - destruct mid as [|m]; [discriminate|]. cbn [enc].
    destruct (Nat.leb (len_utf8 c) (S m)) eqn:E.
    + apply Nat.leb_le in E.
      destruct (Lexer.split_at k s (S m - len_utf8 c)) as [[a b]| |j'] eqn:E2; try discriminate.
      destruct (Nat.eq_dec (S m) (len_utf8 c)) as [Heq|Hne].
      * rewrite Heq, Nat.sub_diag, split_at_0 in E2. discriminate.
      * rewrite boundary_shift by (rewrite enc1_length; lia).
        rewrite enc1_length. exact (IH _ _ E2).
    + apply Nat.leb_gt in E. apply boundary_inside; lia.
Qed.

Theorem split_at_bytes k s mid : forallb is_scalar s = true ->
  match Lexer.split_at k s mid with
  | LOk (a, b) => Utf8.split_at (enc s) mid = Ok (enc a, enc b)
  | LPanic _ => Utf8.split_at (enc s) mid = Panic 1
  | LErr _ => False
  end.
Proof.
  intros Hs. destruct (Lexer.split_at k s mid) as [[a b]|e|j] eqn:E.
  - destruct (split_at_ok_inv _ _ _ _ _ E) as [-> ->].
    rewrite forallb_app in Hs. apply andb_prop in Hs as [_ Hb].
    unfold Utf8.split_at. rewrite enc_app, <- enc_length.
    rewrite boundary_after_prefix by exact Hb.
    rewrite firstn_app_len, skipn_app_len. reflexivity.
  - exact (split_at_never_err _ _ _ _ E).
  - unfold Utf8.split_at. rewrite (split_at_panic_bytes _ _ _ _ E). reflexivity.
Qed.

(* the offset the model reports for the rest of the input is the byte length
   of the encoded rest *)
Lemma blen_bytes s : blen s = length (enc s).
Proof. symmetry. apply enc_length. Qed.
