(* Lex/LexerProofs.v -- every slice site of the lexer model is unreachable,
   every successful step consumes input, and the offset-computing functions
   equal plain character-level functions (ident_span, ...) that never mention
   a byte offset.  All statements are for arbitrary inputs and arbitrary
   oracles; only the progress of parse_number is an assumption (num_contract). *)
From FendV Require Import Base.Prelude Lang.Syntax Crash.Utf8 Lex.Lexer.
From Coq Require Import Lia ZifyBool.
Open Scope N_scope.

Arguments N.add : simpl never.
Arguments N.mul : simpl never.
Arguments N.div : simpl never.
Arguments N.modulo : simpl never.
Arguments N.ltb : simpl never.
Arguments N.leb : simpl never.
Arguments N.eqb : simpl never.

(* ---- slicing ---------------------------------------------------------- *)

Lemma len_utf8_pos c : (1 <= len_utf8 c)%nat.
Proof. unfold len_utf8. repeat destruct (_ <? _); lia. Qed.

Lemma len_utf8_ascii c : c <? 128 = true -> len_utf8 c = 1%nat.
Proof. intros H. unfold len_utf8. rewrite H. reflexivity. Qed.

Lemma split_at_0 k s : split_at k s 0 = LOk ([], s).
Proof. destruct s; reflexivity. Qed.

Lemma blen_app a b : blen (a ++ b) = (blen a + blen b)%nat.
Proof. induction a as [|c a IH]; cbn [blen app]; lia. Qed.

Lemma blen_ge_length s : (length s <= blen s)%nat.
Proof.
  induction s as [|c s IH]; cbn [blen length]; [lia|].
  pose proof (len_utf8_pos c). lia.
Qed.

(* the central fact: a byte offset that is the byte length of a prefix of
   whole characters is a valid split point, and splits there *)
Lemma split_at_app k a b : split_at k (a ++ b) (blen a) = LOk (a, b).
Proof.
  induction a as [|c a IH]; cbn [app blen].
  - apply split_at_0.
  - cbn [split_at]. pose proof (len_utf8_pos c) as Hp.
    destruct (len_utf8 c + blen a)%nat eqn:E; [lia|]. rewrite <- E.
    replace (Nat.leb (len_utf8 c) (len_utf8 c + blen a)) with true
      by (symmetry; apply Nat.leb_le; lia).
    replace (len_utf8 c + blen a - len_utf8 c)%nat with (blen a) by lia.
    rewrite IH. reflexivity.
Qed.

Lemma split_at_cons k c r : split_at k (c :: r) (len_utf8 c) = LOk ([c], r).
Proof.
  replace (len_utf8 c) with (blen [c]) by (cbn [blen]; lia).
  exact (split_at_app k [c] r).
Qed.

Lemma split_at_all k a : split_at k a (blen a) = LOk (a, []).
Proof. pose proof (split_at_app k a []) as H. rewrite app_nil_r in H. exact H. Qed.

(* conversely a successful split is a split of the character list at that
   byte length; so an offset inside a character is a Panic *)
Lemma split_at_ok_inv k : forall s mid a b,
  split_at k s mid = LOk (a, b) -> s = a ++ b /\ mid = blen a.
Proof.
  induction s as [|c s IH]; intros mid a b H; cbn [split_at] in H.
  - destruct mid; [|discriminate]. injection H as <- <-. split; reflexivity.
  - destruct mid as [|m]; [injection H as <- <-; split; reflexivity|].
    destruct (Nat.leb (len_utf8 c) (S m)) eqn:E; [|discriminate].
    destruct (split_at k s (S m - len_utf8 c)) as [[a' b']| |] eqn:E2; try discriminate.
    injection H as <- <-. destruct (IH _ _ _ E2) as [-> Hm].
    apply Nat.leb_le in E. split; [reflexivity|]. cbn [blen]. lia.
Qed.

Lemma split_at_never_err k s mid e : split_at k s mid <> LErr e.
Proof.
  revert mid. induction s as [|c s IH]; intros mid H; cbn [split_at] in H.
  - destruct mid; discriminate.
  - destruct mid as [|m]; [discriminate|].
    destruct (Nat.leb (len_utf8 c) (S m)); [|discriminate].
    destruct (split_at k s (S m - len_utf8 c)) as [[a' b']| |] eqn:E2; try discriminate.
    injection H as ->. exact (IH _ E2).
Qed.

Lemma parse_char_cons c r : parse_char (c :: r) = LOk (c, r).
Proof. unfold parse_char. rewrite split_at_cons. reflexivity. Qed.

(* ---- find ------------------------------------------------------------- *)

Lemma find_char_some c : forall s i, find_char c s = Some i ->
  exists pre post, s = pre ++ c :: post /\ i = blen pre.
Proof.
  induction s as [|x s IH]; intros i H; cbn [find_char] in H; [discriminate|].
  destruct (x =? c) eqn:E.
  - injection H as <-. apply N.eqb_eq in E. subst x. exists [], s. split; reflexivity.
  - destruct (find_char c s) as [j|]; [|discriminate]. injection H as <-.
    destruct (IH j eq_refl) as (pre & post & -> & ->).
    exists (x :: pre), post. split; reflexivity.
Qed.

Lemma find_sub2_some a b : forall s i, find_sub2 a b s = Some i ->
  exists pre post, s = pre ++ a :: b :: post /\ i = blen pre.
Proof.
  induction s as [|x s IH]; intros i H; cbn [find_sub2] in H; [discriminate|].
  destruct ((x =? a) && starts_with_c s b) eqn:E.
  - injection H as <-. apply andb_prop in E as [E1 E2]. apply N.eqb_eq in E1. subst x.
    destruct s as [|y s]; [discriminate|]. cbn [starts_with_c] in E2.
    apply N.eqb_eq in E2. subst y. exists [], s. split; reflexivity.
  - destruct (find_sub2 a b s) as [j|]; [|discriminate]. injection H as <-.
    destruct (IH j eq_refl) as (pre & post & -> & ->).
    exists (x :: pre), post. split; reflexivity.
Qed.

Lemma starts_with_s_app : forall p s, starts_with_s s p = true -> exists r, s = p ++ r.
Proof.
  induction p as [|b p IH]; intros s H.
  - exists s. reflexivity.
  - destruct s as [|c s]; [discriminate|]. cbn [starts_with_s] in H.
    apply andb_prop in H as [Hb H]. apply N.eqb_eq in Hb. subst c.
    destruct (IH s H) as (r & ->). exists r. reflexivity.
Qed.

(* ---- results that consume input --------------------------------------- *)

(* [consumes s r]: r never panics, and a success leaves a proper suffix *)
Definition consumes {A} (s : list N) (r : lres (A * list N)) : Prop :=
  match r with
  | LPanic _ => False
  | LErr _ => True
  | LOk (_, rest) => exists pre, pre <> [] /\ s = pre ++ rest
  end.

Section Proofs.

Variable alpha_hi : N -> bool.
Variable numparse : bool -> list N -> numres.
Variable dateparse : list N -> dateres.

Notation is_alphabetic := (is_alphabetic alpha_hi).
Notation is_valid_in_ident := (is_valid_in_ident alpha_hi).
Notation ident_loop := (ident_loop alpha_hi).
Notation parse_ident := (parse_ident alpha_hi).
Notation quote_loop := (quote_loop alpha_hi).
Notation parse_quote_unit := (parse_quote_unit alpha_hi).
Notation parse_date := (parse_date dateparse).
Notation next_token := (next_token alpha_hi numparse dateparse).
Notation lex_loop := (lex_loop alpha_hi numparse dateparse).
Notation lex_trace := (lex_trace alpha_hi numparse dateparse).
Notation lex := (lex alpha_hi numparse dateparse).

(* ---- identifiers ------------------------------------------------------ *)

(* character-level description of the loop of parse_ident: the longest run of
   characters each valid after its predecessor *)
Fixpoint ident_span (allow_dots : bool) (prev : N) (s : list N) : list N * list N :=
  match s with
  | [] => ([], [])
  | c :: r =>
    if negb (is_valid_in_ident c (Some prev)) || ((c =? 46) && negb allow_dots)
    then ([], s)
    else let '(a, b) := ident_span allow_dots c r in (c :: a, b)
  end.

Lemma ident_span_app ad : forall s prev, s = fst (ident_span ad prev s) ++ snd (ident_span ad prev s).
Proof.
  induction s as [|c r IH]; intros prev; cbn [ident_span]; [reflexivity|].
  destruct (negb (is_valid_in_ident c (Some prev)) || ((c =? 46) && negb ad)); [reflexivity|].
  specialize (IH c). destruct (ident_span ad c r) as [a b]. cbn [fst snd] in *.
  cbn [app]. f_equal. exact IH.
Qed.

Lemma ident_loop_eq ad : forall fuel s idx prev, (length s < fuel)%nat ->
  ident_loop fuel ad s idx prev = LOk (idx + blen (fst (ident_span ad prev s)))%nat.
Proof.
  induction fuel as [|f IH]; intros s idx prev Hf; [lia|].
  cbn [Lexer.ident_loop]. destruct s as [|c r].
  - cbn [parse_char ident_span fst blen]. f_equal. lia.
  - rewrite parse_char_cons. cbn [ident_span].
    destruct (negb (is_valid_in_ident c (Some prev)) || ((c =? 46) && negb ad)).
    + cbn [fst blen]. f_equal. lia.
    + cbn [length] in Hf. rewrite IH by lia.
      destruct (ident_span ad c r) as [a b]. cbn [fst blen]. f_equal. lia.
Qed.

Definition bad_ident_start (c : N) (ad : bool) : bool :=
  negb (is_valid_in_ident c None) || ((c =? 46) && negb ad).

(* parse_ident computes exactly the character-level span; no offset survives *)
Lemma parse_ident_eq c r ad :
  parse_ident (c :: r) ad =
  if bad_ident_start c ad then LErr (LEInvalidCharAtBeginningOfIdent c)
  else let '(a, b) := ident_span ad c r in LOk (ident_token (c :: a), b).
Proof.
  unfold Lexer.parse_ident, bad_ident_start. rewrite parse_char_cons. cbn [lbind].
  destruct (negb (is_valid_in_ident c None) || ((c =? 46) && negb ad)); [reflexivity|].
  rewrite split_at_cons. cbn [lbind].
  rewrite ident_loop_eq by lia. cbn [lbind].
  pose proof (ident_span_app ad r c) as Hs.
  destruct (ident_span ad c r) as [a b]. cbn [fst snd] in *.
  replace (len_utf8 c + blen a)%nat with (blen (c :: a)) by reflexivity.
  rewrite Hs at 1. change (c :: a ++ b) with ((c :: a) ++ b).
  rewrite split_at_app. reflexivity.
Qed.

Lemma parse_ident_nil ad : parse_ident [] ad = LErr LEExpectedACharacter.
Proof. reflexivity. Qed.

Lemma parse_ident_consumes s ad : consumes s (parse_ident s ad).
Proof.
  destruct s as [|c r]; [exact I|]. rewrite parse_ident_eq.
  destruct (bad_ident_start c ad); [exact I|].
  pose proof (ident_span_app ad r c) as Hs.
  destruct (ident_span ad c r) as [a b]. cbn [fst snd] in Hs. cbn [consumes].
  exists (c :: a). split; [discriminate|]. cbn [app]. f_equal. exact Hs.
Qed.

(* ---- symbols ---------------------------------------------------------- *)

Lemma test_next_eq next input :
  test_next next input =
  match input with
  | x :: r => if x =? next then LOk (true, r) else LOk (false, input)
  | [] => LOk (false, [])
  end.
Proof.
  unfold test_next. destruct input as [|x r]; cbn [starts_with_c]; [reflexivity|].
  destruct (x =? next) eqn:E; [|reflexivity].
  apply N.eqb_eq in E. subst x. rewrite split_at_cons. reflexivity.
Qed.

(* [weak s r]: no panic, and a success leaves a (possibly improper) suffix *)
Definition weak {A} (s : list N) (r : lres (A * list N)) : Prop :=
  match r with
  | LPanic _ => False
  | LErr _ => True
  | LOk (_, rest) => exists pre, s = pre ++ rest
  end.

Lemma weak_refl {A} (a : A) s : weak s (LOk (a, s)).
Proof. exists []. reflexivity. Qed.

Lemma test_next_weak next input : weak input (test_next next input).
Proof.
  rewrite test_next_eq. destruct input as [|x r]; [apply weak_refl|].
  destruct (x =? next); [exists [x]; reflexivity|apply weak_refl].
Qed.

Lemma parse_symbol_weak ch input : weak input (parse_symbol ch input).
Proof.
  unfold parse_symbol.
  repeat match goal with
  | |- weak _ (if ?c then _ else _) => destruct c
  | |- weak _ (LOk (_, input)) => apply weak_refl
  | |- weak _ (LErr _) => exact I
  end.
  all: rewrite !test_next_eq; destruct input as [|x r]; cbn [lbind];
    try (apply weak_refl); try exact I.
  all: repeat match goal with
  | |- weak _ (lbind (if ?c then _ else _) _) => destruct c; cbn [lbind]
  | |- weak _ (if ?c then _ else _) => destruct c; cbn [lbind]
  end; try exact I; try (apply weak_refl); try (exists [x]; reflexivity).
  all: rewrite ?test_next_eq; try destruct r as [|y r]; cbn [lbind]; try exact I;
    try (apply weak_refl); try (exists [x]; reflexivity).
  all: repeat match goal with
  | |- weak _ (lbind (if ?c then _ else _) _) => destruct c; cbn [lbind]
  | |- weak _ (if ?c then _ else _) => destruct c; cbn [lbind]
  end; try exact I; try (apply weak_refl); try (exists [x]; reflexivity);
    try (exists [x; y]; reflexivity).
Qed.

(* ---- quote units ------------------------------------------------------ *)

Lemma quote_loop_eq input : forall fuel done remaining prev,
  input = done ++ remaining -> (length remaining < fuel)%nat ->
  quote_loop fuel input remaining (blen done) prev =
  LOk (blen done + blen (fst (ident_span true prev remaining)))%nat.
Proof.
  induction fuel as [|f IH]; intros done remaining prev Hin Hf; [lia|].
  cbn [Lexer.quote_loop]. destruct remaining as [|c r].
  - cbn [ident_span fst blen]. f_equal. lia.
  - cbn [ident_span]. rewrite andb_false_r, orb_false_r.
    destruct (negb (is_valid_in_ident c (Some prev))).
    + cbn [fst blen]. f_equal. lia.
    + replace (blen done + len_utf8 c)%nat with (blen (done ++ [c]))
        by (rewrite blen_app; cbn [blen]; lia).
      assert (Hin' : input = (done ++ [c]) ++ r) by (rewrite <- app_assoc; exact Hin).
      rewrite Hin' at 1. rewrite split_at_app. cbn [lbind].
      cbn [length] in Hf. rewrite (IH (done ++ [c]) r c Hin') by lia.
      destruct (ident_span true c r) as [a b]. cbn [fst blen].
      rewrite blen_app. cbn [blen]. f_equal. lia.
Qed.

Lemma parse_quote_unit_eq q r : len_utf8 q = 1%nat ->
  parse_quote_unit (q :: r) =
  match r with
  | [] => LOk (TIdent (enc [q]), [])
  | ch :: r' =>
    if is_alphabetic ch then
      let '(a, b) := ident_span true ch r' in LOk (TIdent (enc (q :: ch :: a)), b)
    else LOk (TIdent (enc [q]), r)
  end.
Proof.
  intros Hq. unfold Lexer.parse_quote_unit.
  rewrite <- Hq at 1. rewrite split_at_cons. cbn [lbind].
  destruct r as [|ch r'].
  - cbn [lbind]. rewrite <- Hq. rewrite split_at_cons. reflexivity.
  - destruct (is_alphabetic ch).
    + replace (1 + len_utf8 ch)%nat with (blen [q; ch]) by (cbn [blen]; lia).
      change (q :: ch :: r') with ([q; ch] ++ r'). rewrite split_at_app. cbn [lbind].
      rewrite (quote_loop_eq ([q; ch] ++ r') (S (length r')) [q; ch] r' ch eq_refl) by lia.
      cbn [lbind]. pose proof (ident_span_app true r' ch) as Hs.
      destruct (ident_span true ch r') as [a b]. cbn [fst snd] in *.
      replace (blen [q; ch] + blen a)%nat with (blen ([q; ch] ++ a)) by (rewrite blen_app; reflexivity).
      rewrite Hs at 1. rewrite app_assoc. rewrite split_at_app. reflexivity.
    + cbn [lbind]. rewrite <- Hq. rewrite split_at_cons. reflexivity.
Qed.

Lemma parse_quote_unit_consumes q r : len_utf8 q = 1%nat ->
  consumes (q :: r) (parse_quote_unit (q :: r)).
Proof.
  intros Hq. rewrite (parse_quote_unit_eq q r Hq). destruct r as [|ch r'].
  - exists [q]. split; [discriminate|reflexivity].
  - destruct (is_alphabetic ch).
    + pose proof (ident_span_app true r' ch) as Hs.
      destruct (ident_span true ch r') as [a b]. cbn [fst snd] in Hs.
      exists (q :: ch :: a). split; [discriminate|]. cbn [app]. do 2 f_equal. exact Hs.
    + exists [q]. split; [discriminate|reflexivity].
Qed.

(* ---- whitespace and comments ------------------------------------------- *)

Lemma skip_ws_weak : forall fuel s, (length s < fuel)%nat ->
  exists r pre, skip_ws fuel s = LOk r /\ s = pre ++ r.
Proof.
  induction fuel as [|f IH]; intros s Hf; [lia|]. cbn [skip_ws].
  destruct s as [|ch tl]; [exists [], []; split; reflexivity|].
  destruct (starts_with_s (ch :: tl) [35; 32] || starts_with_s (ch :: tl) [35; 33]) eqn:E.
  - destruct (find_char 10 (ch :: tl)) as [idx|] eqn:F.
    + destruct (find_char_some _ _ _ F) as (pre & post & Hs & ->).
      rewrite Hs. rewrite split_at_app. cbn [lbind].
      assert (Hpre : pre <> []).
      { intros ->. cbn [app] in Hs. injection Hs as -> _.
        cbn [starts_with_s] in E. change (35 =? 10) with false in E. discriminate. }
      assert (Hl : (length (10%N :: post) < f)%nat).
      { apply (f_equal (@length N)) in Hs. rewrite app_length in Hs. cbn [length] in *.
        destruct pre; [congruence|]. cbn [length] in Hs. lia. }
      destruct (IH (10 :: post) Hl) as (r & pre' & Hr & Hp).
      exists r, (pre ++ pre'). split; [exact Hr|]. rewrite <- app_assoc, <- Hp. reflexivity.
    + exists [], (ch :: tl). split; [reflexivity|]. rewrite app_nil_r. reflexivity.
  - destruct (is_whitespace ch).
    + rewrite split_at_cons. cbn [lbind]. cbn [length] in Hf.
      destruct (IH tl ltac:(lia)) as (r & pre' & Hr & Hp).
      exists r, (ch :: pre'). split; [exact Hr|]. cbn [app]. f_equal. exact Hp.
    + exists (ch :: tl), []. split; reflexivity.
Qed.

(* ---- dates -------------------------------------------------------------- *)

Lemma ascii_digit_len c : is_ascii_digit c = true -> len_utf8 c = 1%nat.
Proof.
  intros H. apply len_utf8_ascii. unfold is_ascii_digit in H. lia.
Qed.

Lemma date_digits_good : forall fuel s n idx, (length s < fuel)%nat ->
  exists a b k, date_digits fuel s n idx = LOk (b, (n + k)%nat, (idx + blen a)%nat) /\ s = a ++ b.
Proof.
  induction fuel as [|f IH]; intros s n idx Hf; [lia|]. cbn [date_digits].
  destruct s as [|c r].
  - exists [], [], O. split; [cbn [blen]; rewrite !Nat.add_0_r; reflexivity|reflexivity].
  - destruct (is_ascii_digit c) eqn:E.
    + cbn [length] in Hf. destruct (IH r (S n) (S idx) ltac:(lia)) as (a & b & k & Hd & Hs).
      exists (c :: a), b, (S k). split; [|cbn [app]; f_equal; exact Hs].
      pose proof (split_at_cons 14 c r) as Hsp. rewrite (ascii_digit_len c E) in Hsp.
      rewrite Hsp. cbn [lbind]. rewrite Hd. cbn [blen]. rewrite (ascii_digit_len c E).
      replace (S n + k)%nat with (n + S k)%nat by lia.
      replace (S idx + blen a)%nat with (idx + (1 + blen a))%nat by lia. reflexivity.
    + exists [], (c :: r), O. split; [cbn [blen]; rewrite !Nat.add_0_r; reflexivity|reflexivity].
Qed.

Lemma date_fields_good : forall i s idx,
  match date_fields i s idx with
  | LPanic _ => False
  | LErr _ => True
  | LOk j => exists a b, s = a ++ b /\ j = (idx + blen a)%nat
  end.
Proof.
  induction i as [|i IH]; intros s idx; cbn [date_fields].
  - exists [], s. split; [reflexivity|cbn [blen]; lia].
  - destruct (date_digits_good (S (length s)) s 0 idx ltac:(lia)) as (a & b & k & Hd & Hs).
    rewrite Hd. cbn [lbind].
    destruct (Nat.eqb (0 + k) 0); [exact I|].
    destruct (Nat.eqb i 0).
    + exists a, b. split; [exact Hs|reflexivity].
    + destruct b as [|x b']; cbn [starts_with_c negb]; [exact I|].
      destruct (x =? 45) eqn:E; cbn [negb]; [|exact I].
      apply N.eqb_eq in E. subst x.
      change 1%nat with (len_utf8 45) at 1. rewrite split_at_cons. cbn [lbind].
      specialize (IH b' (S (idx + blen a))).
      destruct (date_fields i b' (S (idx + blen a))) as [j|e|k']; [|exact I|exact IH].
      destruct IH as (a2 & b2 & Hb & ->).
      exists (a ++ 45 :: a2), b2. split.
      * rewrite Hs, Hb, <- app_assoc. reflexivity.
      * rewrite blen_app. cbn [blen]. change (len_utf8 45) with 1%nat. lia.
Qed.

Lemma parse_date_consumes r : consumes (64 :: r) (parse_date (64 :: r)).
Proof.
  unfold Lexer.parse_date. change 1%nat with (len_utf8 64) at 1.
  rewrite split_at_cons. cbn [lbind].
  pose proof (date_fields_good 3 r 0) as H.
  destruct (date_fields 3 r 0) as [j|e|k]; cbn [lbind]; [|exact I|exact H].
  destruct H as (a & b & -> & ->). cbn [Nat.add]. rewrite split_at_app. cbn [lbind].
  destruct (dateparse a); cbn [consumes]; try exact I.
  exists (64 :: a). split; [discriminate|reflexivity].
Qed.

(* ---- string literals ---------------------------------------------------- *)

Lemma char_indices_length : forall s i, length (char_indices_from i s) = length s.
Proof. induction s as [|c s IH]; intros i; cbn [char_indices_from length]; [reflexivity|]. now rewrite IH. Qed.

Lemma to_digit_lt radix c d : to_digit radix c = Some d -> d < radix.
Proof.
  unfold to_digit. intros H.
  destruct (if is_ascii_digit c then Some (c - 48)
            else if (97 <=? c) && (c <=? 122) then Some (c - 87)
            else if (65 <=? c) && (c <=? 90) then Some (c - 55) else None) as [v|]; [|discriminate].
  destruct (v <? radix) eqn:E; [|discriminate]. injection H as <-. lia.
Qed.

Lemma unicode_loop_good : forall s i v z, v <= 1114111 ->
  match unicode_loop (char_indices_from i s) v z with
  | LPanic _ => False
  | LErr _ => True
  | LOk (_, it) => exists a b, s = a ++ b /\ it = char_indices_from (i + blen a) b
  end.
Proof.
  induction s as [|ch s IH]; intros i v z Hv; cbn [char_indices_from unicode_loop]; [exact I|].
  destruct (is_ascii_hexdigit ch).
  - destruct (to_digit 16 ch) as [d|] eqn:Ed; [|exact I].
    apply to_digit_lt in Ed.
    destruct (4294967296 <=? v * 16 + d) eqn:E1; [lia|].
    destruct (1114111 <? v * 16 + d) eqn:E2; [exact I|].
    specialize (IH (i + len_utf8 ch)%nat (v * 16 + d) false ltac:(lia)).
    destruct (unicode_loop (char_indices_from (i + len_utf8 ch) s) (v * 16 + d) false) as [[c it]|e|k];
      [|exact I|exact IH].
    destruct IH as (a & b & -> & ->). exists (ch :: a), b. split; [reflexivity|].
    cbn [blen]. f_equal. lia.
  - destruct (ch =? 125); [|exact I]. destruct z; [exact I|].
    destruct (is_scalar v); [|exact I].
    exists [ch], s. split; [reflexivity|]. cbn [blen]. f_equal. lia.
Qed.

Lemma parse_unicode_escape_good s i :
  match parse_unicode_escape (char_indices_from i s) with
  | LPanic _ => False
  | LErr _ => True
  | LOk (_, it) => exists a b, s = a ++ b /\ it = char_indices_from (i + blen a) b
  end.
Proof.
  destruct s as [|c s]; cbn [char_indices_from parse_unicode_escape]; [exact I|].
  destruct (negb (c =? 123)); [exact I|].
  pose proof (unicode_loop_good s (i + len_utf8 c)%nat 0 true ltac:(lia)) as H.
  destruct (unicode_loop (char_indices_from (i + len_utf8 c) s) 0 true) as [[ch it]|e|k];
    [|exact I|exact H].
  destruct H as (a & b & -> & ->). exists (c :: a), b. split; [reflexivity|].
  cbn [blen]. f_equal. lia.
Qed.

(* postcondition of the string loop: a reported literal_length is the byte
   offset of an occurrence of the terminator *)
Definition sl_post (term : N) (s : list N) (i : nat) (r : lres (option nat * list N)) : Prop :=
  match r with
  | LPanic _ => False
  | LErr _ => True
  | LOk (None, _) => True
  | LOk (Some idx, _) => exists pre post, s = pre ++ term :: post /\ idx = (i + blen pre)%nat
  end.

Lemma sl_post_extend term consumed s i r :
  sl_post term s (i + blen consumed) r -> sl_post term (consumed ++ s) i r.
Proof.
  unfold sl_post. destruct r as [[[idx|] lit]|e|k]; try exact (fun H => H).
  intros (pre & post & -> & ->). exists (consumed ++ pre), post. split.
  - rewrite <- app_assoc. reflexivity.
  - rewrite blen_app. lia.
Qed.

Lemma string_loop_good term : forall fuel s i acc skip, (length s < fuel)%nat ->
  sl_post term s i (string_loop fuel term (char_indices_from i s) acc skip).
Proof.
  induction fuel as [|f IH]; intros s i acc skip Hf; [lia|].
  destruct s as [|ch s1]; [exact I|].
  cbn [char_indices_from string_loop]. cbn [length] in Hf.
  assert (step1 : forall acc' skip',
    sl_post term (ch :: s1) i (string_loop f term (char_indices_from (i + len_utf8 ch) s1) acc' skip')).
  { intros acc' skip'. apply (sl_post_extend term [ch] s1).
    replace (i + blen [ch])%nat with (i + len_utf8 ch)%nat by (cbn [blen]; lia).
    apply IH. lia. }
  destruct (skip && is_ascii_whitespace ch); [apply step1|].
  destruct (ch =? term) eqn:Et.
  { apply N.eqb_eq in Et. subst ch. exists [], s1. split; [reflexivity|cbn [blen]; lia]. }
  destruct (ch =? 92); [|apply step1].
  destruct s1 as [|next s2]; [exact I|]. cbn [char_indices_from]. cbn [length] in Hf.
  assert (step2 : forall acc' skip',
    sl_post term (ch :: next :: s2) i
      (string_loop f term (char_indices_from (i + len_utf8 ch + len_utf8 next) s2) acc' skip')).
  { intros acc' skip'. apply (sl_post_extend term [ch; next] s2).
    replace (i + blen [ch; next])%nat with (i + len_utf8 ch + len_utf8 next)%nat by (cbn [blen]; lia).
    apply IH. lia. }
  destruct (simple_escape next); [apply step2|].
  destruct (next =? 120).
  { destruct s2 as [|h1 [|h2 s3]]; cbn [char_indices_from]; try exact I.
    destruct (to_digit 8 h1) as [d1|] eqn:E1; [|exact I]. apply to_digit_lt in E1.
    destruct (256 <=? d1) eqn:B1; [lia|].
    destruct (to_digit 16 h2) as [d2|] eqn:E2; [|exact I]. apply to_digit_lt in E2.
    destruct (256 <=? d2) eqn:B2; [lia|].
    destruct (256 <=? d1 * 16 + d2) eqn:B3; [lia|].
    apply (sl_post_extend term [ch; next; h1; h2] s3).
    replace (i + blen [ch; next; h1; h2])%nat
      with (i + len_utf8 ch + len_utf8 next + len_utf8 h1 + len_utf8 h2)%nat by (cbn [blen]; lia).
    apply IH. cbn [length] in Hf. lia. }
  destruct (next =? 117).
  { pose proof (parse_unicode_escape_good s2 (i + len_utf8 ch + len_utf8 next)%nat) as H.
    destruct (parse_unicode_escape (char_indices_from (i + len_utf8 ch + len_utf8 next) s2))
      as [[c it]|e|k]; [|exact I|exact H].
    destruct H as (a & b & -> & ->).
    apply (sl_post_extend term (ch :: next :: a) b).
    replace (i + blen (ch :: next :: a))%nat
      with (i + len_utf8 ch + len_utf8 next + blen a)%nat by (cbn [blen]; lia).
    apply IH. rewrite app_length in Hf. lia. }
  destruct (next =? 122); [apply step2|].
  destruct (next =? 94); [|exact I].
  destruct s2 as [|letter s3]; cbn [char_indices_from]; [exact I|].
  assert (step3 : forall acc' skip',
    sl_post term (ch :: next :: letter :: s3) i
      (string_loop f term (char_indices_from (i + len_utf8 ch + len_utf8 next + len_utf8 letter) s3) acc' skip')).
  { intros acc' skip'. apply (sl_post_extend term [ch; next; letter] s3).
    replace (i + blen [ch; next; letter])%nat
      with (i + len_utf8 ch + len_utf8 next + len_utf8 letter)%nat by (cbn [blen]; lia).
    apply IH. cbn [length] in Hf. lia. }
  generalize (letter mod 256). intros code.
  destruct (negb ((63 <=? code) && (code <=? 95))) eqn:Er; [exact I|].
  destruct (code =? 63) eqn:E63; [apply step3|].
  destruct (code <? 64) eqn:E64; [lia|apply step3].
Qed.

Lemma parse_string_literal_consumes q r : len_utf8 q = 1%nat ->
  consumes (q :: r) (parse_string_literal (q :: r) q).
Proof.
  intros Hq. unfold parse_string_literal. rewrite <- Hq at 1. rewrite split_at_cons. cbn [lbind].
  pose proof (string_loop_good q (S (length (char_indices_from 0 r))) r 0 [] false) as H.
  rewrite char_indices_length in *. specialize (H ltac:(lia)).
  destruct (string_loop (S (length r)) q (char_indices_from 0 r) [] false) as [[[idx|] lit]|e|k];
    cbn [lbind]; try exact I; [|exact H].
  destruct H as (pre & post & -> & ->). cbn [Nat.add].
  replace (blen pre + 1)%nat with (blen (pre ++ [q])) by (rewrite blen_app; cbn [blen]; lia).
  replace (pre ++ q :: post) with ((pre ++ [q]) ++ post) by (rewrite <- app_assoc; reflexivity).
  rewrite split_at_app. cbn [lbind consumes].
  exists (q :: pre ++ [q]). split; [discriminate|reflexivity].
Qed.

(* ---- next_token --------------------------------------------------------- *)

(* the contract of the number oracle: a success returns a proper suffix *)
Definition num_contract : Prop :=
  forall comma s p rest, numparse comma s = NOk p rest ->
    exists pre, pre <> [] /\ s = pre ++ rest.

Definition token_post (s : list N) (r : lres (option tok * list N)) : Prop :=
  match r with
  | LPanic _ => False
  | LErr _ => True
  | LOk (None, rest) => rest = []
  | LOk (Some _, rest) => exists pre, pre <> [] /\ s = pre ++ rest
  end.

Lemma consumes_token s0 pre0 s (r : lres (tok * list N)) :
  s0 = pre0 ++ s -> consumes s r ->
  token_post s0 (ldo (t, remaining) <- r; LOk (Some t, remaining)).
Proof.
  intros -> H. destruct r as [[t rest]|e|k]; cbn [lbind token_post consumes] in *; try exact H.
  destruct H as (pre & Hne & ->). exists (pre0 ++ pre). split.
  - destruct pre0; [exact Hne|discriminate].
  - rewrite app_assoc. reflexivity.
Qed.

Theorem next_token_good : num_contract -> forall st comma s,
  token_post s (next_token st comma s).
Proof.
  intros Hnum st comma s0. unfold Lexer.next_token.
  destruct (skip_ws_weak (S (length s0)) s0 ltac:(lia)) as (s & pre0 & -> & Hs0).
  cbn [lbind]. destruct s as [|ch tl]; [reflexivity|].
  set (fd := match tl with f :: _ => is_ascii_digit f | [] => false end). clearbody fd.
  destruct (is_ascii_digit ch || ((ch =? decimal_separator comma) && (after_backslash st =? 0))
            || ((ch =? 100) && fd)).
  { destruct (numparse comma (ch :: tl)) as [p rest|p|] eqn:En; try exact I.
    destruct (Hnum _ _ _ _ En) as (pre & Hne & Hs). cbn [token_post].
    exists (pre0 ++ pre). split; [destruct pre0; [exact Hne|discriminate]|].
    rewrite Hs0, Hs, app_assoc. reflexivity. }
  destruct ((ch =? 39) || (ch =? 34)) eqn:Eq.
  { assert (Hq : len_utf8 ch = 1%nat) by (apply len_utf8_ascii; lia).
    destruct (after_number_or_to st).
    - apply (consumes_token s0 pre0 (ch :: tl)); [exact Hs0|].
      apply parse_quote_unit_consumes. exact Hq.
    - apply (consumes_token s0 pre0 (ch :: tl)); [exact Hs0|].
      apply parse_string_literal_consumes. exact Hq. }
  destruct (ch =? 64) eqn:E64.
  { apply N.eqb_eq in E64. subst ch.
    apply (consumes_token s0 pre0 (64 :: tl)); [exact Hs0|]. apply parse_date_consumes. }
  destruct (starts_with_s (ch :: tl) [35; 34]) eqn:Eraw.
  { destruct (starts_with_s_app _ _ Eraw) as (r & Hr). rewrite Hr.
    change 2%nat with (blen [35; 34]) at 1. rewrite split_at_app. cbn [lbind].
    destruct (find_sub2 34 35 r) as [ll|] eqn:F; [|exact I].
    destruct (find_sub2_some _ _ _ _ F) as (pre & post & -> & ->).
    rewrite split_at_app. cbn [lbind].
    change 2%nat with (blen [34; 35]). change (34 :: 35 :: post) with ([34; 35] ++ post).
    rewrite split_at_app. cbn [lbind token_post].
    exists (pre0 ++ [35; 34] ++ pre ++ [34; 35]). split.
    - destruct pre0; discriminate.
    - rewrite Hs0, Hr. rewrite <- !app_assoc. reflexivity. }
  destruct (is_valid_in_ident ch None).
  { apply (consumes_token s0 pre0 (ch :: tl)); [exact Hs0|]. apply parse_ident_consumes. }
  rewrite split_at_cons. cbn [lbind].
  pose proof (parse_symbol_weak ch tl) as H.
  destruct (parse_symbol ch tl) as [[t rest]|e|k]; cbn [lbind token_post weak] in *; try exact H.
  destruct H as (pre & ->). exists (pre0 ++ ch :: pre). split.
  - destruct pre0; discriminate.
  - rewrite Hs0. rewrite <- app_assoc. reflexivity.
Qed.

(* every successful token consumes at least one character (hence at least
   one byte): the token loop terminates *)
Theorem next_token_progress : num_contract -> forall st comma s t rest,
  next_token st comma s = LOk (Some t, rest) ->
  (length rest < length s)%nat /\ (blen rest < blen s)%nat /\ exists pre, s = pre ++ rest.
Proof.
  intros Hnum st comma s t rest H.
  pose proof (next_token_good Hnum st comma s) as G. rewrite H in G.
  destruct G as (pre & Hne & ->). rewrite app_length, blen_app.
  destruct pre as [|c pre]; [congruence|]. cbn [length blen].
  pose proof (len_utf8_pos c). repeat split; try lia. exists (c :: pre). reflexivity.
Qed.

(* ---- the whole loop ------------------------------------------------------ *)

Theorem lex_loop_no_panic : num_contract -> forall comma fuel st s acc,
  (length s < fuel)%nat -> forall k, snd (lex_loop fuel st comma s acc) <> LPanic k.
Proof.
  intros Hnum comma. induction fuel as [|f IH]; intros st s acc Hf k; [lia|].
  cbn [Lexer.lex_loop].
  pose proof (next_token_good Hnum st comma s) as G.
  destruct (next_token st comma s) as [[[t|] rest]|e|k'] eqn:E; cbn [snd]; try discriminate.
  - destruct (next_token_progress Hnum _ _ _ _ _ E) as (Hl & _). apply IH. lia.
  - destruct G.
Qed.

Theorem lex_no_panic : num_contract -> forall comma s k, lex comma s <> LPanic k.
Proof.
  intros Hnum comma s k. unfold Lexer.lex, Lexer.lex_trace.
  pose proof (lex_loop_no_panic Hnum comma (S (length s)) st0 s [] ltac:(lia)) as H.
  destruct (lex_loop (S (length s)) st0 comma s []) as [tr [u|e|k']]; cbn [snd] in H; try discriminate.
  intros E. injection E as ->. exact (H k eq_refl).
Qed.

(* fuel: any fuel above the character count gives the same trace *)
Theorem lex_loop_fuel : num_contract -> forall comma f1 f2 st s acc,
  (length s < f1)%nat -> (length s < f2)%nat ->
  lex_loop f1 st comma s acc = lex_loop f2 st comma s acc.
Proof.
  intros Hnum comma. induction f1 as [|f1 IH]; intros f2 st s acc H1 H2; [lia|].
  destruct f2 as [|f2]; [lia|]. cbn [Lexer.lex_loop].
  destruct (next_token st comma s) as [[[t|] rest]|e|k'] eqn:E; try reflexivity.
  destruct (next_token_progress Hnum _ _ _ _ _ E) as (Hl & _). apply IH; lia.
Qed.

(* the trace: remaining byte lengths strictly decrease, below the input's *)
Fixpoint decreasing (bound : nat) (l : list nat) : Prop :=
  match l with [] => True | x :: r => (x < bound)%nat /\ decreasing x r end.

Lemma lex_loop_trace : num_contract -> forall comma fuel st s acc,
  (length s < fuel)%nat ->
  exists tr, fst (lex_loop fuel st comma s acc) = rev acc ++ tr /\
             decreasing (blen s) (map snd tr) /\ (length tr <= length s)%nat.
Proof.
  intros Hnum comma. induction fuel as [|f IH]; intros st s acc Hf; [lia|].
  cbn [Lexer.lex_loop].
  destruct (next_token st comma s) as [[[t|] rest]|e|k'] eqn:E; cbn [fst];
    try (exists []; rewrite app_nil_r; repeat split; cbn [length]; lia).
  destruct (next_token_progress Hnum _ _ _ _ _ E) as (Hl & Hb & _).
  destruct (IH (next_state st t) rest ((t, blen rest) :: acc) ltac:(lia)) as (tr & Htr & Hd & Hn).
  exists ((t, blen rest) :: tr). split; [|split].
  - rewrite Htr. cbn [rev]. rewrite <- app_assoc. reflexivity.
  - cbn [map snd decreasing]. split; [exact Hb|exact Hd].
  - cbn [length]. lia.
Qed.

End Proofs.

(* ---- instances used by the Examples of Properties/C06Lex.v, C08Lex.v ------ *)

(* an oracle that satisfies the contract: one character is the number *)
Definition demo_numparse (_ : bool) (s : list N) : numres :=
  match s with c :: r => NOk [c] r | [] => NErr [] end.

Lemma demo_contract : num_contract demo_numparse.
Proof.
  intros comma s p rest H. destruct s as [|c r]; [discriminate|].
  injection H as <- <-. exists [c]. split; [discriminate|reflexivity].
Qed.

(* an oracle that violates it: success without consuming anything *)
Definition stuck_numparse (_ : bool) (s : list N) : numres := NOk [] s.

Definition no_alpha (_ : N) : bool := false.
Definition no_dates (_ : list N) : dateres := DErr [].

(* with a number oracle that does not consume, the token loop does not
   terminate (the model's fuel runs out: site 0); so num_contract is needed *)
Lemma stuck_oracle_diverges :
  lex no_alpha stuck_numparse no_dates false [49] = LPanic 0.
Proof. vm_compute. reflexivity. Qed.

(* a byte offset inside a character panics, as in Rust: the slicing of the
   model is by bytes *)
Lemma split_inside_char : split_at 1 [233; 97] 1 = LPanic 1 /\ split_at 1 [233; 97] 2 = LOk ([233], [97]).
Proof. vm_compute. split; reflexivity. Qed.
