(* Lex/PrintProofs.v -- lexing the printed text of a token list gives the
   token list back, under the boolean side conditions of Lex/Print.v
   (items_ok: every token is spelled by its text; where two texts touch the
   second must not extend the first) and nums_ok (the number oracle stops at
   the end of each number text).  For every oracle. *)
From FendV Require Import Base.Prelude Lang.Syntax Crash.Utf8 Lex.Lexer Lex.LexerProofs Lex.Print.
From Coq Require Import Lia ZifyBool.
Open Scope N_scope.

Lemma list_N_eqb_eq : forall a b, list_N_eqb a b = true -> a = b.
Proof.
  induction a as [|x a IH]; intros [|y b] H; cbn [list_N_eqb] in H; try discriminate; [reflexivity|].
  apply andb_prop in H as [H1 H2]. apply N.eqb_eq in H1. subst y. f_equal. exact (IH _ H2).
Qed.

Lemma list_N_eqb_refl : forall a, list_N_eqb a a = true.
Proof. induction a as [|x a IH]; cbn [list_N_eqb]; [reflexivity|]. rewrite N.eqb_refl, IH. reflexivity. Qed.

Lemma sym_eqb_eq a b : sym_eqb a b = true -> a = b.
Proof. destruct a, b; intros H; try reflexivity; discriminate H. Qed.

Section PrintProofs.

Variable alpha_hi : N -> bool.
Variable numparse : bool -> list N -> numres.
Variable dateparse : list N -> dateres.
Variable comma : bool.

Notation is_alphabetic := (is_alphabetic alpha_hi).
Notation is_valid_in_ident := (is_valid_in_ident alpha_hi).
Notation parse_ident := (parse_ident alpha_hi).
Notation next_token := (next_token alpha_hi numparse dateparse).
Notation lex_loop := (lex_loop alpha_hi numparse dateparse).
Notation lex_trace := (lex_trace alpha_hi numparse dateparse).
Notation lex := (lex alpha_hi numparse dateparse).
Notation ident_span := (ident_span alpha_hi).
Notation all_valid := (all_valid alpha_hi).
Notation word_ok := (word_ok alpha_hi comma).
Notation tok_text_ok := (tok_text_ok alpha_hi comma).
Notation abut_ok := (abut_ok alpha_hi).
Notation items_ok := (items_ok alpha_hi comma).
Notation nums_ok := (nums_ok numparse comma).
Notation wordlike := (wordlike alpha_hi).
Notation toks_ok := (toks_ok alpha_hi comma).
Notation c08_spaced := (c08_spaced alpha_hi).

(* ---- skipping ---------------------------------------------------------- *)

Lemma skip_ws_step f c s : is_whitespace c = true -> c <> 35 ->
  skip_ws (S f) (c :: s) = skip_ws f s.
Proof.
  intros Hw Hc. cbn [skip_ws starts_with_s].
  replace (35 =? c) with false by (symmetry; apply N.eqb_neq; congruence).
  cbn [andb orb]. rewrite Hw, split_at_cons. reflexivity.
Qed.

Lemma skip_ws_stop f c s : is_whitespace c = false -> c <> 35 ->
  skip_ws (S f) (c :: s) = LOk (c :: s).
Proof.
  intros Hw Hc. cbn [skip_ws starts_with_s].
  replace (35 =? c) with false by (symmetry; apply N.eqb_neq; congruence).
  cbn [andb orb]. rewrite Hw. reflexivity.
Qed.

Lemma next_token_space st s : next_token st comma (32 :: s) = next_token st comma s.
Proof.
  unfold Lexer.next_token. cbn [length].
  rewrite skip_ws_step by (reflexivity || discriminate). reflexivity.
Qed.

Lemma next_token_spaces st n s : next_token st comma (repeat 32 n ++ s) = next_token st comma s.
Proof. induction n as [|n IH]; cbn [repeat app]; [reflexivity|]. rewrite next_token_space. exact IH. Qed.

Lemma next_token_nil st : next_token st comma [] = LOk (None, []).
Proof. reflexivity. Qed.

(* ---- facts about is_valid_in_ident -------------------------------------- *)

Lemma valid_none_excl c : is_valid_in_ident c None = true ->
  c <> 35 /\ c <> 39 /\ c <> 34 /\ c <> 64 /\ c <> 46.
Proof.
  intros H. repeat split; intros ->; vm_compute in H; discriminate H.
Qed.

Lemma digit_cases x : is_ascii_digit x = true ->
  x = 48 \/ x = 49 \/ x = 50 \/ x = 51 \/ x = 52 \/ x = 53 \/ x = 54 \/ x = 55 \/ x = 56 \/ x = 57.
Proof. unfold is_ascii_digit. lia. Qed.

Lemma digit_valid_after_d x : is_ascii_digit x = true -> is_valid_in_ident x (Some 100) = true.
Proof.
  intros H. destruct (digit_cases x H) as [->|[->|[->|[->|[->|[->|[->|[->|[->| ->]]]]]]]]];
    vm_compute; reflexivity.
Qed.

Lemma space_invalid p : is_valid_in_ident 32 (Some p) = false.
Proof.
  unfold Lexer.is_valid_in_ident.
  change (mem 32 always_invalid) with false.
  change (mem 32 only_valid_by_themselves) with false. cbv iota.
  destruct (mem p only_valid_by_themselves); [reflexivity|].
  change (Lexer.is_alphabetic alpha_hi 32 || mem 32 allowed_chars) with false. cbv iota.
  change (mem 32 ident_tail_chars) with false. rewrite andb_false_r. reflexivity.
Qed.

(* what stops the identifier loop *)
Definition stop_after (p : N) (rest : list N) : Prop :=
  match rest with [] => True | x :: _ => is_valid_in_ident x (Some p) = false end.

Lemma ident_span_exact : forall r prev rest,
  all_valid prev r = true -> stop_after (last (prev :: r) 0) rest ->
  ident_span true prev (r ++ rest) = (r, rest).
Proof.
  induction r as [|c r IH]; intros prev rest Hv Hs.
  - cbn [app]. cbn [last] in Hs. destruct rest as [|x rest']; [reflexivity|].
    cbn [LexerProofs.ident_span stop_after] in *. rewrite Hs. reflexivity.
  - cbn [Print.all_valid] in Hv. apply andb_prop in Hv as [Hc Hv].
    cbn [app LexerProofs.ident_span]. rewrite Hc. cbn [negb orb]. rewrite andb_false_r.
    rewrite (IH c rest Hv); [reflexivity|].
    change (last (prev :: c :: r) 0) with (last (c :: r) 0) in Hs. exact Hs.
Qed.

(* ---- numbers ------------------------------------------------------------- *)

Lemma num_start_head c r : num_start comma (c :: r) = true ->
  is_whitespace c = false /\ c <> 35.
Proof.
  unfold num_start, is_ascii_digit, decimal_separator, is_whitespace. intros H.
  destruct comma; split; lia.
Qed.

Lemma next_token_num st text rest p :
  after_backslash st = 0 -> num_start comma text = true ->
  numparse comma (text ++ rest) = NOk p rest ->
  next_token st comma (text ++ rest) = LOk (Some (TNum p), rest).
Proof.
  intros Habs Hn Hp. destruct text as [|c r]; [discriminate|].
  destruct (num_start_head c r Hn) as [Hw H35].
  unfold Lexer.next_token. cbn [app length] in *.
  rewrite skip_ws_stop by assumption. cbn [lbind]. rewrite Habs, Hp.
  cbn [num_start] in Hn.
  assert (Hfd : starts_with_digit r = true ->
          match r ++ rest with f :: _ => is_ascii_digit f | [] => false end = true).
  { destruct r as [|f r']; [discriminate|]. exact (fun H => H). }
  destruct (is_ascii_digit c); [reflexivity|].
  destruct (c =? decimal_separator comma); [reflexivity|].
  cbn [orb andb] in *. apply andb_prop in Hn as [H1 H2]. rewrite H1, (Hfd H2). reflexivity.
Qed.

(* ---- words (identifiers and keyword operators) ------------------------------ *)

Lemma next_token_word st text rest :
  after_backslash st = 0 -> word_ok text = true -> stop_after (last text 0) rest ->
  next_token st comma (text ++ rest) = LOk (Some (ident_token text), rest).
Proof.
  intros Habs Hw Hs. destruct text as [|c r]; [discriminate|].
  cbn [Print.word_ok] in Hw.
  apply andb_prop in Hw as [Hw Hall]. apply andb_prop in Hw as [Hw Hnum].
  apply andb_prop in Hw as [Hv Hws].
  destruct (valid_none_excl c Hv) as (H35 & H39 & H34 & H64 & H46).
  apply negb_true_iff in Hws. apply negb_true_iff in Hnum.
  unfold Lexer.next_token. cbn [app length].
  rewrite skip_ws_stop by assumption. cbn [lbind]. rewrite Habs.
  (* not a number *)
  cbn [num_start] in Hnum.
  apply orb_false_iff in Hnum as [Hnum Hd]. apply orb_false_iff in Hnum as [Hdig Hsep].
  rewrite Hdig, Hsep. cbn [andb orb].
  assert (Hfd : (c =? 100) && match r ++ rest with f :: _ => is_ascii_digit f | [] => false end = false).
  { destruct (c =? 100) eqn:E; [|reflexivity]. apply N.eqb_eq in E. subst c. cbn [andb] in *.
    destruct r as [|f r'].
    - cbn [app]. destruct rest as [|x rest']; [reflexivity|].
      cbn [last stop_after] in Hs. destruct (is_ascii_digit x) eqn:Ex; [|reflexivity].
      rewrite (digit_valid_after_d x Ex) in Hs. discriminate.
    - exact Hd. }
  rewrite Hfd.
  replace (c =? 39) with false by (symmetry; apply N.eqb_neq; assumption).
  replace (c =? 34) with false by (symmetry; apply N.eqb_neq; assumption).
  replace (c =? 64) with false by (symmetry; apply N.eqb_neq; assumption).
  cbn [orb starts_with_s].
  replace (35 =? c) with false by (symmetry; apply N.eqb_neq; congruence).
  cbn [andb]. rewrite Hv.
  change (negb (0 =? 1)) with true.
  rewrite parse_ident_eq. unfold bad_ident_start. rewrite Hv. cbn [negb orb]. rewrite andb_false_r.
  rewrite (ident_span_exact r c rest Hall Hs). reflexivity.
Qed.

(* ---- punctuation ------------------------------------------------------------ *)

(* the tests next_token makes before it reaches parse_symbol, for a character
   that is not valid at the start of an identifier *)
Definition sym_dispatch (c : N) : bool :=
  negb (is_whitespace c) && negb (c =? 35) && negb (is_ascii_digit c) && negb (c =? 46)
  && negb (c =? 44) && negb (c =? 100) && negb (c =? 39) && negb (c =? 34) && negb (c =? 64).

Lemma next_token_symbol st c tl :
  sym_dispatch c = true -> is_valid_in_ident c None = false ->
  next_token st comma (c :: tl) =
  ldo (t, remaining) <- parse_symbol c tl; LOk (Some t, remaining).
Proof.
  unfold sym_dispatch. intros H Hv.
  repeat (apply andb_prop in H as [H ?]).
  repeat match goal with X : negb _ = true |- _ => apply negb_true_iff in X end.
  unfold Lexer.next_token. cbn [length].
  rewrite skip_ws_stop by (try assumption; apply N.eqb_neq; assumption). cbn [lbind].
  replace (c =? decimal_separator comma) with false
    by (destruct comma; cbn [decimal_separator]; congruence).
  repeat match goal with X : _ = false |- _ => rewrite X end.
  cbn [andb orb starts_with_s].
  replace (35 =? c) with false by (rewrite N.eqb_sym; congruence).
  cbn [andb]. rewrite split_at_cons. reflexivity.
Qed.

Definition follow_punct (text : list N) (rest : list N) : Prop :=
  match rest with [] => True | x :: _ => abut_punct text x = true end.

Arguments N.eqb : simpl nomatch.
Arguments N.leb : simpl nomatch.
Arguments N.ltb : simpl nomatch.

Lemma next_token_punct st text rest s c t' :
  text = c :: t' -> punct_sym text = Some s -> is_valid_in_ident c None = false ->
  follow_punct text rest ->
  next_token st comma (text ++ rest) = LOk (Some (TSym s), rest).
Proof.
  intros Ht Hp Hv Hf. unfold punct_sym in Hp.
  repeat match type of Hp with
  | (if list_N_eqb text ?l then _ else _) = _ =>
    let E := fresh "E" in
    destruct (list_N_eqb text l) eqn:E;
    [apply list_N_eqb_eq in E; rewrite E in *; injection Ht as <- <-; injection Hp as <-;
     clear E | clear E]
  end; try discriminate Hp.
  all: cbn [app].
  all: rewrite next_token_symbol; [|reflexivity|exact Hv].
  all: unfold parse_symbol; cbn [N.eqb Pos.eqb orb]; rewrite ?test_next_eq; cbn [lbind].
  all: try reflexivity.
  all: try (destruct rest as [|x rest']; [reflexivity|]).
  all: cbn [follow_punct] in Hf; unfold abut_punct in Hf; cbn [list_N_eqb N.eqb Pos.eqb andb orb] in Hf.
  all: try (apply negb_true_iff in Hf; rewrite Hf; cbn [lbind]; rewrite ?test_next_eq; reflexivity).
  all: try (apply andb_prop in Hf as [Hf1 Hf2]; apply negb_true_iff in Hf1; apply negb_true_iff in Hf2;
            rewrite Hf1; cbn [lbind]; rewrite test_next_eq; rewrite Hf2; reflexivity).
  all: cbn [N.eqb Pos.eqb lbind]; rewrite ?test_next_eq; cbn [N.eqb Pos.eqb lbind]; reflexivity.
Qed.

(* ---- one item -------------------------------------------------------------- *)

Lemma keyword_not_backslash text s : keyword text = Some s -> s <> Backslash.
Proof.
  unfold keyword.
  repeat match goal with |- context [if ?c then _ else _] => destruct c end;
    intros H; try discriminate H; injection H as <-; discriminate.
Qed.

Lemma punct_sym_not_backslash text s : punct_sym text = Some s -> s <> Backslash.
Proof.
  unfold punct_sym.
  repeat match goal with |- context [if ?c then _ else _] => destruct c end;
    intros H; try discriminate H; injection H as <-; discriminate.
Qed.

Lemma tok_text_nonempty t text : tok_text_ok t text = true -> text <> [].
Proof. intros H ->. destruct t; cbn in H; discriminate H. Qed.

Lemma abut_punct_space text : abut_punct text 32 = true.
Proof.
  unfold abut_punct.
  repeat match goal with |- context [if ?c then _ else _] => destruct c end; reflexivity.
Qed.

Lemma abut_space t text : abut_ok t text 32 = true.
Proof.
  unfold Print.abut_ok. destruct t; try reflexivity;
    (destruct text as [|c0 tl]; [reflexivity|];
     destruct (is_valid_in_ident c0 None); [rewrite space_invalid; reflexivity|apply abut_punct_space]).
Qed.

Definition follow_ok (t : tok) (text rest : list N) : Prop :=
  match rest with [] => True | x :: _ => abut_ok t text x = true end.

Definition num_ok (t : tok) (text rest : list N) : Prop :=
  match t with TNum p => numparse comma (text ++ rest) = NOk p rest | _ => True end.

Lemma next_state_abs st t : after_backslash st = 0 -> t <> TSym Backslash ->
  after_backslash (next_state st t) = 0.
Proof.
  intros Habs Ht. unfold next_state. cbn [after_backslash]. rewrite Habs.
  destruct t as [| |s| |]; try reflexivity. destruct s; try reflexivity. congruence.
Qed.

Lemma next_token_item st t text rest :
  after_backslash st = 0 -> tok_text_ok t text = true ->
  follow_ok t text rest -> num_ok t text rest ->
  next_token st comma (text ++ rest) = LOk (Some t, rest) /\ t <> TSym Backslash.
Proof.
  intros Habs Hok Hf Hn. destruct t as [p|b|s|x|x]; cbn [Print.tok_text_ok] in Hok;
    try discriminate Hok.
  - split; [|discriminate]. apply next_token_num; assumption.
  - split; [|discriminate].
    apply andb_prop in Hok as [Hok Hb]. apply andb_prop in Hok as [Hw Hk].
    apply list_N_eqb_eq in Hb. subst b.
    assert (Hs : stop_after (last text 0) rest).
    { destruct rest as [|y rest']; [exact I|]. cbn [follow_ok Print.abut_ok stop_after] in *.
      destruct text as [|c0 tl]; [discriminate Hw|].
      assert (Hv : is_valid_in_ident c0 None = true).
      { cbn [Print.word_ok] in Hw. repeat (apply andb_prop in Hw as [Hw ?]). exact Hw. }
      rewrite Hv in Hf. apply negb_true_iff in Hf. exact Hf. }
    rewrite (next_token_word st text rest Habs Hw Hs). unfold ident_token.
    destruct (keyword text); [discriminate Hk|reflexivity].
  - destruct text as [|c0 tl]; [discriminate Hok|].
    destruct (is_valid_in_ident c0 None) eqn:Hv.
    + apply andb_prop in Hok as [Hw Hk].
      assert (Hs : stop_after (last (c0 :: tl) 0) rest).
      { destruct rest as [|y rest']; [exact I|]. cbn [follow_ok Print.abut_ok stop_after] in *.
        rewrite Hv in Hf. apply negb_true_iff in Hf. exact Hf. }
      rewrite (next_token_word st (c0 :: tl) rest Habs Hw Hs). unfold ident_token.
      destruct (keyword (c0 :: tl)) as [s'|] eqn:Ek; [|discriminate Hk].
      cbn [opt_sym_eqb] in Hk. apply sym_eqb_eq in Hk. subst s'.
      split; [reflexivity|]. intros E. injection E as ->. exact (keyword_not_backslash _ _ Ek eq_refl).
    + destruct (punct_sym (c0 :: tl)) as [s'|] eqn:Ep; [|discriminate Hok].
      cbn [opt_sym_eqb] in Hok. apply sym_eqb_eq in Hok. subst s'.
      split; [|intros E; injection E as ->; exact (punct_sym_not_backslash _ _ Ep eq_refl)].
      apply (next_token_punct st (c0 :: tl) rest s c0 tl eq_refl Ep Hv).
      destruct rest as [|y rest']; [exact I|]. cbn [follow_ok Print.abut_ok follow_punct] in *.
      rewrite Hv in Hf. exact Hf.
Qed.

(* ---- the whole list ----------------------------------------------------------- *)

Fixpoint trace_of (items : list item) : list (tok * nat) :=
  match items with
  | [] => []
  | it :: r => (it_tok it, blen (render r)) :: trace_of r
  end.

Lemma trace_of_toks items : map fst (trace_of items) = map it_tok items.
Proof. induction items as [|it r IH]; cbn [trace_of map fst]; [reflexivity|]. now rewrite IH. Qed.

Lemma render_follow it r :
  items_ok (it :: r) = true -> follow_ok (it_tok it) (it_text it) (render r).
Proof.
  intros H. cbn [Print.items_ok] in H. apply andb_prop in H as [H Hr]. apply andb_prop in H as [_ H].
  destruct r as [|it2 r']; [exact I|].
  cbn [Print.items_ok] in Hr. apply andb_prop in Hr as [Hr _]. apply andb_prop in Hr as [Hr _].
  apply tok_text_nonempty in Hr.
  cbn [render]. unfold render_item.
  destruct (it_sp it2) as [|n] eqn:Esp.
  - cbn [repeat app Nat.ltb Nat.leb orb] in *.
    destruct (it_text it2) as [|c2 t2]; [congruence|]. cbn [app follow_ok hd] in *. exact H.
  - cbn [repeat app follow_ok]. apply abut_space.
Qed.

Lemma nums_head it r : nums_ok (it :: r) = true -> num_ok (it_tok it) (it_text it) (render r).
Proof.
  intros H. cbn [Print.nums_ok] in H. apply andb_prop in H as [H _].
  unfold num_ok. destruct (it_tok it) as [p| | | |]; try exact I.
  destruct (numparse comma (it_text it ++ render r)) as [p' rest| |]; try discriminate H.
  apply andb_prop in H as [H1 H2]. apply list_N_eqb_eq in H1, H2. subst. reflexivity.
Qed.

Lemma lex_loop_items : forall items fuel st acc,
  after_backslash st = 0 -> items_ok items = true -> nums_ok items = true ->
  (length (render items) < fuel)%nat ->
  lex_loop fuel st comma (render items) acc = (rev acc ++ trace_of items, LOk tt).
Proof.
  induction items as [|it r IH]; intros fuel st acc Habs Hok Hn Hf.
  - destruct fuel as [|f]; [cbn [render length] in Hf; lia|].
    cbn [render Lexer.lex_loop trace_of]. rewrite next_token_nil, app_nil_r. reflexivity.
  - destruct fuel as [|f]; [lia|]. cbn [Lexer.lex_loop render].
    unfold render_item. rewrite <- app_assoc, next_token_spaces.
    pose proof (render_follow it r Hok) as Hfol. pose proof (nums_head it r Hn) as Hnum.
    cbn [Print.items_ok] in Hok. apply andb_prop in Hok as [Hok Hr]. apply andb_prop in Hok as [Ht _].
    cbn [Print.nums_ok] in Hn. apply andb_prop in Hn as [_ Hn].
    destruct (next_token_item st (it_tok it) (it_text it) (render r) Habs Ht Hfol Hnum) as [E Hnb].
    rewrite E.
    rewrite IH; try assumption.
    + cbn [rev trace_of]. rewrite <- app_assoc. reflexivity.
    + apply next_state_abs; assumption.
    + apply tok_text_nonempty in Ht. cbn [render] in Hf. unfold render_item in Hf.
      rewrite !app_length in Hf. destruct (it_text it); [congruence|]. cbn [length] in Hf. lia.
Qed.

(* lexing the printed text yields exactly the token list *)
Theorem lex_print items :
  items_ok items = true -> nums_ok items = true ->
  lex comma (render items) = LOk (map it_tok items).
Proof.
  intros Hok Hn. unfold Lexer.lex, Lexer.lex_trace.
  rewrite (lex_loop_items items (S (length (render items))) st0 [] eq_refl Hok Hn ltac:(lia)).
  cbn [rev app]. rewrite trace_of_toks. reflexivity.
Qed.

(* ---- the spacing rule used by gen/c08.py ------------------------------------------ *)

Lemma valid_some_of_none c p :
  mem c ident_tail_chars = false -> is_valid_in_ident c None = false ->
  is_valid_in_ident c (Some p) = false.
Proof.
  intros Ht. unfold Lexer.is_valid_in_ident.
  destruct (mem c always_invalid); [reflexivity|].
  destruct (mem c only_valid_by_themselves); [discriminate|].
  change (mem 97 only_valid_by_themselves) with false. cbv iota.
  destruct (Lexer.is_alphabetic alpha_hi c || mem c allowed_chars); [discriminate|].
  intros _. destruct (mem p only_valid_by_themselves); [reflexivity|].
  rewrite Ht, andb_false_r. reflexivity.
Qed.

Lemma punct_head_tail c t s : punct_sym (c :: t) = Some s -> mem c ident_tail_chars = false.
Proof.
  unfold punct_sym.
  repeat match goal with
  | |- (if list_N_eqb (c :: t) ?l then _ else _) = _ -> _ =>
    let E := fresh "E" in
    destruct (list_N_eqb (c :: t) l) eqn:E;
    [apply list_N_eqb_eq in E; injection E as -> _; intros _; reflexivity | clear E]
  end. discriminate.
Qed.

Lemma abut_punct_ok text c : c <> 61 -> c <> 42 -> c <> 62 -> abut_punct text c = true.
Proof.
  intros H1 H2 H3. apply N.eqb_neq in H1, H2, H3. unfold abut_punct. rewrite H1, H2, H3.
  repeat match goal with |- context [if ?c then _ else _] => destruct c end; reflexivity.
Qed.

Lemma valid_none_not_op c : is_valid_in_ident c None = true -> c <> 61 /\ c <> 42 /\ c <> 62.
Proof. intros H. repeat split; intros ->; vm_compute in H; discriminate H. Qed.

Lemma num_start_not_op c r : num_start comma (c :: r) = true -> c <> 61 /\ c <> 42 /\ c <> 62.
Proof.
  unfold num_start, is_ascii_digit, decimal_separator. intros H. destruct comma; repeat split; lia.
Qed.

Lemma word_ok_head c tl : word_ok (c :: tl) = true -> is_valid_in_ident c None = true.
Proof. cbn [Print.word_ok]. intros H. repeat (apply andb_prop in H as [H ?]). exact H. Qed.

Lemma c08_pair it it2 :
  tok_text_ok (it_tok it) (it_text it) = true -> tok_text_ok (it_tok it2) (it_text it2) = true ->
  Bool.eqb (wordlike it) (wordlike it2) = false ->
  abut_ok (it_tok it) (it_text it) (hd 0 (it_text it2)) = true.
Proof.
  intros H1 H2 Hw. unfold Print.wordlike in Hw.
  destruct it as [t text sp], it2 as [t2 text2 sp2]. cbn [it_tok it_text] in *.
  pose proof (tok_text_nonempty _ _ H2) as Hne2.
  destruct text2 as [|c2 tl2]; [congruence|]. cbn [hd].
  destruct t as [p|b|s|x|x]; cbn [Print.tok_text_ok] in H1; try discriminate H1; try reflexivity.
  - (* identifier, then punctuation *)
    apply andb_prop in H1 as [H1 _]. apply andb_prop in H1 as [Hwd _].
    destruct text as [|c0 tl]; [discriminate Hwd|]. pose proof (word_ok_head _ _ Hwd) as Hv.
    cbn [Print.abut_ok]. rewrite Hv.
    destruct t2 as [p2|b2|s2|x2|x2]; cbn [Bool.eqb] in Hw; try discriminate Hw.
    cbn [Print.tok_text_ok] in H2. destruct (is_valid_in_ident c2 None) eqn:Hv2; [discriminate Hw|].
    destruct (punct_sym (c2 :: tl2)) as [s'|] eqn:Ep; [|discriminate H2].
    rewrite (valid_some_of_none c2 _ (punct_head_tail _ _ _ Ep) Hv2). reflexivity.
  - destruct text as [|c0 tl]; [discriminate H1|]. cbn [Print.abut_ok].
    destruct (is_valid_in_ident c0 None) eqn:Hv.
    + (* keyword operator, then punctuation *)
      destruct t2 as [p2|b2|s2|x2|x2]; cbn [Bool.eqb] in Hw; try discriminate Hw.
      cbn [Print.tok_text_ok] in H2. destruct (is_valid_in_ident c2 None) eqn:Hv2; [discriminate Hw|].
      destruct (punct_sym (c2 :: tl2)) as [s'|] eqn:Ep; [|discriminate H2].
      rewrite (valid_some_of_none c2 _ (punct_head_tail _ _ _ Ep) Hv2). reflexivity.
    + (* punctuation, then a word-like token *)
      assert (Hc2 : c2 <> 61 /\ c2 <> 42 /\ c2 <> 62).
      { destruct t2 as [p2|b2|s2|x2|x2]; cbn [Print.tok_text_ok] in H2; try discriminate H2.
        - exact (num_start_not_op _ _ H2).
        - apply andb_prop in H2 as [H2 _]. apply andb_prop in H2 as [H2 _].
          exact (valid_none_not_op _ (word_ok_head _ _ H2)).
        - cbn [Bool.eqb] in Hw. destruct (is_valid_in_ident c2 None) eqn:Hv2; [|discriminate Hw].
          exact (valid_none_not_op _ Hv2). }
      destruct Hc2 as (A1 & A2 & A3). apply abut_punct_ok; assumption.
Qed.

Theorem c08_rule_items_ok : forall items,
  toks_ok items = true -> c08_spaced items = true -> items_ok items = true.
Proof.
  induction items as [|it r IH]; intros Ht Hs; [reflexivity|].
  cbn [Print.toks_ok forallb] in Ht. apply andb_prop in Ht as [Ht Htr].
  cbn [Print.c08_spaced] in Hs. apply andb_prop in Hs as [Hs Hsr].
  cbn [Print.items_ok]. rewrite Ht, (IH Htr Hsr), andb_true_r. cbn [andb].
  destruct r as [|it2 r']; [reflexivity|].
  cbn [Print.toks_ok forallb] in Htr. apply andb_prop in Htr as [Ht2 _].
  destruct (Nat.ltb 0 (it_sp it2)); [reflexivity|]. rewrite orb_false_r in Hs. cbn [orb].
  apply negb_true_iff in Hs. exact (c08_pair it it2 Ht Ht2 Hs).
Qed.

End PrintProofs.

(* the rule of gen/c08.py suffices *)
Theorem lex_print_c08 alpha_hi numparse dateparse comma items :
  toks_ok alpha_hi comma items = true -> c08_spaced alpha_hi items = true ->
  nums_ok numparse comma items = true ->
  lex alpha_hi numparse dateparse comma (render items) = LOk (map it_tok items).
Proof.
  intros Ht Hs Hn. apply lex_print; [|exact Hn]. apply c08_rule_items_ok; assumption.
Qed.

(* ---- instances for the Examples of Properties/C08Lex.v ------------------------ *)

(* 2*x +1 and (spelled with aliases) 7 mod y**2 *)
Definition demo_items : list item :=
  [mkitem (TNum [50]) [50] 0; mkitem (TSym Mul) [42] 0; mkitem (TIdent [120]) [120] 0;
   mkitem (TSym Add) [43] 1; mkitem (TNum [49]) [49] 0].
Definition demo_items2 : list item :=
  [mkitem (TNum [55]) [55] 0; mkitem (TSym Mod) kw_mod 1; mkitem (TIdent [121]) [121] 1;
   mkitem (TSym Pow) [42; 42] 0; mkitem (TNum [50]) [50] 0].

Lemma demo_items_ok :
  items_ok no_alpha false demo_items = true /\ nums_ok demo_numparse false demo_items = true /\
  c08_spaced no_alpha demo_items = true /\ render demo_items = [50; 42; 120; 32; 43; 49] /\
  items_ok no_alpha false demo_items2 = true /\ nums_ok demo_numparse false demo_items2 = true /\
  render demo_items2 = [55; 32; 109; 111; 100; 32; 121; 42; 42; 50].
Proof. vm_compute. repeat split; reflexivity. Qed.

(* the side conditions matter: "!" directly followed by "=" is "!=", an
   identifier directly followed by a digit is a longer identifier, "*"
   directly followed by "*" is "**" *)
Lemma glue_needed :
  lex no_alpha demo_numparse no_dates false [33; 61] = LOk [TSym NotEquals] /\
  lex no_alpha demo_numparse no_dates false [33; 32; 61] = LOk [TSym Factorial; TSym Equals] /\
  lex no_alpha demo_numparse no_dates false [120; 49] = LOk [TIdent [120; 49]] /\
  lex no_alpha demo_numparse no_dates false [42; 42] = LOk [TSym Pow] /\
  items_ok no_alpha false [mkitem (TSym Factorial) [33] 0; mkitem (TSym Equals) [61] 0] = false /\
  items_ok no_alpha false [mkitem (TIdent [120]) [120] 0; mkitem (TNum [49]) [49] 0] = false /\
  items_ok no_alpha false [mkitem (TSym Mul) [42] 0; mkitem (TSym Mul) [42] 0] = false.
Proof. vm_compute. repeat split; reflexivity. Qed.
