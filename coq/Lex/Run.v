(* Dispatcher of the Lex area.  The oracles of Lex/Lexer.v are supplied as
   tables computed by the implementation side for the very input being
   lexed (hook verif_hooks::lex::oracle): which of its non-ASCII characters
   are alphabetic, what parse_number answers on each suffix that starts like
   a number, what Date::parse answers on each candidate date string.  A
   missing entry is a distinguished error, never a silent default. *)
From FendV Require Import Base.Prelude Lang.Syntax Crash.Utf8 Lex.Lexer Lex.Print.
Open Scope N_scope.

(* number table: (chars remaining, Some (payload, chars consumed) | None err) *)
Inductive nument := NEok (p : list N) (consumed : nat) | NEerr (e : list N).

Fixpoint num_lookup (n : nat) (tab : list (nat * nument)) : option nument :=
  match tab with
  | [] => None
  | (k, e) :: r => if Nat.eqb k n then Some e else num_lookup n r
  end.

Definition numparse_of (tab : list (nat * nument)) (_ : bool) (s : list N) : numres :=
  match num_lookup (List.length s) tab with
  | Some (NEok p k) =>
    if Nat.leb 1 k && Nat.leb k (List.length s) then NOk p (skipn k s) else NMissing
  | Some (NEerr e) => NErr e
  | None => NMissing
  end.

Fixpoint date_lookup (s : list N) (tab : list (list N * dateres)) : dateres :=
  match tab with
  | [] => DMissing
  | (k, e) :: r => if list_N_eqb k s then e else date_lookup s r
  end.

Definition alpha_of (l : list N) (c : N) : bool := mem c l.

(* decoding the tables *)
Definition as_nument (x : sx) : option (nat * nument) :=
  match x with
  | XL [XA rem; XS tag; XS p; XA k] =>
    if opeq tag "ok" then Some (Z.to_nat rem, NEok p (Z.to_nat k))
    else if opeq tag "err" then Some (Z.to_nat rem, NEerr p)
    else None
  | _ => None
  end.
Fixpoint as_numtab (l : list sx) : option (list (nat * nument)) :=
  match l with
  | [] => Some []
  | x :: r => match as_nument x, as_numtab r with
              | Some e, Some es => Some (e :: es) | _, _ => None end
  end.
Definition as_dateent (x : sx) : option (list N * dateres) :=
  match x with
  | XL [XS key; XS tag; XS p] =>
    if opeq tag "ok" then Some (key, DOk p)
    else if opeq tag "err" then Some (key, DErr p)
    else None
  | _ => None
  end.
Fixpoint as_datetab (l : list sx) : option (list (list N * dateres)) :=
  match l with
  | [] => Some []
  | x :: r => match as_dateent x, as_datetab r with
              | Some e, Some es => Some (e :: es) | _, _ => None end
  end.

(* printing *)
Definition sx_tok (t : tok) : sx :=
  match t with
  | TNum p => XL [XS (B"n"); XS p]
  | TIdent s => XL [XS (B"i"); XS s]
  | TSym s => XL [XS (B"y"); sx_N (sym_code s)]
  | TStr s => XL [XS (B"s"); XS s]
  | TDate p => XL [XS (B"d"); XS p]
  end.

Definition sx_lexerr (e : lexerr) : sx :=
  match e with
  | LEExpectedACharacter => XL [XS (B"err"); XS (B"ExpectedACharacter")]
  | LEInvalidCharAtBeginningOfIdent c =>
    XL [XS (B"err"); XS (B"InvalidCharAtBeginningOfIdent"); sx_N c]
  | LEUnexpectedChar c => XL [XS (B"err"); XS (B"UnexpectedChar"); sx_N c]
  | LEUnterminatedStringLiteral => XL [XS (B"err"); XS (B"UnterminatedStringLiteral")]
  | LEInvalidUnicodeEscapeSequence => XL [XS (B"err"); XS (B"InvalidUnicodeEscapeSequence")]
  | LEBackslashXOutOfRange => XL [XS (B"err"); XS (B"BackslashXOutOfRange")]
  | LEExpectedALetterOrCode => XL [XS (B"err"); XS (B"ExpectedALetterOrCode")]
  | LEUnknownBackslashEscapeSequence c =>
    XL [XS (B"err"); XS (B"UnknownBackslashEscapeSequence"); sx_N c]
  | LEExpectedADateLiteral => XL [XS (B"err"); XS (B"ExpectedADateLiteral")]
  | LEOracle p => XL [XS (B"err"); XS (B"oracle"); XS p]
  | LEOracleMissing => XL [XS (B"oracle-missing")]
  end.

Definition sx_status (r : lres unit) : sx :=
  match r with
  | LOk _ => XL [XS (B"ok")]
  | LErr e => sx_lexerr e
  | LPanic k => sx_panic k
  end.

Definition sx_trace (tr : list (tok * nat)) : sx :=
  XL (map (fun '(t, n) => XL [sx_tok t; sx_N (N.of_nat n)]) tr).

Definition sx_b (b : bool) : sx := sx_bool b.

(* items of the print-check op: ((tok) (cps) spaces) *)
Definition sym_of_code (n : N) : option sym :=
  find (fun s => sym_code s =? n) all_syms.

Definition as_tok (x : sx) : option tok :=
  match x with
  | XL [XS tag; XS p] =>
    if opeq tag "n" then Some (TNum p)
    else if opeq tag "i" then Some (TIdent p)
    else None
  | XL [XS tag; XA code] =>
    if opeq tag "y" then
      match sym_of_code (Z.to_N code) with Some s => Some (TSym s) | None => None end
    else None
  | _ => None
  end.

Definition as_item (x : sx) : option item :=
  match x with
  | XL [t; XL cps; XA sp] =>
    match as_tok t, as_Ns cps with
    | Some t', Some text => Some (mkitem t' text (Z.to_nat sp))
    | _, _ => None
    end
  | _ => None
  end.

Fixpoint as_items (l : list sx) : option (list item) :=
  match l with
  | [] => Some []
  | x :: r => match as_item x, as_items r with
              | Some i, Some is => Some (i :: is) | _, _ => None end
  end.

Definition run_lex : dispatcher := fun op args =>
  if opeq op "print-check" then
    (* (print-check comma (alpha) (numtab) (datetab) (items))
       -> (items_ok nums_ok (lex (render items)) (expected tokens)) *)
    match args with
    | [XA comma; XL al; XL nt; XL dt; XL its] =>
      match as_Ns al, as_numtab nt, as_datetab dt, as_items its with
      | Some a, Some ntab, Some dtab, Some items =>
        let cm := negb (Z.eqb comma 0) in
        let np := numparse_of ntab in
        Some (XL [sx_bool (items_ok (alpha_of a) cm items);
                  sx_bool (nums_ok np cm items);
                  match lex (alpha_of a) np (fun d => date_lookup d dtab) cm (render items) with
                  | LOk ts => XL [XS (B"ok"); XL (map sx_tok ts)]
                  | LErr e => sx_lexerr e
                  | LPanic k => sx_panic k
                  end;
                  XL (map (fun it => sx_tok (it_tok it)) items)])
      | _, _, _, _ => Some sx_bad
      end
    | _ => Some sx_bad
    end
  else
  if opeq op "lex" then
    (* (lex comma (cps) (alpha-hi cps) (numtab) (datetab)) -> (status trace) *)
    match args with
    | [XA comma; XL cps; XL al; XL nt; XL dt] =>
      match as_Ns cps, as_Ns al, as_numtab nt, as_datetab dt with
      | Some s, Some a, Some ntab, Some dtab =>
        let '(tr, r) := lex_trace (alpha_of a) (numparse_of ntab) (fun d => date_lookup d dtab)
                                  (negb (Z.eqb comma 0)) s in
        Some (XL [sx_status r; sx_trace tr])
      | _, _, _, _ => Some sx_bad
      end
    | _ => Some sx_bad
    end
  else if opeq op "classes" then
    (* (classes (cps)) -> ((is_whitespace is_ascii_whitespace ascii-letter len_utf8) ...) *)
    match args with
    | [XL cps] =>
      match as_Ns cps with
      | Some s =>
        Some (XL (map (fun c => XL [sx_b (is_whitespace c); sx_b (is_ascii_whitespace c);
                                    sx_b (is_ascii_letter c); sx_N (N.of_nat (len_utf8 c));
                                    sx_b (is_ascii_hexdigit c); sx_b (is_scalar c)]) s))
      | None => Some sx_bad
      end
    | _ => Some sx_bad
    end
  else if opeq op "split-at" then
    (* (split-at (cps) mid) -> code-point split vs byte-level split of the encoding *)
    match args with
    | [XL cps; XA mid] =>
      match as_Ns cps with
      | Some s =>
        let m := Z.to_nat mid in
        Some (XL [match Lexer.split_at 1 s m with
                  | LOk (a, b) => XL [XS (B"ok"); XS (enc a); XS (enc b)]
                  | LErr _ => XL [XS (B"err")]
                  | LPanic k => sx_panic k
                  end;
                  match Utf8.split_at (enc s) m with
                  | Ok (a, b) => XL [XS (B"ok"); XS a; XS b]
                  | Err _ => XL [XS (B"err")]
                  | Panic k => sx_panic k
                  end])
      | None => Some sx_bad
      end
    | _ => Some sx_bad
    end
  else None.

Definition run_lex_line : list N -> list N := run_with run_lex.
