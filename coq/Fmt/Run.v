(* Dispatcher for the fmt area (C02, C03, string literals of C18): executable
   entry points used by the correspondence check (extracted to OCaml and
   also run by vm_compute).  All request decoding is Gallina. *)
From FendV Require Import Base.Prelude Fmt.Rat Fmt.Format Fmt.Lex Fmt.StringLit Fmt.Root Fmt.Flag Fmt.RealFlag Fmt.Complex.
From Coq Require Import QArith.
Open Scope N_scope.

Definition limbs_val (l : list N) : N := fold_right (fun x acc => x + 2 ^ 64 * acc) 0 l.

Definition as_basek (tag b : N) : option basek :=
  if tag =? 1 then Some BBin else if tag =? 2 then Some BOct else if tag =? 3 then Some BHex
  else if tag =? 4 then Some (BCustom b) else if tag =? 5 then Some (BPlain b) else None.

Definition basek_tag (k : basek) : N :=
  match k with BBin => 1 | BOct => 2 | BHex => 3 | BCustom _ => 4 | BPlain _ => 5 end.

Definition as_style (tag n : N) : option style :=
  if tag =? 1 then Some SFraction else if tag =? 2 then Some SMixed else if tag =? 3 then Some SFloat
  else if tag =? 4 then Some SExact else if tag =? 5 then Some (SDp n) else if tag =? 6 then Some (SSf n)
  else if tag =? 7 then Some SAuto else None.

Definition as_sep (c : N) : sepstyle := if c =? 0 then SepDot else SepComma.

Definition err_name (e : err) : list N :=
  match e with
  | EDivByZero => B"DivideByZero"
  | EZeroPowZero => B"ZeroToThePowerOfZero"
  | EExpTooLarge => B"ExponentTooLarge"
  | EOutOfRange => B"OutOfRange"
  | ENegative => B"RootsOfNegativeNumbers"
  | ENotInteger => B"NonIntegerNegRoots"
  | EOutOfFuel => B"ModelOutOfFuel"
  | EOther => B"ModelUnmodelled"
  | _ => B"ModelOtherError"
  end.

Definition sx_resn {T} (f : T -> list sx) (r : res T) : sx :=
  match r with
  | Ok a => XL (XS (B"ok") :: f a)
  | Err e => XL [XS (B"err"); XS (err_name e)]
  | Panic k => sx_panic k
  end.

Definition lexerr_name (e : lexerr) : list N :=
  match e with
  | LExpectedACharacter => B"ExpectedACharacter"
  | LExpectedADigit => B"ExpectedADigit"
  | LExpectedChar => B"ExpectedChar"
  | LDigitSeparatorsNotAllowed => B"DigitSeparatorsNotAllowed"
  | LDigitSeparatorsOnlyBetweenDigits => B"DigitSeparatorsOnlyBetweenDigits"
  | LExponentTooLarge => B"ExponentTooLarge"
  | LUnmodelled => B"ModelUnmodelled"
  end.

(* a rational in lowest terms: (neg num den) *)
Definition sx_Q (q : Q) : sx :=
  let r := Qred q in
  XL [sx_bool (Qnum r <? 0)%Z; sx_N (Z.abs_N (Qnum r)); sx_N (Npos (Qden r))].

(* Brent fuel used when the model is run: enough for every denominator the
   check sends (period and pre-period are below den), capped *)
Definition run_fuel (den : N) : nat := N.to_nat (N.min (3 * den + 8) 20000).

(* structured literal on the wire:
   (base_tag base int frac exp)  int = () | (drun)   drun = ((v up) (s v up) ...)
   frac = () | (f drun) | (f drun drun) | (r drun)   exp = () | (cap sign drun) *)
Definition as_wsep (n : N) : wsep := if n =? 0 then WNone else if n =? 1 then WUnderscore else WThousands.

Fixpoint as_more (l : list sx) : option (list (wsep * wdigit)) :=
  match l with
  | [] => Some []
  | XL [s; v; u] :: r =>
    match as_N s, as_N v, as_N u, as_more r with
    | Some s, Some v, Some u, Some m => Some ((as_wsep s, mkwd v (negb (u =? 0))) :: m)
    | _, _, _, _ => None
    end
  | _ => None
  end.

Definition as_drun (s : sx) : option drun :=
  match s with
  | XL (XL [v; u] :: more) =>
    match as_N v, as_N u, as_more more with
    | Some v, Some u, Some m => Some (mkdrun (mkwd v (negb (u =? 0))) m)
    | _, _, _ => None
    end
  | _ => None
  end.

Definition as_lit (args : list sx) : option lit :=
  match args with
  | [bt; b; i; f; e] =>
    match as_N bt, as_N b with
    | Some bt, Some b =>
      match as_basek bt b with
      | Some bk =>
        let io := match i with XL [] => Some None
                  | XL [d] => match as_drun d with Some d => Some (Some d) | None => None end
                  | _ => None end in
        let fo := match f with
                  | XL [] => Some NoFrac
                  | XL [XS k; d] =>
                    match as_drun d with
                    | Some d => if opeq k "f" then Some (Frac d None)
                                else if opeq k "r" then Some (RecOnly d) else None
                    | None => None end
                  | XL [XS k; d; d2] =>
                    match as_drun d, as_drun d2 with
                    | Some d, Some d2 => Some (Frac d (Some d2))
                    | _, _ => None end
                  | _ => None end in
        let eo := match e with
                  | XL [] => Some None
                  | XL [cap; sg; d] =>
                    match as_N cap, as_N sg, as_drun d with
                    | Some cap, Some sg, Some d =>
                      Some (Some (negb (cap =? 0),
                                  (if sg =? 0 then ESNone else if sg =? 1 then ESPlus else ESMinus), d))
                    | _, _, _ => None end
                  | _ => None end in
        match io, fo, eo with
        | Some io, Some fo, Some eo => Some (mklit bk io fo eo)
        | _, _, _ => None
        end
      | None => None
      end
    | _, _ => None
    end
  | _ => None
  end.

(* flag expressions on the wire: ("lit" neg num den) ("approx" e) ("neg" e)
   ("add" a b) ("sub" a b) ("mul" a b) ("div" a b) *)
Fixpoint as_fexpr (s : sx) : option fexpr :=
  match s with
  | XL [XS k; n; p; q] =>
    if opeq k "lit" then
      match as_N n, as_N p, as_N q with
      | Some n, Some p, Some (Npos q) =>
        Some (FLit ((if n =? 0 then Z.of_N p else (- Z.of_N p)%Z) # q))
      | _, _, _ => None
      end
    else None
  | XL [XS k; a] =>
    match as_fexpr a with
    | Some a => if opeq k "approx" then Some (FApprox a)
                else if opeq k "neg" then Some (FNeg a) else None
    | None => None
    end
  | XL [XS k; a; b] =>
    match as_fexpr a, as_fexpr b with
    | Some a, Some b =>
      if opeq k "add" then Some (FAdd a b) else if opeq k "sub" then Some (FSub a b)
      else if opeq k "mul" then Some (FMul a b) else if opeq k "div" then Some (FDiv a b)
      else None
    | _, _ => None
    end
  | _ => None
  end.

(* structured string-literal items on the wire:
   ("p" c) plain   ("n" c) named escape \c   ("x" hi lo upper)   ("u" (hex digit chars))
   ("c" x) control escape \^x   ("z" (whitespace chars)) *)
Definition as_slitem (s : sx) : option slitem :=
  match s with
  | XL [XS k; XA z] =>
    match as_N (XA z) with
    | Some c => if opeq k "p" then Some (Plain c) else if opeq k "n" then Some (EscNamed c)
                else if opeq k "c" then Some (EscCtrl c) else None
    | None => None
    end
  | XL [XS k; XL l] =>
    match as_Ns l with
    | Some l => if opeq k "u" then Some (EscUni l) else if opeq k "z" then Some (EscZ l) else None
    | None => None
    end
  | XL [XS k; hi; lo; up] =>
    match as_N hi, as_N lo, as_N up with
    | Some hi, Some lo, Some up => if opeq k "x" then Some (EscHex hi lo (negb (up =? 0))) else None
    | _, _, _ => None
    end
  | _ => None
  end.

Fixpoint as_slitems (l : list sx) : option (list slitem) :=
  match l with
  | [] => Some []
  | x :: r => match as_slitem x, as_slitems r with
              | Some i, Some is => Some (i :: is) | _, _ => None end
  end.

(* Real-layer expressions on the wire: ("lit" neg num den) ("pi") ("approx" e) ("neg" e)
   ("add" a b) ("sub" a b) ("mul" a b) ("div" a b) ("pow" e n) ("floor" e) ("ceil" e) ("round" e) *)
Fixpoint as_rexpr (s : sx) : option rexpr :=
  match s with
  | XL [XS k] => if opeq k "pi" then Some RPiC else None
  | XL [XS k; n; p; q] =>
    if opeq k "lit" then
      match as_N n, as_N p, as_N q with
      | Some n, Some p, Some (Npos q) =>
        Some (RLit ((if n =? 0 then Z.of_N p else (- Z.of_N p)%Z) # q))
      | _, _, _ => None
      end
    else None
  | XL [XS k; a] =>
    match as_rexpr a with
    | Some a => if opeq k "approx" then Some (RApx a) else if opeq k "neg" then Some (RNeg a)
                else if opeq k "floor" then Some (RFloor a) else if opeq k "ceil" then Some (RCeil a)
                else if opeq k "round" then Some (RRound a) else None
    | None => None
    end
  | XL [XS k; a; b] =>
    if opeq k "pow" then
      match as_rexpr a, as_N b with Some a, Some n => Some (RPow a n) | _, _ => None end
    else
    match as_rexpr a, as_rexpr b with
    | Some a, Some b =>
      if opeq k "add" then Some (RAdd a b) else if opeq k "sub" then Some (RSub a b)
      else if opeq k "mul" then Some (RMul a b) else if opeq k "div" then Some (RDiv a b)
      else if opeq k "powe" then Some (RPowE a b)
      else None
    | _, _ => None
    end
  | _ => None
  end.

Definition sx_rpat (p : rpat) : list sx :=
  match p with RSimple q => [XS (B"s"); sx_Q q] | RPi q => [XS (B"p"); sx_Q q] end.

Definition run_fmt : dispatcher := fun op args =>
  if opeq op "fmt-rat" then
    match args with
    | neg :: XL num :: XL den :: ex :: bt :: b :: st :: sn :: comma :: _ =>
      match as_N neg, as_Ns num, as_Ns den, as_N ex, as_N bt, as_N b, as_N st, as_N sn, as_N comma with
      | Some neg, Some num, Some den, Some ex, Some bt, Some b, Some st, Some sn, Some comma =>
        match as_basek bt b, as_style st sn with
        | Some bk, Some sty =>
          let x := mkrat (negb (neg =? 0)) (limbs_val num) (limbs_val den) in
          Some (sx_resn (fun r => [sx_Ns (shown_text r)])
                        (fmt_value (run_fuel (rden x)) (negb (ex =? 0)) sty bk (as_sep comma) x))
        | _, _ => Some sx_bad
        end
      | _, _, _, _, _, _, _, _, _ => Some sx_bad
      end
    | _ => Some sx_bad
    end
  else if opeq op "fmt-cx" then
    (* (fmt-cx (neg (num) (den) exact base_tag base) re_override (neg (num) (den) ...) im_override style_tag style_n comma)
       a part that is a multiple of pi is passed as its rational approximation with override = 1 *)
    match args with
    | [XL (rn :: XL rnumL :: XL rdenL :: ex :: bt :: b :: _); rov; XL (inn :: XL inum :: XL iden :: _); iov; st; sn; comma] =>
      match as_N rn, as_Ns rnumL, as_Ns rdenL, as_N ex, as_N bt, as_N b with
      | Some rn, Some rnumL, Some rdenL, Some ex, Some bt, Some b =>
        match as_N rov, as_N inn, as_Ns inum, as_Ns iden, as_N iov, as_N st, as_N sn, as_N comma with
        | Some rov, Some inn, Some inum, Some iden, Some iov, Some st, Some sn, Some comma =>
          match as_basek bt b, as_style st sn with
          | Some bk, Some sty =>
            let re := mkrat (negb (rn =? 0)) (limbs_val rnumL) (limbs_val rdenL) in
            let im := mkrat (negb (inn =? 0)) (limbs_val inum) (limbs_val iden) in
            Some (sx_resn (fun r => [sx_Ns (shown_text r)])
                    (complex_format (run_fuel (N.max (rden re) (rden im))) (negb (ex =? 0)) sty bk (as_sep comma)
                                    re (negb (rov =? 0)) im (negb (iov =? 0))))
          | _, _ => Some sx_bad
          end
        | _, _, _, _, _, _, _, _ => Some sx_bad
        end
      | _, _, _, _, _, _ => Some sx_bad
      end
    | _ => Some sx_bad
    end
  else if opeq op "fmt-int" then
    match args with
    | [XL l; _; bt; b; wp; sfs; sf] =>
      match as_Ns l, as_N bt, as_N b, as_N wp, as_N sfs, as_N sf with
      | Some l, Some bt, Some b, Some wp, Some sfs, Some sf =>
        match as_basek bt b with
        | Some bk =>
          Some (sx_resn (fun r => [sx_Ns (fbu_text (fst r)); sx_bool (snd r); sx_N (fbu_num_digits (fst r))])
                        (format_biguint bk (negb (wp =? 0)) (if sfs =? 0 then None else Some sf) (limbs_val l)))
        | None => Some sx_bad
        end
      | _, _, _, _, _, _ => Some sx_bad
      end
    | _ => Some sx_bad
    end
  else if opeq op "lex" then
    (* first number of the input: ("ok" (neg num den) base_tag base (rest)) *)
    match args with
    | [comma; XL cps] =>
      match as_N comma, as_Ns cps with
      | Some comma, Some s =>
        Some (if negb (number_token_start (as_sep comma) s) then XL [XS (B"notnum")] else
              match parse_number (as_sep comma) s with
              | LOk (v, bk, rest) =>
                XL [XS (B"ok"); sx_Q v; sx_N (basek_tag bk); sx_N (base_val bk); sx_Ns rest]
              | LErr e => XL [XS (B"err"); XS (lexerr_name e)]
              end)
      | _, _ => Some sx_bad
      end
    | _ => Some sx_bad
    end
  else if opeq op "lit" then
    (* (lit comma base_tag base int frac exp) -> (ok? (text) (value)) *)
    match args with
    | comma :: rest =>
      match as_N comma, as_lit rest with
      | Some comma, Some l =>
        Some (XL [sx_bool (lit_ok l); sx_Ns (show_lit (as_sep comma) l); sx_Q (lit_value l)])
      | _, _ => Some sx_bad
      end
    | _ => Some sx_bad
    end
  else if opeq op "read" then
    (* (read comma base_tag base (cps)) -> ("some" (neg num den)) | ("none") *)
    match args with
    | [comma; bt; b; XL cps] =>
      match as_N comma, as_N bt, as_N b, as_Ns cps with
      | Some comma, Some bt, Some b, Some s =>
        match as_basek bt b with
        | Some bk => Some (sx_opt sx_Q (read_rendering (as_sep comma) bk s))
        | None => Some sx_bad
        end
      | _, _, _, _ => Some sx_bad
      end
    | _ => Some sx_bad
    end
  else if opeq op "terminates" then
    match args with
    | [b; XL num; XL den] =>
      match as_N b, as_Ns num, as_Ns den with
      | Some b, Some num, Some den =>
        Some (sx_resn (fun t => [sx_bool t])
               (do x <- simplify (mkrat false (limbs_val num) (limbs_val den));
                terminates_in_base b x))
      | _, _, _ => Some sx_bad
      end
    | _ => Some sx_bad
    end
  else if opeq op "strlit" then
    (* whole literal incl. quotes -> ("ok" (text) (rest)) | ("err" "Name") *)
    match args with
    | [XL cps] =>
      match as_Ns cps with
      | Some (q :: body) =>
        if (q =? 34) || (q =? 39) then
          Some (match parse_string_literal q body with
                | SLOk (t, rest) => XL [XS (B"ok"); sx_Ns t; sx_Ns rest]
                | SLErr e => XL [XS (B"err"); XS (slerr_name e)]
                end)
        else Some sx_bad
      | _ => Some sx_bad
      end
    | _ => Some sx_bad
    end
  else if opeq op "strlit-spec" then
    (* (strlit-spec term item ...) -> (wf (source text between the quotes) (denoted text)) *)
    match args with
    | term :: items =>
      match as_N term, as_slitems items with
      | Some term, Some its =>
        Some (XL [sx_bool (wf_items term its); sx_Ns (show_items its); sx_Ns (denote_items its)])
      | _, _ => Some sx_bad
      end
    | _ => Some sx_bad
    end
  else if opeq op "iroot" then
    match args with
    | [XL x; XL n] =>
      match as_Ns x, as_Ns n with
      | Some x, Some n =>
        Some (sx_resn (fun r => [sx_N (fst r); sx_bool (snd r)]) (iroot (limbs_val x) (limbs_val n)))
      | _, _ => Some sx_bad
      end
    | _ => Some sx_bad
    end
  else if opeq op "pow-rat" then
    (* ((neg (num) (den) ...) (neg (num) (den) ...)) -> ("ok" (neg num den) exact) *)
    match args with
    | [XL (xn :: XL xnum :: XL xden :: _); XL (en :: XL enum :: XL eden :: _)] =>
      match as_N xn, as_Ns xnum, as_Ns xden, as_N en, as_Ns enum, as_Ns eden with
      | Some xn, Some xnum, Some xden, Some en, Some enum, Some eden =>
        Some (sx_resn (fun r => [sx_Q (fst r); sx_bool (snd r)])
               (rat_pow (mkrat (negb (xn =? 0)) (limbs_val xnum) (limbs_val xden))
                        (mkrat (negb (en =? 0)) (limbs_val enum) (limbs_val eden))))
      | _, _, _, _, _, _ => Some sx_bad
      end
    | _ => Some sx_bad
    end
  else if opeq op "rflag" then
    (* (rflag pinum piden expr) -> ("ok" "s"|"p" (coefficient) (approximated value) flag known-class)
       pinum/piden: the rational Real::approximate uses for pi *)
    match args with
    | [pn; pd; e] =>
      match as_N pn, as_N pd, as_rexpr e with
      | Some pn, Some (Npos pd), Some re =>
        let piq := (Z.of_N pn # pd) in
        Some (sx_resn (fun r => sx_rpat (fst r) ++ [sx_Q (rapprox piq (fst r)); sx_bool (snd r);
                                                    sx_bool (known_C03_intfn_of_pi piq re)])
                      (rfeval piq re))
      | _, _, _ => Some sx_bad
      end
    | _ => Some sx_bad
    end
  else if opeq op "sval" then
    (* symbolic reference a + b pi: ("some" ((a) (b))) | ("none") *)
    match args with
    | [e] => match as_rexpr e with
             | Some re => Some (sx_opt (fun s => XL [sx_Q (fst s); sx_Q (snd s)]) (sval re))
             | None => Some sx_bad
             end
    | _ => Some sx_bad
    end
  else if opeq op "flag" then
    (* marker model of an expression over exact / approximate leaves *)
    match args with
    | [e] => match as_fexpr e with
             | Some fe => Some (sx_resn (fun r => [sx_Q (fst r); sx_bool (snd r);
                                                    sx_bool (known_C03_add_approx_zero fe)]) (feval fe))
             | None => Some sx_bad
             end
    | _ => Some sx_bad
    end
  else None.

Definition run_fmt_line : list N -> list N := run_with run_fmt.
