(* Proofs about the root / rational power model of Fmt/Root.v (property C03).
   Main results:
     iroot_spec, iroot_total, iroot_panics_iff, iroot_errors   (BigUint::root_n)
     rat_root_exact_iff, rat_root_bracket                      (BigRat::root_n)
     rat_pow_exact_iff, rat_pow_neg_exponent, rat_pow_int,
     rat_pow_no_panic                                          (BigRat::pow)
   No fuel hypotheses anywhere: the fuel computed by [iroot] is proved
   sufficient (iroot_loop_total). *)
From FendV Require Import Base.Prelude Fmt.Rat Fmt.Root.
From Coq Require Import Lia ZifyBool QArith Qpower Znumtheory Zpow_facts Lqa.
From Coq Require Qcanon.
Open Scope N_scope.

Arguments N.add : simpl never.
Arguments N.sub : simpl never.
Arguments N.mul : simpl never.
Arguments N.div : simpl never.
Arguments N.modulo : simpl never.
Arguments N.eqb : simpl never.
Arguments N.ltb : simpl never.
Arguments N.leb : simpl never.
Arguments N.pow : simpl never.

(* ------------------------------------------------------------------ *)
(* 1. integer roots *)

Lemma upow_ok : forall a n, n <> 0 -> n < W64 -> upow a n = Ok (a ^ n).
Proof.
  intros a n Hn Hw. unfold upow.
  replace (n =? 0) with false by lia.
  replace (W64 <=? n) with false by lia.
  rewrite andb_false_r. reflexivity.
Qed.

Lemma half_bounds : forall low high, low <= high ->
  low <= (low + high) / 2 <= high.
Proof.
  intros low high H.
  pose proof (N.div_mod (low + high) 2 ltac:(lia)) as E.
  pose proof (N.mod_lt (low + high) 2 ltac:(lia)) as L.
  generalize dependent ((low + high) / 2). generalize dependent ((low + high) mod 2).
  intros; lia.
Qed.

Lemma half_lt : forall low high, low < high -> (low + high) / 2 < high.
Proof.
  intros low high H.
  pose proof (N.div_mod (low + high) 2 ltac:(lia)) as E.
  pose proof (N.mod_lt (low + high) 2 ltac:(lia)) as L.
  generalize dependent ((low + high) / 2). generalize dependent ((low + high) mod 2).
  intros; lia.
Qed.

Lemma pow_lt_inv : forall a b n, a ^ n < b ^ n -> a < b.
Proof.
  intros a b n H. destruct (N.lt_ge_cases a b) as [|G]; [assumption|].
  pose proof (N.pow_le_mono_l b a n G). lia.
Qed.

Lemma iroot_loop_spec : forall fuel x n low high r ex,
  n <> 0 -> n < W64 -> low ^ n < x -> x < high ^ n ->
  iroot_loop fuel x n low high = Ok (r, ex) ->
  r ^ n <= x < (r + 1) ^ n /\ (ex = true <-> r ^ n = x).
Proof.
  induction fuel as [|f IH]; intros x n low high r ex Hn Hw Hlo Hhi H;
    cbn [iroot_loop] in H; [discriminate|].
  assert (Hlh : low < high) by (apply (pow_lt_inv _ _ n); lia).
  pose proof (half_bounds low high ltac:(lia)) as [Hg1 Hg2].
  pose proof (half_lt low high Hlh) as Hg3.
  set (g := (low + high) / 2) in *.
  rewrite (upow_ok g n Hn Hw) in H. cbn [bind] in H.
  destruct (g ^ n ?= x) eqn:C.
  - apply N.compare_eq_iff in C. inversion H; subst r ex; clear H.
    split; [split; [lia|]|tauto].
    rewrite <- C. apply N.pow_lt_mono_l; lia.
  - pose proof (proj1 (N.compare_lt_iff _ _) C) as C'. unfold usub in H.
    replace (high <? g) with false in H by lia. cbn [bind] in H.
    destruct (high - g <=? 1) eqn:D.
    + inversion H; subst r ex; clear H.
      assert (g + 1 = high) as -> by lia.
      split; [split; lia|]. split; [discriminate|lia].
    + eapply IH; eauto.
  - pose proof (proj1 (N.compare_gt_iff _ _) C) as C'. unfold usub in H.
    assert (low < g) by (apply (pow_lt_inv _ _ n); lia).
    replace (g <? low) with false in H by lia. cbn [bind] in H.
    destruct (g - low <=? 1) eqn:D.
    + inversion H; subst r ex; clear H.
      assert (low + 1 = g) as -> by lia.
      split; [split; lia|]. split; [discriminate|lia].
    + eapply IH; eauto.
Qed.

(* the bisection interval halves: enough fuel is k + 1 when high - low <= 2^k *)
Lemma half_gap_hi : forall low high k, low <= high -> high - low <= 2 ^ (k + 1) ->
  high - (low + high) / 2 <= 2 ^ k.
Proof.
  intros low high k H D. rewrite N.pow_add_r, N.pow_1_r in D.
  pose proof (N.div_mod (low + high) 2 ltac:(lia)) as E.
  pose proof (N.mod_lt (low + high) 2 ltac:(lia)) as L.
  generalize dependent ((low + high) / 2). generalize dependent ((low + high) mod 2).
  generalize dependent (2 ^ k). intros; lia.
Qed.

Lemma half_gap_lo : forall low high k, low <= high -> high - low <= 2 ^ (k + 1) ->
  (low + high) / 2 - low <= 2 ^ k.
Proof.
  intros low high k H D. rewrite N.pow_add_r, N.pow_1_r in D.
  pose proof (N.div_mod (low + high) 2 ltac:(lia)) as E.
  pose proof (N.mod_lt (low + high) 2 ltac:(lia)) as L.
  generalize dependent ((low + high) / 2). generalize dependent ((low + high) mod 2).
  generalize dependent (2 ^ k). intros; lia.
Qed.

Lemma iroot_loop_total : forall fuel x n low high k,
  n <> 0 -> n < W64 -> low <= high -> high - low <= 2 ^ k ->
  (N.to_nat k < fuel)%nat ->
  exists r ex, iroot_loop fuel x n low high = Ok (r, ex).
Proof.
  induction fuel as [|f IH]; intros x n low high k Hn Hw Hlh Hd Hf; [lia|].
  cbn [iroot_loop].
  pose proof (half_bounds low high Hlh) as [Hg1 Hg2].
  rewrite (upow_ok _ n Hn Hw). cbn [bind].
  destruct (N.eq_dec k 0) as [K0|K0].
  - (* gap <= 1: this iteration exits *)
    subst k. rewrite N.pow_0_r in Hd.
    set (g := (low + high) / 2) in *.
    destruct (g ^ n ?= x); [eauto| |]; unfold usub.
    + replace (high <? g) with false by lia. cbn [bind].
      replace (high - g <=? 1) with true by lia. eauto.
    + replace (g <? low) with false by lia. cbn [bind].
      replace (g - low <=? 1) with true by lia. eauto.
  - assert (Hk : k = (k - 1) + 1) by lia. rewrite Hk in Hd.
    pose proof (half_gap_hi low high (k - 1) Hlh Hd) as G1.
    pose proof (half_gap_lo low high (k - 1) Hlh Hd) as G2.
    set (g := (low + high) / 2) in *.
    destruct (g ^ n ?= x); [eauto| |]; unfold usub.
    + replace (high <? g) with false by lia. cbn [bind].
      destruct (high - g <=? 1); [eauto|].
      apply (IH x n g high (k - 1)); try assumption; lia.
    + replace (g <? low) with false by lia. cbn [bind].
      destruct (g - low <=? 1); [eauto|].
      apply (IH x n low g (k - 1)); try assumption; lia.
Qed.

Lemma iroot_init_high : forall x n, n <> 0 ->
  x < (2 ^ (bits x / n + 1 + 1)) ^ n.
Proof.
  intros x n Hn. unfold bits.
  rewrite <- N.pow_mul_r.
  apply N.lt_le_trans with (2 ^ N.size x); [apply N.size_gt|].
  apply N.pow_le_mono_r; [lia|].
  pose proof (N.div_mod (N.size x) n Hn) as E.
  pose proof (N.mod_lt (N.size x) n Hn) as L.
  generalize dependent (N.size x / n). generalize dependent (N.size x mod n).
  intros; nia.
Qed.

Lemma iroot_early : forall x n,
  (x =? 0) || (x =? 1) || (n =? 1) = true -> iroot x n = Ok (x, true).
Proof. intros x n H. unfold iroot. rewrite H. reflexivity. Qed.

Lemma iroot_late : forall x n,
  (x =? 0) || (x =? 1) || (n =? 1) = false -> n <> 0 -> n < W64 ->
  iroot x n =
  iroot_loop (N.to_nat (bits x / n + 1 + 3)) x n 1 (2 ^ (bits x / n + 1 + 1)).
Proof.
  intros x n H Hn Hw. unfold iroot. rewrite H.
  replace (W64 <=? n) with false by lia.
  replace (n =? 0) with false by lia. reflexivity.
Qed.

Theorem iroot_spec : forall x n r ex,
  iroot x n = Ok (r, ex) -> n <> 0 ->
  r ^ n <= x < (r + 1) ^ n /\ (ex = true <-> r ^ n = x).
Proof.
  intros x n r ex H Hn.
  destruct ((x =? 0) || (x =? 1) || (n =? 1)) eqn:E.
  - rewrite (iroot_early _ _ E) in H. inversion H; subst r ex; clear H.
    assert (C : x = 0 \/ x = 1 \/ n = 1) by lia.
    destruct C as [ -> | [ -> | -> ] ].
    + rewrite N.pow_0_l by assumption. rewrite N.add_0_l, N.pow_1_l.
      split; [lia|tauto].
    + rewrite N.pow_1_l.
      assert (1 ^ n < (1 + 1) ^ n) by (apply N.pow_lt_mono_l; lia).
      rewrite N.pow_1_l in *. split; [lia|tauto].
    + rewrite !N.pow_1_r. split; [lia|tauto].
  - destruct (N.lt_ge_cases n W64) as [Hw|Hw].
    + rewrite (iroot_late _ _ E Hn Hw) in H.
      eapply iroot_loop_spec; eauto.
      * rewrite N.pow_1_l. lia.
      * apply iroot_init_high; assumption.
    + unfold iroot in H. rewrite E in H.
      replace (W64 <=? n) with true in H by lia. discriminate.
Qed.

Theorem iroot_total : forall x n, 0 < n < 2 ^ 64 ->
  exists r ex, iroot x n = Ok (r, ex).
Proof.
  intros x n [Hn Hw]. fold W64 in Hw.
  destruct ((x =? 0) || (x =? 1) || (n =? 1)) eqn:E.
  - rewrite (iroot_early _ _ E). eauto.
  - rewrite (iroot_late _ _ E) by lia.
    pose proof (N.pow_nonzero 2 (bits x / n + 1 + 1) ltac:(lia)).
    apply iroot_loop_total with (k := bits x / n + 1 + 1); try lia.
Qed.

(* the only panic is the u64 division by zero at biguint.rs:244 *)
Theorem iroot_panics_iff : forall x n,
  (exists k, iroot x n = Panic k) <-> (n = 0 /\ 2 <= x).
Proof.
  intros x n. split.
  - intros [k H].
    destruct ((x =? 0) || (x =? 1) || (n =? 1)) eqn:E.
    + rewrite (iroot_early _ _ E) in H. discriminate.
    + destruct (N.eq_dec n 0) as [ -> | Hn ]; [lia|].
      destruct (N.lt_ge_cases n W64) as [Hw|Hw].
      * destruct (iroot_total x n) as (r & ex & T); [unfold W64 in Hw; lia|].
        rewrite T in H. discriminate.
      * unfold iroot in H. rewrite E in H.
        replace (W64 <=? n) with true in H by lia. discriminate.
  - intros [-> Hx]. exists 1. unfold iroot.
    replace ((x =? 0) || (x =? 1) || (0 =? 1)) with false by lia.
    reflexivity.
Qed.

Theorem iroot_panic_site : forall x n k, iroot x n = Panic k -> k = 1.
Proof.
  intros x n k H.
  destruct (iroot_panics_iff x n) as [P _].
  destruct (P (ex_intro _ k H)) as [-> Hx].
  unfold iroot in H.
  replace ((x =? 0) || (x =? 1) || (0 =? 1)) with false in H by lia.
  cbv in H. congruence.
Qed.

Theorem iroot_errors : forall x n e, iroot x n = Err e ->
  e = EOutOfRange /\ 2 ^ 64 <= n /\ 2 <= x.
Proof.
  intros x n e H.
  destruct ((x =? 0) || (x =? 1) || (n =? 1)) eqn:E.
  - rewrite (iroot_early _ _ E) in H. discriminate.
  - destruct (N.lt_ge_cases n W64) as [Hw|Hw].
    + destruct (N.eq_dec n 0) as [ -> | Hn ].
      * unfold iroot in H. rewrite E in H. cbv in H. discriminate.
      * destruct (iroot_total x n) as (r & ex & T); [unfold W64 in Hw; lia|].
        rewrite T in H. discriminate.
    + unfold iroot in H. rewrite E in H.
      replace (W64 <=? n) with true in H by lia.
      inversion H. unfold W64 in Hw. repeat split; lia.
Qed.

Example iroot_ex1 : iroot 1000 3 = Ok (10, true).
Proof. vm_compute. reflexivity. Qed.
Example iroot_ex2 : iroot 999 3 = Ok (9, false).
Proof. vm_compute. reflexivity. Qed.
Example iroot_ex3 : iroot 5 0 = Panic 1.
Proof. vm_compute. reflexivity. Qed.
Example iroot_ex4 : iroot (2 ^ 200 + 1) 100 = Ok (4, false).
Proof. vm_compute. reflexivity. Qed.

(* ------------------------------------------------------------------ *)
(* 2. powers of rationals with a natural-number exponent *)

Global Instance qpow_comp : Proper (Qeq ==> eq ==> Qeq) qpow.
Proof. intros a b E n m ->. unfold qpow. rewrite E. reflexivity. Qed.

Lemma qpow_0_r : forall a, (qpow a 0 == 1)%Q.
Proof. intros a. reflexivity. Qed.

Lemma qpow_succ : forall a n, (qpow a (N.succ n) == a * qpow a n)%Q.
Proof.
  intros a n. unfold qpow. rewrite N2Z.inj_succ. unfold Z.succ.
  rewrite Z.add_comm. rewrite Qpower_plus' by lia.
  rewrite Qpower_1_r. reflexivity.
Qed.

Lemma qpow_1_r : forall a, (qpow a 1 == a)%Q.
Proof. intros a. unfold qpow. apply Qpower_1_r. Qed.

Lemma qpow_nonneg : forall a n, (0 <= a -> 0 <= qpow a n)%Q.
Proof. intros a n H. apply Qpower_0_le. assumption. Qed.

Lemma qpow_pos : forall a n, (0 < a -> 0 < qpow a n)%Q.
Proof. intros a n H. apply Qpower_0_lt. assumption. Qed.

Lemma qpow_le_mono : forall a b n, (0 <= a -> a <= b -> qpow a n <= qpow b n)%Q.
Proof.
  intros a b n Ha Hab. induction n as [|n IH] using N.peano_ind.
  - rewrite !qpow_0_r. apply Qle_refl.
  - rewrite !qpow_succ. apply Qmult_le_compat_nonneg.
    + split; assumption.
    + split; [apply qpow_nonneg; assumption | assumption].
Qed.

Lemma qpow_lt_mono : forall a b n, n <> 0 ->
  (0 <= a -> a < b -> qpow a n < qpow b n)%Q.
Proof.
  intros a b n Hn Ha Hab.
  destruct (N.eq_dec n 0) as [|_]; [contradiction|].
  rewrite <- (N.succ_pred n Hn). rewrite !qpow_succ.
  assert (Hb : (0 < b)%Q) by (eapply Qle_lt_trans; eauto).
  pose proof (qpow_le_mono a b (N.pred n) Ha (Qlt_le_weak _ _ Hab)) as L.
  pose proof (qpow_nonneg a (N.pred n) Ha) as P.
  pose proof (qpow_pos b (N.pred n) Hb) as P'.
  apply Qle_lt_trans with (a * qpow b (N.pred n))%Q.
  - apply Qmult_le_compat_nonneg; split; try assumption. apply Qle_refl.
  - apply Qmult_lt_compat_r; assumption.
Qed.

Lemma qpow_lt_inv : forall a b n, (0 <= b -> qpow a n < qpow b n -> a < b)%Q.
Proof.
  intros a b n Hb H. destruct (Qlt_le_dec a b) as [|G]; [assumption|].
  pose proof (qpow_le_mono b a n Hb G) as L.
  exfalso. apply (Qlt_irrefl (qpow a n)). eapply Qlt_le_trans; eauto.
Qed.

Lemma qpow_le_inv : forall a b n, n <> 0 ->
  (0 <= b -> qpow a n <= qpow b n -> a <= b)%Q.
Proof.
  intros a b n Hn Hb H. destruct (Qlt_le_dec b a) as [G|]; [|assumption].
  pose proof (qpow_lt_mono b a n Hn Hb G) as L.
  exfalso. apply (Qlt_irrefl (qpow a n)). eapply Qle_lt_trans; eauto.
Qed.

Lemma qpow_mul : forall a b n, (qpow (a * b) n == qpow a n * qpow b n)%Q.
Proof. intros. unfold qpow. apply Qmult_power. Qed.

Lemma qpow_div : forall a b n, (qpow (a / b) n == qpow a n / qpow b n)%Q.
Proof. intros. unfold qpow. apply Qdiv_power. Qed.

Lemma qpow_inv : forall a n, (qpow (/ a) n == / qpow a n)%Q.
Proof. intros. unfold qpow. apply Qinv_power. Qed.

Lemma qpow_of_N : forall a n, (qpow (q_of_N a) n == q_of_N (a ^ n))%Q.
Proof.
  intros a n. unfold qpow, q_of_N. rewrite N2Z.inj_pow.
  rewrite Zpower_Qpower by lia. reflexivity.
Qed.

Lemma q_of_N_le : forall a b, a <= b -> (q_of_N a <= q_of_N b)%Q.
Proof. intros a b H. unfold q_of_N. rewrite <- Zle_Qle. lia. Qed.

Lemma q_of_N_lt : forall a b, a < b -> (q_of_N a < q_of_N b)%Q.
Proof. intros a b H. unfold q_of_N. rewrite <- Zlt_Qlt. lia. Qed.

Lemma q_of_N_succ : forall a, (q_of_N (a + 1) == q_of_N a + 1)%Q.
Proof.
  intros a. unfold q_of_N. rewrite N2Z.inj_add.
  rewrite inject_Z_plus. reflexivity.
Qed.

Lemma qmid_eq : forall lo hi, (qmid lo hi == (lo + hi) / 2)%Q.
Proof. intros. unfold qmid. apply Qred_correct. Qed.

(* ------------------------------------------------------------------ *)
(* 3. exactness of rational roots *)

Lemma N2Z_gcd : forall a b, Z.of_N (N.gcd a b) = Z.gcd (Z.of_N a) (Z.of_N b).
Proof.
  intros [|p] [|q]; reflexivity.
Qed.

(* a/b = (c/d)^p in lowest terms on both sides forces a = c^p and b = d^p *)
Lemma coprime_pow_eq : forall a b c d p : Z,
  (0 <= a -> 0 <= b -> 0 <= c -> 0 <= d -> 0 <= p ->
   Z.gcd a b = 1 -> Z.gcd c d = 1 -> c ^ p * b = a * d ^ p ->
   a = c ^ p /\ b = d ^ p)%Z.
Proof.
  intros a b c d p Ha Hb Hc Hd Hp Gab Gcd E.
  apply Zgcd_1_rel_prime in Gab. apply Zgcd_1_rel_prime in Gcd.
  pose proof (rel_prime_Zpower p p c d Hp Hp Gcd) as Gp.
  pose proof (Z.pow_nonneg c p Hc) as Pc.
  pose proof (Z.pow_nonneg d p Hd) as Pd.
  split; apply Z.divide_antisym_nonneg; try assumption.
  - apply Gauss with b; [|assumption]. exists (d ^ p)%Z. lia.
  - apply Gauss with (d ^ p)%Z; [|assumption]. exists b. lia.
  - apply Gauss with a; [|apply rel_prime_sym; assumption].
    exists (c ^ p)%Z. lia.
  - apply Gauss with (c ^ p)%Z; [|apply rel_prime_sym; assumption].
    exists a. lia.
Qed.

Lemma perfect_powers_of_rational_root : forall (a : N) (bp : positive) (n : N) (y : Q),
  n <> 0 -> N.gcd a (Npos bp) = 1 ->
  (0 <= y)%Q -> (qpow y n == Z.of_N a # bp)%Q ->
  exists c d, c ^ n = a /\ d ^ n = Npos bp.
Proof.
  intros a bp n y Hn G Hy E.
  assert (G' : Z.gcd (Z.of_N a) (Z.pos bp) = 1%Z).
  { change (Z.pos bp) with (Z.of_N (Npos bp)). rewrite <- N2Z_gcd, G. reflexivity. }
  rewrite <- (Qred_correct y) in E, Hy.
  assert (Gy : Z.gcd (Qnum (Qred y)) (QDen (Qred y)) = 1%Z)
    by (apply Qcanon.Qred_iff, Qcanon.Qred_involutive).
  destruct (Qred y) as [c d]. cbn [Qnum Qden] in Gy.
  assert (Hc : (0 <= c)%Z) by (unfold Qle in Hy; cbn [Qnum Qden] in Hy; lia).
  destruct n as [|p]; [contradiction|].
  unfold qpow in E. change (Z.of_N (Npos p)) with (Z.pos p) in E.
  rewrite Qpower_decomp_pos in E. unfold Qeq in E. cbn [Qnum Qden] in E.
  rewrite Pos2Z.inj_pow in E.
  destruct (coprime_pow_eq (Z.of_N a) (Z.pos bp) c (Z.pos d) (Z.pos p))
    as [Ea Eb]; try assumption; try lia.
  exists (Z.to_N c), (Npos d). split; apply N2Z.inj; rewrite N2Z.inj_pow.
  - rewrite Z2N.id by assumption. symmetry. exact Ea.
  - symmetry. exact Eb.
Qed.

Lemma iroot_exact_iff : forall x n r ex,
  iroot x n = Ok (r, ex) -> n <> 0 -> (ex = true <-> exists c, c ^ n = x).
Proof.
  intros x n r ex H Hn.
  destruct (iroot_spec x n r ex H Hn) as [[L U] I]. rewrite I. split.
  - eauto.
  - intros [c E]. subst x.
    assert (c < r + 1) by (apply (pow_lt_inv _ _ n); assumption).
    destruct (N.lt_ge_cases c r) as [C|C].
    + pose proof (N.pow_lt_mono_l c r n Hn C). lia.
    + f_equal. lia.
Qed.

Lemma iroot_nonzero : forall x n r ex,
  iroot x n = Ok (r, ex) -> n <> 0 -> x <> 0 -> r <> 0.
Proof.
  intros x n r ex H Hn Hx ->.
  destruct (iroot_spec x n 0 ex H Hn) as [[L U] I].
  rewrite N.add_0_l, N.pow_1_l in U. lia.
Qed.

Lemma simplify_rat_of_N : forall k, simplify (rat_of_N k) = Ok (rat_of_N k).
Proof. reflexivity. Qed.

Lemma rat_root_unfold : forall x k, rneg x = false ->
  rat_root x (rat_of_N k) =
  if rnum x =? 0 then Ok (q_of_rat x, true)
  else
    do nr <- iroot (rnum x) k;
    do dr <- iroot (rden x) k;
    if snd nr && snd dr then
      Ok (q_of_rat (mkrat false (fst nr) (fst dr)), true)
    else
      if Qeq_bool (root_component (rden x) k dr) 0 then Err EDivByZero
      else Ok (Qred (root_component (rnum x) k nr / root_component (rden x) k dr),
               false).
Proof.
  intros x k Hs. unfold rat_root. rewrite Hs, andb_false_r.
  rewrite simplify_rat_of_N. reflexivity.
Qed.

Lemma qval_pos : forall x, rneg x = false -> wfr x = true ->
  (qval x == q_of_N (rnum x) / q_of_N (rden x))%Q.
Proof.
  intros [s a [|bp]] Hs Hw; cbn [rneg rnum rden] in *; [discriminate|]. subst s.
  unfold qval, qabs, q_of_N. cbn [rneg rnum rden].
  apply Qmake_Qdiv.
Qed.

Lemma q_of_N_pos : forall a, a <> 0 -> (0 < q_of_N a)%Q.
Proof. intros a H. change 0%Q with (q_of_N 0). apply q_of_N_lt. lia. Qed.

Lemma q_of_N_nonneg : forall a, (0 <= q_of_N a)%Q.
Proof. intros a. change 0%Q with (q_of_N 0). apply q_of_N_le. lia. Qed.

Lemma q_of_rat_eq : forall x, (q_of_rat x == qval x)%Q.
Proof. intros. apply Qred_correct. Qed.

Theorem rat_root_exact_iff : forall x n q ex,
  wfr x = true -> reduced x = true -> rneg x = false -> 0 < n < 2 ^ 64 ->
  rat_root x (rat_of_N n) = Ok (q, ex) ->
  (ex = true <-> exists y : Q, (0 <= y /\ y ^ Z.of_N n == qval x)%Q) /\
  (ex = true -> (0 <= q /\ q ^ Z.of_N n == qval x)%Q).
Proof.
  intros x n q ex Hw Hr Hs [Hn0 Hn64] H.
  assert (Hn : n <> 0) by lia.
  rewrite (rat_root_unfold x n Hs) in H.
  pose proof (qval_pos x Hs Hw) as V.
  assert (Hb : rden x <> 0) by (unfold wfr in Hw; lia).
  destruct (rnum x =? 0) eqn:Z0.
  - (* x = 0 *)
    inversion H; subst q ex; clear H.
    assert (V0 : (qval x == 0)%Q).
    { rewrite V. replace (rnum x) with 0 by lia. unfold q_of_N. cbn [Z.of_N].
      unfold Qdiv. apply Qmult_0_l. }
    assert (P0 : (0 ^ Z.of_N n == 0)%Q) by (apply Qpower_0; lia).
    split.
    + split; [|reflexivity]. intros _. exists 0%Q. split; [apply Qle_refl|].
      rewrite V0. exact P0.
    + intros _. rewrite q_of_rat_eq, V0. split; [apply Qle_refl|exact P0].
  - destruct (iroot (rnum x) n) as [[nv ne]| |] eqn:E1; cbn [bind] in H;
      try discriminate.
    destruct (iroot (rden x) n) as [[dv de]| |] eqn:E2; cbn [bind] in H;
      try discriminate.
    cbn [fst snd] in H.
    pose proof (iroot_spec _ _ _ _ E1 Hn) as [_ I1].
    pose proof (iroot_spec _ _ _ _ E2 Hn) as [_ I2].
    destruct (ne && de) eqn:F.
    + (* both exact *)
      inversion H; subst q ex; clear H.
      apply andb_true_iff in F. destruct F as [-> ->].
      assert (N1 : nv ^ n = rnum x) by (apply I1; reflexivity).
      assert (D1 : dv ^ n = rden x) by (apply I2; reflexivity).
      pose proof (iroot_nonzero _ _ _ _ E2 Hn Hb) as Hdv.
      assert (R : (0 <= q_of_rat (mkrat false nv dv) /\
                   q_of_rat (mkrat false nv dv) ^ Z.of_N n == qval x)%Q).
      { change (?a ^ Z.of_N n)%Q with (qpow a n).
        rewrite q_of_rat_eq.
        rewrite (qval_pos (mkrat false nv dv)) by (unfold wfr; cbn [rden]; lia || reflexivity).
        cbn [rnum rden]. split.
        - apply Qle_shift_div_l; [apply q_of_N_pos; assumption|].
          rewrite Qmult_0_l. apply q_of_N_nonneg.
        - rewrite qpow_div, !qpow_of_N, N1, D1. symmetry. exact V. }
      split; [|intros _; exact R].
      split; [|reflexivity]. intros _. eexists. exact R.
    + (* not both exact *)
      assert (ex = false) as ->.
      { destruct (Qeq_bool _ _) in H; [discriminate|]. inversion H. reflexivity. }
      split; [|discriminate]. split; [discriminate|].
      intros [y [Hy Ey]]. exfalso.
      change (y ^ Z.of_N n)%Q with (qpow y n) in Ey.
      destruct x as [s a [|bp]]; cbn [rneg rnum rden] in *; [contradiction|].
      subst s. unfold qval, qabs in Ey. cbn [rneg rnum rden] in Ey.
      unfold reduced in Hr. cbn [rnum rden] in Hr.
      destruct (perfect_powers_of_rational_root a bp n y Hn ltac:(lia) Hy Ey)
        as (c & d & Ec & Ed).
      pose proof (iroot_exact_iff _ _ _ _ E1 Hn) as X1.
      pose proof (iroot_exact_iff _ _ _ _ E2 Hn) as X2.
      assert (ne = true) by (apply X1; eauto).
      assert (de = true) by (apply X2; eauto).
      subst. discriminate.
Qed.

Example rat_root_ex1 :
  rat_root (mkrat false 8 27) (rat_of_N 3) = Ok ((2 # 3)%Q, true).
Proof. vm_compute. reflexivity. Qed.
Example rat_root_ex2 :
  exists q, rat_root (mkrat false 2 1) (rat_of_N 2) = Ok (q, false).
Proof. eexists. vm_compute. reflexivity. Qed.
Example rat_root_ex3 : rat_root (mkrat true 4 1) (rat_of_N 2) = Err ENegative.
Proof. vm_compute. reflexivity. Qed.
Example rat_root_ex4 :
  rat_root (mkrat false 4 1) (mkrat false 1 2) = Err ENotInteger.
Proof. vm_compute. reflexivity. Qed.

(* ------------------------------------------------------------------ *)
(* 4. inexact rational roots: the 50 bisection steps *)

Fixpoint q2pow (k : nat) : Q :=
  match k with O => 1%Q | S k' => (2 * q2pow k')%Q end.

Lemma q2pow_50 : (q2pow 50 == 1125899906842624)%Q.
Proof. vm_compute. reflexivity. Qed.

Lemma qmid_twice : forall lo hi, (2 * qmid lo hi == lo + hi)%Q.
Proof.
  intros. rewrite qmid_eq. apply Qmult_div_r. discriminate.
Qed.

Lemma iter_root_go_bracket : forall k lo hi val n,
  (lo <= hi)%Q -> (qpow lo n < val)%Q -> (val <= qpow hi n)%Q ->
  exists l h : Q,
    (lo <= l /\ (l <= iter_root_go k lo hi val n /\ iter_root_go k lo hi val n <= h) /\
     (qpow l n <= val /\ val <= qpow h n) /\
     (h - l) * q2pow k == hi - lo)%Q.
Proof.
  induction k as [|k IH]; intros lo hi val n Hle Hlo Hhi; cbn [iter_root_go].
  - exists lo, hi. pose proof (qmid_twice lo hi) as M.
    split; [apply Qle_refl|]. split; [split; lra|].
    split; [split; [apply Qlt_le_weak|]; assumption|].
    cbn [q2pow]. ring.
  - pose proof (qmid_twice lo hi) as M. set (g := qmid lo hi) in *.
    assert (Hg : (lo <= g /\ g <= hi)%Q) by (split; lra).
    assert (Lower : (qpow g n < val)%Q ->
      exists l h : Q,
        (lo <= l /\ (l <= iter_root_go k g hi val n /\ iter_root_go k g hi val n <= h) /\
         (qpow l n <= val /\ val <= qpow h n) /\
         (h - l) * q2pow (S k) == hi - lo)%Q).
    { intros C. destruct (IH g hi val n (proj2 Hg) C Hhi) as (l & h & A & Bd & D & E).
      exists l, h. split; [lra|]. split; [assumption|]. split; [assumption|].
      cbn [q2pow].
      setoid_replace ((h - l) * (2 * q2pow k))%Q with (2 * ((h - l) * q2pow k))%Q by ring.
      rewrite E. lra. }
    assert (Upper : (val <= qpow g n)%Q ->
      exists l h : Q,
        (lo <= l /\ (l <= iter_root_go k lo g val n /\ iter_root_go k lo g val n <= h) /\
         (qpow l n <= val /\ val <= qpow h n) /\
         (h - l) * q2pow (S k) == hi - lo)%Q).
    { intros C. destruct (IH lo g val n (proj1 Hg) Hlo C) as (l & h & A & Bd & D & E).
      exists l, h. split; [assumption|]. split; [assumption|]. split; [assumption|].
      cbn [q2pow].
      setoid_replace ((h - l) * (2 * q2pow k))%Q with (2 * ((h - l) * q2pow k))%Q by ring.
      rewrite E. lra. }
    destruct (Qcompare (qpow g n) val) eqn:C.
    + apply Upper. apply Qeq_alt in C. rewrite C. apply Qle_refl.
    + apply Lower. apply Qlt_alt. assumption.
    + apply Upper. apply Qlt_le_weak. apply Qgt_alt. assumption.
Qed.

Lemma iter_root_bracket : forall low val n,
  n <> 0 -> 1 <= low -> low ^ n < val -> val < (low + 1) ^ n ->
  exists l h : Q,
    (1 <= l /\ (l <= iter_root low val n /\ iter_root low val n <= h) /\
     (qpow l n <= q_of_N val /\ q_of_N val <= qpow h n) /\
     (h - l) * q2pow 50 == 1)%Q.
Proof.
  intros low val n Hn H1 Hlo Hhi. unfold iter_root.
  destruct (iter_root_go_bracket 50 (q_of_N low) (q_of_N low + 1) (q_of_N val) n)
    as (l & h & A & Bd & D & E).
  - lra.
  - rewrite qpow_of_N. apply q_of_N_lt. assumption.
  - rewrite <- q_of_N_succ, qpow_of_N. apply q_of_N_le. lia.
  - exists l, h. split.
    + apply Qle_trans with (q_of_N low); [|assumption].
      change 1%Q with (q_of_N 1). apply q_of_N_le. assumption.
    + split; [assumption|]. split; [assumption|]. rewrite E. ring.
Qed.

(* one component (numerator or denominator) of BigRat::root_n *)
Lemma root_component_bracket : forall c n r,
  n <> 0 -> c <> 0 -> iroot c n = Ok r ->
  exists l h : Q,
    (1 <= l /\ (l <= root_component c n r /\ root_component c n r <= h) /\
     (qpow l n <= q_of_N c /\ q_of_N c <= qpow h n) /\
     (h - l) * q2pow 50 <= 1)%Q.
Proof.
  intros c n [rv re] Hn Hc H. unfold root_component. cbn [fst snd].
  pose proof (iroot_spec _ _ _ _ H Hn) as [[L U] I].
  pose proof (iroot_nonzero _ _ _ _ H Hn Hc) as Hr.
  destruct re.
  - assert (E : rv ^ n = c) by (apply I; reflexivity).
    exists (q_of_N rv), (q_of_N rv).
    split; [change 1%Q with (q_of_N 1); apply q_of_N_le; lia|].
    split; [split; apply Qle_refl|].
    split; [rewrite qpow_of_N, E; split; apply Qle_refl|].
    setoid_replace ((q_of_N rv - q_of_N rv) * q2pow 50)%Q with 0%Q by ring.
    discriminate.
  - assert (rv ^ n <> c) by (intros E; apply I in E; discriminate).
    destruct (iter_root_bracket rv c n) as (l & h & A & Bd & D & E);
      try assumption; try lia.
    exists l, h. split; [assumption|]. split; [assumption|]. split; [assumption|].
    rewrite E. apply Qle_refl.
Qed.

Lemma Qdiv_le_mono : forall a a' b b' : Q,
  (0 <= a -> a <= a' -> 0 < b' -> b' <= b -> a / b <= a' / b')%Q.
Proof.
  intros a a' b b' Ha Haa Hb' Hbb.
  assert (Hb : (0 < b)%Q) by lra.
  apply Qle_shift_div_r; [assumption|].
  assert (T : (0 <= a' / b')%Q) by (apply Qle_shift_div_l; lra).
  assert (E : (a' / b' * b' == a')%Q) by (rewrite Qmult_comm; apply Qmult_div_r; lra).
  generalize dependent (a' / b')%Q. intros t T E. nra.
Qed.

Definition eps48 : Q := (1 # 281474976710656)%Q.

Lemma eps48_eq : (eps48 == 1 / 2 ^ 48)%Q.
Proof. vm_compute. reflexivity. Qed.

(* 2^-48 is below 1e-12 *)
Lemma eps48_small : (eps48 < 1 / 10 ^ 12)%Q.
Proof. vm_compute. reflexivity. Qed.

Lemma two_pow_48_small : (1 / 2 ^ 48 < 1 / 10 ^ 12)%Q.
Proof. vm_compute. reflexivity. Qed.

Lemma width_combine : forall lA hA lB hB : Q,
  (1 <= lA -> lA <= hA -> (hA - lA) * 1125899906842624 <= 1 ->
   1 <= lB -> lB <= hB -> (hB - lB) * 1125899906842624 <= 1 ->
   hA * hB <= lA * (1 + eps48) * lB)%Q.
Proof.
  intros lA hA lB hB A1 A2 A3 B1 B2 B3. unfold eps48.
  set (d := (1 # 1125899906842624)%Q).
  assert (HA : (hA <= lA + d)%Q) by (unfold d; lra).
  assert (HB : (hB <= lB + d)%Q) by (unfold d; lra).
  apply Qle_trans with ((lA + d) * (lB + d))%Q.
  - apply Qmult_le_compat_nonneg; split; lra.
  - assert (P : (0 <= (lA - 1) * (lB - 1))%Q) by (apply Qmult_le_0_compat; lra).
    unfold d. nra.
Qed.

Theorem rat_root_bracket_eps : forall x n q,
  wfr x = true -> rneg x = false -> rnum x <> 0 -> 2 <= n < 2 ^ 64 ->
  rat_root x (rat_of_N n) = Ok (q, false) ->
  exists lo hi : Q,
    (0 < lo /\ (lo <= q /\ q <= hi) /\
     (lo ^ Z.of_N n <= qval x /\ qval x <= hi ^ Z.of_N n) /\
     hi <= lo * (1 + eps48))%Q.
Proof.
  intros x n q Hw Hs Ha [Hn2 Hn64] H.
  assert (Hn : n <> 0) by lia.
  assert (Hb : rden x <> 0) by (unfold wfr in Hw; lia).
  rewrite (rat_root_unfold x n Hs) in H.
  replace (rnum x =? 0) with false in H by lia.
  destruct (iroot (rnum x) n) as [nr| |] eqn:E1; cbn [bind] in H; try discriminate.
  destruct (iroot (rden x) n) as [dr| |] eqn:E2; cbn [bind] in H; try discriminate.
  destruct (snd nr && snd dr); [discriminate|].
  destruct (Qeq_bool _ _); [discriminate|].
  destruct (root_component_bracket _ _ _ Hn Ha E1)
    as (lA & hA & A1 & [A2 A3] & [A4 A5] & A6).
  destruct (root_component_bracket _ _ _ Hn Hb E2)
    as (lB & hB & B1 & [B2 B3] & [B4 B5] & B6).
  set (mA := root_component (rnum x) n nr) in *.
  set (mB := root_component (rden x) n dr) in *.
  rewrite q2pow_50 in A6, B6.
  assert (Hq : (q == mA / mB)%Q).
  { assert (Hq : Qred (mA / mB) = q) by congruence.
    rewrite <- Hq. apply Qred_correct. }
  clear H.
  exists (lA / hB)%Q, (hA / lB)%Q.
  rewrite (qval_pos x Hs Hw). rewrite Hq.
  change (?a ^ Z.of_N n)%Q with (qpow a n).
  assert (PA : (0 <= qpow lA n)%Q) by (apply qpow_nonneg; lra).
  assert (PB : (0 < qpow lB n)%Q) by (apply qpow_pos; lra).
  assert (QA : (0 < q_of_N (rnum x))%Q) by (apply q_of_N_pos; assumption).
  assert (QB : (0 < q_of_N (rden x))%Q) by (apply q_of_N_pos; assumption).
  split; [apply Qlt_shift_div_l; lra|].
  split; [split; apply Qdiv_le_mono; lra|].
  split; [split; rewrite qpow_div; apply Qdiv_le_mono; lra|].
  apply Qle_shift_div_r; [lra|].
  setoid_replace (lA / hB * (1 + eps48) * lB)%Q with (lA * (1 + eps48) * lB / hB)%Q
    by (unfold Qdiv; ring).
  apply Qle_shift_div_l; [lra|].
  apply width_combine; lra.
Qed.

Theorem rat_root_bracket : forall x n q,
  wfr x = true -> rneg x = false -> rnum x <> 0 -> 2 <= n < 2 ^ 64 ->
  rat_root x (rat_of_N n) = Ok (q, false) ->
  exists lo hi : Q,
    (0 < lo /\ (lo <= q /\ q <= hi) /\
     (lo ^ Z.of_N n <= qval x /\ qval x <= hi ^ Z.of_N n) /\
     hi <= lo * (1 + 1 / 2 ^ 48))%Q.
Proof.
  intros x n q Hw Hs Ha Hn H.
  destruct (rat_root_bracket_eps x n q Hw Hs Ha Hn H) as (lo & hi & A & Bd & C & D).
  exists lo, hi. rewrite <- eps48_eq. auto.
Qed.

Example rat_root_bracket_ex :
  exists q, rat_root (mkrat false 2 1) (rat_of_N 2) = Ok (q, false) /\
            (q == 3184525836262887 # 2251799813685248)%Q.
Proof. eexists. split; [vm_compute; reflexivity | reflexivity]. Qed.

(* ------------------------------------------------------------------ *)
(* 5. rational powers *)

Lemma simplify_reduced : forall x, reduced x = true -> simplify x = Ok x.
Proof.
  intros [s a b] Hr. unfold reduced in Hr. unfold simplify. cbn [rnum rden rneg] in *.
  destruct (b =? 1); [reflexivity|].
  replace (N.gcd a b) with 1 by lia.
  change (1 =? 0) with false. cbv iota. rewrite !N.div_1_r. reflexivity.
Qed.

Lemma gcd_pow_1 : forall a b p, N.gcd a b = 1 -> N.gcd (a ^ p) (b ^ p) = 1.
Proof.
  intros a b p G. apply N2Z.inj. rewrite N2Z_gcd, !N2Z.inj_pow.
  apply Zgcd_1_rel_prime. apply rel_prime_Zpower; try lia.
  apply Zgcd_1_rel_prime. rewrite <- N2Z_gcd, G. reflexivity.
Qed.

Lemma qval_pow_res : forall x p, rneg x = false -> wfr x = true ->
  (qval (mkrat false (rnum x ^ p) (rden x ^ p)) == qpow (qval x) p)%Q.
Proof.
  intros x p Hs Hw.
  assert (Hb : rden x <> 0) by (unfold wfr in Hw; lia).
  rewrite (qval_pos x Hs Hw).
  rewrite qval_pos; cbn [rneg rnum rden]; [|reflexivity|].
  - rewrite qpow_div, !qpow_of_N. reflexivity.
  - unfold wfr. cbn [rden]. pose proof (N.pow_nonzero (rden x) p Hb). lia.
Qed.

Lemma rat_pow_pos_unfold : forall x p q,
  rneg x = false -> p <> 0 -> p < W64 ->
  rat_pow_pos x p q =
  if q =? 1 then Ok (q_of_rat (mkrat false (rnum x ^ p) (rden x ^ p)), true)
  else rat_root (mkrat false (rnum x ^ p) (rden x ^ p)) (rat_of_N q).
Proof.
  intros x p q Hs Hp Hw. unfold rat_pow_pos.
  rewrite Hs, !upow_ok by assumption. reflexivity.
Qed.

Theorem rat_pow_exact_iff : forall x e r ex,
  wfr x = true -> reduced x = true -> rneg x = false ->
  reduced e = true -> rneg e = false ->
  0 < rnum e < 2 ^ 64 -> 0 < rden e < 2 ^ 64 ->
  rat_pow x e = Ok (r, ex) ->
  (ex = true <->
   exists y : Q, (0 <= y /\ y ^ Z.of_N (rden e) == qval x ^ Z.of_N (rnum e))%Q) /\
  (ex = true ->
   (0 <= r /\ r ^ Z.of_N (rden e) == qval x ^ Z.of_N (rnum e))%Q).
Proof.
  intros x e r ex Hw Hr Hs Her Hes [Hp0 Hp64] [Hq0 Hq64] H.
  unfold rat_pow in H.
  rewrite (simplify_reduced x Hr), (simplify_reduced e Her) in H.
  cbn [bind] in H. rewrite Hs, Hes, andb_false_r in H. cbn [andb] in H.
  rewrite rat_pow_pos_unfold in H by (try assumption; unfold W64; lia).
  set (p := rnum e) in *. set (q := rden e) in *.
  pose proof (qval_pow_res x p Hs Hw) as V.
  set (pr := mkrat false (rnum x ^ p) (rden x ^ p)) in *.
  change (?a ^ Z.of_N ?k)%Q with (qpow a k).
  assert (Hb : rden x <> 0) by (unfold wfr in Hw; lia).
  assert (Wp : wfr pr = true).
  { unfold wfr, pr. cbn [rden]. pose proof (N.pow_nonzero (rden x) p Hb). lia. }
  destruct (q =? 1) eqn:Q1.
  - inversion H; subst r ex; clear H.
    assert (R : (0 <= q_of_rat pr /\ qpow (q_of_rat pr) q == qpow (qval x) p)%Q).
    { rewrite q_of_rat_eq. replace q with 1 by lia. rewrite qpow_1_r. split.
      - rewrite V. apply qpow_nonneg. rewrite (qval_pos x Hs Hw).
        apply Qle_shift_div_l; [apply q_of_N_pos; assumption|].
        rewrite Qmult_0_l. apply q_of_N_nonneg.
      - exact V. }
    split; [|intros _; exact R]. split; [|reflexivity]. intros _. eexists. exact R.
  - assert (Rp : reduced pr = true).
    { unfold reduced in *. unfold pr. cbn [rnum rden].
      rewrite gcd_pow_1 by lia. reflexivity. }
    destruct (rat_root_exact_iff pr q r ex Wp Rp eq_refl (conj Hq0 Hq64) H)
      as [I S].
    change (?a ^ Z.of_N ?k)%Q with (qpow a k) in I, S.
    split.
    + rewrite I. split; intros [y [Y1 Y2]]; exists y; split; try assumption.
      * rewrite Y2. exact V.
      * rewrite Y2. symmetry. exact V.
    + intros T. destruct (S T) as [S1 S2]. split; [assumption|].
      rewrite S2. exact V.
Qed.

Lemma simplify_flip_sign : forall e e', rneg e = false -> simplify e = Ok e' ->
  rneg e' = false /\
  simplify (mkrat true (rnum e) (rden e)) = Ok (mkrat true (rnum e') (rden e')).
Proof.
  intros [s a b] e' Hs H. cbn [rneg] in Hs. subst s.
  unfold simplify in *. cbn [rneg rnum rden] in *.
  destruct (b =? 1).
  - inversion H; subst e'. split; reflexivity.
  - destruct (N.gcd a b =? 0); [discriminate|].
    inversion H; subst e'. split; reflexivity.
Qed.

(* x^(-e) has the flag of x^e and the inverse value (DivideByZero if x^e = 0) *)
Theorem rat_pow_neg_exponent : forall x e r ex,
  rneg e = false -> rat_pow x e = Ok (r, ex) ->
  rat_pow x (mkrat true (rnum e) (rden e)) =
  if Qeq_bool r 0 then Err EDivByZero else Ok (Qred (/ r), ex).
Proof.
  intros x e r ex Hs H. unfold rat_pow in *.
  destruct (simplify x) as [x'| |]; cbn [bind] in *; try discriminate.
  destruct (simplify e) as [e'| |] eqn:Se; cbn [bind] in *; try discriminate.
  destruct (simplify_flip_sign e e' Hs Se) as [Hs' ->]. cbn [bind rneg rnum rden].
  rewrite Hs' in H.
  destruct (negb (rnum x' =? 0) && rneg x' && negb (rden e' =? 1));
    [discriminate|].
  rewrite H. reflexivity.
Qed.

Corollary rat_pow_neg_exponent_value : forall x e r ex,
  rneg e = false -> rat_pow x e = Ok (r, ex) -> ~ (r == 0)%Q ->
  exists r', rat_pow x (mkrat true (rnum e) (rden e)) = Ok (r', ex) /\
             (r' == / r)%Q.
Proof.
  intros x e r ex Hs H Hr.
  rewrite (rat_pow_neg_exponent x e r ex Hs H).
  destruct (Qeq_bool r 0) eqn:Z.
  - apply Qeq_bool_iff in Z. contradiction.
  - eexists. split; [reflexivity|]. apply Qred_correct.
Qed.

Corollary rat_pow_neg_exponent_zero : forall x e r ex,
  rneg e = false -> rat_pow x e = Ok (r, ex) -> (r == 0)%Q ->
  rat_pow x (mkrat true (rnum e) (rden e)) = Err EDivByZero.
Proof.
  intros x e r ex Hs H Hr.
  rewrite (rat_pow_neg_exponent x e r ex Hs H).
  apply Qeq_bool_iff in Hr. rewrite Hr. reflexivity.
Qed.

Example rat_pow_ex1 :
  rat_pow (mkrat false 8 27) (mkrat false 2 3) = Ok ((4 # 9)%Q, true).
Proof. vm_compute. reflexivity. Qed.
Example rat_pow_ex2 :
  rat_pow (mkrat false 8 27) (mkrat true 2 3) = Ok ((9 # 4)%Q, true).
Proof. vm_compute. reflexivity. Qed.
Example rat_pow_ex3 :
  exists q, rat_pow (mkrat false 2 1) (mkrat false 1 2) = Ok (q, false).
Proof. eexists. vm_compute. reflexivity. Qed.
Example rat_pow_ex4 :
  rat_pow (mkrat true 8 27) (mkrat false 1 3) = Err ENegative.
Proof. vm_compute. reflexivity. Qed.
Example rat_pow_ex5 :
  rat_pow (mkrat false 0 1) (mkrat true 3 1) = Err EDivByZero.
Proof. vm_compute. reflexivity. Qed.
Example rat_pow_ex6 :
  rat_pow (mkrat true 2 3) (mkrat false 3 1) = Ok ((-8 # 27)%Q, true).
Proof. vm_compute. reflexivity. Qed.
Example rat_pow_ex7 : rat_pow (mkrat false 0 1) (mkrat false 0 1) = Err EZeroPowZero.
Proof. vm_compute. reflexivity. Qed.
Example rat_pow_ex8 :
  rat_pow (mkrat false 2 1) (mkrat false (2 ^ 64) 1) = Err EExpTooLarge.
Proof. vm_compute. reflexivity. Qed.

(* ------------------------------------------------------------------ *)
(* 6. integer exponents, signs *)

Lemma qpow_opp : forall t n,
  (qpow (- t) n == if N.even n then qpow t n else - qpow t n)%Q.
Proof.
  intros t n. induction n as [|n IH] using N.peano_ind.
  - reflexivity.
  - rewrite N.even_succ, <- N.negb_even. rewrite qpow_succ, IH.
    destruct (N.even n); cbn [negb]; rewrite qpow_succ; ring.
Qed.

Lemma qval_sign : forall s a b,
  (qval (mkrat s a b) == if s then - qval (mkrat false a b) else qval (mkrat false a b))%Q.
Proof. intros [|] a b; reflexivity. Qed.

Theorem rat_pow_int : forall x n r ex,
  wfr x = true -> reduced x = true -> 0 < n < 2 ^ 64 ->
  rat_pow x (rat_of_N n) = Ok (r, ex) ->
  ex = true /\ (r == qval x ^ Z.of_N n)%Q.
Proof.
  intros x n r ex Hw Hr [Hn0 Hn64] H. unfold rat_pow in H.
  rewrite (simplify_reduced x Hr), simplify_rat_of_N in H.
  cbn [bind rat_of_N rneg rnum rden] in H.
  change (1 =? 1) with true in H. cbn [negb] in H.
  rewrite andb_false_r in H. unfold rat_pow_pos in H.
  rewrite !upow_ok in H by (unfold W64; lia). cbn [bind] in H.
  change (1 =? 1) with true in H. cbv iota in H.
  assert (Hq : q_of_rat (mkrat (negb (negb (rneg x) || N.even n))
                               (rnum x ^ n) (rden x ^ n)) = r) by congruence.
  assert (ex = true) as -> by congruence.
  split; [reflexivity|]. clear H.
  change (qval x ^ Z.of_N n)%Q with (qpow (qval x) n).
  rewrite <- Hq, q_of_rat_eq, qval_sign.
  destruct x as [s a b]. cbn [rneg rnum rden] in *.
  assert (V : (qval (mkrat false (a ^ n) (b ^ n)) ==
               qpow (qval (mkrat false a b)) n)%Q)
    by exact (qval_pow_res (mkrat false a b) n eq_refl Hw).
  rewrite (qval_sign s a b). destruct s; cbn [negb orb].
  - rewrite qpow_opp. destruct (N.even n); cbn [negb]; rewrite V; reflexivity.
  - rewrite V. reflexivity.
Qed.

(* ------------------------------------------------------------------ *)
(* 7. the panic site is unreachable from BigRat::pow on well-formed input *)

Lemma simplify_wfr : forall e e', wfr e = true -> simplify e = Ok e' -> rden e' <> 0.
Proof.
  intros [s a b] e' Hw H. unfold wfr in Hw. unfold simplify in H.
  cbn [rneg rnum rden] in *.
  destruct (b =? 1) eqn:B1.
  - inversion H; subst e'. cbn [rden]. lia.
  - destruct (N.gcd a b =? 0) eqn:G0; [discriminate|].
    inversion H; subst e'. cbn [rden].
    destruct (N.gcd_divide_r a b) as [c Hc].
    set (g := N.gcd a b) in *. rewrite Hc at 1.
    rewrite N.div_mul by lia. intros ->. lia.
Qed.

Lemma simplify_no_panic : forall e k, simplify e <> Panic k.
Proof.
  intros e k. unfold simplify.
  destruct (rden e =? 1); [discriminate|].
  destruct (N.gcd (rnum e) (rden e) =? 0); discriminate.
Qed.

Lemma upow_no_panic : forall a b k, upow a b <> Panic k.
Proof.
  intros a b k. unfold upow.
  destruct ((a =? 0) && (b =? 0)); [discriminate|].
  destruct (b =? 0); [discriminate|].
  destruct (W64 <=? b); discriminate.
Qed.

Lemma iroot_no_panic : forall x n k, n <> 0 -> iroot x n <> Panic k.
Proof.
  intros x n k Hn H.
  destruct (proj1 (iroot_panics_iff x n) (ex_intro _ k H)). contradiction.
Qed.

Lemma rat_root_no_panic : forall x d k, d <> 0 ->
  rat_root x (mkrat false d 1) <> Panic k.
Proof.
  intros x d k Hd. unfold rat_root.
  destruct (negb (rnum x =? 0) && rneg x); [discriminate|].
  change (simplify (mkrat false d 1)) with (Ok (mkrat false d 1)).
  cbn [bind rneg rnum rden]. change (1 =? 1) with true. cbn [negb orb].
  destruct (rnum x =? 0); [discriminate|].
  destruct (iroot (rnum x) d) as [nr|e|k1] eqn:E1; cbn [bind];
    [|discriminate|exfalso; exact (iroot_no_panic _ _ _ Hd E1)].
  destruct (iroot (rden x) d) as [dr|e|k2] eqn:E2; cbn [bind];
    [|discriminate|exfalso; exact (iroot_no_panic _ _ _ Hd E2)].
  destruct (snd nr && snd dr); [discriminate|].
  destruct (Qeq_bool _ _); discriminate.
Qed.

Lemma rat_pow_pos_no_panic : forall x en ed k, ed <> 0 ->
  rat_pow_pos x en ed <> Panic k.
Proof.
  intros x en ed k Hd. unfold rat_pow_pos.
  destruct (upow (rnum x) en) as [pn|e|k1] eqn:E1; cbn [bind];
    [|discriminate|exfalso; exact (upow_no_panic _ _ _ E1)].
  destruct (upow (rden x) en) as [pd|e|k2] eqn:E2; cbn [bind];
    [|discriminate|exfalso; exact (upow_no_panic _ _ _ E2)].
  destruct (ed =? 1); [discriminate|].
  apply rat_root_no_panic. assumption.
Qed.

Theorem rat_pow_no_panic : forall x e k, wfr e = true -> rat_pow x e <> Panic k.
Proof.
  intros x e k Hw. unfold rat_pow.
  destruct (simplify x) as [x'|e1|k1] eqn:S1; cbn [bind];
    [|discriminate|exfalso; exact (simplify_no_panic _ _ S1)].
  destruct (simplify e) as [e'|e2|k2] eqn:S2; cbn [bind];
    [|discriminate|exfalso; exact (simplify_no_panic _ _ S2)].
  pose proof (simplify_wfr e e' Hw S2) as Hd.
  destruct (negb (rnum x' =? 0) && rneg x' && negb (rden e' =? 1)); [discriminate|].
  destruct (rneg e').
  - destruct (rat_pow_pos x' (rnum e') (rden e')) as [r|e3|k3] eqn:P; cbn [bind];
      [|discriminate|exfalso; exact (rat_pow_pos_no_panic _ _ _ _ Hd P)].
    destruct (Qeq_bool (fst r) 0); discriminate.
  - apply rat_pow_pos_no_panic. assumption.
Qed.

(* ------------------------------------------------------------------ *)
(* 8. the theorems applied to concrete inputs (hypotheses are satisfiable) *)

Example iroot_spec_inst : 9 ^ 3 <= 999 /\ 999 < (9 + 1) ^ 3.
Proof. exact (proj1 (iroot_spec 999 3 9 false iroot_ex2 ltac:(discriminate))). Qed.

Example iroot_total_inst : exists r ex, iroot 123456789 7 = Ok (r, ex).
Proof. apply iroot_total. split; reflexivity. Qed.

Example rat_root_exact_iff_inst :
  exists y : Q, (0 <= y /\ y ^ 3 == 8 # 27)%Q.
Proof.
  apply (proj1 (rat_root_exact_iff (mkrat false 8 27) 3 (2 # 3)%Q true
           eq_refl eq_refl eq_refl (conj eq_refl eq_refl) rat_root_ex1)).
  reflexivity.
Qed.

(* the square root of 2 is irrational, read off the flag computed by the model *)
Example sqrt2_irrational : ~ exists y : Q, (0 <= y /\ y ^ 2 == 2)%Q.
Proof.
  destruct rat_root_ex2 as [q Hq]. intros Hy.
  pose proof (proj2 (proj1 (rat_root_exact_iff (mkrat false 2 1) 2 q false
           eq_refl eq_refl eq_refl (conj eq_refl eq_refl) Hq)) Hy).
  discriminate.
Qed.

Example rat_root_bracket_inst :
  exists q lo hi : Q,
    rat_root (mkrat false 2 1) (rat_of_N 2) = Ok (q, false) /\
    (0 < lo /\ (lo <= q /\ q <= hi) /\ (lo ^ 2 <= 2 /\ 2 <= hi ^ 2) /\
     hi <= lo * (1 + 1 / 2 ^ 48))%Q.
Proof.
  destruct rat_root_ex2 as [q Hq].
  assert (A : rnum (mkrat false 2 1) <> 0) by discriminate.
  assert (A2 : 2 <= 2 < 2 ^ 64) by (split; [discriminate|reflexivity]).
  destruct (rat_root_bracket (mkrat false 2 1) 2 q eq_refl eq_refl A A2 Hq)
    as (lo & hi & P).
  exists q, lo, hi. split; [exact Hq | exact P].
Qed.

Example rat_pow_exact_iff_inst :
  exists y : Q, (0 <= y /\ y ^ 3 == (8 # 27) ^ 2)%Q.
Proof.
  apply (proj1 (rat_pow_exact_iff (mkrat false 8 27) (mkrat false 2 3) (4 # 9)%Q true
           eq_refl eq_refl eq_refl eq_refl eq_refl
           (conj eq_refl eq_refl) (conj eq_refl eq_refl) rat_pow_ex1)).
  reflexivity.
Qed.

Example rat_pow_neg_exponent_inst :
  rat_pow (mkrat false 8 27) (mkrat true 2 3) = Ok (Qred (/ (4 # 9)), true).
Proof.
  exact (rat_pow_neg_exponent (mkrat false 8 27) (mkrat false 2 3) (4 # 9)%Q true
           eq_refl rat_pow_ex1).
Qed.

Example rat_pow_int_inst :
  rat_pow (mkrat true 2 3) (rat_of_N 3) = Ok ((-8 # 27)%Q, true).
Proof. vm_compute. reflexivity. Qed.
