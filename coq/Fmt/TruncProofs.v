(* C03, formatting side: a rendering flagged exact denotes the value for
   EVERY style (the marker never misstates); `n dp` is the truncation of the
   true expansion at n places, flagged exact iff nothing was dropped; the
   significant-figure mask on integers truncates and is flagged likewise. *)
From FendV Require Import Base.Prelude Fmt.Rat Fmt.Format Fmt.Lex Fmt.IntFmtProofs Fmt.LexProofs
  Fmt.ExpansionProofs Fmt.RoundTripProofs.
From Coq Require Import Lia ZifyBool QArith.
Open Scope N_scope.

Arguments N.add : simpl never.
Arguments N.sub : simpl never.
Arguments N.mul : simpl never.
Arguments N.div : simpl never.
Arguments N.modulo : simpl never.
Arguments N.eqb : simpl never.
Arguments N.ltb : simpl never.
Arguments N.leb : simpl never.
Arguments N.pow : simpl never.
Arguments N.gcd : simpl never.

From Coq Require Import Morphisms Setoid.
#[global] Instance signedQ_proper : Proper (eq ==> Qeq ==> Qeq) signedQ.
Proof. intros n1 n2 -> q1 q2 Hq. unfold signedQ. destruct n2; rewrite Hq; reflexivity. Qed.

(* ------------------------------------------------------------------ *)
(* reading any non-empty digit string *)

Lemma read_unsigned_ds : forall sep base ds, base_prefix_ok base = true ->
  ds <> [] -> Forall (fun d => d < base_val base) ds ->
  exists v, read_unsigned sep base (prefix_text base ++ map dchar ds) = Some v /\
            (v == qN (digits_val (base_val base) ds))%Q.
Proof.
  intros sep base ds Hb Hne Hall.
  destruct (read_unsigned_dec sep base ds [] [] Hb Hne Hall (Forall_nil _) (Forall_nil _)) as (v & Hr & Hv).
  rewrite show_dec_lit in Hr by assumption. rewrite app_nil_r in Hr.
  exists v. split; [assumption|]. rewrite Hv, dec_lit_value by assumption. ring.
Qed.

Lemma digits_val_inj : forall b xs ys, 1 <= b -> length xs = length ys ->
  Forall (fun d => d < b) xs -> Forall (fun d => d < b) ys ->
  digits_val b xs = digits_val b ys -> xs = ys.
Proof.
  intros b xs. induction xs as [|x xs IH]; intros ys Hb Hlen Hx Hy E.
  - destruct ys; [reflexivity|discriminate].
  - destruct ys as [|y ys]; [discriminate|]. cbn [length] in Hlen. injection Hlen as Hlen.
    rewrite !digits_val_cons, Hlen in E. inversion Hx as [|? ? Hx1 Hx2]; subst. inversion Hy as [|? ? Hy1 Hy2]; subst.
    pose proof (digits_val_lt _ _ Hx2) as L1. pose proof (digits_val_lt _ _ Hy2) as L2. rewrite Hlen in L1.
    remember (b ^ N.of_nat (length ys)) as P. remember (digits_val b xs) as vx. remember (digits_val b ys) as vy.
    assert (x = y) by nia. subst x. f_equal. subst vx vy. apply IH; try assumption. nia.
Qed.

(* ------------------------------------------------------------------ *)
(* the integer layout with an sf limit *)

Lemma format_as_integer_gen : forall base neg sfl n s ex, base_prefix_ok base = true ->
  format_as_integer n base neg sfl = Ok (s, ex) ->
  exists ds, canon_ds (base_val base) n ds /\
    s = sign_text neg ++ prefix_text base ++
        map dchar (match sfl with Some sf => mask_ds sf ds | None => ds end) /\
    (ex = true <-> match sfl with Some sf => mask_ds sf ds = ds | None => True end).
Proof.
  intros base neg sfl n s ex Hb H. unfold format_as_integer in H.
  destruct (format_biguint_gen base true sfl n (base_prefix_ok_range base Hb)) as (f & ds & ex' & Hf & Hc & _ & Ht & Hex).
  rewrite Hf in H. cbn [bind fst snd] in H. injection H as <- <-.
  exists ds. split; [assumption|]. split; [rewrite Ht; reflexivity|assumption].
Qed.

(* what is shown for an integer under `sf` significant figures: the number
   with all digits after the first sf replaced by zeros, i.e. truncated *)
Theorem sf_int_truncation_lemma : forall base sep neg sf n s ex, base_prefix_ok base = true ->
  format_as_integer n base neg (Some sf) = Ok (s, ex) ->
  exists ds v, canon_ds (base_val base) n ds /\
    read_rendering sep base s = Some v /\
    let k := N.of_nat (length ds - N.to_nat sf) in
    (v == signedQ neg (qN (n / base_val base ^ k * base_val base ^ k)))%Q /\
    (ex = true <-> n / base_val base ^ k * base_val base ^ k = n).
Proof.
  intros base sep neg sf n s ex Hb H.
  pose proof (base_prefix_ok_range base Hb) as Hr.
  apply format_as_integer_gen in H; [|assumption].
  destruct H as (ds & Hc & -> & Hex). exists ds.
  pose proof (canon_nonempty _ _ _ Hc) as Hne. destruct Hc as (Hall & Hv & Hz & Hnz).
  assert (Hmall : Forall (fun d => d < base_val base) (mask_ds sf ds)) by (apply mask_ds_all; [lia|assumption]).
  assert (Hmne : mask_ds sf ds <> []).
  { intro E. apply (f_equal (@length N)) in E. rewrite mask_ds_length in E. destruct ds; [contradiction|discriminate]. }
  destruct (read_unsigned_ds sep base (mask_ds sf ds) Hb Hmne Hmall) as (v & Hrd & Hval).
  rewrite read_signed by (apply num_text_head; assumption). rewrite Hrd.
  eexists. split; [unfold canon_ds; auto|]. split; [reflexivity|].
  cbn zeta.
  assert (Hmv : digits_val (base_val base) (mask_ds sf ds) =
                n / base_val base ^ N.of_nat (length ds - N.to_nat sf) * base_val base ^ N.of_nat (length ds - N.to_nat sf)).
  { rewrite mask_ds_value by (lia || assumption). rewrite Hv. reflexivity. }
  rewrite <- Hmv.
  split.
  - unfold signedQ. destruct neg; rewrite Hval; reflexivity.
  - rewrite Hex. split.
    + intros E. rewrite E. assumption.
    + intros E. rewrite <- Hv in E.
      assert (Hlen : length (mask_ds sf ds) = length ds) by apply mask_ds_length.
      apply (digits_val_inj (base_val base)); try assumption. lia.
Qed.

(* ------------------------------------------------------------------ *)
(* exact flag => the text denotes the value, every style *)

Lemma format_as_integer_rt_gen : forall base sep neg sfl n s, base_prefix_ok base = true ->
  format_as_integer n base neg sfl = Ok (s, true) ->
  exists v, read_rendering sep base s = Some v /\ (v == signedQ neg (qN n))%Q.
Proof.
  intros base sep neg sfl n s Hb H.
  apply format_as_integer_gen in H; [|assumption].
  destruct H as (ds & Hc & -> & Hex).
  assert (Hm : match sfl with Some sf => mask_ds sf ds | None => ds end = ds).
  { destruct sfl; [apply Hex; reflexivity|reflexivity]. }
  rewrite Hm. rewrite read_signed by (apply num_text_head; [assumption|eapply canon_nonempty; eassumption]).
  destruct (read_unsigned_int sep base n ds Hb Hc) as (v & Hr & Hv). rewrite Hr.
  eexists. split; [reflexivity|]. unfold signedQ. destruct neg; rewrite Hv; reflexivity.
Qed.

Lemma format_as_decimal_rt_gen : forall fuel x st base sep neg t s,
  base_prefix_ok base = true -> rden x <> 0 ->
  format_as_decimal fuel x st base neg (Ok t) sep = Ok (s, true) ->
  exists v, read_rendering sep base s = Some v /\
            (v == signedQ neg (qN (rnum x) / qN (rden x)))%Q.
Proof.
  intros fuel x st base sep neg t s Hbase Hd H.
  pose proof (base_prefix_ok_range base Hbase) as Hb.
  unfold format_as_decimal in H. replace (rden x =? 0) with false in H by lia.
  destruct (format_biguint_gen base true (match st with SSf sf => Some sf | _ => None end) (rnum x / rden x) Hb)
    as (fi & ipd & exi & Hfi & Hci & _ & Hti & Hexi).
  rewrite Hfi in H. cbn [bind fst snd] in H.
  assert (Hftd : exists md sign text ex,
            format_trailing_digits fuel base (rnum x - rnum x / rden x * rden x) (rden x) md (Ok t) sep neg
              (rnum x / rden x) (fbu_text fi) = Ok (sign, text, ex) /\
            Ok (sign_text sign ++ text, exi && ex) = Ok (s, true)).
  { destruct st; cbn [bind fst snd] in H;
      match type of H with
      | context [format_trailing_digits ?f ?bb ?n ?d ?md ?tt ?sp ?ng ?ip ?ipt] =>
        destruct (format_trailing_digits f bb n d md tt sp ng ip ipt) as [[[sign text] ex]| |] eqn:Eftd;
          cbn [bind] in H; try discriminate; exists md, sign, text, ex; split; [exact Eftd|exact H]
      end. }
  destruct Hftd as (md & sign & text & ex & Eftd & H').
  injection H' as <- Hex. apply andb_prop in Hex as [-> ->].
  assert (Hm : match (match st with SSf sf => Some sf | _ => None end) with
               | Some sf => mask_ds sf ipd | None => ipd end = ipd).
  { destruct (match st with SSf sf => Some sf | _ => None end); [apply Hexi; reflexivity|reflexivity]. }
  rewrite Hti, Hm in Eftd.
  assert (Hmod : rnum x - rnum x / rden x * rden x = rnum x mod rden x)
    by (rewrite N.mod_eq by assumption; lia).
  rewrite Hmod in Eftd.
  apply ftd_rt in Eftd; try assumption; [|apply N.mod_lt; assumption].
  destruct Eftd as (v & Hr & Hv). exists v. split; [assumption|].
  rewrite Hv. rewrite (N.mul_comm (rnum x / rden x)), <- N.div_mod'. reflexivity.
Qed.

Theorem bigrat_format_marker : forall fuel st base sep x s,
  base_prefix_ok base = true -> wfr x = true ->
  bigrat_format fuel st base sep x = Ok (s, true) ->
  exists v, read_rendering sep base s = Some v /\ (v == qval x)%Q.
Proof.
  intros fuel st base sep x s Hbase Hw H.
  assert (Hd : rden x <> 0) by (unfold wfr in Hw; lia).
  pose proof (base_prefix_ok_range base Hbase) as Hb.
  unfold bigrat_format in H.
  destruct (simplify x) as [y| |] eqn:Es; cbn [bind] in H; try discriminate.
  destruct (simplify_value x y Hd Es) as (Hyd & Hyg & Hyv).
  destruct (rden y =? 1) eqn:E1.
  - apply N.eqb_eq in E1.
    apply (format_as_integer_rt_gen base sep) in H; [|assumption].
    destruct H as (v & Hr & Hv). exists v. split; [assumption|].
    rewrite Hv, <- Hyv, (qval_signed y Hyd), E1. change (qN 1) with 1%Q.
    unfold signedQ. destruct (rneg y && negb (rnum y =? 0)); field.
  - destruct (terminates_spec_lemma (base_val base) y) as (t & Ht & _); try lia.
    { unfold wfr. lia. } { unfold reduced. lia. }
    rewrite Ht in H.
    assert (Hfr : exists fr, (match st with
                  | SFraction | SMixed => Ok true
                  | SExact => do t0 <- Ok t; Ok (negb t0)
                  | _ => Ok false
                  end) = Ok fr) by (destruct st; eexists; reflexivity).
    destruct Hfr as (fr & Hfr). rewrite Hfr in H. cbn [bind] in H.
    destruct fr.
    + apply (format_as_fraction_rt y base sep) in H; try assumption.
      destruct H as (_ & v & Hr & Hv). exists v. split; [assumption|].
      rewrite Hv, <- Hyv, (qval_signed y Hyd). reflexivity.
    + apply (format_as_decimal_rt_gen fuel y st base sep) in H; try assumption.
      destruct H as (v & Hr & Hv). exists v. split; [assumption|].
      rewrite Hv, <- Hyv, (qval_signed y Hyd). reflexivity.
Qed.

(* THE MARKER: whatever Value::format shows WITHOUT `approx.` -- any style,
   any base, either separator, exact or inexact input value -- denotes the
   value exactly *)
Theorem fmt_value_marker : forall fuel vexact st base sep x s,
  base_prefix_ok base = true -> wfr x = true ->
  fmt_value fuel vexact st base sep x = Ok (s, true) ->
  vexact = true /\ exists v, read_rendering sep base s = Some v /\ (v == qval x)%Q.
Proof.
  intros fuel vexact st base sep x s Hbase Hw H. unfold fmt_value in H.
  destruct (bigrat_format fuel (if negb vexact && style_eqb st SAuto then SDp 10 else st) base sep x)
    as [[s' ex]| |] eqn:E; cbn [bind fst snd] in H; try discriminate.
  injection H as <- Hex. apply andb_prop in Hex as [-> ->]. split; [reflexivity|].
  cbn [negb andb] in E. eapply bigrat_format_marker; eassumption.
Qed.

(* ------------------------------------------------------------------ *)
(* n decimal places: the truncation of the true expansion *)

Lemma ftd_dp : forall fuel base num den n t sep neg ip ipd sign text ex,
  base_prefix_ok base = true -> den <> 0 -> num < den -> canon_ds (base_val base) ip ipd ->
  format_trailing_digits fuel base num den (DecimalPlaces n) (Ok t) sep neg ip
    (prefix_text base ++ map dchar ipd) = Ok (sign, text, ex) ->
  exists (v : Q) (j : nat) (V r : N),
    read_rendering sep base (sign_text sign ++ text) = Some v /\
    (v == signedQ neg (qN ip + qN V / qN (base_val base ^ N.of_nat j)))%Q /\
    num * base_val base ^ N.of_nat j = V * den + r /\ r < den /\
    (r = 0 \/ N.of_nat j = n) /\ N.of_nat j <= n /\ ex = (r =? 0).
Proof.
  intros fuel base num den n t sep neg ip ipd sign text ex Hbase Hd Hn Hc H.
  pose proof (base_prefix_ok_range base Hbase) as Hb.
  set (b := base_val base) in *. assert (Hb0 : b <> 0) by lia.
  pose proof (canon_nonempty _ _ _ Hc) as Hine. pose proof Hc as Hcan.
  destruct Hc as (Hiall & Hival & _ & _).
  unfold format_trailing_digits in H. cbn [bind] in H.
  apply (nonrec_spec _ (DecimalPlaces n) base den sep neg ip _ false num Hb Hd Hn O num 0 0 None [] []) in H;
    try reflexivity; try (left; reflexivity); try (intros; reflexivity).
  destruct H as (j' & nz' & tz' & i' & Hds & _ & Hex & Hstop & Hi & _ & Hnil & Hnon & Hbound & _ & _).
  fold b in Hds, Hex, Hstop.
  specialize (Hi eq_refl). specialize (Hbound n eq_refl (N.le_0_l _)).
  pose proof (iter_identity b den j' num Hd) as Hid.
  set (r := iter_rem b den j' num) in *.
  assert (Hr : r < den) by (apply iter_rem_lt; assumption).
  rewrite Hds in Hid. rewrite digits_val_app, digits_val_zeros, repeat_length, N.add_0_r in Hid.
  assert (Hj : j' = (length nz' + tz')%nat).
  { pose proof (iter_digits_length b den j' num) as Hl. rewrite Hds, app_length, repeat_length in Hl. lia. }
  assert (Hnzall : Forall (fun d => d < b) nz').
  { pose proof (iter_digits_lt b den j' num Hb0 Hd Hn) as Hall. rewrite Hds in Hall.
    apply Forall_app in Hall. tauto. }
  assert (Hstop' : r = 0 \/ N.of_nat j' = n).
  { destruct Hstop as [Hs|Hs]; [left; assumption|right]. cbn [md_is_dp] in Hs. lia. }
  assert (Hfrac : (qN (digits_val b nz') / qN (b ^ N.of_nat (length nz')) ==
                   qN (digits_val b nz' * b ^ N.of_nat tz') / qN (b ^ N.of_nat j'))%Q).
  { apply qN_frac_eq; try (apply N.pow_nonzero; assumption).
    rewrite Hj, Nat2N.inj_add, N.pow_add_r. lia. }
  destruct nz' as [|z0 nz''] eqn:Enz.
  - destruct (Hnil eq_refl) as (-> & ->).
    rewrite read_signed by (apply num_text_head; assumption).
    destruct (read_unsigned_int sep base ip ipd Hbase Hcan) as (v & Hrd & Hv). rewrite Hrd.
    eexists. exists j', 0, r. split; [reflexivity|].
    change (digits_val b []) with 0 in Hid. rewrite N.mul_0_l in Hid.
    split; [|split; [lia|split; [assumption|split; [assumption|split; [lia|assumption]]]]].
    assert (Hq : (qN ip + qN 0 / qN (b ^ N.of_nat j') == qN ip)%Q).
    { change (qN 0) with 0%Q. field. apply qN_pos. apply N.pow_nonzero. assumption. }
    unfold signedQ. destruct neg; cbn [andb]; [|rewrite Hq, Hv; reflexivity].
    destruct (ip =? 0) eqn:E0; cbn [negb]; [|rewrite Hq, Hv; reflexivity].
    apply N.eqb_eq in E0. rewrite Hq, Hv, E0. reflexivity.
  - rewrite <- Enz in *.
    assert (Hne : nz' <> []) by (rewrite Enz; discriminate).
    destruct (Hnon Hne) as (-> & ->).
    assert (Htext : (prefix_text base ++ map dchar ipd) ++ [decimal_char sep] ++ map dchar nz'
                    = prefix_text base ++ show_body sep (dec_lit base ipd nz' [])).
    { rewrite show_dec_lit by assumption. rewrite <- app_assoc. f_equal. f_equal. rewrite Enz. reflexivity. }
    rewrite Htext.
    rewrite read_signed.
    2:{ rewrite show_dec_lit by assumption. apply num_text_head2; assumption. }
    destruct (read_unsigned_dec sep base ipd nz' [] Hbase Hine Hiall Hnzall (Forall_nil _)) as (v & Hrd & Hv).
    rewrite Hrd. eexists. exists j', (digits_val b nz' * b ^ N.of_nat tz'), r.
    split; [reflexivity|]. split; [|split; [assumption|split; [assumption|split; [assumption|split; [lia|assumption]]]]].
    assert (Hval : (v == qN ip + qN (digits_val b nz' * b ^ N.of_nat tz') / qN (b ^ N.of_nat j'))%Q).
    { rewrite Hv, dec_lit_value by assumption. fold b. rewrite Hival, <- Hfrac. rewrite Enz. reflexivity. }
    unfold signedQ. destruct neg; rewrite Hval; reflexivity.
Qed.

Lemma div_scale : forall a c e f Bn, c <> 0 -> f <> 0 -> e * c = a * f -> (a * Bn) / c = (e * Bn) / f.
Proof.
  intros a c e f Bn Hc Hf H.
  rewrite <- (N.div_mul_cancel_r (a * Bn) c f) by assumption.
  rewrite <- (N.div_mul_cancel_r (e * Bn) f c) by assumption.
  f_equal; nia.
Qed.

Theorem dp_truncation_lemma : forall fuel n base sep x s ex,
  base_prefix_ok base = true -> wfr x = true ->
  bigrat_format fuel (SDp n) base sep x = Ok (s, ex) ->
  let Bn := base_val base ^ n in
  let T := (rnum x * Bn) / rden x in
  exists v, read_rendering sep base s = Some v /\
            (v == signedQ (rneg x) (qN T / qN Bn))%Q /\
            (ex = true <-> T * rden x = rnum x * Bn).
Proof.
  intros fuel n base sep x s ex Hbase Hw H Bn T.
  assert (Hd : rden x <> 0) by (unfold wfr in Hw; lia).
  pose proof (base_prefix_ok_range base Hbase) as Hb.
  set (b := base_val base) in *. assert (Hb0 : b <> 0) by lia.
  assert (HBn : Bn <> 0) by (apply N.pow_nonzero; assumption).
  unfold bigrat_format in H.
  destruct (simplify x) as [y| |] eqn:Es; cbn [bind] in H; try discriminate.
  destruct (simplify_spec x Hd) as (y' & Hs' & Hneg & Hyd & Hg & Hcross & _).
  rewrite Es in Hs'. injection Hs' as <-.
  assert (Hyg : N.gcd (rnum y) (rden y) = 1).
  { destruct (rden x =? 1); [|assumption]. rewrite Hg. apply N.gcd_1_r. }
  (* the same truncation computed from the reduced fraction *)
  assert (HT : T = (rnum y * Bn) / rden y) by (apply div_scale; assumption).
  assert (Hexy : T * rden x = rnum x * Bn <-> T * rden y = rnum y * Bn).
  { split; intros E; nia. }
  assert (Hzero : rnum y = 0 -> T = 0).
  { intros E. rewrite HT, E. rewrite N.mul_0_l. apply N.div_0_l. assumption. }
  (* sign: a negative zero is shown without sign, and -0 == 0 *)
  assert (Hsign : forall q, (signedQ (rneg y && negb (rnum y =? 0)) (qN T / q) == signedQ (rneg x) (qN T / q))%Q).
  { intros q. rewrite Hneg. unfold signedQ. destruct (rneg x); cbn [andb]; [|reflexivity].
    destruct (rnum y =? 0) eqn:E; cbn [negb]; [|reflexivity].
    apply N.eqb_eq in E. rewrite (Hzero E). change (qN 0) with 0%Q. unfold Qdiv. ring. }
  destruct (rden y =? 1) eqn:E1.
  - apply N.eqb_eq in E1.
    apply (format_as_integer_rt base sep) in H; [|assumption].
    destruct H as (-> & v & Hr & Hv). exists v. split; [assumption|].
    assert (HTy : T = rnum y * Bn) by (rewrite HT, E1; apply N.div_1_r).
    split.
    + rewrite Hv, <- Hsign. rewrite HTy, qN_mul.
      unfold signedQ. destruct (rneg y && negb (rnum y =? 0)); field; apply qN_pos; assumption.
    + rewrite Hexy, E1, HTy. split; intros; [lia|reflexivity].
  - destruct (terminates_spec_lemma b y) as (t & Ht & _); try lia.
    { unfold wfr. lia. } { unfold reduced. lia. }
    fold b in H. rewrite Ht in H. cbn [bind] in H.
    unfold format_as_decimal in H. replace (rden y =? 0) with false in H by lia.
    destruct (format_biguint_nosf base true (rnum y / rden y) Hb) as (fi & ipd & Hfi & Hti & Hci & _).
    rewrite Hfi in H. cbn [bind fst snd] in H. rewrite Hti in H.
    destruct (format_trailing_digits fuel base (rnum y - rnum y / rden y * rden y) (rden y) (DecimalPlaces n) (Ok t)
                sep (rneg y && negb (rnum y =? 0)) (rnum y / rden y) (prefix_text base ++ map dchar ipd))
      as [[[sign text] ex']| |] eqn:Eftd; cbn [bind] in H; try discriminate.
    injection H as <- <-. cbn [andb].
    assert (Hmod : rnum y - rnum y / rden y * rden y = rnum y mod rden y)
      by (rewrite N.mod_eq by assumption; lia).
    rewrite Hmod in Eftd.
    apply ftd_dp in Eftd; try assumption; [|apply N.mod_lt; assumption].
    destruct Eftd as (v & j & V & r & Hrd & Hv & Hid & Hr & Hstop & Hjn & ->). fold b in Hv, Hid.
    exists v. split; [assumption|].
    set (ip := rnum y / rden y) in *. set (rm := rnum y mod rden y) in *.
    assert (Hnum : rnum y = rden y * ip + rm) by (apply N.div_mod'; assumption).
    (* Bn = b^j * b^(n-j) *)
    assert (HBj : Bn = b ^ N.of_nat j * b ^ (n - N.of_nat j)).
    { unfold Bn. rewrite <- N.pow_add_r. f_equal. lia. }
    set (Bj := b ^ N.of_nat j) in *. set (Bk := b ^ (n - N.of_nat j)) in *.
    assert (HBj0 : Bj <> 0) by (apply N.pow_nonzero; assumption).
    assert (HBk0 : Bk <> 0) by (apply N.pow_nonzero; assumption).
    assert (Hk1 : r <> 0 -> Bk = 1).
    { intros Hr0. destruct Hstop as [?|Hs]; [contradiction|]. unfold Bk. rewrite Hs, N.sub_diag. apply N.pow_0_r. }
    (* T = (ip * Bj + V) * Bk *)
    assert (HTv : T = (ip * Bj + V) * Bk).
    { rewrite HT. symmetry. apply N.div_unique with (r := r * Bk).
      - destruct (N.eq_dec r 0) as [->|Hr0]; [lia|]. rewrite (Hk1 Hr0). lia.
      - rewrite HBj, Hnum. nia. }
    split.
    + rewrite Hv, <- Hsign. rewrite HTv, HBj, !qN_mul, qN_add, qN_mul.
      unfold signedQ. destruct (rneg y && negb (rnum y =? 0)); field; split; apply qN_pos; assumption.
    + rewrite Hexy, HTv. split.
      * intros E. apply N.eqb_eq in E. subst r. rewrite HBj, Hnum. nia.
      * intros E. apply N.eqb_eq. destruct (N.eq_dec r 0) as [|Hr0]; [assumption|].
        exfalso. rewrite HBj, Hnum, (Hk1 Hr0) in E. nia.
Qed.

(* ------------------------------------------------------------------ *)
(* totality of the n-decimal-places rendering: no panic, no fuel exhaustion *)

Lemma nonrec_dp_total : forall fuel n base den sep neg ip ip_text cur i tz asign td,
  2 <= base_val base <= 36 -> den <> 0 -> cur < den -> i <= n ->
  (N.to_nat (n - i) < fuel)%nat ->
  exists r, nonrec_loop fuel (DecimalPlaces n) base den sep neg ip ip_text false cur i tz asign td = Ok r.
Proof.
  induction fuel as [|fuel IH]; intros n base den sep neg ip ip_text cur i tz asign td Hb Hd Hc Hi Hf; [lia|].
  cbn [nonrec_loop]. unfold next_digit.
  destruct (cur =? 0) eqn:Ec.
  - destruct asign; [|unfold print_integer_part]; eexists; reflexivity.
  - cbn [md_is_dp]. destruct (n =? i) eqn:En.
    + destruct asign; [|unfold print_integer_part]; eexists; reflexivity.
    + replace (den =? 0) with false by lia.
      assert (Hmod : cur * base_val base - cur * base_val base / den * den = (cur * base_val base) mod den)
        by (rewrite N.mod_eq by assumption; lia).
      rewrite Hmod.
      assert (Hlt : (cur * base_val base) mod den < den) by (apply N.mod_lt; assumption).
      destruct (cur * base_val base / den =? 0) eqn:Ez.
      * rewrite andb_false_r. apply IH; try assumption; lia.
      * rewrite digit_text_single by (try assumption; apply digit_lt; lia).
        cbn [bind].
        destruct (match asign with
                  | Some s => (s, td)
                  | None => let '(s, t) := print_integer_part neg ip ip_text false in (s, td ++ t ++ [decimal_char sep])
                  end) as [a1 t1].
        apply IH; try assumption; lia.
Qed.

Theorem dp_total_lemma : forall fuel n base sep x,
  base_prefix_ok base = true -> wfr x = true ->
  exists s ex, bigrat_format fuel (SDp n) base sep x = Ok (s, ex).
Proof.
  intros fuel n base sep x Hbase Hw.
  assert (Hd : rden x <> 0) by (unfold wfr in Hw; lia).
  pose proof (base_prefix_ok_range base Hbase) as Hb.
  unfold bigrat_format.
  destruct (simplify_spec x Hd) as (y & Hs & _ & Hyd & Hg & _ & _). rewrite Hs. cbn [bind].
  assert (Hyg : N.gcd (rnum y) (rden y) = 1).
  { destruct (rden x =? 1); [|assumption]. rewrite Hg. apply N.gcd_1_r. }
  destruct (rden y =? 1) eqn:E1.
  - unfold format_as_integer.
    destruct (format_biguint_nosf base true (rnum y) Hb) as (f & ds & Hf & _). rewrite Hf. cbn [bind]. eauto.
  - destruct (terminates_spec_lemma (base_val base) y) as (t & Ht & _); try lia.
    { unfold wfr. lia. } { unfold reduced. lia. }
    rewrite Ht. cbn [bind].
    unfold format_as_decimal. replace (rden y =? 0) with false by lia.
    destruct (format_biguint_nosf base true (rnum y / rden y) Hb) as (fi & ipd & Hfi & _). rewrite Hfi. cbn [bind fst snd].
    unfold format_trailing_digits. cbn [bind].
    assert (Hmod : rnum y - rnum y / rden y * rden y = rnum y mod rden y)
      by (rewrite N.mod_eq by assumption; lia).
    rewrite Hmod.
    destruct (nonrec_dp_total (N.to_nat n + 2 * N.to_nat (N.size (rden y)) + 4) n base (rden y) sep
                (rneg y && negb (rnum y =? 0)) (rnum y / rden y) (fbu_text fi)
                (rnum y mod rden y) 0 0 None []) as ([[sg tx] ex] & Hr); try assumption; try lia.
    { apply N.mod_lt. assumption. }
    rewrite Hr. cbn [bind]. eauto.
Qed.
