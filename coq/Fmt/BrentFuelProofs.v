(* Fuel sufficiency for Brent's cycle detection as modelled in Fmt/Format.v:
   on a remainder sequence that never reaches zero, 3*den + 3 units of fuel
   are enough for brents_algorithm to return (pigeonhole: the sequence
   repeats within den steps; the main phase needs fewer than 3*den hare
   steps, the last phase at most den). *)
From FendV Require Import Base.Prelude Fmt.Rat Fmt.Format Fmt.Lex Fmt.IntFmtProofs Fmt.ExpansionProofs
  Fmt.BrentMinProofs.
From Coq Require Import Lia ZifyBool.
Open Scope N_scope.

Arguments N.add : simpl never.
Arguments N.sub : simpl never.
Arguments N.mul : simpl never.
Arguments N.div : simpl never.
Arguments N.modulo : simpl never.
Arguments N.eqb : simpl never.
Arguments N.ltb : simpl never.
Arguments N.leb : simpl never.
Arguments N.pow : simpl never.

(* ------------------------------------------------------------------ *)
(* constructive pigeonhole on nat -> N *)

Lemma hit_dec : forall (f : nat -> N) n v,
  (exists i, (i < n)%nat /\ f i = v) \/ (forall i, (i < n)%nat -> f i <> v).
Proof.
  intros f n v. induction n as [|n IH].
  - right. intros i Hi. lia.
  - destruct IH as [(i & Hi & E)|IH]; [left; exists i; split; [lia|assumption]|].
    destruct (N.eq_dec (f n) v) as [E|E]; [left; exists n; split; [lia|assumption]|].
    right. intros i Hi. destruct (Nat.eq_dec i n) as [->|]; [assumption|apply IH; lia].
Qed.

Lemma dup_dec : forall (f : nat -> N) n,
  (exists i j, (i < j < n)%nat /\ f i = f j) \/ (forall i j, (i < j < n)%nat -> f i <> f j).
Proof.
  intros f n. induction n as [|n IH].
  - right. intros i j H. lia.
  - destruct IH as [(i & j & H & E)|IH]; [left; exists i, j; split; [lia|assumption]|].
    destruct (hit_dec f n (f n)) as [(i & Hi & E)|Hn]; [left; exists i, n; split; [lia|assumption]|].
    right. intros i j H. destruct (Nat.eq_dec j n) as [->|]; [apply Hn; lia|apply IH; lia].
Qed.

Lemma nodup_map_seq : forall (f : nat -> N) n a,
  (forall i j, (a <= i < j)%nat -> (j < a + n)%nat -> f i <> f j) -> NoDup (map f (seq a n)).
Proof.
  intros f n. induction n as [|n IH]; intros a H; cbn [seq map]; constructor.
  - intros Hin. apply in_map_iff in Hin. destruct Hin as (k & E & Hk). apply in_seq in Hk.
    apply (H a k); [lia|lia|]. symmetry. assumption.
  - apply IH. intros i j Hij Hj. apply H; lia.
Qed.

Lemma pigeonhole : forall (f : nat -> N) n, (forall i, (i <= n)%nat -> f i < N.of_nat n) ->
  exists i j, (i < j <= n)%nat /\ f i = f j.
Proof.
  intros f n Hr. destruct (dup_dec f (S n)) as [(i & j & H & E)|Hinj]; [exists i, j; split; [lia|assumption]|].
  exfalso.
  assert (Hnd : NoDup (map f (seq 0 (S n)))) by (apply nodup_map_seq; intros i j H1 H2; apply Hinj; lia).
  assert (Hincl : incl (map f (seq 0 (S n))) (map N.of_nat (seq 0 n))).
  { intros v Hv. apply in_map_iff in Hv. destruct Hv as (k & <- & Hk). apply in_seq in Hk.
    apply in_map_iff. exists (N.to_nat (f k)). split; [lia|]. apply in_seq.
    pose proof (Hr k ltac:(lia)). lia. }
  pose proof (NoDup_incl_length Hnd Hincl) as L. rewrite !map_length, !seq_length in L. lia.
Qed.

(* ------------------------------------------------------------------ *)

Section Fuel.
  Variable base : basek.
  Variable den x0 : N.
  Hypothesis Hbase : 2 <= base_val base <= 36.
  Hypothesis Hx : x0 < den.
  Let b := base_val base.
  Let S_ := sq b den x0.
  (* the expansion does not terminate *)
  Hypothesis Hnz : forall i, sq b den x0 i <> 0.

  Lemma den_nz : den <> 0.
  Proof. lia. Qed.

  Lemma sq_lt : forall i, sq b den x0 i < den.
  Proof. intros. unfold sq. apply iter_rem_lt; [apply den_nz|assumption]. Qed.

  Lemma nd_all_sq : forall i, nd_all b den (sq b den x0 i) = Ok (sq b den x0 (S i), (sq b den x0 i * b) / den).
  Proof.
    intros i. unfold nd_all, next_digit. cbn [md_is_dp].
    replace (sq b den x0 i =? 0) with false by (pose proof (Hnz i); lia).
    replace (den =? 0) with false by (pose proof den_nz; lia).
    rewrite sq_succ. f_equal. f_equal. rewrite N.mod_eq by apply den_nz. lia.
  Qed.

  (* the sequence repeats within den steps *)
  Lemma repeats : exists m l : nat, (1 <= l)%nat /\ (m + l <= N.to_nat den)%nat /\ rep b den x0 m l.
  Proof.
    destruct (pigeonhole (sq b den x0) (N.to_nat den)) as (i & j & H & E).
    { intros i _. rewrite N2Nat.id. apply sq_lt. }
    exists i, (j - i)%nat. split; [lia|]. split; [lia|]. unfold rep.
    replace (i + (j - i))%nat with j by lia. symmetry. assumption.
  Qed.

  (* ---------------- main phase ---------------- *)
  Variables (m l : nat).
  Hypothesis Hl : (1 <= l)%nat.
  Hypothesis Hrep : rep b den x0 m l.

  (* hare steps still needed: d = number of doublings before the epoch in which
     the tortoise is on the cycle and the window is at least l *)
  Fixpoint need (d : nat) (P lam : nat) : nat :=
    match d with
    | O => (l - lam + 1)%nat
    | S d' => (P - lam + 1 + need d' (2 * P) 1)%nat
    end.

  Lemma need_closed : forall d P, (1 <= P)%nat -> need d P 1 = ((2 ^ d - 1) * P + l)%nat.
  Proof.
    induction d as [|d IH]; intros P HP; cbn [need].
    - cbn. lia.
    - rewrite IH by lia. cbn [Nat.pow].
      assert (Hq : (1 <= 2 ^ d)%nat) by (clear; induction d; cbn [Nat.pow]; lia).
      remember (2 ^ d)%nat as q. destruct q as [|q']; [lia|]. nia.
  Qed.

  Lemma phase1_total : forall fuel d power lam t,
    (1 <= N.to_nat lam <= N.to_nat power)%nat -> t = (N.to_nat power - 1)%nat ->
    (d = O -> (m <= t /\ l <= N.to_nat power /\ N.to_nat lam <= l)%nat) ->
    (forall d', d = S d' -> (m + 1 <= N.to_nat power * 2 ^ d /\ l <= N.to_nat power * 2 ^ d)%nat) ->
    (need d (N.to_nat power) (N.to_nat lam) <= fuel)%nat ->
    exists r, brent_phase1 fuel b den power lam (sq b den x0 t) (sq b den x0 (t + N.to_nat lam)) = Ok r.
  Proof.
    induction fuel as [|fuel IH]; intros d power lam t Hlam Ht Hd0 HdS Hf.
    - exfalso. destruct d; cbn [need] in Hf; lia.
    - cbn [brent_phase1].
      destruct (sq b den x0 t =? sq b den x0 (t + N.to_nat lam)) eqn:E; [eexists; reflexivity|].
      apply N.eqb_neq in E.
      rewrite nd_all_sq. cbn [bind fst].
      destruct d as [|d'].
      + (* the good epoch: the repetition is seen at lam = l at the latest *)
        destruct (Hd0 eq_refl) as (Hm & Hlp & Hll).
        assert (Hne : N.to_nat lam <> l).
        { intros El. apply E. rewrite El.
          pose proof (rep_shift b den x0 m l (t - m) Hrep) as R. unfold rep in R.
          replace (m + (t - m))%nat with t in R by lia. symmetry. exact R. }
        replace (power =? lam) with false by lia.
        replace (S (t + N.to_nat lam)) with (t + N.to_nat (lam + 1))%nat by lia.
        apply (IH O); try lia; try (intros; discriminate); cbn [need] in *; lia.
      + destruct (power =? lam) eqn:Ep.
        * (* teleport: next epoch *)
          apply N.eqb_eq in Ep. subst lam.
          replace (S (t + N.to_nat power)) with ((t + N.to_nat power) + N.to_nat (0 + 1))%nat by lia.
          destruct (HdS d' eq_refl) as (H1 & H2). cbn [Nat.pow] in H1, H2.
          replace (N.to_nat (power * 2)) with (2 * N.to_nat power)%nat in * by lia.
          apply (IH d'); try lia.
          all: try (intros ->; cbn [Nat.pow] in *; lia).
          all: try (intros d'' ->; cbn [Nat.pow] in *; lia).
          all: cbn [need] in Hf; replace (N.to_nat (power * 2)) with (2 * N.to_nat power)%nat by lia;
               replace (N.to_nat (0 + 1)) with 1%nat by lia; lia.
        * replace (S (t + N.to_nat lam)) with (t + N.to_nat (lam + 1))%nat by lia.
          apply (IH (S d')); try lia; try (intros; discriminate); try assumption; cbn [need] in *; lia.
  Qed.

  Lemma pow2_cover : forall K : nat, (1 <= K)%nat -> exists d, (K <= 2 ^ d /\ 2 ^ d < 2 * K)%nat.
  Proof.
    intros K HK. destruct (Nat.eq_dec K 1) as [->|Hne]; [exists O; cbn; lia|].
    exists (Nat.log2_up K). pose proof (Nat.log2_up_spec K ltac:(lia)) as [H1 H2].
    split; [assumption|].
    assert (Hp : Nat.log2_up K = S (pred (Nat.log2_up K))).
    { assert (0 < Nat.log2_up K)%nat by (apply Nat.log2_up_pos; lia). lia. }
    rewrite Hp. cbn [Nat.pow]. lia.
  Qed.
End Fuel.

(* ------------------------------------------------------------------ *)
(* the other two phases and the whole algorithm *)

Section Total.
  Variable base : basek.
  Variable den x0 : N.
  Hypothesis Hbase : 2 <= base_val base <= 36.
  Hypothesis Hx : x0 < den.
  Let b := base_val base.
  Hypothesis Hnz : forall i, sq b den x0 i <> 0.

  Lemma digit_text_sq : forall i, digit_text base (sq b den x0 i * b / den) = Ok [dchar (sq b den x0 i * b / den)].
  Proof.
    intros i. apply digit_text_single; [assumption|].
    apply digit_lt; [lia|unfold b in *; lia|apply (sq_lt base den x0 Hbase Hx)].
  Qed.

  Lemma phase2_total : forall k i out, exists out',
    brent_phase2 k base den (sq b den x0 i) out = Ok (sq b den x0 (i + k), out').
  Proof.
    induction k as [|k IH]; intros i out; cbn [brent_phase2].
    - exists out. rewrite Nat.add_0_r. reflexivity.
    - fold b. rewrite (nd_all_sq base den x0 Hbase Hx Hnz). cbn [bind fst snd]. rewrite digit_text_sq. cbn [bind].
      destruct (IH (S i) (out ++ [dchar (sq b den x0 i * b / den)])) as (o & Ho). exists o.
      replace (i + S k)%nat with (S i + k)%nat by lia. exact Ho.
  Qed.

  Lemma phase3_total : forall fuel m lam j mu out, rep b den x0 m lam -> (j <= m)%nat -> (m - j < fuel)%nat ->
    exists r, brent_phase3 fuel base den (sq b den x0 j) (sq b den x0 (j + lam)) mu out = Ok r.
  Proof.
    induction fuel as [|fuel IH]; intros m lam j mu out Hrep Hj Hf; [lia|].
    cbn [brent_phase3].
    destruct (sq b den x0 j =? sq b den x0 (j + lam)) eqn:E; [eexists; reflexivity|].
    apply N.eqb_neq in E.
    assert (Hlt : (j < m)%nat).
    { destruct (Nat.eq_dec j m) as [->|]; [|lia]. exfalso. apply E. symmetry. exact Hrep. }
    fold b. rewrite !(nd_all_sq base den x0 Hbase Hx Hnz). cbn [bind fst snd]. rewrite digit_text_sq. cbn [bind].
    replace (S (j + lam)) with (S j + lam)%nat by lia.
    apply (IH m); [assumption|lia|lia].
  Qed.

  (* FUEL SUFFICIENCY *)
  Theorem brents_total_lemma : forall fuel, (3 * N.to_nat den + 3 <= fuel)%nat ->
    exists lam mu out, brents_algorithm fuel base den x0 = Ok (lam, mu, out).
  Proof.
    intros fuel Hfuel.
    destruct (repeats base den x0 Hbase Hx) as (m & l & Hl & Hml & Hrep).
    unfold brents_algorithm.
    pose proof (nd_all_sq base den x0 Hbase Hx Hnz O) as H0. unfold sq at 1 in H0. cbn [iter_rem] in H0.
    rewrite H0. cbn [bind fst].
    (* main phase *)
    destruct (pow2_cover base den x0 Hbase Hx l Hl (Nat.max (m + 1) l) ltac:(lia)) as (d & Hd1 & Hd2).
    destruct (phase1_total base den x0 Hbase Hx Hnz m l Hl Hrep fuel d 1 1 O) as (lam1 & E1).
    { lia. } { reflexivity. }
    { intros ->. cbn in Hd1. lia. }
    { intros d' ->. change (N.to_nat 1) with 1%nat. lia. }
    { change (N.to_nat 1) with 1%nat. rewrite (need_closed base den x0 Hbase Hx l Hl d 1) by lia. lia. }
    assert (Hs0 : sq (base_val base) den x0 0 = x0) by reflexivity.
    rewrite Hs0 in E1. change (0 + N.to_nat 1)%nat with 1%nat in E1.
    rewrite E1. cbn [bind].
    (* lam1 is a period somewhere on the cycle, hence at m as well *)
    assert (E1' := E1).
    apply (phase1_least (base_val base) den x0 fuel 1 1 x0 (sq (base_val base) den x0 1) lam1 O) in E1';
      [|reflexivity|reflexivity|lia|intros; lia].
    destruct E1' as (t' & Hl1 & Hrep1 & _).
    assert (Hrm : rep (base_val base) den x0 m (N.to_nat lam1))
      by (apply (periods_agree (base_val base) den x0 m t' l (N.to_nat lam1)); assumption).
    (* phase 2 *)
    destruct (phase2_total (N.to_nat lam1) O []) as (out2 & E2). unfold b in E2.
    rewrite Hs0 in E2. rewrite E2. cbn [bind fst snd].
    (* phase 3 *)
    destruct (phase3_total fuel m (N.to_nat lam1) O 0 out2 Hrm) as ([mu3 out3] & E3); try lia.
    unfold b in E3. rewrite Hs0 in E3. cbn [Nat.add] in *. rewrite E3. cbn [bind fst snd].
    eexists. eexists. eexists. reflexivity.
  Qed.
End Total.

(* the hypothesis of the theorem is what a non-terminating expansion of a
   reduced fraction gives *)
Lemma nonterminating_nonzero : forall b num den, 2 <= b -> den <> 0 -> N.gcd num den = 1 ->
  (forall k, ~ (den | b ^ k)) -> forall i, sq b den (num mod den) i <> 0.
Proof.
  intros b num den Hb Hd Hg Hnt i E. unfold sq in E.
  pose proof (iter_identity b den i (num mod den) Hd) as Hid. rewrite E, N.add_0_r in Hid.
  apply (Hnt (N.of_nat i)).
  assert (Hgm : N.gcd den (num mod den) = 1).
  { rewrite N.gcd_comm. rewrite N.gcd_mod by assumption. rewrite N.gcd_comm. assumption. }
  apply N.gauss with (m := num mod den); [|assumption].
  exists (digits_val b (iter_digits b den i (num mod den))). lia.
Qed.

(* the recurring branch of format_trailing_digits is total with that fuel *)
Theorem ftd_recurring_total : forall fuel base num den sep neg ip ip_text,
  2 <= base_val base <= 36 -> num < den ->
  (forall i, iter_rem (base_val base) den i num <> 0) ->
  (3 * N.to_nat den + 3 <= fuel)%nat ->
  exists r, format_trailing_digits fuel base num den AllDigits (Ok false) sep neg ip ip_text = Ok r.
Proof.
  intros fuel base num den sep neg ip ip_text Hb Hn Hnz Hf.
  destruct (brents_total_lemma base den num Hb Hn Hnz fuel Hf) as (lam & mu & out & E).
  unfold format_trailing_digits. cbn [bind]. rewrite E. cbn [bind].
  destruct (brents_spec base den Hb fuel num lam mu out Hn E) as (l & m & -> & -> & _ & -> & _).
  rewrite map_length, iter_digits_length.
  replace (N.to_nat (N.of_nat m + N.of_nat l)) with (m + l)%nat by lia.
  rewrite Nat.ltb_irrefl. unfold print_integer_part. eexists. reflexivity.
Qed.

Lemma brent_fuel_lemma : forall base den x0 fuel,
  2 <= base_val base <= 36 -> x0 < den ->
  (forall i, iter_rem (base_val base) den i x0 <> 0) ->
  (3 * N.to_nat den + 3 <= fuel)%nat ->
  exists lam mu out, brents_algorithm fuel base den x0 = Ok (lam, mu, out).
Proof. intros base den x0 fuel Hb Hx Hnz. exact (brents_total_lemma base den x0 Hb Hx Hnz fuel). Qed.
