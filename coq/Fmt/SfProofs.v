(* n significant figures of a non-integer rational: the text is the value
   truncated at the n-th significant digit (position theorem), flagged exact
   iff nothing was dropped. *)
From FendV Require Import Base.Prelude Fmt.Rat Fmt.Format Fmt.Lex Fmt.IntFmtProofs Fmt.LexProofs
  Fmt.ExpansionProofs Fmt.RoundTripProofs Fmt.TruncProofs.
From Coq Require Import Lia ZifyBool QArith.
Open Scope N_scope.

Arguments N.add : simpl never.
Arguments N.sub : simpl never.
Arguments N.mul : simpl never.
Arguments N.div : simpl never.
Arguments N.modulo : simpl never.
Arguments N.eqb : simpl never.
Arguments N.ltb : simpl never.
Arguments N.leb : simpl never.
Arguments N.pow : simpl never.
Arguments N.gcd : simpl never.

(* ------------------------------------------------------------------ *)
(* arithmetic of a truncation at n places *)

Lemma trunc_arith : forall num den ip rm b (j n : N) V r,
  den <> 0 -> b <> 0 -> num = den * ip + rm ->
  rm * b ^ j = V * den + r -> r < den -> (r = 0 \/ j = n) -> j <= n ->
  let Bn := b ^ n in
  let T := num * Bn / den in
  (qN ip + qN V / qN (b ^ j) == qN T / qN Bn)%Q /\ ((r =? 0) = true <-> T * den = num * Bn).
Proof.
  intros num den ip rm b j n V r Hd Hb Hnum Hid Hr Hstop Hjn Bn T.
  assert (HBj : Bn = b ^ j * b ^ (n - j)) by (unfold Bn; rewrite <- N.pow_add_r; f_equal; lia).
  set (Bj := b ^ j) in *. set (Bk := b ^ (n - j)) in *.
  assert (HBj0 : Bj <> 0) by (apply N.pow_nonzero; assumption).
  assert (HBk0 : Bk <> 0) by (apply N.pow_nonzero; assumption).
  assert (HBn0 : Bn <> 0) by (apply N.pow_nonzero; assumption).
  assert (Hk1 : r <> 0 -> Bk = 1).
  { intros Hr0. destruct Hstop as [?|Hs]; [contradiction|]. unfold Bk. rewrite Hs, N.sub_diag. apply N.pow_0_r. }
  assert (HTv : T = (ip * Bj + V) * Bk).
  { unfold T. symmetry. apply N.div_unique with (r := r * Bk).
    - destruct (N.eq_dec r 0) as [->|Hr0]; [lia|]. rewrite (Hk1 Hr0). lia.
    - rewrite HBj, Hnum. nia. }
  split.
  - rewrite HTv, HBj, !qN_mul, qN_add, qN_mul. field. split; apply qN_pos; assumption.
  - rewrite HTv. split.
    + intros E. apply N.eqb_eq in E. subst r. rewrite HBj, Hnum. nia.
    + intros E. apply N.eqb_eq. destruct (N.eq_dec r 0) as [|Hr0]; [assumption|].
      exfalso. rewrite HBj, Hnum, (Hk1 Hr0) in E. nia.
Qed.

(* ------------------------------------------------------------------ *)
(* leading zeros of a digit string *)

Lemma sig_len_decomp : forall ds, (1 <= sig_len ds)%nat ->
  exists (z : nat) d rest, ds = repeat 0 z ++ d :: rest /\ d <> 0 /\
    sig_len ds = S (length rest) /\ length ds = (z + sig_len ds)%nat.
Proof.
  unfold sig_len. induction ds as [|x r IH]; intros H; [cbn in H; lia|].
  cbn [drop_zeros] in *. destruct (x =? 0) eqn:E.
  - apply N.eqb_eq in E. subst x. destruct (IH H) as (z & d & rest & -> & Hd & Hs & Hl).
    exists (S z), d, rest. cbn [repeat app length]. repeat split; try assumption. lia.
  - exists O, x, r. cbn [repeat app length]. repeat split; try reflexivity. lia.
Qed.

Lemma sig_len_zero : forall ds, sig_len ds = O -> ds = repeat 0 (length ds).
Proof.
  unfold sig_len. induction ds as [|x r IH]; intros H; [reflexivity|].
  cbn [drop_zeros] in H. destruct (x =? 0) eqn:E; [|cbn in H; lia].
  apply N.eqb_eq in E. subst x. cbn [length repeat]. f_equal. apply IH. assumption.
Qed.

Lemma iter_digits_firstn : forall b den j k r, (k <= j)%nat ->
  firstn k (iter_digits b den j r) = iter_digits b den k r.
Proof.
  intros b den j k r H. replace j with (k + (j - k))%nat by lia. rewrite iter_digits_add.
  apply firstn_len_app. apply iter_digits_length.
Qed.

(* z leading zero digits then a non-zero one: b^-(z+1) <= num/den < b^-z *)
Lemma lead_zeros_spec : forall b den j num (z : nat) d rest, den <> 0 -> num < den ->
  iter_digits b den j num = repeat 0 z ++ d :: rest -> d <> 0 ->
  num * b ^ N.of_nat z < den /\ den <= num * b ^ N.of_nat (z + 1).
Proof.
  intros b den j num z d rest Hd Hlt Hds Hdn.
  assert (Hlen : (S z <= j)%nat).
  { pose proof (iter_digits_length b den j num) as L. rewrite Hds, app_length, repeat_length in L. cbn [length] in L. lia. }
  assert (Hz : iter_digits b den z num = repeat 0 z).
  { rewrite <- (iter_digits_firstn b den j z num) by lia. rewrite Hds. apply firstn_len_app. apply repeat_length. }
  assert (Hz1 : iter_digits b den (S z) num = repeat 0 z ++ [d]).
  { rewrite <- (iter_digits_firstn b den j (S z) num) by lia. rewrite Hds.
    replace (repeat 0 z ++ d :: rest) with ((repeat 0 z ++ [d]) ++ rest) by (rewrite <- app_assoc; reflexivity).
    apply firstn_len_app. rewrite app_length, repeat_length. cbn. lia. }
  pose proof (iter_identity b den z num Hd) as I1. rewrite Hz, digits_val_zeros in I1.
  pose proof (iter_rem_lt b den z) as L1.
  rewrite iter_digits_snoc, Hz in Hz1. apply app_inv_head in Hz1. injection Hz1 as Hdig.
  split.
  - specialize (L1 num Hd Hlt). lia.
  - replace (N.of_nat (z + 1)) with (N.of_nat z + 1) by lia. rewrite N.pow_add_r, N.pow_1_r.
    assert (Hq : 1 <= iter_rem b den z num * b / den) by lia.
    assert (den <= iter_rem b den z num * b).
    { destruct (N.lt_ge_cases (iter_rem b den z num * b) den) as [Hl|Hg]; [|assumption].
      rewrite (N.div_small _ _ Hl) in Hq. lia. }
    remember (iter_rem b den z num) as rz. remember (b ^ N.of_nat z) as Bz.
    nia.
Qed.

(* ------------------------------------------------------------------ *)
(* the truncating branch of format_trailing_digits, any limit, any
   (possibly masked) integer-part digits *)

Lemma ftd_trunc : forall fuel base num den md t sep neg ip ipd sign text ex,
  base_prefix_ok base = true -> den <> 0 -> num < den -> md <> AllDigits ->
  ipd <> [] -> Forall (fun d => d < base_val base) ipd ->
  (ip = 0 -> digits_val (base_val base) ipd = 0) ->
  format_trailing_digits fuel base num den md (Ok t) sep neg ip
    (prefix_text base ++ map dchar ipd) = Ok (sign, text, ex) ->
  exists (v : Q) (j : nat) (i' : N),
    read_rendering sep base (sign_text sign ++ text) = Some v /\
    (v == signedQ neg (qN (digits_val (base_val base) ipd) +
                       qN (digits_val (base_val base) (iter_digits (base_val base) den j num))
                       / qN (base_val base ^ N.of_nat j)))%Q /\
    ex = (iter_rem (base_val base) den j num =? 0) /\
    (iter_rem (base_val base) den j num = 0 \/ md_is_dp md i' = true) /\
    match md with
    | DecimalPlaces n => i' = N.of_nat j /\ i' <= n
    | DpButIgnoreLeadingZeroes n =>
      i' = N.of_nat (sig_len (iter_digits (base_val base) den j num)) /\ i' <= n
    | AllDigits => True
    end.
Proof.
  intros fuel base num den md t sep neg ip ipd sign text ex Hbase Hd Hn Hmd Hine Hiall Hip0 H.
  pose proof (base_prefix_ok_range base Hbase) as Hb.
  set (b := base_val base) in *. assert (Hb0 : b <> 0) by lia.
  assert (Hnr : exists fuel2 ign, ign = (match md with DpButIgnoreLeadingZeroes _ => true | _ => false end) /\
            nonrec_loop fuel2 md base den sep neg ip (prefix_text base ++ map dchar ipd) ign num 0 0 None [] = Ok (sign, text, ex)).
  { unfold format_trailing_digits in H. destruct md as [|n|n]; [contradiction| |]; cbn [bind] in H;
      eexists; eexists; (split; [reflexivity|exact H]). }
  destruct Hnr as (fuel2 & ign & Hign & Hnr).
  apply (nonrec_spec fuel2 md base den sep neg ip _ ign num Hb Hd Hn O num 0 0 None [] []) in Hnr;
    try reflexivity; try (left; reflexivity); try (intros; reflexivity).
  destruct Hnr as (j' & nz' & tz' & i' & Hds & _ & Hex & Hstop & Hi & _ & Hnil & Hnon & Hbd & Hsig & Hbs).
  fold b in Hds, Hex, Hstop, Hsig.
  assert (Hnzall : Forall (fun d => d < b) nz').
  { pose proof (iter_digits_lt b den j' num Hb0 Hd Hn) as Hall. rewrite Hds in Hall. apply Forall_app in Hall. tauto. }
  assert (Hj : j' = (length nz' + tz')%nat).
  { pose proof (iter_digits_length b den j' num) as Hl. rewrite Hds, app_length, repeat_length in Hl. lia. }
  assert (HV : digits_val b (iter_digits b den j' num) = digits_val b nz' * b ^ N.of_nat tz').
  { rewrite Hds, digits_val_app, digits_val_zeros, repeat_length. lia. }
  assert (Hfrac : (qN (digits_val b nz') / qN (b ^ N.of_nat (length nz')) ==
                   qN (digits_val b (iter_digits b den j' num)) / qN (b ^ N.of_nat j'))%Q).
  { rewrite HV. apply qN_frac_eq; try (apply N.pow_nonzero; assumption).
    rewrite Hj, Nat2N.inj_add, N.pow_add_r. lia. }
  assert (Hidx : match md with
                 | DecimalPlaces n => i' = N.of_nat j' /\ i' <= n
                 | DpButIgnoreLeadingZeroes n => i' = N.of_nat (sig_len (iter_digits b den j' num)) /\ i' <= n
                 | AllDigits => True
                 end).
  { destruct md as [|n|n]; [exact I| |]; subst ign.
    - split; [apply Hi; reflexivity|apply (Hbd n eq_refl); lia].
    - split; [apply Hsig; reflexivity|apply (Hbs n eq_refl); lia]. }
  destruct nz' as [|z0 nz''] eqn:Enz.
  - destruct (Hnil eq_refl) as (-> & ->).
    rewrite read_signed by (apply num_text_head; assumption).
    destruct (read_unsigned_ds sep base ipd Hbase Hine Hiall) as (v & Hrd & Hv). fold b in Hv. rewrite Hrd.
    eexists. exists j', i'. split; [reflexivity|]. split; [|split; [assumption|split; assumption]].
    rewrite HV. change (digits_val b []) with 0. rewrite N.mul_0_l.
    assert (Hq : (qN (digits_val b ipd) + qN 0 / qN (b ^ N.of_nat j') == qN (digits_val b ipd))%Q).
    { change (qN 0) with 0%Q. field. apply qN_pos. apply N.pow_nonzero. assumption. }
    unfold signedQ. destruct neg; cbn [andb]; [|rewrite Hq, Hv; reflexivity].
    destruct (ip =? 0) eqn:E0; cbn [negb]; [|rewrite Hq, Hv; reflexivity].
    apply N.eqb_eq in E0. rewrite Hq, Hv, (Hip0 E0). reflexivity.
  - rewrite <- Enz in *.
    assert (Hne : nz' <> []) by (rewrite Enz; discriminate).
    destruct (Hnon Hne) as (-> & ->).
    assert (Htext : (prefix_text base ++ map dchar ipd) ++ [decimal_char sep] ++ map dchar nz'
                    = prefix_text base ++ show_body sep (dec_lit base ipd nz' [])).
    { rewrite show_dec_lit by assumption. rewrite <- app_assoc. f_equal. f_equal. rewrite Enz. reflexivity. }
    rewrite Htext.
    rewrite read_signed.
    2:{ rewrite show_dec_lit by assumption. apply num_text_head2; assumption. }
    destruct (read_unsigned_dec sep base ipd nz' [] Hbase Hine Hiall Hnzall (Forall_nil _)) as (v & Hrd & Hv).
    rewrite Hrd. eexists. exists j', i'. split; [reflexivity|]. split; [|split; [assumption|split; assumption]].
    assert (Hval : (v == qN (digits_val b ipd) + qN (digits_val b (iter_digits b den j' num)) / qN (b ^ N.of_nat j'))%Q).
    { rewrite Hv, dec_lit_value by assumption. fold b. rewrite <- Hfrac. rewrite Enz. reflexivity. }
    unfold signedQ. destruct neg; rewrite Hval; reflexivity.
Qed.

(* ------------------------------------------------------------------ *)
(* the position theorem *)

Lemma simplify_reduced' : forall x, reduced x = true -> simplify x = Ok x.
Proof.
  intros [s a c] Hr. unfold reduced in Hr. unfold simplify. cbn [rnum rden Rat.rneg] in *.
  destruct (c =? 1); [reflexivity|].
  replace (N.gcd a c) with 1 by lia.
  change (1 =? 0) with false. cbv iota. rewrite !N.div_1_r. reflexivity.
Qed.

Lemma mask_ds_id : forall sf ds, N.of_nat (length ds) <= sf -> mask_ds sf ds = ds.
Proof.
  intros sf ds H. unfold mask_ds. rewrite firstn_all2 by lia.
  replace (length ds - N.to_nat sf)%nat with O by lia. apply app_nil_r.
Qed.

Theorem sf_truncation_lemma : forall fuel sf base sep x s ex,
  base_prefix_ok base = true -> wfr x = true -> reduced x = true -> rden x <> 1 ->
  bigrat_format fuel (SSf sf) base sep x = Ok (s, ex) ->
  let b := base_val base in
  let ip := rnum x / rden x in
  exists v, read_rendering sep base s = Some v /\
    ((ip <> 0 /\ exists ds, canon_ds b ip ds /\
        ((N.of_nat (length ds) <= sf /\
          let Bn := b ^ (sf - N.of_nat (length ds)) in
          let T := rnum x * Bn / rden x in
          (v == signedQ (Rat.rneg x) (qN T / qN Bn))%Q /\ (ex = true <-> T * rden x = rnum x * Bn))
         \/
         (sf < N.of_nat (length ds) /\
          let k := N.of_nat (length ds) - sf in
          (v == signedQ (Rat.rneg x) (qN (ip / b ^ k * b ^ k)))%Q /\ ex = false)))
     \/
     (ip = 0 /\ exists z : nat,
        rnum x * b ^ N.of_nat z < rden x /\ rden x <= rnum x * b ^ N.of_nat (z + 1) /\
        let Bn := b ^ (N.of_nat z + N.max sf 1) in
        let T := rnum x * Bn / rden x in
        (v == signedQ (Rat.rneg x) (qN T / qN Bn))%Q /\ (ex = true <-> T * rden x = rnum x * Bn))).
Proof.
  intros fuel sf base sep x s ex Hbase Hw Hred Hd1 H b ip.
  assert (Hd : rden x <> 0) by (unfold wfr in Hw; lia).
  pose proof (base_prefix_ok_range base Hbase) as Hb. fold b in Hb.
  assert (Hb0 : b <> 0) by lia.
  assert (Hg : N.gcd (rnum x) (rden x) = 1) by (unfold reduced in Hred; lia).
  assert (Hnum0 : rnum x <> 0).
  { intros E. rewrite E, N.gcd_0_l in Hg. contradiction. }
  set (rm := rnum x mod rden x).
  assert (Hrm0 : rm <> 0).
  { intros E. unfold rm in E. apply N.mod_divide in E; [|assumption].
    assert (Hdg : (rden x | N.gcd (rnum x) (rden x))) by (apply N.gcd_greatest; [assumption|apply N.divide_refl]).
    rewrite Hg in Hdg. apply N.divide_1_r in Hdg. contradiction. }
  assert (Hrml : rm < rden x) by (apply N.mod_lt; assumption).
  assert (Hnum : rnum x = rden x * ip + rm) by (apply N.div_mod'; assumption).
  unfold bigrat_format in H. rewrite (simplify_reduced' x Hred) in H. cbn [bind] in H.
  replace (rden x =? 1) with false in H by lia.
  replace (Rat.rneg x && negb (rnum x =? 0)) with (Rat.rneg x) in H by (replace (rnum x =? 0) with false by lia; destruct (Rat.rneg x); reflexivity).
  destruct (terminates_spec_lemma b x) as (t & Ht & _); try assumption; try lia.
  fold b in H. rewrite Ht in H. cbn [bind] in H.
  unfold format_as_decimal in H. replace (rden x =? 0) with false in H by lia.
  destruct (format_biguint_gen base true (Some sf) ip Hb) as (fi & ipd & exi & Hfi & Hci & Hnd & Hti & Hexi).
  fold ip in H. rewrite Hfi in H. cbn [bind fst snd] in H. rewrite Hnd, Hti in H. cbn [app] in H.
  assert (Hmod : rnum x - ip * rden x = rm) by (unfold rm; rewrite N.mod_eq by assumption; unfold ip; lia).
  rewrite Hmod in H.
  pose proof (canon_nonempty _ _ _ Hci) as Hine. destruct Hci as (Hiall & Hival & Hiz & Hinz).
  fold b in Hiall, Hival.
  set (L := N.of_nat (length ipd)) in *.
  set (md := if ip =? 0 then DpButIgnoreLeadingZeroes (sf - L + 1) else DecimalPlaces (sf - L)) in *.
  destruct (format_trailing_digits fuel base rm (rden x) md (Ok t) sep (Rat.rneg x) ip
              (prefix_text base ++ map dchar (mask_ds sf ipd))) as [[[sign text] ex']| |] eqn:Eftd;
    cbn [bind] in H; try discriminate.
  injection H as <- <-.
  assert (Hmne : mask_ds sf ipd <> []).
  { intro E. apply (f_equal (@length N)) in E. rewrite mask_ds_length in E. destruct ipd; [contradiction|discriminate]. }
  assert (Hmall : Forall (fun d => d < b) (mask_ds sf ipd)) by (apply mask_ds_all; [lia|assumption]).
  assert (Hmv : digits_val b (mask_ds sf ipd) =
                ip / b ^ N.of_nat (length ipd - N.to_nat sf) * b ^ N.of_nat (length ipd - N.to_nat sf)).
  { rewrite mask_ds_value by (lia || assumption). rewrite Hival. reflexivity. }
  apply ftd_trunc in Eftd; try assumption.
  2:{ unfold md. destruct (ip =? 0); discriminate. }
  2:{ intros E0. fold b. rewrite Hmv, E0. rewrite N.div_0_l by (apply N.pow_nonzero; assumption). reflexivity. }
  destruct Eftd as (v & j & i' & Hrd & Hv & -> & Hstop & Hidx). fold b in Hv, Hstop, Hidx.
  exists v. split; [assumption|].
  pose proof (iter_identity b (rden x) j rm Hd) as Hid.
  pose proof (iter_rem_lt b (rden x) j rm Hd Hrml) as Hrl.
  set (V := digits_val b (iter_digits b (rden x) j rm)) in *.
  set (r := iter_rem b (rden x) j rm) in *.
  destruct (ip =? 0) eqn:Eip; unfold md in *.
  - (* no integer part: leading zeros are not counted *)
    right. apply N.eqb_eq in Eip. split; [assumption|].
    assert (HL : L = 1) by (unfold L; rewrite (Hiz Eip); reflexivity).
    destruct Hidx as [Hi' Hle]. cbn [md_is_dp] in Hstop.
    assert (Hn' : sf - L + 1 = N.max sf 1) by lia.
    (* some digit is non-zero *)
    assert (Hsl : (1 <= sig_len (iter_digits b (rden x) j rm))%nat).
    { destruct (sig_len (iter_digits b (rden x) j rm)) eqn:Es; [|lia]. exfalso.
      pose proof (sig_len_zero _ Es) as Hz0. unfold V in Hid. rewrite Hz0, digits_val_zeros in Hid.
      destruct Hstop as [Hr0|Hs].
      - fold r in Hr0. rewrite Hr0 in Hid. assert (1 <= b ^ N.of_nat j) by (apply pow_ge_1; assumption). nia.
      - lia. }
    destruct (sig_len_decomp _ Hsl) as (z & d & rest & Hdec & Hdn & Hsig & Hlen).
    rewrite iter_digits_length in Hlen.
    exists z.
    destruct (lead_zeros_spec b (rden x) j rm z d rest Hd Hrml Hdec Hdn) as [Hz1 Hz2].
    assert (Hrmnum : rm = rnum x) by (rewrite Hnum, Eip; lia).
    rewrite <- Hrmnum. split; [assumption|]. split; [assumption|].
    assert (Hmask0 : digits_val b (mask_ds sf ipd) = 0).
    { rewrite Hmv, Eip. rewrite N.div_0_l by (apply N.pow_nonzero; assumption). reflexivity. }
    destruct (trunc_arith rm (rden x) 0 rm b (N.of_nat j) (N.of_nat z + N.max sf 1) V r Hd Hb0) as [Hq Hex];
      try assumption; try lia.
    change (iter_rem (base_val base) (rden x) j rm) with r.
    split.
    + rewrite Hv, Hmask0. change (qN 0) with 0%Q in *. rewrite <- Hq. reflexivity.
    + rewrite andb_comm. destruct exi eqn:Ee.
      * rewrite andb_true_r. exact Hex.
      * exfalso. assert (Hm : mask_ds sf ipd = ipd).
        { rewrite (Hiz Eip). unfold mask_ds. destruct (N.to_nat sf) as [|k]; [reflexivity|]. destruct k; reflexivity. }
        apply Hexi in Hm. discriminate.
  - (* an integer part *)
    left. apply N.eqb_neq in Eip. split; [assumption|].
    exists ipd. split; [unfold canon_ds; auto|].
    destruct Hidx as [Hi' Hle]. cbn [md_is_dp] in Hstop.
    destruct (N.le_gt_cases L sf) as [HLs|HLs].
    + left. split; [assumption|].
      assert (Hm : mask_ds sf ipd = ipd) by (apply mask_ds_id; assumption).
      assert (Hexi1 : exi = true) by (apply Hexi; assumption).
      rewrite Hm, Hival in Hv.
      destruct (trunc_arith (rnum x) (rden x) ip rm b (N.of_nat j) (sf - L) V r Hd Hb0 Hnum) as [Hq Hex];
        try assumption; try lia.
      change (iter_rem (base_val base) (rden x) j rm) with r.
      split.
      * rewrite Hv, Hq. reflexivity.
      * rewrite Hexi1. cbn [andb]. exact Hex.
    + right. split; [assumption|].
      assert (Hj0 : j = O) by lia. subst j. unfold V in Hv. cbn [iter_digits] in Hv.
      change (digits_val b []) with 0 in Hv.
      assert (Hk : N.of_nat (length ipd - N.to_nat sf) = L - sf) by (unfold L; lia).
      rewrite Hmv, Hk in Hv.
      split.
      * rewrite Hv. change (qN 0) with 0%Q. change (N.of_nat 0) with 0. rewrite N.pow_0_r.
        assert (Hz : (qN (ip / b ^ (L - sf) * b ^ (L - sf)) + 0 / qN 1 == qN (ip / b ^ (L - sf) * b ^ (L - sf)))%Q)
          by (change (qN 1) with 1%Q; field).
        rewrite Hz. reflexivity.
      * unfold r. cbn [iter_rem]. replace (rm =? 0) with false by lia. apply andb_false_r.
Qed.
