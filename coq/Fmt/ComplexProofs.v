(* Proofs about Fmt/Complex.v: with an empty term the term-aware formatter IS
   the formatter of Fmt/Format.v (so everything proved there applies to the
   real part); the flag of a complex rendering is the conjunction of the
   value's flag and the flags of the parts shown. *)
From FendV Require Import Base.Prelude Fmt.Rat Fmt.Format Fmt.Complex.
From Coq Require Import Lia ZifyBool.
Open Scope N_scope.

Lemma format_as_integer_t_nil : forall num base neg sfl,
  format_as_integer_t [] num base neg sfl = format_as_integer num base neg sfl.
Proof.
  intros. unfold format_as_integer_t, format_as_integer. cbn [is_nil negb andb].
  destruct (format_biguint base true sfl num) as [[f e]| |]; cbn [bind]; try reflexivity.
  rewrite !app_nil_r. reflexivity.
Qed.

Lemma format_as_fraction_t_nil : forall x base neg mixed,
  format_as_fraction_t [] x base neg mixed = format_as_fraction x base neg mixed.
Proof.
  intros. unfold format_as_fraction_t, format_as_fraction. cbn [is_nil negb andb].
  destruct (format_biguint base true None (rden x)) as [[fd ed]| |]; cbn [bind]; try reflexivity.
  match goal with |- context [do pn <- ?M; _] => destruct M as [[[pref num] pe]| |] end; cbn [bind]; try reflexivity.
  destruct (format_biguint base true None num) as [[fn en]| |]; cbn [bind]; try reflexivity.
  f_equal. f_equal. destruct pref; cbn [app]; rewrite ?app_nil_r; reflexivity.
Qed.

Lemma format_as_decimal_t_nil : forall fuel x st base neg t sep,
  format_as_decimal_t [] fuel x st base neg t sep = format_as_decimal fuel x st base neg t sep.
Proof.
  intros. unfold format_as_decimal_t. cbn [is_nil negb andb].
  destruct (format_as_decimal fuel x st base neg t sep) as [[s e]| |]; cbn [bind]; try reflexivity.
  rewrite !app_nil_r. reflexivity.
Qed.

Theorem bigrat_format_t_nil : forall fuel st base sep x,
  bigrat_format_t [] fuel st base sep x = bigrat_format fuel st base sep x.
Proof.
  intros. unfold bigrat_format_t, bigrat_format.
  destruct (simplify x) as [y| |]; cbn [bind]; try reflexivity.
  rewrite format_as_integer_t_nil.
  destruct (rden y =? 1); [reflexivity|].
  match goal with |- context [do fraction <- ?M; _] => destruct M as [fr| |] end; cbn [bind]; try reflexivity.
  destruct fr; [apply format_as_fraction_t_nil|apply format_as_decimal_t_nil].
Qed.

(* the real part of a complex rendering is formatted by the verified formatter *)
Corollary real_format_real : forall fuel st base sep ov x,
  real_format fuel st base sep false ov x =
  (do r <- bigrat_format fuel st base sep x; Ok (fst r, snd r && negb ov)).
Proof. intros. unfold real_format. rewrite bigrat_format_t_nil. reflexivity. Qed.

(* THE FLAG of a complex rendering: exact only if the value is flagged exact
   and every part that is shown is itself rendered exactly (no digit dropped,
   not an approximation of a multiple of pi) *)
Theorem complex_flag_lemma : forall fuel vexact st base sep re re_ov im im_ov s,
  complex_format fuel vexact st base sep re re_ov im im_ov = Ok (s, true) ->
  vexact = true /\
  (rat_is_zero re = false \/ rat_is_zero im = true ->
     re_ov = false /\ exists st' t, bigrat_format fuel st' base sep re = Ok (t, true)) /\
  (rat_is_zero im = false ->
     im_ov = false /\ exists st' t x', (x' = im \/ x' = rat_neg im) /\
                       bigrat_format_t [105] fuel st' base sep x' = Ok (t, true)).
Proof.
  intros fuel vexact st base sep re re_ov im im_ov s H. unfold complex_format in H.
  set (st0 := if negb vexact && style_eqb st SAuto then SDp 10 else st) in *.
  set (st1 := if negb (rat_is_zero im) && style_eqb st0 SAuto then SExact else st0) in *.
  destruct (rat_is_zero im) eqn:Zi.
  - rewrite real_format_real in H.
    destruct (bigrat_format fuel st1 base sep re) as [[t e]| |] eqn:E; cbn [bind fst snd] in H; try discriminate.
    injection H as _ Hf. destruct vexact, e, re_ov; cbn in Hf; try discriminate.
    split; [reflexivity|]. split; [|discriminate]. intros _. split; [reflexivity|]. exists st1, t. assumption.
  - destruct (rat_is_zero re) eqn:Zr.
    + unfold real_format in H.
      destruct (bigrat_format_t [105] fuel st1 base sep im) as [[t e]| |] eqn:E; cbn [bind fst snd] in H; try discriminate.
      injection H as _ Hf. destruct vexact, e, im_ov; cbn in Hf; try discriminate.
      split; [reflexivity|]. split; [intros [?|?]; discriminate|]. intros _. split; [reflexivity|].
      exists st1, t, im. split; [left; reflexivity|assumption].
    + rewrite real_format_real in H.
      destruct (bigrat_format fuel st1 base sep re) as [[tr er]| |] eqn:Er; cbn [bind fst snd] in H; try discriminate.
      unfold real_format in H.
      destruct (bigrat_format_t [105] fuel st1 base sep (if negb (rneg im) then im else rat_neg im)) as [[ti ei]| |] eqn:Ei;
        cbn [bind fst snd] in H; try discriminate.
      injection H as _ Hf. destruct vexact, er, ei, re_ov, im_ov; cbn in Hf; try discriminate.
      split; [reflexivity|]. split.
      * intros _. split; [reflexivity|]. exists st1, tr. assumption.
      * intros _. split; [reflexivity|]. exists st1, ti, (if negb (rneg im) then im else rat_neg im).
        split; [destruct (negb (rneg im)); auto|assumption].
Qed.

(* ------------------------------------------------------------------ *)
(* the suffix does not make a part "more exact": whenever the part formatted
   with the suffix is flagged exact, the plain rendering of the same part is
   flagged exact too (and then denotes the part, C03_marker) *)
From FendV Require Import Fmt.Lex Fmt.IntFmtProofs Fmt.LexProofs Fmt.ExpansionProofs Fmt.RoundTripProofs Fmt.TruncProofs.
From Coq Require Import QArith.
Open Scope N_scope.

Lemma one_digit_exact : forall base wp sfl, 2 <= base_val base <= 36 -> sfl <> Some 0 ->
  exists f, format_biguint base wp sfl 1 = Ok (f, true).
Proof.
  intros base wp sfl Hb Hsf.
  destruct (format_biguint_gen base wp sfl 1 Hb) as (f & ds & ex & Hf & Hc & _ & _ & Hex).
  assert (Hds : ds = [1]) by (apply (canon_single (base_val base) 1 ds); [lia|lia|assumption]).
  subst ds. exists f. rewrite Hf. f_equal. f_equal. apply Hex.
  destruct sfl as [sf|]; [|exact I].
  unfold mask_ds. assert (sf <> 0) by (intros ->; apply Hsf; reflexivity).
  destruct (N.to_nat sf) as [|k] eqn:E; [lia|]. cbn [firstn length Nat.sub]. destruct k; reflexivity.
Qed.

Lemma bigrat_format_t_flag : forall term fuel st base sep x t,
  base_prefix_ok base = true -> st <> SSf 0 ->
  bigrat_format_t term fuel st base sep x = Ok (t, true) ->
  exists t', bigrat_format fuel st base sep x = Ok (t', true).
Proof.
  intros term fuel st base sep x t Hbase Hst H.
  pose proof (base_prefix_ok_range base Hbase) as Hb.
  unfold bigrat_format_t in H. unfold bigrat_format.
  destruct (simplify x) as [y| |]; cbn [bind] in *; try discriminate.
  destruct (rden y =? 1).
  - unfold format_as_integer_t in H. unfold format_as_integer.
    destruct (negb (is_nil term) && negb (has_prefix base) && (rnum y =? 1)) eqn:E.
    + apply Bool.andb_true_iff in E as [_ E1]. apply N.eqb_eq in E1. rewrite E1.
      destruct (one_digit_exact base true (match st with SSf sf => Some sf | _ => None end) Hb) as (f & Hf).
      { destruct st; try discriminate. intros E0. injection E0 as ->. apply Hst. reflexivity. }
      rewrite Hf. cbn [bind]. eexists. reflexivity.
    + destruct (format_biguint base true _ (rnum y)) as [[f e]| |]; cbn [bind fst snd] in *; try discriminate.
      injection H as _ ->. eexists. reflexivity.
  - match goal with |- context [do fraction <- ?M; _] => destruct M as [fr| |] end; cbn [bind] in *; try discriminate.
    destruct fr.
    + unfold format_as_fraction_t in H. unfold format_as_fraction.
      destruct (format_biguint base true None (rden y)) as [[fd ed]| |]; cbn [bind] in *; try discriminate.
      match goal with |- context [do pn <- ?M; _] => destruct M as [[[pref num] pe]| |] end; cbn [bind] in *; try discriminate.
      destruct (negb (is_nil term) && negb match pref with Some _ => true | None => false end &&
                negb (has_prefix base) && (num =? 1)) eqn:E.
      * apply Bool.andb_true_iff in E as [_ E1]. apply N.eqb_eq in E1. subst num.
        destruct (one_digit_exact base true None Hb) as (f & Hf); [discriminate|].
        rewrite Hf. cbn [bind fst snd]. injection H as _ Hfl. cbn [fst snd] in Hfl.
        rewrite Bool.andb_true_r in Hfl. rewrite Hfl. eexists. reflexivity.
      * destruct (format_biguint base true None num) as [[fn en]| |]; cbn [bind fst snd] in *; try discriminate.
        injection H as _ ->. eexists. reflexivity.
    + unfold format_as_decimal_t in H.
      destruct (format_as_decimal fuel y st base _ _ sep) as [[s e]| |]; cbn [bind fst snd] in *; try discriminate.
      injection H as _ ->. eexists. reflexivity.
Qed.

(* THE MARKER on complex values: a rendering re + im i shown without `approx.`
   means that the value was flagged exact, neither part is an approximated
   multiple of pi, and the plain renderings of both parts are flagged exact,
   hence (C03_marker) denote the parts exactly *)
Theorem complex_marker_lemma : forall fuel vexact st base sep re re_ov im im_ov s,
  base_prefix_ok base = true -> wfr re = true -> wfr im = true ->
  (forall b, vexact = b -> st <> SSf 0) ->
  complex_format fuel vexact st base sep re re_ov im im_ov = Ok (s, true) ->
  vexact = true /\
  (rat_is_zero re = false \/ rat_is_zero im = true ->
     re_ov = false /\ exists st' t v, bigrat_format fuel st' base sep re = Ok (t, true) /\
                       read_rendering sep base t = Some v /\ (v == qval re)%Q) /\
  (rat_is_zero im = false ->
     im_ov = false /\ exists st' t v x', (x' = im \/ x' = rat_neg im) /\
                       bigrat_format fuel st' base sep x' = Ok (t, true) /\
                       read_rendering sep base t = Some v /\ (v == qval x')%Q).
Proof.
  intros fuel vexact st base sep re re_ov im im_ov s Hbase Hwr Hwi Hst H.
  pose proof H as H0. unfold complex_format in H0.
  destruct (complex_flag_lemma _ _ _ _ _ _ _ _ _ _ H) as (Hv & Hre & Him).
  split; [assumption|]. split.
  - intros Hc. destruct (Hre Hc) as (Ho & st' & t & Ht). split; [assumption|].
    destruct (bigrat_format_marker fuel st' base sep re t Hbase Hwr Ht) as (v & Hr & Hq).
    exists st', t, v. auto.
  - intros Hc.
    (* recover the style actually used to keep st' <> SSf 0 *)
    subst vexact. cbn [negb andb] in H0. rewrite Hc in H0. cbn [negb andb] in H0.
    set (st1 := if style_eqb st SAuto then SExact else st) in *.
    assert (Hst1 : st1 <> SSf 0).
    { unfold st1. destruct (style_eqb st SAuto); [discriminate|]. apply (Hst true eq_refl). }
    assert (Hwn : wfr (rat_neg im) = true) by (unfold wfr, rat_neg in *; cbn [rden]; assumption).
    destruct (rat_is_zero re) eqn:Zr.
    + unfold real_format in H0.
      destruct (bigrat_format_t [105] fuel st1 base sep im) as [[t e]| |] eqn:E; cbn [bind fst snd] in H0; try discriminate.
      injection H0 as _ Hf. destruct e, im_ov; cbn in Hf; try discriminate.
      destruct (bigrat_format_t_flag _ _ _ _ _ _ _ Hbase Hst1 E) as (t' & Ht').
      destruct (bigrat_format_marker fuel st1 base sep im t' Hbase Hwi Ht') as (v & Hr & Hq).
      split; [reflexivity|]. exists st1, t', v, im. auto.
    + rewrite real_format_real in H0.
      destruct (bigrat_format fuel st1 base sep re) as [[tr er]| |]; cbn [bind fst snd] in H0; try discriminate.
      unfold real_format in H0.
      set (x' := if negb (rneg im) then im else rat_neg im) in *.
      destruct (bigrat_format_t [105] fuel st1 base sep x') as [[ti ei]| |] eqn:E; cbn [bind fst snd] in H0; try discriminate.
      injection H0 as _ Hf. destruct er, ei, re_ov, im_ov; cbn in Hf; try discriminate.
      destruct (bigrat_format_t_flag _ _ _ _ _ _ _ Hbase Hst1 E) as (t' & Ht').
      assert (Hwx : wfr x' = true) by (unfold x'; destruct (negb (rneg im)); assumption).
      destruct (bigrat_format_marker fuel st1 base sep x' t' Hbase Hwx Ht') as (v & Hr & Hq).
      split; [reflexivity|]. exists st1, t', v, x'. split; [unfold x'; destruct (negb (rneg im)); auto|auto].
Qed.
