(* The round trip: every rendering that Value::format flags exact, read back
   through the literal lexer (with the base prefix restored for a
   prefix-less base), denotes the value that was formatted. *)
From FendV Require Import Base.Prelude Fmt.Rat Fmt.Format Fmt.Lex Fmt.IntFmtProofs Fmt.LexProofs
  Fmt.ExpansionProofs.
From Coq Require Import Lia ZifyBool QArith.
Open Scope N_scope.

Arguments N.add : simpl never.
Arguments N.sub : simpl never.
Arguments N.mul : simpl never.
Arguments N.div : simpl never.
Arguments N.modulo : simpl never.
Arguments N.eqb : simpl never.
Arguments N.ltb : simpl never.
Arguments N.leb : simpl never.
Arguments N.pow : simpl never.
Arguments N.gcd : simpl never.

(* ------------------------------------------------------------------ *)
(* literals built from digit lists (lower case, no separators) *)

Definition wd (d : N) : wdigit := mkwd d false.
Definition drun_of (d : N) (ds : list N) : drun := mkdrun (wd d) (map (fun x => (WNone, wd x)) ds).

Lemma wd_char : forall d, wdigit_char (wd d) = dchar d.
Proof. reflexivity. Qed.

Lemma show_drun_of : forall sep d ds, show_drun sep (drun_of d ds) = map dchar (d :: ds).
Proof.
  intros sep d ds. unfold show_drun, drun_of. cbn [dr_first dr_more map]. f_equal.
  induction ds as [|x ds IH]; [reflexivity|]. cbn [map flat_map fst snd wsep_text app]. f_equal. assumption.
Qed.

Lemma drun_digits_of : forall d ds, drun_digits (drun_of d ds) = d :: ds.
Proof.
  intros d ds. unfold drun_digits, drun_of. cbn [dr_first dr_more wd_val wd]. f_equal.
  rewrite map_map. cbn [snd wd_val wd]. apply map_id.
Qed.

Lemma drun_ok_of : forall b d ds, Forall (fun x => x < b) (d :: ds) -> drun_ok b (drun_of d ds) = true.
Proof.
  intros b d ds H. unfold drun_ok. rewrite drun_digits_of. apply forallb_forall.
  intros x Hx. rewrite Forall_forall in H. specialize (H x Hx). lia.
Qed.

Lemma drun_val_of : forall b d ds, drun_val b (drun_of d ds) = digits_val b (d :: ds).
Proof. intros. unfold drun_val. rewrite drun_digits_of. reflexivity. Qed.

Lemma drun_len_of : forall d ds, drun_len (drun_of d ds) = N.of_nat (length (d :: ds)).
Proof. intros. unfold drun_len. rewrite drun_digits_of. reflexivity. Qed.

(* optional digit run from a list *)
Definition drun_opt (ds : list N) : option drun :=
  match ds with [] => None | d :: r => Some (drun_of d r) end.

(* a decimal literal  I [. P [( R )]]  from digit lists; I non-empty *)
Definition dec_lit (base : basek) (ipd pd rd : list N) : lit :=
  mklit base (drun_opt ipd)
        (match drun_opt pd, drun_opt rd with
         | None, None => NoFrac
         | Some p, r => Frac p r
         | None, Some r => RecOnly r
         end) None.

Lemma show_dec_lit : forall sep base ipd pd rd, ipd <> [] ->
  show_body sep (dec_lit base ipd pd rd) =
  map dchar ipd ++
  match pd, rd with
  | [], [] => []
  | _, [] => decimal_char sep :: map dchar pd
  | _, _ => decimal_char sep :: map dchar pd ++ [40] ++ map dchar rd ++ [41]
  end.
Proof.
  intros sep base ipd pd rd Hi. unfold show_body, dec_lit. cbn [l_int l_frac l_exp show_exp].
  rewrite app_nil_r.
  destruct ipd as [|i0 ipd]; [contradiction|]. cbn [drun_opt]. rewrite show_drun_of. f_equal.
  destruct pd as [|p0 pd], rd as [|r0 rd]; cbn [drun_opt show_frac]; rewrite ?show_drun_of; reflexivity.
Qed.

Lemma dec_lit_ok : forall base ipd pd rd, ipd <> [] ->
  Forall (fun x => x < base_val base) ipd -> Forall (fun x => x < base_val base) pd ->
  Forall (fun x => x < base_val base) rd ->
  body_ok (base_val base) (dec_lit base ipd pd rd) = true.
Proof.
  intros base ipd pd rd Hi H1 H2 H3. unfold body_ok, dec_lit. cbn [l_int l_frac l_exp].
  destruct ipd as [|i0 ipd]; [contradiction|]. cbn [drun_opt]. rewrite drun_ok_of by assumption.
  destruct pd as [|p0 pd], rd as [|r0 rd]; cbn [drun_opt frac_ok]; rewrite ?drun_ok_of by assumption; reflexivity.
Qed.

(* ------------------------------------------------------------------ *)
(* characters *)

Lemma dchar_not_minus : forall d, dchar d <> 45.
Proof. intros d. unfold dchar. destruct (d <? 10) eqn:E; lia. Qed.

Lemma ok_follow_slash : forall t, ok_follow (47 :: t) = true.
Proof. reflexivity. Qed.
Lemma ok_follow_space : forall t, ok_follow (32 :: t) = true.
Proof. reflexivity. Qed.
Lemma ok_follow_nil : ok_follow [] = true.
Proof. reflexivity. Qed.

Lemma prefix_head : forall base t, 2 <= base_val base <= 36 ->
  starts_with 45 (prefix_text base ++ map dchar t) = false \/ (prefix_text base = [] /\ t = []).
Proof.
  intros base t Hb. destruct base as [| | |b|b]; cbn [prefix_text app]; try (left; reflexivity).
  - destruct (dec_display_spec b) as (ds & Hd & Hc). rewrite Hd.
    destruct ds as [|d ds].
    + destruct Hc as (_ & Hv & _). unfold digits_val in Hv. cbn in Hv. cbn [base_val] in Hb. lia.
    + left. cbn [map app starts_with]. pose proof (dchar_not_minus d). lia.
  - destruct t as [|d t]; [right; auto|left]. cbn [map starts_with]. pose proof (dchar_not_minus d). lia.
Qed.

(* ------------------------------------------------------------------ *)
(* reading numbers *)

Definition base_prefix_ok (base : basek) : bool :=
  match base with BCustom b => (2 <=? b) && (b <=? 36) | BPlain b => (2 <=? b) && (b <=? 36) | _ => true end.

Lemma base_prefix_ok_range : forall base, base_prefix_ok base = true -> 2 <= base_val base <= 36.
Proof. intros [| | |b|b] H; cbn in *; lia. Qed.

Lemma read_num_body : forall sep base l rest, base_prefix_ok base = true ->
  l_base l = base -> body_ok (base_val base) l = true -> ok_follow rest = true ->
  exists v, read_num sep base (prefix_text base ++ show_body sep l ++ rest) = Some (v, rest) /\
            (v == body_value (base_val base) l)%Q.
Proof.
  intros sep base l rest Hbase Hl Hok Hf.
  pose proof (base_prefix_ok_range base Hbase) as Hb.
  unfold read_num. destruct (has_prefix base) eqn:Hp.
  - assert (Hlit : lit_ok l = true).
    { unfold lit_ok. rewrite Hl. unfold body_ok in Hok.
      apply andb_prop in Hok as [Hok He]. apply andb_prop in Hok as [Hi Hfr].
      rewrite Hi, Hfr, He. rewrite !andb_true_r.
      destruct base; cbn [base_ok has_prefix base_prefix_ok] in *; try reflexivity; try assumption; discriminate. }
    destruct (lex_lit sep l rest Hlit Hf) as (v & Hpn & Hv).
    unfold show_lit in Hpn. rewrite Hl in Hpn.
    change ((match l_int l with Some i => show_drun sep i | None => [] end) ++
            show_frac sep (l_frac l) ++ show_exp sep (l_exp l)) with (show_body sep l) in Hpn.
    rewrite <- app_assoc in Hpn. rewrite Hpn. rewrite N.eqb_refl.
    exists v. split; [reflexivity|]. unfold lit_value in Hv. rewrite Hl in Hv. exact Hv.
  - destruct base; try discriminate. cbn [prefix_text app base_val] in *.
    destruct (lex_body b sep l rest Hb Hok Hf) as (v & Hpn & Hv).
    rewrite Hpn. exists v. split; [reflexivity|exact Hv].
Qed.

(* an integer in canonical digits *)
Definition int_lit (base : basek) (ds : list N) : lit := dec_lit base ds [] [].

Lemma read_num_int : forall sep base n ds rest, base_prefix_ok base = true ->
  canon_ds (base_val base) n ds -> ok_follow rest = true ->
  exists v, read_num sep base (prefix_text base ++ map dchar ds ++ rest) = Some (v, rest) /\
            (v == qN n)%Q.
Proof.
  intros sep base n ds rest Hbase (Hall & Hv & Hz & Hnz) Hf.
  assert (Hne : ds <> []).
  { intro; subst ds. unfold digits_val in Hv. cbn in Hv. specialize (Hz (eq_sym Hv)). discriminate. }
  destruct (read_num_body sep base (int_lit base ds) rest Hbase eq_refl) as (v & Hr & Hval).
  - apply dec_lit_ok; auto.
  - assumption.
  - unfold int_lit in Hr. rewrite show_dec_lit in Hr by assumption. rewrite app_nil_r in Hr.
    exists v. split; [exact Hr|]. rewrite Hval. unfold body_value, int_lit, dec_lit.
    cbn [l_int l_frac l_exp frac_value exp_value Qpower].
    destruct ds as [|d0 ds]; [contradiction|]. cbn [drun_opt]. rewrite drun_val_of, Hv.
    unfold frac_value. ring.
Qed.

(* ------------------------------------------------------------------ *)
(* Q arithmetic on naturals *)

Lemma qN_mul : forall a c, (qN (a * c) == qN a * qN c)%Q.
Proof. intros. unfold qN. rewrite N2Z.inj_mul, inject_Z_mult. reflexivity. Qed.

Lemma qN_add : forall a c, (qN (a + c) == qN a + qN c)%Q.
Proof. intros. unfold qN. rewrite N2Z.inj_add, inject_Z_plus. reflexivity. Qed.

Lemma q_frac_eq : forall p q r s : Q, ~ (q == 0)%Q -> ~ (s == 0)%Q ->
  (p * s == r * q)%Q -> (p / q == r / s)%Q.
Proof.
  intros p q r s Hq Hs H.
  assert (Hp : (p == r * q / s)%Q) by (rewrite <- H; field; assumption).
  rewrite Hp. field. split; assumption.
Qed.

Lemma qN_frac_eq : forall a c e f, c <> 0 -> f <> 0 -> a * f = e * c ->
  (qN a / qN c == qN e / qN f)%Q.
Proof.
  intros a c e f Hc Hf H. apply q_frac_eq; try (apply qN_pos; assumption).
  rewrite <- !qN_mul. rewrite H. reflexivity.
Qed.

(* a terminating expansion denotes the fraction *)
Lemma value_terminating : forall ip P Bk rm den, den <> 0 -> Bk <> 0 ->
  rm * Bk = P * den ->
  (qN ip + qN P / qN Bk == qN (ip * den + rm) / qN den)%Q.
Proof.
  intros ip P Bk rm den Hd HB H.
  rewrite (qN_frac_eq P Bk rm den HB Hd) by lia.
  rewrite qN_add, qN_mul. field. apply qN_pos. assumption.
Qed.

(* a recurring expansion denotes the fraction *)
Lemma value_recurring : forall ip P R Bm Z rm den, den <> 0 -> Bm <> 0 -> Z <> 0 ->
  rm * Bm * Z = den * (P * Z + R) ->
  (qN ip + (qN P / qN Bm + qN R / qN (Z * Bm)) == qN (ip * den + rm) / qN den)%Q.
Proof.
  intros ip P R Bm Z rm den Hd HB HZ H.
  assert (Hs : (qN P / qN Bm + qN R / qN (Z * Bm) == qN (P * Z + R) / qN (Z * Bm))%Q).
  { rewrite qN_add, !qN_mul. field. split; apply qN_pos; assumption. }
  rewrite Hs.
  rewrite (qN_frac_eq (P * Z + R) (Z * Bm) rm den) by (try lia; nia).
  rewrite qN_add, qN_mul. field. apply qN_pos. assumption.
Qed.

(* ------------------------------------------------------------------ *)
(* reading renderings *)

Lemma read_signed : forall sep base (neg : bool) t, starts_with 45 t = false ->
  read_rendering sep base (sign_text neg ++ t) =
  match read_unsigned sep base t with
  | Some v => Some (if neg then (- v)%Q else v)
  | None => None
  end.
Proof.
  intros sep base neg t Ht. unfold read_rendering, sign_text. destruct neg; cbn [app].
  - cbn [starts_with tl]. rewrite N.eqb_refl. reflexivity.
  - rewrite Ht. destruct (read_unsigned sep base t); reflexivity.
Qed.

Lemma canon_nonempty : forall b n ds, canon_ds b n ds -> ds <> [].
Proof.
  intros b n ds (_ & Hv & Hz & _) ->. unfold digits_val in Hv. cbn in Hv.
  specialize (Hz (eq_sym Hv)). discriminate.
Qed.

Lemma num_text_head : forall base ds, base_prefix_ok base = true -> ds <> [] ->
  starts_with 45 (prefix_text base ++ map dchar ds) = false.
Proof.
  intros base ds Hb Hne. destruct (prefix_head base ds (base_prefix_ok_range base Hb)) as [H|(_ & H)]; [assumption|contradiction].
Qed.

Lemma read_unsigned_int : forall sep base n ds, base_prefix_ok base = true ->
  canon_ds (base_val base) n ds ->
  exists v, read_unsigned sep base (prefix_text base ++ map dchar ds) = Some v /\ (v == qN n)%Q.
Proof.
  intros sep base n ds Hb Hc.
  destruct (read_num_int sep base n ds [] Hb Hc ok_follow_nil) as (v & Hr & Hv).
  rewrite app_nil_r in Hr. exists v. split; [|assumption]. unfold read_unsigned. rewrite Hr. reflexivity.
Qed.

Lemma read_unsigned_frac : forall sep base n1 ds1 n2 ds2, base_prefix_ok base = true ->
  canon_ds (base_val base) n1 ds1 -> canon_ds (base_val base) n2 ds2 ->
  exists v, read_unsigned sep base
              (prefix_text base ++ map dchar ds1 ++ [47] ++ prefix_text base ++ map dchar ds2) = Some v /\
            (v == qN n1 / qN n2)%Q.
Proof.
  intros sep base n1 ds1 n2 ds2 Hb H1 H2.
  destruct (read_num_int sep base n1 ds1 (47 :: prefix_text base ++ map dchar ds2) Hb H1 (ok_follow_slash _))
    as (v1 & Hr1 & Hv1).
  destruct (read_num_int sep base n2 ds2 [] Hb H2 ok_follow_nil) as (v2 & Hr2 & Hv2).
  rewrite app_nil_r in Hr2.
  exists (v1 / v2)%Q. split; [|rewrite Hv1, Hv2; reflexivity].
  unfold read_unsigned. cbn [app]. rewrite Hr1. rewrite N.eqb_refl. rewrite Hr2. reflexivity.
Qed.

Lemma read_unsigned_mixed : forall sep base n0 ds0 n1 ds1 n2 ds2, base_prefix_ok base = true ->
  canon_ds (base_val base) n0 ds0 -> canon_ds (base_val base) n1 ds1 -> canon_ds (base_val base) n2 ds2 ->
  exists v, read_unsigned sep base
              ((prefix_text base ++ map dchar ds0 ++ [32]) ++
               prefix_text base ++ map dchar ds1 ++ [47] ++ prefix_text base ++ map dchar ds2) = Some v /\
            (v == qN n0 + qN n1 / qN n2)%Q.
Proof.
  intros sep base n0 ds0 n1 ds1 n2 ds2 Hb H0 H1 H2.
  destruct (read_num_int sep base n0 ds0
              (32 :: prefix_text base ++ map dchar ds1 ++ [47] ++ prefix_text base ++ map dchar ds2)
              Hb H0 (ok_follow_space _)) as (v0 & Hr0 & Hv0).
  destruct (read_num_int sep base n1 ds1 (47 :: prefix_text base ++ map dchar ds2) Hb H1 (ok_follow_slash _))
    as (v1 & Hr1 & Hv1).
  destruct (read_num_int sep base n2 ds2 [] Hb H2 ok_follow_nil) as (v2 & Hr2 & Hv2).
  rewrite app_nil_r in Hr2.
  exists (v0 + v1 / v2)%Q. split; [|rewrite Hv0, Hv1, Hv2; reflexivity].
  unfold read_unsigned. rewrite <- !app_assoc. cbn [app]. cbn [app] in Hr0, Hr1. rewrite Hr0.
  replace (32 =? 47) with false by reflexivity. rewrite N.eqb_refl.
  rewrite Hr1. rewrite N.eqb_refl. rewrite Hr2. reflexivity.
Qed.

Lemma read_unsigned_dec : forall sep base ipd pd rd, base_prefix_ok base = true ->
  ipd <> [] ->
  Forall (fun x => x < base_val base) ipd -> Forall (fun x => x < base_val base) pd ->
  Forall (fun x => x < base_val base) rd ->
  exists v, read_unsigned sep base (prefix_text base ++ show_body sep (dec_lit base ipd pd rd)) = Some v /\
            (v == body_value (base_val base) (dec_lit base ipd pd rd))%Q.
Proof.
  intros sep base ipd pd rd Hb Hi H1 H2 H3.
  destruct (read_num_body sep base (dec_lit base ipd pd rd) [] Hb eq_refl) as (v & Hr & Hv).
  - apply dec_lit_ok; assumption.
  - reflexivity.
  - rewrite app_nil_r in Hr. exists v. split; [|assumption]. unfold read_unsigned. rewrite Hr. reflexivity.
Qed.

(* value of a decimal literal built from digit lists *)
Lemma dec_lit_value : forall base ipd pd rd, ipd <> [] ->
  (body_value (base_val base) (dec_lit base ipd pd rd) ==
   qN (digits_val (base_val base) ipd) +
   match pd, rd with
   | [], [] => 0
   | _, [] => qN (digits_val (base_val base) pd) / qN (base_val base ^ N.of_nat (length pd))
   | [], _ => qN (digits_val (base_val base) rd) / qN (base_val base ^ N.of_nat (length rd) - 1)
   | _, _ => qN (digits_val (base_val base) pd) / qN (base_val base ^ N.of_nat (length pd))
             + qN (digits_val (base_val base) rd) /
               qN ((base_val base ^ N.of_nat (length rd) - 1) * base_val base ^ N.of_nat (length pd))
   end)%Q.
Proof.
  intros base ipd pd rd Hi. unfold body_value, dec_lit. cbn [l_int l_frac l_exp exp_value Qpower].
  destruct ipd as [|i0 ipd]; [contradiction|]. cbn [drun_opt]. rewrite drun_val_of.
  destruct pd as [|p0 pd], rd as [|r0 rd]; cbn [drun_opt frac_value];
    rewrite ?drun_val_of, ?drun_len_of; ring.
Qed.

(* ------------------------------------------------------------------ *)
(* the three layouts *)

Lemma starts_with_app : forall c (a t : list N), a <> [] -> starts_with c (a ++ t) = starts_with c a.
Proof. intros c [|x a] t H; [contradiction|reflexivity]. Qed.

Lemma num_text_nonempty : forall base ds, ds <> [] -> prefix_text base ++ map dchar ds <> [].
Proof. intros base [|d ds] H; [contradiction|]. intro E. apply app_eq_nil in E. destruct E as (_ & E). discriminate. Qed.

Lemma num_text_head2 : forall base ds t, base_prefix_ok base = true -> ds <> [] ->
  starts_with 45 (prefix_text base ++ map dchar ds ++ t) = false.
Proof.
  intros base ds t Hb Hne. rewrite app_assoc. rewrite starts_with_app by (apply num_text_nonempty; assumption).
  apply num_text_head; assumption.
Qed.

Definition signedQ (neg : bool) (q : Q) : Q := if neg then (- q)%Q else q.

Lemma format_as_integer_rt : forall base sep neg n s ex, base_prefix_ok base = true ->
  format_as_integer n base neg None = Ok (s, ex) ->
  ex = true /\ exists v, read_rendering sep base s = Some v /\ (v == signedQ neg (qN n))%Q.
Proof.
  intros base sep neg n s ex Hb H. unfold format_as_integer in H.
  destruct (format_biguint_nosf base true n (base_prefix_ok_range base Hb)) as (f & ds & Hf & Ht & Hc & _).
  rewrite Hf in H. cbn [bind fst snd] in H. injection H as <- <-. split; [reflexivity|].
  rewrite Ht. rewrite read_signed by (apply num_text_head; [assumption|eapply canon_nonempty; eassumption]).
  destruct (read_unsigned_int sep base n ds Hb Hc) as (v & Hr & Hv). rewrite Hr.
  eexists. split; [reflexivity|]. unfold signedQ. destruct neg; rewrite Hv; reflexivity.
Qed.

Lemma format_as_fraction_rt : forall x base sep neg mixed s ex, base_prefix_ok base = true ->
  rden x <> 0 ->
  format_as_fraction x base neg mixed = Ok (s, ex) ->
  ex = true /\ exists v, read_rendering sep base s = Some v /\
                         (v == signedQ neg (qN (rnum x) / qN (rden x)))%Q.
Proof.
  intros x base sep neg mixed s ex Hb Hd H. unfold format_as_fraction in H.
  pose proof (base_prefix_ok_range base Hb) as Hr.
  destruct (format_biguint_nosf base true (rden x) Hr) as (fd & dsd & Hfd & Htd & Hcd & _).
  rewrite Hfd in H. cbn [bind] in H.
  destruct mixed.
  - replace (rden x =? 0) with false in H by lia.
    destruct (rnum x / rden x =? 0) eqn:Ep.
    + (* no integer part: same as an improper fraction *)
      cbn [bind] in H.
      destruct (format_biguint_nosf base true (rnum x mod rden x) Hr) as (fn & dsn & Hfn & Htn & Hcn & _).
      rewrite Hfn in H. cbn [bind fst snd app] in H. injection H as <- <-. split; [reflexivity|].
      rewrite Htn, Htd. cbn [app].
      rewrite <- app_assoc.
      rewrite read_signed.
      2:{ apply num_text_head2; [assumption|eapply canon_nonempty; eassumption]. }
      destruct (read_unsigned_frac sep base _ dsn _ dsd Hb Hcn Hcd) as (v & Hrd & Hv).
      rewrite <- ?app_assoc. cbn [app] in Hrd. cbn [app]. rewrite Hrd.
      eexists. split; [reflexivity|].
      assert (Hnum : rnum x mod rden x = rnum x).
      { apply N.eqb_eq in Ep. apply N.mod_small. apply N.div_small_iff in Ep; assumption. }
      rewrite Hnum in Hv. unfold signedQ. destruct neg; rewrite Hv; reflexivity.
    + destruct (format_biguint_nosf base true (rnum x / rden x) Hr) as (fp & dsp & Hfp & Htp & Hcp & _).
      rewrite Hfp in H. cbn [bind fst snd] in H.
      destruct (format_biguint_nosf base true (rnum x mod rden x) Hr) as (fn & dsn & Hfn & Htn & Hcn & _).
      rewrite Hfn in H. cbn [bind fst snd] in H. injection H as <- <-. split; [reflexivity|].
      rewrite Htp, Htn, Htd.
      rewrite read_signed.
      2:{ rewrite <- !app_assoc. apply num_text_head2; [assumption|eapply canon_nonempty; eassumption]. }
      destruct (read_unsigned_mixed sep base _ dsp _ dsn _ dsd Hb Hcp Hcn Hcd) as (v & Hrd & Hv).
      rewrite <- !app_assoc in Hrd. rewrite <- !app_assoc. cbn [app] in Hrd. cbn [app]. rewrite Hrd.
      eexists. split; [reflexivity|].
      assert (Hval : (qN (rnum x / rden x) + qN (rnum x mod rden x) / qN (rden x) == qN (rnum x) / qN (rden x))%Q).
      { rewrite (N.div_mod' (rnum x) (rden x)) at 3. rewrite qN_add, qN_mul. field. apply qN_pos. assumption. }
      unfold signedQ. destruct neg; rewrite Hv, Hval; reflexivity.
  - cbn [bind] in H.
    destruct (format_biguint_nosf base true (rnum x) Hr) as (fn & dsn & Hfn & Htn & Hcn & _).
    rewrite Hfn in H. cbn [bind fst snd app] in H. injection H as <- <-. split; [reflexivity|].
    rewrite Htn, Htd. cbn [app]. rewrite <- app_assoc.
    rewrite read_signed.
    2:{ apply num_text_head2; [assumption|eapply canon_nonempty; eassumption]. }
    destruct (read_unsigned_frac sep base _ dsn _ dsd Hb Hcn Hcd) as (v & Hrd & Hv).
    rewrite <- ?app_assoc. cbn [app] in Hrd. cbn [app]. rewrite Hrd.
    eexists. split; [reflexivity|]. unfold signedQ. destruct neg; rewrite Hv; reflexivity.
Qed.

(* ------------------------------------------------------------------ *)
(* digits after the point *)

Lemma pow_ge_1 : forall b k, b <> 0 -> 1 <= b ^ k.
Proof. intros. apply N.lt_pred_le. cbn. apply N.neq_0_lt_0, N.pow_nonzero. assumption. Qed.

Lemma pow_ge_2 : forall b k, 2 <= b -> (1 <= k)%nat -> 2 <= b ^ N.of_nat k.
Proof.
  intros b k Hb Hk. destruct k as [|k]; [lia|]. rewrite Nat2N.inj_succ, N.pow_succ_r'.
  pose proof (pow_ge_1 b (N.of_nat k)). nia.
Qed.

Lemma ftd_rt : forall fuel base num den md t sep neg ip ipd sign text,
  base_prefix_ok base = true -> den <> 0 -> num < den -> canon_ds (base_val base) ip ipd ->
  format_trailing_digits fuel base num den md (Ok t) sep neg ip (prefix_text base ++ map dchar ipd)
    = Ok (sign, text, true) ->
  exists v, read_rendering sep base (sign_text sign ++ text) = Some v /\
            (v == signedQ neg (qN (ip * den + num) / qN den))%Q.
Proof.
  intros fuel base num den md t sep neg ip ipd sign text Hbase Hd Hn Hc H.
  pose proof (base_prefix_ok_range base Hbase) as Hb.
  set (b := base_val base) in *.
  assert (Hb0 : b <> 0) by lia.
  pose proof (canon_nonempty _ _ _ Hc) as Hine.
  pose proof Hc as Hcan.
  destruct Hc as (Hiall & Hival & _ & _).
  assert (Hcases : (md = AllDigits /\ t = false) \/
                   (exists fuel2 ign, nonrec_loop fuel2 md base den sep neg ip (prefix_text base ++ map dchar ipd)
                                        ign num 0 0 None [] = Ok (sign, text, true))).
  { unfold format_trailing_digits in H.
    destruct md as [|n|n]; cbn [bind] in H.
    - destruct t; [right|left; auto]. eexists. eexists. exact H.
    - right. eexists. eexists. exact H.
    - right. eexists. eexists. exact H. }
  destruct Hcases as [(-> & ->)|(fuel2 & ign & Hnr)].
  - (* recurring *)
    apply ftd_recurring in H; try assumption.
    destruct H as (m & l & Hl & -> & _ & -> & Hcyc). fold b in Hcyc |- *.
    set (P := iter_digits b den m num) in *. set (R := iter_digits b den l (iter_rem b den m num)) in *.
    assert (HR : R <> []).
    { unfold R. destruct l; [lia|]. cbn [iter_digits]. discriminate. }
    assert (HPall : Forall (fun d => d < b) P) by (apply iter_digits_lt; assumption).
    assert (HRall : Forall (fun d => d < b) R)
      by (apply iter_digits_lt; try assumption; apply iter_rem_lt; assumption).
    assert (Htext : (prefix_text base ++ map dchar ipd) ++ [decimal_char sep] ++ map dchar P ++ [40] ++ map dchar R ++ [41]
                    = prefix_text base ++ show_body sep (dec_lit base ipd P R)).
    { rewrite show_dec_lit by assumption. rewrite <- app_assoc. f_equal. f_equal.
      destruct P, R; try contradiction; reflexivity. }
    rewrite Htext.
    rewrite read_signed.
    2:{ rewrite show_dec_lit by assumption. apply num_text_head2; assumption. }
    destruct (read_unsigned_dec sep base ipd P R Hbase Hine Hiall HPall HRall) as (v & Hr & Hv).
    rewrite Hr. eexists. split; [reflexivity|].
    assert (Hval : (v == qN (ip * den + num) / qN den)%Q).
    { rewrite Hv, dec_lit_value by assumption. fold b. rewrite Hival.
      pose proof (cycle_identity b den m l num Hd Hb0 Hcyc) as Hid. fold P R in Hid.
      assert (HZ : b ^ N.of_nat l - 1 <> 0) by (pose proof (pow_ge_2 b l (proj1 Hb) Hl); lia).
      pose proof (value_recurring ip (digits_val b P) (digits_val b R) (b ^ N.of_nat m) (b ^ N.of_nat l - 1)
                    num den Hd (N.pow_nonzero _ _ Hb0) HZ Hid) as Hvr.
      rewrite <- Hvr.
      assert (HlenP : length P = m) by (apply iter_digits_length).
      assert (HlenR : length R = l) by (apply iter_digits_length).
      rewrite HlenP, HlenR.
      destruct P as [|p0 P'] eqn:EP, R as [|r0 R'] eqn:ER; try contradiction.
      - (* no pre-period *)
        cbn [length] in HlenP. subst m. change (N.of_nat 0) with 0. rewrite N.pow_0_r, N.mul_1_r.
        change (digits_val b []) with 0. change (qN 0 / qN 1)%Q with (0 / 1)%Q. field. apply qN_pos. assumption.
      - reflexivity. }
    unfold signedQ. destruct neg; rewrite Hval; reflexivity.
  - (* non-recurring *)
    apply (nonrec_spec fuel2 md base den sep neg ip _ ign num Hb Hd Hn O num 0 0 None [] []) in Hnr;
      try reflexivity; try (left; reflexivity); try (intros; reflexivity).
    destruct Hnr as (j' & nz' & tz' & i' & Hds & _ & Hex & _ & _ & _ & Hnil & Hnon & _ & _ & _). fold b in Hds, Hex.
    symmetry in Hex. apply N.eqb_eq in Hex.
    pose proof (iter_identity b den j' num Hd) as Hid. rewrite Hex, Hds in Hid.
    rewrite digits_val_app, digits_val_zeros, repeat_length in Hid.
    assert (Hj : j' = (length nz' + tz')%nat).
    { pose proof (iter_digits_length b den j' num) as Hl. rewrite Hds, app_length, repeat_length in Hl. lia. }
    assert (HB : 1 <= b ^ N.of_nat tz') by (apply pow_ge_1; assumption).
    assert (Hcore : num * b ^ N.of_nat (length nz') = digits_val b nz' * den).
    { rewrite Hj in Hid. rewrite Nat2N.inj_add, N.pow_add_r in Hid.
      remember (b ^ N.of_nat tz') as T. remember (b ^ N.of_nat (length nz')) as L.
      remember (digits_val b nz') as V. nia. }
    assert (Hnzall : Forall (fun d => d < b) nz').
    { pose proof (iter_digits_lt b den j' num Hb0 Hd Hn) as Hall. rewrite Hds in Hall.
      apply Forall_app in Hall. tauto. }
    destruct nz' as [|z0 nz''] eqn:Enz.
    + (* nothing after the point *)
      destruct (Hnil eq_refl) as (-> & ->).
      rewrite read_signed by (apply num_text_head; assumption).
      destruct (read_unsigned_int sep base ip ipd Hbase Hcan) as (v & Hr & Hv).
      rewrite Hr. eexists. split; [reflexivity|].
      assert (Hnum : num = 0).
      { change (digits_val b []) with 0 in Hcore. cbn [length] in Hcore. change (N.of_nat 0) with 0 in Hcore.
        rewrite N.pow_0_r in Hcore. lia. }
      subst num. rewrite N.add_0_r.
      assert (Hq : (qN (ip * den) / qN den == qN ip)%Q) by (rewrite qN_mul; field; apply qN_pos; assumption).
      unfold signedQ.
      destruct neg; cbn [andb]; [|rewrite Hq, Hv; reflexivity].
      destruct (ip =? 0) eqn:E0; cbn [negb]; [|rewrite Hq, Hv; reflexivity].
      apply N.eqb_eq in E0. rewrite Hq, Hv, E0. reflexivity.
    + rewrite <- Enz in *.
      assert (Hne : nz' <> []) by (rewrite Enz; discriminate).
      destruct (Hnon Hne) as (-> & ->).
      assert (Htext : (prefix_text base ++ map dchar ipd) ++ [decimal_char sep] ++ map dchar nz'
                      = prefix_text base ++ show_body sep (dec_lit base ipd nz' [])).
      { rewrite show_dec_lit by assumption. rewrite <- app_assoc. f_equal. f_equal.
        rewrite Enz. reflexivity. }
      rewrite Htext.
      rewrite read_signed.
      2:{ rewrite show_dec_lit by assumption. apply num_text_head2; assumption. }
      destruct (read_unsigned_dec sep base ipd nz' [] Hbase Hine Hiall Hnzall (Forall_nil _)) as (v & Hr & Hv).
      rewrite Hr. eexists. split; [reflexivity|].
      assert (Hval : (v == qN (ip * den + num) / qN den)%Q).
      { rewrite Hv, dec_lit_value by assumption. fold b. rewrite Hival.
        rewrite <- (value_terminating ip (digits_val b nz') (b ^ N.of_nat (length nz')) num den Hd
                      (N.pow_nonzero _ _ Hb0) Hcore).
        rewrite Enz. reflexivity. }
      unfold signedQ. destruct neg; rewrite Hval; reflexivity.
Qed.

(* ------------------------------------------------------------------ *)
(* the decimal layout, BigRat::format and Value::format *)

Definition not_sf (st : style) : bool := match st with SSf _ => false | _ => true end.

Lemma format_as_decimal_rt : forall fuel x st base sep neg t s,
  base_prefix_ok base = true -> rden x <> 0 -> not_sf st = true ->
  format_as_decimal fuel x st base neg (Ok t) sep = Ok (s, true) ->
  exists v, read_rendering sep base s = Some v /\
            (v == signedQ neg (qN (rnum x) / qN (rden x)))%Q.
Proof.
  intros fuel x st base sep neg t s Hbase Hd Hsf H.
  pose proof (base_prefix_ok_range base Hbase) as Hb.
  unfold format_as_decimal in H. replace (rden x =? 0) with false in H by lia.
  assert (Hsfl : match st with SSf sf => Some sf | _ => None end = None) by (destruct st; try reflexivity; discriminate).
  rewrite Hsfl in H.
  destruct (format_biguint_nosf base true (rnum x / rden x) Hb) as (fi & ipd & Hfi & Hti & Hci & _).
  rewrite Hfi in H. cbn [bind fst snd] in H.
  assert (Hftd : exists md sign text ex,
            format_trailing_digits fuel base (rnum x - rnum x / rden x * rden x) (rden x) md (Ok t) sep neg
              (rnum x / rden x) (prefix_text base ++ map dchar ipd) = Ok (sign, text, ex) /\
            Ok (sign_text sign ++ text, true && ex) = Ok (s, true)).
  { destruct st; try discriminate Hsf; cbn [bind fst snd] in H; rewrite Hti in H;
      match type of H with
      | context [format_trailing_digits ?f ?bb ?n ?d ?md ?tt ?sp ?ng ?ip ?ipt] =>
        destruct (format_trailing_digits f bb n d md tt sp ng ip ipt) as [[[sign text] ex]| |] eqn:Eftd;
          cbn [bind] in H; try discriminate; exists md, sign, text, ex; split; [exact Eftd|exact H]
      end. }
  destruct Hftd as (md & sign & text & ex & Eftd & H').
  clear H. rename H' into H.
  injection H as <- Hex. cbn [andb] in Hex. subst ex.
  assert (Hmod : rnum x - rnum x / rden x * rden x = rnum x mod rden x)
    by (rewrite N.mod_eq by assumption; lia).
  rewrite Hmod in Eftd.
  apply ftd_rt in Eftd; try assumption; [|apply N.mod_lt; assumption].
  destruct Eftd as (v & Hr & Hv). exists v. split; [assumption|].
  rewrite Hv. rewrite (N.mul_comm (rnum x / rden x)), <- N.div_mod' . reflexivity.
Qed.

Lemma qabs_eq : forall x, rden x <> 0 -> (qabs x == qN (rnum x) / qN (rden x))%Q.
Proof.
  intros [s n d] Hd. unfold qabs, qN. cbn [rnum rden] in *.
  destruct d as [|p]; [contradiction|]. rewrite Qmake_Qdiv. reflexivity.
Qed.

Lemma qval_signed : forall x, rden x <> 0 ->
  (qval x == signedQ (rneg x && negb (rnum x =? 0)) (qN (rnum x) / qN (rden x)))%Q.
Proof.
  intros x Hd. unfold qval, signedQ. pose proof (qabs_eq x Hd) as Ha.
  destruct (rneg x); cbn [andb]; [|exact Ha].
  destruct (rnum x =? 0) eqn:E; cbn [negb]; [|rewrite Ha; reflexivity].
  apply N.eqb_eq in E. rewrite Ha, E. change (qN 0) with 0%Q. field. apply qN_pos. assumption.
Qed.

Lemma simplify_value : forall x y, rden x <> 0 -> simplify x = Ok y ->
  rden y <> 0 /\ N.gcd (rnum y) (rden y) = 1 /\ (qval y == qval x)%Q.
Proof.
  intros x y Hd Hs. destruct (simplify_spec x Hd) as (y' & Hs' & Hneg & Hyd & Hg & Hcross & _).
  rewrite Hs in Hs'. injection Hs' as <-.
  split; [assumption|]. split.
  - destruct (rden x =? 1); [|assumption]. rewrite Hg. apply N.gcd_1_r.
  - rewrite (qval_signed y Hyd), (qval_signed x Hd). rewrite Hneg.
    assert (Hz : (rnum y =? 0) = (rnum x =? 0)).
    { destruct (rnum y =? 0) eqn:E1, (rnum x =? 0) eqn:E2; try reflexivity; exfalso.
      - apply N.eqb_eq in E1. apply N.eqb_neq in E2. rewrite E1 in Hcross. nia.
      - apply N.eqb_neq in E1. apply N.eqb_eq in E2. rewrite E2 in Hcross. nia. }
    rewrite Hz.
    assert (Hq : (qN (rnum y) / qN (rden y) == qN (rnum x) / qN (rden x))%Q)
      by (apply qN_frac_eq; assumption).
    unfold signedQ. destruct (rneg x && negb (rnum x =? 0)); rewrite Hq; reflexivity.
Qed.

Theorem bigrat_format_rt : forall fuel st base sep x s,
  base_prefix_ok base = true -> wfr x = true -> not_sf st = true ->
  bigrat_format fuel st base sep x = Ok (s, true) ->
  exists v, read_rendering sep base s = Some v /\ (v == qval x)%Q.
Proof.
  intros fuel st base sep x s Hbase Hw Hsf H.
  assert (Hd : rden x <> 0) by (unfold wfr in Hw; lia).
  pose proof (base_prefix_ok_range base Hbase) as Hb.
  unfold bigrat_format in H.
  destruct (simplify x) as [y| |] eqn:Es; cbn [bind] in H; try discriminate.
  destruct (simplify_value x y Hd Es) as (Hyd & Hyg & Hyv).
  assert (Hsfl : match st with SSf sf => Some sf | _ => None end = None) by (destruct st; try reflexivity; discriminate).
  destruct (rden y =? 1) eqn:E1.
  - rewrite Hsfl in H. apply N.eqb_eq in E1.
    apply (format_as_integer_rt base sep) in H; [|assumption].
    destruct H as (_ & v & Hr & Hv). exists v. split; [assumption|].
    rewrite Hv, <- Hyv, (qval_signed y Hyd), E1. change (qN 1) with 1%Q.
    unfold signedQ. destruct (rneg y && negb (rnum y =? 0)); field.
  - destruct (terminates_spec_lemma (base_val base) y) as (t & Ht & _); try lia.
    { unfold wfr. lia. } { unfold reduced. lia. }
    rewrite Ht in H.
    assert (Hfr : exists fr, (match st with
                  | SFraction | SMixed => Ok true
                  | SExact => do t0 <- Ok t; Ok (negb t0)
                  | _ => Ok false
                  end) = Ok fr) by (destruct st; eexists; reflexivity).
    destruct Hfr as (fr & Hfr). rewrite Hfr in H. cbn [bind] in H.
    destruct fr.
    + apply (format_as_fraction_rt y base sep) in H; try assumption.
      destruct H as (_ & v & Hr & Hv). exists v. split; [assumption|].
      rewrite Hv, <- Hyv, (qval_signed y Hyd). reflexivity.
    + apply (format_as_decimal_rt fuel y st base sep) in H; try assumption.
      destruct H as (v & Hr & Hv). exists v. split; [assumption|].
      rewrite Hv, <- Hyv, (qval_signed y Hyd). reflexivity.
Qed.

(* Value::format of an exact value, any style but `n sf` *)
Theorem fmt_value_roundtrip : forall fuel st base sep x s,
  base_prefix_ok base = true -> wfr x = true -> not_sf st = true ->
  fmt_value fuel true st base sep x = Ok (s, true) ->
  exists v, read_rendering sep base s = Some v /\ (v == qval x)%Q.
Proof.
  intros fuel st base sep x s Hbase Hw Hsf H. unfold fmt_value in H. cbn [negb andb] in H.
  destruct (bigrat_format fuel st base sep x) as [[s' ex]| |] eqn:E; cbn [bind fst snd] in H; try discriminate.
  injection H as <- ->. eapply bigrat_format_rt; eassumption.
Qed.

(* ------------------------------------------------------------------ *)
(* the recurring expansion denotes the fraction: statement in Q *)

Theorem expansion_value_lemma : forall fuel base num den sep neg ip ip_text sign text ex,
  2 <= base_val base <= 36 -> den <> 0 -> num < den ->
  format_trailing_digits fuel base num den AllDigits (Ok false) sep neg ip ip_text = Ok (sign, text, ex) ->
  exists P R : list N,
    text = ip_text ++ [decimal_char sep] ++ map dchar P ++ [40] ++ map dchar R ++ [41] /\
    R <> [] /\ Forall (fun d => d < base_val base) P /\ Forall (fun d => d < base_val base) R /\
    ex = true /\ sign = neg /\
    (qN num / qN den ==
     qN (digits_val (base_val base) P) / qN (base_val base ^ N.of_nat (length P)) +
     qN (digits_val (base_val base) R) /
       qN ((base_val base ^ N.of_nat (length R) - 1) * base_val base ^ N.of_nat (length P)))%Q.
Proof.
  intros fuel base num den sep neg ip ip_text sign text ex Hb Hd Hn H.
  apply ftd_recurring in H; try assumption.
  destruct H as (m & l & Hl & -> & -> & -> & Hcyc).
  set (b := base_val base) in *. assert (Hb0 : b <> 0) by lia.
  exists (iter_digits b den m num), (iter_digits b den l (iter_rem b den m num)).
  split; [reflexivity|]. split; [destruct l; [lia|discriminate]|].
  split; [apply iter_digits_lt; assumption|].
  split; [apply iter_digits_lt; try assumption; apply iter_rem_lt; assumption|].
  split; [reflexivity|]. split; [reflexivity|].
  rewrite !iter_digits_length.
  pose proof (cycle_identity b den m l num Hd Hb0 Hcyc) as Hid.
  assert (HZ : b ^ N.of_nat l - 1 <> 0) by (pose proof (pow_ge_2 b l (proj1 Hb) Hl); lia).
  pose proof (value_recurring 0 _ _ (b ^ N.of_nat m) (b ^ N.of_nat l - 1) num den Hd
                (N.pow_nonzero _ _ Hb0) HZ Hid) as Hv.
  rewrite N.mul_0_l, N.add_0_l in Hv. change (qN 0) with 0%Q in Hv. rewrite Qplus_0_l in Hv.
  symmetry. exact Hv.
Qed.

(* the pair (pre-period, period) found by Brent's algorithm is a genuine
   repetition of the remainder sequence *)
Theorem expansion_cycle_lemma : forall fuel base den x0 lam mu out,
  2 <= base_val base <= 36 -> x0 < den ->
  brents_algorithm fuel base den x0 = Ok (lam, mu, out) ->
  1 <= lam /\
  iter_rem (base_val base) den (N.to_nat lam) (iter_rem (base_val base) den (N.to_nat mu) x0)
  = iter_rem (base_val base) den (N.to_nat mu) x0 /\
  out = map dchar (iter_digits (base_val base) den (N.to_nat mu + N.to_nat lam) x0).
Proof.
  intros fuel base den x0 lam mu out Hb Hx H.
  apply brents_spec in H; try assumption.
  destruct H as (l & m & -> & -> & Hl & -> & Hc). rewrite !Nat2N.id. split; [lia|]. split; assumption || reflexivity.
Qed.
