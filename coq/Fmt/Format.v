(* Model of fend's number formatting (core/src/num/biguint.rs `impl Format for
   BigUint`, core/src/num/bigrat.rs `impl Format for BigRat` and the functions
   below it, base.rs, formatting_style.rs, and the thin layers
   Value::format / Complex::format / Real::format for a real, unitless,
   pi-free value).  Big integers are taken at value level ([N]); the digit
   loops, the u128 grouped divisor, the reversed buffer with its zero
   bookkeeping, Brent's cycle detection, the termination test and the
   fraction / decimal layouts are mirrored.  Text is a list of code points.
   Model file: executable definitions only. *)
From FendV Require Import Base.Prelude Fmt.Rat.
Open Scope N_scope.

(* ------------------------------------------------------------------ *)
(* base.rs *)

Inductive basek :=
| BBin | BOct | BHex          (* 0b 0o 0x *)
| BCustom (b : N)             (* written b#digits *)
| BPlain (b : N).             (* no prefix *)

Definition base_val (k : basek) : N :=
  match k with BBin => 2 | BOct => 8 | BHex => 16 | BCustom b => b | BPlain b => b end.

Definition has_prefix (k : basek) : bool :=
  match k with BPlain _ => false | _ => true end.

(* Base::digit_as_char *)
Definition digit_as_char (d : N) : option N :=
  if d <? 10 then Some (48 + d) else if d <? 36 then Some (87 + d) else None.

(* Rust's Display for an unsigned machine integer (used for the `Simple`
   integer path and for the custom-base prefix): plain decimal digits. *)
Fixpoint dec_digits_fuel (fuel : nat) (n : N) (acc : list N) : list N :=
  match fuel with
  | O => acc
  | S f => if n <? 10 then (48 + n) :: acc
           else dec_digits_fuel f (n / 10) ((48 + n mod 10) :: acc)
  end.
Definition dec_display (n : N) : list N :=
  dec_digits_fuel (S (N.to_nat (N.size n))) n [].

(* Base::write_prefix *)
Definition prefix_text (k : basek) : list N :=
  match k with
  | BBin => [48; 98] | BOct => [48; 111] | BHex => [48; 120]
  | BCustom b => dec_display b ++ [35]
  | BPlain _ => []
  end.

(* ------------------------------------------------------------------ *)
(* impl Format for BigUint *)

Definition U128MAX : N := 2 ^ 128 - 1.
Definition U64 : N := 2 ^ 64.

(* `while divisor < u128::MAX.checked_div(base) { divisor *= base; rounds += 1 }`
   fuel 128 is enough for base >= 2 (the divisor at least doubles) *)
Fixpoint group_loop (fuel : nat) (base lim divisor rounds : N) : N * N :=
  match fuel with
  | O => (divisor, rounds)
  | S f => if divisor <? lim
           then group_loop f base lim (divisor * base) (rounds + 1)
           else (divisor, rounds)
  end.
(* lim = u128::MAX.checked_div(base) (the same value in every iteration) *)
Definition group_params (b : N) : N * N := group_loop 128 b (U128MAX / b) b 1.

(* state of the digit loop.  [ib_out] is the output String with the most
   recently pushed char first, i.e. already in display order (Display
   iterates `s.chars().rev()`). *)
Record ibuf := mkib {
  ib_out : list N;
  ib_tz : N;        (* num_trailing_zeroes *)
  ib_lz : N;        (* num_leading_zeroes  *)
  ib_fin : bool     (* finished_counting_leading_zeroes *)
}.

Definition zeros (k : N) : list N := repeat 48 (N.to_nat k).

(* one pass of `for _ in 0..rounds` *)
Definition push_digit (digit_value : N) (st : ibuf) : res ibuf :=
  match digit_as_char digit_value with
  | None => Panic 889                         (* biguint.rs:889 unwrap *)
  | Some ch =>
    if ch =? 48 then Ok (mkib (ib_out st) (ib_tz st + 1) (ib_lz st) (ib_fin st))
    else Ok (mkib (ch :: zeros (ib_tz st) ++ ib_out st) 0
                  (if ib_fin st then ib_lz st else ib_lz st + ib_tz st) true)
  end.

Fixpoint group_digits (rounds : nat) (base group : N) (st : ibuf) : res ibuf :=
  match rounds with
  | O => Ok st
  | S r =>
    let '(g', d) := N.div_eucl group base in
    do st' <- push_digit d st;
    group_digits r base g' st'
  end.

(* `while !num.is_zero()`; fuel from the size of the number *)
Fixpoint int_loop (fuel : nat) (base divisor : N) (rounds : nat) (num : N) (st : ibuf)
  : res ibuf :=
  if num =? 0 then Ok st else
  match fuel with
  | O => Err EOutOfFuel
  | S f =>
    let '(q, r) := N.div_eucl num divisor in
    do st' <- group_digits rounds base r st;
    int_loop f base divisor rounds q st'
  end.

(* FormattedBigUintType *)
Inductive fbuty :=
| FZero
| FSimple (i : N)
| FComplex (s : list N) (sf_limit : option N).   (* s in display order *)

Record fbu := mkfbu { fbu_base : option basek; fbu_ty : fbuty }.

(* returns the formatted value and the exact flag *)
Definition format_biguint (base : basek) (write_base_prefix : bool) (sf_limit : option N)
  (n : N) : res (fbu * bool) :=
  let bp := if write_base_prefix then Some base else None in
  let b := base_val base in
  if n =? 0 then Ok (mkfbu bp FZero, true)
  else if (n <? U64) && (b =? 10) && (match sf_limit with None => true | Some _ => false end)
  then Ok (mkfbu bp (FSimple n), true)
  else if (b <? 2) || (36 <? b) then Err EOther   (* outside Base's invariant: not modelled *)
  else
    let '(divisor, rounds) := group_params b in
    do st <- int_loop (S (N.to_nat (N.size n))) b divisor (N.to_nat rounds) n (mkib [] 0 0 false);
    let len := N.of_nat (length (ib_out st)) in
    if len <? ib_lz st then Panic 908           (* usize underflow in output.len() - num_leading_zeroes *)
    else
      let exact := match sf_limit with None => true | Some sf => (len - ib_lz st) <=? sf end in
      Ok (mkfbu bp (FComplex (ib_out st) sf_limit), exact).

(* Display for FormattedBigUint *)
Fixpoint sf_mask (i : N) (sf : N) (s : list N) : list N :=
  match s with
  | [] => []
  | ch :: r => (if sf <=? i then 48 else ch) :: sf_mask (i + 1) sf r
  end.

Definition fbu_text (f : fbu) : list N :=
  (match fbu_base f with Some k => prefix_text k | None => [] end) ++
  match fbu_ty f with
  | FZero => [48]
  | FSimple i => dec_display i
  | FComplex s None => s
  | FComplex s (Some sf) => sf_mask 0 sf s
  end.

(* FormattedBigUint::num_digits *)
Definition fbu_num_digits (f : fbu) : N :=
  match fbu_ty f with
  | FZero => 1
  | FSimple i => if i <=? 9 then 1 else N.of_nat (length (dec_display i))
  | FComplex s _ => N.of_nat (length s)
  end.

(* ------------------------------------------------------------------ *)
(* formatting_style.rs, lib.rs DecimalSeparatorStyle *)

Inductive style :=
| SFraction | SMixed | SFloat | SExact | SDp (n : N) | SSf (n : N) | SAuto.

Definition style_eqb (a b : style) : bool :=
  match a, b with
  | SFraction, SFraction | SMixed, SMixed | SFloat, SFloat | SExact, SExact
  | SAuto, SAuto => true
  | SDp n, SDp m => n =? m
  | SSf n, SSf m => n =? m
  | _, _ => false
  end.

Inductive sepstyle := SepDot | SepComma.
Definition decimal_char (s : sepstyle) : N := match s with SepDot => 46 | SepComma => 44 end.
Definition thousands_char (s : sepstyle) : N := match s with SepDot => 44 | SepComma => 46 end.

(* ------------------------------------------------------------------ *)
(* BigRat::terminates_in_base: multiply by the base and simplify until the
   denominator stops changing.  The denominator at least halves in every
   round but the last, so size(den)+2 rounds suffice. *)

Fixpoint term_loop (fuel : nat) (b : N) (num den : N) : res bool :=
  match fuel with
  | O => Err EOutOfFuel
  | S f =>
    do x <- simplify (mkrat false (num * b) den);
    if rden x =? den then Ok (rden x =? 1)
    else term_loop f b (rnum x) (rden x)
  end.

Definition terminates_in_base (b : N) (x : rat) : res bool :=
  term_loop (N.to_nat (N.size (rden x)) + 2) b (rnum x) (rden x).

(* ------------------------------------------------------------------ *)
(* digits after the point *)

Inductive maxdigits := AllDigits | DecimalPlaces (n : N) | DpButIgnoreLeadingZeroes (n : N).

Definition md_is_dp (m : maxdigits) (i : N) : bool :=
  match m with DecimalPlaces n => n =? i | DpButIgnoreLeadingZeroes n => n =? i | AllDigits => false end.

Inductive ndres :=
| NDOk (next_num digit : N)
| NDTerm (round_up : bool)
| NDErr (e : err).

(* the closure `next_digit` of format_trailing_digits *)
Definition next_digit (md : maxdigits) (b den : N) (i : N) (num : N) : ndres :=
  if num =? 0 then NDTerm false
  else if md_is_dp md i then NDTerm (den <=? num * 2)
  else if den =? 0 then NDErr EDivByZero
  else
    let bnum := num * b in
    let digit := bnum / den in
    NDOk (bnum - digit * den) digit.

(* text of one digit: `digit.format(base, no prefix, no sf)` *)
Definition digit_text (base : basek) (digit : N) : res (list N) :=
  do f <- format_biguint base false None digit;
  Ok (fbu_text (fst f)).

(* print_integer_part closure: sign to print and the integer-part text *)
Definition print_integer_part (neg : bool) (ip : N) (ip_text : list N)
  (ignore_minus_if_zero : bool) : bool * list N :=
  (neg && (negb ignore_minus_if_zero || negb (ip =? 0)), ip_text).

(* format_nonrecurring; the buffer [td] (trailing_digits) is kept in push
   order here because it is only ever appended to and returned.  Returns
   (sign, text, exact). *)
Fixpoint nonrec_loop (fuel : nat) (md : maxdigits) (base : basek) (den : N)
  (sep : sepstyle) (neg : bool) (ip : N) (ip_text : list N) (ignore_lz : bool)
  (cur : N) (i : N) (tz : N) (actual_sign : option bool) (td : list N)
  : res (bool * list N * bool) :=
  match fuel with
  | O => Err EOutOfFuel
  | S f =>
    match next_digit md (base_val base) den i cur with
    | NDOk next_n digit =>
      if digit =? 0 then
        nonrec_loop f md base den sep neg ip ip_text ignore_lz next_n
          (if (i =? 0) && ignore_lz then i else i + 1) (tz + 1) actual_sign td
      else
        let '(asign, td1) :=
          match actual_sign with
          | Some s => (s, td)
          | None => let '(s, t) := print_integer_part neg ip ip_text false in
                    (s, td ++ t ++ [decimal_char sep])
          end in
        do dt <- digit_text base digit;
        nonrec_loop f md base den sep neg ip ip_text ignore_lz next_n (i + 1) 0
          (Some asign) (td1 ++ zeros tz ++ dt)
    | NDTerm _ =>
      let '(sign, td1) :=
        match actual_sign with
        | Some s => (s, td)
        | None => let '(s, t) := print_integer_part neg ip ip_text true in (s, td ++ t)
        end in
      Ok (sign, td1, cur =? 0)
    | NDErr e => Err e
    end
  end.

(* Brent's cycle detection on the remainder sequence (AllDigits mode, so the
   depth argument of next_digit is irrelevant and Terminated only arises for
   a zero remainder, which makes the Rust panic). *)
Definition nd_all (b den num : N) : res (N * N) :=
  match next_digit AllDigits b den 0 num with
  | NDOk n d => Ok (n, d)
  | NDTerm _ => Panic 783                      (* "decimal number terminated unexpectedly" *)
  | NDErr e => Err e
  end.

(* main phase: returns lam *)
Fixpoint brent_phase1 (fuel : nat) (b den : N) (power lam tortoise hare : N) : res N :=
  if tortoise =? hare then Ok lam else
  match fuel with
  | O => Err EOutOfFuel
  | S f =>
    let '(tortoise, power, lam) :=
      if power =? lam then (hare, power * 2, 0) else (tortoise, power, lam) in
    do nh <- nd_all b den hare;
    brent_phase1 f b den power (lam + 1) tortoise (fst nh)
  end.

(* `for _ in 0..lam`: advance the hare, collecting digit text *)
Fixpoint brent_phase2 (k : nat) (base : basek) (den : N) (hare : N) (out : list N)
  : res (N * list N) :=
  match k with
  | O => Ok (hare, out)
  | S k' =>
    do nh <- nd_all (base_val base) den hare;
    do dt <- digit_text base (snd nh);
    brent_phase2 k' base den (fst nh) (out ++ dt)
  end.

(* tortoise and hare at equal speed until they agree; returns (mu, output) *)
Fixpoint brent_phase3 (fuel : nat) (base : basek) (den : N) (tortoise hare : N)
  (mu : N) (out : list N) : res (N * list N) :=
  if tortoise =? hare then Ok (mu, out) else
  match fuel with
  | O => Err EOutOfFuel
  | S f =>
    do nt <- nd_all (base_val base) den tortoise;
    do nh <- nd_all (base_val base) den hare;
    do dt <- digit_text base (snd nh);
    brent_phase3 f base den (fst nt) (fst nh) (mu + 1) (out ++ dt)
  end.

(* (lam, mu, collected digits) *)
Definition brents_algorithm (fuel : nat) (base : basek) (den x0 : N) : res (N * N * list N) :=
  let b := base_val base in
  do h0 <- nd_all b den x0;
  do lam <- brent_phase1 fuel b den 1 1 x0 (fst h0);
  do p2 <- brent_phase2 (N.to_nat lam) base den x0 [];
  do p3 <- brent_phase3 fuel base den x0 (fst p2) 0 (snd p2);
  Ok (lam, fst p3, snd p3).

(* format_trailing_digits: (sign, text, exact) *)
Definition format_trailing_digits (fuel : nat) (base : basek) (num den : N) (md : maxdigits)
  (terminating : res bool) (sep : sepstyle) (neg : bool) (ip : N) (ip_text : list N)
  : res (bool * list N * bool) :=
  do skip <- match md with
             | AllDigits => terminating
             | _ => Ok true
             end;
  if skip then
    let ignore_lz := match md with DpButIgnoreLeadingZeroes _ => true | _ => false end in
    let nfuel := (match md with AllDigits => 0 | DecimalPlaces n => N.to_nat n
                           | DpButIgnoreLeadingZeroes n => N.to_nat n end
                  + 2 * N.to_nat (N.size den) + 4)%nat in
    nonrec_loop nfuel md base den sep neg ip ip_text ignore_lz num 0 0 None []
  else
    do r <- brents_algorithm fuel base den num;
    let '(lam, mu, output) := r in
    let n_ab := N.to_nat (mu + lam) in
    if (length output <? n_ab)%nat then Panic 770      (* split_at out of range *)
    else
      let ab := firstn n_ab output in
      let a := firstn (N.to_nat mu) ab in
      let b := skipn (N.to_nat mu) ab in
      let '(sign, t) := print_integer_part neg ip ip_text false in
      Ok (sign, t ++ [decimal_char sep] ++ a ++ [40] ++ b ++ [41], true).

(* ------------------------------------------------------------------ *)
(* BigRat formatting with term = "" and use_parens = false (a real,
   pi-free component of a unitless value).  Result: text and exact flag. *)

Definition sign_text (neg : bool) : list N := if neg then [45] else [].

Definition format_as_integer (num : N) (base : basek) (neg : bool) (sf_limit : option N)
  : res (list N * bool) :=
  do f <- format_biguint base true sf_limit num;
  Ok (sign_text neg ++ fbu_text (fst f), snd f).

Definition format_as_fraction (x : rat) (base : basek) (neg : bool) (mixed : bool)
  : res (list N * bool) :=
  do fden <- format_biguint base true None (rden x);
  do pn <- (if mixed then
              if rden x =? 0 then Err EDivByZero else
              let prefix := rnum x / rden x in
              let num := rnum x mod rden x in
              if prefix =? 0 then Ok (None, num, true)
              else do fp <- format_biguint base true None prefix;
                   Ok (Some (fst fp), num, snd fp)
            else Ok (None, rnum x, true));
  let '(pref, num, prefix_exact) := pn in
  do fnum <- format_biguint base true None num;
  Ok (sign_text neg ++
      (match pref with Some p => fbu_text p ++ [32] | None => [] end) ++
      fbu_text (fst fnum) ++ [47] ++ fbu_text (fst fden),
      snd fden && prefix_exact && snd fnum).

Definition format_as_decimal (fuel : nat) (x : rat) (st : style) (base : basek) (neg : bool)
  (terminating : res bool) (sep : sepstyle) : res (list N * bool) :=
  if rden x =? 0 then Err EDivByZero else
  let integer_part := rnum x / rden x in
  let sf_limit := match st with SSf sf => Some sf | _ => None end in
  do fip <- format_biguint base true sf_limit integer_part;
  do md <- match st with
           | SFloat | SExact => Ok AllDigits
           | SAuto => do t <- terminating; Ok (if t then AllDigits else DecimalPlaces 10)
           | SDp n => Ok (DecimalPlaces n)
           | SSf sf =>
             let nd := fbu_num_digits (fst fip) in
             let dp := sf - nd in                    (* saturating_sub *)
             Ok (if integer_part =? 0 then DpButIgnoreLeadingZeroes (dp + 1)
                 else DecimalPlaces dp)
           | _ => Ok (DecimalPlaces 10)
           end;
  (* remaining_fraction = self - integer_part: same denominator *)
  let rem_num := rnum x - integer_part * rden x in
  do r <- format_trailing_digits fuel base rem_num (rden x) md terminating sep neg
            integer_part (fbu_text (fst fip));
  let '(sign, text, ex) := r in
  Ok (sign_text sign ++ text, snd fip && ex).

Definition bigrat_format (fuel : nat) (st : style) (base : basek) (sep : sepstyle) (x0 : rat)
  : res (list N * bool) :=
  do x <- simplify x0;
  let neg := rneg x && negb (rnum x =? 0) in
  if rden x =? 1 then
    format_as_integer (rnum x) base neg (match st with SSf sf => Some sf | _ => None end)
  else
    let terminating := terminates_in_base (base_val base) x in
    do fraction <- match st with
                   | SFraction | SMixed => Ok true
                   | SExact => do t <- terminating; Ok (negb t)
                   | _ => Ok false
                   end;
    if fraction then
      format_as_fraction x base neg (match st with SMixed | SExact => true | _ => false end)
    else format_as_decimal fuel x st base neg terminating sep.

(* Value::format for a unitless real rational: an inexact value in Auto style
   is shown to 10 dp; the displayed flag is the conjunction. *)
Definition fmt_value (fuel : nat) (vexact : bool) (st : style) (base : basek) (sep : sepstyle)
  (x : rat) : res (list N * bool) :=
  let st' := if negb vexact && style_eqb st SAuto then SDp 10 else st in
  do r <- bigrat_format fuel st' base sep x;
  Ok (fst r, vexact && snd r).

(* Display for FormattedValue *)
Definition approx_prefix : list N := [97; 112; 112; 114; 111; 120; 46; 32].
Definition shown_text (r : list N * bool) : list N :=
  if snd r then fst r else approx_prefix ++ fst r.
