(* Model of the Real layer of fend's exactness tracking (core/src/num/real.rs
   `Pattern::{Simple, Pi}`, `impl Exact<Real>` add / mul / div, `Real::pow`
   with a natural exponent, `Real::floor|ceil|round`) under the Value layer
   (core/src/num/unit.rs add / sub / mul / div / neg / pow / floor …, flags
   combined as there; Value::add as repaired by fend 198ba44), for unitless
   real values.  `Real::approximate` replaces pi by a fixed rational; that
   rational is a parameter [piq] here (the check passes fend's own value).
   Also here: the symbolic reference [sval] -- arithmetic in Q + Q.pi with pi
   transcendental, partial (None when the value leaves that space or is not
   derived symbolically).
   Model file: executable definitions only. *)
From FendV Require Import Base.Prelude Fmt.Flag.
From Coq Require Import QArith Qround.
Open Scope N_scope.

Inductive rpat := RSimple (q : Q) | RPi (q : Q).       (* q  |  q * pi *)

Definition rcoef (p : rpat) : Q := match p with RSimple q => q | RPi q => q end.
Definition rzero (p : rpat) : bool := qzero (rcoef p).           (* Real::is_zero *)
Definition rpneg (p : rpat) : rpat := match p with RSimple q => RSimple (- q) | RPi q => RPi (- q) end.

Inductive rexpr :=
| RLit (q : Q)
| RPiC                         (* the constant pi *)
| RApx (e : rexpr)             (* approx. e *)
| RNeg (e : rexpr)
| RAdd (a b : rexpr) | RSub (a b : rexpr) | RMul (a b : rexpr) | RDiv (a b : rexpr)
| RPow (e : rexpr) (n : N)     (* e ^ n, n a natural literal *)
| RPowE (a b : rexpr)          (* a ^ b, b any expression whose value is a natural number *)
| RFloor (e : rexpr) | RCeil (e : rexpr) | RRound (e : rexpr).

Definition qpow (q : Q) (n : N) : Q := Qpower q (Z.of_N n).

(* the natural number a rational is, if any *)
Definition q_nat (q : Q) : option N :=
  let r := Qred q in
  if (Qden r =? 1)%positive && (0 <=? Qnum r)%Z then Some (Z.to_N (Qnum r)) else None.

(* f64-style round: halves away from zero *)
Definition qround (q : Q) : Z :=
  if Qle_bool 0 q then Qfloor (q + (1 # 2)) else (- Qfloor (- q + (1 # 2)))%Z.

Section WithPi.
  Variable piq : Q.            (* the rational Real::approximate uses for pi *)

  Definition rapprox (p : rpat) : Q := match p with RSimple q => q | RPi q => (q * piq)%Q end.

  Definition er := (rpat * bool)%type.     (* Exact<Real> *)

  (* impl Exact<Real>::add *)
  Definition er_add (a b : er) : er :=
    if snd a && rzero (fst a) then b
    else if snd b && rzero (fst b) then a
    else
      let ex := snd a && snd b in
      match fst a, fst b with
      | RSimple x, RSimple y => (RSimple (x + y), ex)
      | RPi x, RPi y => (RPi (x + y), ex)
      | _, _ => (RSimple (rapprox (fst a) + rapprox (fst b)), false)
      end.

  (* impl Exact<Real>::mul *)
  Definition er_mul (a b : er) : er :=
    if snd a && rzero (fst a) then a
    else if snd b && rzero (fst b) then b
    else
      let ex := snd a && snd b in
      match fst a, fst b with
      | RSimple x, RSimple y => (RSimple (x * y), ex)
      | RSimple x, RPi y => (RPi (x * y), ex)
      | RPi x, RSimple y => (RPi (x * y), ex)
      | RPi x, RPi _ => (RPi (x * rapprox (fst b)), false)
      end.

  (* impl Exact<Complex>::mul on two real values: (ac - bd) with b = d = 0; the
     subtraction of the (zero) product of the imaginary parts turns an exact
     zero product into Simple(0) whatever its pattern was *)
  Definition c_mul (a b : er) : er :=
    let prod1 := er_mul a b in
    let prod2 := er_mul (RSimple 0, snd a) (RSimple 0, snd b) in
    er_add prod1 (rpneg (fst prod2), snd prod2).

  (* impl Exact<Real>::div *)
  Definition er_div (a b : er) : res er :=
    if rzero (fst b) then Err EDivByZero
    else if snd a && rzero (fst a) then Ok a
    else
      let ex := snd a && snd b in
      Ok (match fst a, fst b with
          | RSimple x, RSimple y => (RSimple (x / y), ex)
          | RSimple x, RPi _ => (RSimple (x / rapprox (fst b)), false)
          | RPi x, RSimple y => (RPi (x / y), ex)
          | RPi x, RPi y => (RSimple (x / y), ex)
          end).

  (* Real::pow with a natural exponent (the flag returned is the function's
     own; the operand flag is combined at the Value layer) *)
  Definition real_pow (p : rpat) (n : N) : res er :=
    if n =? 1 then Ok (p, true)
    else if (n =? 0) && negb (rzero p) then Ok (RSimple 1, true)
    else match p with
         | RSimple x =>
           if Qeq_bool x 1 then Ok (RSimple 1, true)
           else if (n =? 0) then Err EZeroPowZero          (* x = 0 here *)
           else Ok (RSimple (qpow x n), true)
         | RPi _ =>
           if (n =? 0) then Err EZeroPowZero               (* pi-multiple equal to zero *)
           else Ok (RSimple (qpow (rapprox p) n), false)
         end.

  (* Value layer: flags combined as in unit.rs *)
  Definition v_add (a b : er) : er :=
    if rzero (fst b) then (fst a, snd a && snd b)
    else let r := er_add a b in (fst r, snd a && snd b && snd r).

  (* Complex::floor|ceil|round as repaired by fend 05b3863: the rounded value is
     exact only for a rational argument (a zero multiple of pi included);
     before that commit it was `Exact::new(.., true)` ([old] = true) *)
  Definition exact_arg (p : rpat) : bool := match p with RSimple _ => true | RPi q => qzero q end.

  Definition v_intfn (old : bool) (f : Q -> Z) (a : er) : er :=
    (RSimple (inject_Z (f (rapprox (fst a)))), snd a && (old || exact_arg (fst a))).

  Fixpoint rfeval_gen (old : bool) (e : rexpr) : res er :=
    match e with
    | RLit q => Ok (RSimple q, true)
    | RPiC => Ok (RPi 1, true)
    | RApx e => do v <- rfeval_gen old e; Ok (fst v, false)
    | RNeg e => do v <- rfeval_gen old e; Ok (rpneg (fst v), snd v)
    | RAdd a b => do x <- rfeval_gen old a; do y <- rfeval_gen old b; Ok (v_add x y)
    | RSub a b => do x <- rfeval_gen old a; do y <- rfeval_gen old b; Ok (v_add x (rpneg (fst y), snd y))
    | RMul a b => do x <- rfeval_gen old a; do y <- rfeval_gen old b;
                  let r := c_mul x y in Ok (fst r, snd x && snd y && snd r)
    | RDiv a b => do x <- rfeval_gen old a; do y <- rfeval_gen old b;
                  do r <- er_div x y; Ok (fst r, snd r && snd x && snd y)
    | RPow e n => do x <- rfeval_gen old e; do r <- real_pow (fst x) n; Ok (fst r, snd x && snd r)
    | RPowE a b =>
      (* Value::pow: exact = self.exact && rhs.exact && value.exact; Real::pow looks only
         at the VALUE of an integer exponent *)
      do x <- rfeval_gen old a; do y <- rfeval_gen old b;
      match fst y with
      | RSimple q =>
        match q_nat q with
        | Some n => do r <- real_pow (fst x) n; Ok (fst r, snd x && snd y && snd r)
        | None => Err EOther          (* negative / fractional exponent: Fmt/Root.v *)
        end
      | RPi _ => Err EOther
      end
    | RFloor e => do x <- rfeval_gen old e; Ok (v_intfn old Qfloor x)
    | RCeil e => do x <- rfeval_gen old e; Ok (v_intfn old Qceiling x)
    | RRound e => do x <- rfeval_gen old e; Ok (v_intfn old qround x)
    end.

  Definition rfeval : rexpr -> res er := rfeval_gen false.       (* today's code *)
  Definition rfeval_old : rexpr -> res er := rfeval_gen true.    (* before 05b3863 *)

  (* classifier of the defect repaired by 05b3863 (documentation / regression):
     an integer-valued function applied to a non-zero multiple of pi *)
  Definition pi_multiple (e : rexpr) : bool :=
    match rfeval_old e with Ok (p, _) => negb (exact_arg p) | _ => false end.

  Fixpoint known_C03_intfn_of_pi (e : rexpr) : bool :=
    match e with
    | RLit _ | RPiC => false
    | RApx e | RNeg e | RPow e _ => known_C03_intfn_of_pi e
    | RAdd a b | RSub a b | RMul a b | RDiv a b | RPowE a b => known_C03_intfn_of_pi a || known_C03_intfn_of_pi b
    | RFloor e | RCeil e | RRound e => pi_multiple e || known_C03_intfn_of_pi e
    end.
End WithPi.

(* ------------------------------------------------------------------ *)
(* symbolic reference: a + b*pi, pi transcendental *)

Definition sv := (Q * Q)%type.
Definition sym (p : rpat) : sv := match p with RSimple q => (q, 0%Q) | RPi q => (0%Q, q) end.
Definition sv_eq (x y : sv) : Prop := (fst x == fst y)%Q /\ (snd x == snd y)%Q.

Definition sv_mul (x y : sv) : option sv :=
  if qzero (snd x) then Some (fst x * fst y, fst x * snd y)%Q
  else if qzero (snd y) then Some (fst x * fst y, snd x * fst y)%Q
  else None.                                   (* a pi^2 term *)

Definition sv_div (x y : sv) : option sv :=
  if qzero (snd y) then
    if qzero (fst y) then None else Some (fst x / fst y, snd x / fst y)%Q
  else if qzero (fst x * snd y - fst y * snd x) then Some (snd x / snd y, 0)%Q   (* proportional *)
  else None.                                   (* a 1/pi term *)

Definition sv_pow (x : sv) (n : N) : option sv :=
  if n =? 1 then Some x
  else if n =? 0 then (if qzero (fst x) && qzero (snd x) then None else Some (1, 0)%Q)
  else if qzero (snd x) then Some (qpow (fst x) n, 0%Q)
  else None.

Definition sv_intfn (f : Q -> Z) (x : sv) : option sv :=
  if qzero (snd x) then Some (inject_Z (f (fst x)), 0%Q) else None.

Definition obind {A C} (o : option A) (f : A -> option C) : option C :=
  match o with Some a => f a | None => None end.

Fixpoint sval (e : rexpr) : option sv :=
  match e with
  | RLit q => Some (q, 0%Q)
  | RPiC => Some (0%Q, 1%Q)
  | RApx e => sval e
  | RNeg e => obind (sval e) (fun x => Some (- fst x, - snd x)%Q)
  | RAdd a b => obind (sval a) (fun x => obind (sval b) (fun y => Some (fst x + fst y, snd x + snd y)%Q))
  | RSub a b => obind (sval a) (fun x => obind (sval b) (fun y => Some (fst x - fst y, snd x - snd y)%Q))
  | RMul a b => obind (sval a) (fun x => obind (sval b) (fun y => sv_mul x y))
  | RDiv a b => obind (sval a) (fun x => obind (sval b) (fun y => sv_div x y))
  | RPow e n => obind (sval e) (fun x => sv_pow x n)
  | RPowE a b => obind (sval a) (fun x => obind (sval b) (fun y =>
                   if qzero (snd y) then match q_nat (fst y) with Some n => sv_pow x n | None => None end
                   else None))
  | RFloor e => obind (sval e) (sv_intfn Qfloor)
  | RCeil e => obind (sval e) (sv_intfn Qceiling)
  | RRound e => obind (sval e) (sv_intfn qround)
  end.
