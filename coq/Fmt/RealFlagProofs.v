(* Soundness of the exact flag at the Real layer (Fmt/RealFlag.v): a result
   flagged exact is exactly the symbolic value of the expression in
   Q + Q.pi -- outside the class "integer-valued function of a non-zero
   multiple of pi", where the statement is refuted. *)
From FendV Require Import Base.Prelude Fmt.Flag Fmt.FlagProofs Fmt.RealFlag.
From Coq Require Import QArith Qround Qpower Lia Setoid Morphisms.
Open Scope N_scope.

Lemma qzero_proper : forall a b, (a == b)%Q -> qzero a = qzero b.
Proof.
  intros a b H. destruct (qzero a) eqn:Ea, (qzero b) eqn:Eb; try reflexivity.
  - apply qzero_iff in Ea. rewrite H in Ea. apply qzero_iff in Ea. congruence.
  - apply qzero_iff in Eb. rewrite <- H in Eb. apply qzero_iff in Eb. congruence.
Qed.

Lemma qzero_true : forall a, (a == 0)%Q -> qzero a = true.
Proof. intros. apply qzero_iff. assumption. Qed.

Lemma qzero_false : forall a, qzero a = false -> ~ (a == 0)%Q.
Proof. intros a H E. apply qzero_iff in E. congruence. Qed.

#[global] Instance qround_proper : Proper (Qeq ==> eq) qround.
Proof.
  intros a b H. unfold qround.
  assert (Hl : Qle_bool 0 a = Qle_bool 0 b) by (rewrite H; reflexivity).
  rewrite Hl. destruct (Qle_bool 0 b); rewrite H; reflexivity.
Qed.

Lemma q_nat_proper : forall a b, (a == b)%Q -> q_nat a = q_nat b.
Proof. intros a b H. unfold q_nat. rewrite (Qred_complete _ _ H). reflexivity. Qed.

Definition zero_sv (s : sv) : Prop := (fst s == 0)%Q /\ (snd s == 0)%Q.

Lemma rzero_sym : forall p s, rzero p = true -> sv_eq (sym p) s -> zero_sv s.
Proof.
  intros [q|q] s Hz [H1 H2]; unfold rzero in Hz; cbn [rcoef sym fst snd] in *;
    apply qzero_iff in Hz; split; rewrite <- ?H1, <- ?H2; try assumption; reflexivity.
Qed.

Lemma rnonzero_sym : forall p s, rzero p = false -> sv_eq (sym p) s ->
  qzero (fst s) && qzero (snd s) = false.
Proof.
  intros [q|q] s Hz [H1 H2]; unfold rzero in Hz; cbn [rcoef sym fst snd] in *.
  - rewrite <- (qzero_proper _ _ H1), Hz. reflexivity.
  - rewrite <- (qzero_proper _ _ H2), Hz. apply Bool.andb_false_r.
Qed.

(* an exactly-flagged operand agrees with the symbolic value *)
Definition good (x : er) (o : option sv) : Prop :=
  snd x = true -> exists s, o = Some s /\ sv_eq (sym (fst x)) s.

Section Sound.
  Variable piq : Q.

  Lemma good_add : forall x y sx sy,
    sv_eq (sym (fst x)) sx -> sv_eq (sym (fst y)) sy -> snd x = true -> snd y = true ->
    snd (v_add piq x y) = true ->
    sv_eq (sym (fst (v_add piq x y))) (fst sx + fst sy, snd sx + snd sy)%Q.
  Proof.
    intros [px fx] [py fy] sx sy Hx Hy Hfx Hfy Hr. cbn [fst snd] in *. subst fx fy.
    unfold v_add in *. cbn [fst snd] in *.
    destruct (rzero py) eqn:Zy.
    - destruct (rzero_sym _ _ Zy Hy) as [Z1 Z2]. destruct Hx as [H1 H2]. cbn [fst snd].
      split; cbn [fst snd]; rewrite ?Z1, ?Z2, ?H1, ?H2; ring.
    - unfold er_add in *. cbn [fst snd andb] in *.
      destruct (rzero px) eqn:Zx.
      + destruct (rzero_sym _ _ Zx Hx) as [Z1 Z2]. destruct Hy as [H1 H2]. cbn [fst snd].
        split; cbn [fst snd]; rewrite ?Z1, ?Z2, ?H1, ?H2; ring.
      + rewrite Zy in *. cbn [andb] in *.
        destruct px as [a|a], py as [c|c]; cbn [fst snd sym andb] in *; try discriminate;
          destruct Hx as [H1 H2], Hy as [H3 H4]; cbn [fst snd] in *; split; cbn [fst snd];
          rewrite <- ?H1, <- ?H2, <- ?H3, <- ?H4; ring.
  Qed.

  Lemma good_mul : forall x y sx sy,
    sv_eq (sym (fst x)) sx -> sv_eq (sym (fst y)) sy -> snd x = true -> snd y = true ->
    snd (er_mul piq x y) = true ->
    exists s, sv_mul sx sy = Some s /\ sv_eq (sym (fst (er_mul piq x y))) s.
  Proof.
    intros [px fx] [py fy] sx sy Hx Hy Hfx Hfy Hr. cbn [fst snd] in *. subst fx fy.
    unfold er_mul in *. cbn [fst snd andb] in *. unfold sv_mul.
    destruct (rzero px) eqn:Zx.
    - destruct (rzero_sym _ _ Zx Hx) as [Z1 Z2]. rewrite (qzero_true _ Z2).
      eexists. split; [reflexivity|]. cbn [fst snd].
      destruct Hx as [H1 H2]. split; cbn [fst snd]; rewrite ?H1, ?H2, ?Z1, ?Z2; ring.
    - destruct (rzero py) eqn:Zy.
      + destruct (rzero_sym _ _ Zy Hy) as [Z1 Z2]. cbn [fst snd].
        destruct Hy as [H3 H4].
        destruct (qzero (snd sx)); [|rewrite (qzero_true _ Z2)]; eexists; (split; [reflexivity|]);
          split; cbn [fst snd]; rewrite ?H3, ?H4, ?Z1, ?Z2; ring.
      + destruct px as [a|a], py as [c|c]; cbn [fst snd sym andb] in *; try discriminate;
          destruct Hx as [H1 H2], Hy as [H3 H4]; cbn [fst snd] in *; unfold rzero in Zx, Zy; cbn [rcoef] in Zx, Zy.
        * rewrite (qzero_true (snd sx)) by (rewrite <- H2; reflexivity).
          eexists. split; [reflexivity|]. split; cbn [fst snd]; rewrite <- ?H1, <- ?H2, <- ?H3, <- ?H4; ring.
        * rewrite (qzero_true (snd sx)) by (rewrite <- H2; reflexivity).
          eexists. split; [reflexivity|]. split; cbn [fst snd]; rewrite <- ?H1, <- ?H2, <- ?H3, <- ?H4; ring.
        * rewrite <- (qzero_proper _ _ H2), Zx. rewrite (qzero_true (snd sy)) by (rewrite <- H4; reflexivity).
          eexists. split; [reflexivity|]. split; cbn [fst snd]; rewrite <- ?H1, <- ?H2, <- ?H3, <- ?H4; ring.
  Qed.

  Lemma good_cmul : forall x y sx sy,
    sv_eq (sym (fst x)) sx -> sv_eq (sym (fst y)) sy -> snd x = true -> snd y = true ->
    snd (c_mul piq x y) = true ->
    exists s, sv_mul sx sy = Some s /\ sv_eq (sym (fst (c_mul piq x y))) s.
  Proof.
    intros [px fx] [py fy] sx sy Hx Hy Hfx Hfy Hr. cbn [fst snd] in *. subst fx fy.
    unfold c_mul in *. cbn [fst snd] in *.
    assert (Hp2 : er_mul piq (RSimple 0, true) (RSimple 0, true) = (RSimple 0, true)) by reflexivity.
    rewrite Hp2 in *. cbn [fst snd rpneg] in *.
    remember (er_mul piq (px, true) (py, true)) as prod1 eqn:Ep.
    unfold er_add in *. cbn [fst snd] in *.
    destruct (snd prod1 && rzero (fst prod1)) eqn:Ez.
    - (* an exact zero product is normalised to Simple 0 *)
      apply Bool.andb_true_iff in Ez as [Ef Ezz].
      destruct (good_mul (px, true) (py, true) sx sy Hx Hy eq_refl eq_refl) as (s & Hs & Hse).
      { rewrite <- Ep. assumption. }
      rewrite <- Ep in Hse. exists s. split; [assumption|].
      destruct (rzero_sym _ _ Ezz Hse) as [Z1 Z2]. cbn [sym fst snd]. split; cbn [fst snd]; rewrite ?Z1, ?Z2; reflexivity.
    - replace (true && rzero (RSimple (- 0))) with true in * by reflexivity.
      destruct (good_mul (px, true) (py, true) sx sy Hx Hy eq_refl eq_refl) as (s & Hs & Hse).
      { rewrite <- Ep. assumption. }
      rewrite <- Ep in Hse. exists s. split; assumption.
  Qed.

  Lemma good_div : forall x y r sx sy,
    sv_eq (sym (fst x)) sx -> sv_eq (sym (fst y)) sy -> snd x = true -> snd y = true ->
    er_div piq x y = Ok r -> snd r = true ->
    exists s, sv_div sx sy = Some s /\ sv_eq (sym (fst r)) s.
  Proof.
    intros [px fx] [py fy] r sx sy Hx Hy Hfx Hfy Hd Hr. cbn [fst snd] in *. subst fx fy.
    unfold er_div in Hd. cbn [fst snd andb] in Hd. unfold sv_div.
    destruct (rzero py) eqn:Zy; [discriminate|].
    destruct (rzero px) eqn:Zx.
    - injection Hd as <-. cbn [fst snd] in *.
      destruct (rzero_sym _ _ Zx Hx) as [Z1 Z2]. destruct Hx as [H1 H2].
      destruct py as [c|c]; destruct Hy as [H3 H4]; cbn [sym fst snd] in *; unfold rzero in Zy; cbn [rcoef] in Zy.
      + rewrite (qzero_true (snd sy)) by (rewrite <- H4; reflexivity).
        rewrite <- (qzero_proper _ _ H3), Zy.
        eexists. split; [reflexivity|]. split; cbn [fst snd]; rewrite ?H1, ?H2, ?Z1, ?Z2; unfold Qdiv; ring.
      + rewrite <- (qzero_proper _ _ H4), Zy.
        rewrite (qzero_true (fst sx * snd sy - fst sy * snd sx)) by (rewrite Z1, Z2; ring).
        eexists. split; [reflexivity|]. split; cbn [fst snd]; rewrite ?H1, ?H2, ?Z1, ?Z2; unfold Qdiv; ring.
    - injection Hd as <-.
      destruct px as [a|a], py as [c|c]; cbn [fst snd sym andb] in *; try discriminate;
        destruct Hx as [H1 H2], Hy as [H3 H4]; cbn [fst snd] in *; unfold rzero in Zx, Zy; cbn [rcoef] in Zx, Zy.
      + rewrite (qzero_true (snd sy)) by (rewrite <- H4; reflexivity).
        rewrite <- (qzero_proper _ _ H3), Zy.
        eexists. split; [reflexivity|]. split; cbn [fst snd]; rewrite <- ?H1, <- ?H2, <- ?H3, <- ?H4; unfold Qdiv; ring.
      + rewrite (qzero_true (snd sy)) by (rewrite <- H4; reflexivity).
        rewrite <- (qzero_proper _ _ H3), Zy.
        eexists. split; [reflexivity|]. split; cbn [fst snd]; rewrite <- ?H1, <- ?H2, <- ?H3, <- ?H4; unfold Qdiv; ring.
      + rewrite <- (qzero_proper _ _ H4), Zy.
        rewrite (qzero_true (fst sx * snd sy - fst sy * snd sx)) by (rewrite <- H1, <- H3; ring).
        eexists. split; [reflexivity|]. split; cbn [fst snd]; rewrite <- ?H1, <- ?H2, <- ?H3, <- ?H4; reflexivity.
  Qed.

  Lemma good_pow : forall p n r s,
    sv_eq (sym p) s -> real_pow piq p n = Ok r -> snd r = true ->
    exists s', sv_pow s n = Some s' /\ sv_eq (sym (fst r)) s'.
  Proof.
    intros p n r s Hs Hp Hr. unfold real_pow in Hp. unfold sv_pow.
    destruct (n =? 1) eqn:E1.
    - injection Hp as <-. exists s. split; [reflexivity|assumption].
    - destruct ((n =? 0) && negb (rzero p)) eqn:E0.
      + injection Hp as <-. apply Bool.andb_true_iff in E0 as [E0 Hz]. rewrite E0.
        apply Bool.negb_true_iff in Hz. rewrite (rnonzero_sym _ _ Hz Hs).
        eexists. split; [reflexivity|]. split; reflexivity.
      + destruct p as [x|x].
        * destruct Hs as [H1 H2]. cbn [sym fst snd] in *.
          destruct (Qeq_bool x 1) eqn:Ex.
          -- injection Hp as <-. apply Qeq_bool_iff in Ex.
             destruct (n =? 0) eqn:En.
             ++ (* n = 0 and x = 1: the x^0 rule fired already, impossible here *)
                cbn [andb] in E0. apply Bool.negb_false_iff in E0. unfold rzero in E0. cbn [rcoef] in E0.
                apply qzero_iff in E0. rewrite Ex in E0. discriminate.
             ++ rewrite (qzero_true (snd s)) by (rewrite <- H2; reflexivity).
                eexists. split; [reflexivity|]. split; cbn [sym fst snd]; [|reflexivity].
                unfold qpow. rewrite <- H1, Ex. symmetry. apply Qpower_1.
          -- destruct (n =? 0); [discriminate|]. injection Hp as <-.
             rewrite (qzero_true (snd s)) by (rewrite <- H2; reflexivity).
             eexists. split; [reflexivity|]. split; cbn [sym fst snd]; [|reflexivity].
             unfold qpow. rewrite H1. reflexivity.
        * destruct (n =? 0); [discriminate|]. injection Hp as <-. cbn [snd] in Hr. discriminate.
  Qed.

  Lemma good_intfn : forall (f : Q -> Z) p s, Proper (Qeq ==> eq) f ->
    sv_eq (sym p) s -> exact_arg p = true ->
    exists s', sv_intfn f s = Some s' /\
               sv_eq (sym (RSimple (inject_Z (f (rapprox piq p))))) s'.
  Proof.
    intros f p s Hf [H1 H2] Hp. unfold sv_intfn. destruct p as [q|q]; cbn [sym fst snd rapprox exact_arg] in *.
    - rewrite (qzero_true (snd s)) by (rewrite <- H2; reflexivity).
      eexists. split; [reflexivity|]. split; cbn [fst snd]; [|reflexivity]. rewrite H1. reflexivity.
    - apply qzero_iff in Hp.
      rewrite (qzero_true (snd s)) by (rewrite <- H2; assumption).
      eexists. split; [reflexivity|]. split; cbn [fst snd]; [|reflexivity].
      assert (Hq : (q * piq == fst s)%Q) by (rewrite <- H1, Hp; ring). rewrite Hq. reflexivity.
  Qed.

  Lemma pi_multiple_false : forall e p fl, pi_multiple piq e = false -> rfeval_gen piq true e = Ok (p, fl) ->
    exact_arg p = true.
  Proof.
    intros e p fl H E. unfold pi_multiple, rfeval_old in H. rewrite E in H.
    apply Bool.negb_false_iff in H. assumption.
  Qed.

  (* one proof for both rules: with the old rule the classifier must be false *)
  Lemma real_flag_sound_gen : forall old e p,
    (old = true -> known_C03_intfn_of_pi piq e = false) -> rfeval_gen piq old e = Ok (p, true) ->
    exists s, sval e = Some s /\ sv_eq (sym p) s.
  Proof.
    intros old.
    induction e as [q| |e IH|e IH|a IHa b IHb|a IHa b IHb|a IHa b IHb|a IHa b IHb|e IH n|a IHa b IHb|e IH|e IH|e IH];
      intros p Hk H; cbn [rfeval_gen sval known_C03_intfn_of_pi] in *.
    - injection H as <-. eexists. split; [reflexivity|]. split; reflexivity.
    - injection H as <-. eexists. split; [reflexivity|]. split; reflexivity.
    - destruct (rfeval_gen piq old e) as [[v f]| |]; cbn [bind] in H; discriminate.
    - destruct (rfeval_gen piq old e) as [[v f]| |] eqn:E; cbn [bind] in H; try discriminate.
      injection H as <- ->. destruct (IH v Hk eq_refl) as (s & -> & [H1 H2]).
      eexists. split; [reflexivity|]. destruct v; cbn [rpneg sym fst snd] in *; split; cbn [fst snd]; rewrite <- ?H1, <- ?H2; ring.
    - assert (Ka : old = true -> known_C03_intfn_of_pi piq a = false) by (intros Ho; specialize (Hk Ho); apply Bool.orb_false_iff in Hk; tauto).
      assert (Kb : old = true -> known_C03_intfn_of_pi piq b = false) by (intros Ho; specialize (Hk Ho); apply Bool.orb_false_iff in Hk; tauto).
      destruct (rfeval_gen piq old a) as [[pa fa]| |] eqn:Ea; cbn [bind] in H; try discriminate.
      destruct (rfeval_gen piq old b) as [[pb fb]| |] eqn:Eb; cbn [bind] in H; try discriminate.
      injection H as H. assert (Hfl : fa = true /\ fb = true).
      { unfold v_add in H. cbn [fst snd] in H. destruct (rzero pb); injection H as _ Hf;
          destruct fa, fb; cbn in Hf; try discriminate; auto. }
      destruct Hfl as [-> ->].
      destruct (IHa pa Ka eq_refl) as (sa & -> & Ha). destruct (IHb pb Kb eq_refl) as (sb & -> & Hb).
      cbn [obind]. eexists. split; [reflexivity|].
      pose proof (good_add (pa, true) (pb, true) sa sb Ha Hb eq_refl eq_refl) as G.
      rewrite H in G. apply G. reflexivity.
    - assert (Ka : old = true -> known_C03_intfn_of_pi piq a = false) by (intros Ho; specialize (Hk Ho); apply Bool.orb_false_iff in Hk; tauto).
      assert (Kb : old = true -> known_C03_intfn_of_pi piq b = false) by (intros Ho; specialize (Hk Ho); apply Bool.orb_false_iff in Hk; tauto).
      destruct (rfeval_gen piq old a) as [[pa fa]| |] eqn:Ea; cbn [bind] in H; try discriminate.
      destruct (rfeval_gen piq old b) as [[pb fb]| |] eqn:Eb; cbn [bind] in H; try discriminate.
      injection H as H. cbn [fst snd] in H. assert (Hfl : fa = true /\ fb = true).
      { unfold v_add in H. cbn [fst snd] in H. destruct (rzero (rpneg pb)); injection H as _ Hf;
          destruct fa, fb; cbn in Hf; try discriminate; auto. }
      destruct Hfl as [-> ->].
      destruct (IHa pa Ka eq_refl) as (sa & -> & Ha). destruct (IHb pb Kb eq_refl) as (sb & -> & Hb).
      cbn [obind]. eexists. split; [reflexivity|].
      assert (Hnb : sv_eq (sym (rpneg pb)) (- fst sb, - snd sb)%Q).
      { destruct Hb as [H1 H2]. destruct pb; cbn [rpneg sym fst snd] in *; split; cbn [fst snd]; rewrite <- ?H1, <- ?H2; ring. }
      pose proof (good_add (pa, true) (rpneg pb, true) sa (- fst sb, - snd sb)%Q Ha Hnb eq_refl eq_refl) as G.
      rewrite H in G. destruct (G eq_refl) as [G1 G2]. cbn [fst snd] in *.
      split; cbn [fst snd]; [rewrite G1|rewrite G2]; ring.
    - assert (Ka : old = true -> known_C03_intfn_of_pi piq a = false) by (intros Ho; specialize (Hk Ho); apply Bool.orb_false_iff in Hk; tauto).
      assert (Kb : old = true -> known_C03_intfn_of_pi piq b = false) by (intros Ho; specialize (Hk Ho); apply Bool.orb_false_iff in Hk; tauto).
      destruct (rfeval_gen piq old a) as [[pa fa]| |] eqn:Ea; cbn [bind] in H; try discriminate.
      destruct (rfeval_gen piq old b) as [[pb fb]| |] eqn:Eb; cbn [bind] in H; try discriminate.
      injection H as Hp Hf. cbn [fst snd] in *.
      destruct fa, fb; cbn [andb] in Hf; try discriminate.
      destruct (IHa pa Ka eq_refl) as (sa & -> & Ha). destruct (IHb pb Kb eq_refl) as (sb & -> & Hb).
      cbn [obind]. subst p. apply (good_cmul (pa, true) (pb, true)); auto.
    - assert (Ka : old = true -> known_C03_intfn_of_pi piq a = false) by (intros Ho; specialize (Hk Ho); apply Bool.orb_false_iff in Hk; tauto).
      assert (Kb : old = true -> known_C03_intfn_of_pi piq b = false) by (intros Ho; specialize (Hk Ho); apply Bool.orb_false_iff in Hk; tauto).
      destruct (rfeval_gen piq old a) as [[pa fa]| |] eqn:Ea; cbn [bind] in H; try discriminate.
      destruct (rfeval_gen piq old b) as [[pb fb]| |] eqn:Eb; cbn [bind] in H; try discriminate.
      destruct (er_div piq (pa, fa) (pb, fb)) as [r| |] eqn:Ed; cbn [bind] in H; try discriminate.
      injection H as Hp Hf. cbn [fst snd] in *.
      destruct (snd r) eqn:Hr, fa, fb; cbn [andb] in Hf; try discriminate.
      destruct (IHa pa Ka eq_refl) as (sa & -> & Ha). destruct (IHb pb Kb eq_refl) as (sb & -> & Hb).
      cbn [obind]. subst p. apply (good_div (pa, true) (pb, true) r); auto.
    - destruct (rfeval_gen piq old e) as [[pe fe]| |] eqn:Ee; cbn [bind] in H; try discriminate.
      destruct (real_pow piq (fst (pe, fe)) n) as [r| |] eqn:Er; cbn [bind] in H; try discriminate.
      injection H as Hp Hf. cbn [fst snd] in *.
      destruct fe, (snd r) eqn:Hr; cbn [andb] in Hf; try discriminate.
      destruct (IH pe Hk eq_refl) as (se & -> & He). cbn [obind]. subst p.
      apply (good_pow pe n r se); auto.
    - assert (Ka : old = true -> known_C03_intfn_of_pi piq a = false) by (intros Ho; specialize (Hk Ho); apply Bool.orb_false_iff in Hk; tauto).
      assert (Kb : old = true -> known_C03_intfn_of_pi piq b = false) by (intros Ho; specialize (Hk Ho); apply Bool.orb_false_iff in Hk; tauto).
      destruct (rfeval_gen piq old a) as [[pa fa]| |] eqn:Ea; cbn [bind] in H; try discriminate.
      destruct (rfeval_gen piq old b) as [[pb fb]| |] eqn:Eb; cbn [bind] in H; try discriminate.
      cbn [fst snd] in H. destruct pb as [q|q]; try discriminate.
      destruct (q_nat q) as [n|] eqn:Eq; try discriminate.
      destruct (real_pow piq pa n) as [r| |] eqn:Er; cbn [bind] in H; try discriminate.
      injection H as Hp Hf. destruct fa, fb, (snd r) eqn:Hr; cbn [andb] in Hf; try discriminate.
      destruct (IHa pa Ka eq_refl) as (sa & -> & Ha). destruct (IHb (RSimple q) Kb eq_refl) as (sb & -> & [Hb1 Hb2]).
      cbn [obind sym fst snd] in *. rewrite (qzero_true (snd sb)) by (rewrite <- Hb2; reflexivity).
      rewrite <- (q_nat_proper _ _ Hb1), Eq. subst p. apply (good_pow pa n r sa); auto.
    - destruct (rfeval_gen piq old e) as [[pe fe]| |] eqn:Ee; cbn [bind] in H; try discriminate.
      unfold v_intfn in H. injection H as <- Hf. cbn [fst snd] in *.
      apply Bool.andb_true_iff in Hf as [-> Hx].
      assert (Ke : old = true -> known_C03_intfn_of_pi piq e = false) by (intros Ho; specialize (Hk Ho); apply Bool.orb_false_iff in Hk; tauto).
      destruct (IH pe Ke eq_refl) as (se & -> & He). cbn [obind].
      apply good_intfn; [intros u w Huw; apply Qfloor_comp; exact Huw|assumption|].
      destruct old; [|exact Hx]. specialize (Hk eq_refl). apply Bool.orb_false_iff in Hk as [Kp _].
      eapply pi_multiple_false; eassumption.
    - destruct (rfeval_gen piq old e) as [[pe fe]| |] eqn:Ee; cbn [bind] in H; try discriminate.
      unfold v_intfn in H. injection H as <- Hf. cbn [fst snd] in *.
      apply Bool.andb_true_iff in Hf as [-> Hx].
      assert (Ke : old = true -> known_C03_intfn_of_pi piq e = false) by (intros Ho; specialize (Hk Ho); apply Bool.orb_false_iff in Hk; tauto).
      destruct (IH pe Ke eq_refl) as (se & -> & He). cbn [obind].
      apply good_intfn; [intros u w Huw; apply Qceiling_comp; exact Huw|assumption|].
      destruct old; [|exact Hx]. specialize (Hk eq_refl). apply Bool.orb_false_iff in Hk as [Kp _].
      eapply pi_multiple_false; eassumption.
    - destruct (rfeval_gen piq old e) as [[pe fe]| |] eqn:Ee; cbn [bind] in H; try discriminate.
      unfold v_intfn in H. injection H as <- Hf. cbn [fst snd] in *.
      apply Bool.andb_true_iff in Hf as [-> Hx].
      assert (Ke : old = true -> known_C03_intfn_of_pi piq e = false) by (intros Ho; specialize (Hk Ho); apply Bool.orb_false_iff in Hk; tauto).
      destruct (IH pe Ke eq_refl) as (se & -> & He). cbn [obind].
      apply good_intfn; [intros u w Huw; apply qround_proper; exact Huw|assumption|].
      destruct old; [|exact Hx]. specialize (Hk eq_refl). apply Bool.orb_false_iff in Hk as [Kp _].
      eapply pi_multiple_false; eassumption.
  Qed.

  (* FULL STRENGTH, today's code *)
  Theorem real_flag_sound_lemma : forall e p,
    rfeval piq e = Ok (p, true) -> exists s, sval e = Some s /\ sv_eq (sym p) s.
  Proof. intros e p H. apply (real_flag_sound_gen false e p); [discriminate|exact H]. Qed.

  Theorem real_flag_sound_old_except_known_lemma : forall e p,
    known_C03_intfn_of_pi piq e = false -> rfeval_old piq e = Ok (p, true) ->
    exists s, sval e = Some s /\ sv_eq (sym p) s.
  Proof. intros e p Hk H. apply (real_flag_sound_gen true e p); [intros _; exact Hk|exact H]. Qed.

  (* without the exclusion the statement is false: floor(pi) is flagged exact
     although it is computed from the rational stand-in for pi *)
  Theorem real_flag_sound_old_refuted_lemma :
    exists e p, rfeval_old piq e = Ok (p, true) /\ sval e = None.
  Proof. exists (RFloor RPiC). eexists. split; reflexivity. Qed.

  (* anything built from an `approx.` operand is flagged inexact *)
  Fixpoint r_uses_approx (e : rexpr) : bool :=
    match e with
    | RLit _ | RPiC => false
    | RApx _ => true
    | RNeg e | RPow e _ | RFloor e | RCeil e | RRound e => r_uses_approx e
    | RAdd a b | RSub a b | RMul a b | RDiv a b | RPowE a b => r_uses_approx a || r_uses_approx b
    end.

  Theorem real_flag_monotone_lemma : forall old e p fl,
    r_uses_approx e = true -> rfeval_gen piq old e = Ok (p, fl) -> fl = false.
  Proof.
    intros old.
    induction e as [q| |e IH|e IH|a IHa b IHb|a IHa b IHb|a IHa b IHb|a IHa b IHb|e IH n|a IHa b IHb|e IH|e IH|e IH];
      intros p fl Hu H; cbn [rfeval_gen r_uses_approx] in *; try discriminate.
    - destruct (rfeval_gen piq old e) as [[v f]| |]; cbn [bind] in H; try discriminate. injection H as _ <-. reflexivity.
    - destruct (rfeval_gen piq old e) as [[v f]| |] eqn:E; cbn [bind] in H; try discriminate. injection H as _ <-.
      eapply IH; eauto.
    - destruct (rfeval_gen piq old a) as [[pa fa]| |] eqn:Ea; cbn [bind] in H; try discriminate.
      destruct (rfeval_gen piq old b) as [[pb fb]| |] eqn:Eb; cbn [bind] in H; try discriminate.
      injection H as H. unfold v_add in H. cbn [fst snd] in H.
      assert (Hab : fa && fb = false).
      { apply Bool.orb_true_iff in Hu as [Hu|Hu]; [rewrite (IHa _ _ Hu eq_refl)|rewrite (IHb _ _ Hu eq_refl)];
          [reflexivity|apply Bool.andb_false_r]. }
      destruct (rzero pb); injection H as _ <-; rewrite Hab; reflexivity.
    - destruct (rfeval_gen piq old a) as [[pa fa]| |] eqn:Ea; cbn [bind] in H; try discriminate.
      destruct (rfeval_gen piq old b) as [[pb fb]| |] eqn:Eb; cbn [bind] in H; try discriminate.
      injection H as H. unfold v_add in H. cbn [fst snd] in H.
      assert (Hab : fa && fb = false).
      { apply Bool.orb_true_iff in Hu as [Hu|Hu]; [rewrite (IHa _ _ Hu eq_refl)|rewrite (IHb _ _ Hu eq_refl)];
          [reflexivity|apply Bool.andb_false_r]. }
      destruct (rzero (rpneg pb)); injection H as _ <-; rewrite Hab; reflexivity.
    - destruct (rfeval_gen piq old a) as [[pa fa]| |] eqn:Ea; cbn [bind] in H; try discriminate.
      destruct (rfeval_gen piq old b) as [[pb fb]| |] eqn:Eb; cbn [bind] in H; try discriminate.
      injection H as _ <-. cbn [fst snd].
      apply Bool.orb_true_iff in Hu as [Hu|Hu]; [rewrite (IHa _ _ Hu eq_refl)|rewrite (IHb _ _ Hu eq_refl)];
        [reflexivity|rewrite Bool.andb_false_r; reflexivity].
    - destruct (rfeval_gen piq old a) as [[pa fa]| |] eqn:Ea; cbn [bind] in H; try discriminate.
      destruct (rfeval_gen piq old b) as [[pb fb]| |] eqn:Eb; cbn [bind] in H; try discriminate.
      destruct (er_div piq (pa, fa) (pb, fb)) as [r| |]; cbn [bind] in H; try discriminate.
      injection H as _ <-. cbn [fst snd].
      apply Bool.orb_true_iff in Hu as [Hu|Hu]; [rewrite (IHa _ _ Hu eq_refl)|rewrite (IHb _ _ Hu eq_refl)];
        destruct (snd r); try destruct fa; try destruct fb; reflexivity.
    - destruct (rfeval_gen piq old e) as [[pe fe]| |] eqn:Ee; cbn [bind] in H; try discriminate.
      destruct (real_pow piq (fst (pe, fe)) n) as [r| |]; cbn [bind] in H; try discriminate.
      injection H as _ <-. cbn [snd]. rewrite (IH _ _ Hu eq_refl). reflexivity.
    - destruct (rfeval_gen piq old a) as [[pa fa]| |] eqn:Ea; cbn [bind] in H; try discriminate.
      destruct (rfeval_gen piq old b) as [[pb fb]| |] eqn:Eb; cbn [bind] in H; try discriminate.
      cbn [fst snd] in H. destruct pb as [q|q]; try discriminate.
      destruct (q_nat q); try discriminate.
      destruct (real_pow piq pa n) as [r| |]; cbn [bind] in H; try discriminate.
      injection H as _ <-.
      apply Bool.orb_true_iff in Hu as [Hu|Hu]; [rewrite (IHa _ _ Hu eq_refl)|rewrite (IHb _ _ Hu eq_refl)];
        destruct (snd r); try destruct fa; try destruct fb; reflexivity.
    - destruct (rfeval_gen piq old e) as [[pe fe]| |] eqn:Ee; cbn [bind] in H; try discriminate.
      injection H as _ <-. cbn [snd]. rewrite (IH _ _ Hu eq_refl). reflexivity.
    - destruct (rfeval_gen piq old e) as [[pe fe]| |] eqn:Ee; cbn [bind] in H; try discriminate.
      injection H as _ <-. cbn [snd]. rewrite (IH _ _ Hu eq_refl). reflexivity.
    - destruct (rfeval_gen piq old e) as [[pe fe]| |] eqn:Ee; cbn [bind] in H; try discriminate.
      injection H as _ <-. cbn [snd]. rewrite (IH _ _ Hu eq_refl). reflexivity.
  Qed.
End Sound.
