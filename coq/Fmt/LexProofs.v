(* Proofs about the literal lexer of Fmt/Lex.v: lexing the text of a
   structured literal gives exactly the value the notation defines and stops
   exactly at its end -- every base 2..36, both separator styles, digit
   separators, upper/lower-case digits, fraction, recurring part, exponent. *)
From FendV Require Import Base.Prelude Fmt.Rat Fmt.Format Fmt.Lex Fmt.IntFmtProofs.
From Coq Require Import Lia ZifyBool QArith.
Open Scope N_scope.

Arguments N.add : simpl never.
Arguments N.sub : simpl never.
Arguments N.mul : simpl never.
Arguments N.div : simpl never.
Arguments N.modulo : simpl never.
Arguments N.eqb : simpl never.
Arguments N.ltb : simpl never.
Arguments N.leb : simpl never.
Arguments N.pow : simpl never.

(* ------------------------------------------------------------------ *)
(* characters of written digits *)

Lemma wdigit_to_digit : forall base d, wd_val d < base -> base <= 36 ->
  to_digit base (wdigit_char d) = Some (wd_val d).
Proof.
  intros base [v up] Hv Hb. cbn [wd_val] in Hv. unfold to_digit, wdigit_char, char_digit_value. cbn [wd_val wd_upper].
  destruct (v <? 10) eqn:E.
  - replace ((48 <=? 48 + v) && (48 + v <=? 57)) with true by lia.
    replace (48 + v - 48) with v by lia. replace (v <? base) with true by lia. reflexivity.
  - destruct up.
    + replace ((48 <=? 55 + v) && (55 + v <=? 57)) with false by lia.
      replace ((97 <=? 55 + v) && (55 + v <=? 122)) with false by lia.
      replace ((65 <=? 55 + v) && (55 + v <=? 90)) with true by lia.
      replace (55 + v - 55) with v by lia. replace (v <? base) with true by lia. reflexivity.
    + replace ((48 <=? 87 + v) && (87 + v <=? 57)) with false by lia.
      replace ((97 <=? 87 + v) && (87 + v <=? 122)) with true by lia.
      replace (87 + v - 87) with v by lia. replace (v <? base) with true by lia. reflexivity.
Qed.

Lemma wdigit_not_sep : forall sep d, wd_val d < 36 -> is_digit_sep sep (wdigit_char d) = false.
Proof.
  intros sep [v up] Hv. cbn [wd_val] in Hv. unfold is_digit_sep, wdigit_char, thousands_char. cbn [wd_val wd_upper].
  destruct sep; destruct (v <? 10) eqn:E; destruct up; lia.
Qed.

Lemma wdigit_alnum : forall d, wd_val d < 36 ->
  exists v, char_digit_value (wdigit_char d) = Some v.
Proof.
  intros d H. exists (wd_val d).
  pose proof (wdigit_to_digit 36 d H (N.le_refl _)) as T. unfold to_digit in T.
  destruct (char_digit_value (wdigit_char d)) as [x|]; [|discriminate].
  destruct (x <? 36); [assumption|discriminate].
Qed.

(* the lexer stops here: not a separator, not a digit of the base *)
Definition stop_ok (base : N) (sep : sepstyle) (rest : list N) : bool :=
  match rest with
  | [] => true
  | c :: _ => negb (is_digit_sep sep c) &&
              match to_digit base c with None => true | Some _ => false end
  end.

Definition pstep (base : N) (a : N * N) (d : N) : N * N := (fst a * base + d, snd a + 1).

Lemma pstep_fold : forall base ds a k,
  fold_left (pstep base) ds (a, k) =
  (fold_left (fun a d => a * base + d) ds a, k + N.of_nat (length ds)).
Proof.
  intros base ds. induction ds as [|d ds IH]; intros a k; cbn [fold_left length].
  - f_equal. lia.
  - unfold pstep at 2. cbn [fst snd]. rewrite IH. f_equal. lia.
Qed.

Definition more_text (sep : sepstyle) (more : list (wsep * wdigit)) : list N :=
  flat_map (fun p => wsep_text sep (fst p) ++ [wdigit_char (snd p)]) more.

Lemma pint_loop_more : forall base sep more acc rest, base <= 36 ->
  forallb (fun d => d <? base) (map (fun p => wd_val (snd p)) more) = true ->
  stop_ok base sep rest = true ->
  pint_loop true base sep (dstep base) (more_text sep more ++ rest) acc =
  LOk (fold_left (pstep base) (map (fun p => wd_val (snd p)) more) acc, rest).
Proof.
  intros base sep more. induction more as [|[w d] more IH]; intros acc rest Hb Hds Hstop.
  - cbn [more_text flat_map app map fold_left]. destruct rest as [|c r]; [reflexivity|].
    cbn [stop_ok] in Hstop. apply andb_prop in Hstop as [Hs Hd].
    cbn [pint_loop]. destruct (is_digit_sep sep c); [discriminate|].
    destruct (to_digit base c); [discriminate|reflexivity].
  - cbn [map forallb snd] in Hds. apply andb_prop in Hds as [Hd Hds].
    assert (Hdv : wd_val d < base) by lia.
    unfold more_text. cbn [flat_map fst snd]. rewrite <- !app_assoc. cbn [app].
    fold (more_text sep more).
    cbn [map fold_left snd].
    destruct w; cbn [wsep_text app].
    + cbn [pint_loop]. rewrite wdigit_not_sep by lia. rewrite wdigit_to_digit by lia.
      unfold dstep at 1. cbn [lbind]. apply IH; assumption.
    + cbn [pint_loop]. replace (is_digit_sep sep 95) with true by (unfold is_digit_sep; cbn; reflexivity).
      cbn [negb]. rewrite wdigit_to_digit by lia.
      unfold dstep at 1. cbn [lbind]. apply IH; assumption.
    + cbn [pint_loop].
      replace (is_digit_sep sep (thousands_char sep)) with true
        by (unfold is_digit_sep; rewrite N.eqb_refl; lia).
      cbn [negb]. rewrite wdigit_to_digit by lia.
      unfold dstep at 1. cbn [lbind]. apply IH; assumption.
Qed.

Lemma show_drun_eq : forall sep r,
  show_drun sep r = wdigit_char (dr_first r) :: more_text sep (dr_more r).
Proof. reflexivity. Qed.

Lemma parse_integer_drun : forall base sep r rest, base <= 36 ->
  drun_ok base r = true -> stop_ok base sep rest = true ->
  parse_integer true base sep (dstep base) (show_drun sep r ++ rest) (0, 0) =
  LOk ((drun_val base r, drun_len r), rest).
Proof.
  intros base sep [f more] rest Hb Hok Hstop.
  unfold drun_ok, drun_digits in Hok. cbn [dr_first dr_more forallb] in Hok.
  apply andb_prop in Hok as [Hf Hm].
  rewrite show_drun_eq. cbn [dr_first dr_more app parse_integer].
  rewrite wdigit_to_digit by lia. unfold dstep at 1. cbn [lbind fst snd].
  rewrite pint_loop_more by assumption.
  rewrite pstep_fold. unfold drun_val, drun_len, drun_digits, digits_val. cbn [dr_first dr_more fold_left length].
  f_equal. f_equal. f_equal. rewrite map_length. lia.
Qed.

(* the first character of a digit run *)
Lemma show_drun_head : forall sep r, exists t, show_drun sep r = wdigit_char (dr_first r) :: t.
Proof. intros. eexists. apply show_drun_eq. Qed.

(* ------------------------------------------------------------------ *)
(* stop conditions for the characters that can follow a digit run *)

Lemma stop_point : forall base sep t, stop_ok base sep (decimal_char sep :: t) = true.
Proof.
  intros base sep t. cbn [stop_ok]. unfold is_digit_sep, to_digit, char_digit_value.
  destruct sep; cbn; reflexivity.
Qed.

Lemma stop_char : forall base sep c t,
  char_digit_value c = None -> c <> 95 -> c <> 44 -> c <> 46 ->
  stop_ok base sep (c :: t) = true.
Proof.
  intros base sep c t Hc H1 H2 H3. cbn [stop_ok]. unfold to_digit. rewrite Hc.
  unfold is_digit_sep, thousands_char. destruct sep; lia.
Qed.

Lemma stop_follow : forall base sep rest, ok_follow rest = true -> stop_ok base sep rest = true.
Proof.
  intros base sep [|c t] H; [reflexivity|]. cbn [ok_follow] in H.
  destruct (char_digit_value c) eqn:E; [cbn in H; discriminate|].
  apply stop_char; try assumption; lia.
Qed.

(* 'e' / 'E' stop a digit run in base <= 10 *)
Lemma stop_e : forall base sep (cap : bool) t, base <= 10 ->
  stop_ok base sep ((if cap then 69 else 101) :: t) = true.
Proof.
  intros base sep cap t Hb. cbn [stop_ok].
  assert (He : to_digit base (if cap then 69 else 101) = None).
  { unfold to_digit. destruct cap.
    - change (char_digit_value 69) with (Some 14). cbv iota beta. replace (14 <? base) with false by lia. reflexivity.
    - change (char_digit_value 101) with (Some 14). cbv iota beta. replace (14 <? base) with false by lia. reflexivity. }
  rewrite He. unfold is_digit_sep, thousands_char. destruct sep, cap; reflexivity.
Qed.

Lemma stop_paren : forall base sep t, stop_ok base sep (40 :: t) = true.
Proof. intros. apply stop_char; try lia. reflexivity. Qed.

Lemma stop_close : forall base sep t, stop_ok base sep (41 :: t) = true.
Proof. intros. apply stop_char; try lia. reflexivity. Qed.

(* ------------------------------------------------------------------ *)
(* Q helpers *)

Lemma qN_pos : forall n, n <> 0 -> ~ (qN n == 0)%Q.
Proof.
  intros n Hn H. unfold qN, Qeq in H. cbn in H. lia.
Qed.

(* ------------------------------------------------------------------ *)
(* the body of a literal (everything after the base prefix) *)

Definition show_body (sep : sepstyle) (l : lit) : list N :=
  (match l_int l with Some i => show_drun sep i | None => [] end) ++
  show_frac sep (l_frac l) ++ show_exp sep (l_exp l).

Definition body_ok (b : N) (l : lit) : bool :=
  (match l_int l with
   | Some i => drun_ok b i
   | None => match l_frac l with NoFrac => false | _ => true end
   end) &&
  frac_ok b (l_frac l) &&
  (match l_exp l with
   | None => true
   | Some (_, _, d) => (b <=? 10) && drun_ok b d && (drun_val b d <? 2 ^ 64)
   end).

Definition body_value (b : N) (l : lit) : Q :=
  ((qN (match l_int l with Some i => drun_val b i | None => 0 end) + frac_value b (l_frac l))
   * Qpower (qN b) (exp_value b (l_exp l)))%Q.

(* what follows the integer digits is always a stop *)
Lemma stop_after_int : forall b sep l rest, 2 <= b <= 36 -> body_ok b l = true -> ok_follow rest = true ->
  stop_ok b sep (show_frac sep (l_frac l) ++ show_exp sep (l_exp l) ++ rest) = true.
Proof.
  intros b sep l rest Hb Hok Hf.
  destruct (l_frac l) as [|f [r|]|r]; cbn [show_frac app]; try apply stop_point.
  destruct (l_exp l) as [[[cap s] d]|] eqn:E; cbn [show_exp app].
  - unfold body_ok in Hok. rewrite E in Hok. apply stop_e. lia.
  - apply stop_follow. assumption.
Qed.

Lemma starts_dice_digit : forall b d t, wd_val d < b -> b <= 36 ->
  starts_dice b (wdigit_char d :: t) = false.
Proof.
  intros b [v up] t Hv Hb. cbn [wd_val] in Hv. unfold starts_dice, starts_with, wdigit_char. cbn [wd_val wd_upper].
  destruct (v <? 10) eqn:E.
  - replace (48 + v =? 100) with false by lia. reflexivity.
  - destruct (b <=? 10) eqn:E2; [lia|]. rewrite andb_false_r. reflexivity.
Qed.

Lemma digit_ne_point : forall sep d, wd_val d < 36 -> (wdigit_char d =? decimal_char sep) = false.
Proof.
  intros sep [v up] Hv. cbn [wd_val] in Hv. unfold wdigit_char, decimal_char. cbn [wd_val wd_upper].
  destruct sep; destruct (v <? 10) eqn:E; destruct up; lia.
Qed.

(* stage 1: the integer component *)
Lemma pbn_int_spec : forall b sep l tail, 2 <= b <= 36 -> body_ok b l = true ->
  stop_ok b sep tail = true ->
  (l_int l = None -> exists t, tail = decimal_char sep :: t) ->
  pbn_int b sep ((match l_int l with Some i => show_drun sep i | None => [] end) ++ tail) =
  LOk (match l_int l with Some i => drun_val b i | None => 0 end, tail).
Proof.
  intros b sep l tail Hb Hok Hstop Hnone. unfold body_ok in Hok.
  destruct (l_int l) as [i|].
  - apply andb_prop in Hok as [Hok _]. apply andb_prop in Hok as [Hi _].
    assert (Hfirst : wd_val (dr_first i) < b).
    { unfold drun_ok, drun_digits in Hi. cbn [forallb] in Hi. lia. }
    unfold pbn_int. rewrite show_drun_eq. cbn [app].
    rewrite digit_ne_point by lia.
    change (wdigit_char (dr_first i) :: more_text sep (dr_more i) ++ tail)
      with ((wdigit_char (dr_first i) :: more_text sep (dr_more i)) ++ tail).
    rewrite <- show_drun_eq. rewrite parse_integer_drun by (assumption || lia).
    reflexivity.
  - destruct (Hnone eq_refl) as (t & ->). cbn [app]. unfold pbn_int. rewrite N.eqb_refl. reflexivity.
Qed.

(* recurring digits *)
Lemma recurring_spec : forall b sep r k rest, 2 <= b <= 36 -> drun_ok b r = true ->
  parse_recurring_digits b sep k (40 :: show_drun sep r ++ 41 :: rest) =
  LOk ((qN (drun_val b r) / qN ((b ^ drun_len r - 1) * b ^ k))%Q, rest).
Proof.
  intros b sep r k rest Hb Hr. unfold parse_recurring_digits. cbn [starts_with tl].
  rewrite N.eqb_refl.
  assert (Hfirst : wd_val (dr_first r) < b).
  { unfold drun_ok, drun_digits in Hr. cbn [forallb] in Hr. lia. }
  rewrite show_drun_eq at 1. cbn [app]. rewrite wdigit_to_digit by lia.
  rewrite parse_integer_drun; [|lia|assumption|apply stop_close].
  cbn [lbind]. rewrite N.eqb_refl. reflexivity.
Qed.

Lemma recurring_none : forall b sep k rest, starts_with 40 rest = false ->
  parse_recurring_digits b sep k rest = LOk (0%Q, rest).
Proof. intros. unfold parse_recurring_digits. rewrite H. reflexivity. Qed.

Lemma starts_with_drun_40 : forall sep r t, wd_val (dr_first r) < 36 ->
  starts_with 40 (show_drun sep r ++ t) = false.
Proof.
  intros sep [[v up] m] t H. cbn [dr_first wd_val] in H. rewrite show_drun_eq. cbn [app starts_with dr_first].
  unfold wdigit_char. cbn [wd_val wd_upper]. destruct (v <? 10) eqn:E; destruct up; lia.
Qed.

Lemma starts_with_follow : forall c rest, ok_follow rest = true ->
  (c = 40 \/ c = 46 \/ c = 44 \/ c = 95 \/ c = 35 \/ exists v, char_digit_value c = Some v) ->
  starts_with c rest = false.
Proof.
  intros c [|x t] H Hc; [reflexivity|]. cbn [ok_follow] in H. cbn [starts_with].
  destruct (x =? c) eqn:E; [|reflexivity]. apply N.eqb_eq in E. subst x. exfalso.
  destruct Hc as [->|[->|[->|[->|[->|(v & Hv)]]]]]; try (cbn in H; discriminate).
  rewrite Hv in H. cbn in H. discriminate.
Qed.


(* ------------------------------------------------------------------ *)
(* stage 2: decimal point, digits, recurring digits *)

Lemma exp_head_not : forall sep e t c, c <> 69 -> c <> 101 ->
  starts_with c (show_exp sep (Some e) ++ t) = false.
Proof.
  intros sep [[cap s] d] t c H1 H2. cbn [show_exp app starts_with]. destruct cap; lia.
Qed.

Lemma tail_not_start : forall sep l rest c, ok_follow rest = true ->
  c <> 69 -> c <> 101 ->
  (c = 40 \/ c = 46 \/ c = 44 \/ c = 95 \/ c = 35 \/ exists v, char_digit_value c = Some v) ->
  starts_with c (show_exp sep (l_exp l) ++ rest) = false.
Proof.
  intros sep l rest c Hf H1 H2 Hc. destruct (l_exp l) as [e|].
  - apply exp_head_not; assumption.
  - cbn [show_exp app]. apply starts_with_follow; assumption.
Qed.

Lemma stop_tail : forall b sep l rest, body_ok b l = true -> ok_follow rest = true ->
  stop_ok b sep (show_exp sep (l_exp l) ++ rest) = true.
Proof.
  intros b sep l rest Hok Hf. destruct (l_exp l) as [[[cap s] d]|] eqn:E; cbn [show_exp app].
  - unfold body_ok in Hok. rewrite E in Hok. apply stop_e. lia.
  - apply stop_follow. assumption.
Qed.

Lemma first_lt : forall b r, drun_ok b r = true -> wd_val (dr_first r) < b.
Proof. intros b r H. unfold drun_ok, drun_digits in H. cbn [forallb] in H. lia. Qed.

Lemma shape_fr : forall p (f r : list N) tail,
  (p :: f ++ [40] ++ r ++ [41]) ++ tail = p :: f ++ 40 :: r ++ 41 :: tail.
Proof. intros. cbn [app]. rewrite <- app_assoc. cbn [app]. rewrite <- app_assoc. reflexivity. Qed.

Lemma shape_r : forall p (r : list N) tail,
  (p :: [40] ++ r ++ [41]) ++ tail = p :: 40 :: r ++ 41 :: tail.
Proof. intros. cbn [app]. rewrite <- app_assoc. reflexivity. Qed.

Lemma pbn_frac_spec : forall b sep l iv rest, 2 <= b <= 36 -> body_ok b l = true ->
  ok_follow rest = true ->
  exists v,
    pbn_frac b sep iv (show_frac sep (l_frac l) ++ show_exp sep (l_exp l) ++ rest) =
    LOk (match l_frac l with NoFrac => true | _ => false end, v, show_exp sep (l_exp l) ++ rest)
    /\ (v == qN iv + frac_value b (l_frac l))%Q.
Proof.
  intros b sep l iv rest Hb Hok Hf.
  pose proof (stop_tail b sep l rest Hok Hf) as Hstop.
  assert (H40 : starts_with 40 (show_exp sep (l_exp l) ++ rest) = false)
    by (apply tail_not_start; auto; lia).
  assert (Hfr : frac_ok b (l_frac l) = true).
  { unfold body_ok in Hok. apply andb_prop in Hok as [Hok _]. apply andb_prop in Hok as [_ Hok]. assumption. }
  remember (show_exp sep (l_exp l) ++ rest) as tail eqn:Ht.
  destruct (l_frac l) as [|f [r|]|r]; cbn [show_frac frac_ok frac_value] in *.
  - (* no fraction part *)
    exists (qN iv). split; [|ring].
    cbn [app]. unfold pbn_frac. destruct tail as [|c t]; [reflexivity|].
    assert (Hc : (c =? decimal_char sep) = false).
    { assert (H1 : starts_with 46 (c :: t) = false) by (rewrite Ht; apply tail_not_start; auto; lia).
      assert (H2 : starts_with 44 (c :: t) = false) by (rewrite Ht; apply tail_not_start; auto; lia).
      cbn [starts_with] in H1, H2. destruct sep; cbn [decimal_char]; assumption. }
    rewrite Hc. reflexivity.
  - (* .f(r) *)
    apply andb_prop in Hfr as [Hff Hrr].
    eexists. split.
    + rewrite shape_fr. unfold pbn_frac. rewrite N.eqb_refl.
      rewrite starts_with_drun_40 by (pose proof (first_lt b f Hff); lia).
      rewrite parse_integer_drun; [|lia|assumption|apply stop_paren].
      cbn [lbind]. rewrite recurring_spec by assumption. cbn [lbind fst snd]. reflexivity.
    + ring.
  - (* .f *)
    eexists. split.
    + cbn [app]. unfold pbn_frac. rewrite N.eqb_refl.
      rewrite starts_with_drun_40 by (pose proof (first_lt b f Hfr); lia).
      rewrite parse_integer_drun; [|lia|assumption|assumption].
      cbn [lbind]. rewrite recurring_none by assumption. cbn [lbind fst snd]. reflexivity.
    + ring.
  - (* .(r) *)
    eexists. split.
    + rewrite shape_r. unfold pbn_frac. rewrite N.eqb_refl.
      replace (starts_with 40 (40 :: show_drun sep r ++ 41 :: tail)) with true by reflexivity.
      cbn [lbind]. rewrite recurring_spec by assumption. cbn [lbind fst snd]. reflexivity.
    + rewrite N.pow_0_r, N.mul_1_r. change (qN 0 / qN 1)%Q with (0 / 1)%Q. field.
      apply qN_pos.
      assert (2 <= b ^ drun_len r).
      { unfold drun_len, drun_digits. cbn [length]. rewrite Nat2N.inj_succ, N.pow_succ_r'.
        assert (1 <= b ^ N.of_nat (length (map (fun p => wd_val (snd p)) (dr_more r))))
          by (apply N.lt_pred_le; cbn; apply N.neq_0_lt_0, N.pow_nonzero; lia).
        nia. }
      lia.
Qed.

(* ------------------------------------------------------------------ *)
(* stage 3: the exponent *)

Lemma pbn_exp_spec : forall b sep l res rest, 2 <= b <= 36 -> body_ok b l = true ->
  ok_follow rest = true ->
  exists v, pbn_exp b sep res (show_exp sep (l_exp l) ++ rest) = LOk (v, rest) /\
            (v == res * Qpower (qN b) (exp_value b (l_exp l)))%Q.
Proof.
  intros b sep l res rest Hb Hok Hf.
  destruct (l_exp l) as [[[cap s] d]|] eqn:E.
  - unfold body_ok in Hok. rewrite E in Hok.
    apply andb_prop in Hok as [_ Hok]. apply andb_prop in Hok as [Hok Hlt]. apply andb_prop in Hok as [Hb10 Hd].
    pose proof (first_lt b d Hd) as Hfirst.
    eexists. split; [|reflexivity].
    unfold pbn_exp. replace (b <=? 10) with true by lia.
    cbn [show_exp app].
    replace (((if cap then 69 else 101) =? 101) || ((if cap then 69 else 101) =? 69)) with true by (destruct cap; reflexivity).
    destruct s; cbn [app].
    + (* no sign: the first digit is an ASCII digit *)
      rewrite show_drun_eq. cbn [app].
      assert (Hch : wdigit_char (dr_first d) = 48 + wd_val (dr_first d)).
      { unfold wdigit_char. replace (wd_val (dr_first d) <? 10) with true by lia. reflexivity. }
      rewrite Hch.
      replace (is_ascii_digit (48 + wd_val (dr_first d))) with true by (unfold is_ascii_digit; lia).
      cbn [orb].
      replace (48 + wd_val (dr_first d) =? 45) with false by lia.
      replace (48 + wd_val (dr_first d) =? 43) with false by lia.
      rewrite <- Hch.
      change (wdigit_char (dr_first d) :: more_text sep (dr_more d) ++ rest)
        with ((wdigit_char (dr_first d) :: more_text sep (dr_more d)) ++ rest).
      rewrite <- show_drun_eq.
      rewrite parse_integer_drun; [|lia|assumption|apply stop_follow; assumption].
      cbn [lbind]. replace (2 ^ 64 <=? drun_val b d) with false by lia.
      cbn [exp_value]. reflexivity.
    + replace (is_ascii_digit 43 || (43 =? 43) || (43 =? 45)) with true by reflexivity.
      replace (43 =? 45) with false by reflexivity. replace (43 =? 43) with true by reflexivity.
      cbn [tl].
      rewrite parse_integer_drun; [|lia|assumption|apply stop_follow; assumption].
      cbn [lbind]. replace (2 ^ 64 <=? drun_val b d) with false by lia.
      cbn [exp_value]. reflexivity.
    + replace (is_ascii_digit 45 || (45 =? 43) || (45 =? 45)) with true by reflexivity.
      replace (45 =? 45) with true by reflexivity.
      cbn [tl].
      rewrite parse_integer_drun; [|lia|assumption|apply stop_follow; assumption].
      cbn [lbind]. replace (2 ^ 64 <=? drun_val b d) with false by lia.
      cbn [exp_value]. reflexivity.
  - exists res. split.
    + cbn [show_exp app]. unfold pbn_exp. destruct (b <=? 10); [|reflexivity].
      destruct rest as [|c t]; [reflexivity|].
      assert (H1 : starts_with 101 (c :: t) = false) by (apply starts_with_follow; auto; right; right; right; right; right; exists 14; reflexivity).
      assert (H2 : starts_with 69 (c :: t) = false) by (apply starts_with_follow; auto; right; right; right; right; right; exists 14; reflexivity).
      cbn [starts_with] in H1, H2. rewrite H1, H2. reflexivity.
    + cbn [exp_value Qpower]. ring.
Qed.

(* ------------------------------------------------------------------ *)
(* the body theorem *)

Lemma body_starts_dice : forall b sep l rest, 2 <= b <= 36 -> body_ok b l = true ->
  starts_dice b (show_body sep l ++ rest) = false.
Proof.
  intros b sep l rest Hb Hok. unfold show_body. unfold body_ok in Hok.
  apply andb_prop in Hok as [Hok _]. apply andb_prop in Hok as [Hi Hfr].
  destruct (l_int l) as [i|].
  - rewrite show_drun_eq. cbn [app]. apply starts_dice_digit; [apply first_lt; assumption|lia].
  - destruct (l_frac l) as [|f [r|]|r]; try discriminate; cbn [show_frac app];
      unfold starts_dice, starts_with; destruct sep; reflexivity.
Qed.

Theorem lex_body : forall b sep l rest, 2 <= b <= 36 -> body_ok b l = true ->
  ok_follow rest = true ->
  exists v, parse_basic_number b sep (show_body sep l ++ rest) = LOk (v, rest) /\
            (v == body_value b l)%Q.
Proof.
  intros b sep l rest Hb Hok Hf.
  unfold parse_basic_number. rewrite body_starts_dice by assumption.
  unfold show_body. rewrite <- !app_assoc.
  rewrite pbn_int_spec; try assumption.
  2:{ apply stop_after_int; assumption. }
  2:{ intros Hn. unfold body_ok in Hok. rewrite Hn in Hok.
      destruct (l_frac l) as [|f [r|]|r]; try discriminate; cbn [show_frac app]; eexists; reflexivity. }
  cbn [lbind fst snd].
  destruct (pbn_frac_spec b sep l (match l_int l with Some i => drun_val b i | None => 0 end) rest Hb Hok Hf)
    as (v1 & Hp & Hv1).
  rewrite Hp. cbn [lbind fst snd].
  assert (Hdice : pbn_dice_after b (match l_frac l with NoFrac => true | _ => false end)
                    (show_exp sep (l_exp l) ++ rest) = false).
  { unfold pbn_dice_after.
    replace (starts_with 100 (show_exp sep (l_exp l) ++ rest)) with false.
    - rewrite andb_false_r. reflexivity.
    - symmetry. apply tail_not_start; auto; try lia. right; right; right; right; right. exists 13. reflexivity. }
  rewrite Hdice.
  destruct (pbn_exp_spec b sep l v1 rest Hb Hok Hf) as (v2 & He & Hv2).
  rewrite He. cbn [lbind fst snd].
  assert (Hsup : starts_superscript rest = false).
  { destruct rest as [|c t]; [reflexivity|]. cbn [ok_follow] in Hf. cbn [starts_superscript].
    destruct (is_superscript c); [|reflexivity]. rewrite !andb_false_r in Hf. discriminate. }
  rewrite Hsup, andb_false_r.
  exists v2. split; [reflexivity|].
  rewrite Hv2, Hv1. unfold body_value. reflexivity.
Qed.

(* ------------------------------------------------------------------ *)
(* base prefixes *)

Lemma zero_prefixes : forall sep tail,
  parse_base_prefix sep (prefix_text BBin ++ tail) = Some (BBin, tail) /\
  parse_base_prefix sep (prefix_text BOct ++ tail) = Some (BOct, tail) /\
  parse_base_prefix sep (prefix_text BHex ++ tail) = Some (BHex, tail).
Proof. intros. repeat split; reflexivity. Qed.

Lemma custom_prefix : forall b sep tail, 2 <= b <= 36 ->
  parse_base_prefix sep (prefix_text (BCustom b) ++ tail) = Some (BCustom b, tail).
Proof.
  intros b sep tail Hb.
  assert (Hin : In b (Nseq 2 35)) by (apply Nseq_In; lia).
  vm_compute in Hin.
  repeat (destruct Hin as [<-|Hin]; [destruct sep; reflexivity|]).
  contradiction.
Qed.

(* no prefix: a base-10 literal is never mistaken for a base prefix *)
Lemma pint_loop_noallow : forall sep more acc tail,
  stop_ok 10 sep tail = true ->
  forallb (fun d => d <? 10) (map (fun p => wd_val (snd p)) more) = true ->
  (exists e, pint_loop false 10 sep custom_base_step (more_text sep more ++ tail) acc = LErr e) \/
  (exists cb, pint_loop false 10 sep custom_base_step (more_text sep more ++ tail) acc = LOk (cb, tail)).
Proof.
  intros sep more. induction more as [|[w d] more IH]; intros acc tail Hstop Hds.
  - right. exists acc. cbn [more_text flat_map app]. destruct tail as [|c t]; [reflexivity|].
    cbn [stop_ok] in Hstop. apply andb_prop in Hstop as [Hs Hd]. cbn [pint_loop].
    destruct (is_digit_sep sep c); [discriminate|]. destruct (to_digit 10 c); [discriminate|reflexivity].
  - cbn [map forallb snd] in Hds. apply andb_prop in Hds as [Hd Hds].
    unfold more_text. cbn [flat_map fst snd]. rewrite <- !app_assoc. cbn [app]. fold (more_text sep more).
    destruct w; cbn [wsep_text app].
    + cbn [pint_loop]. rewrite wdigit_not_sep by lia. rewrite wdigit_to_digit by lia.
      destruct (custom_base_step acc (wd_val d)) as [a'|e]; cbn [lbind]; [apply IH; assumption|left; eexists; reflexivity].
    + left. cbn [pint_loop]. replace (is_digit_sep sep 95) with true by reflexivity. cbn [negb]. eexists; reflexivity.
    + left. cbn [pint_loop].
      replace (is_digit_sep sep (thousands_char sep)) with true by (unfold is_digit_sep; rewrite N.eqb_refl; lia).
      cbn [negb]. eexists; reflexivity.
Qed.

Lemma after_int_not_start : forall sep l rest c, ok_follow rest = true ->
  c <> 69 -> c <> 101 -> c <> 46 -> c <> 44 ->
  (c = 40 \/ c = 46 \/ c = 44 \/ c = 95 \/ c = 35 \/ exists v, char_digit_value c = Some v) ->
  starts_with c (show_frac sep (l_frac l) ++ show_exp sep (l_exp l) ++ rest) = false.
Proof.
  intros sep l rest c Hf H1 H2 H3 H4 Hc.
  destruct (l_frac l) as [|f [r|]|r]; cbn [show_frac app];
    try (cbn [starts_with]; destruct sep; cbn [decimal_char]; lia).
  apply tail_not_start; assumption.
Qed.

Lemma more_head_not : forall sep more tail c,
  forallb (fun d => d <? 10) (map (fun p => wd_val (snd p)) more) = true ->
  starts_with c tail = false -> 58 <= c -> c <> 95 ->
  starts_with c (more_text sep more ++ tail) = false.
Proof.
  intros sep [|[w d] more] tail c Hds Ht Hc1 Hc2; [assumption|].
  cbn [map forallb snd] in Hds. apply andb_prop in Hds as [Hd _].
  unfold more_text. cbn [flat_map fst snd]. rewrite <- !app_assoc.
  assert (Hch : wdigit_char d = 48 + wd_val d).
  { unfold wdigit_char. replace (wd_val d <? 10) with true by lia. reflexivity. }
  destruct w; cbn [wsep_text app starts_with]; try rewrite Hch; try lia.
  destruct sep; cbn [thousands_char]; lia.
Qed.

Lemma noprefix10 : forall sep l rest, l_base l = BPlain 10 -> body_ok 10 l = true ->
  ok_follow rest = true ->
  parse_base_prefix sep (show_body sep l ++ rest) = None.
Proof.
  intros sep l rest Hbase Hok Hf.
  assert (Hb : 2 <= 10 <= 36) by lia.
  pose proof (stop_after_int 10 sep l rest Hb Hok Hf) as Hstop.
  unfold show_body. rewrite <- !app_assoc.
  remember (show_frac sep (l_frac l) ++ show_exp sep (l_exp l) ++ rest) as tail eqn:Ht.
  assert (Hx : forall c, c = 120 \/ c = 111 \/ c = 98 \/ c = 35 -> starts_with c tail = false).
  { intros c Hc. rewrite Ht. apply after_int_not_start; try assumption; try lia.
    destruct Hc as [-> | [-> | [-> | ->]]].
    - right; right; right; right; right. exists 33. reflexivity.
    - right; right; right; right; right. exists 24. reflexivity.
    - right; right; right; right; right. exists 11. reflexivity.
    - right; right; right; right; left. reflexivity. }
  unfold body_ok in Hok.
  destruct (l_int l) as [i|] eqn:Ei.
  - apply andb_prop in Hok as [Hok _]. apply andb_prop in Hok as [Hi _].
    pose proof (first_lt 10 i Hi) as Hfirst.
    assert (Hmore : forallb (fun d => d <? 10) (map (fun p => wd_val (snd p)) (dr_more i)) = true).
    { unfold drun_ok, drun_digits in Hi. cbn [forallb] in Hi. apply andb_prop in Hi as [_ Hi]. assumption. }
    rewrite show_drun_eq. cbn [app].
    assert (Hch : wdigit_char (dr_first i) = 48 + wd_val (dr_first i)).
    { unfold wdigit_char. replace (wd_val (dr_first i) <? 10) with true by lia. reflexivity. }
    unfold parse_base_prefix. cbn [starts_with tl].
    destruct (wdigit_char (dr_first i) =? 48) eqn:E0.
    + (* leading zero: the next character is not x, o, b *)
      destruct (more_text sep (dr_more i) ++ tail) as [|c2 r2] eqn:Em; [reflexivity|].
      assert (H1 : starts_with 120 (c2 :: r2) = false) by (rewrite <- Em; apply more_head_not; auto; lia).
      assert (H2 : starts_with 111 (c2 :: r2) = false) by (rewrite <- Em; apply more_head_not; auto; lia).
      assert (H3 : starts_with 98 (c2 :: r2) = false) by (rewrite <- Em; apply more_head_not; auto; lia).
      cbn [starts_with] in H1, H2, H3. rewrite H1, H2, H3. reflexivity.
    + cbn [parse_integer]. rewrite wdigit_to_digit by lia.
      destruct (custom_base_step 0 (wd_val (dr_first i))) as [a'|e]; cbn [lbind]; [|reflexivity].
      destruct (pint_loop_noallow sep (dr_more i) a' tail Hstop Hmore) as [(e & He)|(cb & Hcb)]; [rewrite He; reflexivity|rewrite Hcb].
      destruct (cb <? 2); [reflexivity|]. rewrite Hx by auto. reflexivity.
  - (* the literal starts with the decimal point *)
    cbn [app].
    destruct (l_frac l) as [|f [r|]|r]; try discriminate; rewrite Ht; cbn [show_frac app];
      unfold parse_base_prefix; destruct sep; reflexivity.
Qed.

(* ------------------------------------------------------------------ *)
(* the literal theorem *)

Lemma lit_ok_body : forall l, lit_ok l = true ->
  2 <= base_val (l_base l) <= 36 /\ body_ok (base_val (l_base l)) l = true.
Proof.
  intros l H. unfold lit_ok in H. rewrite andb_true_r in H.
  apply andb_prop in H as [H He]. apply andb_prop in H as [H Hfr]. apply andb_prop in H as [Hb Hi].
  split.
  - destruct (l_base l); cbn [base_ok base_val] in *; lia.
  - unfold body_ok. rewrite Hi, Hfr, He. reflexivity.
Qed.

Theorem lex_lit : forall sep l rest, lit_ok l = true -> ok_follow rest = true ->
  exists v, parse_number sep (show_lit sep l ++ rest) = LOk (v, l_base l, rest) /\
            (v == lit_value l)%Q.
Proof.
  intros sep l rest Hok Hf.
  destruct (lit_ok_body l Hok) as (Hb & Hbody).
  destruct (lex_body (base_val (l_base l)) sep l rest Hb Hbody Hf) as (v & Hp & Hv).
  exists v. split; [|exact Hv].
  unfold parse_number, show_lit.
  change ((match l_int l with Some i => show_drun sep i | None => [] end) ++
          show_frac sep (l_frac l) ++ show_exp sep (l_exp l)) with (show_body sep l).
  rewrite <- app_assoc.
  assert (Hpre : parse_base_prefix sep (prefix_text (l_base l) ++ show_body sep l ++ rest) =
                 match l_base l with BPlain _ => None | k => Some (k, show_body sep l ++ rest) end).
  { destruct (l_base l) as [| | |b|b] eqn:Eb.
    - apply zero_prefixes.
    - apply zero_prefixes.
    - apply zero_prefixes.
    - apply custom_prefix. cbn [base_val] in Hb. assumption.
    - unfold lit_ok in Hok. rewrite Eb in Hok. cbn [base_ok] in Hok.
      assert (b = 10) by lia. subst b. cbn [prefix_text app].
      apply noprefix10; [assumption|assumption|assumption]. }
  rewrite Hpre.
  destruct (l_base l) as [| | |b|b] eqn:Eb; cbn [base_val] in *; try (rewrite Hp; reflexivity).
  unfold lit_ok in Hok. rewrite Eb in Hok. cbn [base_ok] in Hok. assert (b = 10) by lia. subst b.
  cbn [prefix_text app]. cbn [base_val]. rewrite Hp. reflexivity.
Qed.
