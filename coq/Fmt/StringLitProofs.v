(* Proofs about Fmt/StringLit.v: the lexer's string-literal parser maps the
   source text of every well-formed item list to the text it denotes
   (strlit_roundtrip), fuel is never exhausted (psl_go_fuel), and input with
   neither terminator nor backslash is an unterminated literal. *)
From FendV Require Import Base.Prelude Fmt.StringLit.
From Coq Require Import Lia ZifyBool.
Open Scope N_scope.

Arguments N.add : simpl never.
Arguments N.sub : simpl never.
Arguments N.mul : simpl never.
Arguments N.div : simpl never.
Arguments N.modulo : simpl never.
Arguments N.eqb : simpl never.
Arguments N.ltb : simpl never.
Arguments N.leb : simpl never.

(* ---------------- digit characters ---------------- *)

Lemma named_escape_table : forall c, named_escape c = assoc_N c named_table.
Proof. intros c. reflexivity. Qed.

Lemma oct_digit_val_char : forall hi, hi < 8 -> oct_digit_val (48 + hi) = Some hi.
Proof.
  intros hi H. unfold oct_digit_val.
  destruct ((48 <=? 48 + hi) && (48 + hi <=? 55)) eqn:E; [f_equal; lia | lia].
Qed.

Lemma hex_digit_val_char : forall up lo, lo < 16 -> hex_digit_val (hex_char up lo) = Some lo.
Proof.
  intros up lo H. unfold hex_digit_val, hex_char.
  destruct (lo <? 10) eqn:E1; [|destruct up];
    repeat match goal with
           | |- context [if ?b then _ else _] => destruct b eqn:?
           end; try (f_equal; lia); lia.
Qed.

Lemma hex_digit_val_spec : forall c, is_hex_char c = true -> hex_digit_val c = Some (hex_val c).
Proof.
  intros c H. unfold is_hex_char, is_digit in H. unfold hex_digit_val, hex_val, is_digit.
  repeat match goal with
         | |- context [if ?b then _ else _] => destruct b eqn:?
         end; try reflexivity; lia.
Qed.

(* ---------------- parse_unicode_escape ---------------- *)

Lemma fold_ge : forall ds v, v <= fold_left (fun v c => v * 16 + hex_val c) ds v.
Proof.
  induction ds as [|c ds IH]; intros v; cbn [fold_left].
  - lia.
  - specialize (IH (v * 16 + hex_val c)). lia.
Qed.

Lemma pue_digits_close : forall v tail,
  pue_digits (125 :: tail) v false =
  if sl_is_scalar v then SLOk (v, tail) else SLErr SLInvalidUnicode.
Proof. reflexivity. Qed.

Lemma pue_digits_hex : forall c r v zl d, hex_digit_val c = Some d ->
  pue_digits (c :: r) v zl =
  if 1114111 <? v * 16 + d then SLErr SLInvalidUnicode else pue_digits r (v * 16 + d) false.
Proof. intros c r v zl d H. cbn [pue_digits]. rewrite H. reflexivity. Qed.

Lemma pue_digits_ok : forall ds v zl tail,
  forallb is_hex_char ds = true ->
  (zl = false \/ ds <> []) ->
  sl_is_scalar (fold_left (fun v c => v * 16 + hex_val c) ds v) = true ->
  pue_digits (ds ++ 125 :: tail) v zl =
  SLOk (fold_left (fun v c => v * 16 + hex_val c) ds v, tail).
Proof.
  induction ds as [|c ds IH]; intros v zl tail Hh Hz Hs.
  - cbn [app fold_left] in *. destruct Hz as [->|Hz]; [|congruence].
    rewrite pue_digits_close, Hs. reflexivity.
  - cbn [app forallb fold_left] in *. apply andb_prop in Hh as [Hc Hh].
    rewrite (pue_digits_hex _ _ _ _ _ (hex_digit_val_spec c Hc)).
    pose proof (fold_ge ds (v * 16 + hex_val c)) as Hge.
    assert (Hlt : fold_left (fun v c => v * 16 + hex_val c) ds (v * 16 + hex_val c) < 1114112).
    { unfold sl_is_scalar in Hs. apply andb_prop in Hs as [Hs _]. lia. }
    destruct (1114111 <? v * 16 + hex_val c) eqn:E; [lia|].
    apply IH; auto.
Qed.

Lemma pue_ok : forall ds tail,
  ds <> [] -> forallb is_hex_char ds = true -> sl_is_scalar (uni_value ds) = true ->
  parse_unicode_escape (123 :: ds ++ 125 :: tail) = SLOk (uni_value ds, tail).
Proof.
  intros ds tail Hn Hh Hs.
  change (parse_unicode_escape (123 :: ds ++ 125 :: tail))
    with (pue_digits (ds ++ 125 :: tail) 0 true).
  unfold uni_value in *. apply pue_digits_ok; auto.
Qed.

Lemma pue_digits_shorter : forall s v zl c r,
  pue_digits s v zl = SLOk (c, r) -> (length r < length s)%nat.
Proof.
  induction s as [|a s IH]; intros v zl c r H; cbn [pue_digits] in H.
  - discriminate.
  - cbn [length]. destruct (hex_digit_val a) as [d|].
    + cbv zeta in H. destruct (1114111 <? v * 16 + d); [discriminate|].
      apply IH in H. lia.
    + destruct (a =? 125); [|discriminate]. destruct zl; [discriminate|].
      destruct (sl_is_scalar v); [|discriminate].
      injection H as _ <-. lia.
Qed.

Lemma pue_shorter : forall s c r,
  parse_unicode_escape s = SLOk (c, r) -> (length r < length s)%nat.
Proof.
  intros [|ch s] c r H; cbn [parse_unicode_escape] in H; [discriminate|].
  destruct (ch =? 123); [|discriminate].
  apply pue_digits_shorter in H. cbn [length]. lia.
Qed.

(* ---------------- the escape arm ---------------- *)

Section Escape.
  Variable k : bool -> list N -> list N -> slres (list N * list N).

  Lemma esc_named : forall acc c r e, assoc_N c named_table = Some e ->
    psl_escape k acc (c :: r) = k false (e :: acc) r.
  Proof.
    intros acc c r e H. rewrite <- named_escape_table in H.
    unfold psl_escape. rewrite H. reflexivity.
  Qed.

  Lemma esc_hex_unfold : forall acc h1 h2 r,
    psl_escape k acc (120 :: h1 :: h2 :: r) =
    match oct_digit_val h1 with
    | None => SLErr SLBackslashX
    | Some a =>
      match hex_digit_val h2 with
      | None => SLErr SLBackslashX
      | Some b => k false ((a * 16 + b) :: acc) r
      end
    end.
  Proof. reflexivity. Qed.

  Lemma esc_uni_unfold : forall acc r,
    psl_escape k acc (117 :: r) =
    match parse_unicode_escape r with
    | SLOk (c, r2) => k false (c :: acc) r2
    | SLErr e => SLErr e
    end.
  Proof. reflexivity. Qed.

  Lemma esc_z : forall acc r, psl_escape k acc (122 :: r) = k true acc r.
  Proof. reflexivity. Qed.

  Lemma esc_ctrl_unfold : forall acc x r,
    psl_escape k acc (94 :: x :: r) =
    if (63 <=? x mod 256) && (x mod 256 <=? 95)
    then k false ((if x mod 256 =? 63 then 127 else x mod 256 - 64) :: acc) r
    else SLErr SLExpectedLetterOrCode.
  Proof. reflexivity. Qed.
End Escape.

Lemma psl_escape_ext : forall k1 k2 acc r,
  (forall b a l, (length l < length r)%nat -> k1 b a l = k2 b a l) ->
  psl_escape k1 acc r = psl_escape k2 acc r.
Proof.
  intros k1 k2 acc r H. unfold psl_escape.
  destruct r as [|next r1]; [reflexivity|]. cbn [length] in H.
  destruct (named_escape next); [apply H; lia|].
  destruct (next =? 120).
  { destruct r1 as [|h1 [|h2 r2]]; try reflexivity.
    destruct (oct_digit_val h1); [|reflexivity].
    destruct (hex_digit_val h2); [|reflexivity].
    apply H. cbn [length]. lia. }
  destruct (next =? 117).
  { destruct (parse_unicode_escape r1) as [[c r2]|e] eqn:E; [|reflexivity].
    apply pue_shorter in E. apply H. lia. }
  destruct (next =? 122); [apply H; lia|].
  destruct (next =? 94); [|reflexivity].
  destruct r1 as [|letter r2]; [reflexivity|]. cbv zeta.
  destruct ((63 <=? letter mod 256) && (letter mod 256 <=? 95)); [|reflexivity].
  apply H. cbn [length]. lia.
Qed.

(* ---------------- the loop ---------------- *)

Lemma psl_go_S : forall f term skip acc ch r,
  psl_go (S f) term skip acc (ch :: r) =
  if skip && is_ascii_ws ch then psl_go f term true acc r
  else if ch =? term then SLOk (rev acc, r)
  else if ch =? 92 then psl_escape (psl_go f term) acc r
  else psl_go f term false (ch :: acc) r.
Proof. reflexivity. Qed.

(* any fuel above the input length gives the same answer: the out-of-fuel
   branch of psl_go is dead in parse_string_literal *)
Lemma psl_go_fuel : forall f1 f2 term skip acc s,
  (length s < f1)%nat -> (length s < f2)%nat ->
  psl_go f1 term skip acc s = psl_go f2 term skip acc s.
Proof.
  induction f1 as [|f1 IH]; intros f2 term skip acc s H1 H2; [lia|].
  destruct f2 as [|f2]; [lia|].
  destruct s as [|ch r]; [reflexivity|].
  rewrite !psl_go_S. cbn [length] in *.
  destruct (skip && is_ascii_ws ch); [apply IH; lia|].
  destruct (ch =? term); [reflexivity|].
  destruct (ch =? 92).
  - apply psl_escape_ext. intros b a l Hl. apply IH; lia.
  - apply IH; lia.
Qed.

Lemma go_bs : forall f term skip acc r, term <> 92 ->
  psl_go (S f) term skip acc (92 :: r) = psl_escape (psl_go f term) acc r.
Proof.
  intros f term skip acc r H. rewrite psl_go_S.
  change (is_ascii_ws 92) with false. rewrite andb_false_r.
  destruct (92 =? term) eqn:E; [lia|]. reflexivity.
Qed.

Lemma go_term : forall f term skip acc r, is_ascii_ws term = false ->
  psl_go (S f) term skip acc (term :: r) = SLOk (rev acc, r).
Proof.
  intros f term skip acc r H.
  rewrite psl_go_S, H, andb_false_r, N.eqb_refl. reflexivity.
Qed.

Lemma go_plain : forall f term skip acc c r,
  skip && is_ascii_ws c = false -> c <> term -> c <> 92 ->
  psl_go (S f) term skip acc (c :: r) = psl_go f term false (c :: acc) r.
Proof.
  intros f term skip acc c r H1 H2 H3. rewrite psl_go_S, H1.
  destruct (c =? term) eqn:E1; [lia|]. destruct (c =? 92) eqn:E2; [lia|].
  reflexivity.
Qed.

Lemma go_ws : forall ws f term acc tail,
  forallb is_ascii_ws ws = true -> (length (ws ++ tail) < f)%nat ->
  exists f', (length tail < f')%nat /\
             psl_go f term true acc (ws ++ tail) = psl_go f' term true acc tail.
Proof.
  induction ws as [|w ws IH]; intros f term acc tail Hw Hl.
  - exists f. split; [exact Hl|reflexivity].
  - cbn [forallb] in Hw. apply andb_prop in Hw as [Hw1 Hw2].
    cbn [app length] in Hl. destruct f as [|f]; [lia|].
    destruct (IH f term acc tail Hw2 ltac:(lia)) as [f' [H1 H2]].
    exists f'. split; [exact H1|].
    cbn [app]. rewrite psl_go_S, Hw1. cbn [andb]. exact H2.
Qed.

Lemma show_item_len : forall it, (1 <= length (show_item it))%nat.
Proof. intros it. destruct it; cbn [show_item length]; lia. Qed.

Lemma go_items : forall term items fuel skip acc rest,
  term <> 92 -> is_ascii_ws term = false ->
  wf_items_from term skip items = true ->
  (length (show_items items ++ term :: rest) < fuel)%nat ->
  psl_go fuel term skip acc (show_items items ++ term :: rest) =
  SLOk (rev acc ++ denote_items items, rest).
Proof.
  intros term items.
  induction items as [|it items IH]; intros fuel skip acc rest Ht Hw Hwf Hlen.
  - cbn [show_items app denote_items] in *. destruct fuel as [|f]; [lia|].
    rewrite go_term by assumption. rewrite app_nil_r. reflexivity.
  - cbn [wf_items_from] in Hwf. apply andb_prop in Hwf as [Hwf Hrest].
    apply andb_prop in Hwf as [Hit Hz].
    cbn [show_items denote_items] in *.
    rewrite <- app_assoc in Hlen. rewrite <- app_assoc.
    rewrite app_length in Hlen.
    destruct fuel as [|f]; [lia|].
    destruct it as [c|c|hi lo up|ds|x|ws];
      cbn [show_item denote_item wf_item is_escz starts_ws app length] in *.
    + (* Plain *)
      apply andb_prop in Hit as [Hit _]. apply andb_prop in Hit as [Hc1 Hc2].
      apply negb_true_iff in Hc1, Hc2, Hz.
      rewrite go_plain by (try assumption; lia).
      rewrite IH by (try assumption; lia).
      cbn [rev]. rewrite <- app_assoc. reflexivity.
    + (* EscNamed *)
      destruct (assoc_N c named_table) as [e|] eqn:He; [|discriminate].
      rewrite go_bs by assumption. rewrite (esc_named _ _ _ _ _ He).
      rewrite IH by (try assumption; lia).
      cbn [rev app]. rewrite <- app_assoc. reflexivity.
    + (* EscHex *)
      rewrite go_bs by assumption. rewrite esc_hex_unfold.
      rewrite oct_digit_val_char by lia. rewrite hex_digit_val_char by lia.
      rewrite IH by (try assumption; lia).
      cbn [rev]. rewrite <- app_assoc. reflexivity.
    + (* EscUni *)
      apply andb_prop in Hit as [Hit Hs]. apply andb_prop in Hit as [Hn Hh].
      assert (Hne : ds <> []) by (destruct ds; [discriminate|congruence]).
      rewrite <- app_assoc. cbn [app].
      rewrite app_length in Hlen. cbn [length] in Hlen.
      rewrite go_bs by assumption. rewrite esc_uni_unfold.
      rewrite pue_ok by assumption.
      rewrite IH by (try assumption; lia).
      cbn [rev]. rewrite <- app_assoc. reflexivity.
    + (* EscCtrl *)
      rewrite go_bs by assumption. rewrite esc_ctrl_unfold.
      rewrite (N.mod_small x 256) by lia. rewrite Hit.
      rewrite IH by (try assumption; lia).
      cbn [rev]. rewrite <- app_assoc. reflexivity.
    + (* EscZ *)
      rewrite go_bs by assumption. rewrite esc_z.
      destruct (go_ws ws f term acc (show_items items ++ term :: rest) Hit)
        as [f' [Hf' Heq]].
      { rewrite app_length. lia. }
      rewrite Heq. rewrite IH by assumption. reflexivity.
Qed.

Theorem strlit_roundtrip : forall term items rest,
  (term = 34 \/ term = 39) ->
  wf_items term items = true ->
  parse_string_literal term (show_items items ++ term :: rest) =
  SLOk (denote_items items, rest).
Proof.
  intros term items rest Ht Hwf. unfold parse_string_literal.
  rewrite go_items.
  - reflexivity.
  - lia.
  - destruct Ht as [-> | ->]; reflexivity.
  - exact Hwf.
  - lia.
Qed.

(* no terminator and no backslash: the literal is unterminated *)
Lemma go_unterminated : forall s fuel term skip acc,
  forallb (fun c => negb (c =? term) && negb (c =? 92)) s = true ->
  psl_go fuel term skip acc s = SLErr SLUnterminated.
Proof.
  induction s as [|c s IH]; intros fuel term skip acc H.
  - destruct fuel; reflexivity.
  - destruct fuel as [|f]; [reflexivity|].
    cbn [forallb] in H. apply andb_prop in H as [Hc H].
    apply andb_prop in Hc as [Hc1 Hc2]. apply negb_true_iff in Hc1, Hc2.
    rewrite psl_go_S, Hc1, Hc2.
    destruct (skip && is_ascii_ws c); apply IH; exact H.
Qed.

Theorem strlit_unterminated : forall term s,
  forallb (fun c => negb (c =? term) && negb (c =? 92)) s = true ->
  parse_string_literal term s = SLErr SLUnterminated.
Proof. intros term s H. apply go_unterminated. exact H. Qed.

(* ---------------- examples ---------------- *)

(* every item kind; both hex cases; leading zeros and mixed case in the
   unicode escape; whitespace after backslash-z, an empty backslash-z, and
   the other quote character as a plain character *)
Definition example_items : list slitem :=
  [Plain 104; EscNamed 110; EscHex 4 1 false; EscHex 7 15 true; EscHex 6 10 false;
   EscUni (B"0001f60A"); EscCtrl 63; EscCtrl 65; EscZ [32; 10; 9; 12; 13];
   Plain 105; EscZ []; EscNamed 39; Plain 39; Plain 233].

Example strlit_example :
  wf_items 34 example_items = true /\
  show_items example_items =
    B"h\n\x41\x7F\x6a\u{0001f60A}\^?\^A\z" ++ [32; 10; 9; 12; 13] ++ B"i\z\''" ++ [233] /\
  denote_items example_items = [104; 10; 65; 127; 106; 128522; 127; 1; 105; 39; 39; 233] /\
  parse_string_literal 34 (show_items example_items ++ 34 :: B" + 1") =
    SLOk (denote_items example_items, B" + 1").
Proof. vm_compute. repeat split. Qed.

(* error kinds, and the truncation of [letter as u8]: U+0141 behaves like A *)
Example strlit_errors :
  parse_string_literal 34 (B"abc") = SLErr SLUnterminated /\
  parse_string_literal 34 (B"\q""") = SLErr SLUnknownEscape /\
  parse_string_literal 34 (B"\x80""") = SLErr SLBackslashX /\
  parse_string_literal 34 (B"\x7g""") = SLErr SLBackslashX /\
  parse_string_literal 34 (B"\x7") = SLErr SLUnterminated /\
  parse_string_literal 34 (B"\uA""") = SLErr SLInvalidUnicode /\
  parse_string_literal 34 (B"\u{}""") = SLErr SLInvalidUnicode /\
  parse_string_literal 34 (B"\u{d800}""") = SLErr SLInvalidUnicode /\
  parse_string_literal 34 (B"\u{110000}""") = SLErr SLInvalidUnicode /\
  parse_string_literal 34 (B"\u{41") = SLErr SLUnterminated /\
  parse_string_literal 34 (B"\^a""") = SLErr SLExpectedLetterOrCode /\
  parse_string_literal 34 [92; 94; 321; 34] = SLOk ([1], []) /\
  parse_string_literal 34 (B"a\z  ""x") = SLOk (B"a", B"x") /\
  parse_string_literal 39 (B"a""b'x") = SLOk (B"a""b", B"x").
Proof. vm_compute. repeat split. Qed.
