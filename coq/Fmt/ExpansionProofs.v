(* Proofs about the digits after the point (Fmt/Format.v): the termination
   test, the remainder sequence, Brent's cycle detection (value correctness
   for ANY fuel on which it returns Ok) and the geometric-series identity
   that makes  ip . pre (rec)  denote the rational. *)
From FendV Require Import Base.Prelude Fmt.Rat Fmt.Format Fmt.Lex Fmt.IntFmtProofs.
From Coq Require Import Lia ZifyBool.
Open Scope N_scope.

Arguments N.add : simpl never.
Arguments N.sub : simpl never.
Arguments N.mul : simpl never.
Arguments N.div : simpl never.
Arguments N.modulo : simpl never.
Arguments N.eqb : simpl never.
Arguments N.ltb : simpl never.
Arguments N.leb : simpl never.
Arguments N.pow : simpl never.
Arguments N.gcd : simpl never.

(* ------------------------------------------------------------------ *)
(* simplify *)

Lemma simplify_spec : forall x, rden x <> 0 ->
  exists y, simplify x = Ok y /\ rneg y = rneg x /\ rden y <> 0 /\
    N.gcd (rnum y) (rden y) = (if rden x =? 1 then N.gcd (rnum x) 1 else 1) /\
    rnum y * rden x = rnum x * rden y /\ (rden y | rden x).
Proof.
  intros [s n d] Hd. cbn [rden rnum rneg] in *. unfold simplify. cbn [rden rnum rneg].
  destruct (d =? 1) eqn:E1.
  - apply N.eqb_eq in E1. subst d.
    eexists. split; [reflexivity|]. cbn [rden rnum rneg]. repeat split; try lia. apply N.divide_refl.
  - set (g := N.gcd n d).
    assert (Hg : g <> 0) by (unfold g; intro H; apply N.gcd_eq_0_r in H; lia).
    replace (g =? 0) with false by lia.
    eexists. split; [reflexivity|]. cbn [rden rnum rneg].
    assert (Hgg : N.gcd (n / g) (d / g) = 1) by (apply N.gcd_div_gcd; [assumption|reflexivity]).
    destruct (N.gcd_divide_l n d) as (qn & Hqn). destruct (N.gcd_divide_r n d) as (qd & Hqd).
    fold g in Hqn, Hqd. clearbody g.
    assert (Hn : n / g = qn) by (rewrite Hqn; apply N.div_mul; assumption).
    assert (Hdd : d / g = qd) by (rewrite Hqd; apply N.div_mul; assumption).
    rewrite Hn, Hdd in *. split; [reflexivity|]. split; [nia|]. split; [assumption|]. split.
    + subst n d. lia.
    + exists g. lia.
Qed.

Lemma simplify_den1 : forall x, rden x = 1 -> simplify x = Ok x.
Proof. intros x H. unfold simplify. rewrite H. reflexivity. Qed.

(* ------------------------------------------------------------------ *)
(* terminates_in_base *)

Definition divides_pow (d b : N) : Prop := exists k, (d | b ^ k).

Lemma divides_pow_coprime : forall d b, N.gcd b d = 1 -> divides_pow d b -> d = 1.
Proof.
  intros d b Hg (k & Hk). revert Hk. induction k as [|k IH] using N.peano_ind; intros Hk.
  - rewrite N.pow_0_r in Hk. apply N.divide_1_r in Hk. assumption.
  - rewrite N.pow_succ_r' in Hk. apply IH.
    apply N.gauss with (m := b); [assumption|]. rewrite N.gcd_comm. assumption.
Qed.

Lemma term_loop_spec : forall fuel b num den,
  2 <= b -> den <> 0 -> N.gcd num den = 1 -> (N.to_nat (N.size den) < fuel)%nat ->
  exists t, term_loop fuel b num den = Ok t /\ (t = true <-> divides_pow den b).
Proof.
  induction fuel as [|fuel IH]; intros b num den Hb Hd Hg Hfuel; [lia|].
  cbn [term_loop].
  destruct (simplify_spec (mkrat false (num * b) den) Hd) as (y & Hs & _ & Hyd & Hyg & Hcross & Hdiv).
  cbn [rnum rden] in *. rewrite Hs. cbn [bind].
  destruct (den =? 1) eqn:E1.
  - (* den = 1: simplify returns the argument *)
    apply N.eqb_eq in E1. subst den. rewrite simplify_den1 in Hs by reflexivity. injection Hs as <-.
    cbn [rden]. exists true. split; [reflexivity|]. split; [|reflexivity].
    intros _. exists 0. apply N.divide_1_l.
  - apply N.eqb_neq in E1.
    destruct (rden y =? den) eqn:E.
    + (* denominator unchanged: gcd (num*b) den = 1 *)
      apply N.eqb_eq in E. exists (rden y =? 1). split; [reflexivity|].
      rewrite E. replace (den =? 1) with false by lia. split; [discriminate|].
      intros Hp. exfalso. apply E1. apply divides_pow_coprime with (b := b); [|assumption].
      (* rnum y * den = num * b * den -> rnum y = num * b, so gcd (num*b) den = 1 *)
      rewrite E in Hcross. assert (Hy : rnum y = num * b) by nia.
      rewrite Hy, E in Hyg.
      apply N.gcd_unique'; [apply N.divide_1_l|apply N.divide_1_l|].
      intros q Hq1 Hq2. rewrite <- Hyg. apply N.gcd_greatest; [|assumption].
      apply N.divide_mul_r. assumption.
    + apply N.eqb_neq in E.
      destruct Hdiv as (g & Hgd).
      assert (Hg2 : 2 <= g).
      { destruct (N.eq_dec g 0) as [->|]; [lia|]. destruct (N.eq_dec g 1) as [->|]; [lia|]. lia. }
      (* g divides b *)
      assert (Hgb : (g | b)).
      { apply N.gauss with (m := num).
        - exists (rnum y). rewrite Hgd in Hcross. nia.
        - apply N.gcd_unique'; [apply N.divide_1_l|apply N.divide_1_l|].
          intros q Hq1 Hq2. rewrite <- Hg. apply N.gcd_greatest; [assumption|].
          rewrite Hgd. apply N.divide_mul_l. assumption. }
      destruct (IH b (rnum y) (rden y)) as (t & Ht & Hspec); try assumption.
      { pose proof (size_div_lt den g Hd Hg2) as Hsz.
        replace (den / g) with (rden y) in Hsz by (rewrite Hgd, N.mul_comm; symmetry; apply N.div_mul; lia). lia. }
      exists t. split; [assumption|]. rewrite Hspec. split.
      * intros (k & Hk). exists (N.succ k). rewrite N.pow_succ_r'.
        destruct Hgb as (c & Hc). destruct Hk as (c2 & Hk).
        exists (c * c2). rewrite Hk, Hgd. rewrite Hc at 1. lia.
      * intros (k & Hk). exists k. apply N.divide_trans with (m := den); [|assumption].
        exists g. lia.
Qed.

Theorem terminates_spec_lemma : forall b x, 2 <= b -> wfr x = true -> reduced x = true ->
  exists t, terminates_in_base b x = Ok t /\ (t = true <-> exists k, (rden x | b ^ k)).
Proof.
  intros b x Hb Hw Hr. unfold terminates_in_base, wfr, reduced in *.
  apply term_loop_spec; try lia.
Qed.

(* ------------------------------------------------------------------ *)
(* the remainder sequence r_{i+1} = (b * r_i) mod den, digits (b * r_i) / den *)

Fixpoint iter_rem (b den : N) (k : nat) (r : N) : N :=
  match k with O => r | S k' => iter_rem b den k' ((r * b) mod den) end.

Fixpoint iter_digits (b den : N) (k : nat) (r : N) : list N :=
  match k with O => [] | S k' => (r * b) / den :: iter_digits b den k' ((r * b) mod den) end.

Lemma iter_rem_add : forall b den j k r,
  iter_rem b den (j + k) r = iter_rem b den k (iter_rem b den j r).
Proof. intros b den j. induction j as [|j IH]; intros k r; cbn [iter_rem Nat.add]; [reflexivity|apply IH]. Qed.

Lemma iter_digits_add : forall b den j k r,
  iter_digits b den (j + k) r = iter_digits b den j r ++ iter_digits b den k (iter_rem b den j r).
Proof.
  intros b den j. induction j as [|j IH]; intros k r; cbn [iter_digits iter_rem Nat.add app]; [reflexivity|].
  f_equal. apply IH.
Qed.

Lemma iter_digits_length : forall b den k r, length (iter_digits b den k r) = k.
Proof. intros b den k. induction k as [|k IH]; intros r; cbn [iter_digits length]; [reflexivity|f_equal; apply IH]. Qed.

Lemma iter_rem_lt : forall b den k r, den <> 0 -> r < den -> iter_rem b den k r < den.
Proof.
  intros b den k. induction k as [|k IH]; intros r Hd Hr; cbn [iter_rem]; [assumption|].
  apply IH; [assumption|]. apply N.mod_lt. assumption.
Qed.

Lemma iter_digits_lt : forall b den k r, b <> 0 -> den <> 0 -> r < den ->
  Forall (fun d => d < b) (iter_digits b den k r).
Proof.
  intros b den k. induction k as [|k IH]; intros r Hb Hd Hr; cbn [iter_digits]; constructor.
  - apply N.div_lt_upper_bound; [assumption|]. nia.
  - apply IH; [assumption|assumption|]. apply N.mod_lt. assumption.
Qed.

(* the long-division identity *)
Lemma iter_identity : forall b den k r, den <> 0 ->
  r * b ^ N.of_nat k = digits_val b (iter_digits b den k r) * den + iter_rem b den k r.
Proof.
  intros b den k. induction k as [|k IH]; intros r Hd.
  - cbn [iter_digits iter_rem]. unfold digits_val. cbn. rewrite N.pow_0_r. lia.
  - cbn [iter_digits iter_rem]. rewrite digits_val_cons, iter_digits_length.
    rewrite Nat2N.inj_succ, N.pow_succ_r'.
    specialize (IH ((r * b) mod den) Hd).
    pose proof (N.div_mod' (r * b) den) as Hdm.
    remember (b ^ N.of_nat k) as P. remember ((r * b) / den) as q. remember ((r * b) mod den) as m.
    remember (digits_val b (iter_digits b den k m)) as V. remember (iter_rem b den k m) as R.
    nia.
Qed.

(* geometric-series identity: if the remainder after mu steps recurs after
   lam more steps, then  r/den = P/b^mu + R/((b^lam - 1) b^mu)  in
   cross-multiplied form *)
Lemma cycle_identity : forall b den mu lam r, den <> 0 -> b <> 0 ->
  iter_rem b den lam (iter_rem b den mu r) = iter_rem b den mu r ->
  r * b ^ N.of_nat mu * (b ^ N.of_nat lam - 1) =
  den * (digits_val b (iter_digits b den mu r) * (b ^ N.of_nat lam - 1)
         + digits_val b (iter_digits b den lam (iter_rem b den mu r))).
Proof.
  intros b den mu lam r Hd Hb0 Hcyc.
  pose proof (iter_identity b den mu r Hd) as H1.
  pose proof (iter_identity b den lam (iter_rem b den mu r) Hd) as H2.
  rewrite Hcyc in H2.
  remember (iter_rem b den mu r) as rm. remember (b ^ N.of_nat mu) as Bm.
  remember (b ^ N.of_nat lam) as Bl.
  remember (digits_val b (iter_digits b den mu r)) as P.
  remember (digits_val b (iter_digits b den lam rm)) as R.
  assert (HBl : 1 <= Bl) by (subst Bl; apply N.lt_pred_le; cbn; apply N.neq_0_lt_0, N.pow_nonzero; assumption).
  assert (Hz : exists z, Bl = z + 1) by (exists (Bl - 1); lia).
  destruct Hz as (z & Hz). rewrite Hz in *. replace (z + 1 - 1) with z by lia.
  clear HeqBl HeqBm HeqP HeqR Heqrm Hcyc HBl Hz.
  nia.
Qed.

(* ------------------------------------------------------------------ *)
(* next_digit in AllDigits mode *)

Lemma nd_all_ok : forall b den r n d, nd_all b den r = Ok (n, d) ->
  r <> 0 /\ den <> 0 /\ n = (r * b) mod den /\ d = (r * b) / den.
Proof.
  intros b den r n d H. unfold nd_all, next_digit in H. cbn [md_is_dp] in H.
  destruct (r =? 0) eqn:Er; [discriminate|].
  destruct (den =? 0) eqn:Ed; [discriminate|].
  injection H as <- <-. repeat split; try lia.
  rewrite N.mod_eq by lia. lia.
Qed.

Lemma digit_lt : forall b den r, den <> 0 -> b <> 0 -> r < den -> (r * b) / den < b.
Proof. intros. apply N.div_lt_upper_bound; [assumption|]. nia. Qed.

Section Brent.
  Variable base : basek.
  Variable den : N.
  Hypothesis Hbase : 2 <= base_val base <= 36.
  Let b := base_val base.

  Lemma phase1_pos : forall fuel power lam t h l, 1 <= lam ->
    brent_phase1 fuel b den power lam t h = Ok l -> 1 <= l.
  Proof.
    induction fuel as [|fuel IH]; intros power lam t h l Hl H; cbn [brent_phase1] in H.
    - destruct (t =? h); [injection H as <-; assumption|discriminate].
    - destruct (t =? h); [injection H as <-; assumption|].
      destruct (power =? lam).
      + destruct (nd_all b den h) as [nh| |]; cbn [bind] in H; try discriminate.
        apply IH in H; [assumption|lia].
      + destruct (nd_all b den h) as [nh| |]; cbn [bind] in H; try discriminate.
        apply IH in H; [assumption|lia].
  Qed.

  Lemma phase2_spec : forall k hare out h' out', hare < den ->
    brent_phase2 k base den hare out = Ok (h', out') ->
    h' = iter_rem b den k hare /\ out' = out ++ map dchar (iter_digits b den k hare).
  Proof.
    induction k as [|k IH]; intros hare out h' out' Hh H; cbn [brent_phase2] in H.
    - injection H as <- <-. cbn [iter_rem iter_digits map]. rewrite app_nil_r. auto.
    - fold b in H. destruct (nd_all b den hare) as [[n d]| |] eqn:End; cbn [bind] in H; try discriminate.
      apply nd_all_ok in End. destruct End as (Hr & Hd & -> & ->). cbn [fst snd] in H.
      rewrite digit_text_single in H; [|assumption|apply digit_lt; unfold b in *; lia].
      cbn [bind] in H. apply IH in H; [|apply N.mod_lt; assumption].
      destruct H as (-> & ->). cbn [iter_rem iter_digits map]. rewrite <- app_assoc. auto.
  Qed.

  Lemma phase3_spec : forall fuel t h mu out mu' out', t < den -> h < den ->
    brent_phase3 fuel base den t h mu out = Ok (mu', out') ->
    exists j, mu' = mu + N.of_nat j /\ out' = out ++ map dchar (iter_digits b den j h) /\
              iter_rem b den j t = iter_rem b den j h.
  Proof.
    induction fuel as [|fuel IH]; intros t h mu out mu' out' Ht Hh H; cbn [brent_phase3] in H.
    - destruct (t =? h) eqn:E; [|discriminate]. injection H as <- <-. apply N.eqb_eq in E. subst h.
      exists O. cbn [iter_rem iter_digits map]. rewrite app_nil_r. repeat split. lia.
    - destruct (t =? h) eqn:E.
      + injection H as <- <-. apply N.eqb_eq in E. subst h.
        exists O. cbn [iter_rem iter_digits map]. rewrite app_nil_r. repeat split. lia.
      + fold b in H.
        destruct (nd_all b den t) as [[nt dt]| |] eqn:Et; cbn [bind] in H; try discriminate.
        destruct (nd_all b den h) as [[nh dh]| |] eqn:Eh; cbn [bind] in H; try discriminate.
        apply nd_all_ok in Et. destruct Et as (_ & Hd & -> & ->).
        apply nd_all_ok in Eh. destruct Eh as (_ & _ & -> & ->). cbn [fst snd] in H.
        rewrite digit_text_single in H; [|assumption|apply digit_lt; unfold b in *; lia].
        cbn [bind] in H. apply IH in H; try (apply N.mod_lt; assumption).
        destruct H as (j & -> & -> & Hj). exists (S j). cbn [iter_rem iter_digits map].
        rewrite <- app_assoc. cbn [app]. repeat split; [lia|assumption].
  Qed.

  Lemma brents_spec : forall fuel x0 lam mu out, x0 < den ->
    brents_algorithm fuel base den x0 = Ok (lam, mu, out) ->
    exists l m : nat, lam = N.of_nat l /\ mu = N.of_nat m /\ (1 <= l)%nat /\
      out = map dchar (iter_digits b den (m + l) x0) /\
      iter_rem b den l (iter_rem b den m x0) = iter_rem b den m x0.
  Proof.
    intros fuel x0 lam mu out Hx H. unfold brents_algorithm in H. fold b in H.
    destruct (nd_all b den x0) as [[n0 d0]| |] eqn:E0; cbn [bind] in H; try discriminate.
    destruct (brent_phase1 fuel b den 1 1 x0 (fst (n0, d0))) as [lam1| |] eqn:E1; cbn [bind] in H; try discriminate.
    apply phase1_pos in E1; [|lia].
    destruct (brent_phase2 (N.to_nat lam1) base den x0 []) as [[h2 out2]| |] eqn:E2; cbn [bind] in H; try discriminate.
    apply phase2_spec in E2; [|assumption]. destruct E2 as (-> & ->). cbn [fst snd app] in H.
    apply nd_all_ok in E0. destruct E0 as (_ & Hd & _ & _).
    destruct (brent_phase3 fuel base den x0 (iter_rem b den (N.to_nat lam1) x0) 0
                (map dchar (iter_digits b den (N.to_nat lam1) x0))) as [[mu3 out3]| |] eqn:E3;
      cbn [bind] in H; try discriminate.
    apply phase3_spec in E3; [|assumption|apply iter_rem_lt; assumption].
    destruct E3 as (j & -> & -> & Hj). cbn [fst snd] in H. injection H as <- <- <-.
    exists (N.to_nat lam1), j. split; [lia|]. split; [lia|]. split; [lia|]. split.
    - rewrite <- map_app. f_equal. rewrite (Nat.add_comm j). rewrite iter_digits_add. reflexivity.
    - rewrite <- iter_rem_add. rewrite Nat.add_comm. rewrite iter_rem_add. symmetry. assumption.
  Qed.
End Brent.

Lemma firstn_len_app : forall (A : Type) (a c : list A) n, length a = n -> firstn n (a ++ c) = a.
Proof.
  intros A a c n <-. rewrite firstn_app, Nat.sub_diag, firstn_all. cbn. apply app_nil_r.
Qed.

Lemma skipn_len_app : forall (A : Type) (a c : list A) n, length a = n -> skipn n (a ++ c) = c.
Proof.
  intros A a c n <-. rewrite skipn_app, Nat.sub_diag, skipn_all. reflexivity.
Qed.

(* the recurring case of format_trailing_digits *)
Lemma ftd_recurring : forall fuel base num den sep neg ip ip_text sign text ex,
  2 <= base_val base <= 36 -> num < den ->
  format_trailing_digits fuel base num den AllDigits (Ok false) sep neg ip ip_text = Ok (sign, text, ex) ->
  exists m l : nat, (1 <= l)%nat /\ sign = neg /\ ex = true /\
    text = ip_text ++ [decimal_char sep] ++
           map dchar (iter_digits (base_val base) den m num) ++ [40] ++
           map dchar (iter_digits (base_val base) den l (iter_rem (base_val base) den m num)) ++ [41] /\
    iter_rem (base_val base) den l (iter_rem (base_val base) den m num) = iter_rem (base_val base) den m num.
Proof.
  intros fuel base num den sep neg ip ip_text sign text ex Hb Hn H.
  unfold format_trailing_digits in H. cbn [bind] in H.
  destruct (brents_algorithm fuel base den num) as [[[lam mu] out]| |] eqn:EB; cbn [bind] in H; try discriminate.
  apply brents_spec in EB; try assumption.
  destruct EB as (l & m & -> & -> & Hl & -> & Hcyc).
  rewrite map_length, iter_digits_length in H.
  replace (N.to_nat (N.of_nat m + N.of_nat l)) with (m + l)%nat in H by lia.
  rewrite Nat.ltb_irrefl in H.
  unfold print_integer_part in H. cbn [negb orb] in H. rewrite andb_true_r in H.
  injection H as <- <- <-.
  exists m, l. split; [assumption|]. split; [reflexivity|]. split; [reflexivity|]. split; [|assumption].
  replace (firstn (m + l) (map dchar (iter_digits (base_val base) den (m + l) num)))
    with (map dchar (iter_digits (base_val base) den (m + l) num))
    by (symmetry; apply firstn_all2; rewrite map_length, iter_digits_length; lia).
  rewrite iter_digits_add, map_app, Nat2N.id.
  rewrite firstn_len_app by (rewrite map_length, iter_digits_length; reflexivity).
  rewrite skipn_len_app by (rewrite map_length, iter_digits_length; reflexivity).
  reflexivity.
Qed.

(* ------------------------------------------------------------------ *)
(* format_nonrecurring: digits are produced until the remainder is zero or
   the limit is hit; trailing zeros are withheld *)

Definition nr_sign (neg : bool) (nz : list N) : option bool :=
  match nz with [] => None | _ => Some neg end.
Definition nr_td (ip_text : list N) (point : N) (nz : list N) : list N :=
  match nz with [] => [] | _ => ip_text ++ [point] ++ map dchar nz end.

Lemma iter_digits_snoc : forall b den j r,
  iter_digits b den (S j) r = iter_digits b den j r ++ [(iter_rem b den j r * b) / den].
Proof.
  intros. replace (S j) with (j + 1)%nat by lia. rewrite iter_digits_add. reflexivity.
Qed.

Lemma iter_rem_snoc : forall b den j r,
  iter_rem b den (S j) r = (iter_rem b den j r * b) mod den.
Proof.
  intros. replace (S j) with (j + 1)%nat by lia. rewrite iter_rem_add. reflexivity.
Qed.

Lemma repeat_snoc : forall (A : Type) (a : A) n, repeat a n ++ [a] = repeat a (S n).
Proof. intros A a n. induction n as [|n IH]; cbn [repeat app]; [reflexivity|f_equal; assumption]. Qed.

(* number of digits from the first non-zero digit on *)
Fixpoint drop_zeros (ds : list N) : list N :=
  match ds with
  | [] => []
  | d :: r => if d =? 0 then drop_zeros r else ds
  end.
Definition sig_len (ds : list N) : nat := length (drop_zeros ds).

Lemma sig_len_snoc_zero : forall ds,
  sig_len (ds ++ [0]) = if Nat.eqb (sig_len ds) 0 then 0%nat else S (sig_len ds).
Proof.
  unfold sig_len. induction ds as [|x r IH]; [reflexivity|].
  cbn [app drop_zeros]. destruct (x =? 0) eqn:E; [exact IH|].
  cbn [length Nat.eqb]. rewrite app_length. cbn [length]. lia.
Qed.

Lemma sig_len_snoc_nz : forall ds d, d <> 0 -> sig_len (ds ++ [d]) = S (sig_len ds).
Proof.
  unfold sig_len. intros ds d Hd. induction ds as [|x r IH].
  - cbn [app drop_zeros]. replace (d =? 0) with false by lia. reflexivity.
  - cbn [app drop_zeros]. destruct (x =? 0) eqn:E; [exact IH|].
    cbn [length]. rewrite app_length. cbn [length]. lia.
Qed.

Lemma nonrec_spec : forall fuel md base den sep neg ip ip_text ign num,
  2 <= base_val base <= 36 -> den <> 0 -> num < den ->
  forall j cur i tz asign td nz sign text ex,
  cur = iter_rem (base_val base) den j num ->
  iter_digits (base_val base) den j num = nz ++ repeat 0 (N.to_nat tz) ->
  (nz = [] \/ last nz 0 <> 0) ->
  asign = nr_sign neg nz -> td = nr_td ip_text (decimal_char sep) nz ->
  (ign = false -> i = N.of_nat j) ->
  (ign = true -> i = N.of_nat (sig_len (iter_digits (base_val base) den j num))) ->
  nonrec_loop fuel md base den sep neg ip ip_text ign cur i tz asign td = Ok (sign, text, ex) ->
  exists (j' : nat) nz' (tz' : nat) i',
    iter_digits (base_val base) den j' num = nz' ++ repeat 0 tz' /\
    (nz' = [] \/ last nz' 0 <> 0) /\
    ex = (iter_rem (base_val base) den j' num =? 0) /\
    (iter_rem (base_val base) den j' num = 0 \/ md_is_dp md i' = true) /\
    (ign = false -> i' = N.of_nat j') /\ (j <= j')%nat /\
    (nz' = [] -> text = ip_text /\ sign = neg && negb (ip =? 0)) /\
    (nz' <> [] -> text = ip_text ++ [decimal_char sep] ++ map dchar nz' /\ sign = neg) /\
    (forall n, md = DecimalPlaces n -> i <= n -> i' <= n) /\
    (ign = true -> i' = N.of_nat (sig_len (iter_digits (base_val base) den j' num))) /\
    (forall n, md = DpButIgnoreLeadingZeroes n -> i <= n -> i' <= n).
Proof.
  intros fuel md base den sep neg ip ip_text ign num Hb Hd Hn.
  set (b := base_val base) in *.
  induction fuel as [|fuel IH]; intros j cur i tz asign td nz sign text ex Hcur Hds Hlast Has Htd Hi Hs H;
    cbn [nonrec_loop] in H; [discriminate|].
  fold b in H. unfold next_digit in H.
  destruct (cur =? 0) eqn:Ec.
  - (* remainder zero: terminated *)
    exists j, nz, (N.to_nat tz), i. split; [assumption|]. split; [assumption|].
    rewrite <- Hcur. apply N.eqb_eq in Ec.
    destruct nz as [|x nz0]; cbn [nr_sign nr_td] in Has, Htd; subst asign td; cbn [app] in H;
      unfold print_integer_part in H; cbn [negb orb] in H; injection H as <- <- <-.
    + repeat split; try (rewrite Ec; reflexivity); auto; try lia; try congruence.
    + repeat split; try (rewrite Ec; reflexivity); auto; try lia; try discriminate.
  - destruct (md_is_dp md i) eqn:Emd.
    + exists j, nz, (N.to_nat tz), i. split; [assumption|]. split; [assumption|].
      rewrite <- Hcur.
      destruct nz as [|x nz0]; cbn [nr_sign nr_td] in Has, Htd; subst asign td; cbn [app] in H;
        unfold print_integer_part in H; cbn [negb orb] in H; injection H as <- <- <-.
      * repeat split; auto; try lia; try congruence.
      * repeat split; auto; try lia; try discriminate.
    + replace (den =? 0) with false in H by lia.
      assert (Hcl : cur < den) by (rewrite Hcur; apply iter_rem_lt; assumption).
      assert (Hmod : cur * b - cur * b / den * den = (cur * b) mod den)
        by (rewrite N.mod_eq by assumption; lia).
      rewrite Hmod in H.
      assert (Hdl : cur * b / den < b) by (apply digit_lt; unfold b in *; lia).
      destruct (cur * b / den =? 0) eqn:Ez.
      * (* a zero digit is withheld *)
        apply N.eqb_eq in Ez.
        apply (IH (S j) _ _ _ _ _ nz) in H; try assumption.
        -- destruct H as (j' & nz' & tz' & i' & H1 & H2 & H3 & H4 & H5 & H6 & H7 & H8 & H9 & H10 & H11).
           exists j', nz', tz', i'. repeat split; try assumption; try lia; try (apply H7; assumption); try (apply H8; assumption).
           ++ intros n Hmdn Hin. apply (H9 n Hmdn). subst md. cbn [md_is_dp] in Emd.
              destruct ((i =? 0) && ign); lia.
           ++ intros n Hmdn Hin. apply (H11 n Hmdn). subst md. cbn [md_is_dp] in Emd.
              destruct ((i =? 0) && ign); lia.
        -- rewrite iter_rem_snoc, <- Hcur. reflexivity.
        -- rewrite iter_digits_snoc, <- Hcur, Ez, Hds. rewrite <- app_assoc. rewrite repeat_snoc.
           f_equal. f_equal. lia.
        -- intros Hign. specialize (Hi Hign). rewrite Hign, andb_false_r. lia.
        -- intros Hign. specialize (Hs Hign). rewrite Hign, andb_true_r.
           rewrite iter_digits_snoc, <- Hcur, Ez, sig_len_snoc_zero.
           destruct (i =? 0) eqn:Ei.
           ++ apply N.eqb_eq in Ei. replace (sig_len (iter_digits b den j num)) with O by lia. cbn [Nat.eqb]. lia.
           ++ apply N.eqb_neq in Ei. destruct (sig_len (iter_digits b den j num)) eqn:Esl; [lia|].
              cbn [Nat.eqb]. lia.
      * (* a non-zero digit: pending zeros and the digit are printed *)
        apply N.eqb_neq in Ez.
        set (d := cur * b / den) in *.
        assert (Htd1 : (let '(asign0, td1) :=
                          match asign with
                          | Some s => (s, td)
                          | None => let '(s, t) := print_integer_part neg ip ip_text false in
                                    (s, td ++ t ++ [decimal_char sep])
                          end in (asign0, td1)) = (neg, ip_text ++ [decimal_char sep] ++ map dchar nz)).
        { destruct nz as [|x nz0]; cbn [nr_sign nr_td] in Has, Htd; subst asign td.
          - unfold print_integer_part. cbn [negb orb app map]. rewrite andb_true_r. reflexivity.
          - reflexivity. }
        destruct (match asign with
                  | Some s => (s, td)
                  | None => let '(s, t) := print_integer_part neg ip ip_text false in
                            (s, td ++ t ++ [decimal_char sep])
                  end) as [asign0 td1].
        injection Htd1 as -> ->.
        rewrite digit_text_single in H by (assumption || (unfold b in *; lia)).
        cbn [bind] in H.
        apply (IH (S j) _ _ _ _ _ (nz ++ repeat 0 (N.to_nat tz) ++ [d])) in H; try assumption.
        -- destruct H as (j' & nz' & tz' & i' & H1 & H2 & H3 & H4 & H5 & H6 & H7 & H8 & H9 & H10 & H11).
           exists j', nz', tz', i'. repeat split; try assumption; try lia; try (apply H7; assumption); try (apply H8; assumption).
           ++ intros n Hmdn Hin. apply (H9 n Hmdn). subst md. cbn [md_is_dp] in Emd. lia.
           ++ intros n Hmdn Hin. apply (H11 n Hmdn). subst md. cbn [md_is_dp] in Emd. lia.
        -- rewrite iter_rem_snoc, <- Hcur. reflexivity.
        -- rewrite iter_digits_snoc, <- Hcur, Hds. fold d. cbn [N.to_nat repeat]. rewrite app_nil_r, <- app_assoc. reflexivity.
        -- right. rewrite !app_assoc. rewrite last_last. assumption.
        -- destruct (nz ++ repeat 0 (N.to_nat tz) ++ [d]) eqn:E; [|reflexivity].
           apply app_eq_nil in E. destruct E as (_ & E). apply app_eq_nil in E. destruct E as (_ & E). discriminate.
        -- unfold nr_td.
           destruct (nz ++ repeat 0 (N.to_nat tz) ++ [d]) eqn:E.
           { apply app_eq_nil in E. destruct E as (_ & E). apply app_eq_nil in E. destruct E as (_ & E). discriminate. }
           rewrite <- E. rewrite !map_app. rewrite zeros_map. cbn [map]. rewrite <- !app_assoc. reflexivity.
        -- intros Hign. specialize (Hi Hign). lia.
        -- intros Hign. specialize (Hs Hign).
           rewrite iter_digits_snoc, <- Hcur. fold d. rewrite sig_len_snoc_nz by assumption. lia.
Qed.
